#!/bin/sh
# Offline setup after a fresh restore: build the translator, regenerate coq/gen from
# /repo, compile the whole Coq development (full .vo) and warm the Go build cache.
set -e
cd "$(dirname "$0")"
export GOFLAGS=-mod=mod GOPROXY=off GOSUMDB=off GOTOOLCHAIN=local CGO_ENABLED=0
mkdir -p .build evidence replays
(cd tools/gotables && go build -o ../../.build/gotables .)
./.build/gotables -repo "${VERIF_REPO:-/repo}" -out coq/gen
cd coq
{ echo "-Q . NSQV"; for d in gen model judge proofs props; do ls $d/*.v 2>/dev/null | sort; done; } > _CoqProject
coq_makefile -f _CoqProject -o Makefile.coq
timeout 3000 make -f Makefile.coq -j12
cd ../harness
cp "${VERIF_REPO:-/repo}/go.sum" go.sum
go build -tags verif -o ../.build/ ./cmd/... 
cd ..
# whole-tree lint: no Admitted/admit/Axiom/Parameter/... anywhere in the development
python3 - <<'PY'
import sys, os
sys.path.insert(0, "vlib")
import engine
class C: pass
c = C(); c.coqdir = os.path.join(os.getcwd(), "coq")
bad = engine.lint(c)
if bad:
    print("LINT: forbidden constructs:", *bad, sep="\n  ")
    sys.exit(1)
PY
echo "setup ok"
