#!/usr/bin/env python3
"""Bootstrap for coq/proofs/CoreSrcDefs.v and CoreSrcC*.v: writes, from coq/gen/CoreShape.v as generated from the
tree the core model was validated against, the EXPECTED statement skeletons the model relies
on.  Run once (and again, by hand, only after reviewing a deliberate source change); the
checks never run it."""
import re, sys
gen = open(sys.argv[1] if len(sys.argv) > 1 else '/verif/coq/gen/CoreShape.v').read()
shapes = {}
for m in re.finditer(r'Definition shape_(\w+) : list string :=\n  \[ (.*?) \]\.\n', gen, re.S):
    shapes[m.group(1)] = [t.strip()[2:].strip() if t.strip().startswith('; ') else t.strip() for t in m.group(2).split('\n')]

WHY = {
 'protocolV2_FIN': 'FIN: state guard admits subscribed and closing; the client counter is decremented only after the channel accepted the FIN',
 'protocolV2_REQ': 'REQ: same guard; delay clamped; the client counter moves only after the channel accepted the REQ',
 'protocolV2_TOUCH': 'TOUCH: same guard; the hold is restarted with the negotiated msg_timeout (client.MsgTimeout)',
 'protocolV2_CLS': 'CLS: only from subscribed; StartClose',
 'protocolV2_SendMessage': 'the frame is the message as stored (WriteTo), one Send',
 'Channel_put': 'Channel.put: zone/region hand-off, memory queue, else backend; ephemeral: drop',
 'Channel_PutMessage': 'PutMessage holds the exit lock (RLock) and counts the message',
 'Channel_PutMessageDeferred': 'a deferred put counts the message and starts the deferred timeout',
 'Channel_StartInFlightTimeout': 'registration in flight: map insertion, then the timeout queue',
 'Channel_StartDeferredTimeout': 'deferred registration: map, then the deferred queue',
 'Channel_FinishMessage': 'FIN: pop from the in-flight map (owner checked there), remove from the timeout queue',
 'Channel_RequeueMessage': 'REQ: exit lock held across pop and re-queue (F16); immediate put or deferred',
 'Channel_TouchMessage': 'TOUCH: pop, new deadline capped at delivery + max-msg-timeout, push back into BOTH map and queue',
 'Channel_pushInFlightMessage': 'one entry per id',
 'Channel_popInFlightMessage': 'pop checks the owner (client id)',
 'Channel_processInFlightQueue': 'timeout scan: exit lock; every popped message whose deadline (re-read after the pop: a TOUCH may have landed since the peek) has passed is re-queued, any other goes back in flight; the owner counter moves only if the owner is still attached',
 'Channel_processDeferredQueue': 'deferred scan: exit lock; every popped message is re-queued',
 'Channel_flush': 'flush writes the hand-off queues, the memory queue, the in-flight set and the deferred set to the backend',
 'Channel_exit': 'exit: exclusive exit lock, then flush (close) or empty (delete)',
 'Channel_Empty': 'Empty: exclusive exit lock (waits for requeues in progress), then empty()',
 'Channel_empty': 'empty: clears in-flight and deferred, drains the queues and the backend, THEN resets the consumers (F17)',
 'Channel_AddClient': 'AddClient', 'Channel_RemoveClient': 'RemoveClient: an ephemeral channel deletes itself with its last consumer',
 'Topic_messagePump': 'topic pump: every message goes to every current channel (copy for all but the first), deferred ones through PutMessageDeferred; paused or channel-less topics read nothing',
 'Topic_put': 'Topic.put: memory queue else backend (ephemeral topic: dummy backend)',
 'Topic_PutMessage': 'PutMessage holds the read lock against exit and counts', 'Topic_PutMessages': 'PutMessages likewise',
 'Topic_flush': 'flush writes the memory queue to the backend', 'Topic_exit': 'exit: close flushes channels, delete deletes them',
 'Topic_GetChannel': 'GetChannel notifies the pump of a new channel',
 'Topic_DeleteExistingChannel': 'DeleteExistingChannel: remove from the map, delete the channel, tell the pump; ephemeral topic goes with its last channel',
 'NSQD_GetTopic': 'GetTopic: second lookup under the write lock (one Topic object per name)',
 'NSQD_DeleteExistingTopic': 'DeleteExistingTopic: the topic is torn down BEFORE its name is freed',
 'NSQD_Exit': 'Exit: listeners, metadata, topics closed',
 'clientV2_SetReadyCount': 'any change of RDY wakes the pump', 'clientV2_IsReadyForMessages': 'the send guard: not paused, in-flight < RDY, RDY > 0',
 'clientV2_SendingMessage': 'counters on delivery', 'clientV2_FinishedMessage': 'counters on FIN',
 'clientV2_TimedOutMessage': 'counters on timeout', 'clientV2_RequeuedMessage': 'counters on REQ', 'clientV2_StartClose': 'CLS: RDY 0, state closing',
 'clientV2_Empty': 'the consumer side of an Empty: wakes the pump, does NOT store into the in-flight count (the channel has released it per message: F23)',
 'Channel_initPQ': 'fresh in-flight and deferred structures; the in-flight set that was replaced is handed back to the caller',
 'protocolV2_NewClient': 'connection ids come from ONE atomic increment (never reused, never shared)',
 'Channel_doPause': 'pause / unpause of a channel: the flag is stored FIRST, then every consumer is woken to re-read it',
 'Topic_doPause': 'pause / unpause of a topic: the flag is stored, then the pump is told',
 'Channel_popDeferredMessage': 'pop from the deferred map', 'Channel_pushDeferredMessage': 'one deferred entry per id',
 'Channel_addToInFlightPQ': 'timeout queue insertion under the in-flight mutex', 'Channel_addToDeferredPQ': 'deferred queue insertion under the deferred mutex',
}
def coqlist(toks):
    return '[ ' + '\n  ; '.join('"' + t.strip('"').replace('"', '""') + '"' if not (t.startswith('"') and t.endswith('"')) else t for t in toks) + ' ]'
out = []
out.append('''(* The source-order facts about nsqd's core functions that the core model (model/Core.v)
   assumes, stated as theorems about the skeletons REGENERATED from /repo on every run
   (gen/CoreShape.v, tools/gotables/coreshape.go).  A source change that reorders, drops,
   duplicates or conditions one of these effects breaks the lemma named after the function,
   and with it the source-shape theorem of every property that relies on it.  (A harmless
   rewrite of one of these functions breaks it too: the check then searches the
   implementation for a failing input and, finding none, reports that the property is no
   longer shown.)  The expectations below were written by tools/mk_coresrc.py from the tree
   the model was validated against and reviewed by hand; the comment on each says what the
   model takes from it. *)
From Coq Require Import List String Bool.
From NSQV Require Import gen.CoreShape.
Import ListNotations.
Open Scope string_scope.

Fixpoint drop_until (a : string) (l : list string) : list string :=
  match l with [] => [] | x :: r => if String.eqb x a then l else drop_until a r end.
Fixpoint take_through (b : string) (l : list string) : list string :=
  match l with [] => [] | x :: r => if String.eqb x b then [x] else x :: take_through b r end.
(* from the first occurrence of a through the next occurrence of b *)
Definition seg (a b : string) (l : list string) : list string := take_through b (drop_until a l).
Definition cases_of (l : list string) : list string :=
  filter (fun t => String.prefix "case " t) l.
''')
segs = {
 'pump_loop_head': ('protocolV2_messagePump', 'seg "for {" "call client.IsReadyForMessages"', 'the consumer pump declares its per-iteration message variables INSIDE the loop (a stale disk buffer cannot be delivered twice)'),
 'pump_not_ready': ('protocolV2_messagePump', 'seg "if subChannel == nil || !client.IsReadyForMessages() {" "call client.writeLock.Lock"', 'a consumer that is not ready listens to NO message source (memory, zone, region, backend)'),
 'pump_deliver': ('protocolV2_messagePump', 'drop_until "if len(b) != 0 {"', 'delivery: attempts+1, registered in flight BEFORE the frame is written, client counters, then SendMessage'),
 'pump_sources': ('protocolV2_messagePump', 'cases_of', 'the select cases of the consumer pump (the four message sources among them)'),
}
# The core model (model/Core.v) is shared by C01-C05, C08 and C13: every one of their theorems
# is about the whole step function, so every one of them relies on ALL the source-order facts.
ALL = list(WHY.keys()) + list(segs.keys())
GROUPS = {p: ALL for p in ['C01', 'C02', 'C03', 'C04', 'C05', 'C08', 'C13']}
GROUPS['C12'] = ['NSQD_GetTopic']
def evalseg(name):
    fn, expr, _ = segs[name]
    l = shapes[fn]
    def drop_until(a, l):
        for i, x in enumerate(l):
            if x == a: return l[i:]
        return []
    def take_through(b, l):
        r = []
        for x in l:
            r.append(x)
            if x == b: break
        return r
    q = lambda s: '"' + s + '"'
    if expr.startswith('seg '):
        a, b = re.findall(r'"([^"]*)"', expr)
        return take_through(q(b), drop_until(q(a), l))
    if expr.startswith('drop_until'):
        a, = re.findall(r'"([^"]*)"', expr)
        return drop_until(q(a), l)
    if expr == 'cases_of':
        return [t for t in l if t.startswith('"case ')]
for name in WHY:
    out.append('(* %s *)' % WHY[name])
    out.append('Definition expect_%s : list string :=\n  %s.\n' % (name, coqlist(shapes[name])))
for name, (fn, expr, why) in segs.items():
    out.append('(* %s *)' % why)
    out.append('Definition expect_%s : list string :=\n  %s.\n' % (name, coqlist(evalseg(name))))
def stmt(n):
    if n in segs:
        fn, expr, _ = segs[n]
        return '%s shape_%s = expect_%s' % (expr, fn, n)
    return 'shape_%s = expect_%s' % (n, n)
for g, names in GROUPS.items():
    out.append('Definition src_facts_%s : Prop :=\n  %s.\n' % (g, '\n  /\\ '.join(stmt(n) for n in names)))
open('/verif/coq/proofs/CoreSrcDefs.v', 'w').write('\n'.join(out))
for g, names in GROUPS.items():
    o = ['(* %s: the source-order facts of proofs/CoreSrcDefs.v this property relies on, each checked\n   against the skeleton regenerated from /repo (one lemma per function, so that a failure names it). *)' % g,
         'From Coq Require Import List String.', 'From NSQV Require Import gen.CoreShape proofs.CoreSrcDefs.', 'Import ListNotations.', 'Open Scope string_scope.', '']
    for n in dict.fromkeys(names):
        o.append('Lemma src_%s : %s.\nProof. reflexivity. Qed.' % (n, stmt(n)))
    o.append('')
    o.append('Lemma src_%s : src_facts_%s.\nProof. unfold src_facts_%s. repeat split; first [%s]. Qed.' % (g, g, g, ' | '.join('exact src_' + n for n in dict.fromkeys(names))))
    open('/verif/coq/proofs/CoreSrc%s.v' % g, 'w').write('\n'.join(o) + '\n')
