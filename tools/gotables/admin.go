package main

// Emitter for coq/gen/AdminRoutes.v (C17, C18):
//   * every nsqadmin route registered in NewHTTPServer (router.Handle / router.Handler)
//     with, per handler, the ordered EVENT SUMMARY of its body: first-occurrence order of
//     the calls that matter, following helper methods of httpServer (two levels);
//   * for every clusterinfo method that reaches client.POSTV1 the ordered list of its
//     fan-out steps (producer look-ups and POST loops with their uri / query formats),
//     helper methods inlined with their arguments substituted.
// A guard is recorded as a guard only when its SHAPE matches:
//     if !s.isAuthorizedAdminRequest(req) { return nil, http_api.Err{403, ...} }
// as a top-level statement of the handler (or of a helper called from a top-level
// simple statement); the CIDR test only as
//     if <x> != "" { ... if !<ipnet>.Contains(<ip>) { return nil, http_api.Err{403, ...} } }
// with <ipnet> the network returned by net.ParseCIDR.  Anything else that calls these
// functions is recorded as AAuthCall / ACidrBad, which no theorem accepts as a guard.

import (
	"fmt"
	"go/ast"
	"go/token"
	"sort"
	"strconv"
	"strings"
)

func init() { register("AdminRoutes.v", genAdminRoutes) }

func adm_coqStr(s string) string { return "\"" + strings.ReplaceAll(s, "\"", "\"\"") + "\"" }

// ---------------------------------------------------------------- small ast helpers

// adm_selChain returns the dotted chain of a selector expression: s.ci.GetX -> [s ci GetX];
// calls in the chain are looked through (s.nsqadmin.getOpts().X -> [s nsqadmin getOpts X]).
func adm_selChain(e ast.Expr) []string {
	switch x := e.(type) {
	case *ast.Ident:
		return []string{x.Name}
	case *ast.SelectorExpr:
		c := adm_selChain(x.X)
		if c == nil {
			return nil
		}
		return append(c, x.Sel.Name)
	case *ast.CallExpr:
		return adm_selChain(x.Fun)
	case *ast.ParenExpr:
		return adm_selChain(x.X)
	}
	return nil
}

func adm_recvName(fd *ast.FuncDecl) string {
	if fd.Recv != nil && len(fd.Recv.List) > 0 && len(fd.Recv.List[0].Names) > 0 {
		return fd.Recv.List[0].Names[0].Name
	}
	return ""
}

func adm_stringLit(e ast.Expr) (string, bool) {
	if bl, ok := e.(*ast.BasicLit); ok && bl.Kind == token.STRING {
		s, err := strconv.Unquote(bl.Value)
		if err == nil {
			return s, true
		}
	}
	return "", false
}

// adm_returns403: the block's only statement is `return nil, http_api.Err{403, ...}`
func adm_returns403(b *ast.BlockStmt) bool {
	if b == nil || len(b.List) != 1 {
		return false
	}
	rs, ok := b.List[0].(*ast.ReturnStmt)
	if !ok || len(rs.Results) != 2 {
		return false
	}
	if id, ok := rs.Results[0].(*ast.Ident); !ok || id.Name != "nil" {
		return false
	}
	cl, ok := rs.Results[1].(*ast.CompositeLit)
	if !ok || len(cl.Elts) < 1 {
		return false
	}
	ch := adm_selChain(cl.Type)
	if len(ch) != 2 || ch[0] != "http_api" || ch[1] != "Err" {
		return false
	}
	first := cl.Elts[0]
	if kv, ok := first.(*ast.KeyValueExpr); ok {
		if k, ok := kv.Key.(*ast.Ident); !ok || k.Name != "Code" {
			return false
		}
		first = kv.Value
	}
	bl, ok := first.(*ast.BasicLit)
	return ok && bl.Kind == token.INT && bl.Value == "403"
}

// adm_negatedCall: `!recv.<name>(...)` with no else-branch relevance; returns the call
func adm_negatedCall(e ast.Expr) *ast.CallExpr {
	u, ok := e.(*ast.UnaryExpr)
	if !ok || u.Op != token.NOT {
		return nil
	}
	x := u.X
	if p, ok := x.(*ast.ParenExpr); ok {
		x = p.X
	}
	c, _ := x.(*ast.CallExpr)
	return c
}

func adm_isSimpleStmt(s ast.Stmt) bool {
	switch s.(type) {
	case *ast.ReturnStmt, *ast.ExprStmt, *ast.AssignStmt, *ast.DeclStmt:
		return true
	}
	return false
}

// ---------------------------------------------------------------- handler summaries

type admCtx struct {
	p        *pkg
	ciPosts  map[string]bool // clusterinfo method -> reaches POSTV1
	ciKnown  map[string]bool // clusterinfo methods that exist
	recvType string
	events   []string
	seen     map[string]bool
}

func (a *admCtx) emit(ev string) {
	if !a.seen[ev] {
		a.seen[ev] = true
		a.events = append(a.events, ev)
	}
}

// guard shape on one statement
func (a *admCtx) isGuardStmt(s ast.Stmt, recv string) bool {
	is, ok := s.(*ast.IfStmt)
	if !ok || is.Init != nil || is.Else != nil {
		return false
	}
	c := adm_negatedCall(is.Cond)
	if c == nil {
		return false
	}
	ch := adm_selChain(c.Fun)
	if len(ch) != 2 || ch[0] != recv || ch[1] != "isAuthorizedAdminRequest" {
		return false
	}
	return adm_returns403(is.Body)
}

// adm_cidrNetVar: the identifier bound to the *IPNet result of net.ParseCIDR in the body
func adm_cidrNetVar(body *ast.BlockStmt) string {
	name := ""
	ast.Inspect(body, func(n ast.Node) bool {
		as, ok := n.(*ast.AssignStmt)
		if !ok || len(as.Rhs) != 1 || len(as.Lhs) != 3 {
			return true
		}
		c, ok := as.Rhs[0].(*ast.CallExpr)
		if !ok {
			return true
		}
		ch := adm_selChain(c.Fun)
		if len(ch) == 2 && ch[0] == "net" && ch[1] == "ParseCIDR" {
			if id, ok := as.Lhs[1].(*ast.Ident); ok && name == "" {
				name = id.Name
			}
		}
		return true
	})
	return name
}

// CIDR gate shape on one top-level statement
func (a *admCtx) isCidrStmt(s ast.Stmt, netVar string) bool {
	is, ok := s.(*ast.IfStmt)
	if !ok || is.Else != nil || netVar == "" {
		return false
	}
	be, ok := is.Cond.(*ast.BinaryExpr)
	if !ok || be.Op != token.NEQ {
		return false
	}
	if v, ok := adm_stringLit(be.Y); !ok || v != "" {
		return false
	}
	found := false
	for _, st := range is.Body.List {
		inner, ok := st.(*ast.IfStmt)
		if !ok || inner.Init != nil || inner.Else != nil {
			continue
		}
		c := adm_negatedCall(inner.Cond)
		if c == nil {
			continue
		}
		ch := adm_selChain(c.Fun)
		if len(ch) == 2 && ch[0] == netVar && ch[1] == "Contains" && adm_returns403(inner.Body) {
			found = true
		}
	}
	return found
}

func (a *admCtx) walkBody(fd *ast.FuncDecl, topLevel bool, depth int) {
	recv := adm_recvName(fd)
	netVar := adm_cidrNetVar(fd.Body)
	for _, st := range fd.Body.List {
		if topLevel && a.isGuardStmt(st, recv) {
			a.emit("AGuard")
			continue
		}
		if topLevel && a.isCidrStmt(st, netVar) {
			a.emit("ACidr")
			// other events inside the gate block (none expected) are still recorded
			a.walkNode(st, recv, netVar, false, depth, true)
			continue
		}
		a.walkNode(st, recv, netVar, topLevel && adm_isSimpleStmt(st), depth, false)
	}
}

func (a *admCtx) walkNode(n ast.Node, recv, netVar string, simpleTop bool, depth int, inCidrGate bool) {
	ast.Inspect(n, func(n ast.Node) bool {
		c, ok := n.(*ast.CallExpr)
		if !ok {
			return true
		}
		ch := adm_selChain(c.Fun)
		switch {
		case len(ch) == 2 && ch[0] == recv && ch[1] == "isAuthorizedAdminRequest":
			a.emit("AAuthCall")
		case len(ch) == 2 && netVar != "" && ch[0] == netVar && ch[1] == "Contains":
			if !inCidrGate {
				a.emit("ACidrBad")
			}
		case len(ch) == 3 && ch[0] == recv && ch[1] == "ci":
			if a.ciPosts[ch[2]] || !a.ciKnown[ch[2]] {
				a.emit("(AMut " + adm_coqStr(ch[2]) + ")")
			} else {
				a.emit("(ARead " + adm_coqStr(ch[2]) + ")")
			}
		case len(ch) == 3 && ch[0] == recv && ch[1] == "client":
			a.emit("(AClient " + adm_coqStr(ch[2]) + ")")
		case len(ch) == 3 && ch[0] == recv && ch[1] == "nsqadmin" && ch[2] == "swapOpts":
			a.emit("ASwap")
		case len(ch) == 2 && ch[0] == recv && ch[1] == "notifyAdminAction":
			a.emit("ANotify")
		case len(ch) == 3 && ch[0] == "json" && ch[1] == "NewDecoder" && ch[2] == "Decode":
			a.emit("ADecode")
		case len(ch) == 2 && ch[0] == "protocol" && strings.HasPrefix(ch[1], "IsValid"):
			a.emit("(AValid " + adm_coqStr(ch[1]) + ")")
		case len(ch) == 1 && ch[0] == "getOptByCfgName":
			a.emit("AGetOpt")
		case len(ch) == 2 && ch[0] == "http_api" && ch[1] == "NewReqParams":
			a.emit("AParams")
		case len(ch) == 2 && ch[0] == recv:
			if helper := a.p.method(a.recvType, ch[1]); helper != nil && helper.Body != nil {
				if depth < 2 {
					a.walkBody(helper, simpleTop, depth+1)
				} else {
					a.emit("(ADeep " + adm_coqStr(ch[1]) + ")")
				}
			}
		}
		return true
	})
}

// ---------------------------------------------------------------- clusterinfo fan-out

type adm_ciStep struct {
	cond string
	term string
}

type adm_ciCtx struct {
	p     *pkg
	posts map[string]bool
}

func adm_ciMethods(p *pkg) map[string]*ast.FuncDecl {
	res := map[string]*ast.FuncDecl{}
	for _, n := range p.fileNames() {
		for _, d := range p.files[n].Decls {
			fd, ok := d.(*ast.FuncDecl)
			if !ok || fd.Recv == nil || len(fd.Recv.List) == 0 || fd.Body == nil {
				continue
			}
			t := fd.Recv.List[0].Type
			if st, ok := t.(*ast.StarExpr); ok {
				t = st.X
			}
			if id, ok := t.(*ast.Ident); ok && id.Name == "ClusterInfo" {
				res[fd.Name.Name] = fd
			}
		}
	}
	return res
}

func adm_directCalls(fd *ast.FuncDecl) (methods []string, postsDirectly bool) {
	recv := adm_recvName(fd)
	ast.Inspect(fd.Body, func(n ast.Node) bool {
		c, ok := n.(*ast.CallExpr)
		if !ok {
			return true
		}
		ch := adm_selChain(c.Fun)
		if len(ch) == 3 && ch[0] == recv && ch[1] == "client" && strings.HasPrefix(ch[2], "POST") {
			postsDirectly = true
		}
		if len(ch) == 2 && ch[0] == recv {
			methods = append(methods, ch[1])
		}
		return true
	})
	return
}

func adm_ciPostClosure(ms map[string]*ast.FuncDecl) (posts map[string]bool, leaf map[string]bool) {
	posts, leaf = map[string]bool{}, map[string]bool{}
	calls := map[string][]string{}
	for name, fd := range ms {
		c, direct := adm_directCalls(fd)
		calls[name] = c
		if direct {
			posts[name] = true
			leaf[name] = true
		}
	}
	for changed := true; changed; {
		changed = false
		for name := range ms {
			if posts[name] {
				continue
			}
			for _, c := range calls[name] {
				if posts[c] {
					posts[name] = true
					changed = true
					break
				}
			}
		}
	}
	return
}

func adm_paramNames(fd *ast.FuncDecl) []string {
	var ns []string
	for _, f := range fd.Type.Params.List {
		for _, n := range f.Names {
			ns = append(ns, n.Name)
		}
	}
	return ns
}

func adm_firstParamType(fd *ast.FuncDecl) string {
	if len(fd.Type.Params.List) == 0 {
		return ""
	}
	switch t := fd.Type.Params.List[0].Type.(type) {
	case *ast.ArrayType:
		if id, ok := t.Elt.(*ast.Ident); ok {
			return "[]" + id.Name
		}
	case *ast.Ident:
		return t.Name
	}
	return "?"
}

// adm_resolveStr: a string literal, a parameter bound by the caller, or a local variable
// whose most recent assignment before pos is fmt.Sprintf(<literal>, ...) / a literal.
func adm_resolveStr(e ast.Expr, fd *ast.FuncDecl, pos token.Pos, env map[string]string) string {
	if s, ok := adm_stringLit(e); ok {
		return s
	}
	id, ok := e.(*ast.Ident)
	if !ok {
		return "?"
	}
	best := token.NoPos
	val := ""
	found := false
	ast.Inspect(fd.Body, func(n ast.Node) bool {
		as, ok := n.(*ast.AssignStmt)
		if !ok || as.Pos() >= pos || len(as.Lhs) != 1 || len(as.Rhs) != 1 {
			return true
		}
		l, ok := as.Lhs[0].(*ast.Ident)
		if !ok || l.Name != id.Name {
			return true
		}
		if as.Pos() > best {
			best = as.Pos()
			found = true
			val = "?"
			if s, ok := adm_stringLit(as.Rhs[0]); ok {
				val = s
			} else if c, ok := as.Rhs[0].(*ast.CallExpr); ok {
				ch := adm_selChain(c.Fun)
				if len(ch) == 2 && ch[0] == "fmt" && ch[1] == "Sprintf" && len(c.Args) > 0 {
					if s, ok := adm_stringLit(c.Args[0]); ok {
						val = s
					}
				}
			}
		}
		return true
	})
	if found {
		return val
	}
	if v, ok := env[id.Name]; ok {
		return v
	}
	return "?"
}

func adm_condText(e ast.Expr) string {
	switch x := e.(type) {
	case *ast.BinaryExpr:
		return adm_condText(x.X) + " " + x.Op.String() + " " + adm_condText(x.Y)
	case *ast.CallExpr:
		var as []string
		for _, a := range x.Args {
			as = append(as, adm_condText(a))
		}
		return adm_condText(x.Fun) + "(" + strings.Join(as, ", ") + ")"
	case *ast.Ident:
		return x.Name
	case *ast.BasicLit:
		return x.Value
	case *ast.SelectorExpr:
		return adm_condText(x.X) + "." + x.Sel.Name
	case *ast.UnaryExpr:
		return x.Op.String() + adm_condText(x.X)
	case *ast.ParenExpr:
		return "(" + adm_condText(x.X) + ")"
	case *ast.IndexExpr:
		return adm_condText(x.X) + "[" + adm_condText(x.Index) + "]"
	case *ast.StarExpr:
		return "*" + adm_condText(x.X)
	case *ast.CompositeLit:
		var es []string
		for _, e := range x.Elts {
			es = append(es, adm_condText(e))
		}
		t := ""
		if x.Type != nil {
			t = adm_condText(x.Type)
		}
		return t + "{" + strings.Join(es, ", ") + "}"
	case *ast.KeyValueExpr:
		return adm_condText(x.Key) + ": " + adm_condText(x.Value)
	}
	return "?"
}

func (c *adm_ciCtx) steps(ms map[string]*ast.FuncDecl, leaf map[string]bool, fd *ast.FuncDecl, env map[string]string, cond string, depth int) []adm_ciStep {
	var out []adm_ciStep
	recv := adm_recvName(fd)
	var walkStmts func(list []ast.Stmt, cond string)
	walkExpr := func(n ast.Node, cond string) {
		ast.Inspect(n, func(n ast.Node) bool {
			call, ok := n.(*ast.CallExpr)
			if !ok {
				return true
			}
			ch := adm_selChain(call.Fun)
			if len(ch) != 2 || ch[0] != recv {
				return true
			}
			name := ch[1]
			callee := ms[name]
			switch {
			case callee == nil:
				return true
			case leaf[name]:
				uri, qs := "?", "?"
				if len(call.Args) == 3 {
					uri = adm_resolveStr(call.Args[1], fd, call.Pos(), env)
					qs = adm_resolveStr(call.Args[2], fd, call.Pos(), env)
				}
				kind := "CProducersPost"
				if adm_firstParamType(callee) == "[]string" {
					kind = "CAddrsPost"
				}
				out = append(out, adm_ciStep{cond, fmt.Sprintf("(%s %s %s)", kind, adm_coqStr(uri), adm_coqStr(qs))})
			case strings.HasPrefix(name, "Get"):
				out = append(out, adm_ciStep{cond, "(CGet " + adm_coqStr(name) + ")"})
			case name == "logf":
			default:
				if depth >= 3 {
					out = append(out, adm_ciStep{cond, "(CDeep " + adm_coqStr(name) + ")"})
					return true
				}
				sub := map[string]string{}
				ps := adm_paramNames(callee)
				for i, a := range call.Args {
					if i < len(ps) {
						sub[ps[i]] = adm_resolveStr(a, fd, call.Pos(), env)
					}
				}
				out = append(out, c.steps(ms, leaf, callee, sub, cond, depth+1)...)
			}
			return true
		})
	}
	walkStmts = func(list []ast.Stmt, cond string) {
		for _, st := range list {
			switch s := st.(type) {
			case *ast.IfStmt:
				if s.Init != nil {
					walkExpr(s.Init, cond)
				}
				walkExpr(s.Cond, cond)
				ct := adm_condText(s.Cond)
				inner := cond
				// error-handling branches carry no steps; any other condition is recorded
				if ct != "err != nil" {
					if inner != "" {
						inner += " && "
					}
					inner += ct
				}
				walkStmts(s.Body.List, inner)
				if s.Else != nil {
					e := cond
					if e != "" {
						e += " && "
					}
					e += "!(" + ct + ")"
					if b, ok := s.Else.(*ast.BlockStmt); ok {
						walkStmts(b.List, e)
					} else {
						walkStmts([]ast.Stmt{s.Else}, e)
					}
				}
			case *ast.BlockStmt:
				walkStmts(s.List, cond)
			case *ast.ForStmt, *ast.RangeStmt, *ast.SwitchStmt, *ast.TypeSwitchStmt, *ast.SelectStmt, *ast.GoStmt, *ast.DeferStmt:
				l := cond
				if l != "" {
					l += " && "
				}
				walkExpr(st, l+"<loop-or-branch>")
			default:
				walkExpr(st, cond)
			}
		}
	}
	walkStmts(fd.Body.List, cond)
	return out
}

// ---------------------------------------------------------------- main

func genAdminRoutes(repo string) (string, error) {
	admin, err := loadPkg(repo, "nsqadmin")
	if err != nil {
		return "", err
	}
	ci, err := loadPkg(repo, "internal/clusterinfo")
	if err != nil {
		return "", err
	}
	ms := adm_ciMethods(ci)
	posts, leaf := adm_ciPostClosure(ms)
	known := map[string]bool{}
	for n := range ms {
		known[n] = true
	}

	ctor := admin.funcDecl("NewHTTPServer")
	if ctor == nil {
		return "", fmt.Errorf("nsqadmin.NewHTTPServer not found")
	}
	type route struct{ method, path, handler, cond string }
	var routes []route
	var perr error
	// conditions under which a registration happens (if ProxyGraphite { ... })
	var visit func(list []ast.Stmt, cond string)
	visit = func(list []ast.Stmt, cond string) {
		for _, st := range list {
			switch s := st.(type) {
			case *ast.IfStmt:
				visit(s.Body.List, strings.TrimPrefix(cond+" && "+adm_condText(s.Cond), " && "))
				if s.Else != nil {
					if b, ok := s.Else.(*ast.BlockStmt); ok {
						visit(b.List, strings.TrimPrefix(cond+" && !("+adm_condText(s.Cond)+")", " && "))
					}
				}
			case *ast.ExprStmt:
				call, ok := s.X.(*ast.CallExpr)
				if !ok {
					continue
				}
				ch := adm_selChain(call.Fun)
				if len(ch) != 2 || ch[0] != "router" {
					continue
				}
				switch ch[1] {
				case "Handle", "Handler", "HandlerFunc", "GET", "POST", "PUT", "DELETE", "PATCH", "HEAD", "OPTIONS":
				default:
					continue
				}
				args := call.Args
				method := ch[1]
				if ch[1] == "Handle" || ch[1] == "Handler" || ch[1] == "HandlerFunc" {
					if len(args) != 3 {
						perr = fmt.Errorf("router.%s with %d arguments", ch[1], len(args))
						return
					}
					m, ok := adm_stringLit(args[0])
					if !ok {
						perr = fmt.Errorf("router.%s: method is not a string literal", ch[1])
						return
					}
					method = m
					args = args[1:]
				}
				if len(args) != 2 {
					perr = fmt.Errorf("router.%s: unexpected arity", ch[1])
					return
				}
				// path: bp("<literal>") or a literal
				path := ""
				if pc, ok := args[0].(*ast.CallExpr); ok && len(pc.Args) == 1 {
					path, _ = adm_stringLit(pc.Args[0])
				} else {
					path, _ = adm_stringLit(args[0])
				}
				if path == "" {
					perr = fmt.Errorf("route path is not a literal (%s)", method)
					return
				}
				handler := ""
				if hc, ok := args[1].(*ast.CallExpr); ok {
					hch := adm_selChain(hc.Fun)
					if len(hch) == 2 && hch[0] == "http_api" && hch[1] == "Decorate" && len(hc.Args) >= 1 {
						h := adm_selChain(hc.Args[0])
						if len(h) == 2 && h[0] == "s" {
							handler = h[1]
						}
					}
				} else if id, ok := args[1].(*ast.Ident); ok {
					handler = "<" + id.Name + ">" // a ready-made http.Handler (the graphite reverse proxy)
				}
				if handler == "" {
					perr = fmt.Errorf("route %s %s: handler expression not understood", method, path)
					return
				}
				routes = append(routes, route{method, path, handler, cond})
			}
		}
	}
	visit(ctor.Body.List, "")
	if perr != nil {
		return "", perr
	}
	if len(routes) == 0 {
		return "", fmt.Errorf("no nsqadmin routes found")
	}

	var sb strings.Builder
	sb.WriteString(`From Coq Require Import List String.
Import ListNotations.
Open Scope string_scope.

(* events of a handler body, in first-occurrence source order *)
Inductive aev :=
| AGuard                  (* top-level: if !s.isAuthorizedAdminRequest(req) { return nil, http_api.Err{403,..} } *)
| AAuthCall               (* isAuthorizedAdminRequest called, but not in guard shape *)
| ACidr                   (* top-level: if cidr != "" { .. if !ipnet.Contains(ip) { return .. 403 } } *)
| ACidrBad                (* Contains test outside that shape *)
| AMut (m : string)       (* s.ci.<m>, a clusterinfo method that reaches client.POSTV1 (or is unknown) *)
| ARead (m : string)      (* s.ci.<m>, a clusterinfo method that only GETs *)
| AClient (m : string)    (* s.client.<m>: direct HTTP client use (graphite) *)
| ASwap                   (* s.nsqadmin.swapOpts *)
| ANotify                 (* s.notifyAdminAction *)
| ADecode                 (* json.NewDecoder(req.Body).Decode(&body) *)
| AValid (f : string)     (* protocol.IsValidTopicName / IsValidChannelName *)
| AGetOpt                 (* getOptByCfgName *)
| AParams                 (* http_api.NewReqParams (query string and body) *)
| ADeep (m : string).     (* helper nesting deeper than the translator follows *)

Record aroute := mkRoute { ar_method : string; ar_path : string; ar_handler : string;
                           ar_cond : string; ar_events : list aev }.

`)
	sb.WriteString("Definition admin_routes : list aroute := [\n")
	for i, r := range routes {
		evs := "[]"
		if !strings.HasPrefix(r.handler, "<") {
			fd := admin.method("httpServer", r.handler)
			if fd == nil || fd.Body == nil {
				return "", fmt.Errorf("handler %s not found", r.handler)
			}
			a := &admCtx{p: admin, ciPosts: posts, ciKnown: known, recvType: "httpServer", seen: map[string]bool{}}
			a.walkBody(fd, true, 0)
			evs = "[" + strings.Join(a.events, "; ") + "]"
		}
		sep := ";"
		if i == len(routes)-1 {
			sep = ""
		}
		fmt.Fprintf(&sb, "  mkRoute %s %s %s %s %s%s\n", adm_coqStr(r.method), adm_coqStr(r.path), adm_coqStr(r.handler), adm_coqStr(r.cond), evs, sep)
	}
	sb.WriteString("].\n\n")

	// the identity test itself: its shape is recorded as a list of tokens so that an edit
	// of isAuthorizedAdminRequest is visible to the proofs (the model is hand-written)
	if fd := admin.method("httpServer", "isAuthorizedAdminRequest"); fd != nil && fd.Body != nil {
		var toks []string
		ast.Inspect(fd.Body, func(n ast.Node) bool {
			switch x := n.(type) {
			case *ast.BinaryExpr:
				toks = append(toks, adm_coqStr(adm_condText(x)))
				return false
			case *ast.CallExpr:
				ch := adm_selChain(x.Fun)
				if len(ch) > 0 {
					toks = append(toks, adm_coqStr("call "+strings.Join(ch, ".")))
				}
			case *ast.ReturnStmt:
				if len(x.Results) == 1 {
					toks = append(toks, adm_coqStr("return "+adm_condText(x.Results[0])))
				}
			case *ast.RangeStmt:
				toks = append(toks, adm_coqStr("range "+adm_condText(x.X)))
			}
			return true
		})
		sb.WriteString("(* shape of isAuthorizedAdminRequest: comparisons, calls, loops and returns in source order *)\n")
		sb.WriteString("Definition admin_auth_shape : list string := [" + strings.Join(toks, "; ") + "].\n\n")
	} else {
		return "", fmt.Errorf("isAuthorizedAdminRequest not found")
	}

	sb.WriteString(`(* fan-out steps of the clusterinfo methods that reach client.POSTV1 *)
Inductive cistep :=
| CGet (m : string)                 (* producer look-up: GetTopicProducers / GetLookupdTopicProducers / GetNSQDProducers *)
| CAddrsPost (uri qs : string)      (* POST http://<addr>/<uri>?<qs> to every address of a []string (the nsqlookupds) *)
| CProducersPost (uri qs : string)  (* POST http://<producer http address>/<uri>?<qs> to every producer found *)
| CDeep (m : string).

`)
	var names []string
	for n := range ms {
		if posts[n] && ast.IsExported(n) {
			names = append(names, n)
		}
	}
	sort.Strings(names)
	sb.WriteString("Definition ci_actions : list (string * list (string * cistep)) := [\n")
	cc := &adm_ciCtx{p: ci, posts: posts}
	for i, n := range names {
		st := cc.steps(ms, leaf, ms[n], map[string]string{}, "", 0)
		var parts []string
		for _, s := range st {
			parts = append(parts, "("+adm_coqStr(s.cond)+", "+s.term+")")
		}
		sep := ";"
		if i == len(names)-1 {
			sep = ""
		}
		fmt.Fprintf(&sb, "  (%s, [%s])%s\n", adm_coqStr(n), strings.Join(parts, "; "), sep)
	}
	sb.WriteString("].\n\n")

	// the POST loops themselves: endpoint format
	var leafNames []string
	for n := range leaf {
		leafNames = append(leafNames, n)
	}
	sort.Strings(leafNames)
	sb.WriteString("Definition ci_post_loops : list (string * string * string) := [\n")
	for i, n := range leafNames {
		format := "?"
		ast.Inspect(ms[n].Body, func(nd ast.Node) bool {
			c, ok := nd.(*ast.CallExpr)
			if !ok {
				return true
			}
			ch := adm_selChain(c.Fun)
			if len(ch) == 2 && ch[0] == "fmt" && ch[1] == "Sprintf" && len(c.Args) > 0 && format == "?" {
				if s, ok := adm_stringLit(c.Args[0]); ok && strings.HasPrefix(s, "http") {
					format = s
				}
			}
			return true
		})
		sep := ";"
		if i == len(leafNames)-1 {
			sep = ""
		}
		fmt.Fprintf(&sb, "  (%s, %s, %s)%s\n", adm_coqStr(n), adm_coqStr(adm_firstParamType(ms[n])), adm_coqStr(format), sep)
	}
	sb.WriteString("].\n")
	return sb.String(), nil
}
