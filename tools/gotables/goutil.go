package main

import (
	"fmt"
	"go/ast"
	"go/parser"
	"go/token"
	"math/big"
	"os"
	"path/filepath"
	"sort"
	"strings"
)

// pkg is the parsed non-test, non-verif, non-windows files of one directory.
type pkg struct {
	dir    string
	fset   *token.FileSet
	files  map[string]*ast.File
	consts map[string]constDecl
}

type constDecl struct {
	expr ast.Expr
	iota int64
}

func hasExcludedTag(src string) bool {
	for _, line := range strings.Split(src, "\n") {
		t := strings.TrimSpace(line)
		if strings.HasPrefix(t, "package ") {
			break
		}
		if strings.HasPrefix(t, "//go:build") || strings.HasPrefix(t, "// +build") {
			if strings.Contains(t, "verif") && !strings.Contains(t, "!verif") {
				return true
			}
			if strings.Contains(t, "windows") && !strings.Contains(t, "!windows") {
				return true
			}
		}
	}
	return false
}

func loadPkg(repo, rel string) (*pkg, error) {
	dir := filepath.Join(repo, rel)
	ents, err := os.ReadDir(dir)
	if err != nil {
		return nil, err
	}
	p := &pkg{dir: dir, fset: token.NewFileSet(), files: map[string]*ast.File{}, consts: map[string]constDecl{}}
	for _, e := range ents {
		n := e.Name()
		if !strings.HasSuffix(n, ".go") || strings.HasSuffix(n, "_test.go") || strings.HasSuffix(n, "_windows.go") {
			continue
		}
		src, err := os.ReadFile(filepath.Join(dir, n))
		if err != nil {
			return nil, err
		}
		if hasExcludedTag(string(src)) {
			continue
		}
		f, err := parser.ParseFile(p.fset, filepath.Join(dir, n), src, parser.ParseComments)
		if err != nil {
			return nil, err
		}
		p.files[n] = f
	}
	for _, f := range p.files {
		for _, d := range f.Decls {
			gd, ok := d.(*ast.GenDecl)
			if !ok || gd.Tok != token.CONST {
				continue
			}
			var last []ast.Expr
			for i, s := range gd.Specs {
				vs := s.(*ast.ValueSpec)
				vals := vs.Values
				if len(vals) == 0 {
					vals = last
				} else {
					last = vals
				}
				for j, name := range vs.Names {
					if j < len(vals) {
						p.consts[name.Name] = constDecl{expr: vals[j], iota: int64(i)}
					}
				}
			}
		}
	}
	return p, nil
}

func (p *pkg) fileNames() []string {
	var ns []string
	for n := range p.files {
		ns = append(ns, n)
	}
	sort.Strings(ns)
	return ns
}

func (p *pkg) funcDecl(name string) *ast.FuncDecl {
	for _, n := range p.fileNames() {
		for _, d := range p.files[n].Decls {
			if fd, ok := d.(*ast.FuncDecl); ok && fd.Name.Name == name && fd.Recv == nil {
				return fd
			}
		}
	}
	return nil
}

// method finds func (x *T) name or func (x T) name.
func (p *pkg) method(recv, name string) *ast.FuncDecl {
	for _, n := range p.fileNames() {
		for _, d := range p.files[n].Decls {
			fd, ok := d.(*ast.FuncDecl)
			if !ok || fd.Name.Name != name || fd.Recv == nil || len(fd.Recv.List) == 0 {
				continue
			}
			t := fd.Recv.List[0].Type
			if st, ok := t.(*ast.StarExpr); ok {
				t = st.X
			}
			if id, ok := t.(*ast.Ident); ok && id.Name == recv {
				return fd
			}
		}
	}
	return nil
}

var knownSelectors = map[string]string{
	"time.Nanosecond": "1", "time.Microsecond": "1000", "time.Millisecond": "1000000",
	"time.Second": "1000000000", "time.Minute": "60000000000", "time.Hour": "3600000000000",
	"math.MaxInt64": "9223372036854775807", "math.MaxInt32": "2147483647",
	"math.MaxUint32": "4294967295", "math.MaxUint16": "65535",
}

var intTypes = map[string]struct {
	bits   uint
	signed bool
}{
	"int": {64, true}, "int64": {64, true}, "int32": {32, true}, "int16": {16, true}, "int8": {8, true},
	"uint": {64, false}, "uint64": {64, false}, "uint32": {32, false}, "uint16": {16, false}, "uint8": {8, false}, "byte": {8, false},
}

func wrap(v *big.Int, bits uint, signed bool) *big.Int {
	m := new(big.Int).Lsh(big.NewInt(1), bits)
	r := new(big.Int).Mod(v, m)
	if signed {
		h := new(big.Int).Lsh(big.NewInt(1), bits-1)
		if r.Cmp(h) >= 0 {
			r.Sub(r, m)
		}
	}
	return r
}

// evalInt evaluates a constant integer expression.
func (p *pkg) evalInt(e ast.Expr, iota int64, depth int) (*big.Int, error) {
	if depth > 50 {
		return nil, fmt.Errorf("constant recursion too deep")
	}
	switch x := e.(type) {
	case *ast.BasicLit:
		switch x.Kind {
		case token.INT:
			v, ok := new(big.Int).SetString(strings.ReplaceAll(x.Value, "_", ""), 0)
			if !ok {
				return nil, fmt.Errorf("bad int literal %s", x.Value)
			}
			return v, nil
		case token.CHAR:
			s := x.Value
			if len(s) == 3 {
				return big.NewInt(int64(s[1])), nil
			}
			switch s {
			case `'\n'`:
				return big.NewInt(10), nil
			case `'\r'`:
				return big.NewInt(13), nil
			case `'\t'`:
				return big.NewInt(9), nil
			}
		}
		return nil, fmt.Errorf("unsupported literal %s", x.Value)
	case *ast.ParenExpr:
		return p.evalInt(x.X, iota, depth+1)
	case *ast.Ident:
		if x.Name == "iota" {
			return big.NewInt(iota), nil
		}
		if c, ok := p.consts[x.Name]; ok {
			return p.evalInt(c.expr, c.iota, depth+1)
		}
		return nil, fmt.Errorf("unknown identifier %s", x.Name)
	case *ast.SelectorExpr:
		if id, ok := x.X.(*ast.Ident); ok {
			if s, ok := knownSelectors[id.Name+"."+x.Sel.Name]; ok {
				v, _ := new(big.Int).SetString(s, 10)
				return v, nil
			}
		}
		return nil, fmt.Errorf("unknown selector")
	case *ast.UnaryExpr:
		v, err := p.evalInt(x.X, iota, depth+1)
		if err != nil {
			return nil, err
		}
		switch x.Op {
		case token.SUB:
			return new(big.Int).Neg(v), nil
		case token.ADD:
			return v, nil
		case token.XOR:
			return new(big.Int).Not(v), nil
		}
		return nil, fmt.Errorf("unsupported unary %s", x.Op)
	case *ast.BinaryExpr:
		a, err := p.evalInt(x.X, iota, depth+1)
		if err != nil {
			return nil, err
		}
		b, err := p.evalInt(x.Y, iota, depth+1)
		if err != nil {
			return nil, err
		}
		r := new(big.Int)
		switch x.Op {
		case token.ADD:
			return r.Add(a, b), nil
		case token.SUB:
			return r.Sub(a, b), nil
		case token.MUL:
			return r.Mul(a, b), nil
		case token.QUO:
			if b.Sign() == 0 {
				return nil, fmt.Errorf("division by zero")
			}
			return r.Quo(a, b), nil
		case token.REM:
			if b.Sign() == 0 {
				return nil, fmt.Errorf("division by zero")
			}
			return r.Rem(a, b), nil
		case token.SHL:
			return r.Lsh(a, uint(b.Uint64())), nil
		case token.SHR:
			return r.Rsh(a, uint(b.Uint64())), nil
		case token.AND:
			return r.And(a, b), nil
		case token.OR:
			return r.Or(a, b), nil
		case token.XOR:
			return r.Xor(a, b), nil
		case token.AND_NOT:
			return r.AndNot(a, b), nil
		}
		return nil, fmt.Errorf("unsupported binary %s", x.Op)
	case *ast.CallExpr:
		if len(x.Args) == 1 {
			v, err := p.evalInt(x.Args[0], iota, depth+1)
			if err != nil {
				return nil, err
			}
			if id, ok := x.Fun.(*ast.Ident); ok {
				if t, ok := intTypes[id.Name]; ok {
					return wrap(v, t.bits, t.signed), nil
				}
			}
			// conversion to a named type (time.Duration, guid, ...): value unchanged
			return v, nil
		}
	}
	return nil, fmt.Errorf("unsupported expression")
}

func (p *pkg) constInt(name string) (*big.Int, error) {
	c, ok := p.consts[name]
	if !ok {
		return nil, fmt.Errorf("constant %s not found in %s", name, p.dir)
	}
	return p.evalInt(c.expr, c.iota, 0)
}

func coqZ(v *big.Int) string {
	if v.Sign() < 0 {
		return "(" + v.String() + ")"
	}
	return v.String()
}
