package main

// Emitter for coq/gen/AdminOptTable.v (C17): the three places that together decide which
// command-line flag and which config-file key set a field of nsqadmin.Options
//   * nsqadmin/options.go       struct Options: every field with its Go type and its `flag` / `cfg`
//                               struct tags; NewOptions(): the string / []string defaults;
//   * apps/nsqadmin/main.go     nsqadminFlagSet(): every flag defined on the flag set (name, kind,
//                               default expression: a literal, or `opts.<Field>`), and the shape
//                               of Start(): toml.DecodeFile of --config into cfg, cfg.Validate(),
//                               options.Resolve(opts, flagSet, cfg), nsqadmin.New(opts), in that order;
//   * contrib/nsqadmin.cfg.example   the documented config-file keys (commented-out ones included)
//                               with the shape of their value (list / scalar).
// go/ast for the Go files (struct tags through reflect.StructTag, as go-options reads them), a
// line scan for the example file.  Nothing is evaluated.

import (
	"bufio"
	"fmt"
	"go/ast"
	"go/printer"
	"go/token"
	"os"
	"path/filepath"
	"reflect"
	"regexp"
	"strconv"
	"strings"
)

func init() { register("AdminOptTable.v", genAdminOptTable) }

func aopt_exprText(fset *token.FileSet, e ast.Expr) string {
	var sb strings.Builder
	printer.Fprint(&sb, fset, e)
	return sb.String()
}

func aopt_strList(xs []string) string {
	qs := make([]string, len(xs))
	for i, x := range xs {
		qs[i] = adm_coqStr(x)
	}
	return "[" + strings.Join(qs, "; ") + "]"
}

var aopt_keyRe = regexp.MustCompile(`^\s*#?\s*([A-Za-z0-9_]+)\s*=\s*(.*)$`)

func genAdminOptTable(repo string) (string, error) {
	p, err := loadPkg(repo, "nsqadmin")
	if err != nil {
		return "", err
	}
	// ---- struct Options
	var st *ast.StructType
	for _, n := range p.fileNames() {
		for _, d := range p.files[n].Decls {
			gd, ok := d.(*ast.GenDecl)
			if !ok || gd.Tok != token.TYPE {
				continue
			}
			for _, s := range gd.Specs {
				ts := s.(*ast.TypeSpec)
				if ts.Name.Name == "Options" {
					if x, ok := ts.Type.(*ast.StructType); ok {
						st = x
					}
				}
			}
		}
	}
	if st == nil {
		return "", fmt.Errorf("type Options struct not found in nsqadmin")
	}
	var fields []string
	for _, f := range st.Fields.List {
		tag := ""
		if f.Tag != nil {
			tag, err = strconv.Unquote(f.Tag.Value)
			if err != nil {
				return "", fmt.Errorf("Options: struct tag %s: %v", f.Tag.Value, err)
			}
		}
		stag := reflect.StructTag(tag)
		typ := aopt_exprText(p.fset, f.Type)
		if len(f.Names) == 0 {
			// go-options resolves embedded structs recursively: not modelled
			return "", fmt.Errorf("Options has an embedded field %s: not understood by the translator", typ)
		}
		for _, nm := range f.Names {
			fields = append(fields, fmt.Sprintf("  mkOptField %s %s %s %s %s", adm_coqStr(nm.Name), adm_coqStr(typ),
				adm_coqStr(stag.Get("flag")), adm_coqStr(stag.Get("cfg")), adm_coqStr(stag.Get("deprecated"))))
		}
	}
	// ---- NewOptions defaults (string and []string literals)
	var sdefs, ldefs []string
	fd := p.funcDecl("NewOptions")
	if fd == nil {
		return "", fmt.Errorf("NewOptions not found in nsqadmin")
	}
	ast.Inspect(fd.Body, func(n ast.Node) bool {
		cl, ok := n.(*ast.CompositeLit)
		if !ok {
			return true
		}
		if id, ok := cl.Type.(*ast.Ident); !ok || id.Name != "Options" {
			return true
		}
		for _, el := range cl.Elts {
			kv, ok := el.(*ast.KeyValueExpr)
			if !ok {
				continue
			}
			k, ok := kv.Key.(*ast.Ident)
			if !ok {
				continue
			}
			if s, ok := adm_stringLit(kv.Value); ok {
				sdefs = append(sdefs, fmt.Sprintf("  (%s, %s)", adm_coqStr(k.Name), adm_coqStr(s)))
				continue
			}
			if l, ok := kv.Value.(*ast.CompositeLit); ok {
				if at, ok := l.Type.(*ast.ArrayType); ok && at.Len == nil {
					if id, ok := at.Elt.(*ast.Ident); ok && id.Name == "string" {
						var xs []string
						good := true
						for _, e := range l.Elts {
							s, ok := adm_stringLit(e)
							if !ok {
								good = false
							}
							xs = append(xs, s)
						}
						if good {
							ldefs = append(ldefs, fmt.Sprintf("  (%s, %s)", adm_coqStr(k.Name), aopt_strList(xs)))
						}
					}
				}
			}
		}
		return false
	})

	// ---- apps/nsqadmin: the flag set and the order of Start()
	ap, err := loadPkg(repo, filepath.Join("apps", "nsqadmin"))
	if err != nil {
		return "", err
	}
	ff := ap.funcDecl("nsqadminFlagSet")
	if ff == nil {
		return "", fmt.Errorf("nsqadminFlagSet not found in apps/nsqadmin")
	}
	optsParam := ""
	if ff.Type.Params != nil && len(ff.Type.Params.List) == 1 && len(ff.Type.Params.List[0].Names) == 1 {
		optsParam = ff.Type.Params.List[0].Names[0].Name
	}
	varTypes := map[string]string{} // local variables declared as `x := T{}` / `x := opts.F`
	var flags []string
	var ferr error
	ast.Inspect(ff.Body, func(n ast.Node) bool {
		if as, ok := n.(*ast.AssignStmt); ok && as.Tok == token.DEFINE && len(as.Lhs) == 1 && len(as.Rhs) == 1 {
			if id, ok := as.Lhs[0].(*ast.Ident); ok {
				switch r := as.Rhs[0].(type) {
				case *ast.CompositeLit:
					if len(r.Elts) == 0 {
						varTypes[id.Name] = "empty " + aopt_exprText(ap.fset, r.Type)
					} else {
						varTypes[id.Name] = "nonempty " + aopt_exprText(ap.fset, r.Type)
					}
				default:
					varTypes[id.Name] = "expr " + aopt_exprText(ap.fset, as.Rhs[0])
				}
			}
		}
		ce, ok := n.(*ast.CallExpr)
		if !ok {
			return true
		}
		ch := adm_selChain(ce.Fun)
		if len(ch) != 2 || ch[0] != "flagSet" {
			return true
		}
		kind := ch[1]
		switch kind {
		case "String", "Bool", "Duration", "Int", "Int64", "Uint", "Uint64", "Float64":
			if len(ce.Args) != 3 {
				ferr = fmt.Errorf("flagSet.%s with %d arguments", kind, len(ce.Args))
				return false
			}
			name, ok := adm_stringLit(ce.Args[0])
			if !ok {
				ferr = fmt.Errorf("flagSet.%s: flag name is not a string literal", kind)
				return false
			}
			def := "expr:" + aopt_exprText(ap.fset, ce.Args[1])
			if s, ok := adm_stringLit(ce.Args[1]); ok {
				def = "lit:" + s
			} else if c := adm_selChain(ce.Args[1]); len(c) == 2 && c[0] == optsParam {
				if _, isCall := ce.Args[1].(*ast.CallExpr); !isCall {
					def = "opts:" + c[1]
				}
			}
			flags = append(flags, fmt.Sprintf("  mkFlag %s %s %s", adm_coqStr(name), adm_coqStr(kind), adm_coqStr(def)))
		case "Var":
			if len(ce.Args) != 3 {
				ferr = fmt.Errorf("flagSet.Var with %d arguments", len(ce.Args))
				return false
			}
			name, ok := adm_stringLit(ce.Args[1])
			if !ok {
				ferr = fmt.Errorf("flagSet.Var: flag name is not a string literal")
				return false
			}
			vt := "expr:" + aopt_exprText(ap.fset, ce.Args[0])
			if ue, ok := ce.Args[0].(*ast.UnaryExpr); ok && ue.Op == token.AND {
				if id, ok := ue.X.(*ast.Ident); ok {
					if t, ok := varTypes[id.Name]; ok {
						vt = t
					}
				}
			}
			kindText, def := "Var", vt
			if strings.HasPrefix(vt, "empty ") {
				kindText, def = "Var:"+strings.TrimPrefix(vt, "empty "), "empty"
			} else if strings.HasPrefix(vt, "expr "+optsParam+".") {
				kindText, def = "Var", "opts:"+strings.TrimPrefix(vt, "expr "+optsParam+".")
			}
			flags = append(flags, fmt.Sprintf("  mkFlag %s %s %s", adm_coqStr(name), adm_coqStr(kindText), adm_coqStr(def)))
		case "Parse", "Lookup", "Visit", "VisitAll", "PrintDefaults", "SetOutput":
		default:
			ferr = fmt.Errorf("flagSet.%s: flag definition not understood by the translator", kind)
			return false
		}
		return true
	})
	if ferr != nil {
		return "", ferr
	}
	// Start(): the calls that matter, in source order
	startFn := ap.method("program", "Start")
	if startFn == nil {
		return "", fmt.Errorf("(*program).Start not found in apps/nsqadmin")
	}
	var startShape []string
	ast.Inspect(startFn.Body, func(n ast.Node) bool {
		if fl, ok := n.(*ast.FuncLit); ok {
			_ = fl
			return false // the goroutine running Main
		}
		ce, ok := n.(*ast.CallExpr)
		if !ok {
			return true
		}
		ch := adm_selChain(ce.Fun)
		name := strings.Join(ch, ".")
		switch name {
		case "nsqadmin.NewOptions", "nsqadminFlagSet", "flagSet.Parse", "toml.DecodeFile", "cfg.Validate", "options.Resolve", "nsqadmin.New":
			var args []string
			for _, a := range ce.Args {
				args = append(args, aopt_exprText(ap.fset, a))
			}
			startShape = append(startShape, name+"("+strings.Join(args, ", ")+")")
		case "flagSet.Lookup":
			if len(ce.Args) == 1 {
				if s, ok := adm_stringLit(ce.Args[0]); ok && s == "config" {
					startShape = append(startShape, "flagSet.Lookup(\"config\")")
				}
			}
		}
		return true
	})
	// Validate(): the keys it rewrites
	var validated []string
	if vf := ap.method("config", "Validate"); vf != nil {
		ast.Inspect(vf.Body, func(n ast.Node) bool {
			ie, ok := n.(*ast.IndexExpr)
			if !ok {
				return true
			}
			if s, ok := adm_stringLit(ie.Index); ok {
				for _, v := range validated {
					if v == s {
						return true
					}
				}
				validated = append(validated, s)
			}
			return true
		})
	}

	// ---- the documented keys
	ex, err := os.Open(filepath.Join(repo, "contrib", "nsqadmin.cfg.example"))
	if err != nil {
		return "", err
	}
	defer ex.Close()
	var keys []string
	sc := bufio.NewScanner(ex)
	for sc.Scan() {
		line := sc.Text()
		if strings.HasPrefix(strings.TrimSpace(line), "##") {
			continue
		}
		m := aopt_keyRe.FindStringSubmatch(line)
		if m == nil {
			continue
		}
		shape := "scalar"
		if strings.HasPrefix(strings.TrimSpace(m[2]), "[") {
			shape = "list"
		}
		keys = append(keys, fmt.Sprintf("  (%s, %s)", adm_coqStr(m[1]), adm_coqStr(shape)))
	}
	if err := sc.Err(); err != nil {
		return "", err
	}

	var sb strings.Builder
	sb.WriteString("From Coq Require Import List String.\nImport ListNotations.\nOpen Scope string_scope.\n\n")
	sb.WriteString("(* nsqadmin/options.go, struct Options: field, Go type, `flag`, `cfg`, `deprecated` struct tags (\"\" = no such tag) *)\n")
	sb.WriteString("Record optfield := mkOptField { of_name : string; of_type : string; of_flag : string; of_cfg : string; of_deprecated : string }.\n")
	sb.WriteString("Definition admin_opt_fields : list optfield := [\n" + strings.Join(fields, ";\n") + "\n].\n\n")
	sb.WriteString("(* NewOptions(): string and []string literals of the returned struct *)\n")
	sb.WriteString("Definition admin_opt_str_defaults : list (string * string) := [\n" + strings.Join(sdefs, ";\n") + "\n].\n")
	sb.WriteString("Definition admin_opt_list_defaults : list (string * list string) := [\n" + strings.Join(ldefs, ";\n") + "\n].\n\n")
	sb.WriteString("(* apps/nsqadmin/main.go, nsqadminFlagSet: flag name, kind (flagSet.<kind>; Var:<type of the variable>),\n   default (lit:<string literal> | opts:<field of the options passed in> | empty | expr:<source text>) *)\n")
	sb.WriteString("Record flagdef := mkFlag { fl_name : string; fl_kind : string; fl_default : string }.\n")
	sb.WriteString("Definition admin_flags : list flagdef := [\n" + strings.Join(flags, ";\n") + "\n].\n\n")
	sb.WriteString("(* program.Start(): the calls that build the options, in source order *)\n")
	sb.WriteString("Definition admin_start_shape : list string := " + aopt_strList(startShape) + ".\n")
	sb.WriteString("(* config.Validate: the keys it touches *)\n")
	sb.WriteString("Definition admin_validated_keys : list string := " + aopt_strList(validated) + ".\n\n")
	sb.WriteString("(* contrib/nsqadmin.cfg.example: every key (commented-out ones included) with the shape of its value *)\n")
	sb.WriteString("Definition admin_doc_keys : list (string * string) := [\n" + strings.Join(keys, ";\n") + "\n].\n")
	return sb.String(), nil
}
