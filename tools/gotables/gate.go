package main

// gate.go: regenerates coq/gen/GateTable.v (property C11) from
//   nsqd/protocol_v2.go  Exec (dispatch rows + position of the enforceTLSPolicy gate),
//                        enforceTLSPolicy and CheckAuth (guard shape, error returns),
//                        SUB / PUB / MPUB / DPUB (ordered event summaries)
//   nsqd/nsqd.go         Main (how each HTTP listener's server is wired, which listener each server is
//                        served on), every write of httpListener / httpsListener (New: the condition)
//   nsqd/http.go         newHTTPServer (field wiring), httpServer.ServeHTTP (the 403 guard)
// go/ast only; nothing is evaluated.

import (
	"bytes"
	"fmt"
	"go/ast"
	"go/printer"
	"go/token"
	"strconv"
	"strings"
)

func init() { register("GateTable.v", genGate) }

func gateSrc(p *pkg, n ast.Node) string {
	var b bytes.Buffer
	printer.Fprint(&b, p.fset, n)
	return strings.Join(strings.Fields(b.String()), " ")
}

func gateCoqStr(s string) string { return "\"" + strings.ReplaceAll(s, "\"", "\"\"") + "\"" }

// bytes.Equal(params[0], []byte("LIT")) -> LIT
func gateCmdLiteral(e ast.Expr) (string, bool) {
	call, ok := e.(*ast.CallExpr)
	if !ok || len(call.Args) != 2 {
		return "", false
	}
	sel, ok := call.Fun.(*ast.SelectorExpr)
	if !ok || sel.Sel.Name != "Equal" {
		return "", false
	}
	if id, ok := sel.X.(*ast.Ident); !ok || id.Name != "bytes" {
		return "", false
	}
	for _, a := range call.Args {
		conv, ok := a.(*ast.CallExpr)
		if !ok || len(conv.Args) != 1 {
			continue
		}
		if _, ok := conv.Fun.(*ast.ArrayType); !ok {
			continue
		}
		if lit, ok := conv.Args[0].(*ast.BasicLit); ok && lit.Kind == token.STRING {
			s, err := strconv.Unquote(lit.Value)
			if err == nil {
				return s, true
			}
		}
	}
	return "", false
}

// the method a dispatch body returns: return p.NAME(...)
func gateReturnedHandler(stmts []ast.Stmt) string {
	for _, s := range stmts {
		rs, ok := s.(*ast.ReturnStmt)
		if !ok || len(rs.Results) != 1 {
			continue
		}
		call, ok := rs.Results[0].(*ast.CallExpr)
		if !ok {
			continue
		}
		if sel, ok := call.Fun.(*ast.SelectorExpr); ok {
			return sel.Sel.Name
		}
	}
	return "?"
}

func gateIsCallTo(e ast.Expr, name string) bool {
	call, ok := e.(*ast.CallExpr)
	if !ok {
		return false
	}
	switch f := call.Fun.(type) {
	case *ast.Ident:
		return f.Name == name
	case *ast.SelectorExpr:
		return f.Sel.Name == name
	}
	return false
}

// if <v> != nil { return nil, <v> }
func gateIsErrReturn(s *ast.IfStmt, v string) bool {
	be, ok := s.Cond.(*ast.BinaryExpr)
	if !ok || be.Op != token.NEQ {
		return false
	}
	x, ok := be.X.(*ast.Ident)
	y, ok2 := be.Y.(*ast.Ident)
	if !ok || !ok2 || x.Name != v || y.Name != "nil" {
		return false
	}
	if len(s.Body.List) == 0 {
		return false
	}
	rs, ok := s.Body.List[len(s.Body.List)-1].(*ast.ReturnStmt)
	if !ok || len(rs.Results) != 2 {
		return false
	}
	r0, ok := rs.Results[0].(*ast.Ident)
	r1, ok2 := rs.Results[1].(*ast.Ident)
	return ok && ok2 && r0.Name == "nil" && r1.Name == v
}

type gateRow struct {
	cmd, handler string
	after        bool
}

func gateExecTable(p *pkg) ([]gateRow, error) {
	fd := p.method("protocolV2", "Exec")
	if fd == nil {
		return nil, fmt.Errorf("protocolV2.Exec not found")
	}
	var rows []gateRow
	gateVar := ""     // variable holding the result of enforceTLSPolicy
	gateDone := false // its error has been returned
	var walk func(stmts []ast.Stmt)
	walk = func(stmts []ast.Stmt) {
		for _, st := range stmts {
			switch s := st.(type) {
			case *ast.AssignStmt:
				if len(s.Rhs) == 1 && gateIsCallTo(s.Rhs[0], "enforceTLSPolicy") && len(s.Lhs) == 1 {
					if id, ok := s.Lhs[0].(*ast.Ident); ok {
						gateVar = id.Name
					}
				}
			case *ast.IfStmt:
				if as, ok := s.Init.(*ast.AssignStmt); ok && len(as.Rhs) == 1 && gateIsCallTo(as.Rhs[0], "enforceTLSPolicy") && len(as.Lhs) == 1 {
					if id, ok := as.Lhs[0].(*ast.Ident); ok && gateIsErrReturn(s, id.Name) {
						gateDone = true
						continue
					}
				}
				if gateVar != "" && gateIsErrReturn(s, gateVar) {
					gateDone = true
					continue
				}
				if lit, ok := gateCmdLiteral(s.Cond); ok {
					rows = append(rows, gateRow{lit, gateReturnedHandler(s.Body.List), gateDone})
					continue
				}
				// an unrecognised conditional: look inside, rows found there keep the current gate status
				walk(s.Body.List)
			case *ast.SwitchStmt:
				for _, c := range s.Body.List {
					cc := c.(*ast.CaseClause)
					for _, e := range cc.List {
						if lit, ok := gateCmdLiteral(e); ok {
							rows = append(rows, gateRow{lit, gateReturnedHandler(cc.Body), gateDone})
						}
					}
				}
			case *ast.BlockStmt:
				walk(s.List)
			}
		}
	}
	walk(fd.Body.List)
	if len(rows) == 0 {
		return nil, fmt.Errorf("no dispatch rows recognised in protocolV2.Exec")
	}
	return rows, nil
}

var gateEventOf = map[string]string{
	"IsValidTopicName": "GvValidTopic", "IsValidChannelName": "GvValidChannel",
	"readLen": "GvReadLen", "ReadFull": "GvReadBody", "readMPUB": "GvReadBody",
	"GetTopic": "GvGetTopic", "GetChannel": "GvGetChannel",
	"PutMessage": "GvPut", "PutMessages": "GvPut", "AddClient": "GvAddClient",
}

func gateCallName(call *ast.CallExpr) string {
	switch f := call.Fun.(type) {
	case *ast.Ident:
		return f.Name
	case *ast.SelectorExpr:
		return f.Sel.Name
	}
	return ""
}

// first-occurrence order of the calls that matter, in source (= execution) order
func gateSummary(p *pkg, name string) ([]string, error) {
	fd := p.method("protocolV2", name)
	if fd == nil {
		return nil, fmt.Errorf("protocolV2.%s not found", name)
	}
	// CheckAuth calls in the guard shape  if err := p.CheckAuth(...); err != nil { return nil, err }
	guarded := map[*ast.CallExpr]bool{}
	ast.Inspect(fd.Body, func(n ast.Node) bool {
		s, ok := n.(*ast.IfStmt)
		if !ok {
			return true
		}
		if as, ok := s.Init.(*ast.AssignStmt); ok && len(as.Rhs) == 1 && len(as.Lhs) == 1 && gateIsCallTo(as.Rhs[0], "CheckAuth") {
			if id, ok := as.Lhs[0].(*ast.Ident); ok && gateIsErrReturn(s, id.Name) {
				guarded[as.Rhs[0].(*ast.CallExpr)] = true
			}
		}
		return true
	})
	seen := map[string]bool{}
	var evs []string
	ast.Inspect(fd.Body, func(n ast.Node) bool {
		call, ok := n.(*ast.CallExpr)
		if !ok {
			return true
		}
		nm := gateCallName(call)
		ev := gateEventOf[nm]
		if nm == "CheckAuth" {
			if guarded[call] {
				ev = "GvCheckAuth"
			} else {
				ev = "GvCheckAuthLoose"
			}
		}
		if ev != "" && !seen[ev] {
			seen[ev] = true
			evs = append(evs, ev)
		}
		return true
	})
	return evs, nil
}

// error returns of a function: (E_ code, built by NewFatalClientErr?)
func gateErrReturns(fd *ast.FuncDecl) []string {
	var out []string
	ast.Inspect(fd.Body, func(n ast.Node) bool {
		rs, ok := n.(*ast.ReturnStmt)
		if !ok {
			return true
		}
		for _, r := range rs.Results {
			call, ok := r.(*ast.CallExpr)
			if !ok {
				continue
			}
			nm := gateCallName(call)
			if nm != "NewFatalClientErr" && nm != "NewClientErr" {
				out = append(out, fmt.Sprintf("mkErr %s false", gateCoqStr("?"+nm)))
				continue
			}
			code := "?"
			if len(call.Args) >= 2 {
				if lit, ok := call.Args[1].(*ast.BasicLit); ok && lit.Kind == token.STRING {
					if s, err := strconv.Unquote(lit.Value); err == nil {
						code = s
					}
				}
			}
			out = append(out, fmt.Sprintf("mkErr %s %v", gateCoqStr(code), nm == "NewFatalClientErr"))
		}
		return true
	})
	return out
}

func gateEndsWithSel(e ast.Expr, name string) bool {
	sel, ok := e.(*ast.SelectorExpr)
	return ok && sel.Sel.Name == name
}

func gateWexp(p *pkg, e ast.Expr) string {
	switch x := e.(type) {
	case *ast.Ident:
		if x.Name == "true" {
			return "WTrue"
		}
		if x.Name == "false" {
			return "WFalse"
		}
	case *ast.ParenExpr:
		return gateWexp(p, x.X)
	case *ast.BinaryExpr:
		if (x.Op == token.EQL || x.Op == token.NEQ) && gateEndsWithSel(x.X, "TLSRequired") {
			if id, ok := x.Y.(*ast.Ident); ok {
				if x.Op == token.EQL {
					return "(WReqEq " + gateCoqStr(id.Name) + ")"
				}
				return "(WReqNe " + gateCoqStr(id.Name) + ")"
			}
		}
	}
	return "(WOther " + gateCoqStr(gateSrc(p, e)) + ")"
}

// NSQD.Main: if n.<listener> != nil { ... newHTTPServer(n, a, b) ... }
func gateWirings(p *pkg) ([]string, error) {
	fd := p.method("NSQD", "Main")
	if fd == nil {
		return nil, fmt.Errorf("NSQD.Main not found")
	}
	var out []string
	ast.Inspect(fd.Body, func(n ast.Node) bool {
		call, ok := n.(*ast.CallExpr)
		if !ok || gateCallName(call) != "newHTTPServer" || len(call.Args) != 3 {
			return true
		}
		// which listener serves it: the enclosing  if n.X != nil
		listener := "?"
		ast.Inspect(fd.Body, func(m ast.Node) bool {
			is, ok := m.(*ast.IfStmt)
			if !ok || is.Body.Pos() > call.Pos() || is.Body.End() < call.End() {
				return true
			}
			if be, ok := is.Cond.(*ast.BinaryExpr); ok && be.Op == token.NEQ {
				if sel, ok := be.X.(*ast.SelectorExpr); ok {
					listener = sel.Sel.Name
				}
			}
			return true
		})
		out = append(out, fmt.Sprintf("mkWire %s %s %s", gateCoqStr(listener), gateWexp(p, call.Args[1]), gateWexp(p, call.Args[2])))
		return true
	})
	if len(out) == 0 {
		return nil, fmt.Errorf("no newHTTPServer call found in NSQD.Main")
	}
	return out, nil
}

// newHTTPServer(nsqd, tlsEnabled, tlsRequired) must store its 2nd and 3rd parameter in the
// fields of the same name
func gateCtorOK(p *pkg) bool {
	fd := p.funcDecl("newHTTPServer")
	if fd == nil || fd.Type.Params == nil {
		return false
	}
	var params []string
	for _, f := range fd.Type.Params.List {
		for _, n := range f.Names {
			params = append(params, n.Name)
		}
	}
	if len(params) != 3 {
		return false
	}
	okE, okR := false, false
	ast.Inspect(fd.Body, func(n ast.Node) bool {
		cl, ok := n.(*ast.CompositeLit)
		if !ok {
			return true
		}
		if id, ok := cl.Type.(*ast.Ident); !ok || id.Name != "httpServer" {
			return true
		}
		for _, el := range cl.Elts {
			kv, ok := el.(*ast.KeyValueExpr)
			if !ok {
				continue
			}
			k, ok := kv.Key.(*ast.Ident)
			v, ok2 := kv.Value.(*ast.Ident)
			if !ok || !ok2 {
				continue
			}
			if k.Name == "tlsEnabled" && v.Name == params[1] {
				okE = true
			}
			if k.Name == "tlsRequired" && v.Name == params[2] {
				okR = true
			}
		}
		return true
	})
	return okE && okR
}

// opts.<Name> != ""
func gateAddrSet(e ast.Expr) (string, bool) {
	be, ok := e.(*ast.BinaryExpr)
	if !ok || be.Op != token.NEQ {
		return "", false
	}
	lit, ok := be.Y.(*ast.BasicLit)
	if !ok || lit.Kind != token.STRING || lit.Value != `""` {
		return "", false
	}
	sel, ok := be.X.(*ast.SelectorExpr)
	if !ok {
		return "", false
	}
	if id, ok := sel.X.(*ast.Ident); !ok || id.Name != "opts" {
		return "", false
	}
	return sel.Sel.Name, true
}

func gateLexp(p *pkg, e ast.Expr) string {
	if e == nil {
		return "(LOther \"unconditional\")"
	}
	if pe, ok := e.(*ast.ParenExpr); ok {
		return gateLexp(p, pe.X)
	}
	if o, ok := gateAddrSet(e); ok {
		return "(LAddr " + gateCoqStr(o) + ")"
	}
	if be, ok := e.(*ast.BinaryExpr); ok && be.Op == token.LAND {
		if l, ok := be.X.(*ast.BinaryExpr); ok && l.Op == token.NEQ && gateEndsWithSel(l.X, "tlsConfig") {
			if id, ok := l.Y.(*ast.Ident); ok && id.Name == "nil" {
				if o, ok := gateAddrSet(be.Y); ok {
					return "(LTlsAndAddr " + gateCoqStr(o) + ")"
				}
			}
		}
	}
	return "(LOther " + gateCoqStr(gateSrc(p, e)) + ")"
}

// every assignment to a field httpListener / httpsListener in package nsqd: the function,
// the condition of the innermost enclosing if (none: LOther), and whether the value is
// tls.Listen(..., n.tlsConfig).  A write that is not a Listen call is reported with LOther.
func gateListens(p *pkg) []string {
	var out []string
	for _, fn := range p.fileNames() {
		for _, d := range p.files[fn].Decls {
			fd, ok := d.(*ast.FuncDecl)
			if !ok || fd.Body == nil {
				continue
			}
			ast.Inspect(fd.Body, func(n ast.Node) bool {
				as, ok := n.(*ast.AssignStmt)
				if !ok {
					return true
				}
				for _, l := range as.Lhs {
					var field string
					switch {
					case gateEndsWithSel(l, "httpListener"):
						field = "httpListener"
					case gateEndsWithSel(l, "httpsListener"):
						field = "httpsListener"
					default:
						continue
					}
					var cond ast.Expr
					depth := 0
					ast.Inspect(fd.Body, func(m ast.Node) bool {
						is, ok := m.(*ast.IfStmt)
						if !ok || is.Body.Pos() > as.Pos() || is.Body.End() < as.End() {
							return true
						}
						depth++
						cond = is.Cond
						return true
					})
					lexp := gateLexp(p, cond)
					if depth != 1 {
						lexp = "(LOther " + gateCoqStr(fmt.Sprintf("nested in %d conditions", depth)) + ")"
					}
					isTLS := false
					if len(as.Rhs) == 1 {
						if call, ok := as.Rhs[0].(*ast.CallExpr); ok && gateCallName(call) == "Listen" {
							if sel, ok := call.Fun.(*ast.SelectorExpr); ok {
								if id, ok := sel.X.(*ast.Ident); ok && id.Name == "tls" && len(call.Args) == 3 && gateEndsWithSel(call.Args[2], "tlsConfig") {
									isTLS = true
								} else if !ok || id.Name != "net" {
									lexp = "(LOther " + gateCoqStr(gateSrc(p, as)) + ")"
								}
							}
						} else {
							lexp = "(LOther " + gateCoqStr(gateSrc(p, as)) + ")"
						}
					} else {
						lexp = "(LOther " + gateCoqStr(gateSrc(p, as)) + ")"
					}
					out = append(out, fmt.Sprintf("mkListen %s %s %s %v", gateCoqStr(field), gateCoqStr(fd.Name.Name), lexp, isTLS))
				}
				return true
			})
		}
	}
	return out
}

// NSQD.Main: every Serve(n.<listener>, <server>, ...) with the listener of the enclosing
// if n.X != nil and the listener of the block whose newHTTPServer result <server> is
func gateServes(p *pkg) []string {
	fd := p.method("NSQD", "Main")
	if fd == nil {
		return nil
	}
	guardOf := func(n ast.Node) string {
		listener := "?"
		ast.Inspect(fd.Body, func(m ast.Node) bool {
			is, ok := m.(*ast.IfStmt)
			if !ok || is.Body.Pos() > n.Pos() || is.Body.End() < n.End() {
				return true
			}
			if be, ok := is.Cond.(*ast.BinaryExpr); ok && be.Op == token.NEQ {
				if sel, ok := be.X.(*ast.SelectorExpr); ok {
					listener = sel.Sel.Name
				}
			} else {
				listener = "?" + gateSrc(p, is.Cond)
			}
			return true
		})
		return listener
	}
	// server variable -> guard of the block in which it is assigned from newHTTPServer
	built := map[string]string{}
	ast.Inspect(fd.Body, func(n ast.Node) bool {
		as, ok := n.(*ast.AssignStmt)
		if !ok || len(as.Lhs) != 1 || len(as.Rhs) != 1 {
			return true
		}
		call, ok := as.Rhs[0].(*ast.CallExpr)
		if !ok || gateCallName(call) != "newHTTPServer" {
			return true
		}
		if id, ok := as.Lhs[0].(*ast.Ident); ok {
			if _, dup := built[id.Name]; dup {
				built[id.Name] = "?assigned twice"
			} else {
				built[id.Name] = guardOf(as)
			}
		}
		return true
	})
	var out []string
	ast.Inspect(fd.Body, func(n ast.Node) bool {
		call, ok := n.(*ast.CallExpr)
		if !ok || gateCallName(call) != "Serve" || len(call.Args) < 2 {
			return true
		}
		passed := "?" + gateSrc(p, call.Args[0])
		if sel, ok := call.Args[0].(*ast.SelectorExpr); ok {
			passed = sel.Sel.Name
		}
		of := "?" + gateSrc(p, call.Args[1])
		if id, ok := call.Args[1].(*ast.Ident); ok {
			if g, ok := built[id.Name]; ok {
				of = g
			}
		}
		out = append(out, fmt.Sprintf("mkServe %s %s %s", gateCoqStr(guardOf(call)), gateCoqStr(passed), gateCoqStr(of)))
		return true
	})
	return out
}

func gateIsNot(e ast.Expr, field string) bool {
	u, ok := e.(*ast.UnaryExpr)
	return ok && u.Op == token.NOT && gateEndsWithSel(u.X, field)
}

// httpServer.ServeHTTP: first statement  if !s.tlsEnabled && s.tlsRequired { ... w.WriteHeader(N) ... return }
func gateServeGuard(p *pkg) string {
	fd := p.method("httpServer", "ServeHTTP")
	if fd == nil || len(fd.Body.List) == 0 {
		return "(GuardOther \"ServeHTTP not found\")"
	}
	is, ok := fd.Body.List[0].(*ast.IfStmt)
	if !ok {
		return "(GuardOther " + gateCoqStr(gateSrc(p, fd.Body.List[0])) + ")"
	}
	be, ok := is.Cond.(*ast.BinaryExpr)
	if !ok || be.Op != token.LAND || !gateIsNot(be.X, "tlsEnabled") || !gateEndsWithSel(be.Y, "tlsRequired") {
		return "(GuardOther " + gateCoqStr(gateSrc(p, is.Cond)) + ")"
	}
	if len(is.Body.List) == 0 {
		return "(GuardOther \"empty body\")"
	}
	if _, ok := is.Body.List[len(is.Body.List)-1].(*ast.ReturnStmt); !ok {
		return "(GuardOther \"guard does not return\")"
	}
	status := -1
	routed := false
	ast.Inspect(is.Body, func(n ast.Node) bool {
		call, ok := n.(*ast.CallExpr)
		if !ok {
			return true
		}
		if gateCallName(call) == "WriteHeader" && len(call.Args) == 1 {
			if lit, ok := call.Args[0].(*ast.BasicLit); ok && lit.Kind == token.INT {
				status, _ = strconv.Atoi(lit.Value)
			}
		}
		if gateCallName(call) == "ServeHTTP" {
			routed = true
		}
		return true
	})
	if status < 0 || routed {
		return "(GuardOther \"no literal status, or the router is reached inside the guard\")"
	}
	return fmt.Sprintf("(GuardNotEnabledAndRequired %d)", status)
}

// enforceTLSPolicy: if opts.TLSRequired != C && atomic.LoadInt32(&client.TLS) != 1 { return fatal }; return nil
func gateEnforceGuard(p *pkg) string {
	fd := p.funcDecl("enforceTLSPolicy")
	if fd == nil || len(fd.Body.List) != 2 {
		return "(GuardOther \"enforceTLSPolicy: unexpected statement count\")"
	}
	is, ok := fd.Body.List[0].(*ast.IfStmt)
	if !ok || is.Else != nil || is.Init != nil {
		return "(GuardOther " + gateCoqStr(gateSrc(p, fd.Body.List[0])) + ")"
	}
	be, ok := is.Cond.(*ast.BinaryExpr)
	if !ok || be.Op != token.LAND {
		return "(GuardOther " + gateCoqStr(gateSrc(p, is.Cond)) + ")"
	}
	l, ok := be.X.(*ast.BinaryExpr)
	r, ok2 := be.Y.(*ast.BinaryExpr)
	if !ok || !ok2 || l.Op != token.NEQ || r.Op != token.NEQ || !gateEndsWithSel(l.X, "TLSRequired") {
		return "(GuardOther " + gateCoqStr(gateSrc(p, is.Cond)) + ")"
	}
	c, ok := l.Y.(*ast.Ident)
	if !ok {
		return "(GuardOther " + gateCoqStr(gateSrc(p, is.Cond)) + ")"
	}
	// atomic.LoadInt32(&client.TLS) != 1
	one, ok := r.Y.(*ast.BasicLit)
	call, ok2 := r.X.(*ast.CallExpr)
	if !ok || !ok2 || one.Value != "1" || gateCallName(call) != "LoadInt32" || len(call.Args) != 1 {
		return "(GuardOther " + gateCoqStr(gateSrc(p, is.Cond)) + ")"
	}
	u, ok := call.Args[0].(*ast.UnaryExpr)
	if !ok || u.Op != token.AND || !gateEndsWithSel(u.X, "TLS") {
		return "(GuardOther " + gateCoqStr(gateSrc(p, is.Cond)) + ")"
	}
	if len(is.Body.List) != 1 {
		return "(GuardOther \"guard body\")"
	}
	if _, ok := is.Body.List[0].(*ast.ReturnStmt); !ok {
		return "(GuardOther \"guard body does not return\")"
	}
	if rs, ok := fd.Body.List[1].(*ast.ReturnStmt); !ok || len(rs.Results) != 1 {
		return "(GuardOther \"tail\")"
	} else if id, ok := rs.Results[0].(*ast.Ident); !ok || id.Name != "nil" {
		return "(GuardOther \"tail\")"
	}
	return "(GuardReqNeAndNotTLS " + gateCoqStr(c.Name) + ")"
}

// where client.TLS is written: every function of package nsqd that stores to the TLS field
func gateTLSWriters(p *pkg) []string {
	var out []string
	for _, fn := range p.fileNames() {
		for _, d := range p.files[fn].Decls {
			fd, ok := d.(*ast.FuncDecl)
			if !ok || fd.Body == nil {
				continue
			}
			writes := false
			ast.Inspect(fd.Body, func(n ast.Node) bool {
				switch x := n.(type) {
				case *ast.CallExpr:
					nm := gateCallName(x)
					if (nm == "StoreInt32" || nm == "AddInt32" || nm == "SwapInt32" || nm == "CompareAndSwapInt32") && len(x.Args) >= 1 {
						if u, ok := x.Args[0].(*ast.UnaryExpr); ok && u.Op == token.AND && gateEndsWithSel(u.X, "TLS") {
							writes = true
						}
					}
				case *ast.AssignStmt:
					for _, l := range x.Lhs {
						if gateEndsWithSel(l, "TLS") {
							writes = true
						}
					}
				case *ast.IncDecStmt:
					if gateEndsWithSel(x.X, "TLS") {
						writes = true
					}
				}
				return true
			})
			if writes {
				out = append(out, gateCoqStr(fd.Name.Name))
			}
		}
	}
	return out
}

// the callers of UpgradeTLS (handler methods of protocolV2)
func gateCallersOf(p *pkg, callee string) []string {
	var out []string
	for _, fn := range p.fileNames() {
		for _, d := range p.files[fn].Decls {
			fd, ok := d.(*ast.FuncDecl)
			if !ok || fd.Body == nil {
				continue
			}
			calls := false
			ast.Inspect(fd.Body, func(n ast.Node) bool {
				if c, ok := n.(*ast.CallExpr); ok && gateCallName(c) == callee {
					calls = true
				}
				return true
			})
			if calls {
				out = append(out, gateCoqStr(fd.Name.Name))
			}
		}
	}
	return out
}

// the topic and channel arguments of the (first) CheckAuth call of a handler, identifiers
// resolved through their := definition in the handler
func gateCheckAuthArgs(p *pkg, name string) (string, string) {
	fd := p.method("protocolV2", name)
	if fd == nil {
		return "?", "?"
	}
	defs := map[string]string{}
	ast.Inspect(fd.Body, func(n ast.Node) bool {
		as, ok := n.(*ast.AssignStmt)
		if !ok || as.Tok != token.DEFINE || len(as.Lhs) != 1 || len(as.Rhs) != 1 {
			return true
		}
		if id, ok := as.Lhs[0].(*ast.Ident); ok {
			if _, dup := defs[id.Name]; !dup {
				defs[id.Name] = gateSrc(p, as.Rhs[0])
			}
		}
		return true
	})
	resolve := func(e ast.Expr) string {
		if id, ok := e.(*ast.Ident); ok {
			if d, ok := defs[id.Name]; ok {
				return d
			}
		}
		return gateSrc(p, e)
	}
	t, c := "?", "?"
	done := false
	ast.Inspect(fd.Body, func(n ast.Node) bool {
		call, ok := n.(*ast.CallExpr)
		if !ok || done || gateCallName(call) != "CheckAuth" || len(call.Args) != 4 {
			return true
		}
		t, c = resolve(call.Args[2]), resolve(call.Args[3])
		done = true
		return true
	})
	return t, c
}

// internal/auth: the shapes the grant model is written against
func gateAuthShapes(repo string, sb *strings.Builder) error {
	p, err := loadPkg(repo, "internal/auth")
	if err != nil {
		return err
	}
	// State.IsExpired: the single returned expression
	exp := "?"
	if fd := p.method("State", "IsExpired"); fd != nil && len(fd.Body.List) == 1 {
		if rs, ok := fd.Body.List[0].(*ast.ReturnStmt); ok && len(rs.Results) == 1 {
			exp = gateSrc(p, rs.Results[0])
		}
	}
	fmt.Fprintf(sb, "Definition isexpired_expr : string := %s.\n", gateCoqStr(exp))
	// Authorization.IsAllowed: first statement  if channel != "" { !HasPermission(A) -> false } else { !HasPermission(B) -> false }
	cond, pa, pb := "?", "?", "?"
	if fd := p.method("Authorization", "IsAllowed"); fd != nil && len(fd.Body.List) > 0 {
		if is, ok := fd.Body.List[0].(*ast.IfStmt); ok {
			cond = gateSrc(p, is.Cond)
			lit := func(b ast.Node) string {
				out := "?"
				ast.Inspect(b, func(n ast.Node) bool {
					call, ok := n.(*ast.CallExpr)
					if ok && gateCallName(call) == "HasPermission" && len(call.Args) == 1 {
						if l, ok := call.Args[0].(*ast.BasicLit); ok && l.Kind == token.STRING {
							if s, err := strconv.Unquote(l.Value); err == nil {
								out = s
							}
						}
					}
					return true
				})
				return out
			}
			pa = lit(is.Body)
			if is.Else != nil {
				pb = lit(is.Else)
			}
		}
	}
	fmt.Fprintf(sb, "Definition isallowed_branch : string * string * string := (%s, %s, %s).\n", gateCoqStr(cond), gateCoqStr(pa), gateCoqStr(pb))
	// QueryAuthd: the permissions accepted by the validation switch, and the TTL guard
	var perms []string
	ttl := "?"
	if fd := p.funcDecl("QueryAuthd"); fd != nil {
		ast.Inspect(fd.Body, func(n ast.Node) bool {
			switch x := n.(type) {
			case *ast.CaseClause:
				for _, e := range x.List {
					if l, ok := e.(*ast.BasicLit); ok && l.Kind == token.STRING {
						if s, err := strconv.Unquote(l.Value); err == nil {
							perms = append(perms, gateCoqStr(s))
						}
					}
				}
			case *ast.IfStmt:
				if be, ok := x.Cond.(*ast.BinaryExpr); ok && gateEndsWithSel(be.X, "TTL") {
					ttl = gateSrc(p, x.Cond)
				}
			}
			return true
		})
	}
	fmt.Fprintf(sb, "Definition queryauthd_known_perms : list string := [%s].\n", strings.Join(perms, "; "))
	fmt.Fprintf(sb, "Definition queryauthd_ttl_refused : string := %s.\n", gateCoqStr(ttl))
	return nil
}

func genGate(repo string) (string, error) {
	p, err := loadPkg(repo, "nsqd")
	if err != nil {
		return "", err
	}
	var sb strings.Builder
	sb.WriteString("From Coq Require Import List String.\nFrom NSQV Require Import model.GateSyn.\nImport ListNotations.\nOpen Scope string_scope.\n\n")

	rows, err := gateExecTable(p)
	if err != nil {
		return "", err
	}
	sb.WriteString("(* protocolV2.Exec: command literal, handler, dispatched after the TLS gate? *)\nDefinition exec_table : list exec_row := [\n")
	for i, r := range rows {
		sep := ";"
		if i == len(rows)-1 {
			sep = ""
		}
		fmt.Fprintf(&sb, "  mkRow %s %s %v%s\n", gateCoqStr(r.cmd), gateCoqStr(r.handler), r.after, sep)
	}
	sb.WriteString("].\n\n")

	for _, h := range []string{"SUB", "PUB", "MPUB", "DPUB"} {
		evs, err := gateSummary(p, h)
		if err != nil {
			return "", err
		}
		fmt.Fprintf(&sb, "Definition summary_%s : list gevent := [%s].\n", h, strings.Join(evs, "; "))
	}
	sb.WriteString("\n")

	sb.WriteString("(* handler, topic argument, channel argument of its CheckAuth call (identifiers resolved) *)\nDefinition checkauth_args : list (string * string * string) := [\n")
	for i, h := range []string{"SUB", "PUB", "MPUB", "DPUB"} {
		t, c := gateCheckAuthArgs(p, h)
		sep := ";"
		if i == 3 {
			sep = ""
		}
		fmt.Fprintf(&sb, "  (%s, %s, %s)%s\n", gateCoqStr(h), gateCoqStr(t), gateCoqStr(c), sep)
	}
	sb.WriteString("].\n\n")

	ca := p.method("protocolV2", "CheckAuth")
	if ca == nil {
		return "", fmt.Errorf("protocolV2.CheckAuth not found")
	}
	fmt.Fprintf(&sb, "Definition checkauth_returns : list err_return := [%s].\n", strings.Join(gateErrReturns(ca), "; "))
	en := p.funcDecl("enforceTLSPolicy")
	if en == nil {
		return "", fmt.Errorf("enforceTLSPolicy not found")
	}
	fmt.Fprintf(&sb, "Definition enforce_returns : list err_return := [%s].\n", strings.Join(gateErrReturns(en), "; "))
	fmt.Fprintf(&sb, "Definition enforce_guard : guard_shape := %s.\n\n", gateEnforceGuard(p))

	fmt.Fprintf(&sb, "(* functions of package nsqd that write clientV2.TLS, and the callers of UpgradeTLS *)\n")
	fmt.Fprintf(&sb, "Definition tls_flag_writers : list string := [%s].\n", strings.Join(gateTLSWriters(p), "; "))
	fmt.Fprintf(&sb, "Definition upgrade_tls_callers : list string := [%s].\n\n", strings.Join(gateCallersOf(p, "UpgradeTLS"), "; "))

	ws, err := gateWirings(p)
	if err != nil {
		return "", err
	}
	fmt.Fprintf(&sb, "(* NSQD.Main: newHTTPServer(n, tlsEnabled, tlsRequired) per listener *)\nDefinition http_wirings : list http_wiring := [\n  %s\n].\n", strings.Join(ws, ";\n  "))
	fmt.Fprintf(&sb, "Definition http_ctor_stores_params : bool := %v.\n", gateCtorOK(p))
	fmt.Fprintf(&sb, "Definition servehttp_guard : guard_shape := %s.\n", gateServeGuard(p))
	fmt.Fprintf(&sb, "(* every write of NSQD.httpListener / httpsListener in package nsqd *)\nDefinition http_listens : list http_listen := [\n  %s\n].\n", strings.Join(gateListens(p), ";\n  "))
	fmt.Fprintf(&sb, "(* NSQD.Main: Serve(listener, server) calls *)\nDefinition http_serves : list http_serve := [\n  %s\n].\n", strings.Join(gateServes(p), ";\n  "))
	sb.WriteString("\n(* internal/auth/authorizations.go *)\n")
	if err := gateAuthShapes(repo, &sb); err != nil {
		return "", err
	}
	return sb.String(), nil
}
