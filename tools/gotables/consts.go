package main

import (
	"fmt"
	"go/ast"
	"sort"
	"strings"
)

func init() { register("Consts.v", genConsts) }

type constReq struct {
	rel    string
	prefix string
	names  []string
}

var constReqs = []constReq{
	{"nsqd", "nsqd", []string{"nodeIDBits", "sequenceBits", "nodeIDShift", "timestampShift", "sequenceMask", "twepoch",
		"MsgIDLength", "minValidMsgLength", "defaultBufferSize",
		"frameTypeResponse", "frameTypeError", "frameTypeMessage",
		"stateInit", "stateDisconnected", "stateConnected", "stateSubscribed", "stateClosing"}},
}

// optionDefaults extracts the integer-valued fields of the composite literal
// returned by NewOptions() in the given package.
func optionDefaults(p *pkg) (map[string]string, error) {
	fd := p.funcDecl("NewOptions")
	if fd == nil {
		return nil, fmt.Errorf("NewOptions not found in %s", p.dir)
	}
	res := map[string]string{}
	ast.Inspect(fd.Body, func(n ast.Node) bool {
		cl, ok := n.(*ast.CompositeLit)
		if !ok {
			return true
		}
		if id, ok := cl.Type.(*ast.Ident); !ok || id.Name != "Options" {
			return true
		}
		for _, el := range cl.Elts {
			kv, ok := el.(*ast.KeyValueExpr)
			if !ok {
				continue
			}
			k, ok := kv.Key.(*ast.Ident)
			if !ok {
				continue
			}
			if v, err := p.evalInt(kv.Value, 0, 0); err == nil {
				res[k.Name] = coqZ(v)
			}
		}
		return false
	})
	return res, nil
}

func genConsts(repo string) (string, error) {
	var sb strings.Builder
	sb.WriteString("From Coq Require Import ZArith.\nOpen Scope Z_scope.\n\n")
	for _, req := range constReqs {
		p, err := loadPkg(repo, req.rel)
		if err != nil {
			return "", err
		}
		for _, n := range req.names {
			v, err := p.constInt(n)
			if err != nil {
				return "", fmt.Errorf("%s.%s: %v", req.rel, n, err)
			}
			fmt.Fprintf(&sb, "Definition %s_%s : Z := %s.\n", req.prefix, n, coqZ(v))
		}
	}
	for _, o := range []struct{ rel, prefix string }{{"nsqd", "nsqd_opt"}, {"nsqlookupd", "lookupd_opt"}, {"nsqadmin", "admin_opt"}} {
		p, err := loadPkg(repo, o.rel)
		if err != nil {
			return "", err
		}
		defs, err := optionDefaults(p)
		if err != nil {
			return "", err
		}
		var ks []string
		for k := range defs {
			ks = append(ks, k)
		}
		sort.Strings(ks)
		sb.WriteString("\n")
		for _, k := range ks {
			fmt.Fprintf(&sb, "Definition %s_%s : Z := %s.\n", o.prefix, k, defs[k])
		}
	}
	return sb.String(), nil
}
