package main

// httproutes.go: emitter for coq/gen/NsqdRoutes.v (property C10).
//
// From /repo/nsqd/http.go (go/ast only, nothing is evaluated):
//   nsqd_routes          every router.Handle / HandlerFunc / Handler registration of
//                        newHTTPServer: (method, path, handler expression, decorators);
//                        registrations that bypass http_api.Decorate (net/http/pprof)
//                        carry the single decorator "stdlib"
//   nsqd_router_settings the assignments to fields of the httprouter.Router
//   nsqd_http_errs       every http_api.Err{code, "TOKEN"} literal, with the function
//                        it occurs in, in source order
//   nsqd_bool_params     the boolParams map
// From /repo/nsqd/options.go:
//   nsqd_cfg_names       the option names GET /config/:opt resolves (getOptByCfgName)
// From /repo/internal/http_api/topic_channel_args.go:
//   http_api_arg_errs    the errors.New("...") literals of GetTopicChannelArgs

import (
	"fmt"
	"go/ast"
	"go/token"
	"reflect"
	"strconv"
	"strings"
)

func init() { register("NsqdRoutes.v", genNsqdRoutes) }

func hrCoqStr(s string) string { return "\"" + strings.ReplaceAll(s, "\"", "\"\"") + "\"" }

// hrExprText renders the handler / decorator expressions that occur in route tables.
func hrExprText(e ast.Expr) string {
	switch x := e.(type) {
	case *ast.Ident:
		return x.Name
	case *ast.SelectorExpr:
		return hrExprText(x.X) + "." + x.Sel.Name
	case *ast.BasicLit:
		if x.Kind == token.STRING {
			if s, err := strconv.Unquote(x.Value); err == nil {
				return s
			}
		}
		return x.Value
	case *ast.CallExpr:
		args := make([]string, len(x.Args))
		for i, a := range x.Args {
			args[i] = hrExprText(a)
		}
		return hrExprText(x.Fun) + "(" + strings.Join(args, ",") + ")"
	case *ast.ParenExpr:
		return hrExprText(x.X)
	}
	return fmt.Sprintf("<%T>", e)
}

func hrStrLit(e ast.Expr) (string, bool) {
	bl, ok := e.(*ast.BasicLit)
	if !ok || bl.Kind != token.STRING {
		return "", false
	}
	s, err := strconv.Unquote(bl.Value)
	return s, err == nil
}

func genNsqdRoutes(repo string) (string, error) {
	p, err := loadPkg(repo, "nsqd")
	if err != nil {
		return "", err
	}
	fd := p.funcDecl("newHTTPServer")
	if fd == nil {
		return "", fmt.Errorf("newHTTPServer not found")
	}
	var rows, settings []string
	var walkErr error
	ast.Inspect(fd.Body, func(n ast.Node) bool {
		switch st := n.(type) {
		case *ast.AssignStmt:
			if len(st.Lhs) == 1 && len(st.Rhs) == 1 {
				if sel, ok := st.Lhs[0].(*ast.SelectorExpr); ok {
					if id, ok := sel.X.(*ast.Ident); ok && id.Name == "router" {
						v := st.Rhs[0]
						txt := hrExprText(v)
						if c, ok := v.(*ast.CallExpr); ok {
							txt = hrExprText(c.Fun)
						}
						settings = append(settings, fmt.Sprintf("(%s, %s)", hrCoqStr(sel.Sel.Name), hrCoqStr(txt)))
					}
				}
			}
		case *ast.ExprStmt:
			call, ok := st.X.(*ast.CallExpr)
			if !ok {
				return true
			}
			sel, ok := call.Fun.(*ast.SelectorExpr)
			if !ok {
				return true
			}
			id, ok := sel.X.(*ast.Ident)
			if !ok || id.Name != "router" {
				return true
			}
			switch sel.Sel.Name {
			case "Handle", "HandlerFunc", "Handler", "GET", "POST", "PUT", "DELETE", "HEAD", "OPTIONS", "PATCH":
			default:
				return true
			}
			args := call.Args
			var method string
			if sel.Sel.Name == "Handle" || sel.Sel.Name == "HandlerFunc" || sel.Sel.Name == "Handler" {
				if len(args) != 3 {
					walkErr = fmt.Errorf("router.%s with %d arguments", sel.Sel.Name, len(args))
					return false
				}
				m, ok := hrStrLit(args[0])
				if !ok {
					walkErr = fmt.Errorf("router.%s: method is not a string literal", sel.Sel.Name)
					return false
				}
				method = m
				args = args[1:]
			} else {
				method = sel.Sel.Name
			}
			path, ok := hrStrLit(args[0])
			if !ok {
				walkErr = fmt.Errorf("router.%s: path is not a string literal", sel.Sel.Name)
				return false
			}
			handler := hrExprText(args[1])
			decor := []string{hrCoqStr("stdlib")}
			if sel.Sel.Name == "Handle" {
				if dc, ok := args[1].(*ast.CallExpr); ok && hrExprText(dc.Fun) == "http_api.Decorate" && len(dc.Args) >= 1 {
					handler = hrExprText(dc.Args[0])
					decor = nil
					for _, d := range dc.Args[1:] {
						decor = append(decor, hrCoqStr(hrExprText(d)))
					}
				} else {
					decor = []string{hrCoqStr("undecorated")}
				}
			}
			rows = append(rows, fmt.Sprintf("(%s, %s, %s, [%s])", hrCoqStr(method), hrCoqStr(path), hrCoqStr(handler), strings.Join(decor, "; ")))
		}
		return true
	})
	if walkErr != nil {
		return "", walkErr
	}
	if len(rows) == 0 {
		return "", fmt.Errorf("no routes found in newHTTPServer")
	}

	// http_api.Err literals of nsqd/http.go
	var errs []string
	f := p.files["http.go"]
	if f == nil {
		return "", fmt.Errorf("nsqd/http.go not found")
	}
	for _, d := range f.Decls {
		fn, ok := d.(*ast.FuncDecl)
		if !ok || fn.Body == nil {
			continue
		}
		ast.Inspect(fn.Body, func(n ast.Node) bool {
			cl, ok := n.(*ast.CompositeLit)
			if !ok || cl.Type == nil || hrExprText(cl.Type) != "http_api.Err" || len(cl.Elts) != 2 {
				return true
			}
			code, err := p.evalInt(cl.Elts[0], 0, 0)
			codeTxt := "(-1)"
			if err == nil {
				codeTxt = coqZ(code)
			} else if s := hrExprText(cl.Elts[0]); s == "http.StatusBadRequest" {
				codeTxt = "400"
			}
			tok, ok := hrStrLit(cl.Elts[1])
			if !ok {
				tok = "<dynamic>"
				if id, isId := cl.Elts[1].(*ast.Ident); isId {
					tok = "<" + id.Name + ">"
				}
				if c, isCall := cl.Elts[1].(*ast.CallExpr); isCall {
					tok = "<" + hrExprText(c.Fun) + ">"
				}
			}
			errs = append(errs, fmt.Sprintf("(%s, %s%%Z, %s)", hrCoqStr(fn.Name.Name), codeTxt, hrCoqStr(tok)))
			return true
		})
	}

	// boolParams
	var bools []string
	for _, d := range f.Decls {
		gd, ok := d.(*ast.GenDecl)
		if !ok || gd.Tok != token.VAR {
			continue
		}
		for _, s := range gd.Specs {
			vs := s.(*ast.ValueSpec)
			if len(vs.Names) != 1 || vs.Names[0].Name != "boolParams" || len(vs.Values) != 1 {
				continue
			}
			if cl, ok := vs.Values[0].(*ast.CompositeLit); ok {
				for _, el := range cl.Elts {
					kv, ok := el.(*ast.KeyValueExpr)
					if !ok {
						continue
					}
					k, _ := hrStrLit(kv.Key)
					bools = append(bools, fmt.Sprintf("(%s, %s)", hrCoqStr(k), hrExprText(kv.Value)))
				}
			}
		}
	}

	// option names (struct tags of Options)
	var names []string
	of := p.files["options.go"]
	if of == nil {
		return "", fmt.Errorf("nsqd/options.go not found")
	}
	for _, d := range of.Decls {
		gd, ok := d.(*ast.GenDecl)
		if !ok || gd.Tok != token.TYPE {
			continue
		}
		for _, s := range gd.Specs {
			ts := s.(*ast.TypeSpec)
			stt, ok := ts.Type.(*ast.StructType)
			if !ok || ts.Name.Name != "Options" {
				continue
			}
			for _, fld := range stt.Fields.List {
				if fld.Tag == nil {
					continue
				}
				raw, err := strconv.Unquote(fld.Tag.Value)
				if err != nil {
					continue
				}
				tag := reflect.StructTag(raw)
				flagName := tag.Get("flag")
				if flagName == "" {
					continue
				}
				cfgName := tag.Get("cfg")
				if cfgName == "" {
					cfgName = strings.Replace(flagName, "-", "_", -1)
				}
				names = append(names, hrCoqStr(cfgName))
			}
		}
	}
	if len(names) == 0 {
		return "", fmt.Errorf("no option names found in nsqd/options.go")
	}

	// GetTopicChannelArgs error tokens
	hp, err := loadPkg(repo, "internal/http_api")
	if err != nil {
		return "", err
	}
	var argErrs []string
	if g := hp.funcDecl("GetTopicChannelArgs"); g != nil {
		ast.Inspect(g.Body, func(n ast.Node) bool {
			c, ok := n.(*ast.CallExpr)
			if ok && hrExprText(c.Fun) == "errors.New" && len(c.Args) == 1 {
				if s, ok := hrStrLit(c.Args[0]); ok {
					argErrs = append(argErrs, hrCoqStr(s))
				}
			}
			return true
		})
	} else {
		return "", fmt.Errorf("GetTopicChannelArgs not found")
	}

	// call-order summaries: for each handler / helper of nsqd/http.go, the calls that matter
	// to C10 in order of first occurrence (source order)
	interesting := map[string]bool{
		"io.ReadAll": true, "io.LimitReader": true, "bufio.NewReader": true, "ReadBytes": true,
		"getTopicFromQuery": true, "getExistingTopicFromQuery": true, "http_api.NewReqParams": true,
		"http_api.GetTopicChannelArgs": true, "url.ParseQuery": true, "protocol.IsValidTopicName": true,
		"GetTopic": true, "GetExistingTopic": true, "DeleteExistingTopic": true, "GetChannel": true,
		"GetExistingChannel": true, "DeleteExistingChannel": true, "Empty": true, "Pause": true, "UnPause": true,
		"PutMessage": true, "PutMessages": true, "readMPUB": true, "PersistMetadata": true,
		"strconv.ParseInt": true, "strconv.Atoi": true, "msToDuration": true, "NewMessage": true,
		"json.Unmarshal": true, "lg.ParseLogLevel": true, "swapOpts": true, "getOptByCfgName": true,
		"IsHealthy": true, "os.Hostname": true, "FormValue": true, "GetStats": true,
	}
	var calls []string
	for _, d := range f.Decls {
		fn, ok := d.(*ast.FuncDecl)
		if !ok || fn.Body == nil {
			continue
		}
		if !(strings.HasPrefix(fn.Name.Name, "do") || strings.HasSuffix(fn.Name.Name, "FromQuery") ||
			fn.Name.Name == "pingHandler" || fn.Name.Name == "setBlockRateHandler" || fn.Name.Name == "freeMemory") {
			continue
		}
		seen := map[string]bool{}
		var order []string
		ast.Inspect(fn.Body, func(n ast.Node) bool {
			c, ok := n.(*ast.CallExpr)
			if !ok {
				return true
			}
			name := ""
			switch fx := c.Fun.(type) {
			case *ast.Ident:
				name = fx.Name
			case *ast.SelectorExpr:
				name = fx.Sel.Name
				if id, ok := fx.X.(*ast.Ident); ok {
					full := id.Name + "." + fx.Sel.Name
					if interesting[full] {
						name = full
					}
				}
			}
			if interesting[name] && !seen[name] {
				seen[name] = true
				order = append(order, hrCoqStr(name))
			}
			return true
		})
		calls = append(calls, fmt.Sprintf("(%s, [%s])", hrCoqStr(fn.Name.Name), strings.Join(order, "; ")))
	}

	var sb strings.Builder
	sb.WriteString("From Coq Require Import String List ZArith.\nImport ListNotations.\nLocal Open Scope string_scope.\n\n")
	sb.WriteString("(* nsqd/http.go newHTTPServer: (method, path, handler, decorators) *)\n")
	sb.WriteString("Definition nsqd_routes : list (string * string * string * list string) := [\n  ")
	sb.WriteString(strings.Join(rows, ";\n  "))
	sb.WriteString("\n].\n\n")
	sb.WriteString("(* assignments to the httprouter.Router in newHTTPServer *)\n")
	sb.WriteString("Definition nsqd_router_settings : list (string * string) := [\n  ")
	sb.WriteString(strings.Join(settings, ";\n  "))
	sb.WriteString("\n].\n\n")
	sb.WriteString("(* every http_api.Err literal of nsqd/http.go: (function, status, token) *)\n")
	sb.WriteString("Definition nsqd_http_errs : list (string * Z * string) := [\n  ")
	sb.WriteString(strings.Join(errs, ";\n  "))
	sb.WriteString("\n].\n\n")
	sb.WriteString("(* per handler of nsqd/http.go: the calls that matter, in order of first occurrence *)\n")
	sb.WriteString("Definition nsqd_http_calls : list (string * list string) := [\n  ")
	sb.WriteString(strings.Join(calls, ";\n  "))
	sb.WriteString("\n].\n\n")
	sb.WriteString("Definition nsqd_bool_params : list (string * bool) := [")
	sb.WriteString(strings.Join(bools, "; "))
	sb.WriteString("].\n\n")
	sb.WriteString("(* the names getOptByCfgName resolves: cfg tag, or the flag tag with '-' -> '_' *)\n")
	sb.WriteString("Definition nsqd_cfg_names : list string := [\n  ")
	sb.WriteString(strings.Join(names, "; "))
	sb.WriteString("\n].\n\n")
	sb.WriteString("(* internal/http_api GetTopicChannelArgs: its error tokens in source order *)\n")
	sb.WriteString("Definition http_api_arg_errs : list string := [")
	sb.WriteString(strings.Join(argErrs, "; "))
	sb.WriteString("].\n")
	return sb.String(), nil
}
