package main

// MetaShape.v (C06): what the source text says about the metadata persistence protocol —
// the order of the file operations in writeSyncFile / PersistMetadata, where
// DeleteExistingTopic / DeleteExistingChannel remove the object from its map and persist
// again, that doPauseTopic / doPauseChannel flip the flag before they persist under the
// NSQD lock, that Notify hands the value to notifyChan before it persists, which Notify
// calls ask for a persist, what GetMetadata skips, what LoadMetadata checks, and the
// start-up order in apps/nsqd.  Only syntax is read (go/ast): call names in source
// order, the text of guards.  verifPoint calls are ignored.

import (
	"fmt"
	"go/ast"
	"go/token"
	"go/types"
	"strings"
)

func init() { register("MetaShape.v", genMetaShape) }

func metaCallName(c *ast.CallExpr) string {
	switch f := c.Fun.(type) {
	case *ast.SelectorExpr:
		return f.Sel.Name
	case *ast.Ident:
		return f.Name
	}
	return ""
}

// metaEvents lists, in source order, the calls whose name is in want (the builtin
// delete(...) is reported as "mapdelete", a channel send on a selector x.<name> as
// "send:<name>").
func metaEvents(n ast.Node, want map[string]bool) []string {
	var out []string
	if n == nil {
		return out
	}
	ast.Inspect(n, func(x ast.Node) bool {
		switch v := x.(type) {
		case *ast.CallExpr:
			name := metaCallName(v)
			if id, ok := v.Fun.(*ast.Ident); ok && id.Name == "delete" {
				name = "mapdelete"
			}
			if want[name] {
				out = append(out, name)
			}
		case *ast.SendStmt:
			if sel, ok := v.Chan.(*ast.SelectorExpr); ok && want["send:"+sel.Sel.Name] {
				out = append(out, "send:"+sel.Sel.Name)
			}
		}
		return true
	})
	return out
}

func metaSet(names ...string) map[string]bool {
	m := map[string]bool{}
	for _, n := range names {
		m[n] = true
	}
	return m
}

func metaCoqList(xs []string) string {
	q := make([]string, len(xs))
	for i, x := range xs {
		q[i] = "\"" + strings.ReplaceAll(x, "\"", "\"\"") + "\""
	}
	return "[" + strings.Join(q, "; ") + "]"
}

func metaBool(b bool) string {
	if b {
		return "true"
	}
	return "false"
}

// metaGuardOf returns the text of the condition of the innermost if statement whose
// body contains a call named name ("" when the call is not under an if).
func metaGuardOf(fd *ast.FuncDecl, name string) (string, bool) {
	guard, found := "", false
	var walk func(n ast.Node, g string)
	walk = func(n ast.Node, g string) {
		ast.Inspect(n, func(x ast.Node) bool {
			switch v := x.(type) {
			case *ast.IfStmt:
				if v.Init != nil {
					walk(v.Init, g)
				}
				walk(v.Body, types.ExprString(v.Cond))
				if v.Else != nil {
					walk(v.Else, g)
				}
				return false
			case *ast.CallExpr:
				if metaCallName(v) == name && !found {
					guard, found = g, true
				}
			}
			return true
		})
	}
	walk(fd.Body, "")
	return guard, found
}

// metaSkips: does a range body contain `if <cond mentioning all of words> { continue }`?
func metaSkips(n ast.Node, words ...string) bool {
	ok := false
	ast.Inspect(n, func(x ast.Node) bool {
		is, y := x.(*ast.IfStmt)
		if !y || len(is.Body.List) == 0 {
			return true
		}
		br, y := is.Body.List[len(is.Body.List)-1].(*ast.BranchStmt)
		if !y || br.Tok != token.CONTINUE {
			return true
		}
		c := types.ExprString(is.Cond)
		all := true
		for _, w := range words {
			if !strings.Contains(c, w) {
				all = false
			}
		}
		if all {
			ok = true
		}
		return true
	})
	return ok
}

// metaNotifyArg: the text of the second argument of the Notify call in fd.
func metaNotifyArg(fd *ast.FuncDecl) string {
	res := "?"
	if fd == nil {
		return res
	}
	ast.Inspect(fd.Body, func(x ast.Node) bool {
		if c, ok := x.(*ast.CallExpr); ok && metaCallName(c) == "Notify" && len(c.Args) == 2 {
			res = types.ExprString(c.Args[1])
		}
		return true
	})
	return res
}

func genMetaShape(repo string) (string, error) {
	nsqd, err := loadPkg(repo, "nsqd")
	if err != nil {
		return "", err
	}
	app, err := loadPkg(repo, "apps/nsqd")
	if err != nil {
		return "", err
	}
	need := func(fd *ast.FuncDecl, what string) error {
		if fd == nil {
			return fmt.Errorf("%s not found", what)
		}
		return nil
	}
	wsf := nsqd.funcDecl("writeSyncFile")
	pm := nsqd.method("NSQD", "PersistMetadata")
	det := nsqd.method("NSQD", "DeleteExistingTopic")
	dec := nsqd.method("Topic", "DeleteExistingChannel")
	pad := nsqd.method("NSQD", "persistAfterDelete")
	dpt := nsqd.method("httpServer", "doPauseTopic")
	dpc := nsqd.method("httpServer", "doPauseChannel")
	ntf := nsqd.method("NSQD", "Notify")
	gm := nsqd.method("NSQD", "GetMetadata")
	lm := nsqd.method("NSQD", "LoadMetadata")
	nt := nsqd.funcDecl("NewTopic")
	nc := nsqd.funcDecl("NewChannel")
	te := nsqd.method("Topic", "exit")
	ce := nsqd.method("Channel", "exit")
	gt := nsqd.method("NSQD", "GetTopic")
	goc := nsqd.method("Topic", "getOrCreateChannel")
	start := app.method("program", "Start")
	for _, c := range []struct {
		fd *ast.FuncDecl
		n  string
	}{{wsf, "writeSyncFile"}, {pm, "PersistMetadata"}, {det, "DeleteExistingTopic"}, {dec, "DeleteExistingChannel"},
		{dpt, "doPauseTopic"}, {dpc, "doPauseChannel"}, {ntf, "Notify"}, {gm, "GetMetadata"}, {lm, "LoadMetadata"},
		{nt, "NewTopic"}, {nc, "NewChannel"}, {te, "Topic.exit"}, {ce, "Channel.exit"}, {gt, "GetTopic"},
		{goc, "getOrCreateChannel"}, {start, "program.Start"}} {
		if err := need(c.fd, c.n); err != nil {
			return "", err
		}
	}
	var sb strings.Builder
	w := func(f string, a ...interface{}) { fmt.Fprintf(&sb, f, a...) }
	w("From Coq Require Import List String Bool.\nImport ListNotations.\nLocal Open Scope string_scope.\n\n")

	// writeSyncFile: file operations in source order, and the open flags
	w("(* nsqd/nsqd.go writeSyncFile: calls in source order *)\n")
	w("Definition write_sync_file_calls : list string := %s.\n", metaCoqList(metaEvents(wsf.Body, metaSet("OpenFile", "Write", "Sync", "Close", "Rename", "WriteFile", "Create"))))
	flags := []string{}
	ast.Inspect(wsf.Body, func(x ast.Node) bool {
		if c, ok := x.(*ast.CallExpr); ok && metaCallName(c) == "OpenFile" && len(c.Args) >= 2 {
			for _, f := range strings.Split(types.ExprString(c.Args[1]), "|") {
				flags = append(flags, strings.TrimSpace(f))
			}
		}
		return true
	})
	w("Definition write_sync_file_open_flags : list string := %s.\n", metaCoqList(flags))
	// the Sync is skipped only when the write failed
	g, _ := metaGuardOf(wsf, "Sync")
	w("Definition write_sync_file_sync_guard : string := \"%s\".\n\n", g)

	w("(* nsqd/nsqd.go PersistMetadata *)\n")
	w("Definition persist_metadata_calls : list string := %s.\n", metaCoqList(metaEvents(pm.Body, metaSet("GetMetadata", "Marshal", "writeSyncFile", "Rename", "WriteFile", "OpenFile", "Remove"))))
	wsArg, rnArgs, gmArg, tmpFmt := "?", []string{}, "?", "?"
	ast.Inspect(pm.Body, func(x ast.Node) bool {
		switch v := x.(type) {
		case *ast.CallExpr:
			switch metaCallName(v) {
			case "writeSyncFile":
				if len(v.Args) > 0 {
					wsArg = types.ExprString(v.Args[0])
				}
			case "Rename":
				for _, a := range v.Args {
					rnArgs = append(rnArgs, types.ExprString(a))
				}
			case "GetMetadata":
				if len(v.Args) > 0 {
					gmArg = types.ExprString(v.Args[0])
				}
			}
		case *ast.AssignStmt:
			if len(v.Lhs) == 1 && len(v.Rhs) == 1 && types.ExprString(v.Lhs[0]) == "tmpFileName" {
				if c, ok := v.Rhs[0].(*ast.CallExpr); ok && len(c.Args) > 0 {
					tmpFmt = strings.Trim(types.ExprString(c.Args[0]), "\"")
				}
			}
		}
		return true
	})
	w("Definition persist_metadata_write_target : string := \"%s\".\n", wsArg)
	w("Definition persist_metadata_rename_args : list string := %s.\n", metaCoqList(rnArgs))
	w("Definition persist_metadata_get_metadata_arg : string := \"%s\".\n", gmArg)
	w("Definition persist_metadata_tmp_format : string := \"%s\".\n\n", tmpFmt)

	w("(* DeleteExistingTopic / Topic.DeleteExistingChannel / persistAfterDelete *)\n")
	delSet := metaSet("Delete", "mapdelete", "persistAfterDelete", "PersistMetadata")
	w("Definition delete_topic_calls : list string := %s.\n", metaCoqList(metaEvents(det.Body, delSet)))
	g, _ = metaGuardOf(det, "persistAfterDelete")
	w("Definition delete_topic_persist_guard : string := \"%s\".\n", g)
	w("Definition delete_channel_calls : list string := %s.\n", metaCoqList(metaEvents(dec.Body, delSet)))
	g, _ = metaGuardOf(dec, "persistAfterDelete")
	w("Definition delete_channel_persist_guard : string := \"%s\".\n", g)
	if pad != nil {
		w("Definition persist_after_delete_calls : list string := %s.\n\n", metaCoqList(metaEvents(pad.Body, metaSet("Lock", "PersistMetadata", "Unlock"))))
	} else {
		w("Definition persist_after_delete_calls : list string := [].\n\n")
	}

	w("(* doPauseTopic / doPauseChannel: the flag flip and the persist *)\n")
	pauseSet := metaSet("Pause", "UnPause", "Lock", "PersistMetadata", "Unlock")
	w("Definition pause_topic_calls : list string := %s.\n", metaCoqList(metaEvents(dpt.Body, pauseSet)))
	w("Definition pause_channel_calls : list string := %s.\n\n", metaCoqList(metaEvents(dpc.Body, pauseSet)))

	w("(* Notify: inside the goroutine *)\n")
	w("Definition notify_calls : list string := %s.\n", metaCoqList(metaEvents(ntf.Body, metaSet("Wrap", "send:notifyChan", "Lock", "PersistMetadata", "Unlock"))))
	// the early return that skips the persist
	skip := ""
	ast.Inspect(ntf.Body, func(x ast.Node) bool {
		if is, ok := x.(*ast.IfStmt); ok && len(is.Body.List) == 1 {
			if _, ok := is.Body.List[0].(*ast.ReturnStmt); ok {
				skip = types.ExprString(is.Cond)
			}
		}
		return true
	})
	w("Definition notify_skip_persist_when : string := \"%s\".\n", skip)
	w("Definition notify_persist_args : list string := %s.  (* NewTopic, NewChannel, Topic.exit, Channel.exit *)\n\n",
		metaCoqList([]string{metaNotifyArg(nt), metaNotifyArg(nc), metaNotifyArg(te), metaNotifyArg(ce)}))

	w("(* creation: Notify and the map insertion happen in one critical section *)\n")
	w("Definition get_topic_calls : list string := %s.\n", metaCoqList(metaEvents(gt.Body, metaSet("RLock", "RUnlock", "Lock", "NewTopic", "Unlock"))))
	w("Definition get_or_create_channel_calls : list string := %s.\n\n", metaCoqList(metaEvents(goc.Body, metaSet("NewChannel", "Lock", "Unlock"))))

	w("(* GetMetadata(false) *)\n")
	w("Definition get_metadata_skips_ephemeral_topics : bool := %s.\n", metaBool(metaSkips(gm.Body, "topic.ephemeral", "!ephemeral")))
	w("Definition get_metadata_skips_ephemeral_channels : bool := %s.\n", metaBool(metaSkips(gm.Body, "channel.ephemeral")))
	w("Definition get_metadata_calls : list string := %s.\n\n", metaCoqList(metaEvents(gm.Body, metaSet("IsPaused", "Lock", "Unlock"))))

	w("(* LoadMetadata and the start-up order in apps/nsqd *)\n")
	w("Definition load_metadata_calls : list string := %s.\n", metaCoqList(metaEvents(lm.Body, metaSet("readOrEmpty", "Unmarshal", "IsValidTopicName", "GetTopic", "Pause", "IsValidChannelName", "GetChannel", "Start"))))
	w("Definition load_skips_invalid_topics : bool := %s.\n", metaBool(metaSkips(lm.Body, "IsValidTopicName")))
	w("Definition load_skips_invalid_channels : bool := %s.\n", metaBool(metaSkips(lm.Body, "IsValidChannelName")))
	w("Definition start_calls : list string := %s.\n", metaCoqList(metaEvents(start.Body, metaSet("LoadMetadata", "PersistMetadata", "Main"))))

	// the data-path lock over the daemon's life: where New takes it, what Exit does in which order
	// (every call of Exit with its receiver text; logging and atomics left out; a verifPoint is
	// listed as "point:<name>" -- the harness parks the daemon there), and what DirLock does
	exit := nsqd.method("NSQD", "Exit")
	nw := nsqd.funcDecl("New")
	dl, err := loadPkg(repo, "internal/dirlock")
	if err != nil {
		return "", err
	}
	dll := dl.method("DirLock", "Lock")
	dlu := dl.method("DirLock", "Unlock")
	for _, c := range []struct {
		fd *ast.FuncDecl
		n  string
	}{{exit, "NSQD.Exit"}, {nw, "nsqd.New"}, {dll, "DirLock.Lock"}, {dlu, "DirLock.Unlock"}} {
		if err := need(c.fd, c.n); err != nil {
			return "", err
		}
	}
	w("\n(* the data-path lock: nsqd.New, NSQD.Exit (calls with their receivers, source order), internal/dirlock *)\n")
	w("Definition new_path_calls : list string := %s.\n", metaCoqList(metaFullCalls(nw.Body, func(s string) bool {
		return strings.Contains(s, ".dl.") || strings.HasSuffix(s, ".LoadMetadata") || strings.HasSuffix(s, ".PersistMetadata") || strings.HasSuffix(s, ".Main")
	})))
	w("Definition exit_calls : list string := %s.\n", metaCoqList(metaFullCalls(exit.Body, func(s string) bool {
		return !strings.HasSuffix(s, ".logf") && !strings.HasPrefix(s, "atomic.")
	})))
	dlSet := metaSet("Open", "OpenFile", "Flock", "Close", "Unlock", "Remove")
	w("Definition dirlock_lock_calls : list string := %s.\n", metaCoqList(metaEvents(dll.Body, dlSet)))
	w("Definition dirlock_lock_how : string := \"%s\".\n", metaFlockHow(dll))
	w("Definition dirlock_unlock_calls : list string := %s.\n", metaCoqList(metaEvents(dlu.Body, dlSet)))
	w("Definition dirlock_unlock_how : string := \"%s\".\n", metaFlockHow(dlu))
	return sb.String(), nil
}

// metaFullCalls lists, in source order, every call of n as the text of the called expression
// ("n.dl.Unlock", "topic.Close", "close:exitChan" for the builtin close(x.exitChan),
// "point:<name>" for verifPoint("<name>")) that keep accepts.
func metaFullCalls(n ast.Node, keep func(string) bool) []string {
	var out []string
	ast.Inspect(n, func(x ast.Node) bool {
		c, ok := x.(*ast.CallExpr)
		if !ok {
			return true
		}
		name := types.ExprString(c.Fun)
		if id, ok := c.Fun.(*ast.Ident); ok && len(c.Args) == 1 {
			switch id.Name {
			case "close":
				name = "close:" + types.ExprString(c.Args[0])
				if sel, ok := c.Args[0].(*ast.SelectorExpr); ok {
					name = "close:" + sel.Sel.Name
				}
			case "verifPoint":
				name = "point:" + strings.Trim(types.ExprString(c.Args[0]), "\"")
			}
		}
		if keep(name) {
			out = append(out, name)
		}
		return true
	})
	return out
}

// metaFlockHow: the text of the second argument of the Flock call in fd.
func metaFlockHow(fd *ast.FuncDecl) string {
	res := "?"
	ast.Inspect(fd.Body, func(x ast.Node) bool {
		if c, ok := x.(*ast.CallExpr); ok && metaCallName(c) == "Flock" && len(c.Args) == 2 {
			res = types.ExprString(c.Args[1])
		}
		return true
	})
	return res
}
