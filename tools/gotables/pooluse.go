package main

// PoolUse.v (C07): how every function of package nsqd that takes a serialisation buffer
// from the pool (bufferPoolGet) gives it back.  For each such function the table says
// whether the buffer -- and every name that aliases its memory (x := buf.Bytes(), y := x,
// ...) -- is out of use when bufferPoolPut runs:
//
//   - `defer bufferPoolPut(buf)` directly in the function body: released at function exit,
//     after every use (true);
//   - a plain `bufferPoolPut(buf)` statement: true iff no later top-level statement of the
//     body mentions the buffer or one of its aliases;
//   - no Put at all, a Put nested in a branch, a Put of another name, the buffer escaping
//     through a return / a go statement / a closure: the function is reported with `false`
//     (the pool model's discipline does not describe it).
//
// Also: what bufferPoolPut itself does before handing the buffer to the pool (it must
// Reset, nothing else).  Only syntax is read (go/ast).

import (
	"fmt"
	"go/ast"
	"go/token"
	"sort"
	"strings"
)

func init() { register("PoolUse.v", genPoolUse) }

func plainCallName(e ast.Expr) string {
	c, ok := e.(*ast.CallExpr)
	if !ok {
		return ""
	}
	if id, ok := c.Fun.(*ast.Ident); ok {
		return id.Name
	}
	return ""
}

// mentions: does the subtree use one of the names?
func mentions(n ast.Node, names map[string]bool) bool {
	found := false
	ast.Inspect(n, func(x ast.Node) bool {
		if id, ok := x.(*ast.Ident); ok && names[id.Name] {
			found = true
		}
		return !found
	})
	return found
}

func poolDiscipline(fd *ast.FuncDecl) (ok bool, why string) {
	var buf string
	aliases := map[string]bool{}
	getIdx, putIdx, lastUse := -1, -1, -1
	deferred := false
	stmts := fd.Body.List
	for i, s := range stmts {
		// the Get
		if as, isAs := s.(*ast.AssignStmt); isAs && len(as.Rhs) == 1 && plainCallName(as.Rhs[0]) == "bufferPoolGet" {
			if buf != "" || len(as.Lhs) != 1 {
				return false, "more than one bufferPoolGet"
			}
			id, isId := as.Lhs[0].(*ast.Ident)
			if !isId {
				return false, "bufferPoolGet not assigned to a plain name"
			}
			buf = id.Name
			aliases[buf] = true
			getIdx = i
			continue
		}
		if buf == "" {
			if mentions(s, map[string]bool{"bufferPoolGet": true}) {
				return false, "bufferPoolGet not a top-level assignment"
			}
			continue
		}
		// the Put
		if ds, isDefer := s.(*ast.DeferStmt); isDefer && plainCallName(ds.Call) == "bufferPoolPut" {
			if len(ds.Call.Args) != 1 || exprString(ds.Call.Args[0]) != buf {
				return false, "deferred bufferPoolPut of another value"
			}
			if deferred || putIdx >= 0 {
				return false, "buffer released twice"
			}
			deferred = true
			continue
		}
		if es, isExpr := s.(*ast.ExprStmt); isExpr && plainCallName(es.X) == "bufferPoolPut" {
			c := es.X.(*ast.CallExpr)
			if len(c.Args) != 1 || exprString(c.Args[0]) != buf {
				return false, "bufferPoolPut of another value"
			}
			if deferred || putIdx >= 0 {
				return false, "buffer released twice"
			}
			putIdx = i
			continue
		}
		if mentions(s, map[string]bool{"bufferPoolPut": true}) {
			return false, "bufferPoolPut not a top-level statement"
		}
		// escapes
		switch x := s.(type) {
		case *ast.GoStmt:
			if mentions(x, aliases) {
				return false, "buffer handed to a goroutine"
			}
		case *ast.ReturnStmt:
			for _, r := range x.Results {
				// returning the result of a call that merely reads the buffer is a use, not
				// an escape; returning the buffer or a slice of it is an escape
				switch rr := r.(type) {
				case *ast.Ident:
					if aliases[rr.Name] {
						return false, "buffer returned"
					}
				case *ast.SliceExpr:
					if mentions(rr, aliases) {
						return false, "buffer returned"
					}
				case *ast.CallExpr:
					if sel, isSel := rr.Fun.(*ast.SelectorExpr); isSel && sel.Sel.Name == "Bytes" && mentions(sel.X, aliases) {
						return false, "buffer returned"
					}
				}
			}
		}
		hasClosure := false
		ast.Inspect(s, func(n ast.Node) bool {
			if fl, isFn := n.(*ast.FuncLit); isFn && mentions(fl, aliases) {
				hasClosure = true
			}
			return !hasClosure
		})
		if hasClosure {
			return false, "buffer captured by a closure"
		}
		// new aliases: any name assigned from an expression that mentions an alias,
		// unless the expression is a call whose results cannot alias the buffer's memory
		// (WriteTo / Write / Len / Put return counts and errors)
		if as, isAs := s.(*ast.AssignStmt); isAs {
			for j, r := range as.Rhs {
				if !mentions(r, aliases) {
					continue
				}
				if c, isCall := r.(*ast.CallExpr); isCall {
					if sel, isSel := c.Fun.(*ast.SelectorExpr); isSel {
						switch sel.Sel.Name {
						case "WriteTo", "Write", "Len", "Put", "Send", "ReadFrom":
							continue
						}
					}
				}
				if len(as.Lhs) == len(as.Rhs) {
					if id, isId := as.Lhs[j].(*ast.Ident); isId && id.Name != "_" {
						aliases[id.Name] = true
					}
				} else {
					for _, l := range as.Lhs {
						if id, isId := l.(*ast.Ident); isId && id.Name != "_" {
							aliases[id.Name] = true
						}
					}
				}
			}
		}
		if mentions(s, aliases) {
			lastUse = i
		}
	}
	if getIdx < 0 {
		return false, "no bufferPoolGet"
	}
	if deferred {
		return true, "deferred"
	}
	if putIdx < 0 {
		return false, "never released"
	}
	if lastUse > putIdx {
		return false, fmt.Sprintf("statement %d uses the buffer's memory after the bufferPoolPut at statement %d", lastUse, putIdx)
	}
	return true, "released after the last use"
}

func genPoolUse(repo string) (string, error) {
	np, err := loadPkg(repo, "nsqd")
	if err != nil {
		return "", err
	}
	type rec struct {
		name string
		ok   bool
		why  string
	}
	var recs []rec
	for _, fn := range np.fileNames() {
		for _, d := range np.files[fn].Decls {
			fd, isFn := d.(*ast.FuncDecl)
			if !isFn || fd.Body == nil || fd.Name.Name == "bufferPoolGet" {
				continue
			}
			if !mentions(fd.Body, map[string]bool{"bufferPoolGet": true}) {
				continue
			}
			ok, why := poolDiscipline(fd)
			recs = append(recs, rec{fd.Name.Name, ok, why})
		}
	}
	sort.Slice(recs, func(i, j int) bool { return recs[i].name < recs[j].name })

	// bufferPoolPut: the statements before bp.Put(b)
	put := np.funcDecl("bufferPoolPut")
	get := np.funcDecl("bufferPoolGet")
	if put == nil || get == nil {
		return "", fmt.Errorf("bufferPoolGet / bufferPoolPut not found")
	}
	var putOps []string
	for _, s := range put.Body.List {
		es, isExpr := s.(*ast.ExprStmt)
		if !isExpr {
			putOps = append(putOps, "?")
			continue
		}
		c, isCall := es.X.(*ast.CallExpr)
		if !isCall {
			putOps = append(putOps, "?")
			continue
		}
		if sel, isSel := c.Fun.(*ast.SelectorExpr); isSel {
			putOps = append(putOps, exprName(sel.X)+"."+sel.Sel.Name)
		} else {
			putOps = append(putOps, "?")
		}
	}
	// bufferPoolGet: a single `return bp.Get().(*bytes.Buffer)`
	getOK := false
	if len(get.Body.List) == 1 {
		if rs, isRet := get.Body.List[0].(*ast.ReturnStmt); isRet && len(rs.Results) == 1 {
			if ta, isTA := rs.Results[0].(*ast.TypeAssertExpr); isTA {
				if c, isCall := ta.X.(*ast.CallExpr); isCall {
					if sel, isSel := c.Fun.(*ast.SelectorExpr); isSel && sel.Sel.Name == "Get" && exprName(sel.X) == "bp" {
						getOK = true
					}
				}
			}
		}
	}
	_ = token.NoPos

	var sb strings.Builder
	sb.WriteString("From Coq Require Import List String Bool.\nImport ListNotations.\nOpen Scope string_scope.\n\n")
	sb.WriteString("(* every function of package nsqd that calls bufferPoolGet: (name, the buffer and every alias of\n   its memory are out of use when bufferPoolPut runs) *)\n")
	parts := make([]string, len(recs))
	for i, r := range recs {
		parts[i] = fmt.Sprintf("(%s, %s)", coqStr(r.name), coqB(r.ok))
	}
	fmt.Fprintf(&sb, "Definition pu_users : list (string * bool) := [%s].\n", strings.Join(parts, "; "))
	for _, r := range recs {
		fmt.Fprintf(&sb, "(* %s: %s *)\n", r.name, r.why)
	}
	sb.WriteString("\n(* bufferPoolPut: the calls it makes, in order; bufferPoolGet returns bp.Get() asserted to a bytes.Buffer pointer *)\n")
	fmt.Fprintf(&sb, "Definition pu_put_calls : list string := %s.\n", strList(putOps))
	fmt.Fprintf(&sb, "Definition pu_get_is_pool_get : bool := %s.\n", coqB(getOK))
	return sb.String(), nil
}
