package main

// WriteLock.v (C07): every place of package nsqd that uses a client connection's shared
// output writer, and whether clientV2.writeLock is held there.
//
// A use is, in a function that has a receiver, parameter or local of type *clientV2 named x:
//
//   - a selector x.Writer or x.flateWriter (read, call through it, assignment to it);
//   - a call x.Flush() (clientV2.Flush uses the writer without taking the lock itself: its
//     callers have to hold it; the uses inside clientV2.Flush are listed as not locked).
//
// The lock state is followed through the statements of the function: an expression statement
// x.writeLock.Lock() sets it, x.writeLock.Unlock() clears it (RLock does not count: it does
// not exclude other holders), `defer x.writeLock.Unlock()` leaves it set to the end.  A nested
// block (if / else / for / switch and select cases) starts with the state of its parent; a
// nested block that changes the state without leaving the function or the loop (return,
// goto, break, continue, panic) clears it for what follows (conservative).  Function literals
// start without the lock.  Each use is reported with the innermost enclosing select case
// (`case <-flusherChan`) or else the innermost enclosing if condition, which is what tells
// the two flushes of messagePump apart.  Only syntax is read (go/ast).

import (
	"bytes"
	"fmt"
	"go/ast"
	"go/printer"
	"go/token"
	"strings"
)

// srcText prints an expression the way gofmt writes it on one line
func srcText(e ast.Expr) string {
	var buf bytes.Buffer
	if err := printer.Fprint(&buf, token.NewFileSet(), e); err != nil {
		return "?"
	}
	return strings.Join(strings.Fields(buf.String()), " ")
}

func init() { register("WriteLock.v", genWriteLock) }

type wlSite struct {
	fn, what, where string
	locked          bool
}

func isClientV2Type(e ast.Expr) bool {
	if st, ok := e.(*ast.StarExpr); ok {
		e = st.X
	}
	id, ok := e.(*ast.Ident)
	return ok && id.Name == "clientV2"
}

// clientNames: receiver, parameters and locals declared by `x := y.(*clientV2)` or `var x *clientV2`
func clientNames(fd *ast.FuncDecl) map[string]bool {
	names := map[string]bool{}
	addFields := func(fl *ast.FieldList) {
		if fl == nil {
			return
		}
		for _, f := range fl.List {
			if isClientV2Type(f.Type) {
				for _, n := range f.Names {
					names[n.Name] = true
				}
			}
		}
	}
	addFields(fd.Recv)
	addFields(fd.Type.Params)
	ast.Inspect(fd.Body, func(n ast.Node) bool {
		switch x := n.(type) {
		case *ast.AssignStmt:
			if len(x.Lhs) >= 1 && len(x.Rhs) == 1 {
				if ta, ok := x.Rhs[0].(*ast.TypeAssertExpr); ok && ta.Type != nil && isClientV2Type(ta.Type) {
					if id, ok := x.Lhs[0].(*ast.Ident); ok {
						names[id.Name] = true
					}
				}
			}
		case *ast.ValueSpec:
			if x.Type != nil && isClientV2Type(x.Type) {
				for _, n := range x.Names {
					names[n.Name] = true
				}
			}
		case *ast.FuncLit:
			addFields(x.Type.Params)
		}
		return true
	})
	return names
}

type wlWalker struct {
	fn    string
	names map[string]bool
	sites []wlSite
}

// lockCall: is the statement x.writeLock.<method>() for a client name x
func (w *wlWalker) lockCall(e ast.Expr) string {
	c, ok := e.(*ast.CallExpr)
	if !ok || len(c.Args) != 0 {
		return ""
	}
	sel, ok := c.Fun.(*ast.SelectorExpr)
	if !ok {
		return ""
	}
	inner, ok := sel.X.(*ast.SelectorExpr)
	if !ok || inner.Sel.Name != "writeLock" {
		return ""
	}
	if id, ok := inner.X.(*ast.Ident); !ok || !w.names[id.Name] {
		return ""
	}
	return sel.Sel.Name
}

// uses records the uses of the writer in an expression or a simple statement; nested
// function literals are walked as functions of their own (without the lock)
func (w *wlWalker) uses(n ast.Node, held bool, where string) {
	if n == nil {
		return
	}
	ast.Inspect(n, func(x ast.Node) bool {
		switch e := x.(type) {
		case *ast.FuncLit:
			w.block(e.Body.List, false, where)
			return false
		case *ast.CallExpr:
			if sel, ok := e.Fun.(*ast.SelectorExpr); ok && sel.Sel.Name == "Flush" && len(e.Args) == 0 {
				if id, ok := sel.X.(*ast.Ident); ok && w.names[id.Name] {
					w.sites = append(w.sites, wlSite{w.fn, id.Name + ".Flush", where, held})
				}
			}
		case *ast.SelectorExpr:
			if e.Sel.Name == "Writer" || e.Sel.Name == "flateWriter" {
				if id, ok := e.X.(*ast.Ident); ok && w.names[id.Name] {
					w.sites = append(w.sites, wlSite{w.fn, id.Name + "." + e.Sel.Name, where, held})
				}
			}
		}
		return true
	})
}

func terminates(stmts []ast.Stmt) bool {
	if len(stmts) == 0 {
		return false
	}
	switch s := stmts[len(stmts)-1].(type) {
	case *ast.ReturnStmt, *ast.BranchStmt:
		return true
	case *ast.ExprStmt:
		return plainCallName(s.X) == "panic"
	}
	return false
}

// block walks a statement list and returns the lock state at its end
func (w *wlWalker) block(stmts []ast.Stmt, held bool, where string) bool {
	// nested: a block inside the current statement; its effect on the state
	nested := func(body []ast.Stmt, wh string) {
		end := w.block(body, held, wh)
		if end != held && !terminates(body) {
			held = false
		}
	}
	for _, s := range stmts {
		switch x := s.(type) {
		case *ast.ExprStmt:
			switch w.lockCall(x.X) {
			case "Lock":
				held = true
				continue
			case "Unlock":
				held = false
				continue
			case "RLock", "RUnlock":
				continue
			}
			w.uses(x.X, held, where)
		case *ast.DeferStmt:
			if w.lockCall(x.Call) == "Unlock" || w.lockCall(x.Call) == "RUnlock" {
				continue
			}
			w.uses(x.Call, false, where)
		case *ast.GoStmt:
			w.uses(x.Call, false, where)
		case *ast.BlockStmt:
			nested(x.List, where)
		case *ast.LabeledStmt:
			held = w.block([]ast.Stmt{x.Stmt}, held, where)
		case *ast.IfStmt:
			for cur := x; cur != nil; {
				w.uses(cur.Init, held, where)
				w.uses(cur.Cond, held, where)
				cond := "if " + srcText(cur.Cond)
				nested(cur.Body.List, cond)
				switch e := cur.Else.(type) {
				case *ast.IfStmt:
					cur = e
				case *ast.BlockStmt:
					nested(e.List, "else of "+cond)
					cur = nil
				default:
					cur = nil
				}
			}
		case *ast.ForStmt:
			w.uses(x.Init, held, where)
			w.uses(x.Cond, held, where)
			w.uses(x.Post, held, where)
			nested(x.Body.List, where)
		case *ast.RangeStmt:
			w.uses(x.X, held, where)
			nested(x.Body.List, where)
		case *ast.SwitchStmt:
			w.uses(x.Init, held, where)
			w.uses(x.Tag, held, where)
			for _, c := range x.Body.List {
				cc := c.(*ast.CaseClause)
				for _, e := range cc.List {
					w.uses(e, held, where)
				}
				nested(cc.Body, where)
			}
		case *ast.TypeSwitchStmt:
			w.uses(x.Init, held, where)
			w.uses(x.Assign, held, where)
			for _, c := range x.Body.List {
				nested(c.(*ast.CaseClause).Body, where)
			}
		case *ast.SelectStmt:
			for _, c := range x.Body.List {
				cc := c.(*ast.CommClause)
				wh := "default"
				if cc.Comm != nil {
					w.uses(cc.Comm, held, where)
					switch cm := cc.Comm.(type) {
					case *ast.ExprStmt:
						wh = "case " + srcText(cm.X)
					case *ast.AssignStmt:
						if len(cm.Rhs) == 1 {
							wh = "case " + srcText(cm.Rhs[0])
						}
					case *ast.SendStmt:
						wh = "case " + srcText(cm.Chan) + " <-"
					}
				}
				nested(cc.Body, wh)
			}
		default:
			w.uses(s, held, where)
		}
	}
	return held
}

func genWriteLock(repo string) (string, error) {
	np, err := loadPkg(repo, "nsqd")
	if err != nil {
		return "", err
	}
	var sites []wlSite
	for _, fn := range np.fileNames() {
		for _, d := range np.files[fn].Decls {
			fd, isFn := d.(*ast.FuncDecl)
			if !isFn || fd.Body == nil {
				continue
			}
			names := clientNames(fd)
			if len(names) == 0 {
				continue
			}
			w := &wlWalker{fn: fd.Name.Name, names: names}
			w.block(fd.Body.List, false, "")
			sites = append(sites, w.sites...)
		}
	}
	if len(sites) == 0 {
		return "", fmt.Errorf("no use of a client connection's writer found in package nsqd")
	}
	var sb strings.Builder
	sb.WriteString("From Coq Require Import List String Bool.\nImport ListNotations.\nOpen Scope string_scope.\n\n")
	sb.WriteString("(* every use of a client connection's output writer (x.Writer, x.flateWriter, x.Flush() for x of\n   type clientV2) in package nsqd, in source order: (function, use, innermost enclosing select case\n   or if condition, writeLock is held there) *)\n")
	parts := make([]string, len(sites))
	for i, s := range sites {
		parts[i] = fmt.Sprintf("(%s, %s, %s, %s)", coqStr(s.fn), coqStr(s.what), coqStr(strings.ReplaceAll(s.where, "\"", "'")), coqB(s.locked))
	}
	fmt.Fprintf(&sb, "Definition wl_sites : list (string * string * string * bool) :=\n  [%s].\n", strings.Join(parts, ";\n   "))
	return sb.String(), nil
}
