package main

// Emitter for coq/gen/ClusterTables.v (C18): the parts of internal/clusterinfo and
// internal/quantile whose SHAPE the hand-written model (coq/model/Cluster.v) relies on:
//   * the fields TopicStats.Add / ChannelStats.Add sum (`x.F += a.F`, in source order) and how
//     they treat Paused;
//   * for every ClusterInfo method, the comparisons that involve len(errs) (the hard /
//     partial error rule) and the nil guards that `continue`;
//   * the tombstone pairing expression of Producer.UnmarshalJSON;
//   * the nil guards of the quantile aggregate.

import (
	"fmt"
	"go/ast"
	"go/token"
	"sort"
	"strings"
)

func init() { register("ClusterTables.v", genClusterTables) }

func clu_str(s string) string { return "\"" + strings.ReplaceAll(s, "\"", "\"\"") + "\"" }

func clu_list(xs []string) string {
	q := make([]string, len(xs))
	for i, x := range xs {
		q[i] = clu_str(x)
	}
	return "[" + strings.Join(q, "; ") + "]"
}

// x.F += a.F statements of a method, and its other assignments / conditions on Paused
func clu_addShape(fd *ast.FuncDecl) (summed []string, other []string) {
	ast.Inspect(fd.Body, func(n ast.Node) bool {
		switch x := n.(type) {
		case *ast.AssignStmt:
			if len(x.Lhs) == 1 && len(x.Rhs) == 1 {
				l, lok := x.Lhs[0].(*ast.SelectorExpr)
				r, rok := x.Rhs[0].(*ast.SelectorExpr)
				if lok && rok && x.Tok == token.ADD_ASSIGN && l.Sel.Name == r.Sel.Name {
					summed = append(summed, l.Sel.Name)
					return true
				}
				if lok && (l.Sel.Name == "Paused" || x.Tok != token.ASSIGN && x.Tok != token.DEFINE) {
					other = append(other, adm_condText(x.Lhs[0])+" "+x.Tok.String()+" "+adm_condText(x.Rhs[0]))
				}
			}
		case *ast.IfStmt:
			c := adm_condText(x.Cond)
			if strings.Contains(c, "Paused") {
				other = append(other, "if "+c)
			}
		}
		return true
	})
	return
}

func genClusterTables(repo string) (string, error) {
	ci, err := loadPkg(repo, "internal/clusterinfo")
	if err != nil {
		return "", err
	}
	qt, err := loadPkg(repo, "internal/quantile")
	if err != nil {
		return "", err
	}
	var sb strings.Builder
	sb.WriteString("From Coq Require Import List String.\nImport ListNotations.\nOpen Scope string_scope.\n\n")

	for _, t := range []struct{ recv, def string }{{"TopicStats", "topic_add"}, {"ChannelStats", "channel_add"}} {
		fd := ci.method(t.recv, "Add")
		if fd == nil || fd.Body == nil {
			return "", fmt.Errorf("%s.Add not found", t.recv)
		}
		summed, other := clu_addShape(fd)
		fmt.Fprintf(&sb, "(* %s.Add: the fields it sums (x.F += a.F), in source order; its handling of Paused *)\n", t.recv)
		fmt.Fprintf(&sb, "Definition %s_fields : list string := %s.\n", t.def, clu_list(summed))
		fmt.Fprintf(&sb, "Definition %s_other : list string := %s.\n\n", t.def, clu_list(other))
	}

	// per ClusterInfo method: comparisons on len(errs), nil guards
	ms := adm_ciMethods(ci)
	var names []string
	for n := range ms {
		names = append(names, n)
	}
	sort.Strings(names)
	var rules, guards []string
	for _, n := range names {
		var rs, gs []string
		ast.Inspect(ms[n].Body, func(nd ast.Node) bool {
			is, ok := nd.(*ast.IfStmt)
			if !ok {
				return true
			}
			c := adm_condText(is.Cond)
			if strings.Contains(c, "len(errs)") {
				kind := "?"
				if len(is.Body.List) == 1 {
					if rt, ok := is.Body.List[0].(*ast.ReturnStmt); ok && len(rt.Results) > 0 {
						last := adm_condText(rt.Results[len(rt.Results)-1])
						switch {
						case strings.HasPrefix(last, "fmt.Errorf"):
							kind = "hard"
						case strings.HasPrefix(last, "ErrList"):
							kind = "partial"
						}
					}
				}
				rs = append(rs, c+" => "+kind)
			}
			if strings.HasSuffix(c, "== nil") && len(is.Body.List) == 1 {
				if br, ok := is.Body.List[0].(*ast.BranchStmt); ok && br.Tok == token.CONTINUE {
					gs = append(gs, c)
				}
			}
			return true
		})
		if len(rs) > 0 {
			rules = append(rules, fmt.Sprintf("  (%s, %s)", clu_str(n), clu_list(rs)))
		}
		if len(gs) > 0 {
			guards = append(guards, fmt.Sprintf("  (%s, %s)", clu_str(n), clu_list(gs)))
		}
	}
	sb.WriteString("(* the error rule of every ClusterInfo method: conditions on len(errs) and what they return *)\n")
	sb.WriteString("Definition ci_error_rules : list (string * list string) := [\n" + strings.Join(rules, ";\n") + "\n].\n\n")
	sb.WriteString("(* `if x == nil { continue }` guards in the loops over upstream-decoded data *)\n")
	sb.WriteString("Definition ci_nil_guards : list (string * list string) := [\n" + strings.Join(guards, ";\n") + "\n].\n\n")

	// ChannelStats.Add: how clients are appended
	if fd := ci.method("ChannelStats", "Add"); fd != nil {
		var cl []string
		ast.Inspect(fd.Body, func(nd ast.Node) bool {
			switch x := nd.(type) {
			case *ast.IfStmt:
				c := adm_condText(x.Cond)
				if strings.Contains(c, "nil") {
					cl = append(cl, "if "+c)
				}
			case *ast.AssignStmt:
				if len(x.Lhs) == 1 && adm_condText(x.Lhs[0]) == "c.Clients" && len(x.Rhs) == 1 {
					cl = append(cl, "c.Clients = "+adm_condText(x.Rhs[0]))
				}
			}
			return true
		})
		sb.WriteString("(* ChannelStats.Add: nil tests and the client append *)\n")
		sb.WriteString("Definition channel_add_clients : list string := " + clu_list(cl) + ".\n\n")
	}

	// Producer.UnmarshalJSON: the tombstone pairing
	if fd := ci.method("Producer", "UnmarshalJSON"); fd != nil && fd.Body != nil {
		var exprs []string
		ast.Inspect(fd.Body, func(nd ast.Node) bool {
			switch x := nd.(type) {
			case *ast.AssignStmt:
				for _, r := range x.Rhs {
					t := adm_condText(r)
					if strings.Contains(t, "Tombstoned") && !strings.Contains(t, "ProducerTopic") {
						exprs = append(exprs, t)
					}
				}
			case *ast.KeyValueExpr:
				if k, ok := x.Key.(*ast.Ident); ok && k.Name == "Tombstoned" {
					exprs = append(exprs, "Tombstoned: "+adm_condText(x.Value))
				}
			}
			return true
		})
		sb.WriteString("(* Producer.UnmarshalJSON: every expression that reads the tombstone flags *)\n")
		sb.WriteString("Definition producer_tombstone_exprs : list string := " + clu_list(exprs) + ".\n\n")
	} else {
		return "", fmt.Errorf("Producer.UnmarshalJSON not found")
	}

	// quantile: nil guards of Add and UnmarshalJSON
	var qg []string
	for _, mname := range []string{"UnmarshalJSON", "Add"} {
		fd := qt.method("E2eProcessingLatencyAggregate", mname)
		if fd == nil || fd.Body == nil {
			return "", fmt.Errorf("quantile %s not found", mname)
		}
		ast.Inspect(fd.Body, func(nd ast.Node) bool {
			is, ok := nd.(*ast.IfStmt)
			if !ok {
				return true
			}
			c := adm_condText(is.Cond)
			if strings.HasSuffix(c, "== nil") && len(is.Body.List) >= 1 {
				switch b := is.Body.List[len(is.Body.List)-1].(type) {
				case *ast.BranchStmt:
					qg = append(qg, mname+": "+c+" => "+b.Tok.String())
				case *ast.ReturnStmt:
					qg = append(qg, mname+": "+c+" => return")
				}
			}
			return true
		})
	}
	sb.WriteString("(* quantile.E2eProcessingLatencyAggregate: nil guards *)\n")
	sb.WriteString("Definition quantile_nil_guards : list string := " + clu_list(qg) + ".\n\n")

	// quantile: every statement of Add, and of the loop of UnmarshalJSON, one line each
	add := qt.method("E2eProcessingLatencyAggregate", "Add")
	sb.WriteString("(* quantile.E2eProcessingLatencyAggregate.Add: its statements (model/Quantile.v: eagg_add, add_value, merge_into) *)\n")
	sb.WriteString("Definition quantile_add_body : list string := " + clu_list(clu_stmts(add.Body.List)) + ".\n\n")
	var loop []string
	ast.Inspect(qt.method("E2eProcessingLatencyAggregate", "UnmarshalJSON").Body, func(nd ast.Node) bool {
		if rs, ok := nd.(*ast.RangeStmt); ok {
			loop = append(loop, clu_stmts([]ast.Stmt{rs})...)
			return false
		}
		return true
	})
	sb.WriteString("(* quantile.E2eProcessingLatencyAggregate.UnmarshalJSON: its loop over the decoded entries (decode_pct) *)\n")
	sb.WriteString("Definition quantile_unmarshal_loop : list string := " + clu_list(loop) + ".\n\n")
	// ... and where the list it fills comes from and goes to
	var lists []string
	for _, st := range qt.method("E2eProcessingLatencyAggregate", "UnmarshalJSON").Body.List {
		if as, ok := st.(*ast.AssignStmt); ok {
			if t := clu_stmts([]ast.Stmt{as})[0]; strings.Contains(strings.ToLower(t), "percentiles") {
				lists = append(lists, t)
			}
		}
	}
	sb.WriteString("(* quantile.E2eProcessingLatencyAggregate.UnmarshalJSON: the assignments of the percentile list around the loop *)\n")
	sb.WriteString("Definition quantile_unmarshal_lists : list string := " + clu_list(lists) + ".\n")
	return sb.String(), nil
}

func clu_expr(e ast.Expr) string {
	if x, ok := e.(*ast.SliceExpr); ok {
		lo, hi := "", ""
		if x.Low != nil {
			lo = adm_condText(x.Low)
		}
		if x.High != nil {
			hi = adm_condText(x.High)
		}
		return adm_condText(x.X) + "[" + lo + ":" + hi + "]"
	}
	return adm_condText(e)
}

// clu_stmts renders statements one per line (blocks bracketed by "... {" and "}")
func clu_stmts(list []ast.Stmt) []string {
	var out []string
	exprs := func(es []ast.Expr) string {
		var p []string
		for _, e := range es {
			p = append(p, clu_expr(e))
		}
		return strings.Join(p, ", ")
	}
	for _, st := range list {
		switch x := st.(type) {
		case *ast.AssignStmt:
			out = append(out, exprs(x.Lhs)+" "+x.Tok.String()+" "+exprs(x.Rhs))
		case *ast.IfStmt:
			out = append(out, "if "+adm_condText(x.Cond)+" {")
			out = append(out, clu_stmts(x.Body.List)...)
			if x.Else != nil {
				out = append(out, "} else {")
				out = append(out, clu_stmts([]ast.Stmt{x.Else})...)
			}
			out = append(out, "}")
		case *ast.BlockStmt:
			out = append(out, clu_stmts(x.List)...)
		case *ast.RangeStmt:
			h := "for "
			if x.Key != nil {
				h += adm_condText(x.Key)
				if x.Value != nil {
					h += ", " + adm_condText(x.Value)
				}
				h += " " + x.Tok.String() + " "
			}
			out = append(out, h+"range "+adm_condText(x.X)+" {")
			out = append(out, clu_stmts(x.Body.List)...)
			out = append(out, "}")
		case *ast.BranchStmt:
			out = append(out, x.Tok.String())
		case *ast.ReturnStmt:
			out = append(out, strings.TrimSpace("return "+exprs(x.Results)))
		case *ast.ExprStmt:
			out = append(out, adm_condText(x.X))
		default:
			out = append(out, "?")
		}
	}
	return out
}
