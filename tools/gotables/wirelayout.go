package main

// WireLayout.v (C07): the byte layout that Message.WriteTo, decodeMessage
// (nsqd/message.go) and SendFramedResponse (internal/protocol/protocol.go) spell out
// in their source text: which struct field goes through which binary.<Endian>.PutUintNN
// / UintNN call on which slice bounds, the order of the Write calls, the length guard
// of decodeMessage, the constant added to the frame size, and the byte on which the
// HTTP text /mpub handler splits.  Only syntax is read (go/ast); integer expressions
// are evaluated with the package's constants.

import (
	"fmt"
	"go/ast"
	"go/token"
	"strings"
)

func init() { register("WireLayout.v", genWireLayout) }

// binaryCall recognises binary.<Endian>.<Fn>(args...) and returns endian, fn.
func binaryCall(c *ast.CallExpr) (string, string, bool) {
	sel, ok := c.Fun.(*ast.SelectorExpr)
	if !ok {
		return "", "", false
	}
	inner, ok := sel.X.(*ast.SelectorExpr)
	if !ok {
		return "", "", false
	}
	id, ok := inner.X.(*ast.Ident)
	if !ok || id.Name != "binary" {
		return "", "", false
	}
	return inner.Sel.Name, sel.Sel.Name, true
}

func uintWidth(fn string) (int, bool) {
	for _, w := range []struct {
		s string
		n int
	}{{"Uint64", 8}, {"Uint32", 4}, {"Uint16", 2}} {
		if strings.HasSuffix(fn, w.s) {
			return w.n, true
		}
	}
	return 0, false
}

// sliceBounds of x[lo:hi] (missing lo = 0; missing hi = -1).
func (p *pkg) sliceBounds(e ast.Expr) (base string, lo, hi int64, err error) {
	se, ok := e.(*ast.SliceExpr)
	if !ok {
		return "", 0, 0, fmt.Errorf("not a slice expression")
	}
	base = exprName(se.X)
	lo, hi = 0, -1
	if se.Low != nil {
		v, err := p.evalInt(se.Low, 0, 0)
		if err != nil {
			return "", 0, 0, err
		}
		lo = v.Int64()
	}
	if se.High != nil {
		v, err := p.evalInt(se.High, 0, 0)
		if err != nil {
			return "", 0, 0, err
		}
		hi = v.Int64()
	}
	return base, lo, hi, nil
}

// exprName: the last identifier of x, x.f, x.f[:], T(x.f) ...
func exprName(e ast.Expr) string {
	switch x := e.(type) {
	case *ast.Ident:
		return x.Name
	case *ast.SelectorExpr:
		return x.Sel.Name
	case *ast.SliceExpr:
		return exprName(x.X)
	case *ast.CallExpr:
		if len(x.Args) == 1 {
			return exprName(x.Args[0])
		}
	case *ast.ParenExpr:
		return exprName(x.X)
	case *ast.StarExpr:
		return exprName(x.X)
	case *ast.UnaryExpr:
		return exprName(x.X)
	}
	return "?"
}

func coqStr(s string) string { return "\"" + s + "\"" }
func coqB(b bool) string {
	if b {
		return "true"
	}
	return "false"
}

type putRec struct {
	field  string
	lo, hi int64
	width  int
	big    bool
}

func putList(ps []putRec) string {
	parts := make([]string, len(ps))
	for i, r := range ps {
		parts[i] = fmt.Sprintf("(%s, %d, %d, %d, %s)", coqStr(r.field), r.lo, r.hi, r.width, coqB(r.big))
	}
	return "[" + strings.Join(parts, "; ") + "]"
}

func strList(ss []string) string {
	parts := make([]string, len(ss))
	for i, s := range ss {
		parts[i] = coqStr(s)
	}
	return "[" + strings.Join(parts, "; ") + "]"
}

func genWireLayout(repo string) (string, error) {
	np, err := loadPkg(repo, "nsqd")
	if err != nil {
		return "", err
	}
	pp, err := loadPkg(repo, "internal/protocol")
	if err != nil {
		return "", err
	}
	var sb strings.Builder
	sb.WriteString("From Coq Require Import ZArith List String.\nImport ListNotations.\nOpen Scope string_scope.\nOpen Scope Z_scope.\n\n")

	// ---- Message.WriteTo
	wt := np.method("Message", "WriteTo")
	if wt == nil {
		return "", fmt.Errorf("Message.WriteTo not found")
	}
	hdrLen := int64(-1)
	var puts []putRec
	var writes []string
	var werr error
	ast.Inspect(wt.Body, func(n ast.Node) bool {
		switch x := n.(type) {
		case *ast.ValueSpec:
			if at, ok := x.Type.(*ast.ArrayType); ok && at.Len != nil && len(x.Names) == 1 && x.Names[0].Name == "buf" {
				if v, err := np.evalInt(at.Len, 0, 0); err == nil {
					hdrLen = v.Int64()
				}
			}
		case *ast.CallExpr:
			if end, fn, ok := binaryCall(x); ok && strings.HasPrefix(fn, "Put") && len(x.Args) == 2 {
				w, ok := uintWidth(fn)
				if !ok {
					werr = fmt.Errorf("WriteTo: unknown put %s", fn)
					return false
				}
				_, lo, hi, err := np.sliceBounds(x.Args[0])
				if err != nil {
					werr = fmt.Errorf("WriteTo: %v", err)
					return false
				}
				puts = append(puts, putRec{exprName(x.Args[1]), lo, hi, w, end == "BigEndian"})
				return false
			}
			if sel, ok := x.Fun.(*ast.SelectorExpr); ok && sel.Sel.Name == "Write" && len(x.Args) == 1 {
				writes = append(writes, exprName(x.Args[0]))
			}
		}
		return true
	})
	if werr != nil {
		return "", werr
	}
	if hdrLen < 0 {
		return "", fmt.Errorf("WriteTo: header buffer declaration not recognised")
	}
	fmt.Fprintf(&sb, "(* Message.WriteTo: header buffer length; (field, lo, hi, width, big-endian) of each\n   binary put on it; the order of the Write calls *)\n")
	fmt.Fprintf(&sb, "Definition wl_enc_hdr_len : Z := %d.\n", hdrLen)
	fmt.Fprintf(&sb, "Definition wl_enc_puts : list (string * Z * Z * Z * bool) := %s.\n", putList(puts))
	fmt.Fprintf(&sb, "Definition wl_enc_writes : list string := %s.\n\n", strList(writes))

	// ---- decodeMessage
	dm := np.funcDecl("decodeMessage")
	if dm == nil {
		return "", fmt.Errorf("decodeMessage not found")
	}
	var gets []putRec
	minLen := int64(-1)
	minOp := ""
	idLo, idHi, bodyLo := int64(-1), int64(-1), int64(-1)
	var derr error
	ast.Inspect(dm.Body, func(n ast.Node) bool {
		switch x := n.(type) {
		case *ast.IfStmt:
			if be, ok := x.Cond.(*ast.BinaryExpr); ok && minLen < 0 {
				if c, ok := be.X.(*ast.CallExpr); ok {
					if id, ok := c.Fun.(*ast.Ident); ok && id.Name == "len" {
						if v, err := np.evalInt(be.Y, 0, 0); err == nil {
							minLen = v.Int64()
							minOp = be.Op.String()
						}
					}
				}
			}
		case *ast.AssignStmt:
			if len(x.Lhs) != 1 || len(x.Rhs) != 1 || x.Tok != token.ASSIGN {
				return true
			}
			field := exprName(x.Lhs[0])
			// find a binary.<End>.UintNN(b[lo:hi]) inside the right-hand side
			found := false
			ast.Inspect(x.Rhs[0], func(m ast.Node) bool {
				c, ok := m.(*ast.CallExpr)
				if !ok {
					return true
				}
				if end, fn, ok := binaryCall(c); ok && len(c.Args) == 1 {
					w, ok := uintWidth(fn)
					if !ok {
						derr = fmt.Errorf("decodeMessage: unknown get %s", fn)
						return false
					}
					_, lo, hi, err := np.sliceBounds(c.Args[0])
					if err != nil {
						derr = fmt.Errorf("decodeMessage: %v", err)
						return false
					}
					gets = append(gets, putRec{field, lo, hi, w, end == "BigEndian"})
					found = true
					return false
				}
				return true
			})
			if !found && field == "Body" {
				_, lo, hi, err := np.sliceBounds(x.Rhs[0])
				if err != nil || hi != -1 {
					derr = fmt.Errorf("decodeMessage: Body assignment not of the form b[lo:]")
					return false
				}
				bodyLo = lo
			}
		case *ast.CallExpr:
			if id, ok := x.Fun.(*ast.Ident); ok && id.Name == "copy" && len(x.Args) == 2 && exprName(x.Args[0]) == "ID" {
				_, lo, hi, err := np.sliceBounds(x.Args[1])
				if err != nil {
					derr = fmt.Errorf("decodeMessage: %v", err)
					return false
				}
				idLo, idHi = lo, hi
			}
		}
		return true
	})
	if derr != nil {
		return "", derr
	}
	if minLen < 0 || idLo < 0 || bodyLo < 0 {
		return "", fmt.Errorf("decodeMessage: guard / ID copy / Body slice not recognised")
	}
	fmt.Fprintf(&sb, "(* decodeMessage: the refusal guard `len(b) <op> n`; the binary gets; the ID and Body slices *)\n")
	fmt.Fprintf(&sb, "Definition wl_dec_guard_op : string := %s.\n", coqStr(minOp))
	fmt.Fprintf(&sb, "Definition wl_dec_min : Z := %d.\n", minLen)
	fmt.Fprintf(&sb, "Definition wl_dec_gets : list (string * Z * Z * Z * bool) := %s.\n", putList(gets))
	fmt.Fprintf(&sb, "Definition wl_dec_id : Z * Z := (%d, %d).\n", idLo, idHi)
	fmt.Fprintf(&sb, "Definition wl_dec_body_lo : Z := %d.\n\n", bodyLo)

	// ---- SendFramedResponse
	sf := pp.funcDecl("SendFramedResponse")
	if sf == nil {
		return "", fmt.Errorf("SendFramedResponse not found")
	}
	extra := int64(-1)
	word := int64(-1)
	var fputs []putRec
	var fwrites []string
	lastPut := ""
	var ferr error
	ast.Inspect(sf.Body, func(n ast.Node) bool {
		switch x := n.(type) {
		case *ast.AssignStmt:
			if len(x.Lhs) == 1 && len(x.Rhs) == 1 && exprName(x.Lhs[0]) == "size" && x.Tok == token.DEFINE {
				switch r := x.Rhs[0].(type) {
				case *ast.BinaryExpr:
					if r.Op != token.ADD {
						ferr = fmt.Errorf("SendFramedResponse: size is not len(data) + c")
						return false
					}
					if v, err := pp.evalInt(r.Y, 0, 0); err == nil && strings.Contains(exprString(r.X), "len(data)") {
						extra = v.Int64()
					} else if v, err := pp.evalInt(r.X, 0, 0); err == nil && strings.Contains(exprString(r.Y), "len(data)") {
						extra = v.Int64()
					} else {
						ferr = fmt.Errorf("SendFramedResponse: size expression not recognised")
						return false
					}
				case *ast.CallExpr:
					if strings.Contains(exprString(r), "len(data)") {
						extra = 0
					}
				}
			}
			if len(x.Lhs) == 1 && len(x.Rhs) == 1 && exprName(x.Lhs[0]) == "beBuf" {
				if c, ok := x.Rhs[0].(*ast.CallExpr); ok {
					if id, ok := c.Fun.(*ast.Ident); ok && id.Name == "make" && len(c.Args) >= 2 {
						if v, err := pp.evalInt(c.Args[1], 0, 0); err == nil {
							word = v.Int64()
						}
					}
				}
			}
		case *ast.CallExpr:
			if end, fn, ok := binaryCall(x); ok && strings.HasPrefix(fn, "Put") && len(x.Args) == 2 {
				w, ok := uintWidth(fn)
				if !ok {
					ferr = fmt.Errorf("SendFramedResponse: unknown put %s", fn)
					return false
				}
				lastPut = exprName(x.Args[1])
				fputs = append(fputs, putRec{lastPut, 0, int64(w), w, end == "BigEndian"})
				return false
			}
			if sel, ok := x.Fun.(*ast.SelectorExpr); ok && sel.Sel.Name == "Write" && len(x.Args) == 1 {
				nm := exprName(x.Args[0])
				if nm == "beBuf" {
					nm = lastPut
				}
				fwrites = append(fwrites, nm)
			}
		}
		return true
	})
	if ferr != nil {
		return "", ferr
	}
	if extra < 0 || word < 0 {
		return "", fmt.Errorf("SendFramedResponse: size / beBuf not recognised")
	}
	fmt.Fprintf(&sb, "(* SendFramedResponse: size = len(data) + wl_frame_extra; the scratch word; puts; write order *)\n")
	fmt.Fprintf(&sb, "Definition wl_frame_extra : Z := %d.\n", extra)
	fmt.Fprintf(&sb, "Definition wl_frame_word : Z := %d.\n", word)
	fmt.Fprintf(&sb, "Definition wl_frame_puts : list (string * Z * Z * Z * bool) := %s.\n", putList(fputs))
	fmt.Fprintf(&sb, "Definition wl_frame_writes : list string := %s.\n\n", strList(fwrites))

	// ---- doMPUB text mode: the delimiter of ReadBytes and of the trailing-byte test
	mp := np.method("httpServer", "doMPUB")
	if mp == nil {
		return "", fmt.Errorf("httpServer.doMPUB not found")
	}
	var delims []string
	ast.Inspect(mp.Body, func(n ast.Node) bool {
		switch x := n.(type) {
		case *ast.CallExpr:
			if sel, ok := x.Fun.(*ast.SelectorExpr); ok && sel.Sel.Name == "ReadBytes" && len(x.Args) == 1 {
				if v, err := np.evalInt(x.Args[0], 0, 0); err == nil {
					delims = append(delims, v.String())
				}
			}
		case *ast.BinaryExpr:
			if x.Op == token.EQL {
				if _, ok := x.X.(*ast.IndexExpr); ok {
					if v, err := np.evalInt(x.Y, 0, 0); err == nil {
						delims = append(delims, v.String())
					}
				}
			}
		}
		return true
	})
	fmt.Fprintf(&sb, "(* httpServer.doMPUB text mode: the ReadBytes delimiter and the trailing byte that is trimmed *)\n")
	fmt.Fprintf(&sb, "Definition wl_text_mpub_delims : list Z := [%s].\n", strings.Join(delims, "; "))
	return sb.String(), nil
}

func exprString(e ast.Expr) string {
	switch x := e.(type) {
	case *ast.Ident:
		return x.Name
	case *ast.BasicLit:
		return x.Value
	case *ast.SelectorExpr:
		return exprString(x.X) + "." + x.Sel.Name
	case *ast.CallExpr:
		args := make([]string, len(x.Args))
		for i, a := range x.Args {
			args[i] = exprString(a)
		}
		return exprString(x.Fun) + "(" + strings.Join(args, ",") + ")"
	case *ast.ParenExpr:
		return "(" + exprString(x.X) + ")"
	case *ast.BinaryExpr:
		return exprString(x.X) + x.Op.String() + exprString(x.Y)
	}
	return "?"
}
