package main

// ProtoTable.v (C09): what nsqd/protocol_v2.go and nsqd/tcp.go spell out about the
// dispatch of a client's commands:
//   * the Exec table: command literal -> handler method, in source order, with the
//     position of enforceTLSPolicy (commands dispatched before it are not gated);
//   * the error Exec returns for an unknown command;
//   * for every handler the set of (E_* code, fatal?) it can construct
//     (protocol.NewFatalClientErr / protocol.NewClientErr call sites, following the
//     calls to p.CheckAuth and readMPUB one level), and the same for enforceTLSPolicy;
//   * the protocol magics accepted by tcpServer.Handle and the code sent otherwise;
//   * how IOLoop reads a command line (the method called on client.Reader, its delimiter)
//     and the size every bufio reader of a client connection is created with.
// Only syntax is read (go/ast).

import (
	"fmt"
	"go/ast"
	"go/token"
	"strconv"
	"strings"
)

func init() { register("ProtoTable.v", genProtoTable) }

func protoStrLit(e ast.Expr) (string, bool) {
	bl, ok := e.(*ast.BasicLit)
	if !ok || bl.Kind != token.STRING {
		return "", false
	}
	s, err := strconv.Unquote(bl.Value)
	if err != nil {
		return "", false
	}
	return s, true
}

// []byte("X")
func protoBytesLit(e ast.Expr) (string, bool) {
	c, ok := e.(*ast.CallExpr)
	if !ok || len(c.Args) != 1 {
		return "", false
	}
	at, ok := c.Fun.(*ast.ArrayType)
	if !ok || at.Len != nil {
		return "", false
	}
	if id, ok := at.Elt.(*ast.Ident); !ok || id.Name != "byte" {
		return "", false
	}
	return protoStrLit(c.Args[0])
}

// bytes.Equal(params[0], []byte("X")) -> X
func protoCmdCond(e ast.Expr) (string, bool) {
	c, ok := e.(*ast.CallExpr)
	if !ok || len(c.Args) != 2 {
		return "", false
	}
	sel, ok := c.Fun.(*ast.SelectorExpr)
	if !ok || sel.Sel.Name != "Equal" {
		return "", false
	}
	if id, ok := sel.X.(*ast.Ident); !ok || id.Name != "bytes" {
		return "", false
	}
	ix, ok := c.Args[0].(*ast.IndexExpr)
	if !ok {
		return "", false
	}
	if id, ok := ix.X.(*ast.Ident); !ok || id.Name != "params" {
		return "", false
	}
	if bl, ok := ix.Index.(*ast.BasicLit); !ok || bl.Value != "0" {
		return "", false
	}
	return protoBytesLit(c.Args[1])
}

// return p.H(client, params) -> H
func protoReturnedMethod(stmts []ast.Stmt) (string, bool) {
	if len(stmts) != 1 {
		return "", false
	}
	rs, ok := stmts[0].(*ast.ReturnStmt)
	if !ok || len(rs.Results) != 1 {
		return "", false
	}
	c, ok := rs.Results[0].(*ast.CallExpr)
	if !ok {
		return "", false
	}
	sel, ok := c.Fun.(*ast.SelectorExpr)
	if !ok {
		return "", false
	}
	if id, ok := sel.X.(*ast.Ident); !ok || id.Name != "p" {
		return "", false
	}
	return sel.Sel.Name, true
}

type protoCode struct {
	code  string
	fatal bool
}

// the (code, fatal) pairs constructed in a function body, in source order, following
// p.CheckAuth / readMPUB / enforceTLSPolicy one level
func protoCodes(p *pkg, fd *ast.FuncDecl, depth int) []protoCode {
	var out []protoCode
	seen := map[string]bool{}
	add := func(c protoCode) {
		k := fmt.Sprintf("%s/%v", c.code, c.fatal)
		if !seen[k] {
			seen[k] = true
			out = append(out, c)
		}
	}
	if fd == nil || fd.Body == nil {
		return nil
	}
	ast.Inspect(fd.Body, func(n ast.Node) bool {
		c, ok := n.(*ast.CallExpr)
		if !ok {
			return true
		}
		switch f := c.Fun.(type) {
		case *ast.SelectorExpr:
			name := f.Sel.Name
			if (name == "NewFatalClientErr" || name == "NewClientErr") && len(c.Args) >= 2 {
				if code, ok := protoStrLit(c.Args[1]); ok {
					add(protoCode{code, name == "NewFatalClientErr"})
				} else {
					add(protoCode{"?non-literal-code", name == "NewFatalClientErr"})
				}
			}
			if name == "CheckAuth" && depth == 0 {
				for _, x := range protoCodes(p, p.method("protocolV2", "CheckAuth"), 1) {
					add(x)
				}
			}
		case *ast.Ident:
			if (f.Name == "readMPUB" || f.Name == "enforceTLSPolicy") && depth == 0 {
				for _, x := range protoCodes(p, p.funcDecl(f.Name), 1) {
					add(x)
				}
			}
		}
		return true
	})
	return out
}

func protoCoqBytes(s string) string {
	parts := make([]string, len(s))
	for i := 0; i < len(s); i++ {
		parts[i] = strconv.Itoa(int(s[i]))
	}
	return "[" + strings.Join(parts, ";") + "]%N"
}

func protoCoqCodes(cs []protoCode) string {
	parts := make([]string, len(cs))
	for i, c := range cs {
		parts[i] = fmt.Sprintf("(%q, %v)", c.code, c.fatal)
	}
	return "[" + strings.Join(parts, "; ") + "]"
}

func genProtoTable(repo string) (string, error) {
	p, err := loadPkg(repo, "nsqd")
	if err != nil {
		return "", err
	}
	exec := p.method("protocolV2", "Exec")
	if exec == nil {
		return "", fmt.Errorf("protocolV2.Exec not found")
	}
	type row struct {
		lit, handler string
		gated        bool
	}
	var rows []row
	gated := false
	var deflt []protoCode
	for _, st := range exec.Body.List {
		switch s := st.(type) {
		case *ast.IfStmt:
			if lit, ok := protoCmdCond(s.Cond); ok {
				h, ok := protoReturnedMethod(s.Body.List)
				if !ok {
					return "", fmt.Errorf("Exec: the %q case does not return a handler call", lit)
				}
				rows = append(rows, row{lit, h, gated})
			}
		case *ast.AssignStmt:
			for _, r := range s.Rhs {
				if c, ok := r.(*ast.CallExpr); ok {
					if id, ok := c.Fun.(*ast.Ident); ok && id.Name == "enforceTLSPolicy" {
						gated = true
					}
				}
			}
		case *ast.SwitchStmt:
			for _, cc := range s.Body.List {
				clause := cc.(*ast.CaseClause)
				if clause.List == nil {
					return "", fmt.Errorf("Exec: unexpected default clause in the switch")
				}
				for _, e := range clause.List {
					lit, ok := protoCmdCond(e)
					if !ok {
						return "", fmt.Errorf("Exec: a case of the switch is not bytes.Equal(params[0], []byte(...))")
					}
					h, ok := protoReturnedMethod(clause.Body)
					if !ok {
						return "", fmt.Errorf("Exec: the %q case does not return a handler call", lit)
					}
					rows = append(rows, row{lit, h, gated})
				}
			}
		case *ast.ReturnStmt:
			tmp := &ast.FuncDecl{Body: &ast.BlockStmt{List: []ast.Stmt{s}}}
			deflt = protoCodes(p, tmp, 1)
		}
	}
	if len(rows) == 0 {
		return "", fmt.Errorf("Exec: no dispatch rows recognised")
	}
	if len(deflt) != 1 {
		return "", fmt.Errorf("Exec: the fall-through return does not construct exactly one client error")
	}

	var sb strings.Builder
	sb.WriteString("From Coq Require Import List NArith String.\nImport ListNotations.\nOpen Scope string_scope.\n\n")
	sb.WriteString("(* protocolV2.Exec: command literal, handler method, dispatched after enforceTLSPolicy? *)\n")
	sb.WriteString("Definition exec_dispatch : list (list N * string * bool) :=\n  [ ")
	for i, r := range rows {
		if i > 0 {
			sb.WriteString("\n  ; ")
		}
		fmt.Fprintf(&sb, "(%s, %q, %v)", protoCoqBytes(r.lit), r.handler, r.gated)
	}
	sb.WriteString(" ].\n\n")
	fmt.Fprintf(&sb, "(* the error for a command that matches no case *)\nDefinition exec_default : string * bool := (%q, %v).\n\n", deflt[0].code, deflt[0].fatal)
	fmt.Fprintf(&sb, "Definition tls_gate_codes : list (string * bool) := %s.\n\n", protoCoqCodes(protoCodes(p, p.funcDecl("enforceTLSPolicy"), 1)))
	sb.WriteString("(* per handler: the (code, fatal) pairs it can construct, CheckAuth and readMPUB included *)\n")
	sb.WriteString("Definition handler_codes : list (string * list (string * bool)) :=\n  [ ")
	for i, r := range rows {
		if i > 0 {
			sb.WriteString("\n  ; ")
		}
		fd := p.method("protocolV2", r.handler)
		if fd == nil {
			return "", fmt.Errorf("handler method %s not found", r.handler)
		}
		fmt.Fprintf(&sb, "(%q, %s)", r.handler, protoCoqCodes(protoCodes(p, fd, 0)))
	}
	sb.WriteString(" ].\n\n")

	// the order of the tests and partial operations in the handlers that read a body
	sb.WriteString("(* per body-reading function: its tests, allocations, reads and core calls in source order *)\n")
	sb.WriteString("Definition handler_checks : list (string * list string) :=\n  [ ")
	for i, name := range []string{"IDENTIFY", "AUTH", "PUB", "MPUB", "DPUB", "readMPUB", "RDY", "SUB", "FIN", "REQ", "TOUCH", "CLS", "getMessageID"} {
		fd := p.method("protocolV2", name)
		if fd == nil {
			fd = p.funcDecl(name)
		}
		if fd == nil {
			return "", fmt.Errorf("function %s not found", name)
		}
		if i > 0 {
			sb.WriteString("\n  ; ")
		}
		toks := protoChecks(fd)
		qs := make([]string, len(toks))
		for k, t := range toks {
			qs[k] = strconv.Quote(t)
		}
		fmt.Fprintf(&sb, "(%q, [%s])", name, strings.Join(qs, "; "))
	}
	sb.WriteString(" ].\n\n")

	// tcp.go: the magic switch
	handle := p.method("tcpServer", "Handle")
	if handle == nil {
		return "", fmt.Errorf("tcpServer.Handle not found")
	}
	var magics []string
	bad := ""
	ast.Inspect(handle.Body, func(n ast.Node) bool {
		sw, ok := n.(*ast.SwitchStmt)
		if !ok {
			return true
		}
		if id, ok := sw.Tag.(*ast.Ident); !ok || id.Name != "protocolMagic" {
			return true
		}
		for _, cc := range sw.Body.List {
			clause := cc.(*ast.CaseClause)
			if clause.List == nil {
				ast.Inspect(clause, func(m ast.Node) bool {
					if s, ok := protoBytesLit2(m); ok && strings.HasPrefix(s, "E_") {
						bad = s
					}
					return true
				})
				continue
			}
			for _, e := range clause.List {
				if s, ok := protoStrLit(e); ok {
					magics = append(magics, s)
				}
			}
		}
		return false
	})
	if len(magics) == 0 || bad == "" {
		return "", fmt.Errorf("tcpServer.Handle: magic switch not recognised")
	}
	sb.WriteString("(* tcpServer.Handle: accepted protocol magics, and the error sent for any other *)\n")
	sb.WriteString("Definition tcp_magics : list (list N) := [")
	for i, m := range magics {
		if i > 0 {
			sb.WriteString("; ")
		}
		sb.WriteString(protoCoqBytes(m))
	}
	sb.WriteString("].\n")
	fmt.Fprintf(&sb, "Definition tcp_bad_magic : string := %q.\n", bad)

	// IOLoop: every call client.Reader.M(args) - the read of a command line
	ioloop := p.method("protocolV2", "IOLoop")
	if ioloop == nil {
		return "", fmt.Errorf("protocolV2.IOLoop not found")
	}
	var reads []string
	ast.Inspect(ioloop.Body, func(n ast.Node) bool {
		c, ok := n.(*ast.CallExpr)
		if !ok {
			return true
		}
		sel, ok := c.Fun.(*ast.SelectorExpr)
		if !ok {
			return true
		}
		recv, ok := sel.X.(*ast.SelectorExpr)
		if !ok || recv.Sel.Name != "Reader" {
			return true
		}
		delim := "?"
		if len(c.Args) == 1 {
			if bl, ok := c.Args[0].(*ast.BasicLit); ok && bl.Kind == token.CHAR {
				if r, _, _, err := strconv.UnquoteChar(strings.Trim(bl.Value, "'"), '\''); err == nil {
					delim = strconv.Itoa(int(r))
				}
			}
		}
		if delim == "?" {
			reads = append(reads, fmt.Sprintf("(%q, 999%%N)", sel.Sel.Name))
		} else {
			reads = append(reads, fmt.Sprintf("(%q, %s%%N)", sel.Sel.Name, delim))
		}
		return true
	})
	sb.WriteString("\n(* protocolV2.IOLoop: the calls on client.Reader (method, delimiter byte): how a command line is read *)\n")
	fmt.Fprintf(&sb, "Definition ioloop_line_reads : list (string * N) := [%s].\n", strings.Join(reads, "; "))

	// every `X.Reader = bufio.NewReaderSize(_, SIZE)` / `Reader: bufio.NewReaderSize(_, SIZE)` of the package
	var sizes []string
	readerSize := func(e ast.Expr) (string, bool) {
		c, ok := e.(*ast.CallExpr)
		if !ok {
			return "", false
		}
		sel, ok := c.Fun.(*ast.SelectorExpr)
		if !ok {
			return "", false
		}
		if id, ok := sel.X.(*ast.Ident); !ok || id.Name != "bufio" {
			return "", false
		}
		switch sel.Sel.Name {
		case "NewReaderSize":
			if len(c.Args) == 2 {
				return protoOperand(c.Args[1]), true
			}
			return "?", true
		case "NewReader":
			return "bufio-default", true
		}
		return "", false
	}
	for _, fn := range p.fileNames() {
		ast.Inspect(p.files[fn], func(n ast.Node) bool {
			switch x := n.(type) {
			case *ast.KeyValueExpr:
				if id, ok := x.Key.(*ast.Ident); ok && id.Name == "Reader" {
					if s, ok := readerSize(x.Value); ok {
						sizes = append(sizes, strconv.Quote(s))
					}
				}
			case *ast.AssignStmt:
				for i, l := range x.Lhs {
					if sel, ok := l.(*ast.SelectorExpr); ok && sel.Sel.Name == "Reader" && i < len(x.Rhs) {
						if s, ok := readerSize(x.Rhs[i]); ok {
							sizes = append(sizes, strconv.Quote(s))
						}
					}
				}
			}
			return true
		})
	}
	sb.WriteString("(* the size of every bufio reader installed as a client's Reader (plain, TLS, deflate, snappy) *)\n")
	fmt.Fprintf(&sb, "Definition reader_sizes : list string := [%s].\n", strings.Join(sizes, "; "))
	return sb.String(), nil
}

func protoBytesLit2(n ast.Node) (string, bool) {
	e, ok := n.(ast.Expr)
	if !ok {
		return "", false
	}
	return protoBytesLit(e)
}

// protoCmpTokens: the size/count/state comparisons of a condition, in order:
//
//	len(params) < k  -> "params<k"      X <= 0 -> "<=0"     X < 0 -> "<0"
//	X > ...Name      -> ">Name"         ...State) != stateInit -> "state!=stateInit" etc.
//	len(p) != MsgIDLength -> "len!=MsgIDLength"
func protoCmpTokens(e ast.Expr, out *[]string) {
	switch x := e.(type) {
	case *ast.ParenExpr:
		protoCmpTokens(x.X, out)
	case *ast.UnaryExpr:
		if x.Op == token.NOT {
			if c, ok := x.X.(*ast.CallExpr); ok {
				if sel, ok := c.Fun.(*ast.SelectorExpr); ok {
					switch sel.Sel.Name {
					case "IsValidTopicName":
						*out = append(*out, "!validTopic")
					case "IsValidChannelName":
						*out = append(*out, "!validChannel")
					case "IsAuthEnabled":
						*out = append(*out, "!authEnabled")
					}
				}
			}
		}
	case *ast.BinaryExpr:
		if x.Op == token.LOR || x.Op == token.LAND {
			protoCmpTokens(x.X, out)
			protoCmpTokens(x.Y, out)
			return
		}
		op := x.Op.String()
		lhs := protoOperand(x.X)
		rhs := protoOperand(x.Y)
		switch {
		case lhs == "len(params)":
			*out = append(*out, "params"+op+rhs)
		case lhs == "len(p)":
			*out = append(*out, "len"+op+rhs)
		case strings.HasSuffix(lhs, "State") || lhs == "state":
			*out = append(*out, "state"+op+rhs)
		case rhs == "nil" || lhs == "err":
			// error plumbing: not a test of the input
		case rhs == "0":
			*out = append(*out, op+"0")
		case x.Op == token.GTR || x.Op == token.GEQ || x.Op == token.LSS || x.Op == token.LEQ:
			*out = append(*out, op+rhs)
		}
	}
}

// the last identifier of an operand, conversions and option accessors stripped
func protoOperand(e ast.Expr) string {
	switch x := e.(type) {
	case *ast.ParenExpr:
		return protoOperand(x.X)
	case *ast.BasicLit:
		return x.Value
	case *ast.Ident:
		return x.Name
	case *ast.SelectorExpr:
		return x.Sel.Name
	case *ast.UnaryExpr:
		return protoOperand(x.X)
	case *ast.CallExpr:
		if id, ok := x.Fun.(*ast.Ident); ok && len(x.Args) == 1 {
			if id.Name == "len" {
				return "len(" + protoOperand(x.Args[0]) + ")"
			}
			return protoOperand(x.Args[0]) // conversion: int64(x), int(x)
		}
		if sel, ok := x.Fun.(*ast.SelectorExpr); ok {
			if sel.Sel.Name == "LoadInt32" && len(x.Args) == 1 {
				return protoOperand(x.Args[0])
			}
			return sel.Sel.Name
		}
	case *ast.BinaryExpr:
		return protoOperand(x.X) + x.Op.String() + protoOperand(x.Y)
	}
	return "?"
}

var protoCallTokens = map[string]string{
	"readLen": "readLen", "ReadFull": "ReadFull", "PutMessage": "Put", "PutMessages": "Put", "CheckAuth": "CheckAuth",
	"GetTopic": "GetTopic", "readMPUB": "readMPUB", "LimitReader": "LimitReader", "Unmarshal": "Unmarshal",
	"Identify": "Identify", "ByteToBase10": "ByteToBase10", "msToDuration": "msToDuration", "getMessageID": "getMessageID",
	"FinishMessage": "Core", "RequeueMessage": "Core", "TouchMessage": "Core", "AddClient": "Core",
	"SetReadyCount": "SetReadyCount", "StartClose": "StartClose", "HasAuthorizations": "HasAuthorizations", "Auth": "Auth",
}

// protoChecks: conditions of if statements and the calls that matter, in source order
func protoChecks(fd *ast.FuncDecl) []string {
	var out []string
	ast.Inspect(fd.Body, func(n ast.Node) bool {
		switch x := n.(type) {
		case *ast.IfStmt:
			protoCmpTokens(x.Cond, &out)
		case *ast.ForStmt:
			out = append(out, "for")
		case *ast.CallExpr:
			switch f := x.Fun.(type) {
			case *ast.Ident:
				if f.Name == "make" && len(x.Args) >= 2 {
					if len(x.Args) == 3 {
						out = append(out, "makecap("+protoOperand(x.Args[2])+")")
					} else {
						out = append(out, "make("+protoOperand(x.Args[1])+")")
					}
				} else if t, ok := protoCallTokens[f.Name]; ok {
					out = append(out, t)
				}
			case *ast.SelectorExpr:
				if t, ok := protoCallTokens[f.Sel.Name]; ok {
					out = append(out, t)
				}
			}
		case *ast.IndexExpr:
			if id, ok := x.X.(*ast.Ident); ok && (id.Name == "params" || id.Name == "p") {
				out = append(out, id.Name+"["+protoOperand(x.Index)+"]")
			}
		}
		return true
	})
	return out
}
