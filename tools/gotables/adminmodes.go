package main

// Emitter for coq/gen/AdminModes.v (C17): where nsqadmin decides WHICH upstreams an action or a
// view is about.
//   * ci_mode_choice: every method of clusterinfo.ClusterInfo that takes both address lists
//     (lookupdHTTPAddrs and nsqdHTTPAddrs) and does not itself POST: its whole body, statement by
//     statement (the "nsqlookupd mode iff any nsqlookupd address is set" rule lives there);
//   * ci_call_opts: every s.ci.<Method>(...) call of every route handler of nsqadmin/http.go
//     (helper methods of httpServer followed two levels), with its arguments: an argument that
//     reads nsqadmin's options is recorded as written, any other as "_".  The handlers must hand
//     the lists currently in force (s.nsqadmin.getOpts() at the time of the request, both lists,
//     in this order) to clusterinfo: PUT /config/nsqlookupd_http_addresses changes them at run time;
//   * cfg_put_options: the options doConfig can set (the case labels of its switch) with the
//     statements of each case.

import (
	"fmt"
	"go/ast"
	"strings"
)

func init() { register("AdminModes.v", genAdminModes) }

// adm_stmtShape: the statements of a block as text, nesting made explicit
func adm_stmtShape(list []ast.Stmt) []string {
	var out []string
	for _, st := range list {
		switch s := st.(type) {
		case *ast.IfStmt:
			if s.Init != nil {
				out = append(out, "init "+adm_simpleStmtText(s.Init))
			}
			out = append(out, "if "+adm_condText(s.Cond)+" {")
			out = append(out, adm_stmtShape(s.Body.List)...)
			if s.Else != nil {
				out = append(out, "} else {")
				if b, ok := s.Else.(*ast.BlockStmt); ok {
					out = append(out, adm_stmtShape(b.List)...)
				} else {
					out = append(out, adm_stmtShape([]ast.Stmt{s.Else})...)
				}
			}
			out = append(out, "}")
		case *ast.BlockStmt:
			out = append(out, "{")
			out = append(out, adm_stmtShape(s.List)...)
			out = append(out, "}")
		default:
			out = append(out, adm_simpleStmtText(st))
		}
	}
	return out
}

func adm_exprsText(es []ast.Expr) string {
	var ps []string
	for _, e := range es {
		ps = append(ps, adm_condText(e))
	}
	return strings.Join(ps, ", ")
}

func adm_simpleStmtText(st ast.Stmt) string {
	switch s := st.(type) {
	case *ast.ReturnStmt:
		return "return " + adm_exprsText(s.Results)
	case *ast.ExprStmt:
		return adm_condText(s.X)
	case *ast.AssignStmt:
		return adm_exprsText(s.Lhs) + " " + s.Tok.String() + " " + adm_exprsText(s.Rhs)
	case *ast.IncDecStmt:
		return adm_condText(s.X) + s.Tok.String()
	case *ast.DeclStmt:
		return "decl"
	}
	return fmt.Sprintf("?%T", st)
}

func adm_coqStrList(xs []string) string {
	ps := make([]string, len(xs))
	for i, x := range xs {
		ps[i] = adm_coqStr(x)
	}
	return "[" + strings.Join(ps, "; ") + "]"
}

func genAdminModes(repo string) (string, error) {
	admin, err := loadPkg(repo, "nsqadmin")
	if err != nil {
		return "", err
	}
	ci, err := loadPkg(repo, "internal/clusterinfo")
	if err != nil {
		return "", err
	}
	ms := adm_ciMethods(ci)
	posts, _ := adm_ciPostClosure(ms)

	var sb strings.Builder
	sb.WriteString("From Coq Require Import List String.\nImport ListNotations.\nOpen Scope string_scope.\n\n")

	// ---- mode choice
	var names []string
	for _, fn := range ci.fileNames() {
		for _, d := range ci.files[fn].Decls {
			fd, ok := d.(*ast.FuncDecl)
			if !ok || ms[fd.Name.Name] != fd || posts[fd.Name.Name] {
				continue
			}
			ps := adm_paramNames(fd)
			has := func(n string) bool {
				for _, p := range ps {
					if p == n {
						return true
					}
				}
				return false
			}
			// every look-up handed BOTH lists chooses between them
			nlists := 0
			for _, f := range fd.Type.Params.List {
				if at, ok := f.Type.(*ast.ArrayType); ok {
					if id, ok := at.Elt.(*ast.Ident); ok && id.Name == "string" && at.Len == nil {
						nlists += len(f.Names)
					}
				}
			}
			if (has("lookupdHTTPAddrs") && has("nsqdHTTPAddrs")) || nlists >= 2 {
				names = append(names, fd.Name.Name)
			}
		}
	}
	if len(names) == 0 {
		return "", fmt.Errorf("no clusterinfo look-up taking both address lists found (GetTopicProducers / GetProducers expected)")
	}
	sb.WriteString("(* clusterinfo look-ups that are handed both address lists: parameters and whole body *)\n")
	sb.WriteString("Definition ci_mode_choice : list (string * list string * list string) := [\n")
	for i, n := range names {
		sep := ";"
		if i == len(names)-1 {
			sep = ""
		}
		fmt.Fprintf(&sb, "  (%s, %s, %s)%s\n", adm_coqStr(n), adm_coqStrList(adm_paramNames(ms[n])), adm_coqStrList(adm_stmtShape(ms[n].Body.List)), sep)
	}
	sb.WriteString("].\n\n")

	// ---- the handlers' clusterinfo calls and the options they pass
	ctor := admin.funcDecl("NewHTTPServer")
	if ctor == nil {
		return "", fmt.Errorf("nsqadmin.NewHTTPServer not found")
	}
	var handlers []string
	seenH := map[string]bool{}
	ast.Inspect(ctor.Body, func(n ast.Node) bool {
		c, ok := n.(*ast.CallExpr)
		if !ok {
			return true
		}
		ch := adm_selChain(c.Fun)
		if len(ch) == 2 && ch[0] == "http_api" && ch[1] == "Decorate" && len(c.Args) >= 1 {
			h := adm_selChain(c.Args[0])
			if len(h) == 2 && h[0] == "s" && !seenH[h[1]] {
				seenH[h[1]] = true
				handlers = append(handlers, h[1])
			}
		}
		return true
	})
	if len(handlers) == 0 {
		return "", fmt.Errorf("no decorated handlers found in NewHTTPServer")
	}
	type ciCall struct {
		handler, method string
		args            []string
	}
	var calls []ciCall
	var walk func(handler string, fd *ast.FuncDecl, depth int, visited map[string]bool)
	walk = func(handler string, fd *ast.FuncDecl, depth int, visited map[string]bool) {
		recv := adm_recvName(fd)
		ast.Inspect(fd.Body, func(n ast.Node) bool {
			c, ok := n.(*ast.CallExpr)
			if !ok {
				return true
			}
			ch := adm_selChain(c.Fun)
			if _, isSel := c.Fun.(*ast.SelectorExpr); !isSel {
				return true
			}
			switch {
			case len(ch) == 3 && ch[0] == recv && ch[1] == "ci":
				var args []string
				for _, a := range c.Args {
					t := adm_condText(a)
					if strings.Contains(t, "getOpts") || strings.Contains(t, "opts") || strings.Contains(t, "Addresses") {
						args = append(args, t)
					} else {
						args = append(args, "_")
					}
				}
				calls = append(calls, ciCall{handler, ch[2], args})
			case len(ch) == 2 && ch[0] == recv:
				if helper := admin.method("httpServer", ch[1]); helper != nil && helper.Body != nil && !visited[ch[1]] {
					if depth < 2 {
						visited[ch[1]] = true
						walk(handler, helper, depth+1, visited)
					} else {
						calls = append(calls, ciCall{handler, "<deep:" + ch[1] + ">", nil})
					}
				}
			}
			return true
		})
	}
	for _, h := range handlers {
		fd := admin.method("httpServer", h)
		if fd == nil || fd.Body == nil {
			return "", fmt.Errorf("handler %s not found", h)
		}
		walk(h, fd, 0, map[string]bool{h: true})
	}
	sb.WriteString("(* every clusterinfo call of every handler, in source order: arguments that read the options as written, others \"_\" *)\n")
	sb.WriteString("Definition ci_call_opts : list (string * string * list string) := [\n")
	for i, c := range calls {
		sep := ";"
		if i == len(calls)-1 {
			sep = ""
		}
		fmt.Fprintf(&sb, "  (%s, %s, %s)%s\n", adm_coqStr(c.handler), adm_coqStr(c.method), adm_coqStrList(c.args), sep)
	}
	sb.WriteString("].\n\n")

	// ---- what PUT /config/:opt can set
	dc := admin.method("httpServer", "doConfig")
	if dc == nil || dc.Body == nil {
		return "", fmt.Errorf("doConfig not found")
	}
	type putCase struct {
		labels []string
		body   []string
	}
	var cases []putCase
	nswitch := 0
	ast.Inspect(dc.Body, func(n ast.Node) bool {
		sw, ok := n.(*ast.SwitchStmt)
		if !ok {
			return true
		}
		if id, ok := sw.Tag.(*ast.Ident); !ok || id.Name != "opt" {
			return true
		}
		nswitch++
		for _, st := range sw.Body.List {
			cc, ok := st.(*ast.CaseClause)
			if !ok {
				continue
			}
			pc := putCase{}
			if cc.List == nil {
				pc.labels = []string{"<default>"}
			}
			for _, e := range cc.List {
				if s, ok := adm_stringLit(e); ok {
					pc.labels = append(pc.labels, s)
				} else {
					pc.labels = append(pc.labels, "?"+adm_condText(e))
				}
			}
			pc.body = adm_stmtShape(cc.Body)
			cases = append(cases, pc)
		}
		return false
	})
	if nswitch != 1 {
		return "", fmt.Errorf("doConfig: expected exactly one `switch opt`, found %d", nswitch)
	}
	sb.WriteString("(* doConfig, PUT: the cases of `switch opt` (what can be set at run time) with their statements *)\n")
	sb.WriteString("Definition cfg_put_options : list (list string * list string) := [\n")
	for i, c := range cases {
		sep := ";"
		if i == len(cases)-1 {
			sep = ""
		}
		fmt.Fprintf(&sb, "  (%s, %s)%s\n", adm_coqStrList(c.labels), adm_coqStrList(c.body), sep)
	}
	sb.WriteString("].\n")
	return sb.String(), nil
}
