package main

// SyncTab.v (C16): what the source text of nsqd/lookup_peer.go, nsqd/lookup.go and
// nsqd/nsqd.go says about the pieces the Sync model is built from — the refusals that
// precede make([]byte, msgSize) in readResponseBounded, the lp.Close() calls in the
// error branches of lookupPeer.Command, what connectCallback registers, how lookupLoop
// chooses between REGISTER and UNREGISTER, the heartbeat literal, the position of
// t.Start() in GetTopic and the shape of Notify.  Only syntax is read (go/ast); a shape
// that is not recognised yields false, which the theorems then cannot use.

import (
	"fmt"
	"go/ast"
	"go/token"
	"os"
	"strings"
)

func init() { register("SyncTab.v", genSyncTab) }

// selName: for x.Sel(...) returns "Sel"; for f(...) returns "f".
func callName(c *ast.CallExpr) string {
	switch f := c.Fun.(type) {
	case *ast.SelectorExpr:
		return f.Sel.Name
	case *ast.Ident:
		return f.Name
	}
	return ""
}

// qualName: "pkg.Fn" / "recv.Method" when the receiver is a plain identifier.
func qualName(c *ast.CallExpr) string {
	if f, ok := c.Fun.(*ast.SelectorExpr); ok {
		if id, ok := f.X.(*ast.Ident); ok {
			return id.Name + "." + f.Sel.Name
		}
		return "." + f.Sel.Name
	}
	return callName(c)
}

func findCalls(n ast.Node, pred func(*ast.CallExpr) bool) []*ast.CallExpr {
	var res []*ast.CallExpr
	if n == nil {
		return res
	}
	ast.Inspect(n, func(x ast.Node) bool {
		if c, ok := x.(*ast.CallExpr); ok && pred(c) {
			res = append(res, c)
		}
		return true
	})
	return res
}

func hasCallNamed(n ast.Node, name string) bool {
	return len(findCalls(n, func(c *ast.CallExpr) bool { return callName(c) == name })) > 0
}
func hasCallQual(n ast.Node, q string) bool {
	return len(findCalls(n, func(c *ast.CallExpr) bool { return qualName(c) == q })) > 0
}

// isErrNotNil: err != nil
func isErrNotNil(e ast.Expr) bool {
	b, ok := e.(*ast.BinaryExpr)
	if !ok || b.Op != token.NEQ {
		return false
	}
	x, ok1 := b.X.(*ast.Ident)
	y, ok2 := b.Y.(*ast.Ident)
	return ok1 && ok2 && x.Name == "err" && y.Name == "nil"
}

// returnsError: the block's last statement is `return ..., <non-nil>`.
func returnsError(b *ast.BlockStmt) bool {
	if b == nil || len(b.List) == 0 {
		return false
	}
	r, ok := b.List[len(b.List)-1].(*ast.ReturnStmt)
	if !ok || len(r.Results) == 0 {
		return false
	}
	last := r.Results[len(r.Results)-1]
	if id, ok := last.(*ast.Ident); ok && id.Name == "nil" {
		return false
	}
	return true
}

func rangeOver(r *ast.RangeStmt) string {
	switch x := r.X.(type) {
	case *ast.Ident:
		return x.Name
	case *ast.SelectorExpr:
		return x.Sel.Name
	}
	return ""
}

func coqBool(b bool) string {
	if b {
		return "true"
	}
	return "false"
}

// stmtsWalk visits statements in source order, descending into if/else, blocks and loops.
func stmtsWalk(list []ast.Stmt, f func(ast.Stmt)) {
	for _, s := range list {
		f(s)
		switch x := s.(type) {
		case *ast.IfStmt:
			stmtsWalk(x.Body.List, f)
			if eb, ok := x.Else.(*ast.BlockStmt); ok {
				stmtsWalk(eb.List, f)
			} else if ei, ok := x.Else.(*ast.IfStmt); ok {
				stmtsWalk([]ast.Stmt{ei}, f)
			}
		case *ast.BlockStmt:
			stmtsWalk(x.List, f)
		case *ast.ForStmt:
			stmtsWalk(x.Body.List, f)
		case *ast.RangeStmt:
			stmtsWalk(x.Body.List, f)
		}
	}
}

// assignedCall: the call on the right-hand side of `... := f(...)` / `... = f(...)`.
func assignedCall(s ast.Stmt) *ast.CallExpr {
	a, ok := s.(*ast.AssignStmt)
	if !ok || len(a.Rhs) != 1 {
		return nil
	}
	c, _ := a.Rhs[0].(*ast.CallExpr)
	return c
}

func genSyncTab(repo string) (string, error) {
	p, err := loadPkg(repo, "nsqd")
	if err != nil {
		return "", err
	}
	var sb strings.Builder
	sb.WriteString("From Coq Require Import ZArith Bool.\nOpen Scope Z_scope.\n\n")
	def := func(name string, v bool) { fmt.Fprintf(&sb, "Definition %s : bool := %s.\n", name, coqBool(v)) }

	// ---- readResponseBounded
	rrb := p.funcDecl("readResponseBounded")
	if rrb == nil {
		return "", fmt.Errorf("readResponseBounded not found")
	}
	makes := findCalls(rrb.Body, func(c *ast.CallExpr) bool { return callName(c) == "make" })
	if len(makes) == 0 {
		return "", fmt.Errorf("readResponseBounded: no make call")
	}
	makePos := makes[0].Pos()
	neg, lim := false, false
	for _, s := range rrb.Body.List {
		is, ok := s.(*ast.IfStmt)
		if !ok || is.Pos() > makePos || !returnsError(is.Body) {
			continue
		}
		b, ok := is.Cond.(*ast.BinaryExpr)
		if !ok {
			continue
		}
		if b.Op == token.LSS {
			if _, ok := b.X.(*ast.Ident); ok {
				if v, err := p.evalInt(b.Y, 0, 0); err == nil && v.Sign() == 0 {
					neg = true
				}
			}
		}
		if b.Op == token.GTR {
			if y, ok := b.Y.(*ast.Ident); ok && y.Name == "limit" {
				lim = true
			}
		}
	}
	sb.WriteString("(* nsqd/lookup_peer.go readResponseBounded: refusals that precede make([]byte, msgSize) *)\n")
	def("nsqd_rrb_refuses_negative", neg)
	def("nsqd_rrb_refuses_over_limit", lim)

	// ---- lookupPeer.Command
	cmdM := p.method("lookupPeer", "Command")
	if cmdM == nil {
		return "", fmt.Errorf("lookupPeer.Command not found")
	}
	closes := map[string]bool{}
	last := ""
	stmtsWalk(cmdM.Body.List, func(s ast.Stmt) {
		if c := assignedCall(s); c != nil {
			last = callName(c)
			return
		}
		if is, ok := s.(*ast.IfStmt); ok && isErrNotNil(is.Cond) && last != "" {
			closes[last] = hasCallQual(is.Body, "lp.Close") && returnsError(is.Body)
			last = ""
		}
	})
	runsCB := false
	for _, s := range cmdM.Body.List {
		if is, ok := s.(*ast.IfStmt); ok {
			if b, ok := is.Cond.(*ast.BinaryExpr); ok && b.Op == token.NEQ {
				if y, ok := b.Y.(*ast.Ident); ok && y.Name == "stateConnected" && hasCallNamed(is.Body, "connectCallback") {
					runsCB = true
				}
			}
		}
	}
	closeM := p.method("lookupPeer", "Close")
	closeSets := false
	if closeM != nil {
		for _, s := range closeM.Body.List {
			if a, ok := s.(*ast.AssignStmt); ok && len(a.Lhs) == 1 && len(a.Rhs) == 1 {
				if l, ok := a.Lhs[0].(*ast.SelectorExpr); ok && l.Sel.Name == "state" {
					if r, ok := a.Rhs[0].(*ast.Ident); ok && r.Name == "stateDisconnected" {
						closeSets = true
					}
				}
			}
		}
	}
	sb.WriteString("(* nsqd/lookup_peer.go lookupPeer.Command: lp.Close() + error return in the error branch after ... *)\n")
	def("nsqd_command_closes_on_magic_error", closes["Write"])
	def("nsqd_command_closes_on_write_error", closes["WriteTo"])
	def("nsqd_command_closes_on_read_error", closes["readResponseBounded"])
	def("nsqd_command_runs_callback_when_disconnected", runsCB)
	def("nsqd_close_sets_disconnected", closeSets)

	// ---- connectCallback
	cc := p.funcDecl("connectCallback")
	if cc == nil {
		return "", fmt.Errorf("connectCallback not found")
	}
	var lit *ast.FuncLit
	ast.Inspect(cc.Body, func(n ast.Node) bool {
		if f, ok := n.(*ast.FuncLit); ok && lit == nil {
			lit = f
		}
		return lit == nil
	})
	if lit == nil {
		return "", fmt.Errorf("connectCallback: no func literal")
	}
	idents := findCalls(lit.Body, func(c *ast.CallExpr) bool { return qualName(c) == "nsq.Identify" })
	regsAll := findCalls(lit.Body, func(c *ast.CallExpr) bool { return qualName(c) == "nsq.Register" })
	cmds := findCalls(lit.Body, func(c *ast.CallExpr) bool { return qualName(c) == "lp.Command" })
	identFirst := len(idents) > 0 && len(cmds) > 0 && idents[0].Pos() < cmds[0].Pos() &&
		(len(regsAll) == 0 || cmds[0].Pos() < regsAll[0].Pos())
	closeEInvalid, closeBadJSON := false, false
	lastCall := ""
	stmtsWalk(lit.Body.List, func(s ast.Stmt) {
		if c := assignedCall(s); c != nil {
			lastCall = qualName(c)
		}
		is, ok := s.(*ast.IfStmt)
		if !ok {
			return
		}
		// else-if chain: if err != nil {...} else if bytes.Equal(resp, []byte("E_INVALID")) {...}
		for cur := is; cur != nil; {
			if c, ok := cur.Cond.(*ast.CallExpr); ok && qualName(c) == "bytes.Equal" && hasCallQual(cur.Body, "lp.Close") {
				closeEInvalid = true
			}
			if isErrNotNil(cur.Cond) && lastCall == "json.Unmarshal" && hasCallQual(cur.Body, "lp.Close") {
				closeBadJSON = true
			}
			next, _ := cur.Else.(*ast.IfStmt)
			cur = next
		}
	})
	regEmpty, regChans, sendsAll := false, false, false
	skipTopics, skipChans := false, false
	// `if x.Exiting() { continue }` as a direct statement of a loop body
	skipsExiting := func(body *ast.BlockStmt) bool {
		for _, st := range body.List {
			is, ok := st.(*ast.IfStmt)
			if !ok {
				continue
			}
			c, ok := is.Cond.(*ast.CallExpr)
			if !ok || callName(c) != "Exiting" || len(is.Body.List) == 0 {
				continue
			}
			if br, ok := is.Body.List[len(is.Body.List)-1].(*ast.BranchStmt); ok && br.Tok == token.CONTINUE {
				return true
			}
		}
		return false
	}
	ast.Inspect(lit.Body, func(n ast.Node) bool {
		r, ok := n.(*ast.RangeStmt)
		if !ok {
			return true
		}
		switch rangeOver(r) {
		case "topicMap":
			skipTopics = skipsExiting(r.Body)
			for _, c := range findCalls(r.Body, func(c *ast.CallExpr) bool { return qualName(c) == "nsq.Register" && len(c.Args) == 2 }) {
				if l, ok := c.Args[1].(*ast.BasicLit); ok && l.Kind == token.STRING && l.Value == `""` {
					regEmpty = true
				}
			}
			ast.Inspect(r.Body, func(m ast.Node) bool {
				if r2, ok := m.(*ast.RangeStmt); ok && rangeOver(r2) == "channelMap" {
					skipChans = skipsExiting(r2.Body)
					for _, c := range findCalls(r2.Body, func(c *ast.CallExpr) bool { return qualName(c) == "nsq.Register" && len(c.Args) == 2 }) {
						if _, isLit := c.Args[1].(*ast.BasicLit); !isLit {
							regChans = true
						}
					}
				}
				return true
			})
		case "commands":
			if hasCallQual(r.Body, "lp.Command") {
				sendsAll = true
			}
		}
		return true
	})
	sb.WriteString("(* nsqd/lookup.go connectCallback *)\n")
	def("nsqd_cc_identifies_first", identFirst)
	def("nsqd_cc_closes_on_bad_identify_reply", closeEInvalid && closeBadJSON)
	def("nsqd_cc_registers_empty_topics", regEmpty && sendsAll)
	def("nsqd_cc_registers_channels", regChans && sendsAll)
	def("nsqd_cc_skips_exiting_topics", skipTopics)
	def("nsqd_cc_skips_exiting_channels", skipChans)
	// the condition guarding Register(topic.name, ""): `<counter> == 0` where <counter> is
	// incremented next to the channel REGISTER (after the Exiting() skip) means "no live
	// channel was registered"; anything else (e.g. len(topic.channelMap) == 0) does not
	bareNoLive := false
	ast.Inspect(lit.Body, func(n ast.Node) bool {
		r, ok := n.(*ast.RangeStmt)
		if !ok || rangeOver(r) != "topicMap" {
			return true
		}
		counters := map[string]bool{}
		ast.Inspect(r.Body, func(m ast.Node) bool {
			r2, ok := m.(*ast.RangeStmt)
			if !ok || rangeOver(r2) != "channelMap" || !skipsExiting(r2.Body) {
				return true
			}
			seenReg := false
			for _, st := range r2.Body.List {
				if hasCallQual(st, "nsq.Register") {
					seenReg = true
				}
				if inc, ok := st.(*ast.IncDecStmt); ok && inc.Tok == token.INC && seenReg {
					if id, ok := inc.X.(*ast.Ident); ok {
						counters[id.Name] = true
					}
				}
			}
			return true
		})
		ast.Inspect(r.Body, func(m ast.Node) bool {
			is, ok := m.(*ast.IfStmt)
			if !ok {
				return true
			}
			regs := findCalls(is.Body, func(c *ast.CallExpr) bool {
				if qualName(c) != "nsq.Register" || len(c.Args) != 2 {
					return false
				}
				l, ok := c.Args[1].(*ast.BasicLit)
				return ok && l.Value == `""`
			})
			if len(regs) == 0 {
				return true
			}
			if b, ok := is.Cond.(*ast.BinaryExpr); ok && b.Op == token.EQL {
				if id, ok := b.X.(*ast.Ident); ok && counters[id.Name] {
					if v, err := p.evalInt(b.Y, 0, 0); err == nil && v.Sign() == 0 {
						bareNoLive = true
					}
				}
			}
			return true
		})
		return false
	})
	def("nsqd_cc_bare_topic_when_no_live_channel", bareNoLive)

	// ---- lookupLoop
	ll := p.method("NSQD", "lookupLoop")
	if ll == nil {
		return "", fmt.Errorf("lookupLoop not found")
	}
	hb := "0"
	for _, c := range findCalls(ll.Body, func(c *ast.CallExpr) bool { return qualName(c) == "time.NewTicker" && len(c.Args) == 1 }) {
		if v, err := p.evalInt(c.Args[0], 0, 0); err == nil {
			hb = coqZ(v)
		}
	}
	tickPings, notifAll, reconfCloses := false, false, false
	chanUnreg, topicUnreg := false, false
	exitingDecides := func(cl *ast.CaseClause) bool {
		res := false
		for _, s := range cl.Body {
			is, ok := s.(*ast.IfStmt)
			if !ok {
				continue
			}
			c, ok := is.Cond.(*ast.CallExpr)
			if !ok || callName(c) != "Exiting" {
				continue
			}
			eb, ok := is.Else.(*ast.BlockStmt)
			if ok && hasCallQual(is.Body, "nsq.UnRegister") && !hasCallQual(is.Body, "nsq.Register") &&
				hasCallQual(eb, "nsq.Register") && !hasCallQual(eb, "nsq.UnRegister") {
				res = true
			}
		}
		return res
	}
	ast.Inspect(ll.Body, func(n ast.Node) bool {
		cc, ok := n.(*ast.CommClause)
		if !ok || cc.Comm == nil {
			return true
		}
		src := nodeText(p, cc.Comm)
		body := &ast.BlockStmt{List: cc.Body}
		peersLoopWith := func(q string) bool {
			found := false
			ast.Inspect(body, func(m ast.Node) bool {
				if r, ok := m.(*ast.RangeStmt); ok && rangeOver(r) == "lookupPeers" && hasCallNamed(r.Body, q) {
					found = true
				}
				return true
			})
			return found
		}
		switch {
		case strings.Contains(src, "ticker.C"):
			tickPings = peersLoopWith("Command") && hasCallQual(body, "nsq.Ping")
		case strings.Contains(src, "notifyChan"):
			notifAll = peersLoopWith("Command")
			ast.Inspect(body, func(m ast.Node) bool {
				if cl, ok := m.(*ast.CaseClause); ok && len(cl.List) == 1 {
					if st, ok := cl.List[0].(*ast.StarExpr); ok {
						if id, ok := st.X.(*ast.Ident); ok {
							switch id.Name {
							case "Channel":
								chanUnreg = exitingDecides(cl)
							case "Topic":
								topicUnreg = exitingDecides(cl)
							}
						}
					}
				}
				return true
			})
		case strings.Contains(src, "optsNotificationChan"):
			reconfCloses = peersLoopWith("Close")
		}
		return true
	})
	sb.WriteString("(* nsqd/lookup.go lookupLoop *)\n")
	fmt.Fprintf(&sb, "Definition nsqd_loop_heartbeat_ns : Z := %s.\n", hb)
	def("nsqd_loop_tick_pings_every_peer", tickPings)
	def("nsqd_loop_channel_exiting_unregisters", chanUnreg)
	def("nsqd_loop_topic_exiting_unregisters", topicUnreg)
	def("nsqd_loop_notifies_every_peer", notifAll)
	def("nsqd_loop_reconfigure_closes_removed", reconfCloses)

	// ---- GetTopic / Notify
	gt := p.method("NSQD", "GetTopic")
	if gt == nil {
		return "", fmt.Errorf("GetTopic not found")
	}
	starts := findCalls(gt.Body, func(c *ast.CallExpr) bool { return qualName(c) == "t.Start" })
	getch := findCalls(gt.Body, func(c *ast.CallExpr) bool { return qualName(c) == "t.GetChannel" })
	query := findCalls(gt.Body, func(c *ast.CallExpr) bool { return callName(c) == "GetLookupdTopicChannels" })
	pre := len(starts) == 1 && len(getch) > 0 && len(query) > 0 &&
		query[0].Pos() < getch[0].Pos() && getch[len(getch)-1].Pos() < starts[0].Pos()
	skips := false
	ast.Inspect(gt.Body, func(n ast.Node) bool {
		r, ok := n.(*ast.RangeStmt)
		if !ok || !hasCallQual(r.Body, "t.GetChannel") {
			return true
		}
		for _, s := range r.Body.List {
			if is, ok := s.(*ast.IfStmt); ok && len(getch) > 0 && is.Pos() < getch[0].Pos() {
				if c, ok := is.Cond.(*ast.CallExpr); ok && qualName(c) == "strings.HasSuffix" && len(c.Args) == 2 {
					if l, ok := c.Args[1].(*ast.BasicLit); ok && l.Value == `"#ephemeral"` {
						for _, b := range is.Body.List {
							if br, ok := b.(*ast.BranchStmt); ok && br.Tok == token.CONTINUE {
								skips = true
							}
						}
					}
				}
			}
		}
		return true
	})
	nf := p.method("NSQD", "Notify")
	if nf == nil {
		return "", fmt.Errorf("Notify not found")
	}
	inGo, selExit := false, false
	ast.Inspect(nf.Body, func(n ast.Node) bool {
		var fl *ast.FuncLit
		switch x := n.(type) {
		case *ast.GoStmt:
			fl, _ = x.Call.Fun.(*ast.FuncLit)
		case *ast.CallExpr:
			if callName(x) == "Wrap" && len(x.Args) == 1 {
				fl, _ = x.Args[0].(*ast.FuncLit)
			}
		}
		if fl == nil {
			return true
		}
		ast.Inspect(fl.Body, func(m ast.Node) bool {
			sel, ok := m.(*ast.SelectStmt)
			if !ok {
				return true
			}
			send, exit := false, false
			for _, c := range sel.Body.List {
				cc := c.(*ast.CommClause)
				if cc.Comm == nil {
					continue
				}
				t := nodeText(p, cc.Comm)
				if _, ok := cc.Comm.(*ast.SendStmt); ok && strings.Contains(t, "notifyChan") {
					send = true
				}
				if strings.Contains(t, "<-") && strings.Contains(t, "exitChan") {
					if _, ok := cc.Comm.(*ast.SendStmt); !ok {
						exit = true
					}
				}
			}
			if send {
				inGo = true
				selExit = exit
			}
			return true
		})
		return true
	})
	sb.WriteString("(* nsqd/nsqd.go GetTopic / Notify *)\n")
	def("nsqd_gettopic_precreates_before_start", pre)
	def("nsqd_gettopic_skips_ephemeral", skips)
	// the channel names are used even when the query returned an error (partial result): the
	// `if err != nil` that follows the call only logs, and the GetChannel loop is not in its else
	usesPartial := false
	if len(query) > 0 && len(getch) > 0 {
		stmtsWalk(gt.Body.List, func(st ast.Stmt) {
			is, ok := st.(*ast.IfStmt)
			if !ok || !isErrNotNil(is.Cond) || is.Pos() < query[0].Pos() || is.Pos() > getch[0].Pos() {
				return
			}
			returns := false
			ast.Inspect(is.Body, func(m ast.Node) bool {
				if _, ok := m.(*ast.ReturnStmt); ok {
					returns = true
				}
				return true
			})
			if !returns && is.Else == nil && getch[0].Pos() > is.End() {
				usesPartial = true
			}
		})
	}
	def("nsqd_gettopic_uses_partial_result", usesPartial)
	def("nsqd_notify_sends_in_goroutine", inGo)
	def("nsqd_notify_selects_on_exit", selExit)

	// ---- internal/clusterinfo GetLookupdTopicChannels: the len(errs) rules
	ci, err := loadPkg(repo, "internal/clusterinfo")
	if err != nil {
		return "", err
	}
	tc := ci.method("ClusterInfo", "GetLookupdTopicChannels")
	if tc == nil {
		return "", fmt.Errorf("GetLookupdTopicChannels not found")
	}
	isLen := func(e ast.Expr, of string) bool {
		c, ok := e.(*ast.CallExpr)
		if !ok || callName(c) != "len" || len(c.Args) != 1 {
			return false
		}
		id, ok := c.Args[0].(*ast.Ident)
		return ok && id.Name == of
	}
	firstResultNil := func(b *ast.BlockStmt) (isReturn, isNil bool) {
		if len(b.List) == 0 {
			return false, false
		}
		r, ok := b.List[len(b.List)-1].(*ast.ReturnStmt)
		if !ok || len(r.Results) != 2 {
			return false, false
		}
		id, ok := r.Results[0].(*ast.Ident)
		return true, ok && id.Name == "nil"
	}
	failsOnlyAll, partial := true, false
	sawAllRule := false
	for _, st := range tc.Body.List {
		is, ok := st.(*ast.IfStmt)
		if !ok {
			continue
		}
		b, ok := is.Cond.(*ast.BinaryExpr)
		if !ok || !isLen(b.X, "errs") {
			continue
		}
		ret, nilFirst := firstResultNil(is.Body)
		if !ret {
			continue
		}
		if nilFirst {
			// a return that drops the data: allowed only under len(errs) == len(lookupdHTTPAddrs)
			if b.Op == token.EQL && isLen(b.Y, "lookupdHTTPAddrs") {
				sawAllRule = true
			} else {
				failsOnlyAll = false
			}
		} else if b.Op == token.GTR {
			if v, err := ci.evalInt(b.Y, 0, 0); err == nil && v.Sign() == 0 {
				partial = true // return channels, ErrList(errs)
			}
		}
	}
	sb.WriteString("(* internal/clusterinfo/data.go GetLookupdTopicChannels: the len(errs) rules *)\n")
	def("clusterinfo_topicchannels_fails_only_when_all_fail", failsOnlyAll && sawAllRule)
	def("clusterinfo_topicchannels_returns_partial_result", partial)

	// ---- which nsqlookupds GetTopic asks: lookupdHTTPAddrs, the peer list it reads, GetTopic's use of it
	skipOnlyUnknown, addrFromInfo := httpAddrsShape(p)
	sb.WriteString("(* nsqd/lookup.go lookupdHTTPAddrs: a peer is left out only when its broadcast address is unknown\n" +
		"   (whatever the state of its TCP connection); the address comes from the cached peer info *)\n")
	def("nsqd_httpaddrs_skips_only_unknown_address", skipOnlyUnknown)
	def("nsqd_httpaddrs_built_from_peer_info", addrFromInfo)
	sb.WriteString("(* nsqd/lookup.go lookupLoop: the peer list is published (n.lookupPeers.Store) whenever the loop has\n" +
		"   (re)built it, and a reconfiguration asks for that; nsqd/nsqd.go GetTopic queries exactly lookupdHTTPAddrs() *)\n")
	def("nsqd_loop_publishes_peer_list", loopPublishesPeers(ll))
	def("nsqd_gettopic_queries_httpaddrs", getTopicQueriesHTTPAddrs(gt))
	return sb.String(), nil
}

// isInfoField: <x>.Info.<field>
func isInfoField(e ast.Expr, field string) bool {
	s, ok := e.(*ast.SelectorExpr)
	if !ok || s.Sel.Name != field {
		return false
	}
	in, ok := s.X.(*ast.SelectorExpr)
	return ok && in.Sel.Name == "Info"
}

// isUnknownAddrCond: len(lp.Info.BroadcastAddress) <= 0 | == 0 | < 1, or lp.Info.BroadcastAddress == ""
func isUnknownAddrCond(p *pkg, e ast.Expr) bool {
	b, ok := e.(*ast.BinaryExpr)
	if !ok {
		return false
	}
	if c, ok := b.X.(*ast.CallExpr); ok && callName(c) == "len" && len(c.Args) == 1 && isInfoField(c.Args[0], "BroadcastAddress") {
		v, err := p.evalInt(b.Y, 0, 0)
		if err != nil {
			return false
		}
		switch b.Op {
		case token.LEQ, token.EQL:
			return v.Sign() == 0
		case token.LSS:
			return v.IsInt64() && v.Int64() == 1
		}
		return false
	}
	if isInfoField(b.X, "BroadcastAddress") && b.Op == token.EQL {
		l, ok := b.Y.(*ast.BasicLit)
		return ok && l.Kind == token.STRING && l.Value == `""`
	}
	return false
}

// httpAddrsShape reads NSQD.lookupdHTTPAddrs: the loop over the stored peers must leave a peer
// out ONLY under the unknown-address test (one `if <that> { continue }`, no other continue /
// break / return / goto in the loop, the append a direct statement of the loop body), and the
// address must be JoinHostPort(lp.Info.BroadcastAddress, Itoa(lp.Info.HTTPPort)).
func httpAddrsShape(p *pkg) (skipOnlyUnknown, addrFromInfo bool) {
	fn := p.method("NSQD", "lookupdHTTPAddrs")
	if fn == nil {
		return false, false
	}
	var loop *ast.RangeStmt
	nloops := 0
	ast.Inspect(fn.Body, func(n ast.Node) bool {
		if r, ok := n.(*ast.RangeStmt); ok {
			nloops++
			if loop == nil {
				loop = r
			}
		}
		return true
	})
	if loop == nil || nloops != 1 {
		return false, false
	}
	// the loop ranges over the published list (lookupPeers.(...) loaded from n.lookupPeers)
	if !strings.Contains(nodeText(p, loop.X), "lookupPeers") {
		return false, false
	}
	jumps, skips, appends := 0, 0, 0
	ast.Inspect(loop.Body, func(n ast.Node) bool {
		switch n.(type) {
		case *ast.BranchStmt, *ast.ReturnStmt:
			jumps++
		}
		return true
	})
	for _, st := range loop.Body.List {
		switch x := st.(type) {
		case *ast.IfStmt:
			if x.Init == nil && x.Else == nil && len(x.Body.List) == 1 && isUnknownAddrCond(p, x.Cond) {
				if br, ok := x.Body.List[0].(*ast.BranchStmt); ok && br.Tok == token.CONTINUE {
					skips++
				}
			}
		case *ast.AssignStmt:
			if c := assignedCall(st); c != nil && callName(c) == "append" {
				appends++
			}
		}
	}
	// statements between the loop and the function's end must not drop entries: only the final return
	tailOK := false
	if n := len(fn.Body.List); n > 0 {
		if r, ok := fn.Body.List[n-1].(*ast.ReturnStmt); ok && len(r.Results) == 1 {
			if _, ok := r.Results[0].(*ast.Ident); ok && n >= 2 && fn.Body.List[n-2] == ast.Stmt(loop) {
				tailOK = true
			}
		}
	}
	skipOnlyUnknown = jumps == skips && skips <= 1 && appends == 1 && tailOK
	for _, c := range findCalls(loop.Body, func(c *ast.CallExpr) bool { return qualName(c) == "net.JoinHostPort" && len(c.Args) == 2 }) {
		if !isInfoField(c.Args[0], "BroadcastAddress") {
			continue
		}
		if it, ok := c.Args[1].(*ast.CallExpr); ok && qualName(it) == "strconv.Itoa" && len(it.Args) == 1 && isInfoField(it.Args[0], "HTTPPort") {
			addrFromInfo = true
		}
	}
	return
}

// loopPublishesPeers: in lookupLoop, `if connect { ...; n.lookupPeers.Store(lookupPeers); connect = false }`
// as a direct statement of the for body, and the optsNotificationChan case sets connect = true.
func loopPublishesPeers(ll *ast.FuncDecl) bool {
	stores, asks := false, false
	assignsConnect := func(list []ast.Stmt, val string) bool {
		for _, s := range list {
			if a, ok := s.(*ast.AssignStmt); ok && len(a.Lhs) == 1 && len(a.Rhs) == 1 {
				l, ok1 := a.Lhs[0].(*ast.Ident)
				r, ok2 := a.Rhs[0].(*ast.Ident)
				if ok1 && ok2 && l.Name == "connect" && r.Name == val {
					return true
				}
			}
		}
		return false
	}
	ast.Inspect(ll.Body, func(n ast.Node) bool {
		switch x := n.(type) {
		case *ast.ForStmt:
			for _, s := range x.Body.List {
				is, ok := s.(*ast.IfStmt)
				if !ok {
					continue
				}
				if id, ok := is.Cond.(*ast.Ident); !ok || id.Name != "connect" {
					continue
				}
				for _, b := range is.Body.List {
					es, ok := b.(*ast.ExprStmt)
					if !ok {
						continue
					}
					c, ok := es.X.(*ast.CallExpr)
					if !ok || callName(c) != "Store" || len(c.Args) != 1 {
						continue
					}
					f, _ := c.Fun.(*ast.SelectorExpr)
					if f == nil {
						continue
					}
					recv, _ := f.X.(*ast.SelectorExpr)
					arg, _ := c.Args[0].(*ast.Ident)
					if recv != nil && recv.Sel.Name == "lookupPeers" && arg != nil && arg.Name == "lookupPeers" {
						stores = true
					}
				}
			}
		case *ast.CommClause:
			if x.Comm != nil {
				if es, ok := x.Comm.(*ast.ExprStmt); ok {
					if u, ok := es.X.(*ast.UnaryExpr); ok && u.Op == token.ARROW {
						if s, ok := u.X.(*ast.SelectorExpr); ok && s.Sel.Name == "optsNotificationChan" {
							asks = assignsConnect(x.Body, "true")
						}
					}
				}
			}
		}
		return true
	})
	return stores && asks
}

// getTopicQueriesHTTPAddrs: `x := n.lookupdHTTPAddrs()`, the query is GetLookupdTopicChannels(_, x)
// and the only test between the two is `len(x) > 0` (the if whose body holds the query).
func getTopicQueriesHTTPAddrs(gt *ast.FuncDecl) bool {
	ok := false
	for i, st := range gt.Body.List {
		a, isA := st.(*ast.AssignStmt)
		if !isA || len(a.Lhs) != 1 || len(a.Rhs) != 1 {
			continue
		}
		c, isC := a.Rhs[0].(*ast.CallExpr)
		v, isV := a.Lhs[0].(*ast.Ident)
		if !isC || !isV || qualName(c) != "n.lookupdHTTPAddrs" || len(c.Args) != 0 || i+1 >= len(gt.Body.List) {
			continue
		}
		is, isIf := gt.Body.List[i+1].(*ast.IfStmt)
		if !isIf || is.Init != nil {
			continue
		}
		b, isB := is.Cond.(*ast.BinaryExpr)
		if !isB || b.Op != token.GTR {
			continue
		}
		lc, isL := b.X.(*ast.CallExpr)
		if !isL || callName(lc) != "len" || len(lc.Args) != 1 {
			continue
		}
		if id, isId := lc.Args[0].(*ast.Ident); !isId || id.Name != v.Name {
			continue
		}
		if z, isZ := b.Y.(*ast.BasicLit); !isZ || z.Value != "0" {
			continue
		}
		if len(is.Body.List) == 0 {
			continue
		}
		q := assignedCall(is.Body.List[0])
		if q == nil || callName(q) != "GetLookupdTopicChannels" || len(q.Args) != 2 {
			continue
		}
		if id, isId := q.Args[1].(*ast.Ident); isId && id.Name == v.Name {
			ok = true
		}
	}
	return ok
}

// nodeText: the source text of a node (read back from the file).
func nodeText(p *pkg, n ast.Node) string {
	start := p.fset.Position(n.Pos())
	end := p.fset.Position(n.End())
	src, ok := srcCache[start.Filename]
	if !ok {
		b, err := os.ReadFile(start.Filename)
		if err != nil {
			return ""
		}
		src = string(b)
		srcCache[start.Filename] = src
	}
	if start.Offset < 0 || end.Offset > len(src) || start.Offset > end.Offset {
		return ""
	}
	return src[start.Offset:end.Offset]
}

var srcCache = map[string]string{}
