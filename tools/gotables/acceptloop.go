package main

// AcceptTable.v (C09): the accept loop of internal/protocol/tcp_server.go TCPServer, which
// nsqd and nsqlookupd run on their TCP listeners:
//
//   - the call whose results the loop consumes;
//   - the error branch (`if err != nil { ... }`) as a list of (condition, action) in source
//     order plus the action taken when no condition holds.  Conditions:
//     "temporary"      te, ok := err.(interface{ Temporary() bool }); ok && te.Temporary()
//     "timeout"        the same with Timeout
//     "net-temporary"  ne, ok := err.(net.Error); ok && ne.Temporary()
//     "net-timeout"    ne, ok := err.(net.Error); ok && ne.Timeout()
//     "closed"         errors.Is(err, net.ErrClosed)        "!closed" its negation
//     anything else is written "?<source text>" (the proofs then fail: review).
//     Actions: the statements of the branch other than logging (logf), runtime.Gosched and time.Sleep,
//     joined by "+": "continue", "break", "return-nil", "return-err" (a return whose value
//     mentions err), "?..." for anything else;
//   - what is done with an accepted connection (the rest of the loop body), as tokens:
//     calls by their text (literal arguments dropped), "go{" ... "}" around the body of a
//     goroutine;
//   - the statements after the loop.
//
// Only syntax is read (go/ast).

import (
	"fmt"
	"go/ast"
	"go/token"
	"strconv"
	"strings"
)

func init() { register("AcceptTable.v", genAcceptTable) }

func acceptIgnored(c *ast.CallExpr) bool {
	switch srcText(c.Fun) {
	case "logf", "runtime.Gosched", "time.Sleep":
		return true
	}
	return false
}

func acceptCallToken(c *ast.CallExpr) string {
	for _, a := range c.Args {
		if _, lit := a.(*ast.BasicLit); !lit {
			return srcText(c)
		}
	}
	return srcText(c.Fun)
}

func acceptMentions(e ast.Expr, name string) bool {
	found := false
	ast.Inspect(e, func(n ast.Node) bool {
		if id, ok := n.(*ast.Ident); ok && id.Name == name {
			found = true
		}
		return !found
	})
	return found
}

// the tokens of a statement list (logging and yields dropped)
func acceptStmtTokens(stmts []ast.Stmt) []string {
	var out []string
	for _, st := range stmts {
		switch s := st.(type) {
		case *ast.ExprStmt:
			if c, ok := s.X.(*ast.CallExpr); ok {
				if !acceptIgnored(c) {
					out = append(out, acceptCallToken(c))
				}
			} else {
				out = append(out, "?"+srcText(s.X))
			}
		case *ast.BranchStmt:
			if s.Label != nil {
				out = append(out, "?"+s.Tok.String()+" "+s.Label.Name)
			} else {
				out = append(out, s.Tok.String())
			}
		case *ast.ReturnStmt:
			switch {
			case len(s.Results) != 1:
				out = append(out, "return-?")
			case srcText(s.Results[0]) == "nil":
				out = append(out, "return-nil")
			case acceptMentions(s.Results[0], "err"):
				out = append(out, "return-err")
			default:
				out = append(out, "return-?")
			}
		case *ast.GoStmt:
			if fl, ok := s.Call.Fun.(*ast.FuncLit); ok && len(s.Call.Args) == 0 {
				out = append(out, "go{")
				out = append(out, acceptStmtTokens(fl.Body.List)...)
				out = append(out, "}")
			} else {
				out = append(out, "go "+srcText(s.Call))
			}
		case *ast.DeferStmt:
			out = append(out, "defer "+acceptCallToken(s.Call))
		case *ast.DeclStmt:
			// a local declaration: no effect of its own
		default:
			out = append(out, fmt.Sprintf("?%T", st))
		}
	}
	return out
}

// X, ok := err.(T); ok && X.M()
func acceptCond(s *ast.IfStmt) string {
	unknown := func() string {
		t := srcText(s.Cond)
		if s.Init != nil {
			t = "init; " + t
		}
		return "?" + t
	}
	if s.Init == nil {
		switch srcText(s.Cond) {
		case "errors.Is(err, net.ErrClosed)":
			return "closed"
		case "!errors.Is(err, net.ErrClosed)":
			return "!closed"
		}
		return unknown()
	}
	as, ok := s.Init.(*ast.AssignStmt)
	if !ok || as.Tok != token.DEFINE || len(as.Lhs) != 2 || len(as.Rhs) != 1 {
		return unknown()
	}
	v, ok1 := as.Lhs[0].(*ast.Ident)
	okv, ok2 := as.Lhs[1].(*ast.Ident)
	ta, ok3 := as.Rhs[0].(*ast.TypeAssertExpr)
	if !ok1 || !ok2 || !ok3 || srcText(ta.X) != "err" || ta.Type == nil {
		return unknown()
	}
	kind := ""
	switch t := ta.Type.(type) {
	case *ast.InterfaceType:
		if t.Methods != nil && len(t.Methods.List) == 1 && len(t.Methods.List[0].Names) == 1 {
			m := t.Methods.List[0]
			if srcText(m.Type) == "func() bool" {
				kind = "iface:" + m.Names[0].Name
			}
		}
	case *ast.SelectorExpr:
		if srcText(t) == "net.Error" {
			kind = "net"
		}
	}
	be, ok := s.Cond.(*ast.BinaryExpr)
	if kind == "" || !ok || be.Op != token.LAND || srcText(be.X) != okv.Name {
		return unknown()
	}
	call, ok := be.Y.(*ast.CallExpr)
	if !ok || len(call.Args) != 0 {
		return unknown()
	}
	sel, ok := call.Fun.(*ast.SelectorExpr)
	if !ok || srcText(sel.X) != v.Name {
		return unknown()
	}
	m := sel.Sel.Name
	switch {
	case kind == "iface:Temporary" && m == "Temporary":
		return "temporary"
	case kind == "iface:Timeout" && m == "Timeout":
		return "timeout"
	case kind == "net" && m == "Temporary":
		return "net-temporary"
	case kind == "net" && m == "Timeout":
		return "net-timeout"
	}
	return unknown()
}

func acceptStrList(xs []string) string {
	qs := make([]string, len(xs))
	for i, x := range xs {
		qs[i] = strconv.Quote(x)
	}
	return "[" + strings.Join(qs, "; ") + "]"
}

func genAcceptTable(repo string) (string, error) {
	p, err := loadPkg(repo, "internal/protocol")
	if err != nil {
		return "", err
	}
	fd := p.funcDecl("TCPServer")
	if fd == nil || fd.Body == nil {
		return "", fmt.Errorf("protocol.TCPServer not found")
	}
	var loop *ast.ForStmt
	var after []ast.Stmt
	for i, st := range fd.Body.List {
		if f, ok := st.(*ast.ForStmt); ok {
			if loop != nil {
				return "", fmt.Errorf("TCPServer: more than one loop")
			}
			loop = f
			after = fd.Body.List[i+1:]
		}
	}
	if loop == nil {
		return "", fmt.Errorf("TCPServer: no accept loop found")
	}
	if loop.Init != nil || loop.Cond != nil || loop.Post != nil {
		return "", fmt.Errorf("TCPServer: the accept loop has a condition")
	}
	body := loop.Body.List
	if len(body) < 2 {
		return "", fmt.Errorf("TCPServer: accept loop body not recognised")
	}
	as, ok := body[0].(*ast.AssignStmt)
	if !ok || len(as.Lhs) != 2 || len(as.Rhs) != 1 || srcText(as.Lhs[1]) != "err" {
		return "", fmt.Errorf("TCPServer: the loop does not start with `conn, err := ...Accept()`")
	}
	acc, ok := as.Rhs[0].(*ast.CallExpr)
	if !ok {
		return "", fmt.Errorf("TCPServer: the loop does not start with a call")
	}
	connVar := srcText(as.Lhs[0])
	guard, ok := body[1].(*ast.IfStmt)
	if !ok || guard.Init != nil || guard.Else != nil || srcText(guard.Cond) != "err != nil" {
		return "", fmt.Errorf("TCPServer: the Accept call is not followed by `if err != nil { ... }`")
	}

	type branch struct{ cond, act string }
	var branches []branch
	var rest []ast.Stmt
	for i, st := range guard.Body.List {
		if is, ok := st.(*ast.IfStmt); ok {
			c := acceptCond(is)
			if is.Else != nil {
				c = "?else:" + c
			}
			branches = append(branches, branch{c, strings.Join(acceptStmtTokens(is.Body.List), "+")})
			continue
		}
		rest = guard.Body.List[i:]
		break
	}
	deflt := strings.Join(acceptStmtTokens(rest), "+")
	if deflt == "" {
		deflt = "fallthrough-to-serve"
	}

	var sb strings.Builder
	sb.WriteString("From Coq Require Import List String.\nImport ListNotations.\nLocal Open Scope string_scope.\n\n")
	sb.WriteString("(* protocol.TCPServer: the call whose results the loop consumes, and the name of the accepted connection *)\n")
	fmt.Fprintf(&sb, "Definition accept_call : string := %q.\nDefinition accept_conn_var : string := %q.\n\n", srcText(acc.Fun), connVar)
	sb.WriteString("(* the error branch: (condition, action) in source order; the action when none holds *)\n")
	sb.WriteString("Definition accept_err_branches : list (string * string) :=\n  [")
	for i, b := range branches {
		if i > 0 {
			sb.WriteString("; ")
		}
		fmt.Fprintf(&sb, "(%q, %q)", b.cond, b.act)
	}
	sb.WriteString("].\n")
	fmt.Fprintf(&sb, "Definition accept_err_default : string := %q.\n\n", deflt)
	sb.WriteString("(* what is done with an accepted connection *)\n")
	fmt.Fprintf(&sb, "Definition accept_ok_steps : list string := %s.\n\n", acceptStrList(acceptStmtTokens(body[2:])))
	sb.WriteString("(* after the loop *)\n")
	fmt.Fprintf(&sb, "Definition accept_after_loop : list string := %s.\n", acceptStrList(acceptStmtTokens(after)))

	// who runs the loop: every call of protocol.TCPServer in nsqd and nsqlookupd, with its first argument
	var users []string
	for _, dir := range []string{"nsqd", "nsqlookupd"} {
		q, err := loadPkg(repo, dir)
		if err != nil {
			return "", err
		}
		for _, fn := range q.fileNames() {
			ast.Inspect(q.files[fn], func(n ast.Node) bool {
				c, ok := n.(*ast.CallExpr)
				if ok && srcText(c.Fun) == "protocol.TCPServer" && len(c.Args) > 0 {
					users = append(users, fmt.Sprintf("(%q, %q)", dir, srcText(c.Args[0])))
				}
				return true
			})
		}
	}
	sb.WriteString("\n(* the callers of protocol.TCPServer: (package, listener argument) *)\n")
	fmt.Fprintf(&sb, "Definition accept_loop_users : list (string * string) := [%s].\n", strings.Join(users, "; "))
	return sb.String(), nil
}
