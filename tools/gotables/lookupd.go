package main

// Emitter for coq/gen/LookupdTables.v (C14, C15): what nsqlookupd's source says *now*
// about its HTTP route table, the V1 Exec dispatch table, and the ordered
// guard / call summaries of the handlers the Lookupd / LookupProto models transcribe.
// go/ast only; nothing is evaluated.

import (
	"bytes"
	"fmt"
	"go/ast"
	"go/printer"
	"go/token"
	"strconv"
	"strings"
)

func init() { register("LookupdTables.v", genLookupdTables) }

func lkCoqStr(s string) string { return "\"" + strings.ReplaceAll(s, "\"", "\"\"") + "\"" }

func lkExprText(fset *token.FileSet, e ast.Node) string {
	var b bytes.Buffer
	printer.Fprint(&b, fset, e)
	return strings.Join(strings.Fields(b.String()), " ")
}

func lkCallee(c *ast.CallExpr) string {
	switch f := c.Fun.(type) {
	case *ast.Ident:
		return f.Name
	case *ast.SelectorExpr:
		if id, ok := f.X.(*ast.Ident); ok {
			switch id.Name {
			case "binary", "io", "json", "protocol", "http_api", "pprof":
				return id.Name + "." + f.Sel.Name
			}
		}
		return f.Sel.Name
	}
	return ""
}

// lkRefusal: the code a `return` statement refuses with, if it has the shape
// `return ..., protocol.NewFatalClientErr(_, "CODE", _)` or `return ..., http_api.Err{N, _}`.
func lkRefusal(st ast.Stmt) (string, bool) {
	rs, ok := st.(*ast.ReturnStmt)
	if !ok {
		return "", false
	}
	for _, r := range rs.Results {
		switch x := r.(type) {
		case *ast.CallExpr:
			if lkCallee(x) == "protocol.NewFatalClientErr" && len(x.Args) >= 2 {
				if bl, ok := x.Args[1].(*ast.BasicLit); ok && bl.Kind == token.STRING {
					s, _ := strconv.Unquote(bl.Value)
					return s, true
				}
			}
		case *ast.CompositeLit:
			if lkSelText(x.Type) == "http_api.Err" && len(x.Elts) >= 1 {
				if bl, ok := x.Elts[0].(*ast.BasicLit); ok && bl.Kind == token.INT {
					return bl.Value, true
				}
			}
		}
	}
	return "", false
}

func lkSelText(e ast.Expr) string {
	if se, ok := e.(*ast.SelectorExpr); ok {
		if id, ok := se.X.(*ast.Ident); ok {
			return id.Name + "." + se.Sel.Name
		}
	}
	return ""
}

// lkSummarize lists, in source order, the refusing guards ("if COND => CODE") and the
// calls to the named functions ("call NAME") of a function body.
func lkSummarize(fset *token.FileSet, body ast.Node, calls map[string]bool) []string {
	var ev []string
	ast.Inspect(body, func(n ast.Node) bool {
		switch x := n.(type) {
		case *ast.IfStmt:
			if len(x.Body.List) > 0 {
				if code, ok := lkRefusal(x.Body.List[len(x.Body.List)-1]); ok {
					ev = append(ev, "if "+lkExprText(fset, x.Cond)+" => "+code)
					// calls inside the condition are still of interest
					ast.Inspect(x.Cond, func(m ast.Node) bool {
						if c, ok := m.(*ast.CallExpr); ok && calls[lkCallee(c)] {
							ev = append(ev, "call "+lkCallee(c))
						}
						return true
					})
					if x.Init != nil {
						ev = append(ev, lkSummarize(fset, x.Init, calls)...)
					}
					return false
				}
			}
		case *ast.CallExpr:
			if calls[lkCallee(x)] {
				ev = append(ev, "call "+lkCallee(x))
			}
		case *ast.FuncLit:
			return false
		}
		return true
	})
	return ev
}

// lkPeerInfoWrites: assignments / definitions whose left side is peerInfo, a field of it or
// client.peerInfo, and calls that receive &peerInfo or the address of one of its fields.
func lkPeerInfoWrites(fset *token.FileSet, body ast.Node) []string {
	mentions := func(e ast.Expr) bool {
		t := lkExprText(fset, e)
		return t == "peerInfo" || strings.HasPrefix(t, "peerInfo.") || t == "client.peerInfo" || strings.HasPrefix(t, "client.peerInfo.")
	}
	var ev []string
	var stack []ast.Node // the nodes being visited, to name the conditions a write sits under
	under := func() string {
		out := ""
		for _, n := range stack {
			switch x := n.(type) {
			case *ast.IfStmt:
				out += "if " + lkExprText(fset, x.Cond) + ": "
			case *ast.ForStmt, *ast.RangeStmt, *ast.SwitchStmt, *ast.TypeSwitchStmt, *ast.SelectStmt:
				out += "nested: "
			}
		}
		return out
	}
	ast.Inspect(body, func(n ast.Node) bool {
		if n == nil {
			stack = stack[:len(stack)-1]
			return true
		}
		switch x := n.(type) {
		case *ast.AssignStmt:
			for _, l := range x.Lhs {
				if mentions(l) {
					ev = append(ev, under()+lkExprText(fset, x))
					break
				}
			}
		case *ast.IncDecStmt:
			if mentions(x.X) {
				ev = append(ev, under()+lkExprText(fset, x))
			}
		case *ast.CallExpr:
			for _, a := range x.Args {
				if u, ok := a.(*ast.UnaryExpr); ok && u.Op == token.AND && mentions(u.X) {
					ev = append(ev, under()+"call "+lkCallee(x)+"("+lkExprText(fset, a)+")")
				}
			}
		case *ast.FuncLit:
			return false
		}
		stack = append(stack, n)
		return true
	})
	return ev
}

func lkStrList(name string, l []string) string {
	var sb strings.Builder
	fmt.Fprintf(&sb, "Definition %s : list string :=\n  [", name)
	for i, s := range l {
		if i > 0 {
			sb.WriteString(";\n   ")
		}
		sb.WriteString(lkCoqStr(s))
	}
	sb.WriteString("].\n\n")
	return sb.String()
}

func genLookupdTables(repo string) (string, error) {
	p, err := loadPkg(repo, "nsqlookupd")
	if err != nil {
		return "", err
	}
	var sb strings.Builder
	sb.WriteString("From Coq Require Import List String.\nImport ListNotations.\nOpen Scope string_scope.\n\n")

	// ---- HTTP routes: router.Handle / HandlerFunc / Handler (method, path, handler)
	nh := p.funcDecl("newHTTPServer")
	if nh == nil {
		return "", fmt.Errorf("newHTTPServer not found")
	}
	type route struct{ m, path, h string }
	var routes []route
	var rerr error
	ast.Inspect(nh.Body, func(n ast.Node) bool {
		c, ok := n.(*ast.CallExpr)
		if !ok {
			return true
		}
		sel, ok := c.Fun.(*ast.SelectorExpr)
		if !ok {
			return true
		}
		if id, ok := sel.X.(*ast.Ident); !ok || id.Name != "router" {
			return true
		}
		if sel.Sel.Name != "Handle" && sel.Sel.Name != "HandlerFunc" && sel.Sel.Name != "Handler" {
			return true
		}
		if len(c.Args) != 3 {
			rerr = fmt.Errorf("route registration with %d arguments", len(c.Args))
			return false
		}
		ml, ok1 := c.Args[0].(*ast.BasicLit)
		pl, ok2 := c.Args[1].(*ast.BasicLit)
		if !ok1 || !ok2 {
			rerr = fmt.Errorf("route registration with non-literal method/path")
			return false
		}
		m, _ := strconv.Unquote(ml.Value)
		path, _ := strconv.Unquote(pl.Value)
		h := ""
		switch a := c.Args[2].(type) {
		case *ast.CallExpr:
			switch lkCallee(a) {
			case "http_api.Decorate":
				if len(a.Args) > 0 {
					if s, ok := a.Args[0].(*ast.SelectorExpr); ok {
						h = s.Sel.Name
					}
				}
				// the decorators decide the error-to-status mapping
				var ds []string
				for _, d := range a.Args[1:] {
					ds = append(ds, lkExprText(p.fset, d))
				}
				h = h + "|" + strings.Join(ds, ",")
			case "pprof.Handler":
				h = "pprof"
			}
		case *ast.SelectorExpr:
			if id, ok := a.X.(*ast.Ident); ok && id.Name == "pprof" {
				h = "pprof"
			}
		}
		if h == "" {
			rerr = fmt.Errorf("route %s %s: unrecognised handler expression", m, path)
			return false
		}
		routes = append(routes, route{m, path, h})
		return true
	})
	if rerr != nil {
		return "", rerr
	}
	sb.WriteString("(* nsqlookupd/http.go newHTTPServer: (method, path, handler|decorators) in source order *)\n")
	sb.WriteString("Definition lookupd_routes : list (string * string * string) :=\n  [")
	for i, r := range routes {
		if i > 0 {
			sb.WriteString(";\n   ")
		}
		fmt.Fprintf(&sb, "(%s, %s, %s)", lkCoqStr(r.m), lkCoqStr(r.path), lkCoqStr(r.h))
	}
	sb.WriteString("].\n\n")
	// router settings that decide 405 / OPTIONS behaviour
	var settings []string
	ast.Inspect(nh.Body, func(n ast.Node) bool {
		as, ok := n.(*ast.AssignStmt)
		if !ok || len(as.Lhs) != 1 {
			return true
		}
		if s, ok := as.Lhs[0].(*ast.SelectorExpr); ok {
			if id, ok := s.X.(*ast.Ident); ok && id.Name == "router" {
				if id2, ok := as.Rhs[0].(*ast.Ident); ok {
					settings = append(settings, s.Sel.Name+"="+id2.Name)
				}
			}
		}
		return true
	})
	sb.WriteString(lkStrList("lookupd_router_settings", settings))

	// ---- Exec dispatch
	ex := p.method("LookupProtocolV1", "Exec")
	if ex == nil {
		return "", fmt.Errorf("LookupProtocolV1.Exec not found")
	}
	type disp struct{ cmd, method, args string }
	var table []disp
	deflt := ""
	for _, st := range ex.Body.List {
		switch x := st.(type) {
		case *ast.SwitchStmt:
			if lkExprText(p.fset, x.Tag) != "params[0]" {
				return "", fmt.Errorf("Exec switches on %s", lkExprText(p.fset, x.Tag))
			}
			for _, cc := range x.Body.List {
				cl := cc.(*ast.CaseClause)
				if len(cl.List) == 0 {
					return "", fmt.Errorf("Exec has a default clause")
				}
				for _, e := range cl.List {
					bl, ok := e.(*ast.BasicLit)
					if !ok {
						return "", fmt.Errorf("non-literal case in Exec")
					}
					cmd, _ := strconv.Unquote(bl.Value)
					if len(cl.Body) != 1 {
						return "", fmt.Errorf("case %s: body is not a single return", cmd)
					}
					rs, ok := cl.Body[0].(*ast.ReturnStmt)
					if !ok || len(rs.Results) != 1 {
						return "", fmt.Errorf("case %s: body is not a single return", cmd)
					}
					call, ok := rs.Results[0].(*ast.CallExpr)
					if !ok {
						return "", fmt.Errorf("case %s: not a call", cmd)
					}
					var as []string
					for _, a := range call.Args {
						as = append(as, lkExprText(p.fset, a))
					}
					table = append(table, disp{cmd, lkCallee(call), strings.Join(as, ",")})
				}
			}
		case *ast.ReturnStmt:
			if code, ok := lkRefusal(x); ok {
				deflt = code
			}
		}
	}
	sb.WriteString("(* lookup_protocol_v1.go Exec: (params[0] literal, handler, arguments); then the fall-through refusal *)\n")
	sb.WriteString("Definition lookupd_exec : list (string * string * string) :=\n  [")
	for i, d := range table {
		if i > 0 {
			sb.WriteString(";\n   ")
		}
		fmt.Fprintf(&sb, "(%s, %s, %s)", lkCoqStr(d.cmd), lkCoqStr(d.method), lkCoqStr(d.args))
	}
	sb.WriteString("].\n")
	fmt.Fprintf(&sb, "Definition lookupd_exec_default : string := %s.\n\n", lkCoqStr(deflt))

	// ---- handler summaries
	dbcalls := map[string]bool{"AddProducer": true, "AddRegistration": true, "RemoveProducer": true, "RemoveRegistration": true,
		"FindRegistrations": true, "FindProducers": true, "LookupRegistrations": true, "FilterByActive": true, "Tombstone": true,
		"binary.Read": true, "make": true, "io.ReadFull": true, "json.Unmarshal": true, "getTopicChan": true,
		"http_api.GetTopicChannelArgs": true, "http_api.NewReqParams": true, "Get": true,
		"protocol.IsValidTopicName": true, "protocol.IsValidChannelName": true, "HasSuffix": true}
	for _, m := range []string{"IDENTIFY", "REGISTER", "UNREGISTER", "PING"} {
		fd := p.method("LookupProtocolV1", m)
		if fd == nil {
			return "", fmt.Errorf("LookupProtocolV1.%s not found", m)
		}
		sb.WriteString(lkStrList("lookupd_"+m+"_summary", lkSummarize(p.fset, fd.Body, dbcalls)))
	}
	gtc := p.funcDecl("getTopicChan")
	if gtc == nil {
		return "", fmt.Errorf("getTopicChan not found")
	}
	sb.WriteString(lkStrList("lookupd_getTopicChan_summary", lkSummarize(p.fset, gtc.Body, dbcalls)))

	// IOLoop: what happens after the read loop (the exit path), and the read/split calls
	io := p.method("LookupProtocolV1", "IOLoop")
	if io == nil {
		return "", fmt.Errorf("IOLoop not found")
	}
	var after []string
	seenLoop := false
	for _, st := range io.Body.List {
		if _, ok := st.(*ast.ForStmt); ok {
			seenLoop = true
			continue
		}
		if seenLoop {
			if is, ok := st.(*ast.IfStmt); ok {
				after = append(after, "if "+lkExprText(p.fset, is.Cond))
			}
			after = append(after, lkSummarize(p.fset, st, dbcalls)...)
		}
	}
	sb.WriteString(lkStrList("lookupd_IOLoop_exit_summary", after))
	sb.WriteString(lkStrList("lookupd_IOLoop_read_summary", lkSummarize(p.fset, io.Body,
		map[string]bool{"ReadString": true, "TrimSpace": true, "Split": true, "Exec": true})))

	for _, h := range []string{"doCreateTopic", "doDeleteTopic", "doCreateChannel", "doDeleteChannel", "doTombstoneTopicProducer",
		"doLookup", "doChannels", "doTopics", "doNodes"} {
		fd := p.method("httpServer", h)
		if fd == nil {
			return "", fmt.Errorf("httpServer.%s not found", h)
		}
		sb.WriteString(lkStrList("lookupd_"+h+"_summary", lkSummarize(p.fset, fd.Body, dbcalls)))
	}

	// ---- identity of a connection in the registry (C15): every statement of IDENTIFY that
	// writes peerInfo (or a field of it, or client.peerInfo), in source order, with the place
	// of json.Unmarshal between them; and the full text of every registry call of the
	// connection handlers that takes the connection's identity
	sb.WriteString(lkStrList("lookupd_IDENTIFY_peerinfo_writes", lkPeerInfoWrites(p.fset, p.method("LookupProtocolV1", "IDENTIFY").Body)))
	var uses []string
	for _, m := range []string{"IDENTIFY", "REGISTER", "UNREGISTER", "IOLoop"} {
		ast.Inspect(p.method("LookupProtocolV1", m).Body, func(n ast.Node) bool {
			if c, ok := n.(*ast.CallExpr); ok {
				switch lkCallee(c) {
				case "AddProducer", "RemoveProducer", "LookupRegistrations":
					var as []string
					for _, a := range c.Args {
						as = append(as, lkExprText(p.fset, a))
					}
					uses = append(uses, m+": "+lkCallee(c)+"("+strings.Join(as, ", ")+")")
				}
			}
			return true
		})
	}
	sb.WriteString(lkStrList("lookupd_identity_uses", uses))

	// ---- the two comparisons of FilterByActive / IsTombstoned
	fa := p.method("Producers", "FilterByActive")
	it := p.method("Producer", "IsTombstoned")
	if fa == nil || it == nil {
		return "", fmt.Errorf("FilterByActive / IsTombstoned not found")
	}
	cond := ""
	ast.Inspect(fa.Body, func(n ast.Node) bool {
		if is, ok := n.(*ast.IfStmt); ok && cond == "" {
			cond = lkExprText(p.fset, is.Cond)
		}
		return true
	})
	ret := ""
	for _, st := range it.Body.List {
		if rs, ok := st.(*ast.ReturnStmt); ok && len(rs.Results) == 1 {
			ret = lkExprText(p.fset, rs.Results[0])
		}
	}
	fmt.Fprintf(&sb, "Definition lookupd_filter_skip_cond : string := %s.\n", lkCoqStr(cond))
	fmt.Fprintf(&sb, "Definition lookupd_is_tombstoned_expr : string := %s.\n", lkCoqStr(ret))

	// ---- the protocol magic accepted by tcp.go
	th := p.method("tcpServer", "Handle")
	if th == nil {
		return "", fmt.Errorf("tcpServer.Handle not found")
	}
	var magics []string
	ast.Inspect(th.Body, func(n ast.Node) bool {
		if sw, ok := n.(*ast.SwitchStmt); ok && lkExprText(p.fset, sw.Tag) == "protocolMagic" {
			for _, cc := range sw.Body.List {
				for _, e := range cc.(*ast.CaseClause).List {
					if bl, ok := e.(*ast.BasicLit); ok {
						s, _ := strconv.Unquote(bl.Value)
						magics = append(magics, s)
					}
				}
			}
		}
		return true
	})
	sb.WriteString(lkStrList("lookupd_magics", magics))
	// ---- the control skeleton of Handle (log calls left out): what happens on a short read,
	// in every clause of the magic switch (the refusal must END the function: what follows the
	// switch calls prot.NewClient, and prot is nil after the default clause) and after it
	sb.WriteString(lkStrList("lookupd_Handle_shape", lkShape(p.fset, th.Body.List)))
	return sb.String(), nil
}

// lkShape: statements as "call f" / "set x" / "return" / "if c {" ... "}" / "switch t {"
// "case ...:" / "default:" ... "}"; calls of logf are skipped, declarations too.
func lkShape(fset *token.FileSet, l []ast.Stmt) []string {
	var out []string
	callOf := func(e ast.Expr) (string, bool) {
		if u, ok := e.(*ast.UnaryExpr); ok {
			e = u.X
		}
		c, ok := e.(*ast.CallExpr)
		if !ok {
			return "", false
		}
		name := lkCallee(c)
		for _, a := range c.Args { // the code a SendResponse carries
			if cv, ok := a.(*ast.CallExpr); ok && len(cv.Args) == 1 {
				if bl, ok := cv.Args[0].(*ast.BasicLit); ok && bl.Kind == token.STRING {
					sv, _ := strconv.Unquote(bl.Value)
					name += " " + sv
				}
			}
		}
		return name, true
	}
	for _, st := range l {
		switch x := st.(type) {
		case *ast.ExprStmt:
			if n, ok := callOf(x.X); ok {
				if n != "logf" {
					out = append(out, "call "+n)
				}
			} else {
				out = append(out, "expr "+lkExprText(fset, x.X))
			}
		case *ast.AssignStmt:
			if n, ok := callOf(x.Rhs[0]); ok && len(x.Rhs) == 1 {
				out = append(out, "call "+n)
			} else {
				var ls []string
				for _, e := range x.Lhs {
					ls = append(ls, lkExprText(fset, e))
				}
				out = append(out, "set "+strings.Join(ls, ","))
			}
		case *ast.ReturnStmt:
			out = append(out, "return")
		case *ast.IfStmt:
			out = append(out, "if "+lkExprText(fset, x.Cond)+" {")
			out = append(out, lkShape(fset, x.Body.List)...)
			if x.Else != nil {
				out = append(out, "} else {")
				if b, ok := x.Else.(*ast.BlockStmt); ok {
					out = append(out, lkShape(fset, b.List)...)
				} else {
					out = append(out, lkShape(fset, []ast.Stmt{x.Else})...)
				}
			}
			out = append(out, "}")
		case *ast.SwitchStmt:
			out = append(out, "switch "+lkExprText(fset, x.Tag)+" {")
			for _, cc := range x.Body.List {
				cl := cc.(*ast.CaseClause)
				if len(cl.List) == 0 {
					out = append(out, "default:")
				} else {
					var es []string
					for _, e := range cl.List {
						if bl, ok := e.(*ast.BasicLit); ok {
							es = append(es, bl.Value) // literally (lkExprText folds blanks)
						} else {
							es = append(es, lkExprText(fset, e))
						}
					}
					out = append(out, "case "+strings.Join(es, ",")+":")
				}
				out = append(out, lkShape(fset, cl.Body)...)
			}
			out = append(out, "}")
		case *ast.DeclStmt:
		default:
			out = append(out, "stmt "+lkExprText(fset, st))
		}
	}
	return out
}
