package main

// coreshape.go: statement skeletons of the nsqd core functions whose ORDER of effects the
// core model (coq/model/Core.v) relies on: which call comes before which, under which
// guard, inside or outside which loop.  For every listed function the body is flattened in
// source order into a list of tokens:
//
//	"if <cond> {"  "} else {"  "}"  "for {"  "range <x> {"  "select {"  "switch <tag> {"
//	"case <comm or exprs>:"  "default:"  "call <callee>"  "set <lhs>=<rhs>"  "set <lhs>+="  "inc <x>"
//	"var <name>"  "defer <callee>"  "go <callee>"  "return"  "goto <l>"  "continue"  "break"
//	"label <l>:"
//
// Logging (`*.logf`) and the verif hook calls (`verifPoint`) are left out, so adding a log
// line or a hook changes nothing.  coq/proofs/CoreSrc.v states, as theorems about these
// generated lists, the facts the model assumes (e.g. "the consumer pump registers a
// message in flight before it writes it"): a source change that reorders, drops or
// conditions one of these effects breaks that proof obligation.

import (
	"bytes"
	"fmt"
	"go/ast"
	"go/printer"
	"go/token"
	"sort"
	"strings"
)

type shapeFn struct {
	recv, name string
}

var coreShapeFns = []shapeFn{
	{"protocolV2", "messagePump"},
	{"protocolV2", "FIN"}, {"protocolV2", "REQ"}, {"protocolV2", "TOUCH"}, {"protocolV2", "CLS"},
	{"protocolV2", "SendMessage"},
	{"Channel", "put"}, {"Channel", "PutMessage"}, {"Channel", "PutMessageDeferred"},
	{"Channel", "StartInFlightTimeout"}, {"Channel", "StartDeferredTimeout"},
	{"Channel", "FinishMessage"}, {"Channel", "RequeueMessage"}, {"Channel", "TouchMessage"},
	{"Channel", "pushInFlightMessage"}, {"Channel", "popInFlightMessage"},
	{"Channel", "processInFlightQueue"}, {"Channel", "processDeferredQueue"},
	{"Channel", "flush"}, {"Channel", "exit"}, {"Channel", "Empty"}, {"Channel", "empty"},
	{"Channel", "AddClient"}, {"Channel", "RemoveClient"},
	{"Topic", "messagePump"}, {"Topic", "put"}, {"Topic", "PutMessage"}, {"Topic", "PutMessages"},
	{"Topic", "flush"}, {"Topic", "exit"}, {"Topic", "GetChannel"}, {"Topic", "DeleteExistingChannel"},
	{"NSQD", "GetTopic"}, {"NSQD", "DeleteExistingTopic"}, {"NSQD", "Exit"},
	{"clientV2", "SetReadyCount"}, {"clientV2", "IsReadyForMessages"},
	{"clientV2", "SendingMessage"}, {"clientV2", "FinishedMessage"}, {"clientV2", "TimedOutMessage"},
	{"clientV2", "RequeuedMessage"}, {"clientV2", "StartClose"},
	{"protocolV2", "NewClient"}, {"Channel", "doPause"}, {"Topic", "doPause"},
	{"Channel", "popDeferredMessage"}, {"Channel", "pushDeferredMessage"},
	{"Channel", "addToInFlightPQ"}, {"Channel", "addToDeferredPQ"},
	{"clientV2", "Empty"}, {"Channel", "initPQ"},
}

func init() {
	register("CoreShape.v", emitCoreShape)
}

func exprText(fset *token.FileSet, e ast.Node) string {
	var b bytes.Buffer
	printer.Fprint(&b, fset, e)
	return strings.Join(strings.Fields(b.String()), " ")
}

type shaper struct {
	fset *token.FileSet
	out  []string
}

func (s *shaper) emit(t string) { s.out = append(s.out, t) }

func skipCallee(name string) bool {
	return name == "verifPoint" || strings.HasSuffix(name, ".logf") || name == "len" || name == "cap" ||
		name == "make" || name == "append" || name == "new" || name == "panic" || name == "string" ||
		name == "int64" || name == "uint64" || name == "int32" || name == "int" || name == "byte"
}

// calls in an expression / statement fragment, in source order
func (s *shaper) calls(n ast.Node) {
	if n == nil {
		return
	}
	ast.Inspect(n, func(x ast.Node) bool {
		switch c := x.(type) {
		case *ast.FuncLit:
			s.emit("func {")
			s.block(c.Body)
			s.emit("}")
			return false
		case *ast.CallExpr:
			name := exprText(s.fset, c.Fun)
			if _, isLit := c.Fun.(*ast.FuncLit); isLit {
				return true
			}
			// arguments first (they are evaluated first)
			for _, a := range c.Args {
				s.calls(a)
			}
			if sel, ok := c.Fun.(*ast.SelectorExpr); ok {
				s.calls(sel.X)
			}
			if !skipCallee(name) {
				s.emit("call " + name)
			}
			return false
		}
		return true
	})
}

func simpleRHS(e ast.Expr) bool {
	switch x := e.(type) {
	case *ast.Ident, *ast.BasicLit:
		return true
	case *ast.SelectorExpr:
		return simpleRHS(x.X)
	case *ast.UnaryExpr:
		return simpleRHS(x.X)
	}
	return false
}

func (s *shaper) stmt(st ast.Stmt) {
	switch x := st.(type) {
	case nil:
	case *ast.BlockStmt:
		s.block(x)
	case *ast.ExprStmt:
		s.calls(x.X)
	case *ast.AssignStmt:
		for _, r := range x.Rhs {
			s.calls(r)
		}
		if x.Tok != token.ASSIGN && x.Tok != token.DEFINE {
			// += and friends: an accumulation whose place in the order matters
			for i := range x.Lhs {
				s.emit("set " + exprText(s.fset, x.Lhs[i]) + x.Tok.String())
			}
		} else if len(x.Lhs) == len(x.Rhs) {
			for i := range x.Lhs {
				if simpleRHS(x.Rhs[i]) {
					s.emit("set " + exprText(s.fset, x.Lhs[i]) + "=" + exprText(s.fset, x.Rhs[i]))
				}
			}
		}
	case *ast.IncDecStmt:
		s.emit("inc " + exprText(s.fset, x.X) + x.Tok.String())
	case *ast.DeclStmt:
		if gd, ok := x.Decl.(*ast.GenDecl); ok {
			for _, sp := range gd.Specs {
				if vs, ok := sp.(*ast.ValueSpec); ok {
					for _, v := range vs.Values {
						s.calls(v)
					}
					for _, n := range vs.Names {
						s.emit("var " + n.Name)
					}
				}
			}
		}
	case *ast.DeferStmt:
		s.emit("defer " + exprText(s.fset, x.Call.Fun))
	case *ast.GoStmt:
		if fl, ok := x.Call.Fun.(*ast.FuncLit); ok {
			s.emit("go func {")
			s.block(fl.Body)
			s.emit("}")
		} else {
			s.emit("go " + exprText(s.fset, x.Call.Fun))
		}
	case *ast.ReturnStmt:
		for _, r := range x.Results {
			s.calls(r)
		}
		s.emit("return")
	case *ast.BranchStmt:
		if x.Label != nil {
			s.emit(x.Tok.String() + " " + x.Label.Name)
		} else {
			s.emit(x.Tok.String())
		}
	case *ast.LabeledStmt:
		s.emit("label " + x.Label.Name + ":")
		s.stmt(x.Stmt)
	case *ast.IfStmt:
		s.stmt(x.Init)
		s.calls(x.Cond)
		s.emit("if " + exprText(s.fset, x.Cond) + " {")
		s.block(x.Body)
		if x.Else != nil {
			s.emit("} else {")
			s.stmt(x.Else)
		}
		s.emit("}")
	case *ast.ForStmt:
		s.stmt(x.Init)
		if x.Cond != nil {
			s.emit("for " + exprText(s.fset, x.Cond) + " {")
		} else {
			s.emit("for {")
		}
		s.block(x.Body)
		s.stmt(x.Post)
		s.emit("}")
	case *ast.RangeStmt:
		s.calls(x.X)
		s.emit("range " + exprText(s.fset, x.X) + " {")
		s.block(x.Body)
		s.emit("}")
	case *ast.SelectStmt:
		s.emit("select {")
		for _, c := range x.Body.List {
			cc := c.(*ast.CommClause)
			if cc.Comm == nil {
				s.emit("default:")
			} else {
				s.emit("case " + exprText(s.fset, cc.Comm) + ":")
			}
			for _, b := range cc.Body {
				s.stmt(b)
			}
		}
		s.emit("}")
	case *ast.SwitchStmt:
		s.stmt(x.Init)
		tag := ""
		if x.Tag != nil {
			s.calls(x.Tag)
			tag = exprText(s.fset, x.Tag)
		}
		s.emit("switch " + tag + " {")
		for _, c := range x.Body.List {
			cc := c.(*ast.CaseClause)
			if cc.List == nil {
				s.emit("default:")
			} else {
				var es []string
				for _, e := range cc.List {
					es = append(es, exprText(s.fset, e))
				}
				s.emit("case " + strings.Join(es, ", ") + ":")
			}
			for _, b := range cc.Body {
				s.stmt(b)
			}
		}
		s.emit("}")
	case *ast.TypeSwitchStmt:
		s.emit("typeswitch {")
		for _, c := range x.Body.List {
			cc := c.(*ast.CaseClause)
			s.emit("case:")
			for _, b := range cc.Body {
				s.stmt(b)
			}
		}
		s.emit("}")
	case *ast.SendStmt:
		s.calls(x.Value)
		s.emit("send " + exprText(s.fset, x.Chan))
	default:
		s.emit("stmt " + fmt.Sprintf("%T", st))
	}
}

func (s *shaper) block(b *ast.BlockStmt) {
	if b == nil {
		return
	}
	for _, st := range b.List {
		s.stmt(st)
	}
}

func shapeStr(t string) string {
	return "\"" + strings.ReplaceAll(t, "\"", "\"\"") + "\""
}

func emitCoreShape(repo string) (string, error) {
	p, err := loadPkg(repo, "nsqd")
	if err != nil {
		return "", err
	}
	var b strings.Builder
	b.WriteString("From Coq Require Import List String.\nImport ListNotations.\nOpen Scope string_scope.\n\n")
	b.WriteString("(* statement skeletons (source order) of the nsqd core functions the core model relies on;\n   logging and verif hooks left out.  See tools/gotables/coreshape.go for the token grammar. *)\n")
	var names []string
	for _, f := range coreShapeFns {
		fd := p.method(f.recv, f.name)
		if fd == nil || fd.Body == nil {
			return "", fmt.Errorf("core function %s.%s not found", f.recv, f.name)
		}
		s := &shaper{fset: p.fset}
		s.block(fd.Body)
		id := "shape_" + f.recv + "_" + f.name
		names = append(names, id)
		fmt.Fprintf(&b, "\nDefinition %s : list string :=\n  [ ", id)
		for i, t := range s.out {
			if i > 0 {
				b.WriteString("\n  ; ")
			}
			b.WriteString(shapeStr(t))
		}
		b.WriteString(" ].\n")
	}
	// every function of the package that moves a message between a channel's sets or into a
	// queue: which of the pop / push primitives it calls (by method name)
	touch := map[string]bool{"popInFlightMessage": true, "popDeferredMessage": true,
		"pushInFlightMessage": true, "pushDeferredMessage": true, "addToInFlightPQ": true, "addToDeferredPQ": true,
		"put": true, "StartDeferredTimeout": true, "StartInFlightTimeout": true, "writeMessageToBackend": true,
		"PutMessage": true, "PutMessages": true, "PutMessageDeferred": true}
	type touchEntry struct {
		name  string
		calls []string
	}
	var touches []touchEntry
	for _, fn := range p.fileNames() {
		for _, d := range p.files[fn].Decls {
			fd, ok := d.(*ast.FuncDecl)
			if !ok || fd.Body == nil {
				continue
			}
			name := fd.Name.Name
			if fd.Recv != nil && len(fd.Recv.List) > 0 {
				t := fd.Recv.List[0].Type
				if st, ok := t.(*ast.StarExpr); ok {
					t = st.X
				}
				if id, ok := t.(*ast.Ident); ok {
					name = id.Name + "_" + name
				}
			}
			seen := map[string]bool{}
			ast.Inspect(fd.Body, func(x ast.Node) bool {
				c, ok := x.(*ast.CallExpr)
				if !ok {
					return true
				}
				last := ""
				switch f := c.Fun.(type) {
				case *ast.SelectorExpr:
					last = f.Sel.Name
				case *ast.Ident:
					last = f.Name
				}
				if touch[last] {
					seen[last] = true
				}
				return true
			})
			if len(seen) == 0 {
				continue
			}
			var cs []string
			for c := range seen {
				cs = append(cs, c)
			}
			sort.Strings(cs)
			touches = append(touches, touchEntry{name, cs})
		}
	}
	sort.Slice(touches, func(i, j int) bool { return touches[i].name < touches[j].name })
	b.WriteString("\n(* every function of package nsqd that calls a pop / push / put primitive, with the ones it calls *)\nDefinition core_touches : list (string * list string) :=\n  [ ")
	for i, t := range touches {
		if i > 0 {
			b.WriteString("\n  ; ")
		}
		var qs []string
		for _, c := range t.calls {
			qs = append(qs, shapeStr(c))
		}
		fmt.Fprintf(&b, "(%s, [%s])", shapeStr(t.name), strings.Join(qs, "; "))
	}
	b.WriteString(" ].\n")
	b.WriteString("\nDefinition core_shapes : list (string * list string) :=\n  [ ")
	for i, n := range names {
		if i > 0 {
			b.WriteString("\n  ; ")
		}
		fmt.Fprintf(&b, "(%s, %s)", shapeStr(strings.TrimPrefix(n, "shape_")), n)
	}
	b.WriteString(" ].\n")
	return b.String(), nil
}
