module gotables

go 1.17
