package main

// relaycfg.go: regenerates coq/gen/RelayCfg.v (property C20, acknowledgement half) from
//   go.mod                          the go-nsq version the repository builds against
//   <module cache>/go-nsq@v/config.go   the `default:"…"` struct tag of Config.MaxAttempts
//   apps/nsq_to_nsq/nsq_to_nsq.go, apps/nsq_to_http/nsq_to_http.go
//                                   whether main() assigns <cfg>.MaxAttempts (it does not today:
//                                   the tools run with the client library's default)
//                                   and the status tests of PostPublisher / GetPublisher
// go/ast only; nothing is evaluated.

import (
	"fmt"
	"go/ast"
	"go/parser"
	"go/token"
	"os"
	"path/filepath"
	"reflect"
	"regexp"
	"strconv"
	"strings"
)

func init() { register("RelayCfg.v", genRelayCfg) }

func modCache() string {
	if d := os.Getenv("GOMODCACHE"); d != "" {
		return d
	}
	if d := os.Getenv("GOPATH"); d != "" {
		return filepath.Join(strings.Split(d, string(os.PathListSeparator))[0], "pkg", "mod")
	}
	h, _ := os.UserHomeDir()
	return filepath.Join(h, "go", "pkg", "mod")
}

// assignsField reports whether any statement in the file assigns to <x>.<field>.
func assignsField(path, field string) (bool, error) {
	fset := token.NewFileSet()
	f, err := parser.ParseFile(fset, path, nil, 0)
	if err != nil {
		return false, err
	}
	found := false
	ast.Inspect(f, func(n ast.Node) bool {
		if as, ok := n.(*ast.AssignStmt); ok {
			for _, l := range as.Lhs {
				if sel, ok := l.(*ast.SelectorExpr); ok && sel.Sel.Name == field {
					found = true
				}
			}
		}
		return true
	})
	return found, nil
}

// statusTest returns the source text of the condition of the `if` statement in
// method recv.Publish that mentions resp.StatusCode.
func statusTest(path, recv string) (string, error) {
	fset := token.NewFileSet()
	src, err := os.ReadFile(path)
	if err != nil {
		return "", err
	}
	f, err := parser.ParseFile(fset, path, src, 0)
	if err != nil {
		return "", err
	}
	out := ""
	for _, d := range f.Decls {
		fd, ok := d.(*ast.FuncDecl)
		if !ok || fd.Name.Name != "Publish" || fd.Recv == nil || len(fd.Recv.List) != 1 {
			continue
		}
		star, ok := fd.Recv.List[0].Type.(*ast.StarExpr)
		if !ok {
			continue
		}
		if id, ok := star.X.(*ast.Ident); !ok || id.Name != recv {
			continue
		}
		ast.Inspect(fd.Body, func(n ast.Node) bool {
			if is, ok := n.(*ast.IfStmt); ok {
				txt := string(src[fset.Position(is.Cond.Pos()).Offset:fset.Position(is.Cond.End()).Offset])
				if strings.Contains(txt, "StatusCode") {
					out = strings.Join(strings.Fields(txt), " ")
				}
			}
			return true
		})
	}
	if out == "" {
		return "", fmt.Errorf("%s.Publish: no status test found in %s", recv, path)
	}
	return out, nil
}

func genRelayCfg(repo string) (string, error) {
	gm, err := os.ReadFile(filepath.Join(repo, "go.mod"))
	if err != nil {
		return "", err
	}
	m := regexp.MustCompile(`(?m)^\s*github\.com/nsqio/go-nsq\s+(v\S+)`).FindSubmatch(gm)
	if m == nil {
		return "", fmt.Errorf("go.mod: no github.com/nsqio/go-nsq requirement")
	}
	ver := string(m[1])
	cfgPath := filepath.Join(modCache(), "github.com", "nsqio", "go-nsq@"+ver, "config.go")
	fset := token.NewFileSet()
	f, err := parser.ParseFile(fset, cfgPath, nil, 0)
	if err != nil {
		return "", fmt.Errorf("go-nsq %s config.go: %v", ver, err)
	}
	def := ""
	ast.Inspect(f, func(n ast.Node) bool {
		ts, ok := n.(*ast.TypeSpec)
		if !ok || ts.Name.Name != "Config" {
			return true
		}
		st, ok := ts.Type.(*ast.StructType)
		if !ok {
			return true
		}
		for _, fld := range st.Fields.List {
			for _, nm := range fld.Names {
				if nm.Name == "MaxAttempts" && fld.Tag != nil {
					tag, _ := strconv.Unquote(fld.Tag.Value)
					def = reflect.StructTag(tag).Get("default")
				}
			}
		}
		return false
	})
	n, err := strconv.ParseUint(def, 10, 16)
	if err != nil {
		return "", fmt.Errorf("go-nsq %s Config.MaxAttempts: default tag %q", ver, def)
	}
	a1, err := assignsField(filepath.Join(repo, "apps/nsq_to_nsq/nsq_to_nsq.go"), "MaxAttempts")
	if err != nil {
		return "", err
	}
	a2, err := assignsField(filepath.Join(repo, "apps/nsq_to_http/nsq_to_http.go"), "MaxAttempts")
	if err != nil {
		return "", err
	}
	post, err := statusTest(filepath.Join(repo, "apps/nsq_to_http/nsq_to_http.go"), "PostPublisher")
	if err != nil {
		return "", err
	}
	get, err := statusTest(filepath.Join(repo, "apps/nsq_to_http/nsq_to_http.go"), "GetPublisher")
	if err != nil {
		return "", err
	}
	b := func(x bool) string {
		if x {
			return "true"
		}
		return "false"
	}
	q := func(s string) string { return "\"" + strings.ReplaceAll(s, "\"", "\"\"") + "\"%string" }
	var sb strings.Builder
	sb.WriteString("From Coq Require Import String.\n")
	fmt.Fprintf(&sb, "(* go-nsq %s, Config.MaxAttempts `default:\"%s\"` *)\n", ver, def)
	fmt.Fprintf(&sb, "Definition go_nsq_version : string := %s.\n", q(ver))
	fmt.Fprintf(&sb, "Definition go_nsq_default_max_attempts : nat := %d.\n", n)
	fmt.Fprintf(&sb, "Definition nsq_to_nsq_assigns_max_attempts : bool := %s.\n", b(a1))
	fmt.Fprintf(&sb, "Definition nsq_to_http_assigns_max_attempts : bool := %s.\n", b(a2))
	fmt.Fprintf(&sb, "(* the error conditions of PostPublisher.Publish / GetPublisher.Publish, as written *)\n")
	fmt.Fprintf(&sb, "Definition post_error_test : string := %s.\n", q(post))
	fmt.Fprintf(&sb, "Definition get_error_test : string := %s.\n", q(get))
	return sb.String(), nil
}
