#!/usr/bin/env python3
# Regenerates /verif/MANIFEST.json from checks/*.py.  Properties without a plugin are
# listed under not_applicable with the reason given in tools/not_claimed.json.
import glob, importlib.util, json, os, subprocess
V = os.path.dirname(os.path.dirname(os.path.abspath(__file__)))
props = [json.loads(l)["id"] for l in open(os.path.join(V, "properties.jsonl")) if l.strip()]
# a property is claimed only once its check has been verified (by the orchestrator) to pass
# on the unchanged tree and to catch mutants: tools/claimed.json
CLAIMED = set(json.load(open(os.path.join(V, "tools", "claimed.json"))))
checks = []
claimed = set()
for pid in props:
    path = os.path.join(V, "checks", pid + ".py")
    if not os.path.exists(path) or pid not in CLAIMED:
        continue
    spec = importlib.util.spec_from_file_location("c" + pid, path)
    m = importlib.util.module_from_spec(spec); spec.loader.exec_module(m)
    claimed.add(pid)
    checks.append({
        "property_id": pid,
        "quick_cmd": "./check %s --tier quick" % pid,
        "thorough_cmd": "./check %s --tier thorough" % pid,
        "evidence_file": "/verif/evidence/%s.json" % pid,
        "replay_cmd_template": "./check %s --replay {path}" % pid,
        "engine": "coq-proof+correspondence",
        "level_claimed": {"category": "proof", "text": m.LEVEL_TEXT, "design_ref": getattr(m, "DESIGN_REF", "DESIGN.md §5")},
        "level_note": m.LEVEL_NOTE,
        "technique": m.TECHNIQUE,
    })
nc = json.load(open(os.path.join(V, "tools", "not_claimed.json")))
hooks = subprocess.run(["git", "-C", "/repo", "log", "--format=%H %s"], capture_output=True, text=True).stdout.splitlines()
hook_commits = [l.split()[0] for l in hooks if " verif hook" in l or l.split(" ", 1)[1].startswith("verif:")]
man = {
    "version": 1,
    "setup_cmd": "./setup.sh",
    "hooks": {
        "guard": "verif",
        "enable": "go build -tags verif (Go build tag; every hook file starts with //go:build verif)",
        "baseline_off_cmd": "cd /repo && go test -mod=mod -json -vet=off -count=1 -timeout 25m ./...",
        "source_commits": hook_commits,
        "add_only": True,
    },
    "engines": [{
        "name": "coq-proof+correspondence",
        "path": "/verif/check",
        "serves_properties": sorted(claimed),
        "kind_free_text": "Coq 8.16.1 models/theorems under /verif/coq (make, Print Assumptions, coqchk in the thorough tier); "
                          "translator /verif/tools/gotables regenerates coq/gen from /repo on every run; Go harness /verif/harness "
                          "drives the real code (-tags verif) and the recorded cases are judged inside coqc by vm_compute",
    }],
    "checks": checks,
    "not_applicable": [{"property_id": p, "reason": nc.get(p, "check not built yet (in progress; see DESIGN.md §8)")}
                       for p in props if p not in claimed],
    "notes": "All checks: exit 0 = held; exit 1 + 'VIOLATION property=<id> replay=<path>' otherwise; known findings in /verif/known_findings.json. "
             "VERIF_SEED seeds every random choice. Scratch data lives in a mktemp dir removed on exit.",
}
json.dump(man, open(os.path.join(V, "MANIFEST.json"), "w"), indent=1)
print("MANIFEST.json: %d checks, %d not claimed" % (len(checks), len(props) - len(claimed)))
