#!/bin/sh
# debugging aid: run coredrive and print, per case, the first event the model cannot
# replay and the monitor flags.  usage: corediag.sh <profile> <n> <ops> <seed>
export GOFLAGS=-mod=mod GOPROXY=off GOSUMDB=off GOTOOLCHAIN=local
D=$(mktemp -d); trap "rm -rf $D" EXIT
(cd /verif/harness && cp /repo/go.sum . && go build -tags verif -o $D/coredrive ./cmd/coredrive) || exit 1
VERIF_SCRATCH=$D timeout 600 $D/coredrive -profile "$1" -n "$2" -ops "$3" -seed "$4" $5 -out $D/out.jsonl || exit 1
python3 - "$D" <<'PY'
import json,sys,subprocess,re
D=sys.argv[1]
cases=[json.loads(l) for l in open(D+'/out.jsonl') if '"stat"' not in l[:10]]
body=["From Coq Require Import List NArith ZArith.","From NSQV Require Import model.Judge model.Core judge.CoreJudge.","Import ListNotations.","Open Scope N_scope."]
for i,c in enumerate(cases): body.append("Definition c%d := %s."%(i,c['coq']))
body.append("Definition R := Eval vm_compute in map diag [%s]."%";".join("c%d"%i for i in range(len(cases))))
body.append("Print R.")
body.append("Definition W := Eval vm_compute in map mon_where [%s]."%";".join("c%d"%i for i in range(len(cases))))
body.append("Print W.")
open(D+'/d.v','w').write("\n".join(body))
out=subprocess.run(["coqc","-noglob","-Q","/verif/coq","NSQV","d.v"],cwd=D,capture_output=True,text=True)
print(out.stdout[-3000:], out.stderr[-3000:])
txt=out.stdout.replace("%N","")
rpart,wpart=txt.split("W =") if "W =" in txt else (txt,"")
res=re.findall(r"\(\s*(\d+),\s*\[([^\]]*)\]\)", rpart)
import ast
wl=[]
try:
    wl=ast.literal_eval(re.sub(r";",",",wpart.split(":")[0].strip()))
except Exception as e:
    print("W parse",e, wpart[:300])
for i,(c,(idx,flags)) in enumerate(zip(cases,res)):
    idx=int(idx)
    if idx or flags.strip():
        ev=c['coq'].split(";\n")
        print("CASE",i,c['name'],"first-bad",idx,"flags",flags, c['obs'])
        if idx:
            for l in ev[max(0,idx-6):idx]: print("   ",l[:600])
        if i < len(wl):
            for (ei,pp) in wl[i][:3]:
                print("   MONITOR C%02d flagged at event %d:"%(pp,ei))
                for l in ev[max(0,ei-4):ei]: print("      ",l[:700])
json.dump(cases,open('/tmp/corediag_last.json','w'))
PY
