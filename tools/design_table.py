#!/usr/bin/env python3
"""Prints the rows of DESIGN.md 10.2 from the evidence files and the props files
(figures of the last run of each check).  Usage: python3 tools/design_table.py"""
import json, re, os, importlib.util
root = os.path.dirname(os.path.dirname(os.path.abspath(__file__)))
for i in range(1, 21):
    pid = "C%02d" % i
    ev = json.load(open(os.path.join(root, "evidence", pid + ".json")))
    props = open(os.path.join(root, "coq", "props", pid + ".v")).read()
    nthm = len(re.findall(r"^Theorem ", props, re.M))
    nex = len(re.findall(r"^Example ", props, re.M))
    spec = importlib.util.spec_from_file_location(pid, os.path.join(root, "checks", pid + ".py"))
    m = importlib.util.module_from_spec(spec); spec.loader.exec_module(m)
    drivers = ", ".join(d["driver"] for d in m.drivers())
    cov = ev.get("coverage", {})
    cases = "%s cases (%s distinct non-trivial), %s obligations" % (cov.get("evaluations", "?"), cov.get("distinct_nontrivial", "?"), cov.get("obligations", "?"))
    print("| %s | %d theorems + %d examples | %s | %s | %.0f s |" % (pid, nthm, nex, drivers, cases, ev.get("wall_s", 0)))
