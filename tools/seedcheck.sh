#!/bin/bash
# tools/seedcheck.sh <PROP> <m1|m2> [check ids...]
# Confirms a seeded mutant (builds, existing tests pass, demo fails with / passes without),
# runs the named checks (default: the property's own) against the mutated worktree, and
# files everything under /verif/seeded/<PROP>-<m>/.
export GOFLAGS=-mod=mod GOPROXY=off GOSUMDB=off GOTOOLCHAIN=local
P=$1; M=$2; shift 2; CHECKS=${@:-$P}
PFX=${SEED_PREFIX:-seed}; WT=/tmp/$PFX-$P; OUT=/tmp/$PFX-$P-out/$M; DST=/verif/seeded/$P-$M
[ -f $OUT/patch.diff ] || { echo "no patch"; exit 2; }
mkdir -p $DST; cp $OUT/* $DST/ 2>/dev/null
git -C $WT checkout -q -- . && git -C $WT clean -fdq
DEMO=$(ls $OUT/demo*_test.go 2>/dev/null | head -1); [ -n "$DEMO" ] || DEMO=$(ls $OUT/demo* | head -1); PKG=$(grep -m1 -o 'nsqd/\|nsqlookupd/\|nsqadmin/\|apps/[a-z_]*/\|internal/[a-z_]*/' $OUT/patch.diff | head -1)
PKG=${PKG:-nsqd/}
# the demonstration may live in another package than the patched file: follow its package clause
case "$(grep -m1 '^package ' $DEMO | awk '{print $2}')" in
  nsqd) PKG=nsqd/;; nsqlookupd) PKG=nsqlookupd/;; nsqadmin) PKG=nsqadmin/;;
  clusterinfo) PKG=internal/clusterinfo/;; auth) PKG=internal/auth/;; protocol) PKG=internal/protocol/;;
esac
RUN=$(grep -o 'func Test[A-Za-z0-9_]*' $DEMO | sed 's/func //' | paste -sd'|')
res() { echo "$1" | tee -a $DST/confirm.log; }
: > $DST/confirm.log
cp $DEMO $WT/$PKG/zz_seed_demo_test.go
( cd $WT && timeout 600 go test -vet=off -count=1 -run "$RUN" ./$PKG >/tmp/seed-$P-$M-clean.log 2>&1 ); res "demo on clean tree: rc=$?"
git -C $WT apply $OUT/patch.diff 2>/dev/null || git -C $WT apply -C1 $OUT/patch.diff 2>/dev/null || ( cd $WT && patch -p1 --fuzz=3 -s < $OUT/patch.diff ) || { res "patch does not apply"; exit 2; }
( cd $WT && go build ./... ) ; res "build with mutant: rc=$?"
( cd $WT && timeout 600 go test -vet=off -count=1 -run "$RUN" ./$PKG >/tmp/seed-$P-$M-mut.log 2>&1 ); res "demo with mutant: rc=$? (expected non-zero)"
rm -f $WT/$PKG/zz_seed_demo_test.go
( cd $WT && timeout 1200 go test -vet=off -count=1 ./$PKG >/tmp/seed-$P-$M-suite.log 2>&1 ); res "existing suite of $PKG with mutant: rc=$?"
for C in $CHECKS; do
  ( cd /verif && VERIF_REPO=$WT timeout 1800 ./check $C > $DST/check-$C.log 2>&1 ); rc=$?
  res "check $C against mutant: rc=$rc $(grep -m1 VIOLATION $DST/check-$C.log)"
  for f in $(grep -o 'replay=[^ ]*' $DST/check-$C.log | sed 's/replay=//'); do cp $f $DST/ 2>/dev/null; done
done
git -C $WT checkout -q -- . && git -C $WT clean -fdq
cat > $DST/meta.json <<META
{"property": "$P", "mutant": "$M", "source": "fresh sub-agent given only the property text and a scratch worktree",
 "patch": "patch.diff", "demonstration": "$(basename $DEMO) (place in $PKG, run: go test -vet=off -count=1 -run $RUN ./$PKG)",
 "needs_to_manifest": "see README.md", "what_was_run": "tools/seedcheck.sh $P $M $CHECKS (log: confirm.log, check-*.log)"}
META
