// Package lib: shared plumbing for the correspondence drivers.
package lib

import (
	"bufio"
	"encoding/json"
	"fmt"
	"os"
	"strings"
	"sync"
)

// ---------------------------------------------------------------- PRNG
// splitmix64: every random choice of a driver derives from one seed.
type Rand struct{ s uint64 }

func NewRand(seed uint64) *Rand { return &Rand{s: seed*0x9E3779B97F4A7C15 + 0x1234567} }
func (r *Rand) U64() uint64 {
	r.s += 0x9E3779B97F4A7C15
	z := r.s
	z = (z ^ (z >> 30)) * 0xBF58476D1CE4E5B9
	z = (z ^ (z >> 27)) * 0x94D049BB133111EB
	return z ^ (z >> 31)
}
func (r *Rand) Intn(n int) int {
	if n <= 0 {
		return 0
	}
	return int(r.U64() % uint64(n))
}
func (r *Rand) Bool() bool         { return r.U64()&1 == 1 }
func (r *Rand) Chance(p int) bool  { return r.Intn(100) < p }
func (r *Rand) Pick(xs []int) int  { return xs[r.Intn(len(xs))] }
func (r *Rand) Fork() *Rand        { return NewRand(r.U64()) }
func (r *Rand) Bytes(n int) []byte { b := make([]byte, n); for i := range b { b[i] = byte(r.U64()) }; return b }

// ---------------------------------------------------------------- Coq term printers
func CoqBytes(b []byte) string {
	if len(b) > 48 {
		return CoqPacked(b)
	}
	var sb strings.Builder
	sb.WriteString("[")
	for i, x := range b {
		if i > 0 {
			sb.WriteString(";")
		}
		fmt.Fprintf(&sb, "%d", x)
	}
	sb.WriteString("]")
	return sb.String()
}
// CoqPacked writes a byte string as (unpack len [7-byte big-endian chunks as Uint63
// literals]); decoded by coq/model/Pack.v.
func CoqPacked(b []byte) string {
	var sb strings.Builder
	fmt.Fprintf(&sb, "(unpack %d%%N [", len(b))
	for i := 0; i < len(b); i += 7 {
		if i > 0 {
			sb.WriteString(";")
		}
		var w uint64
		for k := 0; k < 7; k++ {
			w <<= 8
			if i+k < len(b) {
				w |= uint64(b[i+k])
			}
		}
		fmt.Fprintf(&sb, "0x%x", w)
	}
	sb.WriteString("]%uint63)")
	return sb.String()
}

func CoqBytesList(bs [][]byte) string {
	parts := make([]string, len(bs))
	for i, b := range bs {
		parts[i] = CoqBytes(b)
	}
	return "[" + strings.Join(parts, ";") + "]"
}
func CoqList(parts []string) string { return "[" + strings.Join(parts, ";") + "]" }
func CoqBool(b bool) string {
	if b {
		return "true"
	}
	return "false"
}
func CoqZ(v int64) string {
	if v < 0 {
		return fmt.Sprintf("(%d)%%Z", v)
	}
	return fmt.Sprintf("%d%%Z", v)
}
func CoqN(v uint64) string { return fmt.Sprintf("%d%%N", v) }
func CoqNat(v int) string  { return fmt.Sprintf("%d%%nat", v) }
func CoqString(s string) string {
	// Coq string literal: double the quotes; only printable ASCII expected
	return "\"" + strings.ReplaceAll(s, "\"", "\"\"") + "\"%string"
}
func CoqOption(present bool, v string) string {
	if !present {
		return "None"
	}
	return "(Some " + v + ")"
}

// ---------------------------------------------------------------- case output
// One line of JSON per case:
//   name   stable label of the case (for replays)
//   coq    a Coq term of the property's [case] type
//   input  whatever the driver needs to re-run this case on the implementation
//   tags   labels for the input-distribution table of the evidence
//   nontrivial  the driver's own rule says this case exercises a non-default branch
type Case struct {
	Name       string      `json:"name"`
	Coq        string      `json:"coq"`
	Input      interface{} `json:"input"`
	Tags       []string    `json:"tags"`
	Nontrivial bool        `json:"nontrivial"`
	Obs        interface{} `json:"obs,omitempty"`
}

type Out struct {
	mu sync.Mutex
	f  *os.File
	w  *bufio.Writer
}

func NewOut(path string) *Out {
	f, err := os.Create(path)
	if err != nil {
		Fatalf("create %s: %v", path, err)
	}
	return &Out{f: f, w: bufio.NewWriterSize(f, 1<<20)}
}
func (o *Out) Emit(c Case) {
	b, err := json.Marshal(c)
	if err != nil {
		Fatalf("marshal: %v", err)
	}
	o.mu.Lock()
	o.w.Write(b)
	o.w.WriteByte('\n')
	o.w.Flush() // a driver that is killed later must not lose what it has already found
	o.mu.Unlock()
}
func (o *Out) Close() { o.w.Flush(); o.f.Close() }

// Stat lines (not cases) let a driver report measured facts for the evidence.
func (o *Out) Stat(key string, v interface{}) {
	b, _ := json.Marshal(map[string]interface{}{"stat": key, "value": v})
	o.mu.Lock()
	o.w.Write(b)
	o.w.WriteByte('\n')
	o.mu.Unlock()
}

func Fatalf(format string, a ...interface{}) {
	fmt.Fprintf(os.Stderr, "HARNESS-ERROR: "+format+"\n", a...)
	os.Exit(3)
}

// ReadReplay loads the "inputs" array of a replay file written by ./check.
func ReadReplay(path string, into interface{}) {
	b, err := os.ReadFile(path)
	if err != nil {
		Fatalf("read replay %s: %v", path, err)
	}
	var wrap struct {
		Inputs json.RawMessage `json:"inputs"`
	}
	if err := json.Unmarshal(b, &wrap); err != nil {
		Fatalf("parse replay %s: %v", path, err)
	}
	if err := json.Unmarshal(wrap.Inputs, into); err != nil {
		Fatalf("parse replay inputs %s: %v", path, err)
	}
}
