package lib

import (
	"bufio"
	"bytes"
	"encoding/binary"
	"io"
	"net"
	"strings"
	"sync"
)

// StubNSQD is a minimal recording nsqd TCP endpoint for producers: it accepts the
// V2 magic, IDENTIFY, PUB/MPUB/DPUB and NOP and records every published body in
// arrival order.  Script decides the answer to the k-th publish: 'O' = OK,
// 'E' = E_PUB_FAILED (non-fatal here), 'C' = close the connection without answering.
// An exhausted script answers OK.
type StubNSQD struct {
	L      net.Listener
	mu     sync.Mutex
	Bodies [][]byte // accepted (answered OK) bodies, in order
	Seen   [][]byte // every body received, whatever the answer
	Script string
	k      int
	wg     sync.WaitGroup
}

func NewStubNSQD(script string) *StubNSQD {
	l, err := net.Listen("tcp", "127.0.0.1:0")
	if err != nil {
		Fatalf("listen: %v", err)
	}
	s := &StubNSQD{L: l, Script: script}
	go s.accept()
	return s
}
func (s *StubNSQD) Addr() string { return s.L.Addr().String() }
func (s *StubNSQD) Close()       { s.L.Close() }
func (s *StubNSQD) Snapshot() (ok [][]byte, seen [][]byte) {
	s.mu.Lock()
	defer s.mu.Unlock()
	ok = append([][]byte{}, s.Bodies...)
	seen = append([][]byte{}, s.Seen...)
	return
}
func (s *StubNSQD) accept() {
	for {
		c, err := s.L.Accept()
		if err != nil {
			return
		}
		go s.serve(c)
	}
}
func frame(ftype int32, data []byte) []byte {
	var b bytes.Buffer
	binary.Write(&b, binary.BigEndian, int32(len(data)+4))
	binary.Write(&b, binary.BigEndian, ftype)
	b.Write(data)
	return b.Bytes()
}
func (s *StubNSQD) next() byte {
	if s.k < len(s.Script) {
		c := s.Script[s.k]
		s.k++
		return c
	}
	return 'O'
}
func (s *StubNSQD) serve(c net.Conn) {
	defer c.Close()
	r := bufio.NewReader(c)
	magic := make([]byte, 4)
	if _, err := io.ReadFull(r, magic); err != nil {
		return
	}
	readBody := func() ([]byte, bool) {
		var n int32
		if err := binary.Read(r, binary.BigEndian, &n); err != nil || n < 0 {
			return nil, false
		}
		b := make([]byte, n)
		if _, err := io.ReadFull(r, b); err != nil {
			return nil, false
		}
		return b, true
	}
	for {
		line, err := r.ReadString('\n')
		if err != nil {
			return
		}
		f := strings.Fields(line)
		if len(f) == 0 {
			continue
		}
		switch f[0] {
		case "IDENTIFY":
			if _, ok := readBody(); !ok {
				return
			}
			c.Write(frame(0, []byte("OK")))
		case "NOP":
		case "PUB", "DPUB":
			b, ok := readBody()
			if !ok {
				return
			}
			s.mu.Lock()
			act := s.next()
			s.Seen = append(s.Seen, b)
			if act == 'O' {
				s.Bodies = append(s.Bodies, b)
			}
			s.mu.Unlock()
			switch act {
			case 'O':
				c.Write(frame(0, []byte("OK")))
			case 'E':
				c.Write(frame(1, []byte("E_PUB_FAILED PUB failed stub")))
			default:
				return
			}
		case "MPUB":
			b, ok := readBody()
			if !ok || len(b) < 4 {
				return
			}
			n := int(binary.BigEndian.Uint32(b[:4]))
			p := b[4:]
			var bodies [][]byte
			for i := 0; i < n && len(p) >= 4; i++ {
				l := int(binary.BigEndian.Uint32(p[:4]))
				if len(p) < 4+l {
					break
				}
				bodies = append(bodies, p[4:4+l])
				p = p[4+l:]
			}
			s.mu.Lock()
			act := s.next()
			s.Seen = append(s.Seen, bodies...)
			if act == 'O' {
				s.Bodies = append(s.Bodies, bodies...)
			}
			s.mu.Unlock()
			switch act {
			case 'O':
				c.Write(frame(0, []byte("OK")))
			case 'E':
				c.Write(frame(1, []byte("E_MPUB_FAILED MPUB failed stub")))
			default:
				return
			}
		default:
			c.Write(frame(1, []byte("E_INVALID stub")))
			return
		}
	}
}
