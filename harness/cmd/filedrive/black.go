package main

// Black-box runs: a real in-process nsqd, the real nsq_to_file binary, a message stream,
// SIGTERM / SIGHUP+SIGTERM / SIGKILL at a generated instant; afterwards the messages the
// channel no longer owes must all be, intact, in decompressible file contents, and the
// files that existed before must still start with their old bytes.

import (
	"bytes"
	"encoding/base64"
	"fmt"
	"os"
	"os/exec"
	"path/filepath"
	"sort"
	"strings"
	"sync"
	"syscall"
	"time"

	"github.com/nsqio/go-nsq"
	"github.com/nsqio/nsq/nsqd"

	"verifharness/lib"
	"verifharness/nsqdlib"
)

type blackIn struct {
	GZIP        bool   `json:"gzip"`
	Work        bool   `json:"work"`
	RotateSize  int64  `json:"rotate_size"`
	RotateMs    int    `json:"rotate_ms"`
	SkipEmpty   bool   `json:"skip_empty"`
	MaxInFlight int    `json:"max_in_flight"`
	SyncMs      int    `json:"sync_ms"`
	NMsg        int    `json:"nmsg"`
	Stop        string `json:"stop"` // term | hup-term | kill
	StopAfterMs int    `json:"stop_after_ms"`
	Pre         int    `json:"pre"`
	Seed        uint64 `json:"seed"`
}

func genBlack(r *lib.Rand, k int) input {
	b := &blackIn{
		GZIP: r.Chance(50), Work: r.Chance(40), SkipEmpty: r.Chance(30),
		MaxInFlight: []int{1, 3, 20, 200}[r.Intn(4)], SyncMs: []int{20, 50, 200}[r.Intn(3)],
		NMsg: 60 + r.Intn(240), Stop: []string{"term", "hup-term", "kill", "kill"}[r.Intn(4)],
		StopAfterMs: 30 + r.Intn(500), Pre: r.Intn(3), Seed: r.U64(),
	}
	if r.Chance(50) {
		b.RotateSize = int64(200 + r.Intn(2000))
	}
	if r.Chance(30) {
		b.RotateMs = 60 + r.Intn(200)
	}
	return input{Kind: "black", Name: fmt.Sprintf("black-%d", k), Black: b}
}

func readAllFiles(root string, into map[string][]byte) {
	filepath.Walk(root, func(p string, fi os.FileInfo, err error) error {
		if err == nil && fi.Mode().IsRegular() {
			if b, e := os.ReadFile(p); e == nil {
				into[p] = b
			}
		}
		return nil
	})
}

func runBlack(bin string, in input, scratch string) ([]lib.Case, string) {
	b := in.Black
	dir, err := os.MkdirTemp(scratch, "bb-")
	if err != nil {
		return nil, err.Error()
	}
	defer os.RemoveAll(dir)
	outDir := filepath.Join(dir, "out")
	workDir := filepath.Join(dir, "work")
	os.MkdirAll(outDir, 0o755)
	os.MkdirAll(workDir, 0o755)
	r := lib.NewRand(b.Seed)

	opts := nsqdlib.NewOpts(dir)
	opts.MsgTimeout = time.Second
	n, err := nsqdlib.Start(opts)
	if err != nil {
		return nil, "nsqd: " + err.Error()
	}
	defer n.Exit()
	topic := n.GetTopic("t")
	topic.GetChannel("nsq_to_file")

	// pre-existing files with the names the tool will want first
	ext := ".log"
	if b.GZIP {
		ext = ".log.gz"
	}
	year := time.Now().UTC().Format("2006")
	pre := map[string][]byte{}
	for i := 0; i < b.Pre; i++ {
		name := filepath.Join(outDir, fmt.Sprintf("t.h-%06d.%s%s", i, year, ext))
		data := []byte(fmt.Sprintf("pre-existing-%d\n", i))
		os.WriteFile(name, data, 0o644)
		pre[name] = data
	}

	bodies := make([][]byte, b.NMsg)
	for i := range bodies {
		bodies[i] = []byte(fmt.Sprintf("bb-%d-%x-%s", i, r.Intn(1<<20), strings.Repeat("x", r.Intn(30))))
	}
	half := b.NMsg / 2
	for i := 0; i < half; i++ {
		topic.PutMessage(nsqd.NewMessage(topic.GenerateID(), bodies[i]))
	}
	args := []string{"-topic", "t", "-nsqd-tcp-address", n.RealTCPAddr().String(), "-output-dir", outDir,
		"-host-identifier", "h", "-datetime-format", "%Y", "-sync-interval", fmt.Sprintf("%dms", b.SyncMs),
		"-max-in-flight", fmt.Sprint(b.MaxInFlight), "-log-level", "error"}
	if b.Work {
		args = append(args, "-work-dir", workDir)
	}
	if b.GZIP {
		args = append(args, "-gzip")
	}
	if b.SkipEmpty {
		args = append(args, "-skip-empty-files")
	}
	if b.RotateSize > 0 {
		args = append(args, "-rotate-size", fmt.Sprint(b.RotateSize))
	}
	if b.RotateMs > 0 {
		args = append(args, "-rotate-interval", fmt.Sprintf("%dms", b.RotateMs))
	}
	cmd := exec.Command(bin, args...)
	var stderr bytes.Buffer
	cmd.Stderr = &stderr
	if err := cmd.Start(); err != nil {
		return nil, "start nsq_to_file: " + err.Error()
	}
	exited := make(chan error, 1)
	go func() { exited <- cmd.Wait() }()
	var wg sync.WaitGroup
	wg.Add(1)
	go func() { // the rest of the stream arrives while the tool runs
		defer wg.Done()
		for i := half; i < b.NMsg; i++ {
			topic.PutMessage(nsqd.NewMessage(topic.GenerateID(), bodies[i]))
			if i%8 == 0 {
				time.Sleep(time.Millisecond)
			}
		}
	}()
	early := false
	select {
	case <-exited:
		early = true
	case <-time.After(time.Duration(b.StopAfterMs) * time.Millisecond):
	}
	if !early {
		switch b.Stop {
		case "term":
			cmd.Process.Signal(syscall.SIGTERM)
		case "hup-term":
			cmd.Process.Signal(syscall.SIGHUP)
			time.Sleep(time.Duration(20+r.Intn(150)) * time.Millisecond)
			cmd.Process.Signal(syscall.SIGTERM)
		case "kill":
			cmd.Process.Kill()
		}
		select {
		case <-exited:
		case <-time.After(50 * time.Second):
			cmd.Process.Kill()
			<-exited
			return nil, "nsq_to_file did not stop within 50 s after " + b.Stop
		}
	}
	wg.Wait()
	exitCode := cmd.ProcessState.ExitCode()

	// drain what the channel still owes
	var mu sync.Mutex
	owed := map[string]int{}
	cfg := nsq.NewConfig()
	cfg.MaxInFlight = 200
	cons, err := nsq.NewConsumer("t", "nsq_to_file", cfg)
	if err != nil {
		return nil, err.Error()
	}
	cons.SetLoggerLevel(nsq.LogLevelError)
	cons.AddHandler(nsq.HandlerFunc(func(m *nsq.Message) error {
		mu.Lock()
		owed[string(m.Body)]++
		mu.Unlock()
		return nil
	}))
	if err := cons.ConnectToNSQD(n.RealTCPAddr().String()); err != nil {
		return nil, "drain connect: " + err.Error()
	}
	deadline := time.Now().Add(60 * time.Second)
	stable := 0
	for stable < 3 {
		if time.Now().After(deadline) {
			cons.Stop()
			return nil, "drain did not settle"
		}
		time.Sleep(100 * time.Millisecond)
		st := n.GetStats("t", "nsq_to_file", false)
		idle := len(st.Topics) == 1 && st.Topics[0].Depth == 0 && len(st.Topics[0].Channels) == 1 &&
			st.Topics[0].Channels[0].Depth == 0 && st.Topics[0].Channels[0].InFlightCount == 0 &&
			st.Topics[0].Channels[0].DeferredCount == 0
		if idle {
			stable++
		} else {
			stable = 0
		}
	}
	cons.Stop()
	<-cons.StopChan

	var done [][]byte
	for _, body := range bodies {
		if owed[string(body)] == 0 {
			done = append(done, body)
		}
	}
	raw := map[string][]byte{}
	readAllFiles(outDir, raw)
	readAllFiles(workDir, raw)
	var names []string
	for p := range raw {
		names = append(names, p)
	}
	sort.Strings(names)
	var files [][]byte
	partial := 0
	for _, p := range names {
		if _, was := pre[p]; was && b.GZIP {
			continue // a pre-existing name in gzip mode is never opened; its bytes are not gzip
		}
		if strings.HasSuffix(p, ".gz") {
			ms, used := completeMembers(raw[p])
			if used < len(raw[p]) {
				partial++
			}
			files = append(files, bytes.Join(ms, nil))
		} else {
			files = append(files, raw[p])
		}
	}
	var preL, postL []string
	for p, data := range pre {
		rel := []byte(strings.TrimPrefix(p, dir))
		preL = append(preL, fmt.Sprintf("(%s, %s)", lib.CoqBytes(rel), lib.CoqBytes(data)))
		if now, ok := raw[p]; ok {
			postL = append(postL, fmt.Sprintf("(%s, %s)", lib.CoqBytes(rel), lib.CoqBytes(now)))
		}
	}
	sort.Strings(preL)
	sort.Strings(postL)
	coq := fmt.Sprintf("(J19.Black (J19.mkBlack %s %s %s %s))", lib.CoqBytesList(done), lib.CoqBytesList(files), lib.CoqList(preL), lib.CoqList(postL))
	tags := []string{"kind=black", "stop=" + b.Stop, "gzip=" + lib.CoqBool(b.GZIP), "work=" + lib.CoqBool(b.Work),
		fmt.Sprintf("exit=%d", exitCode), fmt.Sprintf("bb_mif=%d", b.MaxInFlight)}
	if early {
		tags = append(tags, "tool-exited-before-signal")
	}
	if partial > 0 {
		tags = append(tags, "trailing-partial-gzip-member")
	}
	in2 := in
	_ = base64.StdEncoding
	return []lib.Case{{Name: in.Name, Coq: coq, Input: in2, Tags: tags, Nontrivial: len(done) > 0,
		Obs: map[string]interface{}{"published": b.NMsg, "no_longer_owed": len(done), "files": len(files), "exit": exitCode,
			"stderr_tail": tailStr(stderr.String(), 300)}}}, ""
}

func tailStr(s string, n int) string {
	if len(s) > n {
		return s[len(s)-n:]
	}
	return s
}
