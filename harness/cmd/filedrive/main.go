// filedrive: correspondence driver for C19 (nsq_to_file).
//
//	(a) scripted in-process runs of the real FileLogger.router() through the verif
//	    init-driver binary (nsq_to_file_verif), under strace: the observed trace of file
//	    operations and FINs is judged against the model and by the property monitor;
//	(b) black-box runs of the real nsq_to_file binary against a real nsqd with
//	    SIGTERM / SIGHUP / SIGKILL at generated instants.
package main

import (
	"flag"
	"os"
	"path/filepath"
	"sync"

	"verifharness/lib"
	"verifharness/nsqdlib"
)

func main() {
	n := flag.Int("n", 40, "number of generated scripted runs")
	nb := flag.Int("black", 4, "number of generated black-box runs")
	seed := flag.Uint64("seed", 1, "seed")
	out := flag.String("out", "", "output jsonl")
	replay := flag.String("replay", "", "replay file (inputs)")
	par := flag.Int("par", 8, "parallel runs")
	nstrf := flag.Int("strf", 40, "number of generated strftime evaluations")
	flag.Parse()
	vbin := filepath.Join(os.Getenv("VERIF_BIN_DIR"), "nsq_to_file_verif")
	bin := filepath.Join(os.Getenv("VERIF_BIN_DIR"), "nsq_to_file")
	for _, b := range []string{vbin, bin} {
		if _, err := os.Stat(b); err != nil {
			lib.Fatalf("binary not found: %s", b)
		}
	}
	scratch := nsqdlib.ScratchDir()
	o := lib.NewOut(*out)
	defer o.Close()
	var inputs []input
	if *replay != "" {
		lib.ReadReplay(*replay, &inputs)
	} else {
		inputs = append(fixedRuns(), faultMatrix()...)
		r := lib.NewRand(*seed)
		rb := r.Fork()
		for k := 0; k < *n; k++ {
			inputs = append(inputs, genRun(r, k))
		}
		for k := 0; k < *nb; k++ {
			inputs = append(inputs, genBlack(rb, k))
		}
	}
	// strftime evaluations: one process for all of them
	var strfQs []strfIn
	var rest []input
	for _, in := range inputs {
		if in.Kind == "strf" && in.Strf != nil {
			strfQs = append(strfQs, *in.Strf)
		} else {
			rest = append(rest, in)
		}
	}
	inputs = rest
	if *replay == "" {
		strfQs = genStrf(lib.NewRand(*seed+977), *nstrf)
	}
	if len(strfQs) > 0 {
		cs, e := runStrf(vbin, strfQs)
		if e != "" {
			lib.Fatalf("%s", e)
		}
		for _, c := range cs {
			o.Emit(c)
		}
	}
	results := make([][]lib.Case, len(inputs))
	errs := make([]string, len(inputs))
	sem := make(chan struct{}, *par)
	var wg sync.WaitGroup
	for i := range inputs {
		wg.Add(1)
		sem <- struct{}{}
		go func(i int) {
			defer wg.Done()
			defer func() { <-sem }()
			in := inputs[i]
			var one []input
			one = append(one, in)
			var cs []lib.Case
			var e string
			if in.Kind == "black" {
				cs, e = runBlack(bin, in, scratch)
			} else {
				cs, e = runScript(vbin, in, scratch)
			}
			for j := range cs {
				cs[j].Input = in
			}
			results[i], errs[i] = cs, e
		}(i)
	}
	wg.Wait()
	dropped := 0
	for i, cs := range results {
		if errs[i] != "" {
			lib.Fatalf("%s: %s", inputs[i].Name, errs[i])
		}
		for _, c := range cs {
			for _, t := range c.Tags {
				if t == "kind=run-dropped" {
					dropped++
				}
			}
			o.Emit(c)
		}
	}
	o.Stat("scripted_runs_dropped_for_ambiguous_clock", dropped)
}
