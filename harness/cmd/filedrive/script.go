package main

// Scripted in-process runs of the real FileLogger.router() through the verif init-driver
// binary (apps/nsq_to_file built with -tags verif), traced with strace.
//
// Failing system calls: a run may carry a fault {sys, when, err}: strace makes the when-th
// call of sys issued by the router thread fail with err (strace counts per thread and
// injects in every thread: the hook locks the router to a thread of its own and first burns
// padFor(sys) dummy calls there, so the target is call number pad+when of that thread and
// no other thread gets that far).  faultMatrix() puts a failure at every position of the
// write path of a fixed script (every write, fsync, close, link, unlink, open; plain and
// gzip; with and without work dir); generated runs carry a random one.

import (
	"context"
	"encoding/base64"
	"encoding/json"
	"fmt"
	"os"
	"os/exec"
	"path/filepath"
	"strconv"
	"strings"
	"time"

	"verifharness/lib"
)

type hookOpts struct {
	OutputDir        string `json:"output_dir"`
	WorkDir          string `json:"work_dir"`
	GZIP             bool   `json:"gzip"`
	RotateSize       int64  `json:"rotate_size"`
	RotateIntervalNs int64  `json:"rotate_interval_ns"`
	SkipEmpty        bool   `json:"skip_empty"`
	SyncIntervalNs   int64  `json:"sync_interval_ns"`
	MaxInFlight      int    `json:"max_in_flight"`
	FilenameFormat   string `json:"filename_format"`
	DatetimeFormat   string `json:"datetime_format"`
	HostIdentifier   string `json:"host_identifier"`
	Topic            string `json:"topic"`
}

type hookEvent struct {
	K    string `json:"k"`
	ID   int    `json:"id,omitempty"`
	Body string `json:"body_b64,omitempty"`
	Ms   int    `json:"ms,omitempty"`
}

type preFile struct {
	Dir string `json:"dir"` // out | work
	Rev int    `json:"rev"`
	B64 string `json:"b64"`
}

type faultIn struct {
	Sys  string `json:"sys"`  // write | fsync | close | linkat | unlinkat | openat
	When int    `json:"when"` // the when-th such call of the router fails (from 1)
	Err  string `json:"err"`  // errno name
}

type input struct {
	Kind   string      `json:"kind"` // run | black
	Name   string      `json:"name"`
	Work   bool        `json:"work"`
	Opts   hookOpts    `json:"opts"`
	Pre    []preFile   `json:"pre"`
	Events []hookEvent `json:"events"`
	Ticks  bool        `json:"ticks"`
	Fault  *faultIn    `json:"fault,omitempty"`
	Black  *blackIn    `json:"black,omitempty"`
	Strf   *strfIn     `json:"strf,omitempty"`
}

// dummy calls the router thread makes first (see the head of this file): more than any
// other thread of the process ever makes of that system call
func padFor(sys string) int {
	if sys == "write" {
		return 400 // other threads write to the runtime's eventfd now and then
	}
	return 64
}

var faultErrs = map[string][]string{
	"write":    {"ENOSPC", "EIO", "EDQUOT", "EFBIG"},
	"fsync":    {"EIO", "ENOSPC", "EDQUOT"},
	"close":    {"EIO", "EDQUOT", "ENOSPC"},
	"linkat":   {"EMLINK", "EPERM", "ENOSPC", "EXDEV", "EIO"},
	"unlinkat": {"EIO", "EACCES", "EBUSY", "EROFS"},
	"openat":   {"EMFILE", "ENOSPC", "EACCES", "ENFILE", "EROFS"},
}

func genFault(r *lib.Rand) *faultIn {
	sys := []string{"write", "write", "write", "fsync", "fsync", "fsync", "close", "linkat", "unlinkat", "openat"}[r.Intn(10)]
	max := 6
	if sys == "write" {
		max = 14
	}
	es := faultErrs[sys]
	return &faultIn{Sys: sys, When: 1 + r.Intn(max), Err: es[r.Intn(len(es))]}
}

// the few strftime conversions the generator uses (UTC), to place colliding files
func simpleStrftime(f string, t time.Time) string {
	r := strings.NewReplacer("%%", "%", "%Y", t.Format("2006"), "%m", t.Format("01"), "%d", t.Format("02"),
		"%H", t.Format("15"), "%M", t.Format("04"), "%S", t.Format("05"))
	return r.Replace(f)
}

// mirror of computeFilenameFormat, used only to place pre-existing files (the judged value
// is the one the real code reports)
func mirrorFmt(o hookOpts, work bool) (string, bool) {
	cff := o.FilenameFormat
	need := o.GZIP || o.RotateSize > 0 || o.RotateIntervalNs > 0 || work
	if need {
		if !strings.Contains(cff, "<REV>") {
			return "", false
		}
	} else {
		cff = strings.Replace(cff, "<REV>", "", -1)
	}
	cff = strings.Replace(cff, "<TOPIC>", o.Topic, -1)
	cff = strings.Replace(cff, "<HOST>", o.HostIdentifier, -1)
	if o.GZIP && !strings.HasSuffix(cff, ".gz") {
		cff += ".gz"
	}
	return cff, true
}

func genBody(r *lib.Rand, id int) []byte {
	switch r.Intn(20) {
	case 0:
		return []byte{}
	case 1:
		return r.Bytes(1 + r.Intn(12)) // raw bytes, may contain \n or 0
	case 2:
		b := []byte(fmt.Sprintf("big-%d-", id))
		for len(b) < 3000+r.Intn(3000) {
			b = append(b, "0123456789abcdef"[r.Intn(16)])
		}
		return b
	case 3:
		return []byte(fmt.Sprintf("two\nlines-%d", id))
	case 4:
		return []byte("dup")
	default:
		return []byte(fmt.Sprintf("msg-%d-%x", id, r.Intn(1<<16)))
	}
}

func genRun(r *lib.Rand, k int) input {
	in := input{Kind: "run", Name: fmt.Sprintf("run-%d", k)}
	o := hookOpts{Topic: "t", HostIdentifier: "h", SyncIntervalNs: int64(time.Hour)}
	o.GZIP = r.Chance(45)
	in.Work = r.Chance(45)
	if r.Chance(40) {
		o.RotateSize = int64(5 + r.Intn(60))
	}
	midInterval := false
	switch r.Intn(10) {
	case 0:
		o.RotateIntervalNs = 1
	case 1, 2:
		o.RotateIntervalNs = int64(time.Hour)
	case 3:
		o.RotateIntervalNs = int64(400 * time.Millisecond)
		midInterval = true
	}
	o.SkipEmpty = r.Chance(35)
	o.MaxInFlight = []int{1, 2, 2, 3, 5, 200, 200}[r.Intn(7)]
	if r.Chance(2) {
		o.MaxInFlight = 0
	}
	o.FilenameFormat = []string{"<TOPIC><REV>.<DATETIME>.log", "<TOPIC><REV>.<DATETIME>.log", "<TOPIC>.<HOST><REV>.<DATETIME>.log",
		"<TOPIC>.<DATETIME>.log", "<REV><TOPIC>.<DATETIME><REV>.log", "<TOPIC><REV>.<DATETIME>.log.gz", "<TOPIC>.<PID><REV>.<DATETIME>"}[r.Intn(7)]
	seconds := false
	switch r.Intn(12) {
	case 0, 1:
		o.DatetimeFormat = "%Y-%m-%d"
	case 2:
		o.DatetimeFormat = "x"
	case 3:
		o.DatetimeFormat = "%Y%%%q-%m"
	case 4:
		if k%4 == 0 { // seconds granularity: real rollover, needs > 1 s sleeps; keep these few
			o.DatetimeFormat = "%H%M%S"
			seconds = true
		} else {
			o.DatetimeFormat = "%Y"
		}
	default:
		o.DatetimeFormat = "%Y"
	}
	in.Ticks = !midInterval && !seconds && o.RotateIntervalNs == 0 && r.Chance(15)
	if in.Ticks {
		o.SyncIntervalNs = int64(25 * time.Millisecond)
	}
	if !in.Ticks && r.Chance(35) { // (with the ticker on, which tick a failing call belongs to is not scripted)
		in.Fault = genFault(r)
	}
	in.Opts = o
	// pre-existing files with colliding names
	if !strings.Contains(o.FilenameFormat, "<PID>") && !seconds && r.Chance(55) {
		for rev := 0; rev < 3; rev++ {
			for _, d := range []string{"out", "work"} {
				if d == "work" && !in.Work {
					continue
				}
				if !r.Chance(45) {
					continue
				}
				n := r.Intn(4)
				var b []byte
				for i := 0; i < n; i++ {
					b = append(b, []byte(fmt.Sprintf("old-%d-%d\n", rev, i))...)
				}
				if o.RotateSize > 0 && r.Chance(40) {
					for int64(len(b)) <= o.RotateSize {
						b = append(b, []byte("padding-padding\n")...)
					}
				}
				in.Pre = append(in.Pre, preFile{Dir: d, Rev: rev, B64: base64.StdEncoding.EncodeToString(b)})
			}
		}
	}
	// events
	n := 2 + r.Intn(11)
	id := 0
	for i := 0; i < n; i++ {
		switch {
		case r.Chance(14):
			in.Events = append(in.Events, hookEvent{K: "hup"})
		case !seconds && !in.Ticks && r.Chance(8): // (a foreign create is three system calls: not atomic w.r.t. a concurrent tick)
			in.Events = append(in.Events, hookEvent{K: "touch", ID: r.Intn(4), Body: base64.StdEncoding.EncodeToString([]byte(fmt.Sprintf("foreign-%d\n", i)))})
		case midInterval && r.Chance(25):
			in.Events = append(in.Events, hookEvent{K: "sleep", Ms: 900})
		case seconds && r.Chance(20):
			in.Events = append(in.Events, hookEvent{K: "sleep", Ms: 1100})
		case in.Ticks && r.Chance(30):
			in.Events = append(in.Events, hookEvent{K: "sleep", Ms: 70})
		default:
			id++
			in.Events = append(in.Events, hookEvent{K: "msg", ID: id, Body: base64.StdEncoding.EncodeToString(genBody(r, id))})
		}
	}
	if r.Chance(60) {
		in.Events = append(in.Events, hookEvent{K: "term"})
	}
	return in
}

func fixedRuns() []input {
	b := func(s string) string { return base64.StdEncoding.EncodeToString([]byte(s)) }
	base := hookOpts{Topic: "t", HostIdentifier: "h", SyncIntervalNs: int64(time.Hour), MaxInFlight: 2,
		FilenameFormat: "<TOPIC><REV>.<DATETIME>.log", DatetimeFormat: "%Y"}
	msgs := func(n int) []hookEvent {
		var e []hookEvent
		for i := 1; i <= n; i++ {
			e = append(e, hookEvent{K: "msg", ID: i, Body: b(fmt.Sprintf("m%d", i))})
		}
		return e
	}
	var out []input
	// the stale-handle observation: work dir, HUP moves the file, the next message is fatal
	o := base
	o.GZIP = true
	ev := append(msgs(3), hookEvent{K: "hup"}, hookEvent{K: "msg", ID: 4, Body: b("after-hup")}, hookEvent{K: "msg", ID: 5, Body: b("never")})
	out = append(out, input{Kind: "run", Name: "fixed-stale-handle-gzip", Work: true, Opts: o, Events: ev})
	o = base
	out = append(out, input{Kind: "run", Name: "fixed-stale-handle-plain", Work: true, Opts: o, Events: ev})
	// colliding names in the output dir at rename time: rev bump in Close
	o = base
	o.GZIP = true
	out = append(out, input{Kind: "run", Name: "fixed-collide-out", Work: true, Opts: o,
		Pre:    []preFile{{Dir: "out", Rev: 0, B64: b("precious-0\n")}, {Dir: "out", Rev: 1, B64: b("precious-1\n")}, {Dir: "work", Rev: 2, B64: b("w2\n")}},
		Events: append(msgs(3), hookEvent{K: "term"})})
	// a file appears in the output dir while the work file is open: Close must bump the rev
	o = base
	o.GZIP = true
	out = append(out, input{Kind: "run", Name: "fixed-collide-at-rename", Work: true, Opts: o,
		Events: append(msgs(2), hookEvent{K: "touch", ID: 0, Body: b("foreign-0\n")}, hookEvent{K: "touch", ID: 1, Body: b("foreign-1\n")},
			hookEvent{K: "hup"}, hookEvent{K: "msg", ID: 3, Body: b("m3")}, hookEvent{K: "touch", ID: 3, Body: b("foreign-3\n")}, hookEvent{K: "term"})})
	o = base
	o.RotateIntervalNs = 1
	out = append(out, input{Kind: "run", Name: "fixed-collide-at-create", Opts: o,
		Events: append(msgs(1), hookEvent{K: "touch", ID: 1, Body: b("foreign-1\n")}, hookEvent{K: "msg", ID: 2, Body: b("m2")}, hookEvent{K: "term"})})
	// plain append to an existing file, tiny rotate-size
	o = base
	o.RotateSize = 10
	out = append(out, input{Kind: "run", Name: "fixed-append-rotate-size", Opts: o,
		Pre:    []preFile{{Dir: "out", Rev: 0, B64: b("old\n")}, {Dir: "out", Rev: 1, B64: b("0123456789abcdef\n")}},
		Events: append(msgs(5), hookEvent{K: "hup"}, hookEvent{K: "msg", ID: 6, Body: b("m6")}, hookEvent{K: "term"})})
	// no <REV> needed: plain append, HUP reopens the same file
	o = base
	o.FilenameFormat = "<TOPIC>.<DATETIME>.log"
	out = append(out, input{Kind: "run", Name: "fixed-no-rev-append", Opts: o,
		Pre:    []preFile{{Dir: "out", Rev: 0, B64: b("keep me\n")}},
		Events: append(msgs(2), hookEvent{K: "hup"}, hookEvent{K: "msg", ID: 3, Body: b("m3")}, hookEvent{K: "term"})})
	return out
}

// faultMatrix: one fixed script (first open, a message left pending across a rotation by
// size, a half batch synced by HUP, a reopen, TERM) in plain/gzip x work-dir/no-work-dir,
// with a failure injected at every position of its write path: each write(2), fsync, close,
// link, unlink and open the router issues (the limits are a little above the number of such
// calls the script makes; a failure planned beyond the end is a run without failure).
func faultMatrix() []input {
	b := func(s string) string { return base64.StdEncoding.EncodeToString([]byte(s)) }
	var out []input
	for _, gz := range []bool{false, true} {
		for _, work := range []bool{false, true} {
			o := hookOpts{Topic: "t", HostIdentifier: "h", SyncIntervalNs: int64(time.Hour), MaxInFlight: 2,
				FilenameFormat: "<TOPIC><REV>.<DATETIME>.log", DatetimeFormat: "%Y", GZIP: gz, RotateSize: 8}
			ev := []hookEvent{
				{K: "msg", ID: 1, Body: b("m1")},     // open, write, Sync (a new file is synced at once), FIN 1
				{K: "msg", ID: 2, Body: b("second")}, // written, pending (1 of 2)
				// > rotate-size with 2 pending: Close (its fsync is the only one for 2; + move), open, write, Sync, FIN 3, FIN 2
				{K: "msg", ID: 3, Body: b("m3")},
				// an empty body; then Sync of a half batch, FIN 4, Close (+ move)
				{K: "msg", ID: 4, Body: b("")}, {K: "hup"},
			}
			if !work { // (with a work dir the handle is stale after the move: the next write is fatal anyway)
				ev = append(ev, hookEvent{K: "msg", ID: 5, Body: b("m5")})
			}
			ev = append(ev, hookEvent{K: "term"})
			pre := []preFile{{Dir: "out", Rev: 1, B64: b("precious\n")}} // the rotation has to skip this name (stat / O_EXCL / oversized)
			limits := map[string]int{"write": 12, "fsync": 7, "close": 3, "openat": 4}
			if gz {
				limits["write"] = 26
			}
			if work {
				limits["linkat"], limits["unlinkat"] = 3, 3
			}
			for _, sys := range []string{"write", "fsync", "close", "linkat", "unlinkat", "openat"} {
				for n := 1; n <= limits[sys]; n++ {
					es := faultErrs[sys]
					name := fmt.Sprintf("fault-%s-%d-gzip=%v-work=%v", sys, n, gz, work)
					out = append(out, input{Kind: "run", Name: name, Work: work, Opts: o, Pre: pre, Events: ev,
						Fault: &faultIn{Sys: sys, When: n, Err: es[n%len(es)]}})
				}
			}
		}
	}
	return out
}

func dirName(d string) string {
	if d == "work" {
		return "DWork"
	}
	return "DOut"
}
func coqKey(d, n string) string { return fmt.Sprintf("(%s, %s)", dirName(d), lib.CoqBytes([]byte(n))) }

func coqOp(o obsOp, bodies map[int][]byte) string {
	k := coqKey(o.Dir, o.Name)
	switch o.Kind {
	case "create":
		return fmt.Sprintf("(OCreate %s %s %s %s %s)", k, lib.CoqBool(o.Excl), lib.CoqBool(o.Append), lib.CoqBool(o.Trunc), lib.CoqBool(o.OK))
	case "write":
		return fmt.Sprintf("(OWrite %s (None, %s))", k, lib.CoqBytes(o.Data))
	case "member":
		return fmt.Sprintf("(OMember %s [(None, %s)])", k, lib.CoqBytes(o.Data))
	case "fsync":
		return fmt.Sprintf("(OFsync %s)", k)
	case "close":
		return fmt.Sprintf("(OClose %s)", k)
	case "link":
		return fmt.Sprintf("(OLink %s %s %s)", k, coqKey(o.Dir2, o.Name2), lib.CoqBool(o.OK))
	case "unlink":
		return fmt.Sprintf("(OUnlink %s)", k)
	case "rename":
		return fmt.Sprintf("(ORename %s %s)", k, coqKey(o.Dir2, o.Name2))
	case "fin":
		return fmt.Sprintf("(OFin (%d, %s))", o.ID, lib.CoqBytes(bodies[o.ID]))
	case "exit":
		return fmt.Sprintf("(OExit %d)", o.Code)
	case "fail":
		return fmt.Sprintf("(OFail %s %s)", coqFkind[o.What], k)
	}
	return "(OExit 99)"
}

var coqFkind = map[string]string{"write": "FWrite", "fsync": "FFsync", "close": "FClose", "link": "FLink", "unlink": "FUnlink", "open": "FOpen"}
var sysWhat = map[string]string{"write": "write", "fsync": "fsync", "close": "close", "linkat": "link", "unlinkat": "unlink", "openat": "open"}

func num(m marker, k string) int64 {
	switch v := m[k].(type) {
	case float64:
		return int64(v)
	case json.Number:
		x, _ := v.Int64()
		return x
	case string:
		x, _ := strconv.ParseInt(v, 10, 64)
		return x
	}
	return 0
}

// runScript executes one scripted run and returns the cases it yields (a Fmt case, and
// a Run case unless the clock readings around some event were ambiguous).
func runScript(bin string, in input, scratch string) ([]lib.Case, string) {
	dir, err := os.MkdirTemp(scratch, "fl-")
	if err != nil {
		return nil, "mkdir: " + err.Error()
	}
	defer os.RemoveAll(dir)
	outDir := filepath.Join(dir, "out")
	workDir := outDir
	os.MkdirAll(outDir, 0o755)
	if in.Work {
		workDir = filepath.Join(dir, "work")
		os.MkdirAll(workDir, 0o755)
	}
	o := in.Opts
	o.OutputDir = outDir
	if in.Work {
		o.WorkDir = workDir
	}
	// pre-existing files
	type preK struct{ d, n string }
	preContent := map[preK][]byte{}
	var preOrder []preK
	if ff, ok := mirrorFmt(o, in.Work); ok {
		dt := simpleStrftime(o.DatetimeFormat, time.Now().UTC())
		for _, p := range in.Pre {
			name := strings.Replace(strings.Replace(ff, "<DATETIME>", dt, -1), "<REV>", fmt.Sprintf("-%06d", p.Rev), -1)
			d := outDir
			if p.Dir == "work" {
				d = workDir
			}
			data, _ := base64.StdEncoding.DecodeString(p.B64)
			k := preK{p.Dir, name}
			if !in.Work {
				k.d = "out"
			}
			if _, dup := preContent[k]; dup {
				continue
			}
			if os.WriteFile(filepath.Join(d, name), data, 0o644) == nil {
				preContent[k] = data
				preOrder = append(preOrder, k)
			}
		}
	}
	script := map[string]interface{}{"opts": o, "events": in.Events}
	traceSet := "trace=open,openat,write,pwrite64,fsync,fdatasync,ftruncate,close,link,linkat,unlink,unlinkat,rename,renameat,renameat2,exit_group"
	straceArgs := []string{"-f", "-o", "", "-s", "4000000", "-xx", "-e", traceSet}
	if f := in.Fault; f != nil {
		if _, ok := sysWhat[f.Sys]; !ok || faultErrs[f.Sys] == nil || f.When < 1 {
			return nil, "bad fault in input " + in.Name
		}
		script["pad"] = map[string]interface{}{"sys": f.Sys, "n": padFor(f.Sys)}
		straceArgs = append(straceArgs, "-e", fmt.Sprintf("inject=%s:error=%s:when=%d", f.Sys, f.Err, padFor(f.Sys)+f.When))
	}
	sb, _ := json.Marshal(script)
	scriptPath := filepath.Join(dir, "script.json")
	markerPath := filepath.Join(dir, "marker.log")
	tracePath := filepath.Join(dir, "trace.txt")
	os.WriteFile(scriptPath, sb, 0o644)
	ctx, cancel := context.WithTimeout(context.Background(), 120*time.Second)
	defer cancel()
	exitFromWait := false
	straceArgs[2] = tracePath
	cmd := exec.CommandContext(ctx, "strace", append(straceArgs, bin)...)
	cmd.Env = append(os.Environ(), "NSQ_VERIF_DRIVER=1", "NSQ_VERIF_SCRIPT="+scriptPath, "NSQ_VERIF_MARKER="+markerPath, "TZ=UTC")
	cmd.Dir = dir
	outb, _ := cmd.CombinedOutput()
	if ctx.Err() != nil {
		return nil, "timeout running the scripted driver: " + in.Name
	}
	tr, err := parseTrace(tracePath, outDir, workDir, markerPath, o.GZIP)
	if err != nil {
		return nil, "trace: " + err.Error()
	}
	if tr.ExitCode < 0 && cmd.ProcessState != nil && cmd.ProcessState.ExitCode() >= 0 {
		// the trace holds no exit record (seen once under heavy load): strace itself exits with
		// its tracee's status, so the wait status says how the run ended
		tr.ExitCode = cmd.ProcessState.ExitCode()
		if tr.ExitCode == 1 {
			tr.Ops = append(tr.Ops, obsOp{Kind: "exit", Code: 1})
		}
		exitFromWait = true
	}
	if len(tr.Markers) == 0 {
		return nil, "no marker lines from the verif driver (" + in.Name + "): " + string(outb)
	}
	bodies := map[int][]byte{}
	for _, e := range in.Events {
		if e.K == "msg" {
			b, _ := base64.StdEncoding.DecodeString(e.Body)
			bodies[e.ID] = b
		}
	}
	touchBody := map[int][]byte{}
	for i, e := range in.Events {
		if e.K == "touch" {
			touchBody[i], _ = base64.StdEncoding.DecodeString(e.Body)
		}
	}
	var cases []lib.Case
	tags := []string{
		"gzip=" + lib.CoqBool(o.GZIP), "work=" + lib.CoqBool(in.Work), "skip_empty=" + lib.CoqBool(o.SkipEmpty),
		fmt.Sprintf("mif=%d", o.MaxInFlight), "fmt=" + o.FilenameFormat, "dtfmt=" + o.DatetimeFormat,
		fmt.Sprintf("pre=%d", len(preOrder)), "ticks=" + lib.CoqBool(in.Ticks),
	}
	switch {
	case o.RotateSize > 0:
		tags = append(tags, "rotate_size=tiny")
	default:
		tags = append(tags, "rotate_size=0")
	}
	switch o.RotateIntervalNs {
	case 0:
		tags = append(tags, "rotate_interval=0")
	case 1:
		tags = append(tags, "rotate_interval=1ns")
	case int64(time.Hour):
		tags = append(tags, "rotate_interval=1h")
	default:
		tags = append(tags, "rotate_interval=400ms")
	}

	// Fmt case
	var start marker
	for _, m := range tr.Markers {
		if m["m"] == "START" || m["m"] == "NEWERR" {
			start = m
			break
		}
	}
	if start == nil {
		return nil, "no START marker: " + in.Name
	}
	got := "None"
	pid := "0"
	if start["m"] == "START" {
		got = "(Some " + lib.CoqBytes([]byte(fmt.Sprint(start["filename_format"]))) + ")"
		pid = fmt.Sprint(num(start, "pid"))
	}
	fc := fmt.Sprintf("(J19.Fmt (J19.mkFmt %s %s %s %s %s %s %s %s %s))", lib.CoqBool(o.GZIP), lib.CoqZ(o.RotateSize), lib.CoqZ(o.RotateIntervalNs),
		lib.CoqBool(in.Work), lib.CoqBytes([]byte(o.FilenameFormat)), lib.CoqBytes([]byte(o.Topic)), lib.CoqBytes([]byte(o.HostIdentifier)),
		lib.CoqBytes([]byte(pid)), got)
	cases = append(cases, lib.Case{Name: in.Name + "/fmt", Coq: fc, Input: in, Tags: []string{"kind=fmt", "fmt_result=" + fmt.Sprint(start["m"])},
		Nontrivial: true, Obs: map[string]interface{}{"filename_format": start["filename_format"]}})
	if start["m"] == "NEWERR" {
		return cases, ""
	}

	// Run case: events with their clock readings
	type evrec struct{ ev, done marker }
	recs := map[int]*evrec{}
	maxI := -1
	var lastDone marker
	for _, m := range tr.Markers {
		switch m["m"] {
		case "EV":
			i := int(num(m, "i"))
			recs[i] = &evrec{ev: m}
			if i > maxI {
				maxI = i
			}
		case "DONE":
			i := int(num(m, "i"))
			if recs[i] != nil {
				recs[i].done = m
			}
			lastDone = m
		}
	}
	ambiguous := ""
	var jevs, dts []string
	firstDt := ""
	nmsg := 0
	for i := 0; i <= maxI; i++ {
		rc := recs[i]
		if rc == nil {
			continue
		}
		k := fmt.Sprint(rc.ev["k"])
		t0 := num(rc.ev, "t0")
		dt0 := fmt.Sprint(rc.ev["dt0"])
		if firstDt == "" {
			firstDt = dt0
		}
		open0 := num(rc.ev, "open0")
		t := t0
		if rc.done != nil {
			t1 := num(rc.done, "t1")
			if fmt.Sprint(rc.done["dt1"]) != dt0 {
				ambiguous = "datetime rendering changed during event"
			}
			if o.RotateIntervalNs > 0 && (t0-open0 > o.RotateIntervalNs) != (t1-open0 > o.RotateIntervalNs) {
				ambiguous = "rotate-interval threshold crossed during event"
			}
			if open1 := num(rc.done, "open1"); open1 != open0 {
				t = open1
			}
		} else if strings.Contains(o.DatetimeFormat, "%S") || (o.RotateIntervalNs > 1 && o.RotateIntervalNs < int64(time.Hour)) {
			ambiguous = "process ended inside a time-sensitive event"
		}
		switch k {
		case "msg":
			id := int(num(rc.ev, "id"))
			jevs = append(jevs, fmt.Sprintf("(J19.JMsg %d %s %s)", id, lib.CoqBytes(bodies[id]), lib.CoqZ(t)))
			dts = append(dts, fmt.Sprintf("(%s, %s)", lib.CoqZ(t), lib.CoqBytes([]byte(dt0))))
			nmsg++
		case "hup":
			jevs = append(jevs, "J19.JHup")
		case "touch":
			for _, m := range tr.Markers {
				if m["m"] == "TOUCHED" && int(num(m, "i")) == i {
					jevs = append(jevs, fmt.Sprintf("(J19.JTouch %s %s)", coqKey("out", fmt.Sprint(m["name"])), lib.CoqBytes(touchBody[i])))
				}
			}
		case "term":
			jevs = append(jevs, "J19.JTerm")
		}
	}
	dts = append(dts, fmt.Sprintf("(%s, %s)", lib.CoqZ(0), lib.CoqBytes([]byte(firstDt))))
	if in.Ticks {
		for _, m := range tr.Markers {
			if m["m"] == "DONE" && fmt.Sprint(m["dt1"]) != firstDt {
				ambiguous = "datetime changed in a ticker run"
			}
		}
	}
	if tr.Missed != "" { // the tracer failed a call that is not a file operation of the router (e.g. a runtime eventfd write)
		ambiguous = "injected failure missed the write path"
	}
	if ambiguous != "" {
		cases = append(cases, lib.Case{Name: in.Name + "/ambiguous", Coq: "(J19.Black (J19.mkBlack [] [] [] []))", Input: in,
			Tags: []string{"kind=run-dropped", "dropped=" + ambiguous}, Nontrivial: false, Obs: map[string]interface{}{"missed": tr.Missed}})
		return cases, ""
	}
	// the injected failure in the model's terms (J19.r_faults)
	var faults []string
	mode := "plain"
	if o.GZIP {
		mode = "gzip"
	}
	switch {
	case in.Fault == nil:
		tags = append(tags, "fault=none")
	case tr.Fault == nil:
		tags = append(tags, "fault=planned-not-reached", "fault_planned="+in.Fault.Sys)
	default:
		fo := tr.Fault
		tags = append(tags, "fault_planned="+in.Fault.Sys, "fault_errno="+in.Fault.Err,
			fmt.Sprintf("fault=%s/%s/during-%s", fo.What, mode, fo.EvKind))
		switch fo.What {
		case "write":
			if !o.GZIP {
				faults = append(faults, fmt.Sprintf("(FWrite, %d, %d%%nat)", fo.MsgOrd, fo.Partial))
				tags = append(tags, fmt.Sprintf("fault_write_partial=%v", fo.Partial > 0))
			} else {
				// a write(2) of the gzip stream: issued by the Write of the current message (member
				// header, a full compressor block) or by the next gzipWriter.Close (rest, trailer)
				if fo.EvKind == "msg" {
					faults = append(faults, fmt.Sprintf("(FWrite, %d, 0%%nat)", fo.MsgOrd))
				}
				faults = append(faults, fmt.Sprintf("(FGzClose, %d, 0%%nat)", fo.Members+1))
			}
		default:
			// the when-th fsync / close / link / unlink / open of the router is the when-th of the model
			faults = append(faults, fmt.Sprintf("(%s, %d, 0%%nat)", coqFkind[fo.What], in.Fault.When))
		}
	}
	var pre []string
	for _, k := range preOrder {
		pre = append(pre, fmt.Sprintf("(%s, %s)", coqKey(k.d, k.n), lib.CoqBytes(preContent[k])))
	}
	var ops []string
	kinds := map[string]int{}
	for _, op := range tr.Ops {
		ops = append(ops, coqOp(op, bodies))
		kk := op.Kind
		if (op.Kind == "create" || op.Kind == "link") && !op.OK {
			kk += "-eexist"
		}
		kinds[kk]++
	}
	for kk := range kinds {
		tags = append(tags, "op="+kk)
	}
	final := "None"
	if lastDone != nil && tr.ExitCode == 0 && !in.Ticks { // with the ticker on, a tick may run after the last reading
		final = fmt.Sprintf("(Some (%s, %d, %s))", lib.CoqBytes([]byte(fmt.Sprint(lastDone["filename"]))), num(lastDone, "rev"), lib.CoqZ(num(lastDone, "filesize")))
	}
	exit := tr.ExitCode
	if exit < 0 {
		exit = 99
	}
	tags = append(tags, fmt.Sprintf("exit=%d", exit), "kind=run")
	if exitFromWait {
		tags = append(tags, "exit-status-from-wait")
	}
	coq := fmt.Sprintf("(J19.Run (J19.mkRun %s %s %s %s %s %d%%nat %s %s %s %s %s %s %s %d %s))",
		lib.CoqBool(o.GZIP), lib.CoqZ(o.RotateSize), lib.CoqZ(o.RotateIntervalNs), lib.CoqBool(in.Work), lib.CoqBool(o.SkipEmpty), o.MaxInFlight,
		lib.CoqBytes([]byte(fmt.Sprint(start["filename_format"]))), lib.CoqList(dts), lib.CoqBool(in.Ticks), lib.CoqList(faults), lib.CoqList(pre),
		lib.CoqList(jevs), lib.CoqList(ops), exit, final)
	cases = append(cases, lib.Case{Name: in.Name, Coq: coq, Input: in, Tags: tags, Nontrivial: nmsg > 0,
		Obs: map[string]interface{}{"exit": tr.ExitCode, "ops": len(tr.Ops), "unknown": tr.Unknown, "fins": kinds["fin"], "fault": tr.Fault}})
	return cases, ""
}
