package main

// Evaluations of the real strftime() (apps/nsq_to_file/strftime.go) through the verif hook,
// judged against coq/model/Strftime.v.

import (
	"bytes"
	"encoding/base64"
	"encoding/json"
	"fmt"
	"os"
	"os/exec"
	"strings"

	"verifharness/lib"
)

type strfIn struct {
	F string `json:"f"`
	T int64  `json:"t"`
}

func genStrf(r *lib.Rand, n int) []strfIn {
	convs := "BbmAadHIMSYypZz%"
	punct := "-_.:/ ,+=~@#()[]"
	times := []int64{0, 1, 59, 60, 3599, 3600, 43199, 43200, 86399, 86400, 951782400, 951868799, 951868800, // 2000-02-29
		1078012800, 4107542399, 4102444800, 1709164800, 1735689599, 1735689600, 2147483647, 2147483648, 253402300799}
	var out []strfIn
	for i := 0; i < n; i++ {
		var sb strings.Builder
		k := 1 + r.Intn(7)
		for j := 0; j < k; j++ {
			switch {
			case r.Chance(70):
				sb.WriteByte('%')
				sb.WriteByte(convs[r.Intn(len(convs))])
			case r.Chance(85):
				sb.WriteByte(punct[r.Intn(len(punct))])
			case r.Chance(50):
				sb.WriteByte('%') // lone or unknown conversion
				if r.Bool() {
					sb.WriteByte("qQ1 "[r.Intn(4)])
				}
			default:
				sb.WriteString([]string{"x", "log", "1", "T", "Jan", "2"}[r.Intn(6)]) // outside the modelled class
			}
		}
		var t int64
		if r.Chance(30) {
			t = times[r.Intn(len(times))]
		} else {
			t = int64(r.U64() % 4102444800) // 1970 .. 2100
		}
		out = append(out, strfIn{F: sb.String(), T: t})
	}
	out = append(out, strfIn{F: "%Y-%m-%d_%H", T: 1790372740}, strfIn{F: "%Y-%m-%d_%H", T: 951868799})
	return out
}

func runStrf(bin string, qs []strfIn) ([]lib.Case, string) {
	in, _ := json.Marshal(qs)
	cmd := exec.Command(bin)
	cmd.Env = append(os.Environ(), "NSQ_VERIF_DRIVER=strftime", "TZ=UTC")
	cmd.Stdin = bytes.NewReader(in)
	out, err := cmd.Output()
	if err != nil {
		return nil, "strftime hook: " + err.Error()
	}
	var res []string
	if err := json.Unmarshal(out, &res); err != nil || len(res) != len(qs) {
		return nil, "strftime hook: bad output"
	}
	var cases []lib.Case
	for i, q := range qs {
		got, _ := base64.StdEncoding.DecodeString(res[i])
		modelled := true
		lit := strings.NewReplacer("%B", "", "%b", "", "%m", "", "%A", "", "%a", "", "%d", "", "%H", "", "%I", "", "%M", "", "%S", "",
			"%Y", "", "%y", "", "%p", "", "%Z", "", "%z", "", "%%", "").Replace(q.F)
		for _, ch := range lit {
			if (ch >= '0' && ch <= '9') || (ch >= 'a' && ch <= 'z') || (ch >= 'A' && ch <= 'Z') {
				modelled = false
			}
		}
		tag := "strf=modelled"
		if !modelled {
			tag = "strf=outside-modelled-class"
		}
		coq := fmt.Sprintf("(J19.Strf (J19.mkStrf %s %s %s))", lib.CoqBytes([]byte(q.F)), lib.CoqZ(q.T), lib.CoqBytes(got))
		cases = append(cases, lib.Case{Name: fmt.Sprintf("strf-%d", i), Coq: coq, Input: input{Kind: "strf", Name: fmt.Sprintf("strf-%d", i), Strf: &qs[i]},
			Tags: []string{"kind=strf", tag}, Nontrivial: modelled, Obs: map[string]interface{}{"got": string(got)}})
	}
	return cases, ""
}
