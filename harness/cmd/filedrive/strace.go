package main

// Projection of an strace log of the verif init-driver onto the operation language of
// coq/model/FileOS.v: creates, writes (plain) or completed gzip members, fsyncs, closes,
// links, unlinks, renames, and the marker lines (EV / DONE / FIN / ...) the hook writes
// with one pwrite64(2) each, all in syscall completion order.  A system call of the router
// thread that the tracer made fail (strace -e inject=..., marked "(INJECTED)") becomes a
// "fail" operation, and is described in the model's terms (faultObs).

import (
	"bufio"
	"bytes"
	"compress/gzip"
	"encoding/json"
	"fmt"
	"io"
	"os"
	"regexp"
	"strconv"
	"strings"
)

type obsOp struct {
	Kind   string // create write member fsync close link unlink rename fin exit trunc fail
	What   string // fail: write fsync close link unlink open
	Dir    string // "out" | "work"
	Name   string
	Dir2   string
	Name2  string
	Data   []byte
	Excl   bool
	Append bool
	Trunc  bool
	OK     bool
	ID     int
	Code   int
}

type marker map[string]interface{}

// faultObs: the injected failure, as far as the trace determines it.
type faultObs struct {
	What    string // write fsync close link unlink open
	EvIndex int    // index of the scripted event during which it happened (-1: none)
	EvKind  string
	MsgOrd  int // number of msg events started so far (= ordinal of the current message write)
	Partial int // bytes the router wrote to output files since the event began (plain: of the current line)
	Members int // gzip members completed so far
}

type traceResult struct {
	Ops       []obsOp
	Markers   []marker // in order, FIN included
	ExitCode  int
	Unknown   []string
	RouterTid int
	Fault     *faultObs
	Missed    string // an injected failure that did not hit a file operation of the router
}

var (
	reFull    = regexp.MustCompile(`^(\d+)\s+(\w+)\((.*)\)\s+=\s+(-?\d+|\?)(.*)$`)
	reUnfin   = regexp.MustCompile(`^(\d+)\s+(\w+)\((.*) <unfinished \.\.\.>$`)
	reResume  = regexp.MustCompile(`^(\d+)\s+<\.\.\. (\w+) resumed>(.*)\)\s+=\s+(-?\d+|\?)(.*)$`)
	reExited  = regexp.MustCompile(`^(\d+)\s+\+\+\+ exited with (\d+) \+\+\+$`)
	reStr     = regexp.MustCompile(`"((?:\\x[0-9a-f]{2})*)"`)
	reLeadInt = regexp.MustCompile(`^\s*\d+`)
)

func unhex(s string) []byte {
	out := make([]byte, 0, len(s)/4)
	for i := 0; i+3 < len(s); i += 4 {
		v, _ := strconv.ParseUint(s[i+2:i+4], 16, 8)
		out = append(out, byte(v))
	}
	return out
}

func strArgs(args string) [][]byte {
	var out [][]byte
	for _, m := range reStr.FindAllStringSubmatch(args, -1) {
		out = append(out, unhex(m[1]))
	}
	return out
}

type fdInfo struct {
	path   string
	marker bool
}

// completeMembers decodes the complete gzip members at the start of b.
func completeMembers(b []byte) (members [][]byte, consumed int) {
	for consumed < len(b) {
		br := bytes.NewReader(b[consumed:])
		zr, err := gzip.NewReader(br)
		if err != nil {
			return
		}
		zr.Multistream(false)
		data, err := io.ReadAll(zr)
		if err != nil {
			return
		}
		members = append(members, data)
		consumed = len(b) - br.Len()
	}
	return
}

func parseTrace(path, outDir, workDir, markerPath string, gz bool) (*traceResult, error) {
	f, err := os.Open(path)
	if err != nil {
		return nil, err
	}
	defer f.Close()
	res := &traceResult{ExitCode: -1}
	fds := map[int]*fdInfo{}
	pendingArgs := map[string]string{} // pid -> "syscall\x00args"
	gzbuf := map[string][]byte{}       // path -> bytes not yet part of a complete member
	var markerBuf []byte
	rawPaths := map[string]bool{}
	pendingTouch := ""
	evIndex, evKind, msgOrd, evBytes, members := -1, "", 0, 0, 0
	exited := false
	// an injected failure: only a file operation of the router thread on an output file
	// counts as the fault of the run; anything else is reported as missed
	fault := func(tid int, what, d, n string, onFile bool, line string) {
		if tid != res.RouterTid || res.RouterTid == 0 || !onFile {
			res.Missed = what + " injected outside the router's file operations: " + line
			return
		}
		if res.Fault != nil {
			res.Missed = "more than one injected failure"
			return
		}
		res.Fault = &faultObs{What: what, EvIndex: evIndex, EvKind: evKind, MsgOrd: msgOrd, Partial: evBytes, Members: members}
		res.Ops = append(res.Ops, obsOp{Kind: "fail", What: what, Dir: d, Name: n})
	}

	classify := func(p string) (string, string, bool) {
		if strings.HasPrefix(p, outDir+"/") {
			return "out", p[len(outDir)+1:], true
		}
		if workDir != outDir && strings.HasPrefix(p, workDir+"/") {
			return "work", p[len(workDir)+1:], true
		}
		return "", "", false
	}
	emitWrite := func(d, n string, data []byte) {
		if len(data) == 0 {
			return
		}
		if k := len(res.Ops) - 1; k >= 0 && res.Ops[k].Kind == "write" && res.Ops[k].Dir == d && res.Ops[k].Name == n {
			res.Ops[k].Data = append(res.Ops[k].Data, data...)
			return
		}
		res.Ops = append(res.Ops, obsOp{Kind: "write", Dir: d, Name: n, Data: append([]byte{}, data...)})
	}
	handle := func(pid, sys, args, ret, tail string) {
		rv, _ := strconv.Atoi(ret)
		tid, _ := strconv.Atoi(pid)
		injected := strings.Contains(tail, "(INJECTED)")
		switch sys {
		case "openat", "open":
			ss := strArgs(args)
			if len(ss) < 1 {
				return
			}
			p := string(ss[0])
			if p == markerPath || strings.HasSuffix(markerPath, "/"+p) {
				if rv >= 0 {
					fds[rv] = &fdInfo{path: p, marker: true}
				}
				return
			}
			d, n, ok := classify(p)
			if !ok {
				return
			}
			if !strings.Contains(args, "O_WRONLY") && !strings.Contains(args, "O_RDWR") && !strings.Contains(args, "O_CREAT") {
				if rv >= 0 {
					fds[rv] = &fdInfo{path: ""}
				}
				return
			}
			op := obsOp{Kind: "create", Dir: d, Name: n, Excl: strings.Contains(args, "O_EXCL"),
				Append: strings.Contains(args, "O_APPEND"), Trunc: strings.Contains(args, "O_TRUNC")}
			if p == pendingTouch {
				pendingTouch = ""
				if rv >= 0 {
					rawPaths[p] = true
				}
			}
			if injected {
				fault(tid, "open", d, n, true, sys+" "+p+" "+tail)
				return
			}
			if rv >= 0 {
				op.OK = true
				fds[rv] = &fdInfo{path: p}
				delete(gzbuf, p)
			} else if strings.Contains(tail, "EEXIST") {
				op.OK = false
			} else {
				res.Unknown = append(res.Unknown, sys+" "+p+" "+tail)
				return
			}
			res.Ops = append(res.Ops, op)
		case "write", "pwrite64":
			i := strings.Index(args, ",")
			if i < 0 {
				return
			}
			fd, _ := strconv.Atoi(strings.TrimSpace(args[:i]))
			fi := fds[fd]
			if injected && sys == "write" {
				if fi != nil && !fi.marker {
					if d, n, ok := classify(fi.path); ok {
						fault(tid, "write", d, n, true, sys+" "+tail)
						return
					}
				}
				fault(tid, "write", "", "", false, sys+"("+strings.TrimSpace(args[:i])+") "+tail)
				return
			}
			if fi == nil || rv <= 0 {
				return
			}
			ss := strArgs(args)
			if len(ss) < 1 {
				return
			}
			data := ss[0]
			if rv < len(data) {
				data = data[:rv]
			}
			if fi.marker {
				markerBuf = append(markerBuf, data...)
				for {
					j := bytes.IndexByte(markerBuf, '\n')
					if j < 0 {
						break
					}
					var m marker
					dec := json.NewDecoder(bytes.NewReader(markerBuf[:j]))
					dec.UseNumber()
					if dec.Decode(&m) == nil {
						res.Markers = append(res.Markers, m)
						switch m["m"] {
						case "ROUTER":
							res.RouterTid, _ = strconv.Atoi(fmt.Sprint(m["tid"]))
						case "EV":
							evIndex, _ = strconv.Atoi(fmt.Sprint(m["i"]))
							evKind = fmt.Sprint(m["k"])
							evBytes = 0
							if evKind == "msg" {
								msgOrd++
							}
						}
						if m["m"] == "TOUCHING" {
							pendingTouch = fmt.Sprint(m["path"]) // the foreign file written by the hook itself is plain text
						}
						if m["m"] == "FIN" {
							id, _ := strconv.Atoi(fmt.Sprint(m["id"]))
							res.Ops = append(res.Ops, obsOp{Kind: "fin", ID: id})
						}
					}
					markerBuf = markerBuf[j+1:]
				}
				return
			}
			d, n, ok := classify(fi.path)
			if !ok {
				return
			}
			if tid == res.RouterTid {
				evBytes += len(data)
			}
			if gz && !rawPaths[fi.path] {
				buf := append(gzbuf[fi.path], data...)
				ms, used := completeMembers(buf)
				for _, mdata := range ms {
					res.Ops = append(res.Ops, obsOp{Kind: "member", Dir: d, Name: n, Data: mdata})
					members++
				}
				gzbuf[fi.path] = buf[used:]
			} else {
				emitWrite(d, n, data)
			}
		case "fsync", "fdatasync":
			fd, _ := strconv.Atoi(strings.TrimSpace(args))
			if injected {
				if fi := fds[fd]; fi != nil && !fi.marker {
					if d, n, ok := classify(fi.path); ok {
						fault(tid, "fsync", d, n, true, sys+" "+tail)
						return
					}
				}
				fault(tid, "fsync", "", "", false, sys+"("+args+") "+tail)
				return
			}
			if fi := fds[fd]; fi != nil && !fi.marker && rv == 0 {
				if d, n, ok := classify(fi.path); ok {
					res.Ops = append(res.Ops, obsOp{Kind: "fsync", Dir: d, Name: n})
				}
			}
		case "ftruncate":
			i := strings.Index(args, ",")
			if i < 0 {
				return
			}
			fd, _ := strconv.Atoi(strings.TrimSpace(args[:i]))
			if fi := fds[fd]; fi != nil && !fi.marker && rv == 0 {
				if d, n, ok := classify(fi.path); ok {
					res.Ops = append(res.Ops, obsOp{Kind: "create", Dir: d, Name: n, Trunc: true, OK: true})
				}
			}
		case "close":
			fd, _ := strconv.Atoi(strings.TrimSpace(args))
			if injected { // the call was not made: the descriptor stays open
				if fi := fds[fd]; fi != nil && !fi.marker {
					if d, n, ok := classify(fi.path); ok {
						fault(tid, "close", d, n, true, sys+" "+tail)
						return
					}
				}
				fault(tid, "close", "", "", false, sys+"("+args+") "+tail)
				return
			}
			if fi := fds[fd]; fi != nil {
				// close(2) is not reported: it has no effect on file contents and Go closes
				// leaked descriptors from a finalizer at arbitrary instants
				delete(fds, fd)
			}
		case "link", "linkat":
			ss := strArgs(args)
			if len(ss) < 2 {
				return
			}
			d1, n1, ok1 := classify(string(ss[0]))
			d2, n2, ok2 := classify(string(ss[1]))
			if !ok1 || !ok2 {
				return
			}
			op := obsOp{Kind: "link", Dir: d1, Name: n1, Dir2: d2, Name2: n2}
			if injected {
				fault(tid, "link", d1, n1, true, sys+" "+tail)
				return
			}
			if rv == 0 {
				op.OK = true
			} else if !strings.Contains(tail, "EEXIST") {
				res.Unknown = append(res.Unknown, sys+" "+tail)
				return
			}
			res.Ops = append(res.Ops, op)
		case "unlink", "unlinkat":
			ss := strArgs(args)
			if injected && len(ss) >= 1 {
				d, n, ok := classify(string(ss[0]))
				fault(tid, "unlink", d, n, ok, sys+" "+tail)
				return
			}
			if len(ss) < 1 || rv != 0 {
				return
			}
			if d, n, ok := classify(string(ss[0])); ok {
				res.Ops = append(res.Ops, obsOp{Kind: "unlink", Dir: d, Name: n})
			}
		case "rename", "renameat", "renameat2":
			ss := strArgs(args)
			if len(ss) < 2 || rv != 0 {
				return
			}
			d1, n1, ok1 := classify(string(ss[0]))
			d2, n2, ok2 := classify(string(ss[1]))
			if ok1 && ok2 {
				res.Ops = append(res.Ops, obsOp{Kind: "rename", Dir: d1, Name: n1, Dir2: d2, Name2: n2})
			}
		case "exit_group":
			// The process terminates once: only the first exit_group is the exit operation.
			// (Seen twice in ~28000 traces under heavy load: the log of a fatally exiting run held
			// two exit_group(1) records; the origin was not reproduced in ~3000 further runs.)
			if exited {
				res.Unknown = append(res.Unknown, "second exit_group("+strings.TrimSpace(args)+")")
				return
			}
			m := reLeadInt.FindString(args) // "1", also inside "1 <unfinished ...>"
			if m == "" {
				res.Unknown = append(res.Unknown, "exit_group("+args+")")
				return
			}
			exited = true
			code, _ := strconv.Atoi(strings.TrimSpace(m))
			res.ExitCode = code
			if code == 1 {
				res.Ops = append(res.Ops, obsOp{Kind: "exit", Code: 1})
			}
		}
	}

	sc := bufio.NewScanner(f)
	sc.Buffer(make([]byte, 1<<20), 1<<28)
	for sc.Scan() {
		line := sc.Text()
		if m := reUnfin.FindStringSubmatch(line); m != nil {
			pendingArgs[m[1]] = m[2] + "\x00" + m[3]
			continue
		}
		if m := reResume.FindStringSubmatch(line); m != nil {
			prev := pendingArgs[m[1]]
			delete(pendingArgs, m[1])
			parts := strings.SplitN(prev, "\x00", 2)
			a := ""
			if len(parts) == 2 && parts[0] == m[2] {
				a = parts[1]
			}
			handle(m[1], m[2], a+m[3], m[4], m[5])
			continue
		}
		if m := reFull.FindStringSubmatch(line); m != nil {
			handle(m[1], m[2], m[3], m[4], m[5])
			continue
		}
		if m := reExited.FindStringSubmatch(line); m != nil {
			if res.ExitCode < 0 {
				res.ExitCode, _ = strconv.Atoi(m[2])
			}
		}
	}
	// an exit_group that never "returns" is printed as "exit_group(1) = ?"
	return res, sc.Err()
}
