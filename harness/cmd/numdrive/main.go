// numdrive: correspondence driver for the numeric half of C04 (and the RDY range of C03):
// every "way of writing the number" goes
//   - to the real protocol.ByteToBase10 (verifshim) and the real msToDuration (hook), and
//   - to a live in-process nsqd: REQ (the effective delay is read from the deferred heap
//     through a verif accessor, never by sleeping), DPUB, RDY over TCP, /pub?defer= over HTTP,
//     and IDENTIFY msg_timeout followed by a real delivery and real TOUCHes.
package main

import (
	"bufio"
	"bytes"
	"encoding/base64"
	"encoding/binary"
	"encoding/json"
	"flag"
	"fmt"
	"io"
	"math"
	"net"
	"net/http"
	"net/url"
	"strings"
	"time"

	"github.com/nsqio/nsq/nsqd"
	"github.com/nsqio/nsq/verifshim"
	"verifharness/lib"
	"verifharness/nsqdlib"
)

func z(v int64) string {
	if v < 0 {
		return fmt.Sprintf("(%d)", v)
	}
	return fmt.Sprintf("%d", v)
}

func zbytes(b []byte) string {
	parts := make([]string, len(b))
	for i, x := range b {
		parts[i] = fmt.Sprintf("%d", x)
	}
	return "[" + strings.Join(parts, ";") + "]"
}

// ---------------------------------------------------------------- spellings

type spelling struct {
	s     []byte
	class string
}

func digitsOnly(b []byte) bool {
	for _, c := range b {
		if c < '0' || c > '9' {
			return false
		}
	}
	return true
}

func boundaries(maxReqMs, maxRdy int64) []spelling {
	var out []spelling
	add := func(class string, ss ...string) {
		for _, s := range ss {
			out = append(out, spelling{[]byte(s), class})
		}
	}
	u := func(v uint64) string { return fmt.Sprintf("%d", v) }
	add("zero", "0", "00", "0000000000000000000000000000000000000000")
	add("small", "1", "2", "10", "999", "1000", "1001")
	for _, m := range []int64{maxReqMs, maxRdy} {
		for d := int64(-2); d <= 2; d++ {
			if m+d >= 0 {
				add("config-boundary", fmt.Sprintf("%d", m+d))
			}
		}
		add("config-boundary-leading-zeros", fmt.Sprintf("0%d", m), fmt.Sprintf("000000000000000000000%d", m+1), fmt.Sprintf("00%d", m+1))
	}
	// ms -> ns overflow boundary: 9223372036854 ms is the last that fits
	for d := int64(-2); d <= 2; d++ {
		add("ns-overflow-boundary", fmt.Sprintf("%d", 9223372036854+d))
	}
	for k := uint64(0); k <= 2; k++ {
		add("2^63", u(1<<63-k), u(1<<63+k))
		add("2^64", u(math.MaxUint64-k))
	}
	add("2^64", "18446744073709551616", "18446744073709551617", "18446744073709551618", "18446744073709554116", "18446744073713151616")
	add("F1-witness", "18446744073710", "18446744073709551617", "18446744073709552", "1844674407370955162")
	add("10^19", "10000000000000000000", "9999999999999999999", "10000000000000000001")
	add("30-digit", "100000000000000000000000000000", "999999999999999999999999999999", "123456789012345678901234567890",
		"000000000000000000000000000001", "340282366920938463463374607431768211456", "340282366920938463463374607431768211457")
	add("empty", "")
	add("non-digit", "-1", "+1", "-0", "+0", "1.5", "1e3", "0x10", "1a", "a1", "a", "1_000", "١", "１", "\t1", "1\t", "1,000", "０",
		"/", ":", "9:", "0/", "12345678901234567890123a", "18446744073709551616x", "\x00", "1\x00", "\xff")
	add("embedded-space", " 1", "1 ", "1 2", " ", "  5", "7 x", "x 7", "3600000 1", "99999999999999999999 1")
	return out
}

func randomSpelling(r *lib.Rand, maxReqMs, maxRdy int64) spelling {
	digits := func(n int) []byte {
		b := make([]byte, n)
		for i := range b {
			b[i] = byte('0' + r.Intn(10))
		}
		return b
	}
	zeros := func() []byte { return bytes.Repeat([]byte("0"), []int{0, 0, 0, 1, 2, 7, 25}[r.Intn(7)]) }
	switch x := r.Intn(100); {
	case x < 30: // in range for REQ/DPUB
		v := int64(r.U64() % uint64(maxReqMs+1))
		if r.Chance(30) {
			v = int64(r.Intn(3000))
		}
		return spelling{append(zeros(), []byte(fmt.Sprintf("%d", v))...), "random-in-range"}
	case x < 45: // just around the configured maxima
		m := []int64{maxReqMs, maxRdy}[r.Intn(2)]
		v := m + int64(r.Intn(2001)) - 1000
		if v < 0 {
			v = 0
		}
		return spelling{append(zeros(), []byte(fmt.Sprintf("%d", v))...), "random-near-config-max"}
	case x < 60: // anywhere in uint64
		return spelling{append(zeros(), []byte(fmt.Sprintf("%d", r.U64()>>uint(r.Intn(64))))...), "random-uint64"}
	case x < 72: // around 2^63 / 2^64 / ms overflow
		base := []uint64{1 << 63, math.MaxUint64 - 5000, 9223372036854, 18446744073709}[r.Intn(4)]
		return spelling{append(zeros(), []byte(fmt.Sprintf("%d", base+uint64(r.Intn(5000))))...), "random-near-2^63/2^64"}
	case x < 86: // longer than 20 digits
		b := digits(20 + r.Intn(25))
		if b[0] == '0' {
			b[0] = '1'
		}
		return spelling{append(zeros(), b...), "random-beyond-64-bit"}
	case x < 95: // one non-digit somewhere
		b := digits(1 + r.Intn(22))
		bad := []byte{'-', '+', '.', 'e', 'x', '_', 'a', '/', ':', 0x00, 0x80, 0xff, '\t', ','}[r.Intn(14)]
		b[r.Intn(len(b))] = bad
		return spelling{b, "random-non-digit"}
	default: // a space somewhere
		b := digits(2 + r.Intn(10))
		b[r.Intn(len(b))] = ' '
		return spelling{b, "random-embedded-space"}
	}
}

// the field the server's tokenizer hands to ByteToBase10
func token(sp []byte) []byte {
	if i := bytes.IndexByte(sp, ' '); i >= 0 {
		return sp[:i]
	}
	return sp
}

func tcpSafe(sp []byte) bool { return !bytes.ContainsAny(sp, "\n\r") }

// ---------------------------------------------------------------- a raw V2 client

type client struct {
	c     net.Conn
	r     *bufio.Reader
	stash [][]byte // message frames read while waiting for something else
}

func dial(addr string) *client {
	c, err := net.DialTimeout("tcp", addr, 5*time.Second)
	if err != nil {
		lib.Fatalf("dial: %v", err)
	}
	c.Write([]byte("  V2"))
	return &client{c: c, r: bufio.NewReader(c)}
}

func (cl *client) send(b []byte) {
	cl.c.SetWriteDeadline(time.Now().Add(10 * time.Second))
	cl.c.Write(b)
}

func (cl *client) frame() (int32, []byte, error) {
	cl.c.SetReadDeadline(time.Now().Add(20 * time.Second))
	var hdr [8]byte
	if _, err := io.ReadFull(cl.r, hdr[:]); err != nil {
		return 0, nil, err
	}
	size := int32(binary.BigEndian.Uint32(hdr[:4]))
	ft := int32(binary.BigEndian.Uint32(hdr[4:]))
	data := make([]byte, size-4)
	if _, err := io.ReadFull(cl.r, data); err != nil {
		return 0, nil, err
	}
	return ft, data, nil
}

// next non-message, non-heartbeat frame; message frames are stashed
func (cl *client) reply() (int32, string, error) {
	for {
		ft, data, err := cl.frame()
		if err != nil {
			return 0, "", err
		}
		if ft == 2 {
			cl.stash = append(cl.stash, data)
			continue
		}
		if ft == 0 && string(data) == "_heartbeat_" {
			cl.send([]byte("NOP\n"))
			continue
		}
		return ft, string(data), nil
	}
}

// next message frame: (id, attempts)
func (cl *client) message() (string, error) {
	for len(cl.stash) == 0 {
		ft, data, err := cl.frame()
		if err != nil {
			return "", err
		}
		if ft == 2 {
			cl.stash = append(cl.stash, data)
		} else if ft == 0 && string(data) == "_heartbeat_" {
			cl.send([]byte("NOP\n"))
		} else {
			return "", fmt.Errorf("unexpected frame %d %q while waiting for a message", ft, data)
		}
	}
	m := cl.stash[0]
	cl.stash = cl.stash[1:]
	return string(m[10:26]), nil
}

const bogusID = "ffffffffffffffff"

// barrier: a TOUCH of an id nobody holds is answered E_TOUCH_FAILED (non-fatal) after
// everything sent before it on this connection has been processed.  Returns the code of
// the first error frame seen: "E_TOUCH_FAILED" = earlier commands were accepted.
func (cl *client) barrier() string {
	cl.send([]byte("TOUCH " + bogusID + "\n"))
	for {
		ft, data, err := cl.reply()
		if err != nil {
			return "CLOSED"
		}
		if ft == 1 {
			return strings.SplitN(data, " ", 2)[0]
		}
	}
}

func handleOf(id string) int64 {
	var mid nsqd.MessageID
	copy(mid[:], id)
	return nsqd.VerifHandleOfID(mid)
}

// ---------------------------------------------------------------- a live world

type world struct {
	idx       int
	n         *nsqd.NSQD
	tcp       string
	http      string
	maxReq    time.Duration
	maxRdy    int64
	maxMsg    time.Duration
	defMsg    time.Duration
	k         int
	reqC      *client
	reqCh     *nsqd.Channel
	reqTopic  *nsqd.Topic
	dpubC     *client
	dpubCh    *nsqd.Channel
	httpCh    *nsqd.Channel
	rdyC      *client
	rdyCh     *nsqd.Channel
	extraTags []string
}

func newWorld(idx int, maxReq time.Duration, maxRdy int64, maxMsg, defMsg time.Duration) *world {
	opts := nsqdlib.NewOpts(nsqdlib.ScratchDir())
	opts.QueueScanInterval = time.Hour
	opts.QueueScanRefreshInterval = time.Hour
	opts.MaxReqTimeout = maxReq
	opts.MaxRdyCount = maxRdy
	opts.MaxMsgTimeout = maxMsg
	opts.MsgTimeout = defMsg
	n, err := nsqdlib.Start(opts)
	if err != nil {
		lib.Fatalf("nsqd start: %v", err)
	}
	w := &world{idx: idx, n: n, tcp: n.RealTCPAddr().String(), http: n.RealHTTPAddr().String(),
		maxReq: maxReq, maxRdy: maxRdy, maxMsg: maxMsg, defMsg: defMsg}
	w.reqTopic = n.GetTopic("req")
	w.dpubCh = n.GetTopic("dpub").GetChannel("c")
	w.httpCh = n.GetTopic("hpub").GetChannel("c")
	return w
}

func (w *world) close() {
	for _, c := range []*client{w.reqC, w.dpubC, w.rdyC} {
		if c != nil {
			c.c.Close()
		}
	}
	w.n.Exit()
}

func (w *world) subscribe(topic, channel string, rdy int) *client {
	cl := dial(w.tcp)
	cl.send([]byte(fmt.Sprintf("SUB %s %s\n", topic, channel)))
	if ft, data, err := cl.reply(); err != nil || ft != 0 || data != "OK" {
		lib.Fatalf("SUB %s %s: %v %d %q", topic, channel, err, ft, data)
	}
	cl.send([]byte(fmt.Sprintf("RDY %d\n", rdy)))
	return cl
}

const huge = int64(1) << 62 // later than any deadline used here; not MaxInt64, so that t+k in a mutated scan cannot wrap

// --- REQ
func (w *world) req(sp []byte) (outcome int, t0, t1, pri int64) {
	if w.reqC == nil {
		w.k++
		name := fmt.Sprintf("c%d#ephemeral", w.k)
		w.reqCh = w.reqTopic.GetChannel(name)
		w.reqC = w.subscribe("req", name, 1)
		// exactly one message circulates on this channel
		if err := w.reqCh.PutMessage(nsqd.NewMessage(w.reqTopic.GenerateID(), []byte("m"))); err != nil {
			lib.Fatalf("put: %v", err)
		}
	}
	id, err := w.reqC.message()
	if err != nil {
		lib.Fatalf("REQ: waiting for the message: %v", err)
	}
	t0 = time.Now().UnixNano()
	w.reqC.send(append(append([]byte("REQ "+id+" "), sp...), '\n'))
	code := w.reqC.barrier()
	t1 = time.Now().UnixNano()
	switch code {
	case "E_TOUCH_FAILED":
		_, ids, _ := w.reqCh.VerifDeferred()
		if p, ok := ids[handleOf(id)]; ok {
			// release it so that it comes back to us
			w.reqCh.VerifProcessDeferred(huge)
			return 1, t0, t1, p
		}
		return 2, t0, t1, 0
	case "E_INVALID":
		w.reqC.c.Close()
		w.reqC = nil // the message stays in flight on the abandoned channel
		return 0, t0, t1, 0
	default:
		lib.Fatalf("REQ %q: unexpected answer %s", sp, code)
	}
	return
}

// --- publishing with a delay: wait until the message shows up deferred or queued
func waitPublished(ch *nsqd.Channel) (outcome int, pri int64) {
	deadline := time.Now().Add(20 * time.Second)
	for {
		heap, _, _ := ch.VerifDeferred()
		if len(heap) > 0 {
			pri = heap[0].Pri
			ch.VerifProcessDeferred(huge)
			ch.VerifDrainMemory()
			return 1, pri
		}
		if got := ch.VerifDrainMemory(); len(got) > 0 {
			return 2, 0
		}
		if time.Now().After(deadline) {
			lib.Fatalf("published message never reached the channel")
		}
		time.Sleep(20 * time.Microsecond)
	}
}

func (w *world) dpub(sp []byte) (outcome int, t0, t1, pri int64) {
	if w.dpubC == nil {
		w.dpubC = dial(w.tcp)
	}
	var b bytes.Buffer
	b.WriteString("DPUB dpub ")
	b.Write(sp)
	b.WriteString("\n")
	binary.Write(&b, binary.BigEndian, int32(1))
	b.WriteString("x")
	t0 = time.Now().UnixNano()
	w.dpubC.send(b.Bytes())
	ft, data, err := w.dpubC.reply()
	if err != nil {
		lib.Fatalf("DPUB %q: %v", sp, err)
	}
	if ft == 0 && data == "OK" {
		outcome, pri = waitPublished(w.dpubCh)
		t1 = time.Now().UnixNano()
		return outcome, t0, t1, pri
	}
	if ft == 1 && strings.HasPrefix(data, "E_INVALID") {
		w.dpubC.c.Close()
		w.dpubC = nil
		return 0, t0, 0, 0
	}
	lib.Fatalf("DPUB %q: unexpected answer %d %q", sp, ft, data)
	return
}

func (w *world) httpDefer(sp []byte) (outcome int, t0, t1, pri int64) {
	u := fmt.Sprintf("http://%s/pub?topic=hpub&defer=%s", w.http, url.QueryEscape(string(sp)))
	t0 = time.Now().UnixNano()
	resp, err := http.Post(u, "application/octet-stream", strings.NewReader("x"))
	if err != nil {
		lib.Fatalf("POST: %v", err)
	}
	body, _ := io.ReadAll(resp.Body)
	resp.Body.Close()
	switch {
	case resp.StatusCode == 200:
		outcome, pri = waitPublished(w.httpCh)
		t1 = time.Now().UnixNano()
		return outcome, t0, t1, pri
	case resp.StatusCode == 400 && strings.Contains(string(body), "INVALID_DEFER"):
		return 0, t0, 0, 0
	}
	lib.Fatalf("POST defer=%q: unexpected answer %d %q", sp, resp.StatusCode, body)
	return
}

// --- RDY
func (w *world) rdy(sp []byte) (accepted bool, count int64) {
	if w.rdyC == nil {
		w.k++
		name := fmt.Sprintf("r%d#ephemeral", w.k)
		w.rdyCh = w.n.GetTopic("rdy").GetChannel(name)
		w.rdyC = w.subscribe("rdy", name, 0)
	}
	w.rdyC.send(append(append([]byte("RDY "), sp...), '\n'))
	switch code := w.rdyC.barrier(); code {
	case "E_TOUCH_FAILED":
		cls := w.rdyCh.VerifClients()
		if len(cls) != 1 {
			lib.Fatalf("RDY: %d clients on the channel", len(cls))
		}
		return true, cls[0].ReadyCount
	case "E_INVALID":
		w.rdyC.c.Close()
		w.rdyC = nil
		return false, 0
	default:
		lib.Fatalf("RDY %q: unexpected answer %s", sp, code)
	}
	return
}

// --- IDENTIFY msg_timeout, then one real delivery and real TOUCHes around the cap
func (w *world) msgTimeout(o *lib.Out, r *lib.Rand, name string, v int64, in map[string]interface{}) {
	cl := dial(w.tcp)
	defer cl.c.Close()
	body, _ := json.Marshal(map[string]interface{}{"msg_timeout": v})
	var b bytes.Buffer
	b.WriteString("IDENTIFY\n")
	binary.Write(&b, binary.BigEndian, int32(len(body)))
	b.Write(body)
	cl.send(b.Bytes())
	ft, data, err := cl.reply()
	if err != nil {
		lib.Fatalf("IDENTIFY: %v", err)
	}
	accepted := ft == 0
	if !accepted && !strings.HasPrefix(data, "E_BAD_BODY") {
		lib.Fatalf("IDENTIFY msg_timeout=%d: unexpected answer %d %q", v, ft, data)
	}
	effective := int64(0)
	tags := []string{"kind=identify-msg-timeout", fmt.Sprintf("identify-accepted=%v", accepted)}
	if accepted {
		w.k++
		tn := fmt.Sprintf("mt%d", w.k)
		topic := w.n.GetTopic(tn)
		ch := topic.GetChannel("c")
		cl.send([]byte(fmt.Sprintf("SUB %s c\n", tn)))
		if ft, data, err := cl.reply(); err != nil || ft != 0 {
			lib.Fatalf("SUB: %v %q", err, data)
		}
		cl.send([]byte("RDY 1\n"))
		ch.PutMessage(nsqd.NewMessage(topic.GenerateID(), []byte("m")))
		id, err := cl.message()
		if err != nil {
			lib.Fatalf("msg_timeout: waiting for the message: %v", err)
		}
		h := handleOf(id)
		// the pump records deliveryTS/pri before it writes the frame, so they are set now
		_, byID, _ := ch.VerifInFlight()
		e, ok := byID[h]
		if !ok {
			lib.Fatalf("delivered message %s not in flight", id)
		}
		effective = e.Pri - e.DeliveryTS
		// real TOUCHes over TCP, deliveryTS moved back so that now+msg_timeout straddles the cap
		maxMsg := int64(w.maxMsg)
		dts := e.DeliveryTS
		for k := 0; k < 2; k++ {
			near := []int64{-int64(time.Second), -int64(20 * time.Millisecond), 0, int64(20 * time.Millisecond), int64(time.Second)}[r.Intn(5)]
			elapsed := maxMsg - effective + near - (e.DeliveryTS - dts)
			if elapsed > 0 {
				ch.VerifShiftDelivery(h, time.Duration(elapsed))
				dts -= elapsed
			}
			t0 := time.Now().UnixNano()
			cl.send([]byte("TOUCH " + id + "\n"))
			if code := cl.barrier(); code != "E_TOUCH_FAILED" {
				lib.Fatalf("TOUCH: %s", code)
			}
			t1 := time.Now().UnixNano()
			_, byID, _ := ch.VerifInFlight()
			p := byID[h].Pri
			o.Emit(lib.Case{Name: fmt.Sprintf("%s-touch%d", name, k),
				Coq:   fmt.Sprintf("(J04.TouchC %s %s %s %s %s %s)", z(effective), z(maxMsg), z(dts), z(t0), z(t1), z(p)),
				Input: in, Tags: []string{"kind=live-touch", fmt.Sprintf("touch-capped=%v", p == dts+maxMsg)}, Nontrivial: true})
		}
	}
	o.Emit(lib.Case{Name: name,
		Coq:   fmt.Sprintf("(J04.MsgTimeout %s %s %s %s %s)", z(int64(w.maxMsg)), z(int64(w.defMsg)), z(v), lib.CoqBool(accepted), z(effective)),
		Input: in, Tags: tags, Nontrivial: true, Obs: map[string]interface{}{"accepted": accepted, "effective_ns": effective}})
}

// ---------------------------------------------------------------- wall clock, real ticker
// A daemon with the default 100 ms scan interval; client-side timestamps only.
func wallClock(o *lib.Out, kinds []string) {
	opts := nsqdlib.NewOpts(nsqdlib.ScratchDir())
	// default scan interval (100 ms); the list of channels the scan loop draws from is
	// refreshed every 100 ms instead of 5 s, otherwise a channel created just now is not
	// scanned at all for up to 5 s (measured: all three checks then arrive ~5 s late)
	opts.QueueScanRefreshInterval = 100 * time.Millisecond
	n, err := nsqdlib.Start(opts)
	if err != nil {
		lib.Fatalf("nsqd start: %v", err)
	}
	defer n.Exit()
	w := &world{n: n, tcp: n.RealTCPAddr().String(), http: n.RealHTTPAddr().String()}
	var prev *nsqd.Topic
	for k, kind := range kinds {
		tn := fmt.Sprintf("wall%d", k)
		topic := n.GetTopic(tn)
		if prev != nil {
			// one channel goes, one comes: the NUMBER of channels the scan loop sees at its next
			// refresh is the same, the set is not - the new channel must be scanned all the same
			prev.DeleteExistingChannel("c")
		}
		prev = topic
		ch := topic.GetChannel("c")
		var delay time.Duration
		var tStart, tRecv int64
		switch kind {
		case "req":
			delay = 150 * time.Millisecond
			cl := w.subscribe(tn, "c", 1)
			ch.PutMessage(nsqd.NewMessage(topic.GenerateID(), []byte("m")))
			id, err := cl.message()
			if err != nil {
				lib.Fatalf("wall req: %v", err)
			}
			tStart = time.Now().UnixNano()
			cl.send([]byte(fmt.Sprintf("REQ %s %d\n", id, delay/time.Millisecond)))
			// a redelivery that does not come within the read deadline is recorded as that late
			cl.message()
			tRecv = time.Now().UnixNano()
			cl.c.Close()
		case "dpub":
			delay = 200 * time.Millisecond
			cl := w.subscribe(tn, "c", 1)
			pub := dial(w.tcp)
			var b bytes.Buffer
			fmt.Fprintf(&b, "DPUB %s %d\n", tn, delay/time.Millisecond)
			binary.Write(&b, binary.BigEndian, int32(1))
			b.WriteString("x")
			tStart = time.Now().UnixNano()
			pub.send(b.Bytes())
			cl.message()
			tRecv = time.Now().UnixNano()
			cl.c.Close()
			pub.c.Close()
		case "msg_timeout":
			delay = 1000 * time.Millisecond
			cl := dial(w.tcp)
			body := []byte(`{"msg_timeout":1000}`)
			var b bytes.Buffer
			b.WriteString("IDENTIFY\n")
			binary.Write(&b, binary.BigEndian, int32(len(body)))
			b.Write(body)
			cl.send(b.Bytes())
			if ft, data, err := cl.reply(); err != nil || ft != 0 {
				lib.Fatalf("wall identify: %v %q", err, data)
			}
			cl.send([]byte(fmt.Sprintf("SUB %s c\n", tn)))
			if ft, data, err := cl.reply(); err != nil || ft != 0 {
				lib.Fatalf("wall sub: %v %q", err, data)
			}
			cl.send([]byte("RDY 1\n"))
			// the delivery cannot happen before the publish
			tStart = time.Now().UnixNano()
			ch.PutMessage(nsqd.NewMessage(topic.GenerateID(), []byte("m")))
			if _, err := cl.message(); err != nil {
				lib.Fatalf("wall msg_timeout: %v", err)
			}
			// no FIN: it must come back after the timeout (RDY 1 is free again once it timed out)
			cl.message()
			tRecv = time.Now().UnixNano()
			cl.c.Close()
		}
		o.Emit(lib.Case{Name: fmt.Sprintf("wall-%d-%s", k, kind),
			Coq:   fmt.Sprintf("(J04.Wall %d %s %s)", int64(delay), z(tStart), z(tRecv)),
			Input: map[string]interface{}{"kind": "wall", "what": kind},
			Tags:  []string{"kind=wall-clock-" + kind}, Nontrivial: true,
			Obs: map[string]interface{}{"delay_ns": int64(delay), "observed_ns": tRecv - tStart, "late_by_ns": tRecv - tStart - int64(delay)}})
	}
}

// ---------------------------------------------------------------- cases

type NumIn struct {
	Batch    []NumIn `json:"batch,omitempty"` // path b10batch
	Kind     string  `json:"kind"`
	Path     string  `json:"path"` // b10 rdy req dpub http msdur msgtimeout
	World    int     `json:"world"`
	Spelling string  `json:"spelling,omitempty"`
	B64      string  `json:"spelling_b64,omitempty"`
	V        int64   `json:"v,omitempty"`
	Class    string  `json:"class,omitempty"`
	What     string  `json:"what,omitempty"` // kind "wall"
}

func (in NumIn) bytes() []byte {
	if in.B64 != "" {
		b, _ := base64.StdEncoding.DecodeString(in.B64)
		return b
	}
	return []byte(in.Spelling)
}

func mkIn(path string, world int, sp spelling) NumIn {
	in := NumIn{Kind: "num", Path: path, World: world, Class: sp.class}
	printable := true
	for _, c := range sp.s {
		if c < 0x20 || c > 0x7e {
			printable = false
		}
	}
	if printable && len(sp.s) > 0 {
		in.Spelling = string(sp.s)
	} else {
		in.B64 = base64.StdEncoding.EncodeToString(sp.s)
		if len(sp.s) == 0 {
			in.B64 = ""
			in.Spelling = ""
		}
	}
	return in
}

const edgeWorld = 99

var edge *world

func outcomeTag(path string, outcome int) string {
	return fmt.Sprintf("%s-outcome=%s", path, []string{"refused", "deferred", "queued-at-once"}[outcome])
}

func runOne(o *lib.Out, r *lib.Rand, ws []*world, name string, in NumIn) {
	sp := in.bytes()
	class := in.Class
	if class == "" {
		class = "replay"
	}
	var w *world
	if in.World == edgeWorld {
		// a third, tiny configuration: max-req-timeout = MaxInt64 ns exactly (theorem C04_dpub_edge,
		// known finding K9); every case run here carries the tag kf=K9
		if edge == nil {
			edge = newWorld(edgeWorld, time.Duration(math.MaxInt64), 2500, 15*time.Minute, 60*time.Second)
			edge.extraTags = []string{"kf=K9"} // known_findings.json K9
		}
		w = edge
	} else {
		w = ws[in.World%len(ws)]
	}
	switch in.Path {
	case "b10":
		v, err := verifshim.ByteToBase10(sp)
		res := "(-1)"
		kind := "error"
		if err == nil {
			res = fmt.Sprintf("%d", v)
			kind = "value"
			if v == math.MaxUint64 {
				kind = "max-uint64"
			}
		}
		o.Emit(lib.Case{Name: name, Coq: fmt.Sprintf("(J04.B10 %s %s)", zbytes(sp), res), Input: in,
			Tags: []string{"kind=b10", "class=" + class, "b10=" + kind}, Nontrivial: true})
	case "b10batch":
		var parts, tags []string
		seen := map[string]bool{}
		for _, e := range in.Batch {
			b := e.bytes()
			v, err := verifshim.ByteToBase10(b)
			res, kind := "(-1)", "error"
			if err == nil {
				res, kind = fmt.Sprintf("%d", v), "value"
				if v == math.MaxUint64 {
					kind = "max-uint64"
				}
			}
			parts = append(parts, fmt.Sprintf("(%s,%s)", zbytes(b), res))
			for _, t := range []string{"class=" + e.Class, "b10=" + kind} {
				if !seen[t] {
					seen[t] = true
					tags = append(tags, t)
				}
			}
		}
		o.Emit(lib.Case{Name: name, Coq: "(J04.B10s [" + strings.Join(parts, ";") + "])", Input: in,
			Tags: append([]string{"kind=b10-batch"}, tags...), Nontrivial: true})
	case "msdur":
		ns := nsqd.VerifMsToDuration(uint64(in.V))
		o.Emit(lib.Case{Name: name, Coq: fmt.Sprintf("(J04.MsDur %d %s)", uint64(in.V), z(ns)), Input: in,
			Tags: []string{"kind=msdur", fmt.Sprintf("msdur-saturated=%v", ns == math.MaxInt64)}, Nontrivial: true})
	case "rdy":
		if !tcpSafe(sp) {
			return
		}
		acc, cnt := w.rdy(sp)
		o.Emit(lib.Case{Name: name, Coq: fmt.Sprintf("(J04.Rdy %d %s %s %s)", w.maxRdy, zbytes(token(sp)), lib.CoqBool(acc), z(cnt)), Input: in,
			Tags: []string{"kind=live-rdy", "class=" + class, fmt.Sprintf("rdy-accepted=%v", acc), fmt.Sprintf("world=%d", w.idx)}, Nontrivial: true,
			Obs: map[string]interface{}{"accepted": acc, "count": cnt}})
	case "req", "dpub", "http":
		if in.Path != "http" && !tcpSafe(sp) {
			return
		}
		var outcome int
		var t0, t1, pri int64
		ctor, seen := "Req", token(sp)
		switch in.Path {
		case "req":
			outcome, t0, t1, pri = w.req(sp)
		case "dpub":
			ctor = "Dpub"
			outcome, t0, t1, pri = w.dpub(sp)
		default:
			ctor, seen = "HttpDefer", sp
			outcome, t0, t1, pri = w.httpDefer(sp)
		}
		obs := map[string]interface{}{"outcome": outcome}
		if outcome == 1 {
			obs["delay_ns_at_least"] = pri - t1
			obs["delay_ns_at_most"] = pri - t0
		}
		o.Emit(lib.Case{Name: name,
			Coq:   fmt.Sprintf("(J04.%s %d %s %d %s %s %s)", ctor, int64(w.maxReq), zbytes(seen), outcome, z(t0), z(t1), z(pri)),
			Input: in, Tags: append([]string{"kind=live-" + in.Path, "class=" + class, outcomeTag(in.Path, outcome), fmt.Sprintf("world=%d", w.idx)}, w.extraTags...),
			Nontrivial: true, Obs: obs})
	case "msgtimeout":
		w.msgTimeout(o, r, name, in.V, map[string]interface{}{"kind": "num", "path": "msgtimeout", "world": in.World, "v": in.V})
	default:
		lib.Fatalf("unknown path %q", in.Path)
	}
}

func main() {
	n := flag.Int("n", 1500, "random spellings (on top of the boundary set)")
	seed := flag.Uint64("seed", 1, "seed")
	out := flag.String("out", "", "output jsonl")
	replay := flag.String("replay", "", "replay file")
	wall := flag.Int("wall", 1, "rounds of the wall-clock checks with the real ticker (REQ 150 ms, DPUB 200 ms, msg_timeout 1 s)")
	flag.Parse()
	o := lib.NewOut(*out)
	defer o.Close()
	r := lib.NewRand(*seed)

	ws := []*world{
		newWorld(0, time.Hour, 2500, 15*time.Minute, 60*time.Second),                                      // the defaults
		newWorld(1, 90061*time.Millisecond, 7, 2*time.Second+500*time.Microsecond, 1500*time.Millisecond), // small, not a whole number of ms
	}
	defer func() {
		for _, w := range ws {
			w.close()
		}
		if edge != nil {
			edge.close()
		}
	}()

	if *replay != "" {
		var ins []NumIn
		lib.ReadReplay(*replay, &ins)
		for k, in := range ins {
			if in.Kind == "wall" {
				wallClock(o, []string{in.What})
				continue
			}
			runOne(o, r, ws, fmt.Sprintf("replay-%d-%s", k, in.Path), in)
		}
		return
	}

	// end to end with the real ticker, concurrently with everything below
	wallDone := make(chan struct{})
	go func() {
		defer close(wallDone)
		for k := 0; k < *wall; k++ {
			wallClock(o, []string{"req", "dpub", "msg_timeout"})
		}
	}()
	defer func() { <-wallDone }()

	live := []string{"req", "dpub", "http", "rdy"}
	count := 0
	var batch []NumIn
	nb := 0
	b10 := func(in NumIn, flush bool) {
		if in.Path != "" {
			batch = append(batch, in)
		}
		if len(batch) >= 10 || flush && len(batch) > 0 {
			nb++
			runOne(o, r, ws, fmt.Sprintf("b10-batch-%d", nb), NumIn{Kind: "num", Path: "b10batch", Batch: batch})
			batch = nil
		}
	}
	for wi, w := range ws {
		for _, sp := range boundaries(int64(w.maxReq/time.Millisecond), w.maxRdy) {
			count++
			if wi == 0 {
				b10(mkIn("b10", wi, sp), false)
			}
			for _, p := range live {
				runOne(o, r, ws, fmt.Sprintf("b-%d-%s", count, p), mkIn(p, wi, sp))
			}
		}
	}
	o.Stat("boundary_spellings", count)
	// known finding K9, replayed on every run: with max-req-timeout = MaxInt64 ns delays above
	// the maximum are accepted, and deadlines beyond 2^63 ns wrap (released at once)
	for i, kc := range []struct{ path, sp string }{
		{"dpub", "9223372036855"}, {"http", "9223372036855"}, {"dpub", "99999999999999999999999"},
		{"dpub", "9223372036854"}, {"req", "9223372036855"}} {
		runOne(o, r, ws, fmt.Sprintf("k9-%d-%s", i, kc.path), mkIn(kc.path, edgeWorld, spelling{[]byte(kc.sp), "K9-max-req-timeout=MaxInt64"}))
	}
	for k := 0; k < *n; k++ {
		wi := k % len(ws)
		w := ws[wi]
		sp := randomSpelling(r, int64(w.maxReq/time.Millisecond), w.maxRdy)
		b10(mkIn("b10", wi, sp), false)
		p := live[(k/len(ws))%len(live)]
		runOne(o, r, ws, fmt.Sprintf("r-%d-%s", k, p), mkIn(p, wi, sp))
	}
	b10(NumIn{}, true)
	o.Stat("random_spellings", *n)
	o.Stat("b10_spellings", count/len(ws)+*n)
	// msToDuration
	for i, v := range []uint64{0, 1, 3600000, 9223372036853, 9223372036854, 9223372036855, 1 << 62, 1 << 63, math.MaxUint64, r.U64(), r.U64() >> 20, r.U64() >> 21, r.U64() >> 22} {
		runOne(o, r, ws, fmt.Sprintf("msdur-%d", i), NumIn{Kind: "num", Path: "msdur", V: int64(v)})
	}
	// IDENTIFY msg_timeout
	for wi, w := range ws {
		maxMs := int64(w.maxMsg / time.Millisecond)
		vals := []int64{0, 1, 999, 1000, 1001, maxMs - 1, maxMs, maxMs + 1, -1, -1000, 1 << 31, math.MaxInt64, math.MinInt64,
			1000 + int64(r.Intn(int(maxMs-999))), 1000 + int64(r.Intn(int(maxMs-999))), maxMs + 1 + int64(r.Intn(100000)), int64(r.Intn(1000))}
		for i, v := range vals {
			runOne(o, r, ws, fmt.Sprintf("mt-%d-%d", wi, i), NumIn{Kind: "num", Path: "msgtimeout", World: wi, V: v})
		}
	}
}
