// The accept loop (internal/protocol/tcp_server.go TCPServer), the piece of the TCP server
// that every client depends on: when it returns an error, nsqd.Main (nsqlookupd.Main)
// returns it and the daemon goes down for everybody.
//
// A case of this class runs the REAL loop on a listener whose Accept results are scripted:
// connections, errors that are temporary by their own Temporary() method (EMFILE / ENFILE:
// the process or the system is out of descriptors during a burst of connections; EINTR; a
// deadline; custom listeners' errors), timeouts that are not temporary, permanent errors,
// net.ErrClosed in its various wrappings.  Four hosts:
//
//	loop     protocol.TCPServer alone (through verifshim.TCPServer) with a recording handler;
//	         with "hold" the handlers keep running until the loop has been told to stop, so
//	         that a loop which handles connections one after the other, or does not wait for
//	         its handlers on shutdown, is seen
//	nsqd     a fresh in-process nsqd whose TCP listener is wrapped (NSQD.VerifWrapTCPListener)
//	         before Main; a connection counts as served when its PUB was answered OK, and all
//	         served connections must be answered once more before the script's last result
//	lookupd  the same with an in-process nsqlookupd (PING -> OK)
//	rlimit   no script at all: a SUBPROCESS nsqd started under `ulimit -n <limit>`; clients
//	         connect until the daemon has no descriptor left, one more connects (the daemon's
//	         accept4 really fails with EMFILE: seen in its log), the connected clients must be
//	         served meanwhile, then a few clients leave and the waiting one and a new one must
//	         be served
//
// What is recorded: how many Accept calls returned, which connections were served (and
// served again), whether and how the loop / Main returned, whether the loop had waited for
// its handlers, and whether it was still running before the first permanent result was let
// out.  Of every scripted error the case states what the error value itself answers to
// Temporary(), Timeout() and errors.Is(err, net.ErrClosed).
package main

import (
	"bufio"
	"encoding/binary"
	"errors"
	"fmt"
	"io"
	"log"
	"net"
	"net/http"
	"os"
	"os/exec"
	"path/filepath"
	"regexp"
	"sort"
	"strconv"
	"strings"
	"sync"
	"syscall"
	"time"

	"github.com/nsqio/nsq/nsqd"
	"github.com/nsqio/nsq/nsqlookupd"
	"github.com/nsqio/nsq/verifshim"
	"verifharness/lib"
	"verifharness/nsqdlib"
)

type AcceptIn struct {
	Host   string   `json:"host"`            // loop | nsqd | lookupd | rlimit
	Script []string `json:"script"`          // "conn" or an error kind (acceptKinds)
	Hold   bool     `json:"hold,omitempty"`  // loop: the handlers return only once the loop has been told to stop
	Limit  int      `json:"limit,omitempty"` // rlimit: RLIMIT_NOFILE of the subprocess
}

// ---------------------------------------------------------------- scripted errors
type errTempOnly struct {
	msg string
	t   bool
}

func (e *errTempOnly) Error() string   { return e.msg }
func (e *errTempOnly) Temporary() bool { return e.t }

type errTimeoutOnly struct{ msg string }

func (e *errTimeoutOnly) Error() string { return e.msg }
func (e *errTimeoutOnly) Timeout() bool { return true }

type errNet struct {
	msg      string
	tmo, tmp bool
}

func (e *errNet) Error() string   { return e.msg }
func (e *errNet) Timeout() bool   { return e.tmo }
func (e *errNet) Temporary() bool { return e.tmp }

type errTempClosed struct{ msg string }

func (e *errTempClosed) Error() string   { return e.msg }
func (e *errTempClosed) Temporary() bool { return true }
func (e *errTempClosed) Unwrap() error   { return net.ErrClosed }

// every error names the position of its result in the script (a port number / a #tag), so
// that the error the loop returns can be matched with the result it was made from
var acceptErrnos = map[string]syscall.Errno{
	"emfile": syscall.EMFILE, "enfile": syscall.ENFILE, "eintr": syscall.EINTR, "eagain": syscall.EAGAIN,
	"etimedout": syscall.ETIMEDOUT, "econnaborted": syscall.ECONNABORTED, "enomem": syscall.ENOMEM,
	"enobufs": syscall.ENOBUFS, "einval": syscall.EINVAL, "ebadf": syscall.EBADF, "eperm": syscall.EPERM,
	"eproto": syscall.EPROTO,
}

// the kinds, in a fixed order; "real-close" (daemons only) is the wrapped listener's own
// answer after it has been closed by Exit
var acceptKinds = []string{"emfile", "enfile", "eintr", "eagain", "etimedout", "deadline", "temp-only", "neterr-temp", "temp-closed",
	"econnaborted", "enomem", "enobufs", "einval", "ebadf", "eperm", "eproto", "plain", "temp-false", "timeout-only", "timeout-not-temp",
	"closed-text", "closed", "closed-op", "closed-wrapped"}

func acceptErr(kind string, i int) error {
	addr := &net.TCPAddr{IP: net.IPv4(127, 0, 0, 1), Port: 10000 + i}
	if no, ok := acceptErrnos[kind]; ok {
		return &net.OpError{Op: "accept", Net: "tcp", Addr: addr, Err: os.NewSyscallError("accept4", no)}
	}
	tag := fmt.Sprintf("scripted accept failure #%d", i)
	switch kind {
	case "deadline":
		return &net.OpError{Op: "accept", Net: "tcp", Addr: addr, Err: os.ErrDeadlineExceeded}
	case "temp-only":
		return &errTempOnly{tag + " (try again)", true}
	case "temp-false":
		return &errTempOnly{tag + " (gone)", false}
	case "timeout-only":
		return &errTimeoutOnly{tag + " (timed out)"}
	case "neterr-temp":
		return &errNet{tag + " (busy)", false, true}
	case "timeout-not-temp":
		return &errNet{tag + " (timed out for good)", true, false}
	case "temp-closed":
		return &errTempClosed{tag + " (closing, try again)"}
	case "plain":
		return errors.New(tag)
	case "closed-text":
		return fmt.Errorf("accept tcp 127.0.0.1:%d: use of closed network connection", 10000+i)
	case "closed":
		return net.ErrClosed
	case "closed-op", "real-close":
		return &net.OpError{Op: "accept", Net: "tcp", Addr: addr, Err: net.ErrClosed}
	case "closed-wrapped":
		return fmt.Errorf("listener #%d: %w", i, net.ErrClosed)
	}
	lib.Fatalf("unknown accept result kind %q", kind)
	return nil
}

// what the error value itself answers
func classifyErr(err error) (tmp, tmo *bool, closed bool) {
	if t, ok := err.(interface{ Temporary() bool }); ok {
		v := t.Temporary()
		tmp = &v
	}
	if t, ok := err.(interface{ Timeout() bool }); ok {
		v := t.Timeout()
		tmo = &v
	}
	return tmp, tmo, errors.Is(err, net.ErrClosed)
}

func errIsTemporary(err error) bool {
	t, _, _ := classifyErr(err)
	return t != nil && *t
}

func coqOptBool(b *bool) string {
	if b == nil {
		return "None"
	}
	return "(Some " + lib.CoqBool(*b) + ")"
}

// ---------------------------------------------------------------- the scripted listener
type fakeConn struct{ id int }

func (c *fakeConn) Read(b []byte) (int, error)  { return 0, io.EOF }
func (c *fakeConn) Write(b []byte) (int, error) { return len(b), nil }
func (c *fakeConn) Close() error                { return nil }
func (c *fakeConn) LocalAddr() net.Addr         { return &net.TCPAddr{IP: net.IPv4(127, 0, 0, 1), Port: 1} }
func (c *fakeConn) RemoteAddr() net.Addr {
	return &net.TCPAddr{IP: net.IPv4(127, 0, 0, 1), Port: 20000 + c.id}
}
func (c *fakeConn) SetDeadline(time.Time) error      { return nil }
func (c *fakeConn) SetReadDeadline(time.Time) error  { return nil }
func (c *fakeConn) SetWriteDeadline(time.Time) error { return nil }

type scripted struct {
	inner     net.Listener // nil: the loop alone, connections are fakes
	kinds     []string
	firstStop int // index of the first result that is neither a connection nor temporary; len = none
	gate      chan struct{}
	forever   chan struct{}

	mu         sync.Mutex
	errs       []error
	next       int   // Accept calls started
	returned   int   // results handed out
	accepted   []int // connections handed out
	handled    []int // connections the handler was called with
	done       int   // handlers that have returned
	unexpected string
	chg        chan struct{}

	retDone   chan struct{} // closed once the loop (Main) has returned
	retErr    error
	doneAtRet int
	accAtRet  int
}

func newScripted(kinds []string) *scripted {
	l := &scripted{kinds: kinds, firstStop: len(kinds), gate: make(chan struct{}), forever: make(chan struct{}),
		chg: make(chan struct{}, 1), retDone: make(chan struct{})}
	for i, k := range kinds {
		var e error
		if k != "conn" {
			e = acceptErr(k, i)
			if l.firstStop == len(kinds) && !errIsTemporary(e) {
				l.firstStop = i
			}
		}
		l.errs = append(l.errs, e)
	}
	return l
}

func (l *scripted) notify() {
	select {
	case l.chg <- struct{}{}:
	default:
	}
}

// wait until pred holds (evaluated under the lock), the loop has returned, or d has passed
func (l *scripted) waitFor(pred func() bool, d time.Duration) bool {
	t := time.NewTimer(d)
	defer t.Stop()
	check := func() bool { l.mu.Lock(); defer l.mu.Unlock(); return pred() }
	for {
		if check() {
			return true
		}
		select {
		case <-l.chg:
		case <-l.retDone:
			return check()
		case <-t.C:
			return check()
		}
	}
}

func (l *scripted) hasReturned() bool {
	select {
	case <-l.retDone:
		return true
	default:
		return false
	}
}

func (l *scripted) finished(err error) {
	l.mu.Lock()
	l.retErr = err
	l.doneAtRet = l.done
	l.accAtRet = len(l.accepted)
	l.mu.Unlock()
	close(l.retDone)
}

func (l *scripted) Accept() (net.Conn, error) {
	l.mu.Lock()
	i := l.next
	l.next++
	l.mu.Unlock()
	l.notify()
	if i >= len(l.kinds) {
		// past the end of the script: Accept blocks (until the case is over)
		<-l.forever
		time.Sleep(time.Millisecond)
		return nil, net.ErrClosed
	}
	if i == l.firstStop {
		<-l.gate
	}
	var c net.Conn
	var err error
	switch k := l.kinds[i]; {
	case k == "conn" && l.inner == nil:
		c = &fakeConn{id: i}
	case k == "conn":
		c, err = l.inner.Accept()
		if err != nil {
			l.mu.Lock()
			l.unexpected = fmt.Sprintf("result %d: the real listener failed: %v", i, err)
			l.mu.Unlock()
		}
	case k == "real-close" && l.inner != nil:
		c, err = l.inner.Accept()
		if err == nil {
			c.Close()
			c = nil
			err = l.errs[i]
			l.mu.Lock()
			l.unexpected = fmt.Sprintf("result %d: a connection arrived where the close was expected", i)
			l.mu.Unlock()
		} else {
			l.mu.Lock()
			l.errs[i] = err
			l.mu.Unlock()
		}
	default:
		err = l.errs[i]
	}
	l.mu.Lock()
	l.returned++
	if c != nil {
		l.accepted = append(l.accepted, i)
	}
	l.mu.Unlock()
	l.notify()
	return c, err
}

func (l *scripted) Close() error {
	if l.inner != nil {
		return l.inner.Close()
	}
	return nil
}

func (l *scripted) Addr() net.Addr {
	if l.inner != nil {
		return l.inner.Addr()
	}
	return &net.TCPAddr{IP: net.IPv4(127, 0, 0, 1), Port: 1}
}

// ---------------------------------------------------------------- what a case observed
type acceptObs struct {
	errs     []error // the error of every result (nil: a connection)
	consumed int     // -1: not observable
	served   []int
	again    []int // nil: not applicable
	hasAgain bool
	ret      int  // 0 not returned, 1 nil, 2 an error naming the last result consumed, 3 another error
	waited   *int // 0 / 1; nil: not applicable
	alive    bool
	notes    []string
	retText  string
}

func retCode(err error, returned bool, last error) int {
	switch {
	case !returned:
		return 0
	case err == nil:
		return 1
	case last != nil && strings.Contains(err.Error(), last.Error()):
		return 2
	}
	return 3
}

const acceptPatience = 3 * time.Second

// the loop alone
func runAcceptLoop(a *AcceptIn) acceptObs {
	l := newScripted(a.Script)
	release := make(chan struct{})
	if !a.Hold {
		close(release)
	}
	handle := func(c net.Conn) {
		id := -1
		if fc, ok := c.(*fakeConn); ok {
			id = fc.id
		}
		l.mu.Lock()
		l.handled = append(l.handled, id)
		l.mu.Unlock()
		l.notify()
		<-release
		l.mu.Lock()
		l.done++
		l.mu.Unlock()
	}
	go func() { l.finished(verifshim.TCPServer(l, handle, nil)) }()

	n := len(a.Script)
	allHandled := func() bool { return len(l.handled) >= len(l.accepted) }
	if l.firstStop < n {
		l.waitFor(func() bool { return l.returned >= l.firstStop && l.next > l.firstStop }, acceptPatience)
	} else {
		// no permanent result in the script: the loop ends up blocked in the Accept call after the last one
		l.waitFor(func() bool { return l.next > n }, acceptPatience)
	}
	l.waitFor(allHandled, acceptPatience)
	// served = handed to the handler by now, with (hold) the earlier handlers still running
	ob := acceptObs{alive: !l.hasReturned()}
	l.mu.Lock()
	ob.served = append([]int(nil), l.handled...)
	l.mu.Unlock()
	sort.Ints(ob.served)
	if l.firstStop < n {
		close(l.gate)
		if a.Hold {
			// the handlers are still running: a loop that waits for them cannot return now
			select {
			case <-l.retDone:
			case <-time.After(30 * time.Millisecond):
			}
			close(release)
		}
		// it returns - or shows that it has not by calling Accept past the end of the script
		l.waitFor(func() bool { return l.next > n }, acceptPatience)
		if !l.hasReturned() {
			ob.notes = append(ob.notes, "the loop did not return after the permanent result")
		}
	} else if a.Hold {
		close(release)
	}
	returned := l.hasReturned()
	if returned {
		l.waitFor(allHandled, acceptPatience)
	}
	l.mu.Lock()
	defer l.mu.Unlock()
	ob.errs = append([]error(nil), l.errs...)
	ob.consumed = l.returned
	if len(l.handled) != len(ob.served) {
		ob.notes = append(ob.notes, fmt.Sprintf("%d connections were handed to the handler only after the permanent result had been let out", len(l.handled)-len(ob.served)))
	}
	var last error
	if l.returned > 0 && l.returned <= n {
		last = l.errs[l.returned-1]
	}
	ob.ret = retCode(l.retErr, returned, last)
	if returned {
		w := 0
		if l.doneAtRet >= l.accAtRet {
			w = 1
		}
		ob.waited = &w
		if l.retErr != nil {
			ob.retText = l.retErr.Error()
		}
	}
	return ob
}

// an in-process daemon whose TCP listener is the scripted one
func runAcceptDaemon(a *AcceptIn) acceptObs {
	l := newScripted(a.Script)
	var addr string
	var exit func()
	lookupd := a.Host == "lookupd"
	if lookupd {
		opts := nsqlookupd.NewOptions()
		opts.Logger = log.New(io.Discard, "", 0)
		opts.LogLevel = 4
		opts.TCPAddress = "127.0.0.1:0"
		opts.HTTPAddress = "127.0.0.1:0"
		opts.BroadcastAddress = "127.0.0.1"
		d, err := nsqlookupd.New(opts)
		if err != nil {
			lib.Fatalf("nsqlookupd.New: %v", err)
		}
		d.VerifWrapTCPListener(func(in net.Listener) net.Listener { l.inner = in; return l })
		addr = d.RealTCPAddr().String()
		exit = d.Exit
		go func() { l.finished(d.Main()) }()
	} else {
		opts := nsqdlib.NewOpts(nsqdlib.ScratchDir())
		d, err := nsqd.New(opts)
		if err != nil {
			lib.Fatalf("nsqd.New: %v", err)
		}
		d.VerifWrapTCPListener(func(in net.Listener) net.Listener { l.inner = in; return l })
		addr = d.RealTCPAddr().String()
		exit = func() { d.Exit(); os.RemoveAll(opts.DataPath) }
		go func() { l.finished(d.Main()) }()
	}

	// one request and its answer; once the loop has returned nobody will accept a waiting
	// connection any more, so the wait is cut short
	patience := 10 * time.Second // 1 s once a connection of this case has gone unanswered
	exchange := func(c net.Conn, first bool) bool {
		c.SetDeadline(time.Now().Add(patience))
		stop := make(chan struct{})
		defer close(stop)
		go func() {
			select {
			case <-l.retDone:
				c.SetReadDeadline(time.Now().Add(300 * time.Millisecond))
			case <-stop:
			}
		}()
		var req []byte
		if lookupd {
			if first {
				req = append(req, "  V1"...)
			}
			req = append(req, "PING\n"...)
		} else {
			if first {
				req = append(req, "  V2"...)
			}
			req = append(req, "PUB acc\n"...)
			req = append(req, be(2)...)
			req = append(req, "hi"...)
		}
		if _, err := c.Write(req); err != nil {
			return false
		}
		if lookupd {
			var hdr [4]byte
			if _, err := io.ReadFull(c, hdr[:]); err != nil {
				return false
			}
			sz := binary.BigEndian.Uint32(hdr[:])
			if sz > 1024 {
				return false
			}
			data := make([]byte, sz)
			if _, err := io.ReadFull(c, data); err != nil {
				return false
			}
			return string(data) == "OK"
		}
		for {
			f := readFrame(c)
			if f.err != nil {
				return false
			}
			if f.typ == 0 && string(f.data) == "_heartbeat_" {
				continue
			}
			return f.typ == 0 && string(f.data) == "OK"
		}
	}

	ob := acceptObs{hasAgain: true}
	conns := map[int]net.Conn{}
	defer func() {
		for _, c := range conns {
			c.Close()
		}
	}()
	n := len(a.Script)
	for i := 0; i < l.firstStop && i < n; i++ {
		if a.Script[i] != "conn" {
			k := i
			if !l.waitFor(func() bool { return l.returned > k }, acceptPatience) && !l.hasReturned() {
				ob.notes = append(ob.notes, fmt.Sprintf("result %d was not consumed", i))
			}
			continue
		}
		c, err := net.DialTimeout("tcp", addr, 5*time.Second)
		if err != nil {
			ob.notes = append(ob.notes, fmt.Sprintf("connection %d: %v", i, err))
			continue
		}
		if exchange(c, true) {
			ob.served = append(ob.served, i)
			conns[i] = c
		} else {
			c.Close()
			patience = time.Second
		}
	}
	for _, i := range ob.served {
		if exchange(conns[i], false) {
			ob.again = append(ob.again, i)
		} else {
			patience = time.Second
		}
	}
	ob.alive = !l.hasReturned()
	close(l.gate)
	exited := make(chan struct{})
	realClose := l.firstStop < n && a.Script[l.firstStop] == "real-close"
	if realClose {
		go func() { exit(); close(exited) }()
	} else if l.firstStop < n && errors.Is(l.errs[l.firstStop], net.ErrClosed) {
		// a scripted "listener closed": the loop stops accepting and waits for the handlers,
		// which run as long as their clients stay - it cannot return before they have left
		k := l.firstStop
		l.waitFor(func() bool { return l.returned > k }, acceptPatience)
		if len(conns) > 0 && !l.hasReturned() {
			w := 1
			select {
			case <-l.retDone:
				w = 0
			case <-time.After(30 * time.Millisecond):
			}
			ob.waited = &w
		}
		for i, c := range conns {
			c.Close()
			delete(conns, i)
		}
	}
	l.waitFor(func() bool { return l.next > n }, acceptPatience)
	if realClose {
		// Main returns as soon as one of its servers has (the HTTP one may be first); Exit
		// returns once all of them have: the accept loop has then consumed the close
		select {
		case <-exited:
		case <-time.After(10 * time.Second):
		}
	}
	returned := l.hasReturned() // what is cleaned up below does not count
	if !returned {
		ob.notes = append(ob.notes, "Main did not return after the permanent result")
	}
	l.mu.Lock()
	retErr, consumed := l.retErr, l.returned
	l.mu.Unlock()
	if !realClose {
		go func() { exit(); close(exited) }()
	}
	close(l.forever)
	select {
	case <-exited:
	case <-time.After(10 * time.Second):
		ob.notes = append(ob.notes, "Exit did not return")
	}
	l.mu.Lock()
	defer l.mu.Unlock()
	if l.unexpected != "" {
		ob.notes = append(ob.notes, l.unexpected)
	}
	ob.errs = append([]error(nil), l.errs...)
	ob.consumed = consumed
	var last error
	if consumed > 0 && consumed <= n {
		last = l.errs[consumed-1]
	}
	ob.ret = retCode(retErr, returned, last)
	if returned && retErr != nil {
		ob.retText = retErr.Error()
	}
	return ob
}

var acceptLogRe = regexp.MustCompile(`Accept\(\)`)

// a subprocess nsqd that really runs out of descriptors
func runAcceptRlimit(a *AcceptIn) (acceptObs, []string) {
	limit := a.Limit
	if limit < 32 || limit > 4096 {
		lib.Fatalf("rlimit case: limit %d out of range", limit)
	}
	bin := filepath.Join(os.Getenv("VERIF_BIN_DIR"), "nsqd")
	dp, err := os.MkdirTemp(nsqdlib.ScratchDir(), "nsqd-rlimit-")
	if err != nil {
		lib.Fatalf("mkdir: %v", err)
	}
	defer os.RemoveAll(dp)
	cmd := exec.Command("/bin/sh", "-c", `ulimit -n "$1" || exit 97; shift; exec "$@"`, "sh", strconv.Itoa(limit),
		bin, "-tcp-address", "127.0.0.1:0", "-http-address", "127.0.0.1:0", "-broadcast-address", "127.0.0.1",
		"-data-path", dp, "-log-level", "info")
	stderr, err := cmd.StderrPipe()
	if err != nil {
		lib.Fatalf("pipe: %v", err)
	}
	if err := cmd.Start(); err != nil {
		lib.Fatalf("start %s under ulimit: %v", bin, err)
	}
	exited := make(chan struct{})
	addrs := make(chan [2]string, 4)
	acceptFailed := make(chan struct{})
	var mu sync.Mutex
	fatalLine := ""
	go func() {
		sc := bufio.NewScanner(stderr)
		sc.Buffer(make([]byte, 1<<20), 1<<20)
		seen := false
		for sc.Scan() {
			t := sc.Text()
			if m := listenRe.FindStringSubmatch(t); m != nil {
				select {
				case addrs <- [2]string{m[1], m[2]}:
				default:
				}
			}
			if acceptLogRe.MatchString(t) {
				if strings.Contains(t, "FATAL") {
					mu.Lock()
					fatalLine = t
					mu.Unlock()
				}
				if !seen {
					seen = true
					close(acceptFailed)
				}
			}
		}
		io.Copy(io.Discard, stderr)
		cmd.Wait()
		close(exited)
	}()
	defer func() {
		cmd.Process.Kill()
		<-exited
	}()
	tcp, httpAddr := "", ""
	deadline := time.After(20 * time.Second)
	for tcp == "" || httpAddr == "" {
		select {
		case x := <-addrs:
			if x[0] == "TCP" {
				tcp = x[1]
			} else {
				httpAddr = x[1]
			}
		case <-exited:
			lib.Fatalf("nsqd under ulimit -n %d exited during start-up", limit)
		case <-deadline:
			lib.Fatalf("nsqd under ulimit -n %d did not report its listeners", limit)
		}
	}
	hasExited := func() bool {
		select {
		case <-exited:
			return true
		default:
			return false
		}
	}
	fdCount := func() int {
		ents, err := os.ReadDir(fmt.Sprintf("/proc/%d/fd", cmd.Process.Pid))
		if err != nil {
			return -1
		}
		return len(ents)
	}
	exchange := func(c net.Conn, first bool) bool {
		c.SetDeadline(time.Now().Add(10 * time.Second))
		var req []byte
		if first {
			req = append(req, "  V2"...)
		}
		req = append(req, "PUB acc\n"...)
		req = append(req, be(2)...)
		req = append(req, "hi"...)
		if _, err := c.Write(req); err != nil {
			return false
		}
		for {
			f := readFrame(c)
			if f.err != nil {
				return false
			}
			if f.typ == 0 && string(f.data) == "_heartbeat_" {
				continue
			}
			return f.typ == 0 && string(f.data) == "OK"
		}
	}

	ob := acceptObs{consumed: -1, hasAgain: true}
	var tags []string
	var script []string
	conns := map[int]net.Conn{}
	defer func() {
		for _, c := range conns {
			c.Close()
		}
	}()
	connect := func() (int, bool) {
		id := len(script)
		script = append(script, "conn")
		c, err := net.DialTimeout("tcp", tcp, 5*time.Second)
		if err != nil {
			return id, false
		}
		conns[id] = c
		return id, true
	}
	// clients connect, and are served, until the daemon holds as many descriptors as it may
	acceptHasFailed := func() bool {
		select {
		case <-acceptFailed:
			return true
		default:
			return false
		}
	}
fill:
	for !acceptHasFailed() && !hasExited() {
		if fdCount() >= limit {
			// no descriptor left: the loop must be failing by now, and its log says so (a
			// descriptor the daemon held for a moment only: go on connecting)
			select {
			case <-acceptFailed:
			case <-exited:
			case <-time.After(time.Second):
				if fdCount() >= limit {
					break fill
				}
			}
			continue
		}
		if len(script) > limit+8 {
			lib.Fatalf("rlimit case: %d clients connected and the daemon still has %d of %d descriptors", len(script), fdCount(), limit)
		}
		id, ok := connect()
		if ok && exchange(conns[id], true) {
			ob.served = append(ob.served, id)
		} else {
			ob.notes = append(ob.notes, fmt.Sprintf("client %d was not served although descriptors were left", id))
			break
		}
	}
	tags = append(tags, fmt.Sprintf("clients-until-out-of-descriptors=%d", len(script)))
	// from now on the daemon's accept4 fails with EMFILE (Linux looks for a free descriptor
	// before it looks for a waiting connection: the loop is already failing, over and over);
	// one more client arrives and has to wait
	script = append(script, "emfile")
	waiting, waitingOK := connect()
	select {
	case <-acceptFailed:
		tags = append(tags, "emfile=seen-in-log")
	case <-exited:
		tags = append(tags, "emfile=daemon-exited")
	case <-time.After(5 * time.Second):
		tags = append(tags, "emfile=unconfirmed")
	}
	// the connected clients are served meanwhile
	var during []int
	for _, id := range ob.served {
		if exchange(conns[id], false) {
			during = append(during, id)
		}
	}
	// some clients leave: the daemon gets descriptors back
	left := 0
	for i := len(ob.served) - 1; i >= 1 && left < 4; i-- {
		id := ob.served[i]
		conns[id].Close()
		delete(conns, id)
		left++
	}
	var late []int
	if waitingOK && exchange(conns[waiting], true) {
		late = append(late, waiting)
	}
	if id, ok := connect(); ok && exchange(conns[id], true) {
		late = append(late, id)
	}
	// again: everybody who was served while Accept was failing, then the two late ones
	ob.again = during
	for _, id := range late {
		ob.served = append(ob.served, id)
		if exchange(conns[id], false) {
			ob.again = append(ob.again, id)
		}
	}
	ob.alive = !hasExited()
	if ob.alive {
		c := http.Client{Timeout: 5 * time.Second}
		resp, err := c.Get("http://" + httpAddr + "/ping")
		if err != nil {
			ob.alive = false
		} else {
			io.Copy(io.Discard, resp.Body)
			resp.Body.Close()
			ob.alive = resp.StatusCode == 200
		}
	}
	mu.Lock()
	fl := fatalLine
	mu.Unlock()
	switch {
	case !hasExited():
		ob.ret = 0
	case fl != "":
		ob.ret = 2
		ob.retText = fl
	default:
		ob.ret = 3
	}
	for i, k := range script {
		if k == "conn" {
			ob.errs = append(ob.errs, nil)
		} else {
			ob.errs = append(ob.errs, acceptErr(k, i))
		}
	}
	a.Script = script
	return ob, tags
}

// ---------------------------------------------------------------- one case
func (rn *runner) runAccept(name string, in Input) {
	a := *in.Accept
	var ob acceptObs
	var tags []string
	t0 := time.Now()
	switch a.Host {
	case "loop":
		ob = runAcceptLoop(&a)
	case "nsqd", "lookupd":
		ob = runAcceptDaemon(&a)
	case "rlimit":
		ob, tags = runAcceptRlimit(&a)
	default:
		lib.Fatalf("accept case: unknown host %q", a.Host)
	}
	parts := make([]string, len(ob.errs))
	temps, conns, retried := 0, 0, false
	stop := "none"
	for i, e := range ob.errs {
		if e == nil {
			parts[i] = fmt.Sprintf("(J09.aconn %d)", i)
			conns++
			if temps > 0 && stop == "none" {
				retried = true
			}
			continue
		}
		tmp, tmo, closed := classifyErr(e)
		parts[i] = fmt.Sprintf("(J09.aerr_ %s %s %s)", coqOptBool(tmp), coqOptBool(tmo), lib.CoqBool(closed))
		if stop == "none" {
			if tmp != nil && *tmp {
				temps++
			} else {
				stop = a.Script[i]
			}
		}
		rn.acceptCells[a.Host+":"+a.Script[i]]++
	}
	ns := func(xs []int) string {
		ps := make([]string, len(xs))
		for i, x := range xs {
			ps[i] = lib.CoqN(uint64(x))
		}
		return lib.CoqList(ps)
	}
	consumed := "None"
	if ob.consumed >= 0 {
		consumed = "(Some " + lib.CoqN(uint64(ob.consumed)) + ")"
	}
	again := "None"
	if ob.hasAgain {
		again = "(Some " + ns(ob.again) + ")"
	}
	waited := "None"
	if ob.waited != nil {
		waited = "(Some " + lib.CoqBool(*ob.waited == 1) + ")"
	}
	coq := fmt.Sprintf("(J09.Accept %s %s %s %s %s %s %s)", lib.CoqList(parts), consumed, ns(ob.served), again,
		lib.CoqN(uint64(ob.ret)), waited, lib.CoqBool(ob.alive))
	tags = append(tags, "class="+in.Class, "accept-host="+a.Host, "accept-stop="+stop,
		"accept-ret="+[]string{"running", "nil", "the-error", "another-error"}[ob.ret], fmt.Sprintf("accept-temporary-errors=%d", capInt(temps, 4)))
	tags = append(tags, in.Tags...)
	if a.Hold {
		tags = append(tags, "accept-handlers=held")
	}
	for i, k := range a.Script {
		if i < len(ob.errs) && ob.errs[i] != nil {
			tags = append(tags, "accept-result="+k)
		}
	}
	if !ob.alive {
		tags = append(tags, "accept-loop=DOWN")
	}
	rn.acceptCases++
	in.Accept = &a
	rn.o.Emit(lib.Case{Name: name, Coq: coq, Input: in, Tags: dedupe(tags), Nontrivial: retried || stop != "none",
		Obs: map[string]interface{}{"script": a.Script, "consumed": ob.consumed, "served": ob.served, "again": ob.again, "ret": ob.ret,
			"returned_error": ob.retText, "alive": ob.alive, "notes": ob.notes, "elapsed_ms": time.Since(t0).Milliseconds()}})
}

// ---------------------------------------------------------------- generators
func capInt(a, b int) int {
	if a > b {
		return b
	}
	return a
}

func acceptInput(class, host string, hold bool, script ...string) Input {
	return Input{Class: class, Daemon: "none", Accept: &AcceptIn{Host: host, Script: script, Hold: hold}}
}

func isAcceptStopKind(k string) bool { return k != "conn" && !errIsTemporary(acceptErr(k, 0)) }

// the fixed sweep: every kind of error between connections, on the loop alone (handlers
// held / not held) and - the kinds a real listener or a wrapping one produces - inside the
// daemons; every kind of permanent result as the one that ends the script
func genAcceptSweep() []Input {
	var out []Input
	for i, k := range acceptKinds {
		out = append(out, acceptInput("accept-sweep", "loop", i%2 == 0, "conn", k, "conn", k, k, "conn", "closed-op", "conn"))
		out = append(out, acceptInput("accept-sweep", "loop", i%2 == 1, k, "conn", "emfile", "conn", "einval", "conn"))
	}
	out = append(out,
		acceptInput("accept-sweep", "loop", false),
		acceptInput("accept-sweep", "loop", true, "conn", "conn", "conn"),
		acceptInput("accept-sweep", "loop", true, "conn", "emfile", "enfile", "eintr", "deadline", "conn", "temp-only", "conn"),
		acceptInput("accept-sweep", "loop", false, "emfile", "emfile", "emfile", "emfile", "emfile", "emfile", "emfile", "emfile", "conn"),
		acceptInput("accept-sweep", "loop", true, "closed"),
		acceptInput("accept-sweep", "loop", true, "conn", "conn", "conn", "conn", "closed-op"))
	for _, k := range []string{"emfile", "enfile", "eintr", "eagain", "deadline", "temp-only", "neterr-temp", "temp-closed"} {
		out = append(out, acceptInput("accept-sweep", "nsqd", false, "conn", k, "conn", "real-close"))
	}
	for _, k := range []string{"einval", "plain", "timeout-not-temp", "closed-text", "closed-op", "temp-false"} {
		out = append(out, acceptInput("accept-sweep", "nsqd", false, "conn", "emfile", "conn", k))
	}
	out = append(out,
		acceptInput("accept-sweep", "lookupd", false, "conn", "emfile", "conn", "real-close"),
		acceptInput("accept-sweep", "lookupd", false, "conn", "enfile", "eintr", "conn", "einval"),
		acceptInput("accept-sweep", "lookupd", false, "deadline", "conn", "temp-only", "conn", "real-close"))
	return out
}

func genAcceptRlimit(limit int) Input {
	return Input{Class: "accept-rlimit", Daemon: "none", Accept: &AcceptIn{Host: "rlimit", Limit: limit}}
}

func genAcceptRandom(r *lib.Rand, host string) Input {
	var temps, stops []string
	for _, k := range acceptKinds {
		if isAcceptStopKind(k) {
			stops = append(stops, k)
		} else {
			temps = append(temps, k)
		}
	}
	n := r.Intn(13)
	if host != "loop" {
		n = 1 + r.Intn(6)
	}
	var script []string
	stopped := false
	for i := 0; i < n; i++ {
		p := r.Intn(100)
		switch {
		case p < 45:
			script = append(script, "conn")
		case p < 88:
			script = append(script, temps[r.Intn(len(temps))])
		default:
			if host != "loop" && stopped {
				continue
			}
			script = append(script, stops[r.Intn(len(stops))])
			stopped = true
		}
		if host != "loop" && stopped {
			break // a daemon's script ends with its first permanent result
		}
	}
	if !stopped && (host != "loop" || r.Chance(85)) {
		if host != "loop" && r.Chance(70) {
			script = append(script, "real-close")
		} else {
			script = append(script, stops[r.Intn(len(stops))])
		}
		if host == "loop" && r.Chance(40) {
			script = append(script, "conn", temps[r.Intn(len(temps))])
		}
	}
	return acceptInput("accept-random", host, host == "loop" && r.Chance(35), script...)
}
