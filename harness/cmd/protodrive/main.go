// protodrive: correspondence driver for C09 (nsqd TCP protocol).
//
// Every case is one real TCP connection to a real nsqd: the driver writes a generated
// byte stream (in one piece, or in pieces when later commands need the id of a message
// the daemon has just delivered), half-closes (or, when the input says hold_ms, keeps its
// side open and watches whether the daemon closes the connection by itself within that
// window: last frame OClosed / OOpen), and records every frame until EOF, the
// change of the daemon's topic message counters (HTTP /stats), whether the daemon is
// still alive and whether a concurrent well-behaved client on another connection was
// served meanwhile.  Sessions (a consumer that holds messages and answers them with FIN /
// REQ / TOUCH while subscribed and, after CLS, while closing) also record the counters of
// the channel they consumed from.  Every case carries the generator's command list; the
// (connection state x command x argument class) cells a case executed are printed as
// pair=... tags and summed up in the pairs_* statistics.  Three daemons with small limits (max-msg-size 64, max-body-size 384,
// max-rdy-count 10, max-channel-consumers 1):
//
//	inproc  in-process (harness/nsqdlib)          grammar / truncated / magic / long lines / sessions
//	sub     the nsqd BINARY of the repository      table sweep, mutated fields, sessions and pure garbage (a crash is observable)
//	tls     in-process, --tls-required=tcp-https   every command but IDENTIFY must be refused
package main

import (
	"bufio"
	"bytes"
	"encoding/binary"
	"encoding/hex"
	"encoding/json"
	"flag"
	"fmt"
	"io"
	"net"
	"net/http"
	"os"
	"os/exec"
	"path/filepath"
	"regexp"
	"sort"
	"strings"
	"sync"
	"time"

	"github.com/nsqio/nsq/nsqd"
	"verifharness/lib"
	"verifharness/nsqdlib"
)

const (
	maxMsg  = 64
	maxBody = 384
	maxRdy  = 10
	// (maxBody-4)/5
	maxCount       = 76
	bystanderTopic = "bystander"
	bystanderChan  = "bych"
)

// ---------------------------------------------------------------- inputs
type Step struct {
	K    string `json:"k"`              // send | wait | sendid | fill
	Hex  string `json:"hex,omitempty"`  // send: the bytes; sendid: the bytes before the id; fill: the byte that is repeated
	N    int    `json:"n,omitempty"`    // fill: how many times
	Slot int    `json:"slot,omitempty"` // sendid: index of the received message whose id is inserted
	Post string `json:"post,omitempty"` // sendid: the bytes after the id
}

type Input struct {
	Class  string `json:"class"`
	Daemon string `json:"daemon"`
	Steps  []Step `json:"steps"`
	// generator's command list, one entry per command written: [index in ProtoSpec.all_cmds,
	// n, parameters-within-limits 0/1, slot] (see J09.icmd; the slot may be omitted = 0); null = none
	Intent [][]int64 `json:"intent"`
	Tags   []string  `json:"tags"`
	// when set: the channel this connection consumes from; after the case its /stats
	// counters are recorded (messages left, in flight, deferred, requeue_count) and the
	// monitor compares them with the effect of the accepted FIN / REQ commands.  Every
	// publish of such a case goes to ChanTopic, which no other case uses.
	ChanTopic string `json:"chan_topic,omitempty"`
	ChanName  string `json:"chan_name,omitempty"`
	// when > 0: the client does NOT half-close after its last byte; it keeps the connection
	// open and watches for this many milliseconds whether the daemon closes it by itself
	// (recorded as the last frame: OClosed, or OOpen when the window ended first)
	HoldMs int `json:"hold_ms,omitempty"`
	// when set: not a client connection but a run of the accept loop on a scripted listener (accept.go)
	Accept *AcceptIn `json:"accept,omitempty"`
}

// index of a command in ProtoSpec.all_cmds
const (
	cIdentify = iota
	cFin
	cRdy
	cReq
	cPub
	cMpub
	cDpub
	cNop
	cTouch
	cSub
	cCls
	cAuth
	cUnknown
	// pseudo-commands (J09.i_too_long / i_bad_magic / i_short_magic)
	iTooLong    = 13
	iBadMagic   = 14
	iShortMagic = 15
)

// the size of a connection's read buffer (nsqd/client_v2.go defaultBufferSize): a command
// line, delimiter included, fits it or is refused
const lineBuf = 16384

// how long a case that keeps its side open watches a connection the daemon must close by
// itself (an unmodified daemon closes at once; the window only bounds a failing run), and
// one it must keep open (any length gives the same observation)
const (
	holdClose = 4000
	holdOpen  = 300
)

var cmdNames = []string{"IDENTIFY", "FIN", "RDY", "REQ", "PUB", "MPUB", "DPUB", "NOP", "TOUCH", "SUB", "CLS", "AUTH", "?"}

// ---------------------------------------------------------------- generator
type gen struct {
	r      *lib.Rand
	buf    bytes.Buffer
	intent [][]int64
	tags   []string
	state  int  // believed: 0 init, 1 subscribed, 2 closing
	dead   bool // believed: the connection has been closed by a fatal error
	hbOff  bool
	// start offset of the last command (for truncation)
	lastStart int
	mutate    bool // the next command mutates one field
	mutated   bool
}

func (g *gen) tag(t string) { g.tags = append(g.tags, t) }
func (g *gen) eol() {
	if g.r.Chance(12) {
		g.buf.WriteString("\r\n")
	} else {
		g.buf.WriteString("\n")
	}
}

// valid: the command's parameters, names, sizes and option values are within what the
// protocol and the daemon's limits allow (nothing about the connection state)
func (g *gen) cmd(idx int, msgs int64, valid bool) { g.cmdx(idx, msgs, valid, 0) }

// slot: FIN / REQ / TOUCH: s+1 = the id is the one of the s-th message delivered on this
// connection, 0 = it names no delivered message; SUB: 1 = the channel that is full
func (g *gen) cmdx(idx int, n int64, valid bool, slot int64) {
	v := int64(0)
	if valid {
		v = 1
	}
	g.intent = append(g.intent, []int64{int64(idx), n, v, slot})
	g.tag("cmd=" + cmdNames[idx])
}
func be(n int64) []byte {
	b := make([]byte, 4)
	binary.BigEndian.PutUint32(b, uint32(int32(n)))
	return b
}

var goodTopics = []string{"t1", "t2", "tp.x_-9", strings.Repeat("a", 64), "e1#ephemeral", strings.Repeat("b", 54) + "#ephemeral", "T", "0"}
var subTopics = []string{"t1", "t2", "s3"}
var goodChans = []string{"c1", "c2", "c.h_-0", "ch#ephemeral", strings.Repeat("c", 64)}
var badNames = []string{"", strings.Repeat("a", 65), "bad$", "t#ephemeralx", "#ephemeral", strings.Repeat("b", 55) + "#ephemeral",
	"t#ephemera", "t\x00", "t\xc3\xa9", "t#ephemeral#ephemeral", "a/b", "t#", "[t]", "t`", "t@", "tz{"}

func (g *gen) pick(xs []string) string { return xs[g.r.Intn(len(xs))] }

// mut reports whether this command should carry the (single) mutation
func (g *gen) mut() bool {
	if g.mutate && !g.mutated {
		g.mutated = true
		return true
	}
	return false
}

func (g *gen) body(n int) []byte {
	b := g.r.Bytes(n)
	return b
}

func (g *gen) msgLen() int {
	switch g.r.Intn(6) {
	case 0:
		return 1
	case 1:
		return maxMsg
	case 2:
		return maxMsg - 1
	default:
		return 1 + g.r.Intn(20)
	}
}

// a length field mutated to a refused value (the body that follows has [have] bytes)
func (g *gen) badLen(max int64, what string) int64 {
	vs := []int64{0, -1, max + 1, 0x7fffffff, -0x80000000, -2, max + 1000, 0x01000000}
	names := []string{"0", "-1", "max+1", "maxint32", "minint32", "-2", "max+1000", "2^24"}
	i := g.r.Intn(len(vs))
	g.tag("mut=" + what + ":" + names[i])
	return vs[i]
}

func (g *gen) pub() {
	g.lastStart = g.buf.Len()
	topic := g.pick(goodTopics)
	n := g.msgLen()
	declared := int64(n)
	line := "PUB " + topic
	ok := true
	if g.mut() {
		switch g.r.Intn(6) {
		case 0:
			topic = g.pick(badNames)
			line = "PUB " + topic
			g.tag("mut=PUB.topic:invalid")
			ok = false
		case 1:
			line = "PUB"
			g.tag("mut=PUB.params:none")
			ok = false
		case 2:
			line = "PUB  " + topic
			g.tag("mut=PUB.params:double-space")
			ok = false
		case 3:
			// boundary that is still valid
			n = maxMsg
			declared = maxMsg
			g.tag("mut=PUB.size:max")
		default:
			declared = g.badLen(maxMsg, "PUB.size")
			if declared == maxMsg+1 {
				n = maxMsg + 1
			}
			ok = false
		}
	} else if g.r.Chance(10) {
		line += " extra"
	}
	g.buf.WriteString(line)
	g.eol()
	g.buf.Write(be(declared))
	g.buf.Write(g.body(n))
	g.cmd(cPub, 1, ok)
	if !ok {
		g.dead = true
	}
}

var deferGood = []string{"0", "1", "1000", "3600000", "", "007"}
var deferBad = []string{"3600001", "99999999999999999999", "18446744073710", "18446744073709551617", "x", "-1", "1e3", "9223372036854775808", "12a"}

func (g *gen) dpub() {
	g.lastStart = g.buf.Len()
	topic := g.pick(goodTopics)
	n := g.msgLen()
	declared := int64(n)
	d := g.pick(deferGood)
	ok := true
	line := "DPUB " + topic + " " + d
	if g.mut() {
		switch g.r.Intn(5) {
		case 0:
			line = "DPUB " + g.pick(badNames) + " " + d
			g.tag("mut=DPUB.topic:invalid")
			ok = false
		case 1:
			bad := g.pick(deferBad)
			line = "DPUB " + topic + " " + bad
			g.tag("mut=DPUB.defer:" + bad)
			ok = false
		case 2:
			line = "DPUB " + topic
			g.tag("mut=DPUB.params:no-defer")
			ok = false
		default:
			declared = g.badLen(maxMsg, "DPUB.size")
			if declared == maxMsg+1 {
				n = maxMsg + 1
			}
			ok = false
		}
	}
	g.buf.WriteString(line)
	g.eol()
	g.buf.Write(be(declared))
	g.buf.Write(g.body(n))
	g.cmd(cDpub, 1, ok)
	if !ok {
		g.dead = true
	}
}

func (g *gen) mpub() {
	g.lastStart = g.buf.Len()
	topic := g.pick(goodTopics)
	k := 1 + g.r.Intn(4)
	if g.r.Chance(10) {
		k = 5 + g.r.Intn(8)
	}
	sizes := make([]int, k)
	total := 4
	for i := range sizes {
		sizes[i] = 1 + g.r.Intn(12)
		if g.r.Chance(10) {
			sizes[i] = maxMsg
		}
		total += 4 + sizes[i]
	}
	for total > maxBody { // keep the honest batch within the body limit
		k--
		total -= 4 + sizes[k]
		sizes = sizes[:k]
	}
	blen := int64(total)
	count := int64(k)
	decl := make([]int64, k)
	for i := range decl {
		decl[i] = int64(sizes[i])
	}
	line := "MPUB " + topic
	ok := true
	accepted := int64(k)
	garbageAfter := false
	if g.mut() {
		switch g.r.Intn(12) {
		case 0:
			line = "MPUB " + g.pick(badNames)
			g.tag("mut=MPUB.topic:invalid")
			ok = false
		case 1:
			blen = g.badLen(maxBody, "MPUB.size")
			ok = false
		case 2:
			// declared size smaller than what the batch needs: refused since the size is enforced
			vs := []int64{1, 3, 4, 7, int64(total) - 1, int64(total) - 4}
			blen = vs[g.r.Intn(len(vs))]
			if blen < 1 {
				blen = 1
			}
			g.tag(fmt.Sprintf("mut=MPUB.size:short(%d<%d)", blen, total))
			ok = false
		case 3:
			// declared size larger than needed: accepted, nothing extra consumed
			blen = int64(total) + int64(1+g.r.Intn(20))
			if blen > maxBody {
				blen = maxBody
			}
			g.tag("mut=MPUB.size:larger")
		case 4:
			vs := []int64{0, -1, maxCount + 1, 0x7fffffff, -0x80000000}
			count = vs[g.r.Intn(len(vs))]
			g.tag(fmt.Sprintf("mut=MPUB.count:%d", count))
			ok = false
		case 5:
			count = int64(k) + 1
			g.tag("mut=MPUB.count:n+1")
			ok = false
		case 6:
			if k >= 2 {
				count = int64(k) - 1
				accepted = count
				garbageAfter = true
				g.tag("mut=MPUB.count:n-1")
			}
		case 7:
			i := g.r.Intn(k)
			vs := []int64{0, -1, maxMsg + 1, 0x7fffffff, -0x80000000}
			decl[i] = vs[g.r.Intn(len(vs))]
			g.tag(fmt.Sprintf("mut=MPUB.msgsize[%d/%d]:%d", i, k, decl[i]))
			ok = false
		case 8:
			// the LAST message is bad: an implementation that publishes as it parses would leak k-1
			decl[k-1] = 0
			g.tag(fmt.Sprintf("mut=MPUB.msgsize[last/%d]:0", k))
			ok = false
		case 9:
			decl[k-1] = maxMsg + 1
			g.tag(fmt.Sprintf("mut=MPUB.msgsize[last/%d]:max+1", k))
			ok = false
		case 10:
			// exactly the maximum count of 1-byte messages: 4 + 76*5 = 384 = max body
			k = maxCount
			sizes = make([]int, k)
			decl = make([]int64, k)
			for i := range sizes {
				sizes[i], decl[i] = 1, 1
			}
			total = 4 + 5*k
			blen, count, accepted = int64(total), int64(k), int64(k)
			g.tag("mut=MPUB.count:max")
		default:
			line = "MPUB"
			g.tag("mut=MPUB.params:none")
			ok = false
		}
	}
	g.buf.WriteString(line)
	g.eol()
	g.buf.Write(be(blen))
	g.buf.Write(be(count))
	for i := range sizes {
		g.buf.Write(be(decl[i]))
		g.buf.Write(g.body(sizes[i]))
	}
	g.cmd(cMpub, accepted, ok)
	if garbageAfter {
		// the unread message is then parsed as a command line
		g.buf.WriteString("\n")
		g.cmd(cUnknown, 0, true)
		g.dead = true
	}
	if !ok {
		g.dead = true
	}
}

var rdyGood = []string{"0", "1", "5", "10", "", "007"}
var rdyBad = []string{"11", "-1", "abc", "18446744073709551617", "9223372036854775807", "9223372036854775808", "18446744073709551615", "1x", "2500", "99999999999999999999999"}

func (g *gen) rdy() {
	g.lastStart = g.buf.Len()
	line := "RDY " + g.pick(rdyGood)
	if g.r.Chance(10) {
		line = "RDY"
	}
	valid := true
	if g.mut() {
		bad := g.pick(rdyBad)
		line = "RDY " + bad
		g.tag("mut=RDY.count:" + bad)
		valid = false
		if g.state == 1 {
			g.dead = true
		}
	}
	g.buf.WriteString(line)
	g.eol()
	g.cmd(cRdy, 0, valid)
	if g.state == 0 {
		g.dead = true
	}
}

func (g *gen) randID() string {
	const hexd = "0123456789abcdef"
	b := make([]byte, 16)
	for i := range b {
		b[i] = hexd[g.r.Intn(16)]
	}
	return string(b)
}

func (g *gen) idParam() (string, bool) {
	id := g.randID()
	if g.mut() {
		vs := []string{id[:15], id + "0", "", id[:1], id + id}
		i := g.r.Intn(len(vs))
		g.tag(fmt.Sprintf("mut=id.len:%d", len(vs[i])))
		return vs[i], false
	}
	return id, true
}

func (g *gen) finTouch(idx int) {
	g.lastStart = g.buf.Len()
	id, ok := g.idParam()
	line := cmdNames[idx] + " " + id
	if g.r.Chance(5) {
		line = cmdNames[idx]
		ok = false
	}
	g.buf.WriteString(line)
	g.eol()
	g.cmd(idx, 0, ok)
	if g.state == 0 || !ok {
		g.dead = true
	}
}

var reqGood = []string{"0", "1", "1000", "3600000", "3600001", "99999999999999999999", "", "18446744073709551617"}

func (g *gen) req() {
	g.lastStart = g.buf.Len()
	id, ok := g.idParam()
	d := g.pick(reqGood)
	line := "REQ " + id + " " + d
	if ok && g.mut() {
		vs := []string{"x", "-1", "1.5", "1 2x"}
		d = vs[g.r.Intn(len(vs))]
		if d == "1 2x" {
			g.tag("mut=REQ.delay:extra-param")
		} else {
			ok = false
			g.tag("mut=REQ.delay:" + d)
		}
		line = "REQ " + id + " " + d
	}
	if g.r.Chance(5) {
		line = "REQ " + id
		ok = false
	}
	g.buf.WriteString(line)
	g.eol()
	g.cmd(cReq, 0, ok)
	if g.state == 0 || !ok {
		g.dead = true
	}
}

func (g *gen) sub() {
	g.lastStart = g.buf.Len()
	topic, ch := g.pick(subTopics), g.pick(goodChans)
	ok := true
	valid := !g.hbOff // a client that disabled heartbeats cannot SUB
	slot := int64(0)
	if g.r.Chance(8) {
		topic, ch = bystanderTopic, bystanderChan // the one channel that is full
		g.tag("sub=full-channel")
		ok = false
		slot = 1
	}
	line := "SUB " + topic + " " + ch
	if g.mut() {
		valid = false
		switch g.r.Intn(4) {
		case 0:
			line = "SUB " + g.pick(badNames) + " " + ch
			g.tag("mut=SUB.topic:invalid")
		case 1:
			line = "SUB " + topic + " " + g.pick(badNames)
			g.tag("mut=SUB.channel:invalid")
		case 2:
			line = "SUB " + topic
			g.tag("mut=SUB.params:no-channel")
		default:
			line = "SUB " + topic + "  " + ch
			g.tag("mut=SUB.params:double-space")
		}
		ok = false
	}
	if g.hbOff {
		g.tag("sub=heartbeats-disabled")
	}
	g.buf.WriteString(line)
	g.eol()
	g.cmdx(cSub, 0, valid, slot)
	if g.state != 0 || !ok || g.hbOff {
		g.dead = true
	} else {
		g.state = 1
	}
}

func (g *gen) cls() {
	g.lastStart = g.buf.Len()
	g.buf.WriteString("CLS")
	g.eol()
	g.cmd(cCls, 0, true)
	if g.state == 1 {
		g.state = 2
	} else {
		g.dead = true
	}
}

func (g *gen) nop() {
	g.lastStart = g.buf.Len()
	line := "NOP"
	if g.r.Chance(20) {
		line = "NOP x y"
	}
	g.buf.WriteString(line)
	g.eol()
	g.cmd(cNop, 0, true)
}

func (g *gen) unknown() {
	g.lastStart = g.buf.Len()
	vs := []string{"", "FOO", "pub t", "PUBX t", " PUB t", "IDENTIFYX", "\x00", "GET / HTTP/1.1", "FINISH", "nop"}
	g.buf.WriteString(g.pick(vs))
	g.eol()
	g.cmd(cUnknown, 0, true)
	g.dead = true
}

func (g *gen) auth() {
	g.lastStart = g.buf.Len()
	line := "AUTH"
	n := 1 + g.r.Intn(10)
	declared := int64(n)
	valid := true // well-formed; this daemon has no auth server: E_AUTH_DISABLED
	if g.mut() {
		valid = false
		switch g.r.Intn(3) {
		case 0:
			line = "AUTH x"
			g.tag("mut=AUTH.params:extra")
		default:
			declared = g.badLen(maxBody, "AUTH.size")
		}
	}
	g.buf.WriteString(line)
	g.eol()
	g.buf.Write(be(declared))
	g.buf.Write(g.body(n))
	g.cmd(cAuth, 0, valid)
	g.dead = true
}

type fieldVals struct {
	name string
	good []interface{}
	bad  []interface{}
}

var identFields = []fieldVals{
	{"heartbeat_interval", []interface{}{-1, 0, 1000, 60000, 30000}, []interface{}{999, 60001, -2, 1, 1 << 40, -1000}},
	{"output_buffer_size", []interface{}{-1, 0, 64, 65536, 4096}, []interface{}{63, 65537, -2, 1, 1 << 40}},
	{"output_buffer_timeout", []interface{}{-1, 0, 25, 30000, 250}, []interface{}{24, 30001, -2, 1, 1 << 40}},
	{"sample_rate", []interface{}{0, 1, 99, 50}, []interface{}{100, -1, 1000, -100}},
	{"msg_timeout", []interface{}{0, 1000, 900000, 60000}, []interface{}{999, 900001, -1, 1, 1 << 40}},
}

func (g *gen) identify(allowUpgrade bool) {
	g.lastStart = g.buf.Len()
	m := map[string]interface{}{}
	if g.r.Chance(50) {
		m["client_id"] = "c"
	}
	ok := true
	for _, f := range identFields {
		if g.r.Chance(45) {
			m[f.name] = f.good[g.r.Intn(len(f.good))]
		}
	}
	fn := g.r.Chance(50)
	if fn {
		m["feature_negotiation"] = true
	}
	upgrade := false
	if allowUpgrade && g.r.Chance(12) {
		m["feature_negotiation"] = true
		switch g.r.Intn(4) {
		case 0:
			m["snappy"] = true
			upgrade = true
		case 1:
			m["deflate"] = true
			m["deflate_level"] = []int{0, 1, 6, 7, 9, -3}[g.r.Intn(6)]
			upgrade = true
		case 2:
			m["snappy"], m["deflate"] = true, true // refused: E_IDENTIFY_FAILED
			ok = false
		default:
			m["tls_v1"] = true // no TLS config on this daemon: ignored
		}
		g.tag("identify=negotiate")
	} else if g.r.Chance(20) {
		m["deflate_level"] = []int{0, 1, 6, 7, 9, -3}[g.r.Intn(6)]
	}
	var body []byte
	if g.mut() {
		switch g.r.Intn(8) {
		case 0:
			body = []byte(`{"heartbeat_interval":`)
			g.tag("mut=IDENTIFY.json:truncated")
		case 1:
			body = []byte(`{"heartbeat_interval":"1000"}`)
			g.tag("mut=IDENTIFY.json:wrong-type")
		case 2:
			body = []byte(`{"msg_timeout":1e30}`)
			g.tag("mut=IDENTIFY.json:number-overflow")
		case 3:
			body = []byte(`{"sample_rate":2147483648}`)
			g.tag("mut=IDENTIFY.json:int32-overflow")
		default:
			f := identFields[g.r.Intn(len(identFields))]
			v := f.bad[g.r.Intn(len(f.bad))]
			m[f.name] = v
			g.tag(fmt.Sprintf("mut=IDENTIFY.%s:%v", f.name, v))
		}
		ok = false
	}
	if body == nil {
		body, _ = json.Marshal(m)
	}
	declared := int64(len(body))
	if ok && g.mutate && !g.mutated && g.r.Chance(30) {
		g.mutated = true
		declared = g.badLen(maxBody, "IDENTIFY.size")
		ok = false
	}
	g.buf.WriteString("IDENTIFY")
	g.eol()
	g.buf.Write(be(declared))
	g.buf.Write(body)
	g.cmd(cIdentify, 0, ok)
	if v, has := m["heartbeat_interval"]; has && v == -1 {
		g.hbOff = true
	}
	if g.state != 0 || !ok || upgrade {
		g.dead = true
	}
}

// one command; mostly one that the believed state admits
func (g *gen) step(allowUpgrade bool) {
	inState := g.r.Chance(78)
	type choice struct {
		w int
		f func()
	}
	var cs []choice
	add := func(w int, f func()) { cs = append(cs, choice{w, f}) }
	pubs := func() {
		add(6, g.pub)
		add(4, g.mpub)
		add(3, g.dpub)
		add(1, g.nop)
	}
	switch {
	case !inState:
		add(2, func() { g.identify(allowUpgrade) })
		add(2, g.sub)
		add(2, g.rdy)
		add(2, func() { g.finTouch(cFin) })
		add(1, func() { g.finTouch(cTouch) })
		add(2, g.req)
		add(2, g.cls)
		add(1, g.auth)
		add(1, g.unknown)
		pubs()
	case g.state == 0:
		add(5, func() { g.identify(allowUpgrade) })
		add(5, g.sub)
		pubs()
	case g.state == 1:
		add(5, g.rdy)
		add(3, func() { g.finTouch(cFin) })
		add(2, func() { g.finTouch(cTouch) })
		add(3, g.req)
		add(3, g.cls)
		pubs()
	default:
		add(3, g.rdy)
		add(3, func() { g.finTouch(cFin) })
		add(2, func() { g.finTouch(cTouch) })
		add(3, g.req)
		pubs()
	}
	tot := 0
	for _, c := range cs {
		tot += c.w
	}
	k := g.r.Intn(tot)
	for _, c := range cs {
		if k < c.w {
			c.f()
			return
		}
		k -= c.w
	}
}

func (g *gen) sequence(allowUpgrade bool) {
	n := 1 + g.r.Intn(8)
	mutAt := -1
	if g.mutate {
		mutAt = g.r.Intn(n)
	}
	want := g.mutate
	g.mutate = false
	for i := 0; i < n; i++ {
		if want && i >= mutAt && !g.mutated {
			g.mutate = true
		}
		g.step(allowUpgrade)
		if g.dead && !g.r.Chance(25) {
			break
		}
	}
}

func send(b []byte) Step { return Step{K: "send", Hex: hex.EncodeToString(b)} }

func genGrammar(r *lib.Rand, class string, mutate bool, daemon string) Input {
	g := &gen{r: r, mutate: mutate}
	g.buf.WriteString("  V2")
	g.sequence(daemon != "tls")
	if mutate && !g.mutated {
		g.tag("mut=none-applicable")
	}
	return Input{Class: class, Daemon: daemon, Steps: []Step{send(g.buf.Bytes())}, Intent: g.intent, Tags: g.tags}
}

func genTruncated(r *lib.Rand) Input {
	g := &gen{r: r}
	g.buf.WriteString("  V2")
	n := r.Intn(4)
	for i := 0; i < n && !g.dead; i++ {
		g.step(false)
	}
	if g.dead {
		// make the last command the one that is cut
	} else {
		switch r.Intn(4) {
		case 0:
			g.pub()
		case 1:
			g.mpub()
		case 2:
			g.dpub()
		default:
			g.identify(false)
		}
	}
	b := g.buf.Bytes()
	cut := g.lastStart + r.Intn(len(b)-g.lastStart)
	where := "line"
	if nl := bytes.IndexByte(b[g.lastStart:], '\n'); nl >= 0 && cut > g.lastStart+nl {
		where = "body"
		if cut <= g.lastStart+nl+4 {
			where = "size"
		}
	}
	g.tag("truncated=" + where)
	if where == "line" && len(g.intent) > 0 {
		// the daemon never sees the last line as a command (no delimiter before EOF)
		g.intent = g.intent[:len(g.intent)-1]
	} else if len(g.intent) > 0 {
		// its size field or body is incomplete: no longer a well-formed command
		g.intent[len(g.intent)-1][2] = 0
	}
	return Input{Class: "truncated", Daemon: "inproc", Steps: []Step{send(b[:cut])}, Intent: g.intent, Tags: g.tags}
}

func genMagic(r *lib.Rand) Input {
	ms := [][]byte{[]byte("  V1"), []byte(" V2 "), []byte("V2  "), []byte("  v2"), []byte("\x00\x00\x00\x00"), []byte("  V"), []byte(""), []byte(" "), []byte("GET "), []byte("  V3")}
	m := ms[r.Intn(len(ms))]
	var buf bytes.Buffer
	buf.Write(m)
	if len(m) == 4 && r.Chance(60) {
		buf.WriteString("NOP\n")
	}
	in := Input{Class: "magic", Daemon: "inproc", Steps: []Step{send(buf.Bytes())}, Tags: []string{fmt.Sprintf("magic=%q", m)}}
	if len(m) == 4 {
		// not a protocol this daemon speaks: E_BAD_PROTOCOL, then the close - also when the client keeps its side open
		in.Intent = [][]int64{{iBadMagic, 0, 0, 0}}
		if r.Chance(30) {
			in.HoldMs = holdClose
			in.Tags = append(in.Tags, "end=hold")
		}
	} else {
		in.Intent = [][]int64{{iShortMagic, 0, 0, 0}}
	}
	return in
}

// ---------------------------------------------------------------- command lines around the read buffer
// A command line, delimiter included, fits the connection's 16384-byte read buffer or is
// refused: the connection is closed without a reply, nothing of the line (or after it) is
// executed, and the daemon does not wait for the end of the line.  lineCase builds one
// connection: a way into a connection state, then one line of a given content, total
// length (delimiter included), delimiter ("\n", "\r\n", or "" = never terminated) and
// ending (the client half-closes, or keeps its side open and watches).
var lineKinds = []struct {
	name   string
	prefix string
	fillB  byte
	idx    int64 // the command the line is when it fits
	n      int64
	valid  int64
	body   string
}{
	{"nop+param", "NOP ", 'x', cNop, 0, 1, ""},
	{"pub+param", "PUB t1 ", 'y', cPub, 1, 1, "\x00\x00\x00\x02hi"},
	{"pub-longtopic", "PUB ", 'a', cPub, 1, 0, "\x00\x00\x00\x02hi"},
	{"unknown", "", 'z', cUnknown, 0, 1, ""},
	{"sub-longchannel", "SUB t2 ", 'c', cSub, 0, 0, ""},
	{"spaces", "", ' ', cUnknown, 0, 1, ""},
	{"fin-longid", "FIN ", '0', cFin, 0, 0, ""},
	{"binary", "\x00\xff\x00\x0d", 0x80, cUnknown, 0, 1, ""},
}

func lineCase(class string, daemon string, state int, kind int, total int, term string, hold bool) Input {
	pre := statePreludes[state]
	k := lineKinds[kind]
	steps := []Step{send([]byte("  V2" + pre.s + k.prefix))}
	nfill := total - len(term) - len(k.prefix)
	steps = append(steps, Step{K: "fill", Hex: hex.EncodeToString([]byte{k.fillB}), N: nfill})
	intent := append([][]int64{}, pre.intent...)
	tooLong := total > lineBuf || (term == "" && total >= lineBuf)
	tail := term
	switch {
	case tooLong:
		intent = append(intent, []int64{iTooLong, 0, 0, 0})
		if term != "" {
			// what follows the line must not be executed either
			tail += k.body + "NOP\nPUB t2\n\x00\x00\x00\x01z"
		}
	case term == "":
		// an unfinished line that still fits: the daemon waits for its end (or sees the client's EOF)
	default:
		intent = append(intent, []int64{k.idx, k.n, k.valid, 0}, []int64{cPub, 1, 1, 0})
		tail += k.body + "PUB t2\n\x00\x00\x00\x01z"
	}
	if tail != "" {
		steps = append(steps, send([]byte(tail)))
	}
	tname := map[string]string{"\n": "lf", "\r\n": "crlf", "": "none"}[term]
	fit := "fits"
	if tooLong {
		fit = "too-long"
	}
	end := "eof"
	in := Input{Class: class, Daemon: daemon, Steps: steps, Intent: intent}
	if hold {
		end = "hold"
		in.HoldMs = holdOpen
		if tooLong || (term != "" && (k.valid == 0 || k.idx == cUnknown)) {
			in.HoldMs = holdClose // the daemon must close by itself
		}
	}
	in.Tags = []string{fmt.Sprintf("line_bytes=%d", total), "line_kind=" + k.name, "line_term=" + tname, "line_end=" + end, "line_state=" + pre.name,
		fmt.Sprintf("line=%s:%s:%s:%s", pre.name, fit, tname, end)}
	return in
}

// the fixed part, on every run: every connection state x every line content with a line
// that does not fit (one byte too long ... several buffers; terminated by \n, by \r\n, or
// never; the client half-closing or holding the connection open), every content at the two
// longest lengths that still fit, and the plain "hold" behaviour: a fatal error and a wrong
// magic close the connection without the client's EOF, a connection with nothing wrong
// stays open
func genLines() []Input {
	var ins []Input
	lens := []int{lineBuf + 1, lineBuf + 2, 20000, 2*lineBuf + 5, lineBuf + 1, 40000}
	terms := []string{"\n", "\r\n", ""}
	i := 0
	for st := range statePreludes {
		for kd := range lineKinds {
			total := lens[i%len(lens)]
			term := terms[(i/2)%3]
			hold := i%2 == 0
			if term == "" && i%4 == 1 {
				total = lineBuf // a full buffer exactly, never terminated
			}
			ins = append(ins, lineCase("line", []string{"inproc", "sub"}[i%2], st, kd, total, term, hold))
			i++
		}
	}
	for kd := range lineKinds {
		for j, lt := range []struct {
			total int
			term  string
		}{{lineBuf, "\n"}, {lineBuf, "\r\n"}, {lineBuf - 1, "\n"}} {
			ins = append(ins, lineCase("line", []string{"sub", "inproc"}[(kd+j)%2], (kd+j)%len(statePreludes), kd, lt.total, lt.term, (kd+j)%3 == 0))
		}
	}
	// an unfinished line one byte short of the buffer, the client holding on: the daemon waits
	// (or sees the client's EOF); and the longest \r\n line that fits, the client holding on
	for st := range statePreludes {
		ins = append(ins, lineCase("line", "inproc", st, st%len(lineKinds), lineBuf-1, "", true),
			lineCase("line", "sub", st, (st+4)%len(lineKinds), lineBuf-1, "", false),
			lineCase("line", "inproc", st, (st+1)%len(lineKinds), lineBuf, "\r\n", true))
	}
	// the witness of the seeded change C09-m6: 64 KiB without a delimiter, the client holding
	// on; and a terminated 32 KiB topic name
	ins = append(ins, lineCase("line", "sub", 0, 3, 65536, "", true), lineCase("line", "sub", 0, 2, 4+32768+1, "\n", false))
	// holding on, nothing over-long: every state, after a command that is refused / with nothing wrong
	for _, pre := range statePreludes {
		fatal := append(append([][]int64{}, pre.intent...), []int64{cUnknown, 0, 1, 0})
		ins = append(ins, Input{Class: "hold", Daemon: "sub", Steps: []Step{send([]byte("  V2" + pre.s + "BOGUS\n"))}, Intent: fatal, HoldMs: holdClose,
			Tags: []string{"hold=" + pre.name + ":fatal"}})
		ins = append(ins, Input{Class: "hold", Daemon: "inproc", Steps: []Step{send([]byte("  V2" + pre.s + "NOP\n"))},
			Intent: append(append([][]int64{}, pre.intent...), []int64{cNop, 0, 1, 0}), HoldMs: holdOpen, Tags: []string{"hold=" + pre.name + ":open"}})
	}
	ins = append(ins, Input{Class: "hold", Daemon: "inproc", Steps: []Step{send([]byte("  V1"))}, Intent: [][]int64{{iBadMagic, 0, 0, 0}}, HoldMs: holdClose, Tags: []string{"hold=bad-magic"}},
		Input{Class: "hold", Daemon: "inproc", Steps: []Step{send([]byte("  V"))}, Intent: [][]int64{}, HoldMs: holdOpen, Tags: []string{"hold=short-magic"}})
	return ins
}

func genLongLine(r *lib.Rand, k int) Input {
	total := []int{lineBuf, lineBuf + 1, lineBuf - 1, 20000, lineBuf + 2, lineBuf + 1 + r.Intn(3*lineBuf)}[k%6]
	term := []string{"\n", "\n", "\r\n", ""}[r.Intn(4)]
	hold := r.Chance(25)
	if term == "" && total < lineBuf && !hold {
		term = "\n"
	}
	return lineCase("longline", []string{"inproc", "sub"}[r.Intn(2)], r.Intn(len(statePreludes)), r.Intn(len(lineKinds)), total, term, hold)
}

func genGarbage(r *lib.Rand) Input {
	var buf bytes.Buffer
	if r.Chance(85) {
		buf.WriteString("  V2")
	}
	kind := r.Intn(4)
	n := 1 + r.Intn(300)
	words := []string{"PUB ", "MPUB ", "DPUB ", "SUB ", "RDY ", "FIN ", "REQ ", "TOUCH ", "CLS", "NOP", "IDENTIFY", "AUTH", "t1", " ", "\n", "\r\n", "\x00\x00\x00\x01", "\xff\xff\xff\xff", "\x00\x00\x00\x00", "\x7f\xff\xff\xff", "0123456789abcdef"}
	switch kind {
	case 0: // raw random bytes
		buf.Write(r.Bytes(n))
	case 1: // random bytes with newlines sprinkled in
		b := r.Bytes(n)
		for i := range b {
			if r.Chance(8) {
				b[i] = '\n'
			}
		}
		buf.Write(b)
	default: // protocol words and binary scraps in random order
		for i := 0; i < 2+r.Intn(14); i++ {
			if r.Chance(75) {
				buf.WriteString(words[r.Intn(len(words))])
			} else {
				buf.Write(r.Bytes(1 + r.Intn(6)))
			}
		}
	}
	return Input{Class: "garbage", Daemon: "sub", Steps: []Step{send(buf.Bytes())}, Tags: []string{fmt.Sprintf("garbage_kind=%d", kind)}}
}

// ---------------------------------------------------------------- sessions
// A session is a consumer that really holds messages: it publishes to a topic of its own,
// subscribes, receives, and then answers with the ids the daemon handed out - in the
// subscribed state and, after CLS, in the closing state - mixed with every other command
// of the protocol.  All its publishes go to its own topic, so the channel's counters after
// the case are determined by the commands that were accepted.
type sess struct {
	r     *lib.Rand
	g     *gen
	steps []Step
	cur   bytes.Buffer
	topic string
	state int   // 1 subscribed, 2 closing
	live  []int // slots delivered and not yet finished / requeued
	dead  []int // slots finished or requeued
	ended bool  // a command that must be answered with a fatal error has been written
}

func newSess(r *lib.Rand, topic string) *sess {
	s := &sess{r: r, g: &gen{r: r}, topic: topic}
	s.cur.WriteString("  V2")
	return s
}
func (s *sess) flush() {
	if s.cur.Len() > 0 {
		s.steps = append(s.steps, send(s.cur.Bytes()))
		s.cur.Reset()
	}
}
func (s *sess) line(str string) { s.cur.WriteString(str + "\n") }
func (s *sess) withID(pre string, slot int, post string) {
	s.flush()
	s.steps = append(s.steps, Step{K: "sendid", Hex: hex.EncodeToString([]byte(pre)), Slot: slot, Post: hex.EncodeToString([]byte(post + "\n"))})
}
func (s *sess) wait(n int) {
	s.flush()
	for i := 0; i < n; i++ {
		s.live = append(s.live, len(s.live)+len(s.dead))
		s.steps = append(s.steps, Step{K: "wait"})
	}
}
func (s *sess) stName() string { return []string{"init", "sub", "closing"}[s.state] }
func (s *sess) kill(slot int) {
	var rest []int
	for _, x := range s.live {
		if x != slot {
			rest = append(rest, x)
		}
	}
	s.live = rest
	s.dead = append(s.dead, slot)
}

// publish [n] messages to the session's topic with one command
func (s *sess) publish(kind int, n int) {
	switch kind {
	case cPub:
		s.line("PUB " + s.topic)
		s.cur.Write(be(3))
		s.cur.WriteString("pub")
		s.g.cmd(cPub, 1, true)
	case cDpub:
		s.line("DPUB " + s.topic + " 0")
		s.cur.Write(be(4))
		s.cur.WriteString("dpub")
		s.g.cmd(cDpub, 1, true)
	default:
		s.line("MPUB " + s.topic)
		s.cur.Write(be(int64(4 + 6*n)))
		s.cur.Write(be(int64(n)))
		for i := 0; i < n; i++ {
			s.cur.Write(be(2))
			s.cur.WriteString(fmt.Sprintf("m%d", i%10))
		}
		s.g.cmd(cMpub, int64(n), true)
	}
}

var longDelays = []string{"3600000", "60000", "99999999999999999999", "3600001"}

// FIN / REQ / TOUCH of a message this connection holds: must succeed silently
func (s *sess) answerHeld(c int, slot int) {
	switch c {
	case cFin:
		s.withID("FIN ", slot, "")
		s.g.cmdx(cFin, 0, true, int64(slot)+1)
		s.kill(slot)
	case cReq:
		// while subscribed only with a long delay (an immediate requeue would be delivered
		// again); after CLS nothing is delivered any more
		d := longDelays[s.r.Intn(len(longDelays))]
		if s.state == 2 && s.r.Chance(50) {
			d = []string{"0", "", "00"}[s.r.Intn(3)]
		}
		n := int64(1)
		if d == "0" || d == "" || d == "00" {
			n = 0
		}
		s.withID("REQ ", slot, " "+d)
		s.g.cmdx(cReq, n, true, int64(slot)+1)
		s.kill(slot)
	default:
		s.withID("TOUCH ", slot, "")
		s.g.cmdx(cTouch, 0, true, int64(slot)+1)
	}
	s.g.tag(fmt.Sprintf("session=%s:%s-held", s.stName(), cmdNames[c]))
}

// the same for a message that was finished / requeued before, or an id nobody was given:
// the non-fatal E_*_FAILED
func (s *sess) answerGone(c int) {
	post := ""
	if c == cReq {
		post = " " + []string{"0", "1000", "3600000"}[s.r.Intn(3)]
	}
	if len(s.dead) > 0 && s.r.Chance(60) {
		slot := s.dead[s.r.Intn(len(s.dead))]
		s.withID(cmdNames[c]+" ", slot, post)
		s.g.cmdx(c, 0, true, int64(slot)+1)
		s.g.tag(fmt.Sprintf("session=%s:%s-answered-before", s.stName(), cmdNames[c]))
	} else {
		s.line(cmdNames[c] + " " + s.g.randID() + post)
		s.g.cmdx(c, 0, true, 0)
		s.g.tag(fmt.Sprintf("session=%s:%s-foreign-id", s.stName(), cmdNames[c]))
	}
}

// a command that must end the connection with a fatal error
func (s *sess) fatal() {
	c := []int{cFin, cReq, cTouch}[s.r.Intn(3)]
	switch k := s.r.Intn(9); {
	case k < 3: // malformed id: a held id with bytes appended, or a short one
		post := ""
		if c == cReq {
			post = " 0"
		}
		if len(s.live) > 0 && s.r.Chance(60) {
			s.withID(cmdNames[c]+" ", s.live[s.r.Intn(len(s.live))], []string{"x", "0", "0123456789abcdef"}[s.r.Intn(3)]+post)
		} else {
			s.line(cmdNames[c] + " " + s.g.randID()[:15] + post)
		}
		s.g.cmd(c, 0, false)
		s.g.tag(fmt.Sprintf("session=%s:%s-malformed-id", s.stName(), cmdNames[c]))
	case k == 3:
		if s.state == 1 {
			bad := s.g.pick(rdyBad)
			s.line("RDY " + bad)
			s.g.cmd(cRdy, 0, false)
		} else {
			s.line("CLS")
			s.g.cmd(cCls, 0, true)
		}
	case k == 4:
		s.line("SUB " + s.topic + " c2")
		s.g.cmd(cSub, 0, true)
	case k == 5:
		s.line("IDENTIFY")
		s.cur.Write(be(2))
		s.cur.WriteString("{}")
		s.g.cmd(cIdentify, 0, true)
	case k == 6:
		s.line("AUTH")
		s.cur.Write(be(1))
		s.cur.WriteString("x")
		s.g.cmd(cAuth, 0, true)
	case k == 7:
		s.line([]string{"", "FOO", "fin", "FINISH 0123456789abcdef"}[s.r.Intn(4)])
		s.g.cmd(cUnknown, 0, true)
	default:
		switch s.r.Intn(3) {
		case 0:
			s.line("PUB " + s.g.pick(badNames))
			s.cur.Write(be(1))
			s.cur.WriteString("x")
			s.g.cmd(cPub, 1, false)
		case 1:
			s.line("PUB " + s.topic)
			s.cur.Write(be([]int64{0, -1, maxMsg + 1}[s.r.Intn(3)]))
			s.g.cmd(cPub, 1, false)
		default:
			s.line("REQ " + s.g.randID() + " " + []string{"x", "-1", "1.5"}[s.r.Intn(3)])
			s.g.cmd(cReq, 0, false)
		}
	}
	s.ended = true
	s.g.tag("session=" + s.stName() + ":fatal")
}

// one command in the subscribed or the closing state
func (s *sess) op() {
	type choice struct {
		w int
		f func()
	}
	var cs []choice
	add := func(w int, f func()) { cs = append(cs, choice{w, f}) }
	if len(s.live) > 0 {
		slot := s.live[s.r.Intn(len(s.live))]
		add(5, func() { s.answerHeld(cFin, slot) })
		add(5, func() { s.answerHeld(cReq, slot) })
		add(4, func() { s.answerHeld(cTouch, slot) })
	}
	add(2, func() { s.answerGone(cFin) })
	add(2, func() { s.answerGone(cReq) })
	add(2, func() { s.answerGone(cTouch) })
	add(3, func() {
		if s.state == 1 {
			s.line("RDY " + []string{"0", "1", "3", "10", ""}[s.r.Intn(5)])
			s.g.cmd(cRdy, 0, true)
		} else {
			// ignored after CLS, whatever it says
			if s.r.Chance(50) {
				s.line("RDY " + s.g.pick(rdyGood))
				s.g.cmd(cRdy, 0, true)
			} else {
				s.line("RDY " + s.g.pick(rdyBad))
				s.g.cmd(cRdy, 0, false)
			}
		}
	})
	add(1, func() { s.line("NOP"); s.g.cmd(cNop, 0, true) })
	add(2, func() { s.publish(cPub, 1) })
	add(1, func() { s.publish(cMpub, 1+s.r.Intn(3)) })
	add(1, func() { s.publish(cDpub, 1) })
	add(2, s.fatal)
	tot := 0
	for _, c := range cs {
		tot += c.w
	}
	k := s.r.Intn(tot)
	for _, c := range cs {
		if k < c.w {
			c.f()
			return
		}
		k -= c.w
	}
}

func (s *sess) input(class, daemon string) Input {
	s.flush()
	return Input{Class: class, Daemon: daemon, Steps: s.steps, Intent: s.g.intent, Tags: s.g.tags, ChanTopic: s.topic, ChanName: "ch"}
}

func genSession(r *lib.Rand, k int, daemon string) Input {
	s := newSess(r, fmt.Sprintf("ss%d_%d", k, r.Intn(1000000)))
	if r.Chance(50) {
		// options that do not change what is delivered (no sampling, no short message
		// timeout, no compression)
		m := map[string]interface{}{"client_id": "s", "feature_negotiation": r.Chance(50)}
		if r.Chance(50) {
			m["heartbeat_interval"] = []int{30000, 60000}[r.Intn(2)]
		}
		if r.Chance(30) {
			m["output_buffer_size"] = []int{64, 4096}[r.Intn(2)]
			m["output_buffer_timeout"] = []int{25, 250}[r.Intn(2)]
		}
		if r.Chance(30) {
			m["msg_timeout"] = []int{60000, 900000}[r.Intn(2)]
		}
		body, _ := json.Marshal(m)
		s.line("IDENTIFY")
		s.cur.Write(be(int64(len(body))))
		s.cur.Write(body)
		s.g.cmd(cIdentify, 0, true)
		s.g.tag("session=identified")
	}
	p := 2 + r.Intn(3)
	if r.Chance(30) {
		s.publish(cMpub, p)
	} else {
		for i := 0; i < p; i++ {
			s.publish([]int{cPub, cPub, cDpub}[r.Intn(3)], 1)
		}
	}
	s.line("SUB " + s.topic + " ch")
	s.g.cmd(cSub, 0, true)
	s.state = 1
	rdy := 1 + r.Intn(p)
	s.line(fmt.Sprintf("RDY %d", rdy))
	s.g.cmd(cRdy, 0, true)
	s.wait(rdy)
	for n := r.Intn(4); n > 0 && !s.ended; n-- {
		s.op()
	}
	if !s.ended && r.Chance(75) {
		s.line("CLS")
		s.g.cmd(cCls, 0, true)
		s.state = 2
		s.g.tag(fmt.Sprintf("session=cls-holding-%d", len(s.live)))
		for n := 1 + r.Intn(6); n > 0 && !s.ended; n-- {
			s.op()
		}
	}
	if s.ended && r.Chance(40) {
		// what follows a fatal error must not be executed
		if len(s.live) > 0 && r.Chance(60) {
			s.withID("FIN ", s.live[0], "")
			s.g.cmdx(cFin, 0, true, int64(s.live[0])+1)
		} else {
			s.publish(cPub, 1)
		}
		s.g.tag("session=commands-after-fatal")
	}
	return s.input("session", daemon)
}

// held: the fixed part of the sessions, on every run: two messages in flight; FIN / REQ /
// TOUCH of the first one, in the subscribed and in the closing state, must succeed
// silently; the same command again gets the non-fatal error (TOUCH: succeeds again);
// the second message stays in flight; a publish in the same state closes the sequence.
func genHeld(seed int, variant int) Input {
	s := newSess(nil, fmt.Sprintf("hd%d_%d", seed, variant))
	c := []int{cFin, cReq, cTouch, cReq}[variant/2] // variant 6: REQ with a delay after CLS
	s.publish(cMpub, 2)
	s.line("SUB " + s.topic + " ch")
	s.g.cmd(cSub, 0, true)
	s.state = 1
	s.line("RDY 2")
	s.g.cmd(cRdy, 0, true)
	s.wait(2)
	if variant%2 == 1 || variant == 6 {
		s.line("CLS")
		s.g.cmd(cCls, 0, true)
		s.state = 2
	}
	post, n := "", int64(0)
	if c == cReq {
		post, n = " 60000", 1
		if s.state == 2 && variant != 6 {
			post, n = " 0", 0
		}
	}
	for i := 0; i < 2; i++ {
		s.withID(cmdNames[c]+" ", 0, post)
		s.g.cmdx(c, n, true, 1) // the second time a finished / requeued message is no longer in flight
	}
	s.withID("TOUCH ", 1, "")
	s.g.cmdx(cTouch, 0, true, 2)
	s.publish(cPub, 1)
	s.g.tag(fmt.Sprintf("held=%s:%s%s", s.stName(), cmdNames[c], post))
	return s.input("held", []string{"inproc", "sub"}[(variant/2+variant)%2])
}

// the connection states of the protocol table and one way into each
var statePreludes = []struct {
	name, s string
	intent  [][]int64
}{
	{"init", "", nil},
	{"ident", "IDENTIFY\n\x00\x00\x00\x02{}", [][]int64{{cIdentify, 0, 1}}},
	{"sub", "SUB t1 c1\n", [][]int64{{cSub, 0, 1}}},
	{"closing", "SUB t1 c1\nCLS\n", [][]int64{{cSub, 0, 1}, {cCls, 0, 1}}},
}

// every command once with parameters the protocol admits and once with parameters it
// refuses ("" = the command has none)
var stateCmds = []struct {
	idx       int64
	n         int64
	good, bad string
}{
	{cIdentify, 0, "IDENTIFY\n\x00\x00\x00\x02{}", "IDENTIFY\n\x00\x00\x00\x1a{\"heartbeat_interval\":999}"},
	{cSub, 0, "SUB t2 c2\n", "SUB t2 bad$\n"},
	{cRdy, 0, "RDY 1\n", "RDY 11\n"},
	{cFin, 0, "FIN 0123456789abcdef\n", "FIN 0123456789abcde\n"},
	{cReq, 0, "REQ 0123456789abcdef 0\n", "REQ 0123456789abcdef x\n"},
	{cTouch, 0, "TOUCH 0123456789abcdef\n", "TOUCH 0123456789abcdef0\n"},
	{cCls, 0, "CLS\n", ""},
	{cNop, 0, "NOP\n", ""},
	{cPub, 1, "PUB t1\n\x00\x00\x00\x01p", "PUB bad$\n\x00\x00\x00\x01p"},
	{cMpub, 2, "MPUB t1\n\x00\x00\x00\x0e\x00\x00\x00\x02\x00\x00\x00\x01a\x00\x00\x00\x01b", "MPUB t1\n\x00\x00\x00\x09\x00\x00\x00\x00\x00\x00\x00\x01a"},
	{cDpub, 1, "DPUB t1 0\n\x00\x00\x00\x01d", "DPUB t1 x\n\x00\x00\x00\x01d"},
	{cAuth, 0, "AUTH\n\x00\x00\x00\x01x", "AUTH x\n\x00\x00\x00\x01x"},
	{cUnknown, 0, "BOGUS\n", ""},
}

// boundary: a fixed sweep, run first on every run, of each numeric field and name at, just
// inside and just outside its limit (the random classes hit a given boundary only now
// and then)
func genBoundary() []Input {
	var ins []Input
	add := func(tag string, stream []byte, intent [][]int64) {
		ins = append(ins, Input{Class: "boundary", Daemon: "sub", Steps: []Step{send(append([]byte("  V2"), stream...))}, Intent: intent, Tags: []string{"boundary=" + tag}})
	}
	b2i := func(b bool) int64 {
		if b {
			return 1
		}
		return 0
	}
	cat := func(parts ...[]byte) []byte { return bytes.Join(parts, nil) }
	onePub := cat([]byte("PUB t1\n"), be(1), []byte("z"))
	// IDENTIFY: every option at every listed value
	for _, f := range identFields {
		for gi, vals := range [][]interface{}{f.good, f.bad} {
			for _, v := range vals {
				// feature_negotiation: the JSON answer then shows the values the daemon adopted
				body, _ := json.Marshal(map[string]interface{}{f.name: v, "feature_negotiation": true})
				add(fmt.Sprintf("IDENTIFY.%s=%v", f.name, v), cat([]byte("IDENTIFY\n"), be(int64(len(body))), body, onePub),
					[][]int64{{cIdentify, 0, b2i(gi == 0)}, {cPub, 1, 1}})
			}
		}
	}
	for _, lv := range []int{-3, 0, 1, 6, 7, 9} { // deflate level is clamped, never refused
		body, _ := json.Marshal(map[string]interface{}{"feature_negotiation": true, "deflate": true, "deflate_level": lv})
		add(fmt.Sprintf("IDENTIFY.deflate_level=%d", lv), cat([]byte("IDENTIFY\n"), be(int64(len(body))), body), [][]int64{{cIdentify, 0, 1}})
	}
	for _, n := range []int64{0, 1, maxBody, maxBody + 1, -1} {
		body := bytes.Repeat([]byte(" "), int(maxBody)+1)
		copy(body, []byte("{}"))
		have := n
		if have < 2 {
			have = 2
		}
		add(fmt.Sprintf("IDENTIFY.size=%d", n), cat([]byte("IDENTIFY\n"), be(n), body[:have]), [][]int64{{cIdentify, 0, b2i(n >= 2 && n <= maxBody)}})
	}
	// RDY
	for gi, vals := range [][]string{rdyGood, rdyBad} {
		for _, v := range vals {
			add("RDY="+v, cat([]byte("SUB t1 c1\nRDY "+v+"\n"), onePub), [][]int64{{cSub, 0, 1}, {cRdy, 0, b2i(gi == 0)}, {cPub, 1, 1}})
		}
	}
	// PUB / DPUB sizes
	for _, n := range []int64{-1, 0, 1, maxMsg - 1, maxMsg, maxMsg + 1} {
		have := n
		if have < 0 {
			have = 0
		}
		ok := b2i(n >= 1 && n <= maxMsg)
		body := bytes.Repeat([]byte("b"), int(have))
		add(fmt.Sprintf("PUB.size=%d", n), cat([]byte("PUB t1\n"), be(n), body, onePub), [][]int64{{cPub, 1, ok}, {cPub, 1, 1}})
		add(fmt.Sprintf("DPUB.size=%d", n), cat([]byte("DPUB t1 5\n"), be(n), body, onePub), [][]int64{{cDpub, 1, ok}, {cPub, 1, 1}})
	}
	for gi, vals := range [][]string{deferGood, deferBad} {
		for _, v := range vals {
			add("DPUB.defer="+v, cat([]byte("DPUB t1 "+v+"\n"), be(1), []byte("d"), onePub), [][]int64{{cDpub, 1, b2i(gi == 0)}, {cPub, 1, 1}})
		}
	}
	// REQ delays on a message that is not in flight: E_REQ_FAILED (non-fatal) or E_INVALID
	for _, v := range []string{"0", "3600000", "3600001", "99999999999999999999", "x", "-1", ""} {
		add("REQ.delay="+v, cat([]byte("SUB t1 c1\nREQ 0123456789abcdef "+v+"\n"), onePub), [][]int64{{cSub, 0, 1}, {cReq, 0, b2i(v != "x" && v != "-1")}, {cPub, 1, 1}})
		add("REQ.idlen=17,delay="+v, cat([]byte("SUB t1 c1\nREQ 0123456789abcdefg "+v+"\n"), onePub), [][]int64{{cSub, 0, 1}, {cReq, 0, 0}, {cPub, 1, 1}})
	}
	for _, l := range []int{0, 15, 16, 17, 32} {
		id := strings.Repeat("a", l)
		for _, c := range []int{cFin, cTouch} {
			add(fmt.Sprintf("%s.idlen=%d", cmdNames[c], l), cat([]byte("SUB t1 c1\n"+cmdNames[c]+" "+id+"\n"), onePub), [][]int64{{cSub, 0, 1}, {int64(c), 0, b2i(l == 16)}, {cPub, 1, 1}})
			// the same as the last command of the stream, and after CLS
			add(fmt.Sprintf("%s.idlen=%d(last)", cmdNames[c], l), []byte("SUB t1 c1\n"+cmdNames[c]+" "+id+"\n"), [][]int64{{cSub, 0, 1}, {int64(c), 0, b2i(l == 16)}})
			add(fmt.Sprintf("%s.idlen=%d(closing)", cmdNames[c], l), cat([]byte("SUB t1 c1\nCLS\n"+cmdNames[c]+" "+id+"\n"), onePub), [][]int64{{cSub, 0, 1}, {cCls, 0, 1}, {int64(c), 0, b2i(l == 16)}, {cPub, 1, 1}})
		}
	}
	// MPUB: count and declared size at their limits (1-byte messages: 5 bytes each)
	for _, k := range []int64{-1, 0, 1, maxCount - 1, maxCount, maxCount + 1} {
		have := k
		if have < 0 {
			have = 0
		}
		var batch bytes.Buffer
		batch.Write(be(k))
		for i := int64(0); i < have; i++ {
			batch.Write(be(1))
			batch.WriteByte('m')
		}
		ok := k >= 1 && k <= maxCount
		blen := int64(batch.Len())
		if blen > maxBody { // keep the size field legal so that the count test is what refuses
			blen = maxBody
		}
		add(fmt.Sprintf("MPUB.count=%d", k), cat([]byte("MPUB t1\n"), be(blen), batch.Bytes()), [][]int64{{cMpub, k, b2i(ok)}})
	}
	for _, blen := range []int64{-1, 0, 1, 8, 9, 10, maxBody, maxBody + 1} {
		// one 1-byte message needs 4 + 4 + 1 = 9 bytes
		add(fmt.Sprintf("MPUB.size=%d(needs 9)", blen), cat([]byte("MPUB t1\n"), be(blen), be(1), be(1), []byte("m"), onePub),
			[][]int64{{cMpub, 1, b2i(blen >= 9 && blen <= maxBody)}, {cPub, 1, 1}})
	}
	for _, sz := range []int64{-1, 0, 1, maxMsg, maxMsg + 1} {
		have := sz
		if have < 0 {
			have = 0
		}
		body := bytes.Repeat([]byte("q"), int(have))
		// two good messages, then the probed one LAST
		batch := cat(be(3), be(1), []byte("a"), be(1), []byte("b"), be(sz), body)
		add(fmt.Sprintf("MPUB.lastmsgsize=%d", sz), cat([]byte("MPUB t1\n"), be(int64(len(batch))), batch), [][]int64{{cMpub, 3, b2i(sz >= 1 && sz <= maxMsg)}})
	}
	// names
	names := []struct {
		n  string
		ok bool
	}{{strings.Repeat("n", 64), true}, {strings.Repeat("n", 65), false}, {strings.Repeat("n", 54) + "#ephemeral", true},
		{strings.Repeat("n", 55) + "#ephemeral", false}, {"n", true}, {"#ephemeral", false}, {"n#ephemeral", true}, {"n#ephemeralx", false}, {"n#ephemera", false},
		{"a.b_c-9Z", true}, {"a b", false}, {"a/b", false}, {"a@", false}, {"[", false}, {"`", false}, {"{", false}}
	for _, nm := range names {
		if !strings.Contains(nm.n, " ") {
			add(fmt.Sprintf("PUB.topic=%q", nm.n), cat([]byte("PUB "+nm.n+"\n"), be(1), []byte("n"), onePub), [][]int64{{cPub, 1, b2i(nm.ok)}, {cPub, 1, 1}})
			add(fmt.Sprintf("SUB.channel=%q", nm.n), cat([]byte("SUB t1 "+nm.n+"\n"), onePub), [][]int64{{cSub, 0, b2i(nm.ok)}, {cPub, 1, 1}})
			if !strings.HasSuffix(nm.n, "#ephemeral") {
				add(fmt.Sprintf("SUB.topic=%q", nm.n), cat([]byte("SUB "+nm.n+" c1\n"), onePub), [][]int64{{cSub, 0, b2i(nm.ok)}, {cPub, 1, 1}})
			}
		}
	}
	// states: the whole (command x connection state) table, with parameters the protocol
	// admits and with parameters it refuses: every command as the first one, after an
	// IDENTIFY, after SUB, and after SUB + CLS (FIN / REQ / TOUCH of a message that really
	// is in flight: genHeld and the sessions)
	for _, pre := range statePreludes {
		for _, c := range stateCmds {
			for vi, str := range []string{c.good, c.bad} {
				if str == "" {
					continue
				}
				in := append(append([][]int64{}, pre.intent...), []int64{c.idx, c.n, b2i(vi == 0)}, []int64{cPub, 1, 1})
				add(fmt.Sprintf("state:%s+%s(%s)", pre.name, cmdNames[c.idx], []string{"valid", "invalid"}[vi]), cat([]byte(pre.s+str), onePub), in)
			}
		}
		in := append(append([][]int64{}, pre.intent...), []int64{cUnknown, 0, 1}, []int64{cPub, 1, 1})
		add(fmt.Sprintf("state:%s+empty-line", pre.name), cat([]byte(pre.s+"\n"), onePub), in)
	}
	return ins
}

// probes: the Exec table regenerated from the repository under test (coq/gen/ProtoTable.v)
// names the commands the daemon dispatches; a command literal the model has no row for is
// probed in every connection state: the protocol knows no such command, so it must be
// answered like any unknown command (fatal E_INVALID)
func genProbes() []Input {
	known := map[string]bool{}
	for _, n := range cmdNames {
		known[n] = true
	}
	var src []byte
	for _, p := range []string{filepath.Join(os.Getenv("VERIF_SCRATCH"), "coq/gen/ProtoTable.v"), filepath.Join(os.Getenv("VERIF_DIR"), "coq/gen/ProtoTable.v")} {
		if b, err := os.ReadFile(p); err == nil {
			src = b
			break
		}
	}
	var ins []Input
	re := regexp.MustCompile(`\(\[([0-9;]*)\]%N, "(\w*)", (true|false)\)`)
	for _, m := range re.FindAllSubmatch(src, -1) {
		var lit []byte
		for _, f := range strings.Split(string(m[1]), ";") {
			if f == "" {
				continue
			}
			var v int
			fmt.Sscanf(f, "%d", &v)
			lit = append(lit, byte(v))
		}
		if known[string(lit)] {
			continue
		}
		for _, pre := range []struct {
			s      string
			intent [][]int64
		}{{"", nil}, {"SUB t1 c1\n", [][]int64{{cSub, 0, 1}}}, {"SUB t1 c1\nCLS\n", [][]int64{{cSub, 0, 1}, {cCls, 0, 1}}}} {
			var buf bytes.Buffer
			buf.WriteString("  V2" + pre.s)
			buf.Write(lit)
			buf.WriteString("\nPUB t1\n")
			buf.Write(be(1))
			buf.WriteString("z")
			in := append(append([][]int64{}, pre.intent...), []int64{cUnknown, 0, 1}, []int64{cPub, 1, 1})
			ins = append(ins, Input{Class: "probe-new-command", Daemon: "sub", Steps: []Step{send(buf.Bytes())}, Intent: in,
				Tags: []string{fmt.Sprintf("probe=%q handler=%s", lit, m[2])}})
		}
	}
	return ins
}

// overlong: a message is delivered and held; then FIN / REQ / TOUCH names it with extra
// bytes appended to its id.  The id is malformed: fatal E_INVALID, and the message is still
// held by the channel afterwards (the channel's counters after the case).
func genOverlong(k int, variant int) Input {
	topic := fmt.Sprintf("ol%d_%d", k, variant)
	g := &gen{}
	var steps []Step
	var cur bytes.Buffer
	cur.WriteString("  V2PUB " + topic + "\n")
	cur.Write(be(3))
	cur.WriteString("msg")
	g.cmd(cPub, 1, true)
	cur.WriteString("SUB " + topic + " ch\nRDY 1\n")
	g.cmd(cSub, 0, true)
	g.cmd(cRdy, 0, true)
	steps = append(steps, send(cur.Bytes()), Step{K: "wait"})
	if variant&1 == 1 {
		steps = append(steps, Step{K: "sendid", Hex: hex.EncodeToString([]byte("TOUCH ")), Slot: 0, Post: hex.EncodeToString([]byte("\n"))})
		g.cmdx(cTouch, 0, true, 1)
	}
	if variant&2 == 2 {
		steps = append(steps, send([]byte("CLS\n")))
		g.cmd(cCls, 0, true)
	}
	c := []int{cFin, cReq, cTouch}[(variant/4)%3]
	extra := []string{"x", "0", "0123456789abcdef"}[(variant/12)%3]
	post := extra
	if c == cReq {
		post += " 0"
	}
	steps = append(steps, Step{K: "sendid", Hex: hex.EncodeToString([]byte(cmdNames[c] + " ")), Slot: 0, Post: hex.EncodeToString([]byte(post + "\n"))})
	g.cmd(c, 0, false)
	// what follows must not be executed
	steps = append(steps, send([]byte("NOP\n")))
	g.cmd(cNop, 0, true)
	return Input{Class: "overlong-id", Daemon: "inproc", Steps: steps, Intent: g.intent,
		Tags: append(g.tags, fmt.Sprintf("overlong=%s+%dbytes", cmdNames[c], len(extra))), ChanTopic: topic, ChanName: "ch"}
}

// ---------------------------------------------------------------- daemons
type daemon struct {
	name     string
	tcp      string
	http     string
	inproc   *nsqd.NSQD
	proc     *exec.Cmd
	exited   chan struct{}
	coqCfg   string
	byst     *bystander
	noByst   bool
	restarts int
}

func setLimits(o *nsqd.Options) {
	o.MaxMsgSize = maxMsg
	o.MaxBodySize = maxBody
	o.MaxRdyCount = maxRdy
	o.MaxChannelConsumers = 1
}

func startInproc(tls bool) *daemon {
	opts := nsqdlib.NewOpts(nsqdlib.ScratchDir())
	setLimits(opts)
	d := &daemon{name: "inproc", coqCfg: fmt.Sprintf("(J09.mk_cfg %d%%Z %d%%Z %d%%Z true true false false)", maxMsg, maxBody, maxRdy)}
	if tls {
		repo := os.Getenv("VERIF_REPO")
		if repo == "" {
			repo = "/repo"
		}
		opts.TLSCert = filepath.Join(repo, "nsqd/test/certs/server.pem")
		opts.TLSKey = filepath.Join(repo, "nsqd/test/certs/server.key")
		opts.TLSRequired = nsqd.TLSRequiredExceptHTTP
		opts.HTTPSAddress = "127.0.0.1:0"
		d.name = "tls"
		d.noByst = true
		d.coqCfg = fmt.Sprintf("(J09.mk_cfg %d%%Z %d%%Z %d%%Z true true true true)", maxMsg, maxBody, maxRdy)
	}
	n, err := nsqdlib.Start(opts)
	if err != nil {
		lib.Fatalf("start nsqd: %v", err)
	}
	d.inproc = n
	d.tcp = n.RealTCPAddr().String()
	d.http = n.RealHTTPAddr().String()
	return d
}

var listenRe = regexp.MustCompile(`(TCP|HTTP): listening on (\S+)`)

func startSub() *daemon {
	bin := filepath.Join(os.Getenv("VERIF_BIN_DIR"), "nsqd")
	dp, err := os.MkdirTemp(nsqdlib.ScratchDir(), "nsqd-sub-")
	if err != nil {
		lib.Fatalf("mkdir: %v", err)
	}
	cmd := exec.Command(bin, "-tcp-address", "127.0.0.1:0", "-http-address", "127.0.0.1:0", "-https-address", "127.0.0.1:0", "-broadcast-address", "127.0.0.1",
		"-data-path", dp, "-max-msg-size", fmt.Sprint(maxMsg), "-max-body-size", fmt.Sprint(maxBody),
		"-max-rdy-count", fmt.Sprint(maxRdy), "-max-channel-consumers", "1", "-log-level", "info")
	stderr, err := cmd.StderrPipe()
	if err != nil {
		lib.Fatalf("pipe: %v", err)
	}
	if err := cmd.Start(); err != nil {
		lib.Fatalf("start %s: %v", bin, err)
	}
	d := &daemon{name: "sub", proc: cmd, exited: make(chan struct{}),
		coqCfg: fmt.Sprintf("(J09.mk_cfg %d%%Z %d%%Z %d%%Z true true false false)", maxMsg, maxBody, maxRdy)}
	addrs := make(chan [2]string, 2)
	go func() {
		sc := bufio.NewScanner(stderr)
		sc.Buffer(make([]byte, 1<<20), 1<<20)
		for sc.Scan() {
			if m := listenRe.FindStringSubmatch(sc.Text()); m != nil {
				select {
				case addrs <- [2]string{m[1], m[2]}:
				default:
				}
			}
		}
		io.Copy(io.Discard, stderr)
		cmd.Wait()
		close(d.exited)
	}()
	deadline := time.After(20 * time.Second)
	for d.tcp == "" || d.http == "" {
		select {
		case a := <-addrs:
			if a[0] == "TCP" {
				d.tcp = a[1]
			} else {
				d.http = a[1]
			}
		case <-d.exited:
			lib.Fatalf("nsqd subprocess exited during start-up")
		case <-deadline:
			lib.Fatalf("nsqd subprocess did not report its listeners")
		}
	}
	return d
}

func (d *daemon) alive() bool {
	if d.exited != nil {
		select {
		case <-d.exited:
			return false
		default:
		}
	}
	c := http.Client{Timeout: 5 * time.Second}
	resp, err := c.Get("http://" + d.http + "/ping")
	if err != nil {
		return false
	}
	defer resp.Body.Close()
	io.Copy(io.Discard, resp.Body)
	return resp.StatusCode == 200
}

func (d *daemon) stop() {
	if d.byst != nil {
		d.byst.conn.Close()
	}
	if d.inproc != nil {
		d.inproc.Exit()
	}
	if d.proc != nil {
		d.proc.Process.Kill()
		<-d.exited
	}
}

// sum of message_count over all topics but the bystander's
func (d *daemon) messageCount() (int64, bool) {
	c := http.Client{Timeout: 5 * time.Second}
	resp, err := c.Get("http://" + d.http + "/stats?format=json")
	if err != nil {
		return 0, false
	}
	defer resp.Body.Close()
	var st struct {
		Topics []struct {
			Name  string `json:"topic_name"`
			Count int64  `json:"message_count"`
		} `json:"topics"`
	}
	if json.NewDecoder(resp.Body).Decode(&st) != nil {
		return 0, false
	}
	var s int64
	for _, t := range st.Topics {
		if t.Name != bystanderTopic {
			s += t.Count
		}
	}
	return s, true
}

// the counters of one channel after a case: messages left (topic depth + channel depth +
// in flight + deferred), in flight, deferred, requeue_count; all -1 = the channel is not
// listed.  The topic's pump hands messages to the channel asynchronously: the counters are
// read once it has handed over everything (channel message_count = topic message_count,
// an exact condition that always comes true on a topic with one channel) and two
// consecutive readings agree (/stats is not one atomic snapshot).
func (d *daemon) chanObs(topic, ch string) [4]int64 {
	c := http.Client{Timeout: 5 * time.Second}
	obs := [4]int64{-1, -1, -1, -1}
	prev, prevSettled := obs, false
	deadline := time.Now().Add(5 * time.Second)
	for {
		resp, err := c.Get("http://" + d.http + "/stats?format=json&topic=" + topic)
		if err != nil {
			return obs
		}
		var st struct {
			Topics []struct {
				Name     string `json:"topic_name"`
				Depth    int64  `json:"depth"`
				Count    int64  `json:"message_count"`
				Channels []struct {
					Name     string `json:"channel_name"`
					Depth    int64  `json:"depth"`
					InFlight int64  `json:"in_flight_count"`
					Deferred int64  `json:"deferred_count"`
					Count    int64  `json:"message_count"`
					Requeues int64  `json:"requeue_count"`
				} `json:"channels"`
			} `json:"topics"`
		}
		err = json.NewDecoder(resp.Body).Decode(&st)
		resp.Body.Close()
		if err != nil {
			return obs
		}
		settled := false
		for _, t := range st.Topics {
			if t.Name == topic {
				for _, c := range t.Channels {
					if c.Name == ch {
						obs = [4]int64{t.Depth + c.Depth + c.InFlight + c.Deferred, c.InFlight, c.Deferred, c.Requeues}
						settled = c.Count == t.Count
					}
				}
			}
		}
		if (settled && prevSettled && obs == prev) || time.Now().After(deadline) {
			return obs
		}
		if !settled {
			time.Sleep(2 * time.Millisecond)
		}
		prev, prevSettled = obs, settled
	}
}

// ---------------------------------------------------------------- frames
type frame struct {
	typ  int32
	data []byte
	err  error
}

func readFrame(r io.Reader) frame {
	var hdr [8]byte
	if _, err := io.ReadFull(r, hdr[:]); err != nil {
		return frame{err: err}
	}
	size := int32(binary.BigEndian.Uint32(hdr[:4]))
	typ := int32(binary.BigEndian.Uint32(hdr[4:]))
	if size < 4 || size > 1<<24 {
		return frame{err: fmt.Errorf("bad frame size %d", size)}
	}
	data := make([]byte, size-4)
	if _, err := io.ReadFull(r, data); err != nil {
		return frame{err: err}
	}
	return frame{typ: typ, data: data}
}

// ---------------------------------------------------------------- the bystander
type bystander struct {
	conn net.Conn
	rd   *bufio.Reader
	seq  int
}

func newBystander(d *daemon) *bystander {
	c, err := net.DialTimeout("tcp", d.tcp, 5*time.Second)
	if err != nil {
		return nil
	}
	b := &bystander{conn: c, rd: bufio.NewReader(c)}
	c.SetDeadline(time.Now().Add(10 * time.Second))
	fmt.Fprintf(c, "  V2SUB %s %s\nRDY 1\n", bystanderTopic, bystanderChan)
	f := readFrame(b.rd)
	if f.err != nil || f.typ != 0 || string(f.data) != "OK" {
		c.Close()
		return nil
	}
	return b
}

// publish one message and consume it on the same connection
func (b *bystander) ping() bool {
	b.seq++
	token := fmt.Sprintf("ping-%d", b.seq)
	b.conn.SetDeadline(time.Now().Add(10 * time.Second))
	var buf bytes.Buffer
	fmt.Fprintf(&buf, "PUB %s\n", bystanderTopic)
	buf.Write(be(int64(len(token))))
	buf.WriteString(token)
	if _, err := b.conn.Write(buf.Bytes()); err != nil {
		return false
	}
	gotOK, gotMsg := false, false
	for !(gotOK && gotMsg) {
		f := readFrame(b.rd)
		if f.err != nil {
			return false
		}
		switch {
		case f.typ == 0 && string(f.data) == "OK":
			gotOK = true
		case f.typ == 0 && string(f.data) == "_heartbeat_":
			b.conn.Write([]byte("NOP\n"))
		case f.typ == 2 && len(f.data) >= 26:
			if _, err := fmt.Fprintf(b.conn, "FIN %s\n", f.data[10:26]); err != nil {
				return false
			}
			if string(f.data[26:]) == token {
				gotMsg = true
			}
		default:
			return false
		}
	}
	return true
}

// ---------------------------------------------------------------- IDENTIFY bodies
// the struct the daemon decodes into (nsqd/client_v2.go identifyDataV2), field for field
type identifyData struct {
	ClientID            string `json:"client_id"`
	Hostname            string `json:"hostname"`
	HeartbeatInterval   int    `json:"heartbeat_interval"`
	OutputBufferSize    int    `json:"output_buffer_size"`
	OutputBufferTimeout int    `json:"output_buffer_timeout"`
	FeatureNegotiation  bool   `json:"feature_negotiation"`
	TLSv1               bool   `json:"tls_v1"`
	Deflate             bool   `json:"deflate"`
	DeflateLevel        int    `json:"deflate_level"`
	Snappy              bool   `json:"snappy"`
	SampleRate          int32  `json:"sample_rate"`
	UserAgent           string `json:"user_agent"`
	MsgTimeout          int    `json:"msg_timeout"`
	TopologyRegion      string `json:"topology_region"`
	TopologyZone        string `json:"topology_zone"`
}

// for every line end of the stream whose line mentions IDENTIFY, the body that a length
// prefix at that position would select, decoded by encoding/json (a superset of the
// bodies the daemon can reach)
func jsonTable(stream []byte) string {
	var parts []string
	seen := map[string]bool{}
	for i, c := range stream {
		if c != '\n' {
			continue
		}
		lo := i - 80
		if lo < 0 {
			lo = 0
		}
		if !bytes.Contains(stream[lo:i], []byte("IDENTIFY")) || i+5 > len(stream) {
			continue
		}
		n := int(int32(binary.BigEndian.Uint32(stream[i+1 : i+5])))
		if n <= 0 || n > maxBody || i+5+n > len(stream) {
			continue
		}
		body := stream[i+5 : i+5+n]
		if seen[string(body)] {
			continue
		}
		seen[string(body)] = true
		var d identifyData
		res := "J09.bad_json"
		if json.Unmarshal(body, &d) == nil {
			res = fmt.Sprintf("(J09.mk_ident %s %s %s %s %s %s %s %s %s %s)", lib.CoqZ(int64(d.HeartbeatInterval)), lib.CoqZ(int64(d.OutputBufferSize)),
				lib.CoqZ(int64(d.OutputBufferTimeout)), lib.CoqBool(d.FeatureNegotiation), lib.CoqBool(d.TLSv1), lib.CoqBool(d.Deflate),
				lib.CoqZ(int64(d.DeflateLevel)), lib.CoqBool(d.Snappy), lib.CoqZ(int64(d.SampleRate)), lib.CoqZ(int64(d.MsgTimeout)))
		}
		parts = append(parts, "("+lib.CoqBytes(body)+", "+res+")")
	}
	return lib.CoqList(parts)
}

// ---------------------------------------------------------------- one case
var codeIndex = map[string]int{}

func init() {
	for i, c := range []string{"E_INVALID", "E_BAD_BODY", "E_BAD_TOPIC", "E_BAD_CHANNEL", "E_BAD_MESSAGE", "E_PUB_FAILED", "E_MPUB_FAILED",
		"E_DPUB_FAILED", "E_FIN_FAILED", "E_REQ_FAILED", "E_TOUCH_FAILED", "E_SUB_FAILED", "E_IDENTIFY_FAILED",
		"E_AUTH_DISABLED", "E_AUTH_FAILED", "E_UNAUTHORIZED", "E_AUTH_ERROR", "E_AUTH_FIRST", "E_BAD_PROTOCOL"} {
		codeIndex[c] = i
	}
}

type runner struct {
	o       *lib.Out
	daemons map[string]*daemon
	aborted int
	crashes int
	pairs   map[string]int // (connection state : command : argument class) -> cases that executed it
	lines   map[string]int // (connection state : fits / too-long : delimiter : ending) -> cases
	opens   int            // cases that ended with the connection still held open
	// accept-loop cases (accept.go): how many, and (host : kind of Accept error) -> results scripted
	acceptCases int
	acceptCells map[string]int
}

// the cells of the command-line table: connection state x (the line fits the read buffer /
// does not) x delimiter x (client half-closes / holds the connection open)
func allLineCells() []string {
	var out []string
	for _, st := range pairStates {
		for _, fit := range []string{"fits", "too-long"} {
			for _, tm := range []string{"lf", "crlf", "none"} {
				for _, end := range []string{"eof", "hold"} {
					out = append(out, fmt.Sprintf("line=%s:%s:%s:%s", st, fit, tm, end))
				}
			}
		}
	}
	return out
}

// ---------------------------------------------------------------- pair coverage
var pairStates = []string{"init", "ident", "sub", "closing"}

// the cells of the (connection state x command x argument class) table: every command
// with parameters the protocol admits ("valid") and, where it has parameters, with
// parameters it refuses ("invalid"); FIN / REQ / TOUCH also naming a message the
// connection really holds ("held"), in the two states in which it can hold one
func allPairs() []string {
	var ps []string
	for _, st := range pairStates {
		for i, c := range cmdNames {
			ps = append(ps, fmt.Sprintf("pair=%s:%s:valid", st, c))
			if i != cCls && i != cNop && i != cUnknown {
				ps = append(ps, fmt.Sprintf("pair=%s:%s:invalid", st, c))
			}
			if (i == cFin || i == cReq || i == cTouch) && (st == "sub" || st == "closing") {
				ps = append(ps, fmt.Sprintf("pair=%s:%s:held", st, c))
			}
		}
	}
	return ps
}

// the cells a case EXECUTED: the generator's command list replayed against the protocol
// table up to and including the first command that must fail fatally (the monitor checks
// that the recording is exactly this replay), or up to a negotiated upgrade
func pairTags(intent [][]int64, ndeliv int, respN int, upgraded bool) []string {
	var out []string
	state, ident := 0, false
	dead := map[int64]bool{}
	resps := 0
	for _, e := range intent {
		c, valid, slot := int(e[0]), e[2] != 0, int64(0)
		if len(e) > 3 {
			slot = e[3]
		}
		if c > cUnknown {
			break // an over-long line / a wrong magic: no command is executed from here on
		}
		if c < 0 {
			c = cUnknown
		}
		st := []string{"init", "sub", "closing"}[state]
		if state == 0 && ident {
			st = "ident"
		}
		held := (c == cFin || c == cReq || c == cTouch) && valid && slot >= 1 && slot <= int64(ndeliv) && !dead[slot]
		class := "valid"
		switch {
		case c == cCls || c == cNop || c == cUnknown:
		case !valid:
			class = "invalid"
		case held:
			class = "held"
		}
		out = append(out, fmt.Sprintf("pair=%s:%s:%s", st, cmdNames[c], class))
		inState := false
		switch c {
		case cIdentify, cAuth, cSub:
			inState = state == 0
		case cRdy, cFin, cReq, cTouch:
			inState = state != 0
		case cCls:
			inState = state == 1
		case cPub, cMpub, cDpub, cNop:
			inState = true
		}
		if !inState {
			break
		}
		fatal := false
		switch c {
		case cRdy:
			fatal = state == 1 && !valid
		case cFin, cReq, cTouch:
			fatal = !valid
			if held && c != cTouch {
				dead[slot] = true
			}
		case cAuth:
			fatal = true
		case cSub:
			fatal = !valid || slot != 0
			if !fatal {
				state = 1
				resps++
			}
		case cCls:
			state = 2
			resps++
		case cIdentify:
			fatal = !valid
			if !fatal {
				ident = true
				resps++
			}
		case cPub, cMpub, cDpub:
			fatal = !valid
			if !fatal {
				resps++
			}
		}
		if fatal || (upgraded && resps >= respN) {
			break
		}
	}
	return out
}

func (rn *runner) daemon(name string) *daemon {
	d := rn.daemons[name]
	if d != nil {
		return d
	}
	switch name {
	case "sub":
		d = startSub()
	case "tls":
		d = startInproc(true)
	default:
		d = startInproc(false)
	}
	rn.daemons[name] = d
	return d
}

func (rn *runner) run(name string, in Input) {
	if in.Accept != nil {
		rn.runAccept(name, in)
		return
	}
	d := rn.daemon(in.Daemon)
	if !d.noByst && d.byst == nil {
		d.byst = newBystander(d)
		if d.byst == nil {
			lib.Fatalf("cannot set up the bystander client on daemon %s", d.name)
		}
	}
	before, ok := d.messageCount()
	if !ok {
		lib.Fatalf("cannot read /stats of daemon %s before the case", d.name)
	}
	conn, err := net.DialTimeout("tcp", d.tcp, 5*time.Second)
	if err != nil {
		lib.Fatalf("dial %s: %v", d.tcp, err)
	}
	defer conn.Close()
	tc := conn.(*net.TCPConn)
	tc.SetNoDelay(true)
	conn.SetDeadline(time.Now().Add(30 * time.Second))

	// the bystander works while the case runs
	bystOK := true
	var wg sync.WaitGroup
	if d.byst != nil {
		wg.Add(1)
		go func() { defer wg.Done(); bystOK = d.byst.ping() }()
	}

	frames := make(chan frame, 1024)
	go func() {
		rd := bufio.NewReader(conn)
		for {
			f := readFrame(rd)
			frames <- f
			if f.err != nil {
				close(frames)
				return
			}
		}
	}()

	var stream bytes.Buffer
	var coqFrames []string
	var tags []string
	var ids [][]byte
	closed, upgraded, timedOut := false, false, false
	respN, enqOK := 0, 0
	_ = enqOK
	handle := func(f frame) {
		if f.err != nil {
			if ne, ok := f.err.(net.Error); ok && ne.Timeout() {
				timedOut = true
				tags = append(tags, "read=timeout")
				return
			}
			closed = true
			coqFrames = append(coqFrames, "J09.OClosed")
			if f.err != io.EOF {
				tags = append(tags, "close=reset")
			} else {
				tags = append(tags, "close=eof")
			}
			return
		}
		switch f.typ {
		case 0:
			s := string(f.data)
			switch {
			case s == "_heartbeat_":
				tags = append(tags, "heartbeat-dropped")
			case s == "OK":
				respN++
				coqFrames = append(coqFrames, "(J09.OResp J09.OOk)")
				tags = append(tags, "resp=OK")
			case s == "CLOSE_WAIT":
				respN++
				coqFrames = append(coqFrames, "(J09.OResp J09.OCloseWait)")
				tags = append(tags, "resp=CLOSE_WAIT")
			case strings.HasPrefix(s, "{"):
				respN++
				var j struct {
					MsgTimeout          int64 `json:"msg_timeout"`
					SampleRate          int64 `json:"sample_rate"`
					OutputBufferSize    int64 `json:"output_buffer_size"`
					OutputBufferTimeout int64 `json:"output_buffer_timeout"`
					TLSv1               bool  `json:"tls_v1"`
					Deflate             bool  `json:"deflate"`
					DeflateLevel        int64 `json:"deflate_level"`
					Snappy              bool  `json:"snappy"`
				}
				if json.Unmarshal(f.data, &j) != nil {
					coqFrames = append(coqFrames, "(J09.OResp J09.OOther)")
					break
				}
				coqFrames = append(coqFrames, fmt.Sprintf("(J09.OResp (J09.OJson %s %s %s %s %s %s %s %s))", lib.CoqZ(j.MsgTimeout), lib.CoqZ(j.SampleRate),
					lib.CoqZ(j.OutputBufferSize), lib.CoqZ(j.OutputBufferTimeout), lib.CoqBool(j.TLSv1), lib.CoqBool(j.Deflate), lib.CoqZ(j.DeflateLevel), lib.CoqBool(j.Snappy)))
				tags = append(tags, "resp=JSON")
				if j.TLSv1 || j.Deflate || j.Snappy {
					upgraded = true
					tags = append(tags, "upgraded")
				}
			default:
				respN++
				coqFrames = append(coqFrames, "(J09.OResp J09.OOther)")
			}
		case 1:
			code := strings.SplitN(string(f.data), " ", 2)[0]
			idx, ok := codeIndex[code]
			if !ok {
				idx = 97
			}
			coqFrames = append(coqFrames, fmt.Sprintf("(J09.OErr %d)", idx))
			tags = append(tags, "err="+code)
		case 2:
			if len(f.data) >= 26 {
				ids = append(ids, append([]byte(nil), f.data[10:26]...))
			}
		default:
			coqFrames = append(coqFrames, "(J09.OErr 96)")
		}
	}

	aborted := false
	for _, st := range in.Steps {
		if closed || upgraded {
			break
		}
		switch st.K {
		case "send", "sendid", "fill":
			b, _ := hex.DecodeString(st.Hex)
			if st.K == "fill" {
				if st.N < 0 || st.N > 1<<22 || len(b) != 1 {
					lib.Fatalf("bad fill step")
				}
				b = bytes.Repeat(b, st.N)
			}
			if st.K == "sendid" {
				if st.Slot >= len(ids) {
					aborted = true
					break
				}
				post, _ := hex.DecodeString(st.Post)
				b = append(append(append([]byte(nil), b...), ids[st.Slot]...), post...)
			}
			stream.Write(b)
			conn.Write(b) // a write error (the daemon already closed) is part of the case
		case "wait":
			have := len(ids)
			deadline := time.After(10 * time.Second)
			for len(ids) == have && !closed && !aborted {
				select {
				case f, ok := <-frames:
					if !ok {
						closed = true
						break
					}
					handle(f)
				case <-deadline:
					aborted = true
				}
			}
		}
		if aborted {
			break
		}
	}
	if aborted {
		// a delivery did not arrive in time: not this property's business (C01/C03); no case
		rn.aborted++
		conn.Close()
		wg.Wait()
		return
	}
	eof := in.HoldMs <= 0
	if eof {
		tc.CloseWrite()
		for !closed && !upgraded && !timedOut {
			f, ok := <-frames
			if !ok {
				break
			}
			handle(f)
		}
	} else {
		// the client keeps its side open: does the daemon close the connection by itself?
		window := time.After(time.Duration(in.HoldMs) * time.Millisecond)
		for open := true; open && !closed && !upgraded; {
			select {
			case f, ok := <-frames:
				if !ok {
					open = false
					break
				}
				handle(f)
			case <-window:
				open = false
				coqFrames = append(coqFrames, "J09.OOpen")
				tags = append(tags, "close=none(still open)")
			}
		}
	}
	conn.Close()
	wg.Wait()

	alive := d.alive()
	var enq int64
	if alive {
		after, ok := d.messageCount()
		if !ok {
			alive = false
		}
		enq = after - before
	}
	if !alive {
		rn.crashes++
		tags = append(tags, "daemon=DEAD")
		// replace the daemon so that the remaining cases can run
		if d.proc != nil {
			d.stop()
			delete(rn.daemons, d.name)
		}
	}
	if d.noByst {
		bystOK = alive
	}
	if !bystOK {
		tags = append(tags, "bystander=FAILED")
		if d.byst != nil {
			d.byst.conn.Close()
			d.byst = nil
		}
	}

	idStrs := make([]string, len(ids))
	for i, id := range ids {
		idStrs[i] = lib.CoqBytes(id)
	}
	full := fmt.Sprintf("[(%s, %s)]", lib.CoqBytes([]byte(bystanderTopic)), lib.CoqBytes([]byte(bystanderChan)))
	if d.noByst {
		full = "[]"
	}
	intent := "None"
	if in.Intent != nil {
		ps := make([]string, len(in.Intent))
		for i, e := range in.Intent {
			slot := int64(0)
			if len(e) > 3 {
				slot = e[3]
			}
			ps[i] = fmt.Sprintf("(%d, %s, %s, %s)", e[0], lib.CoqZ(e[1]), lib.CoqBool(e[2] != 0), lib.CoqZ(slot))
		}
		intent = "(Some " + lib.CoqList(ps) + ")"
	}
	chanT := "None"
	var chanObs interface{}
	if in.ChanTopic != "" && alive {
		ob := d.chanObs(in.ChanTopic, in.ChanName)
		chanObs = ob
		chanT = fmt.Sprintf("(Some (%s, %s, %s, %s))", lib.CoqZ(ob[0]), lib.CoqZ(ob[1]), lib.CoqZ(ob[2]), lib.CoqZ(ob[3]))
		tags = append(tags, fmt.Sprintf("chan:in-flight=%d", ob[1]), fmt.Sprintf("chan:deferred=%d", ob[2]), fmt.Sprintf("chan:requeues=%d", ob[3]))
	}
	coq := fmt.Sprintf("(J09.Conn %s %s %s %s %s %s %s %s %s %s %s %s)", d.coqCfg, coqStream(stream.Bytes()), jsonTable(stream.Bytes()),
		lib.CoqList(idStrs), full, lib.CoqList(coqFrames), lib.CoqZ(enq), lib.CoqBool(alive), lib.CoqBool(bystOK), intent, chanT, lib.CoqBool(eof))
	if in.Daemon != "tls" {
		pt := pairTags(in.Intent, len(ids), respN, upgraded)
		for _, t := range pt {
			rn.pairs[t]++
		}
		tags = append(tags, pt...)
	}
	for _, t := range in.Tags {
		if strings.HasPrefix(t, "line=") {
			rn.lines[t]++
		}
	}
	if !eof && !closed && !upgraded {
		rn.opens++
	}
	alltags := append([]string{"class=" + in.Class, "daemon=" + in.Daemon}, in.Tags...)
	alltags = append(alltags, tags...)
	if enq > 0 {
		alltags = append(alltags, "enqueued>0")
	}
	if len(ids) > 0 {
		alltags = append(alltags, "messages-received")
	}
	alltags = dedupe(alltags)
	rn.o.Emit(lib.Case{Name: name, Coq: coq, Input: in, Tags: alltags,
		Nontrivial: respN > 0 || enq > 0 || len(coqFrames) > 1,
		Obs:        map[string]interface{}{"frames": coqFrames, "enqueued": enq, "alive": alive, "bystander": bystOK, "stream_len": stream.Len(), "msgs_received": len(ids), "chan_after": chanObs}})
}

// the bytes the client wrote, as a Coq term: long runs of one byte (the filler of the
// over-long lines) are written as (J09.fill n byte), the rest as lib.CoqBytes
func coqStream(b []byte) string {
	const minRun = 96
	var parts []string
	lit := 0 // start of the pending literal piece
	for i := 0; i < len(b); {
		j := i
		for j < len(b) && b[j] == b[i] {
			j++
		}
		if j-i >= minRun {
			if i > lit {
				parts = append(parts, lib.CoqBytes(b[lit:i]))
			}
			parts = append(parts, fmt.Sprintf("(J09.fill %d %d)", j-i, b[i]))
			lit = j
		}
		i = j
	}
	if len(parts) == 0 {
		return lib.CoqBytes(b)
	}
	if lit < len(b) {
		parts = append(parts, lib.CoqBytes(b[lit:]))
	}
	return "(J09.cat " + lib.CoqList(parts) + ")"
}

func dedupe(xs []string) []string {
	seen := map[string]bool{}
	var out []string
	for _, x := range xs {
		if !seen[x] {
			seen[x] = true
			out = append(out, x)
		}
	}
	sort.Strings(out)
	return out
}

func main() {
	n := flag.Int("n", 300, "number of cases")
	seed := flag.Uint64("seed", 1, "seed")
	out := flag.String("out", "", "output jsonl")
	replay := flag.String("replay", "", "replay file")
	flag.Parse()
	o := lib.NewOut(*out)
	defer o.Close()
	rn := &runner{o: o, daemons: map[string]*daemon{}, pairs: map[string]int{}, lines: map[string]int{}, acceptCells: map[string]int{}}
	defer func() {
		for _, d := range rn.daemons {
			d.stop()
		}
	}()

	if *replay != "" {
		var ins []Input
		lib.ReadReplay(*replay, &ins)
		for k, in := range ins {
			if in.Daemon == "" {
				in.Daemon = "sub"
			}
			rn.run(fmt.Sprintf("replay-%d", k), in)
		}
		o.Stat("replay_cases", len(ins))
		return
	}

	for k, in := range genBoundary() {
		rn.run(fmt.Sprintf("boundary-%d", k), in)
	}
	for k, in := range genProbes() {
		rn.run(fmt.Sprintf("probe-%d", k), in)
	}
	for k, in := range genLines() {
		rn.run(fmt.Sprintf("line-%d", k), in)
	}
	for v := 0; v < 36; v += 1 + int(*seed%3) { // every run: a third to all of the 36 variants
		rn.run(fmt.Sprintf("overlong-%d", v), genOverlong(int(*seed%100000), v))
	}
	for v := 0; v < 7; v++ {
		rn.run(fmt.Sprintf("held-%d", v), genHeld(int(*seed%100000), v))
	}
	// the accept loop: the fixed sweep, one daemon that really runs out of descriptors, random scripts
	for k, in := range genAcceptSweep() {
		rn.run(fmt.Sprintf("accept-sweep-%d", k), in)
	}
	for k := 0; k < 1+*n/8000; k++ {
		rn.run(fmt.Sprintf("accept-rlimit-%d", k), genAcceptRlimit(48+16*int((*seed+uint64(k))%3)))
	}
	ra := lib.NewRand(*seed ^ 0xacce97)
	for k := 0; k < 60+*n/8; k++ {
		rn.run(fmt.Sprintf("accept-random-%d", k), genAcceptRandom(ra.Fork(), "loop"))
	}
	for k := 0; k < 4+*n/400; k++ {
		rn.run(fmt.Sprintf("accept-random-nsqd-%d", k), genAcceptRandom(ra.Fork(), "nsqd"))
	}
	for k := 0; k < 2+*n/800; k++ {
		rn.run(fmt.Sprintf("accept-random-lookupd-%d", k), genAcceptRandom(ra.Fork(), "lookupd"))
	}
	r := lib.NewRand(*seed)
	long := 0
	for k := 0; k < *n; k++ {
		rr := r.Fork()
		var in Input
		p := rr.Intn(100)
		switch {
		case p < 36:
			in = genGrammar(rr, "grammar", false, "inproc")
		case p < 60:
			in = genGrammar(rr, "mutated", true, "sub")
		case p < 66:
			in = genSession(rr, k, "sub")
		case p < 74:
			in = genTruncated(rr)
		case p < 78:
			in = genMagic(rr)
		case p < 80 && long < 6+*n/200:
			in = genLongLine(rr, long)
			long++
		case p < 84:
			in = genGrammar(rr, "tls-required", false, "tls")
		case p < 91:
			in = genSession(rr, k, "inproc")
		default:
			in = genGarbage(rr)
		}
		rn.run(fmt.Sprintf("%s-%d", in.Class, k), in)
	}
	covered, missing := 0, []string{}
	for _, p := range allPairs() {
		if rn.pairs[p] > 0 {
			covered++
		} else {
			missing = append(missing, strings.TrimPrefix(p, "pair="))
		}
	}
	o.Stat("pairs_state_x_command_x_argclass_executed", fmt.Sprintf("%d/%d", covered, len(allPairs())))
	o.Stat("pairs_not_executed", missing)
	lcov, lmiss := 0, []string{}
	for _, c := range allLineCells() {
		if rn.lines[c] > 0 {
			lcov++
		} else {
			lmiss = append(lmiss, strings.TrimPrefix(c, "line="))
		}
	}
	o.Stat("line_cells_state_x_fit_x_delimiter_x_ending", fmt.Sprintf("%d/%d", lcov, len(allLineCells())))
	o.Stat("line_cells_missing", lmiss)
	o.Stat("cases_ending_with_the_connection_held_open", rn.opens)
	acov, amiss := 0, []string{}
	for _, k := range acceptKinds {
		if rn.acceptCells["loop:"+k] > 0 {
			acov++
		} else {
			amiss = append(amiss, k)
		}
	}
	o.Stat("accept_loop_cases", rn.acceptCases)
	o.Stat("accept_error_kinds_scripted_on_the_loop", fmt.Sprintf("%d/%d", acov, len(acceptKinds)))
	o.Stat("accept_error_kinds_missing", amiss)
	o.Stat("accept_results_scripted_by_host_and_kind", rn.acceptCells)
	o.Stat("interactive_cases_aborted_no_delivery", rn.aborted)
	o.Stat("daemon_deaths", rn.crashes)
}
