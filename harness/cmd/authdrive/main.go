// authdrive: correspondence driver for C11 (TLS-required and AUTH policies).
//
// Every case runs a REAL in-process nsqd (fresh data directory, the repository's test
// certificates) against a stub auth server (httptest) whose scripted answers are the
// model's oracle stream and which logs every request.  A raw TCP client (crypto/tls for
// the IDENTIFY tls_v1 upgrade) sends generated command sequences; after every group of
// commands the driver records the frames, whether the server closed the connection, the
// requests the stub received, and the daemon's topics/channels (GetStats).  Time for the
// cached auth answer is moved by the verif hook NSQD.VerifShiftAuthExpiry in steps of
// whole 10 s against TTLs that are multiples of 10 s (no observation near an expiry
// instant); a few cases use a real 1 s TTL and real waiting, with guard bands.
//
// HTTP cases: a daemon per startable option combination and per address setting (both
// HTTP listeners / no --https-address / no --http-address), its state seeded through the
// in-process API, one request of every route on each listener it has, and the topics,
// message counts and channels (GetStats) after every request.
package main

import (
	"bufio"
	"bytes"
	"crypto/tls"
	"encoding/binary"
	"encoding/json"
	"errors"
	"flag"
	"fmt"
	"io"
	"net"
	"net/http"
	"net/http/httptest"
	"net/url"
	"os"
	"path/filepath"
	"sort"
	"strings"
	"sync"
	"time"

	"github.com/nsqio/nsq/nsqd"
	"verifharness/lib"
	"verifharness/nsqdlib"
)

// ------------------------------------------------------------------ inputs
type CfgIn struct {
	TLSRequired int    `json:"tls_required"` // 0 not required, 1 tcp-https, 2 required
	HasCert     bool   `json:"has_cert"`
	Policy      string `json:"policy"` // "", "require", "require-verify"
	NAuthd      int    `json:"n_authd"`
	Method      string `json:"method"`             // get / post (how nsqd queries the auth server)
	NoHTTP      bool   `json:"no_http,omitempty"`  // --http-address "" (no plaintext HTTP listener)
	NoHTTPS     bool   `json:"no_https,omitempty"` // --https-address "" (no HTTPS listener even with a certificate)
}

type AuthzIn struct {
	Topic    string   `json:"topic"`
	Channels []string `json:"channels"`
	Perms    []string `json:"permissions"`
}

type AnswerIn struct {
	Kind  string    `json:"kind"` // ok, http500, http404, badjson
	TTL   int       `json:"ttl"`
	Auths []AuthzIn `json:"auths"`
}

type CmdIn struct {
	K string `json:"k"`
	// IDENTIFY
	IdBad   string `json:"id_bad,omitempty"` // "", badjson, zerosize, badhb
	Neg     bool   `json:"neg,omitempty"`
	TLS     bool   `json:"tls,omitempty"`
	Snappy  bool   `json:"snappy,omitempty"`
	Deflate bool   `json:"deflate,omitempty"`
	HB      string `json:"hb,omitempty"` // keep, off, on
	HS      string `json:"hs,omitempty"` // abort, none, self, ca
	// AUTH
	ExtraParam bool   `json:"extra_param,omitempty"`
	BodyBad    bool   `json:"body_bad,omitempty"`
	Secret     string `json:"secret,omitempty"`
	// SUB PUB MPUB DPUB
	Args    []string `json:"args,omitempty"`
	BodyOK  bool     `json:"body_ok,omitempty"`
	BadHow  string   `json:"bad_how,omitempty"` // zero, huge
	Mp      string   `json:"mp,omitempty"`      // ok, badbody, badcount, badmsg
	MpCount int      `json:"mp_count,omitempty"`
	DelayOK bool     `json:"delay_ok,omitempty"`
	// RDY FIN REQ TOUCH
	OK bool `json:"ok,omitempty"`
	// OTHER
	Word string `json:"word,omitempty"`
}

type StepIn struct {
	Adv int   `json:"adv"` // seconds of auth-cache time to pass before the command
	Cmd CmdIn `json:"cmd"`
}

type ConnIn struct {
	Steps []StepIn `json:"steps"`
}

type ProbeIn struct {
	Listener string `json:"listener"` // plain, https, direct (in-process API: create, pub, create_channel only)
	// ping info stats nosuch badmethod config_get config_get_unknown config_put config_put_bad debug
	// create pub mpub delete_topic empty_topic pause_topic unpause_topic
	// create_channel delete_channel empty_channel pause_channel unpause_channel
	Kind    string `json:"kind"`
	Topic   string `json:"topic,omitempty"`
	Channel string `json:"channel,omitempty"`
	N       int    `json:"n,omitempty"` // mpub: number of messages; debug: which route
}

type CaseIn struct {
	Kind    string     `json:"kind"` // conn, http, start, realttl
	Profile string     `json:"profile"`
	Cfg     CfgIn      `json:"cfg"`
	Script  []AnswerIn `json:"script,omitempty"`
	Conns   []ConnIn   `json:"conns,omitempty"`
	Probes  []ProbeIn  `json:"probes,omitempty"`
	Variant int        `json:"variant,omitempty"`
}

// ------------------------------------------------------------------ Coq printers
func coqStr(s string) string { return lib.CoqBytes([]byte(s)) }
func coqStrs(ss []string) string {
	p := make([]string, len(ss))
	for i, s := range ss {
		p[i] = coqStr(s)
	}
	return lib.CoqList(p)
}

func (c CfgIn) coq() string {
	req := []string{"TlsNotRequired", "TlsRequiredExceptHTTP", "TlsRequired"}[c.TLSRequired]
	pol := map[string]string{"": "PolNone", "require": "PolRequire", "require-verify": "PolRequireVerify"}[c.Policy]
	return fmt.Sprintf("(mkCfg %s %s %s %d%%nat)", req, lib.CoqBool(c.HasCert), pol, c.NAuthd)
}

func (c CfgIn) coqAddrs() string {
	return fmt.Sprintf("(mkAddrs %s %s)", lib.CoqBool(!c.NoHTTP), lib.CoqBool(!c.NoHTTPS))
}

func (a AnswerIn) coq() string {
	if a.Kind != "ok" {
		return "AError"
	}
	as := make([]string, len(a.Auths))
	for i, z := range a.Auths {
		as[i] = fmt.Sprintf("(mkAuthz %s %s %s)", coqStr(z.Topic), coqStrs(z.Channels), coqStrs(z.Perms))
	}
	return fmt.Sprintf("(AState %s %s)", lib.CoqZ(int64(a.TTL)), lib.CoqList(as))
}

func (c CmdIn) coq() string {
	switch c.K {
	case "IDENTIFY":
		if c.IdBad != "" {
			return "(CIdentify IdBad)"
		}
		hb := map[string]string{"": "HbKeep", "keep": "HbKeep", "off": "HbOff", "on": "HbOn"}[c.HB]
		hs := map[string]string{"": "(HsCert CertNone)", "abort": "HsAbort", "none": "(HsCert CertNone)", "self": "(HsCert CertSelfSigned)", "ca": "(HsCert CertCA)"}[c.HS]
		return fmt.Sprintf("(CIdentify (IdGood %s %s %s %s %s %s))", lib.CoqBool(c.Neg), lib.CoqBool(c.TLS), lib.CoqBool(c.Snappy), lib.CoqBool(c.Deflate), hb, hs)
	case "AUTH":
		body := "None"
		if !c.BodyBad {
			body = "(Some " + coqStr(c.Secret) + ")"
		}
		return fmt.Sprintf("(CAuth %s %s)", lib.CoqBool(!c.ExtraParam), body)
	case "SUB":
		return "(CSub " + coqStrs(c.Args) + ")"
	case "PUB":
		return fmt.Sprintf("(CPub %s %s)", coqStrs(c.Args), lib.CoqBool(c.BodyOK))
	case "MPUB":
		b := map[string]string{"ok": fmt.Sprintf("(MpOk %d)", c.MpCount), "badbody": "MpBadBody", "badcount": "MpBadBody", "badmsg": "MpBadMessage"}[c.Mp]
		return fmt.Sprintf("(CMpub %s %s)", coqStrs(c.Args), b)
	case "DPUB":
		return fmt.Sprintf("(CDpub %s %s %s)", coqStrs(c.Args), lib.CoqBool(c.DelayOK), lib.CoqBool(c.BodyOK))
	case "RDY":
		return "(CRdy " + lib.CoqBool(c.OK) + ")"
	case "FIN":
		return "(CFin " + lib.CoqBool(c.OK) + " false)"
	case "REQ":
		return "(CReq " + lib.CoqBool(c.OK) + " false)"
	case "TOUCH":
		return "(CTouch " + lib.CoqBool(c.OK) + " false)"
	case "CLS":
		return "CCls"
	case "NOP":
		return "CNop"
	}
	return "COther"
}

// ------------------------------------------------------------------ wire encoding
func be32(n int) []byte {
	b := make([]byte, 4)
	binary.BigEndian.PutUint32(b, uint32(int32(n)))
	return b
}

const zeroID = "0000000000000000"

func (c CmdIn) wire() []byte {
	var b bytes.Buffer
	line := func(parts ...string) { b.WriteString(strings.Join(parts, " ")); b.WriteByte('\n') }
	withArgs := func(word string) { line(append([]string{word}, c.Args...)...) }
	single := func(ok bool, how string) {
		switch {
		case ok:
			b.Write(be32(3))
			b.WriteString("msg")
		case how == "huge":
			b.Write(be32(1 << 30)) // refused on the size alone, nothing is read
		default:
			b.Write(be32(0))
		}
	}
	switch c.K {
	case "IDENTIFY":
		line("IDENTIFY")
		switch c.IdBad {
		case "badjson":
			b.Write(be32(1))
			b.WriteString("{")
		case "zerosize":
			b.Write(be32(0))
		case "badhb":
			body := []byte(`{"heartbeat_interval":5}`)
			b.Write(be32(len(body)))
			b.Write(body)
		default:
			hb := map[string]int{"": 0, "keep": 0, "off": -1, "on": 2000}[c.HB]
			body, _ := json.Marshal(map[string]interface{}{"client_id": "authdrive", "feature_negotiation": c.Neg, "tls_v1": c.TLS,
				"snappy": c.Snappy, "deflate": c.Deflate, "heartbeat_interval": hb})
			b.Write(be32(len(body)))
			b.Write(body)
		}
	case "AUTH":
		if c.ExtraParam {
			line("AUTH", "x")
		} else {
			line("AUTH")
		}
		if c.BodyBad {
			b.Write(be32(0))
		} else {
			b.Write(be32(len(c.Secret)))
			b.WriteString(c.Secret)
		}
	case "SUB":
		withArgs("SUB")
	case "PUB":
		withArgs("PUB")
		single(c.BodyOK, c.BadHow)
	case "DPUB":
		withArgs("DPUB")
		single(c.BodyOK, c.BadHow)
	case "MPUB":
		withArgs("MPUB")
		switch c.Mp {
		case "badbody":
			b.Write(be32(0))
		case "badcount":
			b.Write(be32(4))
			b.Write(be32(0))
		case "badmsg":
			b.Write(be32(8))
			b.Write(be32(1))
			b.Write(be32(0))
		default:
			b.Write(be32(4 + c.MpCount*5))
			b.Write(be32(c.MpCount))
			for i := 0; i < c.MpCount; i++ {
				b.Write(be32(1))
				b.WriteByte('m')
			}
		}
	case "RDY":
		if c.OK {
			line("RDY", "1")
		} else {
			line("RDY", "x1")
		}
	case "FIN":
		if c.OK {
			line("FIN", zeroID)
		} else {
			line("FIN", "short")
		}
	case "REQ":
		if c.OK {
			line("REQ", zeroID, "0")
		} else {
			line("REQ", zeroID)
		}
	case "TOUCH":
		if c.OK {
			line("TOUCH", zeroID)
		} else {
			line("TOUCH")
		}
	case "CLS":
		line("CLS")
	case "NOP":
		line("NOP")
	default:
		line(c.Word)
	}
	return b.Bytes()
}

// ------------------------------------------------------------------ stub auth server
type stubReq struct {
	Secret, TLS, CommonName, Method string
}

type stub struct {
	mu     sync.Mutex
	script []AnswerIn
	next   int
	log    []stubReq
	srv    *httptest.Server
}

func newStub(script []AnswerIn) *stub {
	s := &stub{script: script}
	s.srv = httptest.NewServer(http.HandlerFunc(s.handle))
	return s
}

func (s *stub) handle(w http.ResponseWriter, r *http.Request) {
	var v url.Values
	if r.Method == "POST" {
		v = url.Values{}
		_ = json.NewDecoder(r.Body).Decode(&v)
	} else {
		_ = r.ParseForm()
		v = r.Form
	}
	s.mu.Lock()
	s.log = append(s.log, stubReq{v.Get("secret"), v.Get("tls"), v.Get("common_name"), r.Method})
	var a AnswerIn
	if s.next < len(s.script) {
		a = s.script[s.next]
	} else {
		a = AnswerIn{Kind: "http500"}
	}
	s.next++
	s.mu.Unlock()
	switch a.Kind {
	case "ok":
		type az struct {
			Topic       string   `json:"topic"`
			Channels    []string `json:"channels"`
			Permissions []string `json:"permissions"`
		}
		doc := struct {
			TTL            int    `json:"ttl"`
			Identity       string `json:"identity"`
			IdentityURL    string `json:"identity_url"`
			Authorizations []az   `json:"authorizations"`
		}{TTL: a.TTL, Identity: "who", IdentityURL: "http://who/"}
		doc.Authorizations = []az{}
		for _, z := range a.Auths {
			ch := z.Channels
			if ch == nil {
				ch = []string{}
			}
			pm := z.Perms
			if pm == nil {
				pm = []string{}
			}
			doc.Authorizations = append(doc.Authorizations, az{z.Topic, ch, pm})
		}
		b, _ := json.Marshal(doc)
		w.Write(b)
	case "http404":
		w.WriteHeader(404)
		io.WriteString(w, `{"message":"NOT_FOUND"}`)
	case "badjson":
		io.WriteString(w, `{"ttl": 10, "authorizations": [`)
	default:
		w.WriteHeader(500)
		io.WriteString(w, `{"message":"INTERNAL_ERROR"}`)
	}
}

func (s *stub) mark() int { s.mu.Lock(); defer s.mu.Unlock(); return len(s.log) }
func (s *stub) since(m int) []stubReq {
	s.mu.Lock()
	defer s.mu.Unlock()
	return append([]stubReq(nil), s.log[m:]...)
}

// ------------------------------------------------------------------ daemon
func certDir() string {
	repo := os.Getenv("VERIF_REPO")
	if repo == "" {
		repo = "/repo"
	}
	return filepath.Join(repo, "nsqd", "test", "certs")
}

func startDaemon(cfg CfgIn, authAddrs []string) (*nsqd.NSQD, *nsqd.Options, error) {
	opts := nsqdlib.NewOpts(nsqdlib.ScratchDir())
	opts.TLSRequired = cfg.TLSRequired
	if cfg.NoHTTP {
		opts.HTTPAddress = ""
	}
	if cfg.NoHTTPS {
		opts.HTTPSAddress = ""
	}
	if cfg.HasCert {
		opts.TLSCert = filepath.Join(certDir(), "server.pem")
		opts.TLSKey = filepath.Join(certDir(), "server.key")
		if cfg.Policy == "require-verify" {
			// only here: with a CA list advertised, crypto/tls clients withhold certificates
			// not issued by it, which would turn "self-signed" into "none" under "require"
			opts.TLSRootCAFile = filepath.Join(certDir(), "ca.pem")
		}
	}
	opts.TLSClientAuthPolicy = cfg.Policy
	opts.AuthHTTPAddresses = authAddrs
	if cfg.Method != "" {
		opts.AuthHTTPRequestMethod = cfg.Method
	}
	n, err := nsqd.New(opts)
	if err != nil {
		os.RemoveAll(opts.DataPath)
		return nil, opts, err
	}
	go func() { _ = n.Main() }()
	return n, opts, nil
}

func stopDaemon(n *nsqd.NSQD, opts *nsqd.Options) {
	n.Exit()
	os.RemoveAll(opts.DataPath)
}

type topicSnap struct {
	Name  string
	Count uint64
}
type chanSnap struct {
	Topic, Name string
	Clients     int
}

func snapshot(n *nsqd.NSQD) ([]topicSnap, []chanSnap) {
	st := n.GetStats("", "", false)
	var ts []topicSnap
	var cs []chanSnap
	for _, t := range st.Topics {
		ts = append(ts, topicSnap{t.TopicName, t.MessageCount})
		for _, c := range t.Channels {
			cs = append(cs, chanSnap{t.TopicName, c.ChannelName, c.ClientCount})
		}
	}
	sort.Slice(ts, func(i, j int) bool { return ts[i].Name < ts[j].Name })
	sort.Slice(cs, func(i, j int) bool {
		if cs[i].Topic != cs[j].Topic {
			return cs[i].Topic < cs[j].Topic
		}
		return cs[i].Name < cs[j].Name
	})
	return ts, cs
}

func coqTopics(ts []topicSnap) string {
	p := make([]string, len(ts))
	for i, t := range ts {
		p[i] = fmt.Sprintf("(%s, %d)", coqStr(t.Name), t.Count)
	}
	return lib.CoqList(p)
}
func coqChans(cs []chanSnap) string {
	p := make([]string, len(cs))
	for i, c := range cs {
		p[i] = fmt.Sprintf("(%s, %s, %d)", coqStr(c.Topic), coqStr(c.Name), c.Clients)
	}
	return lib.CoqList(p)
}

// ------------------------------------------------------------------ raw client
type frame struct {
	typ  int32
	data []byte
}

type client struct {
	raw     net.Conn
	rw      io.ReadWriter
	rd      *bufio.Reader
	tlsOn   bool
	subbed  bool // an OK answered a SUB: the barrier is FIN, not IDENTIFY
	local   string
	started time.Time
	waited  time.Duration // time spent in waits that ran into their timeout (an observation, not slowness)
}

var errTimeout = errors.New("timeout")

func (c *client) readFrame(d time.Duration) (frame, error) {
	c.raw.SetReadDeadline(time.Now().Add(d))
	var hdr [8]byte
	if _, err := io.ReadFull(c.rd, hdr[:]); err != nil {
		var ne net.Error
		if errors.As(err, &ne) && ne.Timeout() {
			return frame{}, errTimeout
		}
		return frame{}, err
	}
	size := int(binary.BigEndian.Uint32(hdr[:4]))
	typ := int32(binary.BigEndian.Uint32(hdr[4:]))
	if size < 4 || size > 1<<22 {
		return frame{}, fmt.Errorf("bad frame size %d", size)
	}
	data := make([]byte, size-4)
	if _, err := io.ReadFull(c.rd, data); err != nil {
		return frame{}, err
	}
	return frame{typ, data}, nil
}

var codeNames = map[string]bool{"E_INVALID": true, "E_BAD_BODY": true, "E_BAD_TOPIC": true, "E_BAD_CHANNEL": true, "E_BAD_MESSAGE": true,
	"E_IDENTIFY_FAILED": true, "E_AUTH_DISABLED": true, "E_AUTH_FAILED": true, "E_UNAUTHORIZED": true, "E_AUTH_FIRST": true,
	"E_FIN_FAILED": true, "E_REQ_FAILED": true, "E_TOUCH_FAILED": true}

func nonFatalCode(code string) bool {
	return code == "E_FIN_FAILED" || code == "E_REQ_FAILED" || code == "E_TOUCH_FAILED"
}

// classify returns the Coq oframe, a short label, and for error frames the code
func classify(f frame) (coq, label, code string, identTLS bool) {
	if f.typ == 1 {
		code = strings.SplitN(string(f.data), " ", 2)[0]
		if codeNames[code] {
			return "(OErr " + code + ")", code, code, false
		}
		return "(OErr E_OTHER)", "E_OTHER:" + code, code, false
	}
	s := string(f.data)
	switch {
	case s == "OK":
		return "OOk", "OK", "", false
	case s == "CLOSE_WAIT":
		return "OCloseWait", "CLOSE_WAIT", "", false
	case strings.HasPrefix(s, "{"):
		var m map[string]interface{}
		if json.Unmarshal(f.data, &m) == nil {
			if _, ok := m["max_rdy_count"]; ok {
				t, _ := m["tls_v1"].(bool)
				a, _ := m["auth_required"].(bool)
				return fmt.Sprintf("(OIdent %s %s)", lib.CoqBool(t), lib.CoqBool(a)), fmt.Sprintf("IDENT(tls=%v)", t), "", t
			}
			if pc, ok := m["permission_count"]; ok {
				n, _ := pc.(float64)
				return fmt.Sprintf("(OAuthOk %d)", int(n)), "AUTH_OK", "", false
			}
		}
	}
	return "OOther", "OTHER", "", false
}

type groupObs struct {
	Now     int64
	Cmds    []CmdIn
	Frames  []string // Coq oframes
	Labels  []string
	Closed  bool
	Queries []stubReq
	Topics  []topicSnap
	Chans   []chanSnap
	Hung    bool
}

func (g groupObs) coq() string {
	cs := make([]string, len(g.Cmds))
	for i, c := range g.Cmds {
		cs[i] = c.coq()
	}
	qs := make([]string, len(g.Queries))
	for i, q := range g.Queries {
		qs[i] = fmt.Sprintf("(%s, %s, %s)", coqStr(q.Secret), lib.CoqBool(q.TLS == "true"), cnCert(q.CommonName))
	}
	return fmt.Sprintf("(G %s %s %s %s %s %s %s)", lib.CoqZ(g.Now), lib.CoqList(cs), lib.CoqList(g.Frames), lib.CoqBool(g.Closed),
		lib.CoqList(qs), coqTopics(g.Topics), coqChans(g.Chans))
}

// the common name the auth server was told, as the test certificate that carries it
// (client.pem: CN=nsq.io, cert.pem: CN=test.local)
func cnCert(cn string) string {
	switch cn {
	case "nsq.io":
		return "CertCA"
	case "test.local":
		return "CertSelfSigned"
	case "":
		return "CertNone"
	}
	return "CertNone (* unexpected common name " + strings.ReplaceAll(cn, "*", "") + " *)"
}

func clientCert(hs string) []tls.Certificate {
	var certFile, keyFile string
	switch hs {
	case "self":
		certFile, keyFile = "cert.pem", "key.pem"
	case "ca":
		certFile, keyFile = "client.pem", "client.key"
	default:
		return nil
	}
	cert, err := tls.LoadX509KeyPair(filepath.Join(certDir(), certFile), filepath.Join(certDir(), keyFile))
	if err != nil {
		lib.Fatalf("load client certificate %s: %v", certFile, err)
	}
	return []tls.Certificate{cert}
}

// runGroup writes the commands of one group in a single write and reads the answer of
// its last command (every earlier command of a group is a NOP or RDY, which answer
// nothing or a fatal error).  After a frame that the protocol defines as fatal the
// server must close: the driver then waits for the end of the stream.
func (c *client) runGroup(cmds []CmdIn) (frames, labels []string, closed, hung bool) {
	var out bytes.Buffer
	for _, cmd := range cmds {
		out.Write(cmd.wire())
	}
	c.raw.SetWriteDeadline(time.Now().Add(10 * time.Second))
	_, _ = c.rw.Write(out.Bytes())
	last := cmds[len(cmds)-1]
	for {
		f, err := c.readFrame(20 * time.Second)
		if err == errTimeout {
			c.waited += 20 * time.Second
			return frames, labels, false, true
		}
		if err != nil {
			return frames, labels, true, false
		}
		if f.typ == 2 || (f.typ == 0 && string(f.data) == "_heartbeat_") {
			continue
		}
		coq, label, code, identTLS := classify(f)
		frames = append(frames, coq)
		labels = append(labels, label)
		if f.typ == 1 && !nonFatalCode(code) {
			// fatal by the protocol definition: the stream must end
			for {
				f2, err2 := c.readFrame(5 * time.Second)
				if err2 == errTimeout {
					c.waited += 5 * time.Second
					return frames, labels, false, false
				}
				if err2 != nil {
					return frames, labels, true, false
				}
				if f2.typ == 2 || (f2.typ == 0 && string(f2.data) == "_heartbeat_") {
					continue
				}
				coq2, label2, _, _ := classify(f2)
				frames = append(frames, coq2)
				labels = append(labels, label2)
			}
		}
		if identTLS {
			// the server is now waiting for a TLS ClientHello
			if last.HS == "abort" {
				c.raw.Close()
				frames = append(frames, "OTlsFail")
				labels = append(labels, "TLS_ABORT")
				return frames, labels, true, false
			}
			tc := tls.Client(c.raw, &tls.Config{InsecureSkipVerify: true, Certificates: clientCert(last.HS)})
			c.raw.SetDeadline(time.Now().Add(10 * time.Second))
			if err := tc.Handshake(); err != nil {
				frames = append(frames, "OTlsFail")
				labels = append(labels, "TLS_FAIL")
				return frames, labels, true, false
			}
			c.raw.SetDeadline(time.Time{})
			c.rw = tc
			c.rd = bufio.NewReader(tc)
			f3, err := c.readFrame(10 * time.Second)
			if err != nil {
				// TLS 1.3: a refused client certificate surfaces on the first read
				frames = append(frames, "OTlsFail")
				labels = append(labels, "TLS_FAIL")
				return frames, labels, true, false
			}
			c.tlsOn = true
			coq3, label3, _, _ := classify(f3)
			frames = append(frames, coq3)
			labels = append(labels, label3)
			return frames, labels, false, false
		}
		if last.K == "SUB" && coq == "OOk" {
			c.subbed = true
		}
		return frames, labels, false, false
	}
}

func dial(n *nsqd.NSQD) (*client, error) {
	conn, err := net.DialTimeout("tcp", n.RealTCPAddr().String(), 5*time.Second)
	if err != nil {
		return nil, err
	}
	if _, err := conn.Write([]byte("  V2")); err != nil {
		conn.Close()
		return nil, err
	}
	return &client{raw: conn, rw: conn, rd: bufio.NewReader(conn), local: conn.LocalAddr().String(), started: time.Now()}, nil
}

func waitGone(n *nsqd.NSQD, addr string) bool {
	deadline := time.Now().Add(10 * time.Second)
	for time.Now().Before(deadline) {
		if found, _, _, _, _ := n.VerifClientGate(addr); !found {
			return true
		}
		time.Sleep(time.Millisecond)
	}
	return false
}

func waitPresent(n *nsqd.NSQD, addr string) bool {
	deadline := time.Now().Add(10 * time.Second)
	for time.Now().Before(deadline) {
		if found, _, _, _, _ := n.VerifClientGate(addr); found {
			return true
		}
		time.Sleep(time.Millisecond)
	}
	return false
}

// ------------------------------------------------------------------ one connection case
type result struct {
	c       *lib.Case
	dropped string
}

func barrierFor(c *client) CmdIn {
	if c.subbed {
		return CmdIn{K: "FIN", OK: true}
	}
	return CmdIn{K: "IDENTIFY", Neg: false, HB: "keep", HS: "none"}
}

const slowLimit = 5 * time.Second

func runConnCase(name string, in CaseIn) result {
	st := newStub(in.Script)
	defer st.srv.Close()
	host := strings.TrimPrefix(st.srv.URL, "http://")
	var addrs []string
	for i := 0; i < in.Cfg.NAuthd; i++ {
		if i%2 == 0 {
			addrs = append(addrs, host)
		} else {
			addrs = append(addrs, "http://"+host+"/auth")
		}
	}
	n, opts, err := startDaemon(in.Cfg, addrs)
	if err != nil {
		lib.Fatalf("case %s: daemon did not start: %v", name, err)
	}
	defer stopDaemon(n, opts)

	tags := map[string]bool{"kind=conn": true, "profile=" + in.Profile: true,
		fmt.Sprintf("cfg:tls_required=%d", in.Cfg.TLSRequired): true, "cfg:policy=" + in.Cfg.Policy: true,
		fmt.Sprintf("cfg:authd=%d", in.Cfg.NAuthd): true, fmt.Sprintf("cfg:cert=%v", in.Cfg.HasCert): true,
		fmt.Sprintf("cfg:http_addr=%v,https_addr=%v", !in.Cfg.NoHTTP, !in.Cfg.NoHTTPS): true}
	if in.Cfg.NAuthd > 0 {
		tags["cfg:method="+in.Cfg.Method] = true
	}
	var connTerms []string
	var obsAll [][]groupObs
	nontrivial := false
	for _, ci := range in.Conns {
		c, err := dial(n)
		if err != nil {
			lib.Fatalf("case %s: dial: %v", name, err)
		}
		if !waitPresent(n, c.local) {
			lib.Fatalf("case %s: the daemon never registered the connection", name)
		}
		var gobs []groupObs
		var now int64
		closed := false
		for gi, stp := range ci.Steps {
			if closed {
				break
			}
			if stp.Adv > 0 {
				n.VerifShiftAuthExpiry(c.local, time.Duration(stp.Adv)*time.Second)
				tags[fmt.Sprintf("advance=%ds", stp.Adv)] = true
			}
			now += int64(stp.Adv)*1000 + 1
			cmds := []CmdIn{stp.Cmd}
			if stp.Cmd.K == "NOP" || stp.Cmd.K == "RDY" {
				cmds = append(cmds, barrierFor(c))
			}
			mark := st.mark()
			wasTLS, wasSub := c.tlsOn, c.subbed
			frames, labels, cl, hung := c.runGroup(cmds)
			if time.Since(c.started)-c.waited > slowLimit {
				c.raw.Close()
				return result{dropped: "slow"}
			}
			ts, cs := snapshot(n)
			g := groupObs{Now: now, Cmds: cmds, Frames: frames, Labels: labels, Closed: cl, Queries: st.since(mark), Topics: ts, Chans: cs, Hung: hung}
			gobs = append(gobs, g)
			closed = cl
			state := "init"
			if wasSub {
				state = "subscribed-or-closing"
			}
			for _, l := range labels {
				tags[fmt.Sprintf("%s@%s,tls=%v->%s", stp.Cmd.K, state, wasTLS, strings.SplitN(l, ":", 2)[0])] = true
				if l == "OK" || l == "AUTH_OK" || strings.HasPrefix(l, "E_AUTH") || l == "E_UNAUTHORIZED" {
					nontrivial = true
				}
				if l == "E_INVALID" && !wasTLS && in.Cfg.TLSRequired != 0 {
					nontrivial = true
				}
			}
			if len(g.Queries) > 0 {
				tags[fmt.Sprintf("auth_queries_in_group=%d", len(g.Queries))] = true
				if stp.Cmd.K != "AUTH" {
					tags["requery:"+stp.Cmd.K] = true
				}
			}
			if hung {
				tags["hung"] = true
				closed = true
				c.raw.Close()
			}
			if !cl && c.waited > 0 {
				// a fatal error frame was not followed by the end of the stream: recorded as
				// "not closed"; nothing more is sent on this connection
				tags["fatal-frame-without-close"] = true
				closed = true
			}
			_ = gi
		}
		c.raw.Close()
		if !waitGone(n, c.local) {
			lib.Fatalf("case %s: the daemon never released the connection", name)
		}
		terms := make([]string, len(gobs))
		for i, g := range gobs {
			terms[i] = g.coq()
		}
		connTerms = append(connTerms, lib.CoqList(terms))
		obsAll = append(obsAll, gobs)
	}
	scr := make([]string, len(in.Script))
	for i, a := range in.Script {
		scr[i] = a.coq()
		tags["answer="+a.Kind] = true
	}
	coq := fmt.Sprintf("(J11.Conn %s %s %s)", in.Cfg.coq(), lib.CoqList(scr), lib.CoqList(connTerms))
	var tl []string
	for t := range tags {
		tl = append(tl, t)
	}
	sort.Strings(tl)
	// a compact rendering of what was observed, for the evidence samples / replays
	var obs []interface{}
	for _, gobs := range obsAll {
		var gl []interface{}
		for _, g := range gobs {
			ks := make([]string, len(g.Cmds))
			for i, c := range g.Cmds {
				ks[i] = c.K
			}
			gl = append(gl, map[string]interface{}{"now": g.Now, "cmds": ks, "frames": g.Labels, "closed": g.Closed,
				"auth_requests": len(g.Queries), "topics": g.Topics, "channels": g.Chans})
		}
		obs = append(obs, gl)
	}
	return result{c: &lib.Case{Name: name, Coq: coq, Input: in, Tags: tl, Nontrivial: nontrivial, Obs: obs}}
}

// ------------------------------------------------------------------ real-TTL cases (no hook)
// AUTH with a 1 s TTL, a publish at once (cached answer), a real wait past the expiry,
// a second publish (re-query).  Guard bands: the first publish must be answered within
// 600 ms of sending AUTH; the second is sent no earlier than 1400 ms after the AUTH
// answer arrived.
func runRealTTL(name string, in CaseIn) result {
	grantA := AnswerIn{Kind: "ok", TTL: 1, Auths: []AuthzIn{{Topic: "^tA$", Channels: []string{".*"}, Perms: []string{"publish", "subscribe"}}}}
	var second AnswerIn
	switch in.Variant % 3 {
	case 0:
		second = grantA
	case 1:
		second = AnswerIn{Kind: "ok", TTL: 1, Auths: []AuthzIn{{Topic: "^tB$", Channels: []string{".*"}, Perms: []string{"publish"}}}}
	default:
		second = AnswerIn{Kind: "http500"}
	}
	in.Script = []AnswerIn{grantA, second}
	in.Cfg = CfgIn{NAuthd: 1, Method: "get"}
	st := newStub(in.Script)
	defer st.srv.Close()
	n, opts, err := startDaemon(in.Cfg, []string{strings.TrimPrefix(st.srv.URL, "http://")})
	if err != nil {
		lib.Fatalf("case %s: daemon did not start: %v", name, err)
	}
	defer stopDaemon(n, opts)
	c, err := dial(n)
	if err != nil {
		lib.Fatalf("case %s: dial: %v", name, err)
	}
	defer c.raw.Close()
	var gobs []groupObs
	step := func(now int64, cmd CmdIn) bool {
		mark := st.mark()
		frames, labels, cl, hung := c.runGroup([]CmdIn{cmd})
		ts, cs := snapshot(n)
		gobs = append(gobs, groupObs{Now: now, Cmds: []CmdIn{cmd}, Frames: frames, Labels: labels, Closed: cl, Queries: st.since(mark), Topics: ts, Chans: cs, Hung: hung})
		return cl || hung
	}
	pub := CmdIn{K: "PUB", Args: []string{"tA"}, BodyOK: true}
	if in.Variant >= 3 {
		pub = CmdIn{K: "MPUB", Args: []string{"tA"}, Mp: "ok", MpCount: 2}
	}
	t0 := time.Now()
	over := step(1, CmdIn{K: "AUTH", Secret: "s"})
	tAuth := time.Now()
	if !over {
		over = step(2, pub)
	}
	if time.Since(t0) > 600*time.Millisecond {
		return result{dropped: "realttl-slow"}
	}
	if !over {
		time.Sleep(time.Until(tAuth.Add(1400 * time.Millisecond)))
		step(1500, pub)
	}
	terms := make([]string, len(gobs))
	var labels []string
	for i, g := range gobs {
		terms[i] = g.coq()
		labels = append(labels, strings.Join(g.Labels, "+"))
	}
	coq := fmt.Sprintf("(J11.Conn %s %s [%s])", in.Cfg.coq(), lib.CoqList([]string{in.Script[0].coq(), in.Script[1].coq()}), lib.CoqList(terms))
	return result{c: &lib.Case{Name: name, Coq: coq, Input: in, Tags: []string{"kind=realttl", fmt.Sprintf("realttl:variant=%d->%s", in.Variant, labels[len(labels)-1])},
		Nontrivial: true, Obs: labels}}
}

// ------------------------------------------------------------------ HTTP cases
// the /debug routes of newHTTPServer (debugProfile is only ever sent where it must be
// refused: it profiles the whole process for a second)
var debugRoutes = [][2]string{
	{"GET", "/debug/pprof/"}, {"GET", "/debug/pprof/cmdline"}, {"GET", "/debug/pprof/symbol"}, {"POST", "/debug/pprof/symbol"},
	{"GET", "/debug/pprof/heap"}, {"GET", "/debug/pprof/goroutine"}, {"GET", "/debug/pprof/block"}, {"GET", "/debug/pprof/threadcreate"},
	{"PUT", "/debug/setblockrate?rate=0"}, {"POST", "/debug/freememory"}, {"GET", "/debug/pprof/profile?seconds=1"},
}

const debugProfile = 10

// the request of a probe: method, path and query, body; and the judge's hreq
func (p ProbeIn) request() (method, path, body, coq string) {
	t, c := url.QueryEscape(p.Topic), url.QueryEscape(p.Channel)
	tc := "?topic=" + t + "&channel=" + c
	ct, cc := coqStr(p.Topic), coqStr(p.Channel)
	switch p.Kind {
	case "ping":
		return "GET", "/ping", "", "HPing"
	case "info":
		return "GET", "/info", "", "HInfo"
	case "stats":
		return "GET", "/stats?format=json", "", "HStats"
	case "nosuch":
		return "GET", "/no/such/route", "", "HNoSuch"
	case "badmethod":
		return "GET", "/pub?topic=" + t, "", "HBadMethod"
	case "config_get":
		return "GET", "/config/nsqlookupd_tcp_addresses", "", "(HConfigGet true)"
	case "config_get_unknown":
		return "GET", "/config/no_such_option", "", "(HConfigGet false)"
	case "config_put":
		return "PUT", "/config/log_level", "error", "(HConfigPut true)"
	case "config_put_bad":
		return "PUT", "/config/max_msg_size", "1", "(HConfigPut false)"
	case "debug":
		r := debugRoutes[p.N%len(debugRoutes)]
		return r[0], r[1], "", "HDebug"
	case "create":
		return "POST", "/topic/create?topic=" + t, "", "(HCreateTopic " + ct + ")"
	case "pub":
		return "POST", "/pub?topic=" + t, "body", "(HPub " + ct + ")"
	case "mpub":
		return "POST", "/mpub?topic=" + t, strings.Repeat("m\n", p.N), fmt.Sprintf("(HMpub %s %d)", ct, p.N)
	case "delete_topic":
		return "POST", "/topic/delete?topic=" + t, "", "(HDeleteTopic " + ct + ")"
	case "empty_topic":
		return "POST", "/topic/empty?topic=" + t, "", "(HEmptyTopic " + ct + ")"
	case "pause_topic":
		return "POST", "/topic/pause?topic=" + t, "", "(HPauseTopic " + ct + " false)"
	case "unpause_topic":
		return "POST", "/topic/unpause?topic=" + t, "", "(HPauseTopic " + ct + " true)"
	case "create_channel":
		return "POST", "/channel/create" + tc, "", "(HCreateChannel " + ct + " " + cc + ")"
	case "delete_channel":
		return "POST", "/channel/delete" + tc, "", "(HDeleteChannel " + ct + " " + cc + ")"
	case "empty_channel":
		return "POST", "/channel/empty" + tc, "", "(HEmptyChannel " + ct + " " + cc + ")"
	case "pause_channel":
		return "POST", "/channel/pause" + tc, "", "(HPauseChannel " + ct + " " + cc + " false)"
	case "unpause_channel":
		return "POST", "/channel/unpause" + tc, "", "(HPauseChannel " + ct + " " + cc + " true)"
	}
	lib.Fatalf("unknown probe kind %q", p.Kind)
	return
}

// the listeners a daemon reports
func listeners(n *nsqd.NSQD) (plain, https bool) {
	if a, ok := n.RealHTTPAddr().(*net.TCPAddr); ok && a.Port != 0 {
		plain = true
	}
	return plain, n.RealHTTPSAddr().Port != 0
}

func runHTTPCase(name string, in CaseIn) result {
	n, opts, err := startDaemon(in.Cfg, nil)
	if err != nil {
		lib.Fatalf("case %s: daemon did not start: %v", name, err)
	}
	defer stopDaemon(n, opts)
	hasPlain, hasHTTPS := listeners(n)
	plain := &http.Client{Timeout: 10 * time.Second, Transport: &http.Transport{DisableKeepAlives: true}}
	// one connection for the case's HTTPS requests (a handshake per request is what costs)
	str := &http.Transport{MaxIdleConnsPerHost: 1, TLSClientConfig: &tls.Config{InsecureSkipVerify: true, Certificates: clientCert("ca")}}
	defer str.CloseIdleConnections()
	secure := &http.Client{Timeout: 10 * time.Second, Transport: str}
	tags := map[string]bool{"kind=http": true, "profile=" + in.Profile: true, fmt.Sprintf("cfg:tls_required=%d", in.Cfg.TLSRequired): true, "cfg:policy=" + in.Cfg.Policy: true,
		fmt.Sprintf("cfg:cert=%v", in.Cfg.HasCert):                                                                                             true,
		fmt.Sprintf("cfg:http_addr=%v,https_addr=%v", !in.Cfg.NoHTTP, !in.Cfg.NoHTTPS):                                                         true,
		fmt.Sprintf("daemon:required=%d,policy=%s,plain_listener=%v,https_listener=%v", in.Cfg.TLSRequired, in.Cfg.Policy, hasPlain, hasHTTPS): true}
	var terms []string
	var obs []string
	for _, p := range in.Probes {
		method, path, body, hreq := p.request()
		status := 0
		via := "(Via Plain)"
		switch p.Listener {
		case "direct":
			via = "Direct"
			status = 200
			switch p.Kind {
			case "create":
				n.GetTopic(p.Topic)
			case "pub":
				t := n.GetTopic(p.Topic)
				if err := t.PutMessage(nsqd.NewMessage(t.GenerateID(), []byte("body"))); err != nil {
					lib.Fatalf("case %s: direct publish: %v", name, err)
				}
			case "create_channel":
				n.GetTopic(p.Topic).GetChannel(p.Channel)
			default:
				lib.Fatalf("case %s: no in-process form of %s", name, p.Kind)
			}
		default:
			cl, base, have := plain, "http://"+n.RealHTTPAddr().String(), hasPlain
			if p.Listener == "https" {
				via = "(Via Https)"
				cl, base, have = secure, "https://"+n.RealHTTPSAddr().String(), hasHTTPS
			}
			if have {
				var rd io.Reader
				if body != "" {
					rd = strings.NewReader(body)
				}
				req, err := http.NewRequest(method, base+path, rd)
				if err != nil {
					lib.Fatalf("case %s: %s %s: %v", name, method, path, err)
				}
				resp, err := cl.Do(req)
				if err != nil {
					status = 1 // no HTTP answer at all: neither the model's nor the property's
					obs = append(obs, fmt.Sprintf("%s %s %s: %v", p.Listener, method, path, err))
				} else {
					io.Copy(io.Discard, resp.Body)
					resp.Body.Close()
					status = resp.StatusCode
				}
			}
		}
		ts, cs := snapshot(n)
		terms = append(terms, fmt.Sprintf("(Probe %s %s %d %s %s)", via, hreq, status, coqTopics(ts), coqChans(cs)))
		tags[fmt.Sprintf("http:%s,%s,required=%d,policy=%s,https_listener=%v->%d", p.Listener, p.Kind, in.Cfg.TLSRequired, in.Cfg.Policy, hasHTTPS, status)] = true
		obs = append(obs, fmt.Sprintf("%s %s %s -> %d (%d topics, %d channels)", p.Listener, method, path, status, len(ts), len(cs)))
	}
	var tl []string
	for t := range tags {
		tl = append(tl, t)
	}
	sort.Strings(tl)
	coq := fmt.Sprintf("(J11.Http %s %s %s %s %s)", in.Cfg.coq(), in.Cfg.coqAddrs(), lib.CoqBool(hasPlain), lib.CoqBool(hasHTTPS), lib.CoqList(terms))
	return result{c: &lib.Case{Name: name, Coq: coq, Input: in, Tags: tl, Nontrivial: true, Obs: obs}}
}

func runStartCase(name string, in CaseIn) result {
	n, opts, err := startDaemon(in.Cfg, nil)
	started := err == nil
	hasPlain, hasHTTPS := false, false
	if started {
		hasPlain, hasHTTPS = listeners(n)
		stopDaemon(n, opts)
	}
	coq := fmt.Sprintf("(J11.Start %s %s %s %s %s)", in.Cfg.coq(), in.Cfg.coqAddrs(), lib.CoqBool(started), lib.CoqBool(hasPlain), lib.CoqBool(hasHTTPS))
	return result{c: &lib.Case{Name: name, Coq: coq, Input: in,
		Tags: []string{"kind=start", fmt.Sprintf("start:required=%d,cert=%v,policy=%s,http_addr=%v,https_addr=%v->started=%v,plain=%v,https=%v",
			in.Cfg.TLSRequired, in.Cfg.HasCert, in.Cfg.Policy, !in.Cfg.NoHTTP, !in.Cfg.NoHTTPS, started, hasPlain, hasHTTPS)}, Nontrivial: true}}
}

func runCase(name string, in CaseIn) result {
	switch in.Kind {
	case "http":
		return runHTTPCase(name, in)
	case "start":
		return runStartCase(name, in)
	case "realttl":
		return runRealTTL(name, in)
	}
	return runConnCase(name, in)
}

// ------------------------------------------------------------------ generators
var topics = []string{"tA", "tB", "tC.x", "t-1"}
var chans = []string{"x", "y", "ch_2"}
var badNames = []string{"bad$", "", strings.Repeat("a", 65), "sp@ce"}
var topicPats = []string{".*", ".*", "^t", "^t", "", "^tA$", "^tB$", "tA", "t.", "^t.$", "A$", "^tC", "zzz", "^t.*x$", "^tA", "^t-*1$"}
var chanPats = []string{".*", ".*", "", "y*", "^x$", "x", "^$", "^y$", "^.$", "^ch_2$", "zzz", "^ch_.$"}
var ttls = []int{10, 20, 30, 3600}
var advs = []int{10, 20, 30, 40, 4000}

func pickS(r *lib.Rand, xs []string) string { return xs[r.Intn(len(xs))] }

func genTopic(r *lib.Rand) string {
	if r.Chance(6) {
		return pickS(r, badNames)
	}
	return pickS(r, topics)
}
func genChan(r *lib.Rand) string {
	if r.Chance(6) {
		return pickS(r, badNames)
	}
	return pickS(r, chans)
}

func genAuthz(r *lib.Rand) AuthzIn {
	a := AuthzIn{Topic: pickS(r, topicPats)}
	for i, k := 0, 1+r.Intn(2); i < k; i++ {
		a.Channels = append(a.Channels, pickS(r, chanPats))
	}
	if r.Chance(8) {
		a.Channels = nil
	}
	switch r.Intn(10) {
	case 0, 1, 2, 3:
		a.Perms = []string{"publish", "subscribe"}
	case 4, 5, 6:
		a.Perms = []string{"publish"}
	case 7, 8:
		a.Perms = []string{"subscribe"}
	default:
		a.Perms = nil
	}
	return a
}

func genAnswer(r *lib.Rand, good int) AnswerIn {
	if !r.Chance(good) {
		switch r.Intn(8) {
		case 0:
			return AnswerIn{Kind: "http500"}
		case 1:
			return AnswerIn{Kind: "http404"}
		case 2:
			return AnswerIn{Kind: "badjson"}
		case 3:
			return AnswerIn{Kind: "ok", TTL: 0, Auths: []AuthzIn{genAuthz(r)}}
		case 4:
			return AnswerIn{Kind: "ok", TTL: -10, Auths: []AuthzIn{genAuthz(r)}}
		case 5:
			a := genAuthz(r)
			a.Perms = append(a.Perms, "admin")
			return AnswerIn{Kind: "ok", TTL: pickI(r, ttls), Auths: []AuthzIn{a}}
		case 6:
			a := genAuthz(r)
			if r.Bool() {
				a.Topic = pickS(r, []string{"(", "*a", "a**"})
			} else {
				a.Channels = append(a.Channels, pickS(r, []string{"(", "*a", "a**"}))
			}
			return AnswerIn{Kind: "ok", TTL: pickI(r, ttls), Auths: []AuthzIn{a}}
		default:
			return AnswerIn{Kind: "ok", TTL: pickI(r, ttls), Auths: nil}
		}
	}
	a := AnswerIn{Kind: "ok", TTL: pickI(r, ttls)}
	for i, k := 0, 1+r.Intn(3); i < k; i++ {
		a.Auths = append(a.Auths, genAuthz(r))
	}
	return a
}

func pickI(r *lib.Rand, xs []int) int { return xs[r.Intn(len(xs))] }

func genCfg(r *lib.Rand, wantTLS, wantAuth int) CfgIn {
	// wantTLS / wantAuth: -1 any, 0 off, 1 on
	c := CfgIn{Method: pickS(r, []string{"get", "post"})}
	switch {
	case wantTLS == 1:
		c.TLSRequired = 1 + r.Intn(2)
	case wantTLS == 0:
		c.TLSRequired = 0
	default:
		c.TLSRequired = r.Intn(3)
	}
	c.HasCert = c.TLSRequired != 0 || r.Chance(60)
	if c.HasCert && wantTLS != 0 && r.Chance(35) {
		c.Policy = pickS(r, []string{"require", "require-verify"})
	}
	switch {
	case wantAuth == 1:
		c.NAuthd = 1 + r.Intn(2)
	case wantAuth == 0:
		c.NAuthd = 0
	default:
		c.NAuthd = []int{0, 1, 1, 1, 2}[r.Intn(5)]
	}
	// the HTTP listeners are no part of the TCP gate: any of them may be missing
	c.NoHTTPS = r.Chance(30)
	c.NoHTTP = r.Chance(10)
	return c
}

// the certificate with which the configured policy lets the handshake complete
func goodCert(r *lib.Rand, c CfgIn) string {
	switch c.Policy {
	case "require":
		return pickS(r, []string{"self", "ca"})
	case "require-verify":
		return "ca"
	}
	return pickS(r, []string{"none", "self", "ca"})
}

func identTLS(hs string) CmdIn {
	return CmdIn{K: "IDENTIFY", Neg: true, TLS: true, HB: "keep", HS: hs}
}

func genPubLike(r *lib.Rand) CmdIn {
	t := genTopic(r)
	switch r.Intn(10) {
	case 0, 1, 2, 3:
		c := CmdIn{K: "PUB", Args: []string{t}, BodyOK: !r.Chance(8)}
		if !c.BodyOK {
			c.BadHow = pickS(r, []string{"zero", "huge"})
		}
		if r.Chance(5) {
			c.Args = nil
		}
		return c
	case 4, 5:
		c := CmdIn{K: "MPUB", Args: []string{t}, Mp: "ok", MpCount: 1 + r.Intn(3)}
		if r.Chance(15) {
			c.Mp = pickS(r, []string{"badbody", "badcount", "badmsg"})
		}
		if r.Chance(5) {
			c.Args = nil
		}
		return c
	case 6, 7:
		c := CmdIn{K: "DPUB", Args: []string{t, "0"}, DelayOK: true, BodyOK: !r.Chance(8)}
		if !c.BodyOK {
			c.BadHow = pickS(r, []string{"zero", "huge"})
		}
		if r.Chance(10) {
			c.DelayOK = false
			c.Args[1] = pickS(r, []string{"abc", "999999999999", "-1"})
		} else {
			c.Args[1] = pickS(r, []string{"0", "1", "1000"})
		}
		if r.Chance(5) {
			c.Args = c.Args[:1]
		}
		return c
	default:
		c := CmdIn{K: "SUB", Args: []string{t, genChan(r)}}
		if r.Chance(5) {
			c.Args = c.Args[:1]
		}
		return c
	}
}

// a malformed command line: arbitrary bytes (no newline), never a command word
func junk(r *lib.Rand) string {
	b := r.Bytes(1 + r.Intn(40))
	for i := range b {
		if b[i] == '\n' {
			b[i] = ' '
		}
	}
	return "\x01" + string(b)
}

// every command kind, for the sweeps
func allKinds(r *lib.Rand) []CmdIn {
	return []CmdIn{
		{K: "NOP"},
		{K: "PUB", Args: []string{"tA"}, BodyOK: true},
		{K: "MPUB", Args: []string{"tA"}, Mp: "ok", MpCount: 2},
		{K: "DPUB", Args: []string{"tA", "10"}, DelayOK: true, BodyOK: true},
		{K: "SUB", Args: []string{"tA", "x"}},
		{K: "AUTH", Secret: "secret"},
		{K: "RDY", OK: true},
		{K: "FIN", OK: true},
		{K: "REQ", OK: true},
		{K: "TOUCH", OK: true},
		{K: "CLS"},
		{K: "OTHER", Word: pickS(r, []string{"FOO", "identify", "", "PUBX tA", "\x00\x01\x02", "GET / HTTP/1.1", junk(r), junk(r)})},
		{K: "PUB", Args: []string{"bad$"}, BodyOK: true},
		{K: "PUB", Args: []string{"tA"}, BodyOK: false, BadHow: "zero"},
		{K: "MPUB", Args: []string{"tB"}, Mp: "badmsg"},
		{K: "SUB", Args: []string{"tB", "bad$"}},
		{K: "AUTH", ExtraParam: true, Secret: "s"},
		{K: "AUTH", BodyBad: true},
		{K: "IDENTIFY", Neg: false, HB: "keep"},
		{K: "IDENTIFY", IdBad: pickS(r, []string{"badjson", "zerosize", "badhb"})},
	}
}

func wideGrant() AnswerIn {
	return AnswerIn{Kind: "ok", TTL: 3600, Auths: []AuthzIn{{Topic: ".*", Channels: []string{".*"}, Perms: []string{"publish", "subscribe"}}}}
}

func genRandomCmd(r *lib.Rand, cfg CfgIn) CmdIn {
	switch r.Intn(20) {
	case 0:
		return CmdIn{K: "NOP"}
	case 1:
		return CmdIn{K: "RDY", OK: !r.Chance(20)}
	case 2:
		return CmdIn{K: pickS(r, []string{"FIN", "REQ", "TOUCH"}), OK: !r.Chance(25)}
	case 3:
		return CmdIn{K: "CLS"}
	case 4:
		return CmdIn{K: "AUTH", Secret: pickS(r, []string{"s", "secret2", "x y"}), ExtraParam: r.Chance(8), BodyBad: r.Chance(8)}
	case 5:
		return CmdIn{K: "IDENTIFY", Neg: r.Bool(), HB: pickS(r, []string{"keep", "off", "on"})}
	case 6:
		if r.Chance(40) {
			return CmdIn{K: "OTHER", Word: pickS(r, []string{"FOO", "pub tA", "", "\xff\xfe", junk(r), junk(r)})}
		}
		return CmdIn{K: "IDENTIFY", Neg: true, Snappy: true, Deflate: true, HB: "keep"}
	default:
		return genPubLike(r)
	}
}

func maybeAdv(r *lib.Rand, p int) int {
	if r.Chance(p) {
		return pickI(r, advs)
	}
	return 0
}

func genConnCase(r *lib.Rand, k int) CaseIn {
	kinds := allKinds(r)
	switch k % 8 {
	case 0: // every command on a plaintext connection of a daemon that requires TLS
		cfg := genCfg(r, 1, -1)
		var steps []StepIn
		if r.Chance(50) {
			// an IDENTIFY that does not upgrade: no negotiation, or negotiation without tls_v1
			steps = append(steps, StepIn{Cmd: CmdIn{K: "IDENTIFY", Neg: r.Bool(), TLS: false, HB: "keep"}})
		}
		steps = append(steps, StepIn{Cmd: kinds[(k/8)%len(kinds)]})
		return CaseIn{Kind: "conn", Profile: "pre-tls-sweep", Cfg: cfg, Script: []AnswerIn{wideGrant()}, Conns: []ConnIn{{steps}}}
	case 1: // every command before AUTH with an auth server configured
		cfg := genCfg(r, -1, 1)
		var steps []StepIn
		if cfg.TLSRequired != 0 || (cfg.HasCert && r.Chance(30)) {
			steps = append(steps, StepIn{Cmd: identTLS(goodCert(r, cfg))})
		}
		if r.Chance(30) {
			// a failed or empty AUTH is not a successful AUTH (it is fatal, so it ends the case);
			// otherwise go straight to the command
			steps = append(steps, StepIn{Cmd: CmdIn{K: "NOP"}})
		}
		steps = append(steps, StepIn{Cmd: kinds[(k/8)%len(kinds)]})
		return CaseIn{Kind: "conn", Profile: "pre-auth-sweep", Cfg: cfg, Script: []AnswerIn{wideGrant()}, Conns: []ConnIn{{steps}}}
	case 2: // handshake outcomes under every certificate policy, then one command
		cfg := genCfg(r, -1, -1)
		cfg.HasCert = true
		cfg.Policy = pickS(r, []string{"", "require", "require-verify"})
		hs := pickS(r, []string{"none", "self", "ca", "abort"})
		steps := []StepIn{{Cmd: identTLS(hs)}, {Cmd: kinds[(k/8)%len(kinds)]}}
		return CaseIn{Kind: "conn", Profile: "handshake", Cfg: cfg, Script: []AnswerIn{wideGrant()}, Conns: []ConnIn{{steps}}}
	case 3, 4, 5: // authorised connection: grants per topic/channel, expiry, changes of mind
		cfg := genCfg(r, -1, 1)
		var script []AnswerIn
		script = append(script, genAnswer(r, 88))
		for i, m := 0, r.Intn(4); i < m; i++ {
			script = append(script, genAnswer(r, 65))
		}
		var steps []StepIn
		if cfg.TLSRequired != 0 || (cfg.HasCert && r.Chance(30)) {
			steps = append(steps, StepIn{Cmd: identTLS(goodCert(r, cfg))})
		}
		steps = append(steps, StepIn{Cmd: CmdIn{K: "AUTH", Secret: pickS(r, []string{"s", "top-secret"})}})
		for i, m := 0, 2+r.Intn(5); i < m; i++ {
			c := genPubLike(r)
			if r.Chance(12) {
				c = genRandomCmd(r, cfg)
			}
			steps = append(steps, StepIn{Adv: maybeAdv(r, 45), Cmd: c})
		}
		return CaseIn{Kind: "conn", Profile: "authorised", Cfg: cfg, Script: script, Conns: []ConnIn{{steps}}}
	case 6: // two connections: authorisation is per connection
		cfg := genCfg(r, -1, 1)
		script := []AnswerIn{genAnswer(r, 90), genAnswer(r, 70), genAnswer(r, 70)}
		mk := func(auth bool) ConnIn {
			var steps []StepIn
			if cfg.TLSRequired != 0 {
				steps = append(steps, StepIn{Cmd: identTLS(goodCert(r, cfg))})
			}
			if auth {
				steps = append(steps, StepIn{Cmd: CmdIn{K: "AUTH", Secret: "s"}})
			}
			for i, m := 0, 1+r.Intn(3); i < m; i++ {
				steps = append(steps, StepIn{Adv: maybeAdv(r, 30), Cmd: genPubLike(r)})
			}
			return ConnIn{steps}
		}
		return CaseIn{Kind: "conn", Profile: "two-connections", Cfg: cfg, Script: script, Conns: []ConnIn{mk(true), mk(r.Chance(40))}}
	default: // anything goes
		cfg := genCfg(r, -1, -1)
		var script []AnswerIn
		for i, m := 0, r.Intn(4); i < m; i++ {
			script = append(script, genAnswer(r, 70))
		}
		var steps []StepIn
		if cfg.HasCert && r.Chance(60) {
			steps = append(steps, StepIn{Cmd: identTLS(pickS(r, []string{"none", "self", "ca"}))})
		}
		for i, m := 0, 1+r.Intn(7); i < m; i++ {
			steps = append(steps, StepIn{Adv: maybeAdv(r, 25), Cmd: genRandomCmd(r, cfg)})
		}
		return CaseIn{Kind: "conn", Profile: "random", Cfg: cfg, Script: script, Conns: []ConnIn{{steps}}}
	}
}

// the option combinations with which nsqd.New starts
func validCfgs() []CfgIn {
	var out []CfgIn
	for req := 0; req < 3; req++ {
		for _, cert := range []bool{false, true} {
			for _, pol := range []string{"", "require", "require-verify"} {
				if !cert && (req != 0 || pol != "") {
					continue
				}
				out = append(out, CfgIn{TLSRequired: req, HasCert: cert, Policy: pol, Method: "get"})
			}
		}
	}
	return out
}

// plaintext HTTP must be refused under this configuration
func mustRefusePlain(c CfgIn) bool {
	return c.TLSRequired == 2 || (c.TLSRequired == 0 && c.Policy != "")
}

// one request of every route (and the router's 404 / 405), in an order in which a serving
// listener goes through the 200, 400 and 404 paths of the handlers
func sweep(listener string, profile bool) []ProbeIn {
	ps := []ProbeIn{
		{Kind: "ping"}, {Kind: "info"}, {Kind: "stats"}, {Kind: "nosuch"}, {Kind: "badmethod", Topic: "tA"},
		{Kind: "config_get"}, {Kind: "config_get_unknown"}, {Kind: "config_put"}, {Kind: "config_put_bad"},
	}
	for i := range debugRoutes {
		if i != debugProfile || profile {
			ps = append(ps, ProbeIn{Kind: "debug", N: i})
		}
	}
	ps = append(ps,
		ProbeIn{Kind: "create", Topic: "tC.x"}, ProbeIn{Kind: "create", Topic: "bad$"},
		ProbeIn{Kind: "pub", Topic: "tA"}, ProbeIn{Kind: "pub", Topic: "t-1"}, ProbeIn{Kind: "pub", Topic: "bad$"},
		ProbeIn{Kind: "mpub", Topic: "tA", N: 3}, ProbeIn{Kind: "mpub", Topic: "tD", N: 2}, ProbeIn{Kind: "mpub", Topic: strings.Repeat("a", 65), N: 1},
		ProbeIn{Kind: "create_channel", Topic: "tA", Channel: "y"}, ProbeIn{Kind: "create_channel", Topic: "tZ", Channel: "x"},
		ProbeIn{Kind: "create_channel", Topic: "tA", Channel: "bad$"}, ProbeIn{Kind: "create_channel", Topic: "bad$", Channel: "x"},
		ProbeIn{Kind: "pause_topic", Topic: "tA"}, ProbeIn{Kind: "unpause_topic", Topic: "tA"}, ProbeIn{Kind: "pause_topic", Topic: "nope"},
		ProbeIn{Kind: "pause_channel", Topic: "tA", Channel: "x"}, ProbeIn{Kind: "unpause_channel", Topic: "tA", Channel: "x"},
		ProbeIn{Kind: "pause_channel", Topic: "tA", Channel: "nope"}, ProbeIn{Kind: "unpause_channel", Topic: "nope", Channel: "x"},
		ProbeIn{Kind: "empty_channel", Topic: "tA", Channel: "x"}, ProbeIn{Kind: "empty_channel", Topic: "tA", Channel: "sp@ce"},
		ProbeIn{Kind: "empty_topic", Topic: "tA"}, ProbeIn{Kind: "empty_topic", Topic: "nope"}, ProbeIn{Kind: "empty_topic", Topic: "bad$"},
		ProbeIn{Kind: "delete_channel", Topic: "tA", Channel: "x"}, ProbeIn{Kind: "delete_channel", Topic: "tA", Channel: "nope"},
		ProbeIn{Kind: "delete_topic", Topic: "tB"}, ProbeIn{Kind: "delete_topic", Topic: "nope"}, ProbeIn{Kind: "delete_topic", Topic: "bad$"},
		ProbeIn{Kind: "stats"})
	for i := range ps {
		ps[i].Listener = listener
	}
	return ps
}

// the state a daemon is given before the sweeps, through the in-process API: whatever its
// listeners refuse, there is something a request could delete, empty or add to
func seedState() []ProbeIn {
	return []ProbeIn{
		{Listener: "direct", Kind: "create", Topic: "tA"}, {Listener: "direct", Kind: "pub", Topic: "tA"},
		{Listener: "direct", Kind: "create_channel", Topic: "tA", Channel: "x"}, {Listener: "direct", Kind: "create", Topic: "tB"},
	}
}

// every startable option combination x {both HTTP listeners, no HTTPS address, no HTTP
// address}: seed state, every endpoint on the plaintext listener, every endpoint on the
// TLS listener, then the requests that would change the seeded state on the plaintext
// listener again.  A listener that does not exist gets three requests.
func httpMatrix() []CaseIn {
	var out []CaseIn
	for _, cfg := range validCfgs() {
		for _, ad := range [][2]bool{{false, false}, {false, true}, {true, false}} {
			c := cfg
			c.NoHTTP, c.NoHTTPS = ad[0], ad[1]
			ps := seedState()
			if c.NoHTTP {
				ps = append(ps, sweep("plain", false)[:3]...)
			} else {
				ps = append(ps, sweep("plain", mustRefusePlain(c))...)
			}
			if c.NoHTTPS || !c.HasCert {
				ps = append(ps, sweep("https", false)[:3]...)
			} else {
				ps = append(ps, seedState()...)
				ps = append(ps, sweep("https", false)...)
			}
			if !c.NoHTTP {
				ps = append(ps, seedState()...)
				ps = append(ps, ProbeIn{Listener: "plain", Kind: "delete_channel", Topic: "tA", Channel: "x"},
					ProbeIn{Listener: "plain", Kind: "delete_topic", Topic: "tB"}, ProbeIn{Listener: "plain", Kind: "pub", Topic: "tA"})
			}
			out = append(out, CaseIn{Kind: "http", Profile: "http-matrix", Cfg: c, Probes: ps})
		}
	}
	return out
}

var probeKinds = []string{"ping", "info", "stats", "nosuch", "badmethod", "config_get", "config_get_unknown", "config_put", "config_put_bad", "debug",
	"create", "create", "pub", "pub", "pub", "mpub", "mpub", "delete_topic", "delete_topic", "empty_topic", "pause_topic", "unpause_topic",
	"create_channel", "create_channel", "create_channel", "delete_channel", "delete_channel", "empty_channel", "pause_channel", "unpause_channel"}

// random requests against a random startable configuration with random listeners
func genHTTPCase(r *lib.Rand, k int) CaseIn {
	cfgs := validCfgs()
	cfg := cfgs[k%len(cfgs)]
	cfg.NoHTTPS = r.Chance(35)
	cfg.NoHTTP = r.Chance(10)
	refuse := mustRefusePlain(cfg)
	var ps []ProbeIn
	for i, m := 0, 6+r.Intn(10); i < m; i++ {
		p := ProbeIn{Listener: "plain", Kind: pickS(r, probeKinds)}
		switch x := r.Intn(100); {
		case x < 30:
			p.Listener = "https"
		case x < 50:
			p.Listener = "direct"
		}
		p.Topic = pickS(r, []string{"tA", "tA", "tB", "tC.x"})
		p.Channel = pickS(r, []string{"x", "x", "y"})
		switch p.Kind {
		case "mpub":
			p.N = 1 + r.Intn(4)
		case "debug":
			p.N = r.Intn(debugProfile) // never the CPU profile ...
			if refuse && p.Listener == "plain" && r.Chance(10) {
				p.N = debugProfile // ... but where it has to be refused
			}
		}
		if p.Listener == "direct" {
			// the in-process API has three calls, and validates nothing
			p.Kind = pickS(r, []string{"create", "pub", "create_channel"})
		} else {
			if r.Chance(8) {
				p.Topic = pickS(r, []string{"bad$", strings.Repeat("a", 65), "sp@ce"})
			}
			if r.Chance(8) {
				p.Channel = pickS(r, []string{"bad$", strings.Repeat("a", 65), "sp@ce"})
			}
		}
		ps = append(ps, p)
	}
	return CaseIn{Kind: "http", Profile: "http", Cfg: cfg, Probes: ps}
}

// every option combination (also those nsqd.New refuses) x the four address settings
func startCases() []CaseIn {
	var out []CaseIn
	for req := 0; req < 3; req++ {
		for _, cert := range []bool{false, true} {
			for _, pol := range []string{"", "require", "require-verify"} {
				for ad := 0; ad < 4; ad++ {
					out = append(out, CaseIn{Kind: "start", Profile: "start", Cfg: CfgIn{TLSRequired: req, HasCert: cert, Policy: pol, Method: "get", NoHTTP: ad&1 != 0, NoHTTPS: ad&2 != 0}})
				}
			}
		}
	}
	return out
}

// ------------------------------------------------------------------ main
func main() {
	n := flag.Int("n", 240, "number of connection cases")
	nhttp := flag.Int("http", 30, "number of HTTP cases")
	nreal := flag.Int("realttl", 6, "number of real-TTL cases")
	seed := flag.Uint64("seed", 1, "seed")
	out := flag.String("out", "", "output jsonl")
	replay := flag.String("replay", "", "replay file")
	workers := flag.Int("workers", 6, "parallel cases")
	flag.Parse()
	o := lib.NewOut(*out)
	defer o.Close()
	r := lib.NewRand(*seed)

	var ins []CaseIn
	var names []string
	if *replay != "" {
		lib.ReadReplay(*replay, &ins)
		for i := range ins {
			names = append(names, fmt.Sprintf("replay-%d", i))
		}
	} else {
		for k := 0; k < *nreal; k++ {
			ins = append(ins, CaseIn{Kind: "realttl", Profile: "realttl", Variant: k})
			names = append(names, fmt.Sprintf("realttl-%d", k))
		}
		for k := 0; k < *n; k++ {
			ins = append(ins, genConnCase(r.Fork(), k))
			names = append(names, fmt.Sprintf("conn-%d", k))
		}
		for k := 0; k < *nhttp; k++ {
			ins = append(ins, genHTTPCase(r.Fork(), k))
			names = append(names, fmt.Sprintf("http-%d", k))
		}
		for k, c := range httpMatrix() {
			ins = append(ins, c)
			names = append(names, fmt.Sprintf("httpmatrix-%d", k))
		}
		for k, c := range startCases() {
			ins = append(ins, c)
			names = append(names, fmt.Sprintf("start-%d", k))
		}
	}

	results := make([]result, len(ins))
	var wg sync.WaitGroup
	sem := make(chan struct{}, *workers)
	for i := range ins {
		wg.Add(1)
		sem <- struct{}{}
		go func(i int) {
			defer wg.Done()
			defer func() { <-sem }()
			results[i] = runCase(names[i], ins[i])
		}(i)
	}
	wg.Wait()
	dropped := map[string]int{}
	for _, res := range results {
		if res.c == nil {
			dropped[res.dropped]++
			continue
		}
		o.Emit(*res.c)
	}
	o.Stat("cases_dropped_by_timing_guard", dropped)
}
