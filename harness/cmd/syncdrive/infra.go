package main

// Infrastructure of syncdrive: real in-process nsqlookupd instances, a scriptable TCP
// proxy in front of each (the fault injector), an HTTP gate in front of a lookupd's HTTP
// interface, a real nsqd as a subprocess, and small HTTP / nsqd-protocol clients.

import (
	"bufio"
	"bytes"
	"encoding/binary"
	"encoding/json"
	"fmt"
	"io"
	"log"
	"net"
	"net/http"
	"net/url"
	"os"
	"os/exec"
	"path/filepath"
	"sort"
	"strings"
	"sync"
	"time"

	"github.com/nsqio/nsq/nsqlookupd"
)

var httpc = &http.Client{Timeout: 5 * time.Second}

// ---------------------------------------------------------------- real nsqlookupd
type lookupdInst struct {
	d    *nsqlookupd.NSQLookupd
	tcp  string
	http string
}

func startLookupd() (*lookupdInst, error) {
	opts := nsqlookupd.NewOptions()
	opts.Logger = log.New(io.Discard, "", 0)
	opts.LogLevel = 4
	opts.TCPAddress = "127.0.0.1:0"
	opts.HTTPAddress = "127.0.0.1:0"
	opts.BroadcastAddress = "127.0.0.1"
	portMu.Lock()
	d, err := nsqlookupd.New(opts)
	portMu.Unlock()
	if err != nil {
		return nil, err
	}
	go func() { _ = d.Main() }()
	return &lookupdInst{d: d, tcp: d.RealTCPAddr().String(), http: d.RealHTTPAddr().String()}, nil
}

func (l *lookupdInst) stop() { l.d.Exit() }

// ---------------------------------------------------------------- the fault-injecting proxy
type replyBeh struct {
	Kind  string // "stall" | "bytes" | "close"
	Bytes []byte
}

type proxy struct {
	mu           sync.Mutex
	ln           net.Listener
	addr         string
	upstream     string // "" = the nsqlookupd behind the proxy is down
	accept       []string
	reply        []replyBeh
	garbage      []byte              // non-nil: raw stub mode, every connection gets these bytes and is closed
	acceptAll    string              // "close": every new connection is accepted then closed (after the accept script)
	replyAll     *replyBeh           // non-nil: every reply is treated this way (after the reply script)
	identRewrite func([]byte) []byte // rewrites the body of the first reply of a connection (IDENTIFY)
	conns        map[net.Conn]struct{}
	nAccepted    int
	nFrames      int
	nInjected    int
	closed       bool
}

func newProxy() (*proxy, error) {
	portMu.Lock()
	ln, err := net.Listen("tcp", "127.0.0.1:0")
	portMu.Unlock()
	if err != nil {
		return nil, err
	}
	p := &proxy{ln: ln, addr: ln.Addr().String(), conns: map[net.Conn]struct{}{}}
	go p.acceptLoop(ln)
	return p, nil
}

func (p *proxy) acceptLoop(ln net.Listener) {
	for {
		c, err := ln.Accept()
		if err != nil {
			return
		}
		go p.handle(c)
	}
}

// refuseFor closes the listener (connection refused) and reopens it on the same port
// after d.
func (p *proxy) refuseFor(d time.Duration) {
	p.mu.Lock()
	ln := p.ln
	p.mu.Unlock()
	ln.Close()
	p.dropConns()
	time.Sleep(d)
	for i := 0; i < 1000; i++ {
		nl, err := net.Listen("tcp", p.addr)
		if err == nil {
			p.mu.Lock()
			closed := p.closed
			if !closed {
				p.ln = nl
			}
			p.mu.Unlock()
			if closed {
				nl.Close()
				return
			}
			go p.acceptLoop(nl)
			return
		}
		time.Sleep(10 * time.Millisecond)
	}
	lib_fatal("proxy: cannot re-listen on %s", p.addr)
}

func (p *proxy) dropConns() {
	p.mu.Lock()
	cs := make([]net.Conn, 0, len(p.conns))
	for c := range p.conns {
		cs = append(cs, c)
	}
	p.mu.Unlock()
	for _, c := range cs {
		c.Close()
	}
}

func (p *proxy) close() {
	p.mu.Lock()
	p.closed = true
	ln := p.ln
	p.mu.Unlock()
	ln.Close()
	p.dropConns()
}

func (p *proxy) setUpstream(a string) {
	p.mu.Lock()
	p.upstream = a
	p.mu.Unlock()
}
func (p *proxy) setAccept(s []string) {
	p.mu.Lock()
	p.accept = append([]string(nil), s...)
	p.mu.Unlock()
}
func (p *proxy) setReply(s []replyBeh) {
	p.mu.Lock()
	p.reply = append([]replyBeh(nil), s...)
	p.mu.Unlock()
}
func (p *proxy) pending() int {
	p.mu.Lock()
	defer p.mu.Unlock()
	return len(p.accept) + len(p.reply)
}
func (p *proxy) clearScripts() {
	p.mu.Lock()
	p.accept, p.reply = nil, nil
	p.mu.Unlock()
}

// persistent faults (until the end of the case)
func (p *proxy) setAcceptAll(k string) {
	p.mu.Lock()
	p.acceptAll = k
	p.mu.Unlock()
}
func (p *proxy) setReplyAll(b *replyBeh) {
	p.mu.Lock()
	p.replyAll = b
	p.mu.Unlock()
}

// stopListening: from now on every connection attempt is refused; open connections are cut
func (p *proxy) stopListening() {
	p.mu.Lock()
	ln := p.ln
	p.mu.Unlock()
	ln.Close()
	p.dropConns()
}
func (p *proxy) accepted() int { p.mu.Lock(); defer p.mu.Unlock(); return p.nAccepted }
func (p *proxy) frames() int   { p.mu.Lock(); defer p.mu.Unlock(); return p.nFrames }
func (p *proxy) injected() int { p.mu.Lock(); defer p.mu.Unlock(); return p.nInjected }
func (p *proxy) nConns() int   { p.mu.Lock(); defer p.mu.Unlock(); return len(p.conns) }

func (p *proxy) track(c net.Conn, on bool) {
	p.mu.Lock()
	if on {
		p.conns[c] = struct{}{}
	} else {
		delete(p.conns, c)
	}
	p.mu.Unlock()
}

func (p *proxy) handle(c net.Conn) {
	p.track(c, true)
	defer func() { c.Close(); p.track(c, false) }()
	p.mu.Lock()
	p.nAccepted++
	garbage := p.garbage
	var beh string
	if len(p.accept) > 0 {
		beh = p.accept[0]
		p.accept = p.accept[1:]
	} else if p.acceptAll != "" {
		beh = p.acceptAll
	}
	up := p.upstream
	p.mu.Unlock()
	if garbage != nil {
		// raw stub: wait for the first bytes, answer with garbage, linger a little, close
		c.SetReadDeadline(time.Now().Add(2 * time.Second))
		buf := make([]byte, 256)
		c.Read(buf)
		c.Write(garbage)
		time.Sleep(20 * time.Millisecond)
		return
	}
	if beh == "close" || up == "" {
		return
	}
	u, err := net.DialTimeout("tcp", up, time.Second)
	if err != nil {
		return
	}
	p.track(u, true)
	defer func() { u.Close(); p.track(u, false) }()
	done := make(chan struct{}, 2)
	go func() { io.Copy(u, c); u.Close(); done <- struct{}{} }()
	go func() {
		defer func() { c.Close(); done <- struct{}{} }()
		r := bufio.NewReader(u)
		first := true
		for {
			var hdr [4]byte
			if _, err := io.ReadFull(r, hdr[:]); err != nil {
				return
			}
			n := binary.BigEndian.Uint32(hdr[:])
			if n > 16<<20 {
				return
			}
			body := make([]byte, n)
			if _, err := io.ReadFull(r, body); err != nil {
				return
			}
			p.mu.Lock()
			p.nFrames++
			if first && p.identRewrite != nil {
				body = p.identRewrite(body)
				binary.BigEndian.PutUint32(hdr[:], uint32(len(body)))
			}
			first = false
			var b *replyBeh
			if len(p.reply) > 0 {
				x := p.reply[0]
				p.reply = p.reply[1:]
				b = &x
				p.nInjected++
			} else if p.replyAll != nil {
				x := *p.replyAll
				b = &x
				p.nInjected++
			}
			p.mu.Unlock()
			switch {
			case b == nil:
				c.Write(hdr[:])
				c.Write(body)
			case b.Kind == "bytes":
				c.Write(b.Bytes)
			case b.Kind == "stall":
				// withhold this reply; nsqd's one-second read deadline ends the exchange
			case b.Kind == "close":
				return
			}
		}
	}()
	<-done
}

// ---------------------------------------------------------------- HTTP gate (delays a lookupd's HTTP answers)
type httpGate struct {
	ln       net.Listener
	addr     string
	target   string
	mu       sync.Mutex
	hold     chan struct{} // non-nil: requests wait for it to be closed
	arrivals int
	mode     string // "" pass through | "500" | "garbage"
}

func newHTTPGate(target string) (*httpGate, error) {
	portMu.Lock()
	ln, err := net.Listen("tcp", "127.0.0.1:0")
	portMu.Unlock()
	if err != nil {
		return nil, err
	}
	g := &httpGate{ln: ln, addr: ln.Addr().String(), target: target}
	srv := &http.Server{Handler: http.HandlerFunc(g.serve)}
	go srv.Serve(ln)
	return g, nil
}

func (g *httpGate) serve(w http.ResponseWriter, r *http.Request) {
	g.mu.Lock()
	g.arrivals++
	h := g.hold
	g.mu.Unlock()
	_ = h
	mode := g.mode
	if h != nil {
		select {
		case <-h:
		case <-time.After(4 * time.Second):
		}
	}
	switch mode {
	case "500":
		w.WriteHeader(500)
		w.Write([]byte(`{"message":"INTERNAL_ERROR"}`))
		return
	case "garbage":
		w.WriteHeader(200)
		w.Write([]byte("\x00\xff not json {{{"))
		return
	}
	req, _ := http.NewRequest(r.Method, "http://"+g.target+r.URL.RequestURI(), r.Body)
	for k, v := range r.Header {
		req.Header[k] = v
	}
	resp, err := httpc.Do(req)
	if err != nil {
		w.WriteHeader(502)
		return
	}
	defer resp.Body.Close()
	for k, v := range resp.Header {
		w.Header()[k] = v
	}
	w.WriteHeader(resp.StatusCode)
	io.Copy(w, resp.Body)
}

func (g *httpGate) holdRequests() {
	g.mu.Lock()
	g.hold = make(chan struct{})
	g.mu.Unlock()
}
func (g *httpGate) release() {
	g.mu.Lock()
	if g.hold != nil {
		close(g.hold)
		g.hold = nil
	}
	g.mu.Unlock()
}
func (g *httpGate) arrived() int {
	g.mu.Lock()
	defer g.mu.Unlock()
	return g.arrivals
}
func (g *httpGate) close() { g.release(); g.ln.Close() }

// ---------------------------------------------------------------- nsqd as a subprocess
type nsqdProc struct {
	cmd    *exec.Cmd
	tcp    string
	http   string
	dir    string
	exited chan struct{}
	stderr *bytes.Buffer
	mu     sync.Mutex
}

// portMu serialises "pick a free port ... until the subprocess has bound it" against every
// other listener this process opens, so that a port found free is still free when nsqd binds it
var portMu sync.Mutex

func freePorts() (string, string) {
	l1, err := net.Listen("tcp", "127.0.0.1:0")
	if err != nil {
		lib_fatal("free port: %v", err)
	}
	l2, err := net.Listen("tcp", "127.0.0.1:0")
	if err != nil {
		lib_fatal("free port: %v", err)
	}
	a, b := l1.Addr().String(), l2.Addr().String()
	l1.Close()
	l2.Close()
	return a, b
}

func startNsqd(scratch string, lookupds []string, heartbeat time.Duration) (*nsqdProc, error) {
	bin := filepath.Join(os.Getenv("VERIF_BIN_DIR"), "nsqd")
	var lastErr error
	portMu.Lock()
	defer portMu.Unlock()
	for attempt := 0; attempt < 6; attempt++ {
		dir, err := os.MkdirTemp(scratch, "nsqd-")
		if err != nil {
			return nil, err
		}
		pt, ph := freePorts()
		n := &nsqdProc{tcp: pt, http: ph, dir: dir, exited: make(chan struct{}), stderr: &bytes.Buffer{}}
		args := []string{"-tcp-address", n.tcp, "-http-address", n.http, "-data-path", dir,
			"-broadcast-address", "127.0.0.1", "-log-level", "error", "-mem-queue-size", "100"}
		for _, l := range lookupds {
			args = append(args, "-lookupd-tcp-address", l)
		}
		n.cmd = exec.Command(bin, args...)
		n.cmd.Env = append(os.Environ(), "NSQ_VERIF_HEARTBEAT="+heartbeat.String())
		n.cmd.Stderr = &lockedWriter{w: n.stderr, mu: &n.mu}
		n.cmd.Stdout = io.Discard
		if err := n.cmd.Start(); err != nil {
			return nil, err
		}
		go func() { n.cmd.Wait(); close(n.exited) }()
		ok := false
		for i := 0; i < 400; i++ {
			select {
			case <-n.exited:
				i = 1000
				continue
			default:
			}
			if resp, err := httpc.Get("http://" + n.http + "/ping"); err == nil {
				resp.Body.Close()
				if resp.StatusCode == 200 {
					ok = true
					break
				}
			}
			time.Sleep(10 * time.Millisecond)
		}
		if ok {
			return n, nil
		}
		lastErr = fmt.Errorf("nsqd did not come up: %s", n.errText())
		n.kill()
	}
	return nil, lastErr
}

type lockedWriter struct {
	w  *bytes.Buffer
	mu *sync.Mutex
}

func (l *lockedWriter) Write(b []byte) (int, error) {
	l.mu.Lock()
	defer l.mu.Unlock()
	if l.w.Len() < 1<<16 {
		l.w.Write(b)
	}
	return len(b), nil
}

func (n *nsqdProc) errText() string {
	n.mu.Lock()
	defer n.mu.Unlock()
	s := n.stderr.String()
	if len(s) > 600 {
		s = s[len(s)-600:]
	}
	return s
}

// errContains: nsqd's log (level error) contains the text
func (n *nsqdProc) errContains(sub string) bool {
	n.mu.Lock()
	defer n.mu.Unlock()
	return strings.Contains(n.stderr.String(), sub)
}

func (n *nsqdProc) alive() bool {
	select {
	case <-n.exited:
		return false
	default:
	}
	for i := 0; i < 3; i++ {
		resp, err := httpc.Get("http://" + n.http + "/ping")
		if err == nil {
			resp.Body.Close()
			if resp.StatusCode == 200 {
				return true
			}
		}
		select {
		case <-n.exited:
			return false
		case <-time.After(20 * time.Millisecond):
		}
	}
	return false
}

func (n *nsqdProc) kill() {
	if n.cmd.Process != nil {
		n.cmd.Process.Kill()
	}
	select {
	case <-n.exited:
	case <-time.After(2 * time.Second):
	}
	os.RemoveAll(n.dir)
}

func (n *nsqdProc) tcpPort() int {
	_, p, _ := net.SplitHostPort(n.tcp)
	var v int
	fmt.Sscanf(p, "%d", &v)
	return v
}

// ---------------------------------------------------------------- HTTP helpers
func httpDo(method, u string, body []byte) (int, []byte, error) {
	req, err := http.NewRequest(method, u, bytes.NewReader(body))
	if err != nil {
		return 0, nil, err
	}
	resp, err := httpc.Do(req)
	if err != nil {
		return 0, nil, err
	}
	defer resp.Body.Close()
	b, _ := io.ReadAll(resp.Body)
	return resp.StatusCode, b, nil
}

func post(u string, body []byte) (int, error) {
	c, _, err := httpDo("POST", u, body)
	return c, err
}

// nsqd's current topics and channels, as sorted keys "T:t" / "C:t:c"
func nsqdLive(n *nsqdProc) ([]string, error) {
	code, b, err := httpDo("GET", "http://"+n.http+"/stats?format=json", nil)
	if err != nil || code != 200 {
		return nil, fmt.Errorf("stats: %v %d", err, code)
	}
	var st struct {
		Topics []struct {
			Name     string `json:"topic_name"`
			Channels []struct {
				Name  string `json:"channel_name"`
				Depth int64  `json:"depth"`
			} `json:"channels"`
		} `json:"topics"`
	}
	if err := json.Unmarshal(b, &st); err != nil {
		return nil, err
	}
	var keys []string
	for _, t := range st.Topics {
		keys = append(keys, "T:"+t.Name)
		for _, c := range t.Channels {
			keys = append(keys, "C:"+t.Name+":"+c.Name)
		}
	}
	sort.Strings(keys)
	return keys, nil
}

// this producer's registrations at a lookupd, from /debug (exact, per producer)
func lookupdRegs(httpAddr string, tcpPort int) ([]string, error) {
	code, b, err := httpDo("GET", "http://"+httpAddr+"/debug", nil)
	if err != nil || code != 200 {
		return nil, fmt.Errorf("debug: %v %d", err, code)
	}
	var db map[string][]struct {
		TCPPort int    `json:"tcp_port"`
		Addr    string `json:"broadcast_address"`
	}
	if err := json.Unmarshal(b, &db); err != nil {
		return nil, err
	}
	set := map[string]bool{}
	for k, ps := range db {
		for _, p := range ps {
			if p.TCPPort != tcpPort {
				continue
			}
			parts := strings.SplitN(k, ":", 3)
			if len(parts) != 3 {
				continue
			}
			switch parts[0] {
			case "topic":
				set["T:"+parts[1]] = true
			case "channel":
				set["C:"+parts[1]+":"+parts[2]] = true
			}
		}
	}
	keys := make([]string, 0, len(set))
	for k := range set {
		keys = append(keys, k)
	}
	sort.Strings(keys)
	return keys, nil
}

// the same information through the public endpoints: /nodes (topics of this producer),
// /lookup (is it a producer of t, which channels are known), /channels
func lookupdPublicView(httpAddr string, tcpPort int, topics []string) (nodeTopics []string, producerOf []string, chans map[string][]string) {
	chans = map[string][]string{}
	if code, b, err := httpDo("GET", "http://"+httpAddr+"/nodes", nil); err == nil && code == 200 {
		var r struct {
			Producers []struct {
				TCPPort int      `json:"tcp_port"`
				Topics  []string `json:"topics"`
			} `json:"producers"`
		}
		if json.Unmarshal(b, &r) == nil {
			for _, p := range r.Producers {
				if p.TCPPort == tcpPort {
					nodeTopics = append(nodeTopics, p.Topics...)
				}
			}
		}
	}
	for _, t := range topics {
		if code, b, err := httpDo("GET", "http://"+httpAddr+"/lookup?topic="+url.QueryEscape(t), nil); err == nil && code == 200 {
			var r struct {
				Channels  []string `json:"channels"`
				Producers []struct {
					TCPPort int `json:"tcp_port"`
				} `json:"producers"`
			}
			if json.Unmarshal(b, &r) == nil {
				for _, p := range r.Producers {
					if p.TCPPort == tcpPort {
						producerOf = append(producerOf, t)
					}
				}
				chans[t] = r.Channels
			}
		}
	}
	sort.Strings(nodeTopics)
	sort.Strings(producerOf)
	return
}

// ---------------------------------------------------------------- a minimal nsqd consumer (protocol V2)
func consume(tcpAddr, topic, channel string, want int, deadline time.Duration) ([]string, error) {
	return consumeUntil(tcpAddr, topic, channel, want, "", deadline)
}

// consumeUntil reads (and FINs) messages until `want` have arrived, or, when until != "",
// until a message with that body has arrived (earlier backlog is drained).
func consumeUntil(tcpAddr, topic, channel string, want int, until string, deadline time.Duration) ([]string, error) {
	c, err := net.DialTimeout("tcp", tcpAddr, time.Second)
	if err != nil {
		return nil, err
	}
	defer c.Close()
	c.SetDeadline(time.Now().Add(deadline))
	w := bufio.NewWriter(c)
	w.WriteString("  V2")
	fmt.Fprintf(w, "SUB %s %s\n", topic, channel)
	fmt.Fprintf(w, "RDY %d\n", 1)
	if err := w.Flush(); err != nil {
		return nil, err
	}
	r := bufio.NewReader(c)
	var got []string
	for {
		if until == "" && len(got) >= want {
			break
		}
		var hdr [8]byte
		if _, err := io.ReadFull(r, hdr[:]); err != nil {
			return got, err
		}
		size := binary.BigEndian.Uint32(hdr[:4])
		ft := binary.BigEndian.Uint32(hdr[4:])
		if size < 4 || size > 1<<22 {
			return got, fmt.Errorf("bad frame size %d", size)
		}
		body := make([]byte, size-4)
		if _, err := io.ReadFull(r, body); err != nil {
			return got, err
		}
		switch ft {
		case 0: // response
			if string(body) == "_heartbeat_" {
				c.Write([]byte("NOP\n"))
			}
		case 1:
			return got, fmt.Errorf("error frame %q", body)
		case 2:
			if len(body) < 26 {
				return got, fmt.Errorf("short message")
			}
			id := body[10:26]
			got = append(got, string(body[26:]))
			c.Write(append(append([]byte("FIN "), id...), '\n'))
			if until != "" && string(body[26:]) == until {
				c.Write([]byte("CLS\n"))
				return got, nil
			}
			c.Write([]byte("RDY 1\n"))
		}
	}
	c.Write([]byte("CLS\n"))
	return got, nil
}

func lib_fatal(format string, a ...interface{}) {
	fmt.Fprintf(os.Stderr, "HARNESS-ERROR: "+format+"\n", a...)
	os.Exit(3)
}
