package main

// The other case families of syncdrive: the byte-level reader (Rrb), channel
// pre-creation with the first message (Precreate), and the K6 schedule (delete +
// re-create with the two notifications served in inverted order) on an in-process nsqd.

import (
	"bufio"
	"encoding/binary"
	"encoding/json"
	"fmt"
	"io"
	"net"
	"sort"
	"strings"
	"sync"
	"time"

	"github.com/nsqio/nsq/nsqd"
	"verifharness/lib"
	"verifharness/nsqdlib"
)

// ---------------------------------------------------------------- readResponseBounded
type rrbInput struct {
	Kind  string `json:"kind"` // "rrb"
	Limit int64  `json:"limit"`
	Bytes []byte `json:"bytes"`
	Class string `json:"class"`
}

func emitRrb(o *lib.Out, name string, in rrbInput) {
	resp, unread, errored, panicked := nsqd.VerifReadResponseBounded(in.Bytes, in.Limit)
	code := 0
	if errored {
		code = 1
	}
	if panicked {
		code = 2
	}
	o.Emit(lib.Case{Name: name,
		Coq:   fmt.Sprintf("(J16.Rrb %s %s %d %s %d%%nat)", lib.CoqZ(in.Limit), lib.CoqBytes(in.Bytes), code, lib.CoqBytes(resp), unread),
		Input: in, Tags: []string{"kind=rrb", "prefix=" + in.Class, fmt.Sprintf("outcome=%d", code), limitTag(in.Limit)},
		Nontrivial: true, Obs: map[string]interface{}{"code": code, "unread": unread, "len": len(resp)}})
}

func limitTag(l int64) string {
	switch l {
	case 0, 16, 100, 1 << 20, 5242880:
		return fmt.Sprintf("limit=%d", l)
	}
	return "limit=random-below-60"
}

func genRrb(o *lib.Out, r *lib.Rand, n int) {
	limits := []int64{5242880, 5242880, 16, 100, 1 << 20, 0}
	for k := 0; k < n; k++ {
		limit := limits[r.Intn(len(limits))]
		var b []byte
		class := ""
		put := func(v uint32) { b = binary.BigEndian.AppendUint32(b, v) }
		switch r.Intn(12) {
		case 0:
			class = "truncated-prefix"
			b = r.Bytes(r.Intn(4))
		case 1:
			class = "negative-min"
			put(0x80000000)
			b = append(b, r.Bytes(r.Intn(8))...)
		case 2:
			class = "negative-minus-one"
			put(0xffffffff)
			b = append(b, r.Bytes(r.Intn(8))...)
		case 3:
			class = "negative-random"
			put(0x80000000 | uint32(r.U64()))
			b = append(b, r.Bytes(r.Intn(8))...)
		case 4:
			class = "zero"
			put(0)
			b = append(b, r.Bytes(r.Intn(5))...)
		case 5:
			class = "exact"
			m := r.Intn(40)
			put(uint32(m))
			b = append(b, r.Bytes(m)...)
		case 6:
			class = "with-trailing-bytes"
			m := r.Intn(30)
			put(uint32(m))
			b = append(b, r.Bytes(m+1+r.Intn(20))...)
		case 7:
			class = "short-body"
			m := 1 + r.Intn(60)
			put(uint32(m))
			b = append(b, r.Bytes(r.Intn(m))...)
		case 8:
			class = "at-limit"
			if limit > 200 {
				limit = int64(r.Intn(60))
			}
			put(uint32(limit))
			b = append(b, r.Bytes(int(limit)+r.Intn(3))...)
		case 9:
			class = "limit-plus-one"
			if limit > 200 {
				limit = int64(r.Intn(60))
			}
			put(uint32(limit + 1))
			b = append(b, r.Bytes(int(limit)+1+r.Intn(3))...)
		case 10:
			class = "oversized"
			put(uint32(limit) + 1 + uint32(r.Intn(1<<20)))
			b = append(b, r.Bytes(r.Intn(10))...)
		default:
			class = "max-int32-region"
			put(0x0fffffff - uint32(r.Intn(100)))
			b = append(b, r.Bytes(r.Intn(10))...)
		}
		emitRrb(o, fmt.Sprintf("rrb-%d", k), rrbInput{Kind: "rrb", Limit: limit, Bytes: b, Class: class})
	}
}

// ---------------------------------------------------------------- pre-creation
type preInput struct {
	Kind       string `json:"kind"` // "precreate"
	T          int    `json:"t"`
	Known      []int  `json:"known"`
	Concurrent bool   `json:"concurrent"`
	// a second nsqlookupd B: "" none | "healthy" | "down" (stopped after the handshake) |
	// "500" | "garbage" (its HTTP /channels answers badly) | "removed" (taken out of nsqd's list by
	// PUT /config/nsqlookupd_tcp_addresses before the creation: must NOT be asked) | "added" (put into
	// the list at run time) | "restarted" (new process, new ports, behind the same TCP address; it
	// learns KnownB after the restart); KnownB = what B knows
	BMode  string `json:"b_mode,omitempty"`
	KnownB []int  `json:"known_b,omitempty"`
	// the state of the nsqd -> nsqlookupd TCP connection of A / B at the moment of the creation, while
	// the nsqlookupd's HTTP interface stays healthy: "" connected | "refuse" (cut, reconnects refused) |
	// "acceptclose" (cut, reconnects accepted then closed) | "stall" (every reply withheld: nsqd's 1 s
	// read deadline) | "neg" (every reply replaced by a negative length prefix)
	TCPA string `json:"tcp_a,omitempty"`
	TCPB string `json:"tcp_b,omitempty"`
}

var tcpKinds = []string{"refuse", "acceptclose", "stall", "neg"}

func tcpCode(k string) int {
	for i, x := range tcpKinds {
		if x == k {
			return i + 1
		}
	}
	return 0
}

// the fixed part of the pre-creation matrix (run on every check, whatever the seed): connection
// state of the only nsqlookupd x every TCP fault; second nsqlookupd x its HTTP behaviour; TCP
// fault on the second one / on both; run-time changes of the list
var preMatrix = []preInput{
	{},
	{Concurrent: true},
	{TCPA: "refuse"},
	{TCPA: "acceptclose"},
	{TCPA: "stall"},
	{TCPA: "neg"},
	{BMode: "down"},
	{BMode: "500", Concurrent: true},
	{BMode: "garbage"},
	{BMode: "healthy", Concurrent: true},
	{BMode: "healthy", TCPB: "refuse"},
	{BMode: "healthy", TCPB: "acceptclose"},
	{BMode: "healthy", TCPB: "stall"},
	{BMode: "healthy", TCPB: "neg"},
	{BMode: "healthy", TCPA: "refuse", TCPB: "acceptclose"},
	{BMode: "removed"},
	{BMode: "added"},
	{BMode: "restarted"},
	{BMode: "added", TCPB: "refuse"},
	{BMode: "500", TCPA: "acceptclose"},
	{TCPA: "refuse", Concurrent: true},
	{BMode: "restarted", TCPB: "refuse"},
}

func genPrecreate(r *lib.Rand, k int) preInput {
	var in preInput
	if k < len(preMatrix) {
		in = preMatrix[k]
	} else {
		modes := []string{"", "down", "500", "garbage", "healthy", "removed", "added", "restarted", "healthy"}
		in.BMode = modes[r.Intn(len(modes))]
		in.Concurrent = r.Chance(40)
		if r.Chance(60) {
			in.TCPA = tcpKinds[r.Intn(len(tcpKinds))]
		}
		if (in.BMode == "healthy" || in.BMode == "added" || in.BMode == "restarted") && r.Chance(60) {
			in.TCPB = tcpKinds[r.Intn(len(tcpKinds))]
		}
	}
	in.Kind = "precreate"
	in.T = r.Intn(4)
	seen := map[int]bool{}
	for i := 0; i < 2+r.Intn(5); i++ {
		c := r.Intn(10)
		if !seen[c] {
			seen[c] = true
			in.Known = append(in.Known, c)
		}
	}
	if in.Concurrent { // make sure several non-ephemeral channels exist
		for _, c := range []int{0, 2, 4, 6} {
			if !seen[c] {
				seen[c] = true
				in.Known = append(in.Known, c)
			}
		}
	}
	has := false
	for _, c := range in.Known {
		if c%2 == 0 {
			has = true
		}
	}
	if !has {
		in.Known = append(in.Known, 2)
	}
	if in.BMode != "" {
		seenB := map[int]bool{}
		for i := 0; i < 1+r.Intn(3); i++ {
			c := 10 + r.Intn(8)
			if !seenB[c] {
				seenB[c] = true
				in.KnownB = append(in.KnownB, c)
			}
		}
		in.KnownB = append(in.KnownB, 18) // at least one non-ephemeral channel only B knows
	}
	return in
}

func rewriteHTTPPort(addr string) func([]byte) []byte {
	_, gport, _ := net.SplitHostPort(addr)
	return func(body []byte) []byte {
		var m map[string]interface{}
		if json.Unmarshal(body, &m) != nil {
			return body
		}
		var p int
		fmt.Sscanf(gport, "%d", &p)
		m["http_port"] = p
		nb, _ := json.Marshal(m)
		return nb
	}
}

// waitFor polls an exact condition (never a bare sleep as a synchronisation)
func waitFor(d time.Duration, cond func() bool) bool {
	dl := time.Now().Add(d)
	for {
		if cond() {
			return true
		}
		if time.Now().After(dl) {
			return false
		}
		time.Sleep(5 * time.Millisecond)
	}
}

// identified: nsqd has read this nsqlookupd's IDENTIFY reply on a connection opened after the
// counters were sampled (f0): the lookup loop is sequential, so a second reply frame (the first
// PING, or a REGISTER) passing the proxy means connectCallback has stored the peer info
func identified(px *proxy, f0 int) bool { return px.frames() >= f0+2 }

// applyTCPFault breaks the nsqd -> nsqlookupd TCP connection behind px (the nsqlookupd's HTTP
// interface is untouched) and waits until nsqd has noticed.  Returns whether that was observed.
func applyTCPFault(px *proxy, n *nsqdProc, kind string) bool {
	a0 := px.accepted()
	switch kind {
	case "refuse":
		// cut; the first reconnect is accepted-then-closed (so that it can be observed: nsqd only
		// dials when the peer is in stateDisconnected), every later one is refused
		px.setAcceptAll("close")
		px.dropConns()
		seen := waitFor(6*time.Second, func() bool { return px.accepted() > a0 })
		px.stopListening()
		// from here on Connect() fails: the peer can never leave stateDisconnected again
		refused := waitFor(3*time.Second, func() bool { return n.errContains(px.addr + ": connect: connection refused") })
		return seen && refused
	case "acceptclose":
		px.setAcceptAll("close")
		px.dropConns()
		return waitFor(6*time.Second, func() bool { return px.accepted() >= a0+2 })
	case "stall":
		i0 := px.injected()
		px.setReplyAll(&replyBeh{Kind: "stall"})
		return waitFor(6*time.Second, func() bool { return px.injected() > i0 })
	case "neg":
		px.setReplyAll(&replyBeh{Kind: "bytes", Bytes: []byte{0xff, 0xff, 0xff, 0xff}})
		return waitFor(6*time.Second, func() bool { return px.accepted() >= a0+2 })
	}
	return true
}

func emitPrecreate(o *lib.Out, name string, in preInput, scratch string) {
	nl := 1
	if in.BMode != "" {
		nl = 2
	}
	lds := make([]*lookupdInst, nl)
	pxs := make([]*proxy, nl)
	gates := make([]*httpGate, nl)
	var addrs []string
	for a := 0; a < nl; a++ {
		ld, err := startLookupd()
		if err != nil {
			lib.Fatalf("lookupd: %v", err)
		}
		lds[a] = ld
		px, err := newProxy()
		if err != nil {
			lib.Fatalf("proxy: %v", err)
		}
		defer px.close()
		px.setUpstream(ld.tcp)
		pxs[a] = px
		addrs = append(addrs, px.addr)
		needGate := (a == 0 && in.Concurrent) || (a == 1 && (in.BMode == "500" || in.BMode == "garbage"))
		if needGate {
			g, err := newHTTPGate(ld.http)
			if err != nil {
				lib.Fatalf("gate: %v", err)
			}
			defer g.close()
			gates[a] = g
			px.mu.Lock()
			px.identRewrite = rewriteHTTPPort(g.addr)
			px.mu.Unlock()
		}
	}
	defer func() {
		for _, l := range lds {
			if l != nil {
				l.stop()
			}
		}
	}()
	initAddrs := addrs
	if in.BMode == "added" {
		initAddrs = addrs[:1]
	}
	n, err := startNsqd(scratch, initAddrs, heartbeat)
	if err != nil {
		lib.Fatalf("nsqd: %v", err)
	}
	defer n.kill()
	reconf := func(as []string) {
		b, _ := json.Marshal(as)
		if code, _, err := httpDo("PUT", "http://"+n.http+"/config/nsqlookupd_tcp_addresses", b); err != nil || code != 200 {
			lib.Fatalf("%s: PUT /config/nsqlookupd_tcp_addresses: %v %d", name, err, code)
		}
	}
	// wait until nsqd has read every IDENTIFY reply (it then knows the lookupds' HTTP addresses)
	for a := range initAddrs {
		px := pxs[a]
		waitFor(8*time.Second, func() bool { return identified(px, 0) })
	}
	if in.BMode == "added" {
		reconf(addrs)
		if !waitFor(8*time.Second, func() bool { return identified(pxs[1], 0) }) {
			lib.Fatalf("%s: nsqd never identified with the nsqlookupd added at run time", name)
		}
	}
	if in.BMode == "restarted" {
		// a new nsqlookupd process (empty registry, new TCP and HTTP ports) behind the same TCP address
		pxs[1].setUpstream("")
		lds[1].stop()
		lds[1] = nil
		pxs[1].dropConns()
		l, err := startLookupd()
		if err != nil {
			lib.Fatalf("lookupd: %v", err)
		}
		lds[1] = l
		f0 := pxs[1].frames()
		pxs[1].setUpstream(l.tcp)
		if !waitFor(8*time.Second, func() bool { return identified(pxs[1], f0) }) {
			lib.Fatalf("%s: nsqd never re-identified with the restarted nsqlookupd", name)
		}
	}
	for _, c := range in.Known {
		post("http://"+lds[0].http+"/channel/create?topic="+tname(in.T)+"&channel="+urlq(cname(c)), nil)
	}
	if nl == 2 {
		for _, c := range in.KnownB {
			post("http://"+lds[1].http+"/channel/create?topic="+tname(in.T)+"&channel="+urlq(cname(c)), nil)
		}
		switch in.BMode {
		case "down":
			pxs[1].setUpstream("")
			lds[1].stop()
			lds[1] = nil
			pxs[1].dropConns()
		case "500", "garbage":
			gates[1].mu.Lock()
			gates[1].mode = in.BMode
			gates[1].mu.Unlock()
		case "removed":
			// B leaves nsqd's list.  The loop closes B's peer, then (next iteration) publishes the new
			// list, then goes back to its select: a reply frame on A's link that is counted after B's
			// connection has gone belongs to an iteration after the publication
			reconf(addrs[:1])
			if !waitFor(8*time.Second, func() bool { return pxs[1].nConns() == 0 }) {
				lib.Fatalf("%s: nsqd never closed the connection to the removed nsqlookupd", name)
			}
			f0 := pxs[0].frames()
			if !waitFor(8*time.Second, func() bool { return pxs[0].frames() > f0 }) {
				lib.Fatalf("%s: no heartbeat on the remaining nsqlookupd after the reconfiguration", name)
			}
		}
	}
	// the TCP side of the links, with the nsqlookupds' HTTP interfaces left alone
	faultSeen := true
	if in.TCPA != "" {
		faultSeen = applyTCPFault(pxs[0], n, in.TCPA) && faultSeen
	}
	if in.TCPB != "" && nl == 2 {
		faultSeen = applyTCPFault(pxs[1], n, in.TCPB) && faultSeen
	}
	pubBok := true
	var pubBms int64
	first := 1
	if in.Concurrent {
		gate := gates[0]
		first = 2
		gate.holdRequests()
		var wg sync.WaitGroup
		wg.Add(1)
		go func() {
			defer wg.Done()
			post("http://"+n.http+"/pub?topic="+tname(in.T), []byte("1"))
		}()
		// the creator is now inside GetTopic, waiting for the lookupd's answer
		dl := time.Now().Add(5 * time.Second)
		for gate.arrived() == 0 && time.Now().Before(dl) {
			time.Sleep(5 * time.Millisecond)
		}
		t0 := time.Now()
		code, err := post("http://"+n.http+"/pub?topic="+tname(in.T), []byte("2"))
		pubBms = time.Since(t0).Milliseconds()
		pubBok = err == nil && code == 200 && gate.arrived() >= 1 && pubBms < 1500
		gate.release()
		wg.Wait()
	} else {
		post("http://"+n.http+"/pub?topic="+tname(in.T), []byte("1"))
	}
	live, _ := nsqdLive(n)
	var created []int
	for _, k := range live {
		var t, c int
		if _, err := fmt.Sscanf(strings.TrimSuffix(k, "#ephemeral"), "C:t%d:c%d", &t, &c); err == nil && t == in.T {
			created = append(created, c)
		}
	}
	sort.Ints(created)
	want := 1
	if in.Concurrent {
		want = 2
	}
	var queues []string
	obsQ := map[string][]string{}
	for _, c := range created {
		got, _ := consume(n.tcp, tname(in.T), cname(c), want, 3*time.Second)
		obsQ[cname(c)] = got
		queues = append(queues, fmt.Sprintf("(%d, %s)", c, lib.CoqList(got)))
	}
	ints := func(xs []int) string {
		parts := make([]string, len(xs))
		for i, c := range xs {
			parts[i] = fmt.Sprint(c)
		}
		return lib.CoqList(parts)
	}
	bmode := map[string]int{"": 0, "healthy": 1, "down": 2, "500": 2, "garbage": 2, "removed": 3, "added": 4, "restarted": 5}[in.BMode]
	tcpB := in.TCPB
	if nl == 1 {
		tcpB = ""
	}
	alive := n.alive()
	none := func(s string) string {
		if s == "" {
			return "none"
		}
		return s
	}
	o.Emit(lib.Case{Name: name,
		Coq: fmt.Sprintf("(J16.Precreate %d %s %d %s %d %d %s %s %s %d %s)", in.T, ints(in.Known), bmode, ints(in.KnownB),
			tcpCode(in.TCPA), tcpCode(tcpB), lib.CoqBool(in.Concurrent),
			ints(created), lib.CoqList(queues), first, lib.CoqBool(pubBok && alive)),
		Input: in, Tags: []string{"kind=precreate", fmt.Sprintf("concurrent-publisher=%v", in.Concurrent), fmt.Sprintf("known=%d", len(in.Known)),
			"second-lookupd=" + none(in.BMode), "tcp-conn-A=" + none(in.TCPA), "tcp-conn-B=" + none(tcpB),
			fmt.Sprintf("tcp-fault-observed=%v", faultSeen)},
		Nontrivial: true, Obs: map[string]interface{}{"created": created, "queues": obsQ, "second_publisher_ms": pubBms,
			"tcp_fault_noticed_by_nsqd": faultSeen}})
}

// ---------------------------------------------------------------- K6 on an in-process nsqd
func emitK6(o *lib.Out, scratch string) {
	ld, err := startLookupd()
	if err != nil {
		lib.Fatalf("lookupd: %v", err)
	}
	defer ld.stop()
	opts := nsqdlib.NewOpts(scratch)
	opts.NSQLookupdTCPAddresses = []string{ld.tcp}
	n, err := nsqdlib.Start(opts)
	if err != nil {
		lib.Fatalf("nsqd: %v", err)
	}
	defer n.Exit()
	port := n.RealTCPAddr().(*net.TCPAddr).Port
	waitRegs := func(want []string, d time.Duration) []string {
		dl := time.Now().Add(d)
		var regs []string
		for {
			regs, _ = lookupdRegs(ld.http, port)
			if eqStrings(regs, want) || time.Now().After(dl) {
				return regs
			}
			time.Sleep(10 * time.Millisecond)
		}
	}
	waitDone := func(k int) {
		dl := time.Now().Add(8 * time.Second)
		for nsqd.VerifHits("notify:done") < k && time.Now().Before(dl) {
			time.Sleep(5 * time.Millisecond)
		}
	}
	base := nsqd.VerifHits("notify:done")
	n.GetTopic("t0")
	waitDone(base + 1) // the creation's Notify goroutine has been served and has finished
	waitRegs([]string{"T:t0"}, 5*time.Second)
	// the deletion's Notify goroutine is parked just before it offers the OLD topic to the loop
	reached, release := nsqd.VerifArmPark("notify:before-send", 1)
	n.DeleteExistingTopic("t0")
	select {
	case <-reached:
	case <-time.After(5 * time.Second):
		lib.Fatalf("k6: the deletion's Notify goroutine never reached the point")
	}
	n.GetTopic("t0")   // the NEW topic's notification is served first: REGISTER t0
	waitDone(base + 2) // (the parked goroutine cannot be the one that finished)
	release()          // now the OLD topic's: it is exiting, so UNREGISTER t0
	waitDone(base + 3)
	// give the loop many heartbeats: a PING never re-registers
	t0 := time.Now()
	regs := waitRegs([]string{"T:t0"}, 15*heartbeat)
	ticks := float64(time.Since(t0)) / float64(heartbeat)
	live := []string{}
	if _, err := n.GetExistingTopic("t0"); err == nil {
		live = append(live, "T:t0")
	}
	ops := []string{"Reconfigure [0%nat]", "Tick", "Tick", "TopicCreate 0", "TopicAdvance 0", "TopicAdvance 0", "Deliver 0%nat",
		"TopicDeleteBegin 0", "TopicDeleteEnd 0", "TopicCreate 0", "TopicAdvance 0", "TopicAdvance 0",
		"Deliver 1%nat", "Deliver 0%nat"}
	ops = append(ops, repeatOp("Tick", 10)...)
	ph := fmt.Sprintf("(J16.mkPhase %s [true] [true] [%s] %s true true)", lib.CoqList(ops), coqKeys(regs), coqKeys(live))
	o.Emit(lib.Case{Name: "k6-delete-recreate-inverted", Coq: "(J16.Scenario [" + ph + "])",
		Input: map[string]interface{}{"kind": "k6"},
		Tags:  []string{"kind=k6", "kf=K6", fmt.Sprintf("stale=%v", !eqStrings(regs, live))}, Nontrivial: true,
		Obs: map[string]interface{}{"lookupd_registrations": regs, "nsqd_live": live, "ticks_waited": ticks,
			"schedule": "GetTopic(t0); [arm park at notify:before-send]; DeleteExistingTopic(t0) -> its Notify goroutine parks; GetTopic(t0) -> new topic's notification served (REGISTER t0); release -> old topic's notification served, old.Exiting() -> UNREGISTER t0; 15 heartbeats later the lookupd still does not list this nsqd for t0"}})
}

// ---------------------------------------------------------------- K6b on an in-process nsqd
// A reconnect inside a topic deletion: DeleteExistingTopic has run topic.Delete() (exit flag
// set, UNREGISTER served) but has not yet removed the topic from n.topicMap when the peer
// reconnects.  Before fix 342c6f2 connectCallback registered the dying topic again and nothing
// unregistered it afterwards; it now skips Exiting() objects.  Kept as a regression witness:
// the registrations must equal the live set.
func emitK6b(o *lib.Out, scratch string) {
	ld, err := startLookupd()
	if err != nil {
		lib.Fatalf("lookupd: %v", err)
	}
	defer ld.stop()
	px, err := newProxy()
	if err != nil {
		lib.Fatalf("proxy: %v", err)
	}
	defer px.close()
	px.setUpstream(ld.tcp)
	opts := nsqdlib.NewOpts(scratch)
	opts.NSQLookupdTCPAddresses = []string{px.addr}
	n, err := nsqdlib.Start(opts)
	if err != nil {
		lib.Fatalf("nsqd: %v", err)
	}
	defer n.Exit()
	port := n.RealTCPAddr().(*net.TCPAddr).Port
	waitRegs := func(want []string, d time.Duration) []string {
		dl := time.Now().Add(d)
		var regs []string
		for {
			regs, _ = lookupdRegs(ld.http, port)
			if eqStrings(regs, want) || time.Now().After(dl) {
				return regs
			}
			time.Sleep(10 * time.Millisecond)
		}
	}
	n.GetTopic("t0")
	n.GetTopic("t1")
	waitRegs([]string{"T:t0", "T:t1"}, 5*time.Second)
	// the deleting goroutine is parked between topic.Delete() and delete(n.topicMap, name)
	reached, release := nsqd.VerifArmPark("delete-topic:before-remove", 1)
	delDone := make(chan struct{})
	go func() { n.DeleteExistingTopic("t0"); close(delDone) }()
	select {
	case <-reached:
	case <-time.After(5 * time.Second):
		lib.Fatalf("k6b: DeleteExistingTopic never reached the point")
	}
	waitRegs([]string{"T:t1"}, 5*time.Second) // the UNREGISTER of t0 has been served
	// the connection is cut; the next heartbeat notices, the one after reconnects and
	// connectCallback re-registers everything in the maps
	accepted := func() int { px.mu.Lock(); defer px.mu.Unlock(); return px.nAccepted }
	a0 := accepted()
	px.dropConns()
	dl := time.Now().Add(5 * time.Second)
	for accepted() == a0 && time.Now().Before(dl) {
		time.Sleep(5 * time.Millisecond)
	}
	during := waitRegs([]string{"T:t1"}, 3*time.Second) // (before the fix: t0 came back here)
	time.Sleep(3 * heartbeat)                           // let a few more heartbeats pass while the deletion is still parked
	release()
	<-delDone
	t0 := time.Now()
	regs := waitRegs([]string{"T:t1"}, 15*heartbeat)
	ticks := float64(time.Since(t0)) / float64(heartbeat)
	live := []string{}
	for _, t := range []string{"t0", "t1"} {
		if _, err := n.GetExistingTopic(t); err == nil {
			live = append(live, "T:"+t)
		}
	}
	ops := []string{"Reconfigure [0%nat]", "Tick", "Tick", "TopicCreate 0", "TopicAdvance 0", "TopicAdvance 0", "Deliver 0%nat",
		"TopicCreate 1", "TopicAdvance 1", "TopicAdvance 1", "Deliver 0%nat",
		"TopicDeleteBegin 0", "Deliver 0%nat", "FReply 0%nat [RClose]", "Tick", "Tick", "TopicDeleteEnd 0"}
	ops = append(ops, repeatOp("Tick", 10)...)
	ph := fmt.Sprintf("(J16.mkPhase %s [true] [true] [%s] %s true true)", lib.CoqList(ops), coqKeys(regs), coqKeys(live))
	o.Emit(lib.Case{Name: "k6b-reconnect-inside-topic-deletion", Coq: "(J16.Scenario [" + ph + "])",
		Input: map[string]interface{}{"kind": "k6b"},
		Tags:  []string{"kind=k6b", fmt.Sprintf("stale=%v", !eqStrings(regs, live))}, Nontrivial: true,
		Obs: map[string]interface{}{"lookupd_registrations": regs, "nsqd_live": live, "registrations_while_parked": during, "ticks_waited": ticks,
			"schedule": "GetTopic(t0); GetTopic(t1); [arm park at delete-topic:before-remove]; DeleteExistingTopic(t0) parks after topic.Delete() (UNREGISTER t0 served, t0 still in n.topicMap); the lookupd connection is cut; heartbeat 1: PING fails, peer closed; heartbeat 2: reconnect, connectCallback must skip t0 (exiting, still mapped) and register t1; release: t0 leaves the map"}})
}

// ---------------------------------------------------------------- K6c on an in-process nsqd
// A reconnect inside the deletion of a topic's ONLY channel: DeleteExistingChannel has run
// channel.Delete() (exit flag set, UNREGISTER served) but has not yet removed the channel from
// t.channelMap.  connectCallback must skip the channel AND still register the bare topic.
func emitK6c(o *lib.Out, scratch string) {
	ld, err := startLookupd()
	if err != nil {
		lib.Fatalf("lookupd: %v", err)
	}
	defer ld.stop()
	px, err := newProxy()
	if err != nil {
		lib.Fatalf("proxy: %v", err)
	}
	defer px.close()
	px.setUpstream(ld.tcp)
	opts := nsqdlib.NewOpts(scratch)
	opts.NSQLookupdTCPAddresses = []string{px.addr}
	n, err := nsqdlib.Start(opts)
	if err != nil {
		lib.Fatalf("nsqd: %v", err)
	}
	defer n.Exit()
	port := n.RealTCPAddr().(*net.TCPAddr).Port
	waitRegs := func(want []string, d time.Duration) []string {
		dl := time.Now().Add(d)
		var regs []string
		for {
			regs, _ = lookupdRegs(ld.http, port)
			if eqStrings(regs, want) || time.Now().After(dl) {
				return regs
			}
			time.Sleep(10 * time.Millisecond)
		}
	}
	topic := n.GetTopic("t0")
	topic.GetChannel("c0")
	waitRegs([]string{"C:t0:c0", "T:t0"}, 5*time.Second)
	reached, release := nsqd.VerifArmPark("delete-channel:before-remove", 1)
	delDone := make(chan struct{})
	go func() { topic.DeleteExistingChannel("c0"); close(delDone) }()
	select {
	case <-reached:
	case <-time.After(5 * time.Second):
		lib.Fatalf("k6c: DeleteExistingChannel never reached the point")
	}
	waitRegs([]string{"T:t0"}, 5*time.Second) // the UNREGISTER of c0 has been served
	accepted := func() int { px.mu.Lock(); defer px.mu.Unlock(); return px.nAccepted }
	frames := func() int { px.mu.Lock(); defer px.mu.Unlock(); return px.nFrames }
	a0 := accepted()
	px.dropConns()
	dl := time.Now().Add(5 * time.Second)
	for accepted() == a0 && time.Now().Before(dl) {
		time.Sleep(5 * time.Millisecond)
	}
	// the reconnect's connectCallback has returned once a later reply (PING) passes the proxy
	f0 := frames()
	for frames() < f0+3 && time.Now().Before(dl) {
		time.Sleep(5 * time.Millisecond)
	}
	during, _ := lookupdRegs(ld.http, port)
	release()
	<-delDone
	t0 := time.Now()
	regs := waitRegs([]string{"T:t0"}, 15*heartbeat)
	ticks := float64(time.Since(t0)) / float64(heartbeat)
	live := []string{}
	if tp, err := n.GetExistingTopic("t0"); err == nil {
		live = append(live, "T:t0")
		if _, err := tp.GetExistingChannel("c0"); err == nil {
			live = append([]string{"C:t0:c0"}, live...)
		}
	}
	ops := []string{"Reconfigure [0%nat]", "Tick", "Tick", "TopicCreate 0", "TopicAdvance 0", "TopicAdvance 0", "Deliver 0%nat",
		"ChanCreate 0 0", "Deliver 0%nat", "ChanDeleteBegin 0 0", "Deliver 0%nat", "FReply 0%nat [RClose]", "Tick", "Tick", "ChanDeleteEnd 0 0"}
	ops = append(ops, repeatOp("Tick", 10)...)
	ph := fmt.Sprintf("(J16.mkPhase %s [true] [true] [%s] %s true true)", lib.CoqList(ops), coqKeys(regs), coqKeys(live))
	o.Emit(lib.Case{Name: "k6c-reconnect-inside-only-channel-deletion", Coq: "(J16.Scenario [" + ph + "])",
		Input: map[string]interface{}{"kind": "k6c"},
		Tags:  []string{"kind=k6c", fmt.Sprintf("stale=%v", !eqStrings(regs, live))}, Nontrivial: true,
		Obs: map[string]interface{}{"lookupd_registrations": regs, "nsqd_live": live, "registrations_while_parked": during, "ticks_waited": ticks,
			"schedule": "GetTopic(t0).GetChannel(c0); [arm park at delete-channel:before-remove]; DeleteExistingChannel(c0) parks after channel.Delete() (UNREGISTER t0 c0 served, c0 exiting but still in channelMap); the lookupd connection is cut; heartbeat 1: PING fails, peer closed; heartbeat 2: reconnect, connectCallback must skip c0 and register the bare topic t0; release: c0 leaves the map; the lookupd must list t0 (and not c0)"}})
}

var _ = bufio.NewReader
var _ = io.EOF
