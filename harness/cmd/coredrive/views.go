package main

// views.go: /stats in its other renderings (text form, topic / channel filters), taken
// right after a snapshot at a quiescent moment; the judge compares each with that snapshot
// restricted as NSQD.GetStats documents (C13).

import (
	"encoding/json"
	"fmt"
	"io"
	"net/http"
	"net/url"
	"os"
	"regexp"
	"sort"
	"strconv"
	"strings"
)

type lightCh struct {
	id                              int
	depth, ifl, dfr, req, tmo, msgs int64
	paused                          bool
}
type lightTp struct {
	id          int
	depth, msgs int64
	paused      bool
	chans       []lightCh
}

var reTopicLine = regexp.MustCompile(`^(\*P |   )\[(\S+)\s*\] depth: (\d+)\s+be-depth: (\d+)\s+msgs: (\d+)\s+e2e%:`)
var reChanLine = regexp.MustCompile(`^(   \*P |      )\[(\S+)\s*\] depth: (\d+)\s+be-depth: (\d+)\s+inflt: (\d+)\s+def: (\d+)\s+re-q: (\d+)\s+timeout: (\d+)\s+msgs: (\d+)\s+e2e%:`)

func atoi64(s string) int64 { v, _ := strconv.ParseInt(s, 10, 64); return v }

func parseTextStats(body string) ([]lightTp, bool) {
	var out []lightTp
	for _, line := range strings.Split(body, "\n") {
		if m := reChanLine.FindStringSubmatch(line); m != nil {
			if len(out) == 0 {
				return nil, false
			}
			t := &out[len(out)-1]
			t.chans = append(t.chans, lightCh{id: cid(m[2]), depth: atoi64(m[3]), ifl: atoi64(m[5]), dfr: atoi64(m[6]),
				req: atoi64(m[7]), tmo: atoi64(m[8]), msgs: atoi64(m[9]), paused: strings.Contains(m[1], "*P")})
		} else if m := reTopicLine.FindStringSubmatch(line); m != nil {
			out = append(out, lightTp{id: tid(m[2]), depth: atoi64(m[3]), msgs: atoi64(m[5]), paused: strings.Contains(m[1], "*P")})
		} else if strings.Contains(line, "] depth:") {
			return nil, false // a stats line this parser does not understand: reported as a bad view
		}
	}
	return out, true
}

func (cr *caseRun) fetchView(text bool, tf, cf string, clients bool) ([]lightTp, bool) {
	q := url.Values{}
	if !text {
		q.Set("format", "json")
	}
	if tf != "" {
		q.Set("topic", tf)
	}
	if cf != "" {
		q.Set("channel", cf)
	}
	if !clients {
		q.Set("include_clients", "false")
	}
	resp, err := http.Get("http://" + cr.httpAddr + "/stats?" + q.Encode())
	if err != nil {
		return nil, false
	}
	defer resp.Body.Close()
	bs, _ := io.ReadAll(resp.Body)
	if resp.StatusCode != 200 {
		return nil, false
	}
	if text {
		return parseTextStats(string(bs))
	}
	var doc statsDoc
	if json.Unmarshal(bs, &doc) != nil {
		return nil, false
	}
	var out []lightTp
	for _, t := range doc.Topics {
		lt := lightTp{id: tid(t.TopicName), depth: t.Depth, msgs: int64(t.MessageCount), paused: t.Paused}
		for _, c := range t.Channels {
			lt.chans = append(lt.chans, lightCh{id: cid(c.ChannelName), depth: c.Depth, ifl: int64(c.InFlightCount), dfr: int64(c.DeferredCount),
				req: int64(c.RequeueCount), tmo: int64(c.TimeoutCount), msgs: int64(c.MessageCount), paused: c.Paused})
		}
		out = append(out, lt)
	}
	return out, true
}

func optN(name string, id int) string {
	if name == "" {
		return "None"
	}
	return fmt.Sprintf("(Some %d)", id)
}

func (cr *caseRun) emitView(text bool, t, c int, clients bool) {
	tf, cf := "", ""
	if t > 0 {
		tf = tname(t)
	}
	if c > 0 {
		cf = cname(c)
	}
	v, ok := cr.fetchView(text, tf, cf, clients)
	form := "json"
	if text {
		form = "text"
	}
	cr.tag(fmt.Sprintf("stats-view:%s:topic=%v:channel=%v", form, t > 0, c > 0))
	if !ok {
		// an unreadable rendering is a mismatch: report a view that cannot equal any snapshot
		v = []lightTp{{id: 999999}}
		cr.tag("stats-view-unreadable")
	}
	var ts []string
	for _, lt := range v {
		var cs []string
		for _, lc := range lt.chans {
			cs = append(cs, fmt.Sprintf("(mkLC %d %d %d %d %d %d %d %s)", lc.id, lc.depth, lc.ifl, lc.dfr, lc.req, lc.tmo, lc.msgs, b(lc.paused)))
		}
		ts = append(ts, fmt.Sprintf("(mkLT %d %d %d %s [%s])", lt.id, lt.depth, lt.msgs, b(lt.paused), strings.Join(cs, ";")))
	}
	cr.ev(fmt.Sprintf("EView %s %s [%s]", optN(tf, t), optN(cf, c), strings.Join(ts, ";")))
}

// a handful of renderings right after a snapshot (no operation in between)
func (cr *caseRun) statsViews() {
	ts := cr.existingTopics()
	pickT := func() int {
		if len(ts) == 0 || cr.r.Chance(15) {
			return 9 // a topic that never exists
		}
		return ts[cr.r.Intn(len(ts))]
	}
	pickC := func() int {
		chs := cr.existingChans()
		if len(chs) == 0 || cr.r.Chance(15) {
			return 9
		}
		return chs[cr.r.Intn(len(chs))][1]
	}
	cr.emitView(true, 0, 0, cr.r.Bool())
	cr.emitView(false, pickT(), 0, cr.r.Bool())
	cr.emitView(false, 0, pickC(), cr.r.Bool())
	cr.emitView(cr.r.Bool(), pickT(), pickC(), true)
	cr.emitView(true, 0, pickC(), false)
}

// the disk-queue files present in the data path, by owner (topic id; 0 = the topic's own
// queue, c = channel c): after a delete none may be left, an ephemeral queue never has any
func (cr *caseRun) recordFiles() {
	ents, err := os.ReadDir(cr.opts.DataPath)
	if err != nil {
		return
	}
	own := map[int]map[int]bool{}
	for _, e := range ents {
		if os.Getenv("VERIF_FILES_DEBUG") != "" {
			fi, _ := e.Info()
			fmt.Fprintf(os.Stderr, "FILE[%d] %s %d\n", len(cr.events), e.Name(), fi.Size())
		}
		if strings.HasSuffix(e.Name(), ".bad") {
			// go-diskqueue renames a file it could not read to *.bad and never removes it (known
			// finding K10: a spurious EOF when the reader has caught up at the moment the writer
			// rolls the file).  Only the scenario that replays K10 counts these files.
			cr.tag("diskqueue-bad-file-seen")
			if !cr.countBad {
				continue
			}
		}
		i := strings.Index(e.Name(), ".diskqueue.")
		if i < 0 {
			continue
		}
		name := e.Name()[:i]
		t, c := name, ""
		if j := strings.Index(name, ":"); j >= 0 {
			t, c = name[:j], name[j+1:]
		}
		if own[tid(t)] == nil {
			own[tid(t)] = map[int]bool{}
		}
		if c == "" {
			own[tid(t)][0] = true
		} else {
			own[tid(t)][cid(c)] = true
		}
	}
	ts := make([]int, 0, len(own))
	for t := range own {
		ts = append(ts, t)
	}
	sort.Ints(ts)
	var parts []string
	for _, t := range ts {
		cs := make([]int, 0, len(own[t]))
		for c := range own[t] {
			cs = append(cs, c)
		}
		sort.Ints(cs)
		ss := make([]string, len(cs))
		for i, c := range cs {
			ss[i] = strconv.Itoa(c)
		}
		parts = append(parts, fmt.Sprintf("(%d, [%s])", t, strings.Join(ss, ";")))
	}
	if len(parts) > 0 {
		cr.tag("disk-queue-files-present")
	}
	cr.ev(fmt.Sprintf("EFiles [%s]", strings.Join(parts, ";")))
}
