package main

import (
	"bufio"
	"bytes"
	"encoding/binary"
	"encoding/json"
	"fmt"
	"io"
	"net"
	"strconv"
	"sync"
	"time"
)

// A raw-TCP nsqd consumer/producer connection.
type frame struct {
	kind     int32 // 0 response, 1 error, 2 message
	data     []byte
	id       string
	attempts int
	ts       int64
	body     []byte
	at       time.Time
}

type rawClient struct {
	k      int
	conn   net.Conn
	mu     sync.Mutex
	cond   *sync.Cond
	resp   []frame // responses and errors, in order
	msgs   []frame // message frames, in order
	taken  int     // message frames already consumed by the driver
	closed bool
	wmu    sync.Mutex
}

func dialClient(addr string, k int, identify map[string]interface{}) (*rawClient, error) {
	conn, err := net.DialTimeout("tcp", addr, 5*time.Second)
	if err != nil {
		return nil, err
	}
	c := &rawClient{k: k, conn: conn}
	c.cond = sync.NewCond(&c.mu)
	if _, err := conn.Write([]byte("  V2")); err != nil {
		return nil, err
	}
	go c.readLoop()
	if identify != nil {
		body, _ := json.Marshal(identify)
		var b bytes.Buffer
		b.WriteString("IDENTIFY\n")
		binary.Write(&b, binary.BigEndian, int32(len(body)))
		b.Write(body)
		c.write(b.Bytes())
		if _, ok := c.waitResp(5 * time.Second); !ok {
			return nil, fmt.Errorf("no IDENTIFY response")
		}
	}
	return c, nil
}

func (c *rawClient) write(b []byte) error {
	c.wmu.Lock()
	defer c.wmu.Unlock()
	_, err := c.conn.Write(b)
	return err
}

func (c *rawClient) readLoop() {
	r := bufio.NewReaderSize(c.conn, 1<<16)
	for {
		var size int32
		if err := binary.Read(r, binary.BigEndian, &size); err != nil {
			break
		}
		if size < 4 || size > 64<<20 {
			break
		}
		buf := make([]byte, size)
		if _, err := io.ReadFull(r, buf); err != nil {
			break
		}
		f := frame{kind: int32(binary.BigEndian.Uint32(buf[:4])), data: buf[4:], at: time.Now()}
		if f.kind == 0 && string(f.data) == "_heartbeat_" {
			c.write([]byte("NOP\n"))
			continue
		}
		c.mu.Lock()
		if f.kind == 2 && len(f.data) >= 26 {
			f.ts = int64(binary.BigEndian.Uint64(f.data[:8]))
			f.attempts = int(binary.BigEndian.Uint16(f.data[8:10]))
			f.id = string(f.data[10:26])
			f.body = f.data[26:]
			if len(c.msgs)-c.taken < 5000 { // a flooding server must not exhaust the harness's memory
				c.msgs = append(c.msgs, f)
			}
		} else {
			c.resp = append(c.resp, f)
		}
		c.cond.Broadcast()
		c.mu.Unlock()
	}
	c.mu.Lock()
	c.closed = true
	c.cond.Broadcast()
	c.mu.Unlock()
}

// waitResp pops the next response/error frame.
func (c *rawClient) waitResp(d time.Duration) (frame, bool) {
	deadline := time.Now().Add(d)
	c.mu.Lock()
	defer c.mu.Unlock()
	for len(c.resp) == 0 {
		if c.closed || time.Now().After(deadline) {
			return frame{}, false
		}
		go func() { time.Sleep(2 * time.Millisecond); c.cond.Broadcast() }()
		c.cond.Wait()
	}
	f := c.resp[0]
	c.resp = c.resp[1:]
	return f, true
}

func (c *rawClient) isClosed() bool {
	c.mu.Lock()
	defer c.mu.Unlock()
	return c.closed
}

func (c *rawClient) waitClosed(d time.Duration) bool {
	deadline := time.Now().Add(d)
	for !c.isClosed() {
		if time.Now().After(deadline) {
			return false
		}
		time.Sleep(time.Millisecond)
	}
	return true
}

func (c *rawClient) msgCount() int {
	c.mu.Lock()
	defer c.mu.Unlock()
	return len(c.msgs)
}

// newMsgs returns message frames not yet consumed by the driver.
func (c *rawClient) newMsgs() []frame {
	c.mu.Lock()
	defer c.mu.Unlock()
	out := append([]frame{}, c.msgs[c.taken:]...)
	c.taken = len(c.msgs)
	return out
}

func (c *rawClient) close() { c.conn.Close() }

// barrier: a TOUCH of an id nobody holds is answered E_TOUCH_FAILED once every earlier
// command of this connection has been processed (only valid when subscribed/closing).
const bogusID = "zzzzzzzzzzzzzzzz"

// cmdNoReply sends a command that has no success answer (RDY, FIN, REQ, TOUCH) followed
// by the barrier, and returns the error code if the command itself was refused.
func (c *rawClient) cmdNoReply(line string) (code string, closed bool) {
	c.write([]byte(line + "\nTOUCH " + bogusID + "\n"))
	// frames until the barrier's own answer (it names the bogus id) or closure; an error
	// frame before it is the command's own
	for {
		f, ok := c.waitResp(5 * time.Second)
		if !ok {
			return code, true
		}
		if f.kind != 1 {
			continue
		}
		if bytes.Contains(f.data, []byte(bogusID)) {
			return code, false
		}
		code = errCode(f)
		if code != "E_FIN_FAILED" && code != "E_REQ_FAILED" && code != "E_TOUCH_FAILED" {
			// fatal: the server closes the connection
			c.waitClosed(2 * time.Second)
			return code, true
		}
	}
}

func errCode(f frame) string {
	if f.kind != 1 {
		return ""
	}
	s := string(f.data)
	for i := 0; i < len(s); i++ {
		if s[i] == ' ' {
			return s[:i]
		}
	}
	return s
}

// cmdReply sends a command that is answered on success (SUB, CLS, PUB, ...).
func (c *rawClient) cmdReply(payload []byte) (okText string, code string, closed bool) {
	c.write(payload)
	f, ok := c.waitResp(5 * time.Second)
	if !ok {
		return "", "", true
	}
	if f.kind == 1 {
		code := errCode(f)
		c.waitClosed(2 * time.Second)
		return "", code, true
	}
	return string(f.data), "", false
}

func pubPayload(topic string, body []byte) []byte {
	var b bytes.Buffer
	b.WriteString("PUB " + topic + "\n")
	binary.Write(&b, binary.BigEndian, int32(len(body)))
	b.Write(body)
	return b.Bytes()
}
func dpubPayload(topic string, ms int64, body []byte) []byte {
	var b bytes.Buffer
	b.WriteString("DPUB " + topic + " " + strconv.FormatInt(ms, 10) + "\n")
	binary.Write(&b, binary.BigEndian, int32(len(body)))
	b.Write(body)
	return b.Bytes()
}
func mpubPayload(topic string, bodies [][]byte) []byte {
	var inner bytes.Buffer
	binary.Write(&inner, binary.BigEndian, int32(len(bodies)))
	for _, x := range bodies {
		binary.Write(&inner, binary.BigEndian, int32(len(x)))
		inner.Write(x)
	}
	var b bytes.Buffer
	b.WriteString("MPUB " + topic + "\n")
	binary.Write(&b, binary.BigEndian, int32(inner.Len()))
	b.Write(inner.Bytes())
	return b.Bytes()
}
