package main

import (
	"flag"
	"fmt"
	"os"
	"sort"
	"strings"
	"sync"
	"time"

	"github.com/nsqio/nsq/nsqd"
	"verifharness/lib"
	"verifharness/nsqdlib"
)

func (cr *caseRun) liveClients() []*shClient {
	var out []*shClient
	ks := make([]int, 0, len(cr.clients))
	for k := range cr.clients {
		ks = append(ks, k)
	}
	sort.Ints(ks)
	for _, k := range ks {
		if cr.clients[k].alive {
			out = append(out, cr.clients[k])
		}
	}
	return out
}

func (cr *caseRun) existingChans() [][2]int {
	var out [][2]int
	for k := range cr.chans {
		out = append(out, k)
	}
	sort.Slice(out, func(i, j int) bool { return out[i][0] < out[j][0] || (out[i][0] == out[j][0] && out[i][1] < out[j][1]) })
	return out
}

func (cr *caseRun) existingTopics() []int {
	var out []int
	for t := range cr.topics {
		out = append(out, t)
	}
	sort.Ints(out)
	return out
}

// Ephemeral queues drop on overflow, and whether a queue is full at the instant of a put
// depends on how fast the pump/consumer drains it.  To keep every case deterministic
// the generator publishes to the ephemeral topic only when its memory queue cannot fill
// up (mem-queue-size 50) or cannot drain (no channel), and gives consumers of an
// ephemeral channel a non-zero RDY only when nothing is being published (see "eph").
func (cr *caseRun) ephTopicOK() bool {
	if cr.memq >= 50 {
		return true
	}
	for k := range cr.chans {
		if k[0] == 3 {
			return false
		}
	}
	return true
}

func (cr *caseRun) pickTopic(ephOK bool) int {
	ts := []int{1, 1, 1, 2}
	if ephOK && cr.ephTopicOK() {
		ts = append(ts, 3)
	}
	return ts[cr.r.Intn(len(ts))]
}
func (cr *caseRun) pickChanID(ephOK bool) int {
	cs := []int{1, 1, 2}
	if ephOK {
		cs = append(cs, 3)
	}
	return cs[cr.r.Intn(len(cs))]
}

var wrapPre, wrapPost string

// weights of operation kinds per profile
type weights map[string]int

var profiles = map[string]weights{
	"c13": {"pub": 22, "sub": 8, "rdy": 12, "fin": 14, "req": 8, "touch": 3, "scan": 8, "cls": 2, "disc": 3, "pausec": 3, "pauset": 2, "emptyc": 4, "emptyt": 1, "createc": 3, "foreign": 3},
	"c02": {"pub": 18, "sub": 9, "rdy": 12, "fin": 12, "req": 10, "touch": 6, "scan": 12, "cls": 1, "disc": 3, "pausec": 1, "createc": 2, "foreign": 12},
	"c03": {"pub": 18, "sub": 9, "rdy": 20, "fin": 10, "req": 6, "touch": 1, "scan": 6, "cls": 5, "disc": 2, "pausec": 9, "pauset": 6, "createc": 2, "foreign": 4, "badstate": 2, "restart": 2, "emptyc": 3},
	"c01": {"pub": 24, "sub": 8, "rdy": 10, "fin": 6, "req": 10, "touch": 2, "scan": 10, "cls": 2, "disc": 8, "pausec": 3, "pauset": 3, "createc": 6, "foreign": 1, "restart": 2},
	"c08": {"pub": 18, "sub": 9, "rdy": 9, "fin": 6, "req": 6, "touch": 1, "scan": 6, "cls": 1, "disc": 5, "pausec": 2, "pauset": 2, "emptyc": 9, "emptyt": 3, "deletec": 6, "deletet": 3, "createc": 5, "createt": 2, "eph": 8, "foreign": 7},
	"c04": {"pub": 26, "sub": 8, "rdy": 10, "fin": 8, "req": 16, "touch": 3, "scan": 20, "cls": 1, "disc": 3, "pausec": 2, "createc": 7, "foreign": 1},
	"c05": {"pub": 22, "sub": 8, "rdy": 9, "fin": 8, "req": 9, "touch": 1, "scan": 6, "cls": 1, "disc": 3, "pausec": 4, "pauset": 3, "createc": 4, "restart": 5, "eph": 2, "foreign": 2},
}

func (cr *caseRun) pickOp(w weights) string {
	keys := make([]string, 0, len(w))
	total := 0
	for k, v := range w {
		keys = append(keys, k)
		total += v
	}
	sort.Strings(keys)
	x := cr.r.Intn(total)
	for _, k := range keys {
		if x < w[k] {
			return k
		}
		x -= w[k]
	}
	return keys[0]
}

func (cr *caseRun) someHeld(sc *shClient) (int, string, bool) {
	if len(sc.held) == 0 {
		return 0, "", false
	}
	tags := make([]int, 0, len(sc.held))
	for t := range sc.held {
		tags = append(tags, t)
	}
	sort.Ints(tags)
	t := tags[cr.r.Intn(len(tags))]
	return t, sc.held[t], true
}

func (cr *caseRun) step(w weights) {
	ephOK := w["eph"] > 0 && cr.r.Chance(w["eph"]*3)
	subs := []*shClient{}
	for _, sc := range cr.liveClients() {
		if sc.sub != nil {
			subs = append(subs, sc)
		}
	}
	switch op := cr.pickOp(w); op {
	case "pub":
		t := cr.pickTopic(ephOK)
		n := 1
		if cr.r.Chance(35) {
			n = 2 + cr.r.Intn(4)
		}
		// with mem-queue-size 0 a deferred publish keeps its timer only if the topic pump
		// happens to be waiting in its select at that instant (unbuffered hand-off): a race
		pdef := 12
		if cr.profile == "c04" {
			pdef = 45
		}
		deferred := n == 1 && cr.memq > 0 && cr.r.Chance(pdef)
		cr.opPub(t, n, deferred, cr.r.Chance(40))
	case "sub":
		sc := cr.opConnect(cr.r.Chance(40), cr.r.Chance(20))
		t, c := cr.pickTopic(ephOK && cr.memq >= 50), cr.pickChanID(false)
		cr.opSub(sc, t, c)
		if sc.alive && cr.r.Chance(70) {
			cr.opRdy(sc, []int{1, 1, 2, 3, 5}[cr.r.Intn(5)])
		}
	case "rdy":
		if len(subs) == 0 {
			return
		}
		sc := subs[cr.r.Intn(len(subs))]
		cr.opRdy(sc, []int{0, 0, 1, 1, 2, 3, 5, 8}[cr.r.Intn(8)])
	case "fin", "req", "touch":
		var cands []*shClient
		for _, sc := range subs {
			if len(sc.held) > 0 {
				cands = append(cands, sc)
			}
		}
		if len(cands) == 0 {
			return
		}
		sc := cands[cr.r.Intn(len(cands))]
		tg, id, _ := cr.someHeld(sc)
		switch op {
		case "fin":
			cr.answer(sc, "FIN", tg, id, 0)
		case "req":
			d := int64(0)
			if cr.r.Chance(35) {
				d = deferMs
			} else if cr.r.Chance(12) {
				d = overlongReqMs
			}
			cr.answer(sc, "REQ", tg, id, d)
		default:
			cr.answer(sc, "TOUCH", tg, id, 0)
		}
	case "foreign":
		// FIN/REQ/TOUCH for a message this connection does not hold
		if len(subs) == 0 || len(cr.known) == 0 {
			return
		}
		sc := subs[cr.r.Intn(len(subs))]
		// half of the time: a message that a COMPETING consumer of the same channel holds right now
		// (e.g. one that timed out on this connection and was redelivered to the other)
		if cr.r.Bool() && sc.sub != nil {
			for _, other := range subs {
				if other == sc || other.sub == nil || *other.sub != *sc.sub || len(other.held) == 0 {
					continue
				}
				tags := make([]int, 0, len(other.held))
				for tg := range other.held {
					tags = append(tags, tg)
				}
				sort.Ints(tags)
				tg := tags[cr.r.Intn(len(tags))]
				if id, ok := sc.held[tg]; ok && id == other.held[tg] {
					continue
				}
				verb := []string{"FIN", "REQ", "TOUCH"}[cr.r.Intn(3)]
				cr.tag("foreign-held-by-competitor-" + verb)
				cr.answer(sc, verb, tg, other.held[tg], 0)
				return
			}
		}
		kn := cr.known[cr.r.Intn(len(cr.known))]
		tg := 0
		fmt.Sscanf(kn[0], "%d", &tg)
		if id, ok := sc.held[tg]; ok && id == kn[1] {
			return
		}
		verb := []string{"FIN", "REQ", "TOUCH"}[cr.r.Intn(3)]
		cr.tag("foreign-" + verb)
		cr.answer(sc, verb, tg, kn[1], 0)
	case "badstate":
		// a command in the wrong state: fatal E_INVALID, the connection is closed
		sc := cr.opConnect(false, false)
		if cr.r.Bool() {
			cr.opRdy(sc, 1)
		} else {
			cr.answer(sc, "FIN", 999999, "0123456789abcdef", 0)
		}
	case "scan":
		chs := cr.existingChans()
		if len(chs) == 0 {
			return
		}
		ch := chs[cr.r.Intn(len(chs))]
		ahead := []time.Duration{0, scanShort, scanShort, scanMid, scanMid, scanLong, scanAll}[cr.r.Intn(7)]
		cr.opScan(ch[0], ch[1], cr.r.Chance(65), ahead)
	case "cls":
		if len(subs) == 0 {
			return
		}
		cr.opCls(subs[cr.r.Intn(len(subs))])
	case "disc":
		lc := cr.liveClients()
		if len(lc) == 0 {
			return
		}
		cr.opDisconnect(lc[cr.r.Intn(len(lc))])
	case "pausec":
		chs := cr.existingChans()
		if len(chs) == 0 {
			return
		}
		ch := chs[cr.r.Intn(len(chs))]
		cr.opPauseChan(ch[0], ch[1], !cr.cpaused[ch])
	case "pauset":
		ts := cr.existingTopics()
		if len(ts) == 0 {
			return
		}
		t := ts[cr.r.Intn(len(ts))]
		cr.opPauseTopic(t, !cr.tpaused[t])
	case "emptyc":
		chs := cr.existingChans()
		if len(chs) == 0 {
			return
		}
		ch := chs[cr.r.Intn(len(chs))]
		cr.opEmptyChan(ch[0], ch[1])
	case "emptyt":
		ts := cr.existingTopics()
		if len(ts) == 0 {
			return
		}
		cr.opEmptyTopic(ts[cr.r.Intn(len(ts))])
	case "deletec":
		if cr.r.Chance(10) {
			cr.opDeleteChan(cr.pickTopic(false), cr.pickChanID(false)) // possibly absent: 404
			return
		}
		chs := cr.existingChans()
		if len(chs) == 0 {
			return
		}
		ch := chs[cr.r.Intn(len(chs))]
		cr.opDeleteChan(ch[0], ch[1])
	case "deletet":
		ts := cr.existingTopics()
		if len(ts) == 0 {
			return
		}
		cr.opDeleteTopic(ts[cr.r.Intn(len(ts))])
	case "createc":
		cr.opCreateChan(cr.pickTopic(ephOK && cr.memq >= 50), cr.pickChanID(false))
	case "createt":
		cr.opCreateTopic(cr.pickTopic(false))
	case "restart":
		cr.opRestart()
	case "eph":
		// an ephemeral channel with a consumer that has RDY 0 (so overflow is deterministic),
		// publishes beyond the memory queue size, then the consumer leaves
		if cr.memq == 0 {
			return // an unbuffered ephemeral queue keeps a message only if a consumer is waiting
		}
		t := cr.pickTopic(false)
		if cr.topicDepth(t) != 0 {
			// a backlog would be pumped from memory and disk in no particular order, so
			// WHICH message an overflowing ephemeral queue keeps would be a race
			return
		}
		sc := cr.opConnect(false, false)
		cr.opSub(sc, t, 3)
		if !sc.alive {
			return
		}
		// one message at a time (a batch is split over the topic's memory and disk queues
		// and pumped in no particular order)
		for i, n := 0, 2+cr.r.Intn(5); i < n; i++ {
			cr.opPub(t, 1, false, cr.r.Bool())
		}
		if cr.r.Chance(60) {
			cr.opRdy(sc, 2)
			for len(sc.held) > 0 && cr.r.Chance(70) {
				tg, id, _ := cr.someHeld(sc)
				cr.answer(sc, "FIN", tg, id, 0)
			}
		}
		// the consumer leaves before anything else is published: the channel disappears
		if sc.alive {
			cr.opDisconnect(sc)
		}
	}
}

func (cr *caseRun) topicDepth(t int) int64 {
	for _, tp := range cr.statsInproc().Topics {
		if tid(tp.TopicName) == t {
			return tp.Depth
		}
	}
	return 0
}

// drain: make every durable channel deliverable and finish everything it still owes
func (cr *caseRun) drain() {
	cr.tag("drain")
	for _, t := range cr.existingTopics() {
		if cr.tpaused[t] {
			cr.opPauseTopic(t, false)
		}
	}
	for _, ch := range cr.existingChans() {
		if cr.cpaused[ch] {
			cr.opPauseChan(ch[0], ch[1], false)
		}
	}
	// existing consumers stop competing
	for _, sc := range cr.liveClients() {
		cr.opDisconnect(sc)
	}
	for _, ch := range cr.existingChans() {
		if ceph(ch[1]) || teph(ch[0]) {
			continue
		}
		if !cr.chans[ch] {
			continue
		}
		sc := cr.opConnect(false, false)
		cr.opSub(sc, ch[0], ch[1])
		if !sc.alive {
			continue
		}
		cr.opRdy(sc, 50)
		for round := 0; round < 40 && !cr.flood; round++ {
			cr.opScan(ch[0], ch[1], true, scanAll)
			cr.opScan(ch[0], ch[1], false, scanAll)
			if len(sc.held) == 0 {
				break
			}
			for len(sc.held) > 0 {
				tg, id, _ := cr.someHeld(sc)
				cr.answer(sc, "FIN", tg, id, 0)
				if !sc.alive {
					return
				}
			}
		}
		cr.opDisconnect(sc)
	}
}

// caseTimeout: far above what any case needs (seconds); a case still running then has hit
// a daemon, connection or request that no longer answers
const caseTimeout = 240 * time.Second

// hungCase reports an abandoned case: its trace so far, closed by EHung
func hungCase(cr *caseRun, name string, input map[string]interface{}) lib.Case {
	var evs []string
	memq := int64(0)
	maxmsg := int64(0)
	if cr != nil {
		evs = append(evs, cr.events...)
		memq = cr.memq
		maxmsg = int64(cr.opts.MaxMsgTimeout)
	}
	evs = append(evs, "EHung")
	coq := fmt.Sprintf(wrapPre+"(mkCase (mkCfg %d %s) [\n%s])"+wrapPost, memq, z(maxmsg), strings.Join(evs, ";\n"))
	return lib.Case{Name: name + "-hung", Coq: coq, Input: input, Tags: []string{"case-hung"}, Nontrivial: true,
		Obs: map[string]interface{}{"events": len(evs), "unsettled_waits": 0}}
}

func runCase(seed uint64, name, profile string, nops int, memq int64) lib.Case {
	var slot *caseRun
	done := make(chan lib.Case, 1)
	go func() { done <- runCaseIn(&slot, seed, name, profile, nops, memq) }()
	select {
	case c := <-done:
		return c
	case <-time.After(caseTimeout):
		return hungCase(slot, name, map[string]interface{}{"seed": seed, "profile": profile, "nops": nops, "memq": memq, "name": name})
	}
}

func runCaseIn(slot **caseRun, seed uint64, name, profile string, nops int, memq int64) lib.Case {
	r := lib.NewRand(seed)
	dir := nsqdlib.ScratchDir()
	opts := nsqdlib.NewOpts(dir)
	opts.MemQueueSize = memq
	opts.MaxBytesPerFile = 4096
	opts.MaxMsgSize = maxMsgSize
	opts.QueueScanInterval = time.Hour // timeouts are driven by the harness (VerifScan)
	opts.QueueScanRefreshInterval = time.Hour
	opts.SyncEvery = 1
	topo := r.Chance(30)
	if topo {
		// topology-aware consumption: zone-local / region-local hand-off channels in Channel.put
		opts.Experiments = []string{"topology-aware-consumption"}
		opts.TopologyRegion = "r1"
		opts.TopologyZone = "z1"
	}
	cr := &caseRun{topo: topo, r: r, profile: profile, memq: memq, dir: dir, opts: opts,
		clients: map[int]*shClient{}, topics: map[int]bool{}, chans: map[[2]int]bool{},
		tpaused: map[int]bool{}, cpaused: map[[2]int]bool{}, tags: map[string]int{},
		hadClient: map[[2]int]bool{}, hadChan: map[int]bool{}}
	*slot = cr
	cr.startDaemon()
	w := profiles[profile]
	// a starting configuration: one or two channels with consumers, so that traffic flows
	cr.opCreateTopic(1)
	for i := 0; i < 1+r.Intn(2); i++ {
		cr.opCreateChan(1, 1+i)
	}
	for i := 0; i < 1+r.Intn(3); i++ {
		sc := cr.opConnect(r.Chance(40), r.Chance(20))
		cr.opSub(sc, 1, 1+r.Intn(2))
		if sc.alive {
			cr.opRdy(sc, 1+r.Intn(3))
		}
	}
	for i := 0; i < nops && !cr.flood; i++ {
		cr.step(w)
	}
	if !cr.flood {
		cr.drain()
	}
	for _, sc := range cr.clients {
		sc.c.close()
	}
	cr.pub.close()
	cr.d.Exit()
	cr.recordMeta()
	os.RemoveAll(opts.DataPath)
	tags := []string{"profile=" + profile, fmt.Sprintf("memq=%d", memq), fmt.Sprintf("topology-aware=%v", topo)}
	for k, v := range cr.tags {
		tags = append(tags, fmt.Sprintf("%s×%d", k, v))
	}
	sort.Strings(tags)
	coq := fmt.Sprintf(wrapPre+"(mkCase (mkCfg %d %s) [\n%s])"+wrapPost, memq, z(int64(opts.MaxMsgTimeout)), strings.Join(cr.events, ";\n"))
	return lib.Case{Name: name, Coq: coq,
		Input:      map[string]interface{}{"seed": seed, "profile": profile, "nops": nops, "memq": memq, "name": name},
		Tags:       tags,
		Nontrivial: cr.nontriv,
		Obs:        map[string]interface{}{"events": len(cr.events), "unsettled_waits": cr.unsettled, "messages": cr.nextTag}}
}

type replayIn struct {
	Seed    uint64 `json:"seed"`
	Profile string `json:"profile"`
	Nops    int    `json:"nops"`
	Memq    int64  `json:"memq"`
	Name    string `json:"name"`
	Fine    string `json:"fine"`
}

func main() {
	n := flag.Int("n", 20, "cases")
	nops := flag.Int("ops", 35, "operations per case")
	seed := flag.Uint64("seed", 1, "seed")
	profile := flag.String("profile", "c13", "profile")
	nofine := flag.Bool("nofine", false, "skip the forced-interleaving scenarios")
	wrap := flag.String("wrap", "", "constructor to wrap every case term in (e.g. J04.CoreTrace)")
	out := flag.String("out", "", "output")
	replay := flag.String("replay", "", "replay file")
	par := flag.Int("par", 6, "parallel cases")
	flag.Parse()
	if *wrap != "" {
		wrapPre, wrapPost = "("+*wrap+" ", ")"
	}
	o := lib.NewOut(*out)
	defer o.Close()
	var ins []replayIn
	if *replay != "" {
		lib.ReadReplay(*replay, &ins)
	} else {
		r := lib.NewRand(*seed)
		memqs := []int64{0, 1, 3, 50}
		for i := 0; i < *n; i++ {
			ins = append(ins, replayIn{Seed: r.U64(), Profile: *profile, Nops: *nops, Memq: memqs[i%len(memqs)], Name: fmt.Sprintf("%s-%d-%d", *profile, *seed, i)})
		}
	}
	var fine []replayIn
	if *replay != "" {
		var keep []replayIn
		for _, in := range ins {
			if in.Fine != "" {
				fine = append(fine, in)
			} else {
				keep = append(keep, in)
			}
		}
		ins = keep
	} else if !*nofine {
		r := lib.NewRand(*seed + 77)
		for _, sc := range fineByProfile[*profile] {
			fine = append(fine, replayIn{Seed: r.U64(), Fine: sc})
		}
	}
	res := make([]lib.Case, len(ins))
	sem := make(chan struct{}, *par)
	var wg sync.WaitGroup
	for i := range ins {
		wg.Add(1)
		sem <- struct{}{}
		go func(i int) {
			defer wg.Done()
			defer func() { <-sem }()
			res[i] = runCase(ins[i].Seed, ins[i].Name, ins[i].Profile, ins[i].Nops, ins[i].Memq)
			o.Emit(res[i]) // as soon as it is known: a later hang must not lose it
		}(i)
	}
	wg.Wait()
	nrandom := len(res)
	// forced interleavings: one at a time (verifPoint actions are process-global)
	emitted := map[string]bool{}
	for _, in := range fine {
		if f, ok := fineScenarios[in.Fine]; ok && !emitted[fmt.Sprintf("%s/%d", in.Fine, in.Seed)] {
			emitted[fmt.Sprintf("%s/%d", in.Fine, in.Seed)] = true
			lastFine = nil
			done := make(chan []lib.Case, 1)
			go func() { done <- f(in.Seed) }()
			select {
			case cs := <-done:
				res = append(res, cs...)
			case <-time.After(caseTimeout):
				res = append(res, hungCase(lastFine, in.Fine, map[string]interface{}{"seed": in.Seed, "fine": in.Fine}))
				nsqd.VerifDisarmAll()
			}
		}
	}
	unsettled := 0
	for i, c := range res {
		if i >= nrandom {
			o.Emit(c)
		}
		if m, ok := c.Obs.(map[string]interface{}); ok {
			unsettled += m["unsettled_waits"].(int)
		}
	}
	o.Stat("unsettled_waits_total", unsettled)
}
