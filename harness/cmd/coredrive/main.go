// coredrive: correspondence driver for the nsqd core properties (C01, C02, C03, C05,
// C08, C13).  Each case starts a real in-process nsqd, issues a seeded random sequence
// of operations (TCP/HTTP publishes, raw-TCP consumers, HTTP admin calls, driven timeout
// scans, graceful restarts), waits for exact quiescence after every operation and
// records: the class of every answer, every message frame each connection received,
// what each scan re-queued, /stats snapshots, nsqd.dat.  The trace is judged inside Coq
// (coq/judge/CoreJudge.v).
package main

import (
	"bytes"
	"encoding/json"
	"fmt"
	"io"
	"net/http"
	"net/url"
	"sort"
	"strconv"
	"strings"
	"time"

	"github.com/nsqio/nsq/nsqd"
	"verifharness/lib"
	"verifharness/nsqdlib"
)

const (
	shortTimeoutMs = 5000   // msg_timeout of "short" consumers
	longTimeoutMs  = 60000  // msg_timeout of the others (the daemon default)
	xlongTimeoutMs = 120000 // some consumers negotiate more than the daemon default
	deferMs        = 30000  // REQ / DPUB delay when not immediate
	scanShort      = 20 * time.Second
	scanMid        = 90 * time.Second // between the default and the xlong msg_timeout
	scanLong       = 90 * time.Minute // between max-req-timeout (1 h) and the over-long REQ delay (2 h)
	overlongReqMs  = 7200000          // a REQ delay above the default --max-req-timeout
	scanAll        = 2 * time.Hour
)

type shClient struct {
	k       int
	c       *rawClient
	sub     *[2]int
	rdy     int
	closing bool
	alive   bool
	held    map[int]string // tag -> message id currently believed held
	tmoNs   int64
}

type caseRun struct {
	r         *lib.Rand
	profile   string
	memq      int64
	dir       string
	opts      *nsqd.Options
	d         *nsqd.NSQD
	pre       *nsqd.NSQD // started early (see startDaemon)
	httpAddr  string
	tcpAddr   string
	pub       *rawClient
	clients   map[int]*shClient
	nextK     int
	nextTag   int
	topics    map[int]bool    // exists
	chans     map[[2]int]bool // exists
	tpaused   map[int]bool
	cpaused   map[[2]int]bool
	known     [][2]string // (tag, msgid) ever seen, for foreign FIN/REQ/TOUCH
	events    []string
	tags      map[string]int
	unsettled int
	nontriv   bool
	opsLog    []string
	topo      bool
	hadClient map[[2]int]bool
	hadChan   map[int]bool
	frames    int  // message frames recorded in this case
	flood     bool // the daemon keeps sending: the case is cut short and judged as it stands
	quiet     bool // no settle/snapshot after each operation (mass set-up of a forced scenario)
	forceBody int  // body size of the next publishes (0: random)
	countBad  bool // *.bad files count as the owner's disk files (scenario bad-file-survives-delete only)
}

func tname(t int) string {
	if t == 3 {
		return "t3#ephemeral"
	}
	return fmt.Sprintf("t%d", t)
}
func cname(c int) string {
	if c == 3 {
		return "c3#ephemeral"
	}
	return fmt.Sprintf("c%d", c)
}
func teph(t int) bool { return t == 3 }
func ceph(c int) bool { return c == 3 }
func tid(name string) int {
	if name == "t3#ephemeral" {
		return 3
	}
	n, _ := strconv.Atoi(strings.TrimPrefix(name, "t"))
	return n
}
func cid(name string) int {
	if name == "c3#ephemeral" {
		return 3
	}
	n, _ := strconv.Atoi(strings.TrimPrefix(name, "c"))
	return n
}

func b(x bool) string { return lib.CoqBool(x) }
func z(v int64) string {
	if v < 0 {
		return fmt.Sprintf("(%d)%%Z", v)
	}
	return fmt.Sprintf("%d%%Z", v)
}

func (cr *caseRun) ev(s string)  { cr.events = append(cr.events, s) }
func (cr *caseRun) tag(s string) { cr.tags[s]++ }
func (cr *caseRun) now() int64   { return time.Now().UnixNano() }

func (cr *caseRun) startDaemon() {
	var err error
	if cr.pre != nil {
		// a replacement that could be started while the old daemon was still exiting
		cr.d, cr.pre = cr.pre, nil
	} else {
		cr.d, err = nsqdlib.StartLikeMain(cr.opts)
	}
	if err != nil {
		lib.Fatalf("start nsqd: %v", err)
	}
	cr.httpAddr = cr.d.RealHTTPAddr().String()
	cr.tcpAddr = cr.d.RealTCPAddr().String()
	cr.pub, err = dialClient(cr.tcpAddr, 0, map[string]interface{}{"client_id": "pub", "hostname": "h", "feature_negotiation": true, "heartbeat_interval": 60000})
	if err != nil {
		lib.Fatalf("publisher connect: %v", err)
	}
}

func (cr *caseRun) post(path string, q url.Values, body []byte) int {
	u := "http://" + cr.httpAddr + path
	if q != nil {
		u += "?" + q.Encode()
	}
	resp, err := http.Post(u, "application/octet-stream", bytes.NewReader(body))
	if err != nil {
		return -1
	}
	io.Copy(io.Discard, resp.Body)
	resp.Body.Close()
	return resp.StatusCode
}

func httpResp(code int) string {
	switch code {
	case 200:
		return "ROk"
	case 404:
		return "RNotFound"
	}
	return fmt.Sprintf("(* http %d *) RInvalid", code)
}

// ------------------------------------------------------------------ stats / settle
type cliStat struct {
	ClientID      string `json:"client_id"`
	State         int    `json:"state"`
	ReadyCount    int64  `json:"ready_count"`
	InFlightCount int64  `json:"in_flight_count"`
	MessageCount  uint64 `json:"message_count"`
	FinishCount   uint64 `json:"finish_count"`
	RequeueCount  uint64 `json:"requeue_count"`
}
type chStat struct {
	ChannelName   string    `json:"channel_name"`
	Depth         int64     `json:"depth"`
	InFlightCount int       `json:"in_flight_count"`
	DeferredCount int       `json:"deferred_count"`
	MessageCount  uint64    `json:"message_count"`
	RequeueCount  uint64    `json:"requeue_count"`
	TimeoutCount  uint64    `json:"timeout_count"`
	ClientCount   int       `json:"client_count"`
	Clients       []cliStat `json:"clients"`
	Paused        bool      `json:"paused"`
}
type tpStat struct {
	TopicName    string   `json:"topic_name"`
	Channels     []chStat `json:"channels"`
	Depth        int64    `json:"depth"`
	MessageCount uint64   `json:"message_count"`
	MessageBytes uint64   `json:"message_bytes"`
	Paused       bool     `json:"paused"`
}
type statsDoc struct {
	Topics []tpStat `json:"topics"`
}

func (cr *caseRun) statsInproc() statsDoc {
	st := cr.d.GetStats("", "", true)
	bs, _ := json.Marshal(struct {
		Topics interface{} `json:"topics"`
	}{st.Topics})
	var doc statsDoc
	json.Unmarshal(bs, &doc)
	return doc
}

func (cr *caseRun) statsHTTP() (statsDoc, bool) {
	resp, err := http.Get("http://" + cr.httpAddr + "/stats?format=json&include_clients=true")
	if err != nil {
		return statsDoc{}, false
	}
	defer resp.Body.Close()
	var doc statsDoc
	if json.NewDecoder(resp.Body).Decode(&doc) != nil {
		return statsDoc{}, false
	}
	return doc, true
}

func (cr *caseRun) settled(doc statsDoc) bool {
	seen := map[string]bool{}
	for _, t := range doc.Topics {
		if t.Depth != 0 && !t.Paused && len(t.Channels) > 0 {
			return false
		}
		for _, c := range t.Channels {
			for _, k := range c.Clients {
				seen[k.ClientID] = true
				kk, _ := strconv.Atoi(strings.TrimPrefix(k.ClientID, "k"))
				if sc, ok := cr.clients[kk]; ok && sc.alive {
					if uint64(sc.c.msgCount()) != k.MessageCount {
						return false
					}
				}
				if c.Depth > 0 && !c.Paused && k.State == 3 && k.ReadyCount > 0 && k.InFlightCount < k.ReadyCount {
					return false
				}
			}
		}
	}
	// connections we (or the server) closed have left their channels
	for _, sc := range cr.clients {
		if !sc.alive && seen[fmt.Sprintf("k%d", sc.k)] {
			return false
		}
	}
	// an ephemeral channel / topic disappears with its last consumer / channel
	for _, t := range doc.Topics {
		for _, c := range t.Channels {
			if strings.HasSuffix(c.ChannelName, "#ephemeral") && c.ClientCount == 0 && cr.hadClient[[2]int{tid(t.TopicName), cid(c.ChannelName)}] {
				return false
			}
		}
		if strings.HasSuffix(t.TopicName, "#ephemeral") && len(t.Channels) == 0 && cr.hadChan[tid(t.TopicName)] {
			return false
		}
	}
	return true
}

func fingerprint(doc statsDoc, cr *caseRun) string {
	// the daemon lists a channel's consumers (and its topics and channels) in map order:
	// canonicalise, or two identical states look different
	sort.Slice(doc.Topics, func(i, j int) bool { return doc.Topics[i].TopicName < doc.Topics[j].TopicName })
	for ti := range doc.Topics {
		chs := doc.Topics[ti].Channels
		sort.Slice(chs, func(i, j int) bool { return chs[i].ChannelName < chs[j].ChannelName })
		for ci := range chs {
			ks := chs[ci].Clients
			sort.Slice(ks, func(i, j int) bool { return ks[i].ClientID < ks[j].ClientID })
		}
	}
	bs, _ := json.Marshal(doc)
	var sb strings.Builder
	sb.Write(bs)
	ks := make([]int, 0, len(cr.clients))
	for k := range cr.clients {
		ks = append(ks, k)
	}
	sort.Ints(ks)
	for _, k := range ks {
		fmt.Fprintf(&sb, "|%d:%d", k, cr.clients[k].c.msgCount())
	}
	return sb.String()
}

func (cr *caseRun) settle() {
	deadline := time.Now().Add(3 * time.Second)
	stable := 0
	last := ""
	for {
		doc := cr.statsInproc()
		fp := fingerprint(doc, cr)
		if cr.settled(doc) && fp == last {
			stable++
		} else {
			stable = 0
		}
		last = fp
		if stable >= 3 {
			return
		}
		if time.Now().After(deadline) {
			cr.unsettled++
			return
		}
		time.Sleep(1500 * time.Microsecond)
	}
}
