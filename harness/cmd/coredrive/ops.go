package main

import (
	"encoding/json"
	"fmt"
	"github.com/nsqio/nsq/nsqd"
	"net/url"
	"os"
	"path/filepath"
	"sort"
	"strconv"
	"strings"
	"time"

	"verifharness/lib"
)

// ------------------------------------------------------------------ recording
func (cr *caseRun) snapshot() {
	doc, ok := cr.statsHTTP()
	if !ok {
		lib.Fatalf("stats over HTTP failed")
	}
	var ts []string
	type kRow struct {
		k int
		s string
	}
	var krows []kRow
	sort.Slice(doc.Topics, func(i, j int) bool { return doc.Topics[i].TopicName < doc.Topics[j].TopicName })
	for _, t := range doc.Topics {
		var cs []string
		sort.Slice(t.Channels, func(i, j int) bool { return t.Channels[i].ChannelName < t.Channels[j].ChannelName })
		for _, c := range t.Channels {
			cs = append(cs, fmt.Sprintf("(mkCS %d %d %d %d %d %d %d %s %d)", cid(c.ChannelName), c.Depth, c.InFlightCount, c.DeferredCount,
				c.MessageCount, c.RequeueCount, c.TimeoutCount, b(c.Paused), c.ClientCount))
			for _, k := range c.Clients {
				kk, _ := strconv.Atoi(strings.TrimPrefix(k.ClientID, "k"))
				krows = append(krows, kRow{kk, fmt.Sprintf("(mkKS %d %s %s %d %d %d)", kk, z(k.ReadyCount), z(k.InFlightCount), k.FinishCount, k.RequeueCount, k.MessageCount)})
			}
		}
		ts = append(ts, fmt.Sprintf("(mkTS %d %d %d %d %s %s)", tid(t.TopicName), t.Depth, t.MessageCount, t.MessageBytes, b(t.Paused), lib.CoqList(cs)))
	}
	sort.Slice(krows, func(i, j int) bool { return krows[i].k < krows[j].k })
	ks := make([]string, len(krows))
	for i := range krows {
		ks[i] = krows[i].s
	}
	cr.ev(fmt.Sprintf("ESnap %s %s", lib.CoqList(ts), lib.CoqList(ks)))
}

func tagOf(body []byte) int {
	s := string(body)
	if i := strings.IndexByte(s, '|'); i >= 0 {
		s = s[:i]
	}
	n, _ := strconv.Atoi(s)
	return n
}

// collect the frames every live consumer received since the last call
func (cr *caseRun) collectDeliveries() {
	ks := make([]int, 0, len(cr.clients))
	for k := range cr.clients {
		ks = append(ks, k)
	}
	sort.Ints(ks)
	for _, k := range ks {
		sc := cr.clients[k]
		fs := sc.c.newMsgs()
		if len(fs) > 100 || cr.frames+len(fs) > 3000 {
			// far more frames than any operation can cause: record the first few, stop the case
			if len(fs) > 20 {
				fs = fs[:20]
			}
			if !cr.flood {
				cr.tag("delivery-flood")
			}
			cr.flood = true
		}
		cr.frames += len(fs)
		for _, f := range fs {
			tg := tagOf(f.body)
			sc.held[tg] = f.id
			cr.known = append(cr.known, [2]string{strconv.Itoa(tg), f.id})
			cr.ev(fmt.Sprintf("EOp (ODeliver %d %d %s) (RDelivered %d)", k, tg, z(f.at.UnixNano()), f.attempts))
			cr.tag("deliver")
			if f.attempts > 1 {
				cr.tag("redelivery")
				cr.nontriv = true
			}
		}
	}
}

// a connection the server closed (fatal error, channel deleted): record and tell the model
func (cr *caseRun) noteClosures() {
	ks := make([]int, 0, len(cr.clients))
	for k := range cr.clients {
		ks = append(ks, k)
	}
	sort.Ints(ks)
	for _, k := range ks {
		sc := cr.clients[k]
		if sc.alive && sc.c.isClosed() {
			sc.alive = false
			cr.ev(fmt.Sprintf("EClosed %d", k))
			cr.ev(fmt.Sprintf("EOp (ODisconnect %d) ROk", k))
			cr.tag("server-closed-connection")
		}
	}
}

func (cr *caseRun) after() {
	if cr.flood || cr.quiet {
		return
	}
	// give the server a moment to close connections it decided to close
	cr.settle()
	cr.noteClosures()
	cr.settle()
	cr.collectDeliveries()
	cr.snapshot()
	cr.syncShadow()
	if cr.profile == "c13" && cr.r.Chance(20) {
		cr.statsViews()
	}
	if cr.profile == "c08" || cr.profile == "fine" {
		cr.recordFiles()
	}
}

// the generator's idea of which topics/channels exist follows the daemon (ephemeral
// ones disappear on their own)
func (cr *caseRun) syncShadow() {
	doc := cr.statsInproc()
	topics := map[int]bool{}
	chans := map[[2]int]bool{}
	for _, t := range doc.Topics {
		topics[tid(t.TopicName)] = true
		for _, c := range t.Channels {
			chans[[2]int{tid(t.TopicName), cid(c.ChannelName)}] = true
		}
	}
	for t := range cr.topics {
		if !topics[t] {
			delete(cr.tpaused, t)
			delete(cr.hadChan, t)
		}
	}
	for k := range cr.chans {
		if !chans[k] {
			delete(cr.cpaused, k)
			delete(cr.hadClient, k)
		}
	}
	cr.topics, cr.chans = topics, chans
}

// ------------------------------------------------------------------ operations
// maxMsgSize is the daemon's --max-msg-size in every case; some bodies are sized within
// the last 30 bytes below it (a backend record is body + 26-byte header, so a queue whose
// record limit forgets the header refuses exactly these)
const maxMsgSize = 1024

// opPubSized publishes one message whose body has exactly size bytes
func (cr *caseRun) opPubSized(t int, size int) {
	cr.forceBody = size
	cr.opPub(t, 1, false, false)
	cr.forceBody = 0
}

func (cr *caseRun) body(tag int) []byte {
	pad := cr.r.Intn(12)
	b := []byte(fmt.Sprintf("%d|%s", tag, strings.Repeat("x", pad)))
	if cr.forceBody > len(b) {
		return append(b, []byte(strings.Repeat("y", cr.forceBody-len(b)))...)
	}
	if cr.r.Chance(12) {
		n := maxMsgSize - cr.r.Intn(30)
		b = append(b, []byte(strings.Repeat("y", n-len(b)))...)
		cr.tag("body-near-max-msg-size")
	}
	return b
}

func (cr *caseRun) markTopic(t int) {
	cr.topics[t] = true
}
func (cr *caseRun) markChan(t, c int) {
	cr.markTopic(t)
	cr.chans[[2]int{t, c}] = true
	cr.hadChan[t] = true
}

func (cr *caseRun) opPub(t int, n int, deferred bool, viaHTTP bool) {
	ids := make([]string, n)
	bodies := make([][]byte, n)
	total := 0
	for i := 0; i < n; i++ {
		cr.nextTag++
		ids[i] = strconv.Itoa(cr.nextTag)
		bodies[i] = cr.body(cr.nextTag)
		total += len(bodies[i])
	}
	dms := int64(0)
	if deferred {
		dms = deferMs
	}
	now := cr.now()
	resp := "ROk"
	kind := ""
	if viaHTTP {
		q := url.Values{"topic": {tname(t)}}
		var code int
		if n == 1 {
			if deferred {
				q.Set("defer", strconv.FormatInt(dms, 10))
			}
			code = cr.post("/pub", q, bodies[0])
			kind = "http-pub"
		} else {
			code = cr.post("/mpub", q, []byte(strings.Join(func() []string {
				s := make([]string, n)
				for i := range bodies {
					s[i] = string(bodies[i])
				}
				return s
			}(), "\n")))
			kind = "http-mpub"
		}
		if code != 200 {
			resp = httpResp(code)
		}
	} else {
		var payload []byte
		if n == 1 && deferred {
			payload = dpubPayload(tname(t), dms, bodies[0])
			kind = "tcp-dpub"
		} else if n == 1 {
			payload = pubPayload(tname(t), bodies[0])
			kind = "tcp-pub"
		} else {
			payload = mpubPayload(tname(t), bodies)
			kind = "tcp-mpub"
		}
		ok, code, _ := cr.pub.cmdReply(payload)
		if ok != "OK" {
			resp = "RInvalid (* " + code + " *)"
		}
	}
	cr.markTopic(t)
	cr.tag(kind)
	if deferred {
		cr.tag("deferred-publish")
	}
	cr.ev(fmt.Sprintf("EOp (OPub %d %s [%s]%%N %d %s %s) %s", t, b(teph(t)), strings.Join(ids, ";"), total, z(dms*1000000), z(now), resp))
	cr.after()
}

func (cr *caseRun) opCreateTopic(t int) {
	code := cr.post("/topic/create", url.Values{"topic": {tname(t)}}, nil)
	cr.markTopic(t)
	cr.tag("create-topic")
	cr.ev(fmt.Sprintf("EOp (OCreateTopic %d %s) %s", t, b(teph(t)), httpResp(code)))
	cr.after()
}

func (cr *caseRun) opCreateChan(t, c int) {
	now := cr.now()
	code := cr.post("/channel/create", url.Values{"topic": {tname(t)}, "channel": {cname(c)}}, nil)
	if code == 200 {
		cr.markChan(t, c)
	}
	cr.tag("create-channel")
	cr.ev(fmt.Sprintf("EOp (OCreateChan %d %d %s %s %s) %s", t, c, b(teph(t)), b(ceph(c)), z(now), httpResp(code)))
	cr.after()
}

func (cr *caseRun) opConnect(short bool, buffered bool) *shClient {
	tmo := int64(longTimeoutMs)
	if short {
		tmo = shortTimeoutMs
	} else if cr.r.Chance(30) {
		tmo = xlongTimeoutMs
	}
	return cr.opConnectTmo(tmo, buffered)
}

func (cr *caseRun) opConnectTmo(tmo int64, buffered bool) *shClient {
	if maxMs := int64(cr.opts.MaxMsgTimeout / time.Millisecond); tmo > maxMs {
		tmo = maxMs // IDENTIFY refuses a msg_timeout above --max-msg-timeout
	}
	cr.nextK++
	k := cr.nextK
	if tmo > longTimeoutMs {
		cr.tag("consumer-msg-timeout-above-default")
	}
	id := map[string]interface{}{"client_id": fmt.Sprintf("k%d", k), "hostname": "h", "feature_negotiation": true,
		"heartbeat_interval": 60000, "msg_timeout": tmo, "output_buffer_size": -1}
	if cr.topo {
		id["topology_region"] = []string{"r1", "r1", "r2", ""}[cr.r.Intn(4)]
		id["topology_zone"] = []string{"z1", "z2", "z2", ""}[cr.r.Intn(4)]
		cr.tag(fmt.Sprintf("consumer-topology=%v/%v", id["topology_region"], id["topology_zone"]))
	}
	if buffered {
		id["output_buffer_size"] = 16384
		id["output_buffer_timeout"] = 25
		cr.tag("consumer-output-buffered")
	}
	c, err := dialClient(cr.tcpAddr, k, id)
	if err != nil {
		lib.Fatalf("consumer connect: %v", err)
	}
	sc := &shClient{k: k, c: c, alive: true, held: map[int]string{}, tmoNs: tmo * 1000000}
	cr.clients[k] = sc
	cr.tag("connect")
	cr.ev(fmt.Sprintf("EOp (OConnect %d %s) ROk", k, z(sc.tmoNs)))
	return sc
}

func (cr *caseRun) fatal(sc *shClient, closed bool) {
	if closed {
		sc.c.waitClosed(2 * time.Second)
	}
}

func (cr *caseRun) opSub(sc *shClient, t, c int) {
	now := cr.now()
	ok, code, closed := sc.c.cmdReply([]byte(fmt.Sprintf("SUB %s %s\n", tname(t), cname(c))))
	resp := "ROk"
	if ok != "OK" {
		resp = "RInvalid (* " + code + " *)"
	} else {
		sc.sub = &[2]int{t, c}
		cr.markChan(t, c)
		cr.hadClient[[2]int{t, c}] = true
	}
	cr.tag("sub")
	cr.ev(fmt.Sprintf("EOp (OSub %d %d %d %s %s %s) %s", sc.k, t, c, b(teph(t)), b(ceph(c)), z(now), resp))
	cr.fatal(sc, closed)
	cr.after()
}

func respOf(code string) string {
	switch code {
	case "":
		return "ROk"
	case "E_FIN_FAILED", "E_REQ_FAILED", "E_TOUCH_FAILED":
		return "RFailed"
	}
	return "RInvalid (* " + code + " *)"
}

func (cr *caseRun) opRdy(sc *shClient, n int) {
	var code string
	var closed bool
	if sc.sub == nil {
		// not subscribed: RDY is a fatal E_INVALID; no barrier possible
		_, code, closed = sc.c.cmdReply([]byte(fmt.Sprintf("RDY %d\n", n)))
	} else {
		code, closed = sc.c.cmdNoReply(fmt.Sprintf("RDY %d", n))
	}
	if code == "" && !sc.closing {
		sc.rdy = n
	}
	cr.tag(fmt.Sprintf("rdy=%d", n))
	cr.ev(fmt.Sprintf("EOp (ORdy %d %s) %s", sc.k, z(int64(n)), respOf(code)))
	cr.fatal(sc, closed)
	cr.after()
}

func (cr *caseRun) answer(sc *shClient, verb string, tag int, id string, delayMs int64) {
	now := cr.now()
	var line, op string
	switch verb {
	case "FIN":
		line = "FIN " + id
		op = fmt.Sprintf("OFin %d %d", sc.k, tag)
	case "REQ":
		line = fmt.Sprintf("REQ %s %d", id, delayMs)
		// a delay above --max-req-timeout is clamped to it (documented); the model is told
		// the delay that must take effect
		eff := delayMs
		if maxMs := int64(cr.opts.MaxReqTimeout / time.Millisecond); eff > maxMs {
			eff = maxMs
			cr.tag("req-delay-above-max-req-timeout")
		}
		op = fmt.Sprintf("OReq %d %d %s %s", sc.k, tag, z(eff*1000000), z(now))
	case "TOUCH":
		line = "TOUCH " + id
		op = fmt.Sprintf("OTouch %d %d %s", sc.k, tag, z(now))
	}
	var code string
	var closed bool
	if sc.sub == nil {
		_, code, closed = sc.c.cmdReply([]byte(line + "\n"))
	} else {
		code, closed = sc.c.cmdNoReply(line)
	}
	if code == "" && verb != "TOUCH" {
		delete(sc.held, tag)
	}
	cr.tag(strings.ToLower(verb) + ":" + respOf(code)[:3])
	if code != "" {
		cr.nontriv = true
	}
	cr.ev(fmt.Sprintf("EOp (%s) %s", op, respOf(code)))
	cr.fatal(sc, closed)
	cr.after()
}

func (cr *caseRun) opCls(sc *shClient) {
	ok, code, closed := sc.c.cmdReply([]byte("CLS\n"))
	resp := "ROk"
	if ok != "CLOSE_WAIT" {
		resp = "RInvalid (* " + code + " *)"
	} else {
		sc.closing = true
		sc.rdy = 0
	}
	cr.tag("cls")
	cr.ev(fmt.Sprintf("EOp (OCls %d) %s", sc.k, resp))
	cr.fatal(sc, closed)
	cr.after()
}

func (cr *caseRun) opDisconnect(sc *shClient) {
	sc.c.close()
	sc.c.waitClosed(2 * time.Second)
	sc.alive = false
	cr.tag("disconnect")
	if len(sc.held) > 0 {
		cr.tag("disconnect-with-messages-in-flight")
		cr.nontriv = true
	}
	cr.ev(fmt.Sprintf("EOp (ODisconnect %d) ROk", sc.k))
	cr.after()
}

func (cr *caseRun) opPauseChan(t, c int, p bool) {
	path := "/channel/unpause"
	if p {
		path = "/channel/pause"
	}
	code := cr.post(path, url.Values{"topic": {tname(t)}, "channel": {cname(c)}}, nil)
	if code == 200 {
		cr.cpaused[[2]int{t, c}] = p
	}
	cr.tag("pause-channel:" + strconv.FormatBool(p))
	cr.ev(fmt.Sprintf("EOp (OPauseChan %d %d %s) %s", t, c, b(p), httpResp(code)))
	cr.after()
}

func (cr *caseRun) opPauseTopic(t int, p bool) {
	path := "/topic/unpause"
	if p {
		path = "/topic/pause"
	}
	now := cr.now()
	code := cr.post(path, url.Values{"topic": {tname(t)}}, nil)
	if code == 200 {
		cr.tpaused[t] = p
	}
	cr.tag("pause-topic:" + strconv.FormatBool(p))
	cr.ev(fmt.Sprintf("EOp (OPauseTopic %d %s %s) %s", t, b(p), z(now), httpResp(code)))
	cr.after()
}

func (cr *caseRun) opEmptyChan(t, c int) {
	code := cr.post("/channel/empty", url.Values{"topic": {tname(t)}, "channel": {cname(c)}}, nil)
	if code == 200 {
		for _, sc := range cr.clients {
			if sc.sub != nil && *sc.sub == [2]int{t, c} {
				sc.held = map[int]string{}
			}
		}
		cr.nontriv = true
	}
	cr.tag("empty-channel")
	cr.ev(fmt.Sprintf("EOp (OEmptyChan %d %d) %s", t, c, httpResp(code)))
	cr.after()
}

func (cr *caseRun) opEmptyTopic(t int) {
	code := cr.post("/topic/empty", url.Values{"topic": {tname(t)}}, nil)
	cr.tag("empty-topic")
	cr.ev(fmt.Sprintf("EOp (OEmptyTopic %d) %s", t, httpResp(code)))
	cr.after()
}

func (cr *caseRun) opDeleteChan(t, c int) {
	code := cr.post("/channel/delete", url.Values{"topic": {tname(t)}, "channel": {cname(c)}}, nil)
	if code == 200 {
		delete(cr.chans, [2]int{t, c})
		delete(cr.cpaused, [2]int{t, c})
		delete(cr.hadClient, [2]int{t, c})
		cr.nontriv = true
	}
	cr.tag("delete-channel")
	cr.ev(fmt.Sprintf("EOp (ODeleteChan %d %d) %s", t, c, httpResp(code)))
	cr.after()
	if teph(t) {
		// an ephemeral topic goes away with its last channel
		left := false
		for k := range cr.chans {
			if k[0] == t {
				left = true
			}
		}
		if !left {
			delete(cr.topics, t)
			delete(cr.hadChan, t)
		}
	}
}

func (cr *caseRun) opDeleteTopic(t int) {
	code := cr.post("/topic/delete", url.Values{"topic": {tname(t)}}, nil)
	if code == 200 {
		delete(cr.topics, t)
		delete(cr.tpaused, t)
		delete(cr.hadChan, t)
		for k := range cr.chans {
			if k[0] == t {
				delete(cr.chans, k)
				delete(cr.cpaused, k)
				delete(cr.hadClient, k)
			}
		}
		cr.nontriv = true
	}
	cr.tag("delete-topic")
	cr.ev(fmt.Sprintf("EOp (ODeleteTopic %d) %s", t, httpResp(code)))
	cr.after()
}

func tagsOf(bodies [][]byte) map[int]bool {
	m := map[int]bool{}
	for _, x := range bodies {
		m[tagOf(x)] = true
	}
	return m
}

// A scan with a clock reading in the future must not race redelivery: a message that is
// re-queued, delivered again at once and given a deadline still below the fake clock
// would be expired again by the same scan loop (an artefact of the fake clock, not of
// nsqd).  Such scans therefore run with the channel paused.
func (cr *caseRun) opScan(t, c int, inflight bool, ahead time.Duration) {
	if ahead > 0 && cr.chans[[2]int{t, c}] && !cr.cpaused[[2]int{t, c}] {
		cr.opPauseChan(t, c, true)
		if cr.cpaused[[2]int{t, c}] {
			cr.doScan(t, c, inflight, ahead)
			cr.opPauseChan(t, c, false)
		}
		return
	}
	cr.doScan(t, c, inflight, ahead)
}

func (cr *caseRun) doScan(t, c int, inflight bool, ahead time.Duration) {
	cr.doScanAt(t, c, inflight, time.Now().Add(ahead).UnixNano(), ahead.String())
}

// scanAt: a scan at an absolute clock reading, with the channel paused around it (see opScan)
func (cr *caseRun) scanAt(t, c int, inflight bool, at int64) {
	cr.opPauseChan(t, c, true)
	cr.doScanAt(t, c, inflight, at, "abs")
	cr.opPauseChan(t, c, false)
}

func (cr *caseRun) doScanAt(t, c int, inflight bool, at int64, label string) {
	bi, bd, ok := cr.d.VerifHeld(tname(t), cname(c))
	resp := "ROk"
	var expired []string
	if !ok {
		resp = "RNotFound"
	} else {
		cr.d.VerifScan(tname(t), cname(c), at, inflight)
		ai, ad, _ := cr.d.VerifHeld(tname(t), cname(c))
		before, after := tagsOf(bi), tagsOf(ai)
		if !inflight {
			before, after = tagsOf(bd), tagsOf(ad)
		}
		for tg := range before {
			if !after[tg] {
				expired = append(expired, strconv.Itoa(tg))
				if inflight {
					for _, sc := range cr.clients {
						if sc.sub != nil && *sc.sub == [2]int{t, c} {
							delete(sc.held, tg)
						}
					}
				}
			}
		}
		sort.Strings(expired)
	}
	name := "OScanDeferred"
	if inflight {
		name = "OScanInFlight"
	}
	cr.tag(fmt.Sprintf("scan:%s:+%s", strings.TrimPrefix(name, "OScan"), label))
	if len(expired) > 0 {
		cr.tag("scan-requeued-something")
		cr.nontriv = true
	}
	cr.ev(fmt.Sprintf("EOp (%s %d %d %s) %s", name, t, c, z(at), resp))
	if ok {
		cr.ev(fmt.Sprintf("EExpired %d %d %s [%s]%%N", t, c, b(inflight), strings.Join(expired, ";")))
	}
	cr.after()
}

type metaDoc struct {
	Topics []struct {
		Name     string `json:"name"`
		Channels []struct {
			Name string `json:"name"`
		} `json:"channels"`
	} `json:"topics"`
}

func (cr *caseRun) recordMeta() {
	bs, err := os.ReadFile(filepath.Join(cr.opts.DataPath, "nsqd.dat"))
	if err != nil {
		return
	}
	var m metaDoc
	if json.Unmarshal(bs, &m) != nil {
		return
	}
	var ts []string
	for _, t := range m.Topics {
		var cs []string
		for _, c := range t.Channels {
			cs = append(cs, strconv.Itoa(cid(c.Name)))
		}
		ts = append(ts, fmt.Sprintf("(%d, [%s])", tid(t.Name), strings.Join(cs, ";")))
	}
	cr.ev(fmt.Sprintf("EMeta [%s]%%N", strings.Join(ts, ";")))
}

func (cr *caseRun) opRestart() { cr.opRestartWith(nil) }

// opRestartWith: graceful Exit and restart; [whenClosed], if given, runs once the topics
// and channels have been closed and flushed (Exit then still waits for the connection
// handlers to return).
func (cr *caseRun) opRestartWith(whenClosed func()) { cr.opRestartWithBefore(whenClosed, nil) }

// opRestartWithBefore: beforeRecord runs after Exit has returned and before ERestart is recorded
func (cr *caseRun) opRestartWithBefore(whenClosed func(), beforeRecord func()) {
	cr.settle()
	for _, sc := range cr.clients {
		if whenClosed == nil {
			sc.c.close()
		}
		sc.alive = false
	}
	cr.pub.close()
	if whenClosed == nil {
		cr.d.Exit()
	} else {
		h0 := nsqd.VerifHits("exit:topics-closed")
		done := make(chan struct{})
		go func() { cr.d.Exit(); close(done) }()
		deadline := time.Now().Add(700 * time.Millisecond)
		for nsqd.VerifHits("exit:topics-closed") == h0 && time.Now().Before(deadline) {
			time.Sleep(time.Millisecond)
		}
		// did the close run to its end while the other party was still parked, or did it wait for it?
		cr.tag(fmt.Sprintf("close-waited-for-parked-party=%v", nsqd.VerifHits("exit:topics-closed") == h0))
		whenClosed()
		<-done
		for _, sc := range cr.clients {
			sc.c.close()
		}
	}
	if beforeRecord != nil {
		beforeRecord()
	}
	cr.recordMeta()
	cr.ev("ERestart")
	cr.tag("restart")
	cr.nontriv = true
	cr.clients = map[int]*shClient{}
	// ephemeral topics/channels do not survive
	for k := range cr.chans {
		if ceph(k[1]) || teph(k[0]) {
			delete(cr.chans, k)
			delete(cr.cpaused, k)
		}
	}
	for t := range cr.topics {
		if teph(t) {
			delete(cr.topics, t)
			delete(cr.tpaused, t)
		}
	}
	cr.hadClient = map[[2]int]bool{}
	cr.hadChan = map[int]bool{}
	cr.startDaemon()
	cr.settle()
	cr.snapshot()
}
