package main

import (
	"fmt"
	"net/url"
	"os"
	"sort"
	"strconv"
	"strings"
	"time"

	"github.com/nsqio/nsq/nsqd"
	"verifharness/lib"
	"verifharness/nsqdlib"
)

// Forced interleavings ("fine" scenarios): one goroutine of the real daemon is parked at
// a named verifPoint between two critical sections, another operation runs to completion,
// the parked one is released, and the outcome is recorded in the same trace vocabulary as
// the random cases.  verifPoint actions are process-global, so these scenarios run one at
// a time, after the parallel random cases.

func newFineCase(seed uint64, memq int64) *caseRun {
	return newFineCaseWith(seed, memq, nil)
}

func newFineCaseWith(seed uint64, memq int64, tweak func(*nsqd.Options)) *caseRun {
	r := lib.NewRand(seed)
	dir := nsqdlib.ScratchDir()
	opts := nsqdlib.NewOpts(dir)
	opts.MemQueueSize = memq
	opts.MaxBytesPerFile = 4096
	opts.MaxMsgSize = maxMsgSize
	opts.QueueScanInterval = time.Hour
	opts.QueueScanRefreshInterval = time.Hour
	opts.SyncEvery = 1
	if tweak != nil {
		tweak(opts)
	}
	cr := &caseRun{r: r, profile: "fine", memq: memq, dir: dir, opts: opts,
		clients: map[int]*shClient{}, topics: map[int]bool{}, chans: map[[2]int]bool{},
		tpaused: map[int]bool{}, cpaused: map[[2]int]bool{}, tags: map[string]int{},
		hadClient: map[[2]int]bool{}, hadChan: map[int]bool{}}
	lastFine = cr
	cr.startDaemon()
	return cr
}

// the forced scenario being run (they run one at a time), for the hang watchdog
var lastFine *caseRun

func (cr *caseRun) finish(name string, seed uint64, hidden []int, ignore []int, extraTags ...string) lib.Case {
	cr.drain()
	for _, sc := range cr.clients {
		sc.c.close()
	}
	cr.pub.close()
	cr.d.Exit()
	cr.recordMeta()
	os.RemoveAll(cr.opts.DataPath)
	nsqd.VerifDisarmAll()
	tags := append([]string{"profile=fine", "scenario=" + strings.SplitN(name, "#", 2)[0], fmt.Sprintf("memq=%d", cr.memq)}, extraTags...)
	for k, v := range cr.tags {
		tags = append(tags, fmt.Sprintf("%s×%d", k, v))
	}
	sort.Strings(tags)
	hs := make([]string, len(hidden))
	for i, h := range hidden {
		hs[i] = strconv.Itoa(h)
	}
	is := make([]string, len(ignore))
	for i, h := range ignore {
		is[i] = strconv.Itoa(h)
	}
	coq := fmt.Sprintf(wrapPre+"(mkCaseX (mkCfg %d %s) [\n%s] [%s]%%N [%s]%%N)"+wrapPost, cr.memq, z(int64(cr.opts.MaxMsgTimeout)),
		strings.Join(cr.events, ";\n"), strings.Join(hs, ";"), strings.Join(is, ";"))
	return lib.Case{Name: name, Coq: coq,
		Input:      map[string]interface{}{"seed": seed, "profile": "fine", "fine": strings.SplitN(name, "#", 2)[0], "name": name},
		Tags:       tags,
		Nontrivial: true,
		Obs:        map[string]interface{}{"events": len(cr.events), "unsettled_waits": cr.unsettled, "messages": cr.nextTag}}
}

func waitReached(ch <-chan struct{}, d time.Duration) bool {
	select {
	case <-ch:
		return true
	case <-time.After(d):
		return false
	}
}

// rawPub publishes without settling/recording (the caller records the event itself).
func (cr *caseRun) rawPub(t int, n int) (ids []string, total int, now int64) {
	for i := 0; i < n; i++ {
		cr.nextTag++
		ids = append(ids, strconv.Itoa(cr.nextTag))
		body := cr.body(cr.nextTag)
		total += len(body)
		now = cr.now()
		cr.pub.cmdReply(pubPayload(tname(t), body))
	}
	cr.markTopic(t)
	return
}

// ---- A: the topic pump holds a message while a new channel is created (C01) ----
func fineSubWhilePumpBusy(seed uint64) []lib.Case {
	cr := newFineCase(seed, 3)
	cr.opCreateTopic(1)
	cr.opCreateChan(1, 1)
	k1 := cr.opConnect(false, false)
	cr.opSub(k1, 1, 1)
	cr.opRdy(k1, 5)
	reached, release := nsqd.VerifArmPark("topicpump:have-msg", 1)
	ids, total, now := cr.rawPub(1, 1)
	ok := waitReached(reached, 3*time.Second)
	cr.tag(fmt.Sprintf("pump-parked=%v", ok))
	cr.ev(fmt.Sprintf("EOp (OPub 1 false [%s]%%N %d 0%%Z %s) ROk", strings.Join(ids, ";"), total, z(now)))
	// a second consumer subscribes to a NEW channel while the pump is mid-message: the
	// SUB's channel-update notice must not be lost
	k2 := cr.opConnect(false, false)
	subDone := make(chan struct{})
	var subOK, subCode string
	subNow := cr.now()
	go func() {
		subOK, subCode, _ = k2.c.cmdReply([]byte(fmt.Sprintf("SUB %s %s\n", tname(1), cname(2))))
		close(subDone)
	}()
	// correct code blocks in GetChannel until the pump comes back to its select; give the
	// SUB time to get there, then let the pump go on
	select {
	case <-subDone:
		cr.tag("sub-returned-while-pump-parked")
	case <-time.After(150 * time.Millisecond):
	}
	release()
	<-subDone
	resp := "ROk"
	if subOK != "OK" {
		resp = "RInvalid (* " + subCode + " *)"
	} else {
		k2.sub = &[2]int{1, 2}
		cr.markChan(1, 2)
		cr.hadClient[[2]int{1, 2}] = true
	}
	cr.ev(fmt.Sprintf("EOp (OSub %d 1 2 false false %s) %s", k2.k, z(subNow), resp))
	cr.after()
	if k2.alive {
		cr.opRdy(k2, 5)
	}
	cr.opPub(1, 3, false, false)
	cr.opPub(1, 1, false, true)
	return []lib.Case{cr.finish("pump-vs-sub#"+strconv.FormatUint(seed, 10), seed, nil, nil)}
}

// ---- B: Empty between the in-flight map insertion and the pqueue insertion (C08; K2) ----
// One run yields two cases: the full trace (known finding K2: the consumer's in-flight
// counter stays at 1 with nothing in flight) and the same trace judged BEYOND the known
// finding (that consumer's counters hidden), so that any further misbehaviour - e.g. the
// discarded message coming back after a timeout scan - is still a violation.
func fineEmptyWhileDelivering(seed uint64) []lib.Case {
	var out []lib.Case
	for variant := 0; variant < 2; variant++ {
		cr := newFineCase(seed, 3)
		cr.opCreateTopic(1)
		cr.opCreateChan(1, 1)
		k1 := cr.opConnect(false, false)
		cr.opSub(k1, 1, 1)
		cr.opRdy(k1, 1)
		reached, release := nsqd.VerifArmPark("inflight:between-map-and-pq", 1)
		ids, total, now := cr.rawPub(1, 1)
		ok := waitReached(reached, 3*time.Second)
		cr.tag(fmt.Sprintf("delivery-parked=%v", ok))
		cr.ev(fmt.Sprintf("EOp (OPub 1 false [%s]%%N %d 0%%Z %s) ROk", strings.Join(ids, ";"), total, z(now)))
		// the message is in the in-flight map, not yet in the pqueue, no frame sent yet
		code := cr.post("/channel/empty", url.Values{"topic": {tname(1)}, "channel": {cname(1)}}, nil)
		release()
		cr.settle()
		// linearisation recorded: the delivery (its map insertion came first), then the empty
		cr.collectDeliveries()
		cr.ev(fmt.Sprintf("EOp (OEmptyChan 1 1) %s", httpResp(code)))
		k1.held = map[int]string{}
		cr.tag("empty-channel")
		cr.after()
		if variant == 0 {
			// the consequence of K2: the RDY 1 consumer, its counter stuck at 1, starves
			cr.opPub(1, 1, false, false)
		} else {
			cr.opDisconnect(k1)
		}
		// a timeout scan far in the future must find nothing to re-queue
		cr.opScan(1, 1, true, scanAll)
		k2 := cr.opConnect(false, false)
		cr.opSub(k2, 1, 1)
		cr.opRdy(k2, 5)
		cr.opPub(1, 2, false, false)
		if variant == 0 {
			out = append(out, cr.finish("deliver-vs-empty#"+strconv.FormatUint(seed, 10), seed, nil, nil, "kf=K2"))
		} else {
			out = append(out, cr.finish("deliver-vs-empty-beyond-K2#"+strconv.FormatUint(seed, 10), seed, []int{k1.k}, []int{13, 3}))
		}
	}
	return out
}

// ---- D: Empty between FIN's channel-side completion and its client counter update (K1) ----
func fineEmptyWhileFinishing(seed uint64) []lib.Case {
	var out []lib.Case
	for variant := 0; variant < 2; variant++ {
		cr := newFineCase(seed, 3)
		cr.opCreateTopic(1)
		cr.opCreateChan(1, 1)
		k1 := cr.opConnect(false, false)
		cr.opSub(k1, 1, 1)
		cr.opRdy(k1, 2)
		cr.opPub(1, 2, false, false)
		tg, id, okh := cr.someHeld(k1)
		if !okh {
			out = append(out, cr.finish("fin-vs-empty-setup-failed#"+strconv.FormatUint(seed, 10), seed, nil, nil))
			continue
		}
		reached, release := nsqd.VerifArmPark("fin:between-channel-and-client", 1)
		k1.c.write([]byte("FIN " + id + "\n"))
		ok := waitReached(reached, 3*time.Second)
		cr.tag(fmt.Sprintf("fin-parked=%v", ok))
		cr.ev(fmt.Sprintf("EOp (OFin %d %d) ROk", k1.k, tg))
		delete(k1.held, tg)
		code := cr.post("/channel/empty", url.Values{"topic": {tname(1)}, "channel": {cname(1)}}, nil)
		release()
		// barrier: every earlier command of k1 has been processed
		k1.c.cmdNoReply("NOP")
		cr.ev(fmt.Sprintf("EOp (OEmptyChan 1 1) %s", httpResp(code)))
		k1.held = map[int]string{}
		cr.tag("empty-channel")
		cr.after()
		if variant == 0 {
			// the consequence of K1: with its counter at -1 the RDY 2 consumer is sent three
			cr.opPub(1, 3, false, false)
		} else {
			cr.opDisconnect(k1)
		}
		k2 := cr.opConnect(false, false)
		cr.opSub(k2, 1, 1)
		cr.opRdy(k2, 5)
		cr.opPub(1, 2, false, false)
		if variant == 0 {
			out = append(out, cr.finish("fin-vs-empty#"+strconv.FormatUint(seed, 10), seed, nil, nil, "kf=K1"))
		} else {
			out = append(out, cr.finish("fin-vs-empty-beyond-K1#"+strconv.FormatUint(seed, 10), seed, []int{k1.k}, []int{13, 3}))
		}
	}
	return out
}

// ---- C: SUB arriving while an ephemeral topic is between Delete() and its removal from
// the map (C08): the SUB must back off and land on the re-created topic ----
func fineSubWhileTopicDeleting(seed uint64) []lib.Case {
	cr := newFineCase(seed, 50)
	k1 := cr.opConnect(false, false)
	cr.opSub(k1, 3, 1) // ephemeral topic t3, durable channel name c1
	reached, release := nsqd.VerifArmPark("delete-topic:before-remove", 1)
	retries0 := nsqd.VerifHits("sub:retry")
	code := cr.post("/channel/delete", url.Values{"topic": {tname(3)}, "channel": {cname(1)}}, nil)
	ok := waitReached(reached, 3*time.Second) // the ephemeral topic deletes itself after its last channel
	cr.tag(fmt.Sprintf("topic-delete-parked=%v", ok))
	cr.ev(fmt.Sprintf("EOp (ODeleteChan 3 1) %s", httpResp(code)))
	k1.c.waitClosed(2 * time.Second)
	k2 := cr.opConnect(false, false)
	subDone := make(chan struct{})
	var subOK, subCode string
	subNow := cr.now()
	go func() {
		subOK, subCode, _ = k2.c.cmdReply([]byte(fmt.Sprintf("SUB %s %s\n", tname(3), cname(1))))
		close(subDone)
	}()
	// release the deletion as soon as the SUB has noticed the dying topic and backs off
	deadline := time.Now().Add(1500 * time.Millisecond)
	for nsqd.VerifHits("sub:retry") == retries0 && time.Now().Before(deadline) {
		select {
		case <-subDone:
			deadline = time.Now()
		default:
			time.Sleep(time.Millisecond)
		}
	}
	cr.tag(fmt.Sprintf("sub-backed-off=%v", nsqd.VerifHits("sub:retry") > retries0))
	release()
	<-subDone
	cr.noteClosures()
	resp := "ROk"
	if subOK != "OK" {
		resp = "RInvalid (* " + subCode + " *)"
	} else {
		k2.sub = &[2]int{3, 1}
		cr.markChan(3, 1)
		cr.hadClient[[2]int{3, 1}] = true
	}
	cr.ev(fmt.Sprintf("EOp (OSub %d 3 1 true false %s) %s", k2.k, z(subNow), resp))
	cr.after()
	if k2.alive {
		cr.opRdy(k2, 5)
		cr.opPub(3, 1, false, false)
		cr.opPub(3, 1, false, true)
		for len(k2.held) > 0 {
			tg, id, _ := cr.someHeld(k2)
			cr.answer(k2, "FIN", tg, id, 0)
		}
	}
	return []lib.Case{cr.finish("sub-vs-topic-delete#"+strconv.FormatUint(seed, 10), seed, nil, nil)}
}

// ---- K3: graceful Exit while the consumer pump holds a dequeued message that is not yet
// registered in flight (C05): the message is neither in the memory queue nor in the
// in-flight map when Channel.flush runs ----
func fineExitWhileDelivering(seed uint64) []lib.Case {
	cr := newFineCase(seed, 3)
	cr.opCreateTopic(1)
	cr.opCreateChan(1, 1)
	k1 := cr.opConnect(false, false)
	cr.opSub(k1, 1, 1)
	cr.opRdy(k1, 1)
	reached, release := nsqd.VerifArmPark("clientpump:have-msg", 1)
	ids, total, now := cr.rawPub(1, 1)
	ok := waitReached(reached, 3*time.Second)
	cr.tag(fmt.Sprintf("delivery-parked=%v", ok))
	cr.ev(fmt.Sprintf("EOp (OPub 1 false [%s]%%N %d 0%%Z %s) ROk", strings.Join(ids, ";"), total, z(now)))
	cr.opRestartWith(release)
	return []lib.Case{cr.finish("exit-vs-deliver#"+strconv.FormatUint(seed, 10), seed, nil, nil, "kf=K3")}
}

// ---- a TOUCH that lands between the timeout scan's look at the priority queue and its pop
// from the in-flight set: the TOUCH is accepted and restarts the hold, so the scan must not
// time the message out on the strength of the deadline it saw before ----
func fineTouchWhileScanExpires(seed uint64) []lib.Case {
	cr := newFineCase(seed, 10)
	cr.opCreateTopic(1)
	cr.opCreateChan(1, 1)
	k1 := cr.opConnectTmo(1000, false) // msg_timeout 1 s
	cr.opSub(k1, 1, 1)
	cr.opRdy(k1, 1)
	cr.opPub(1, 1, false, false)
	tg, id, okh := cr.someHeld(k1)
	if !okh {
		return []lib.Case{cr.finish("touch-vs-timeout-scan-setup-failed#"+strconv.FormatUint(seed, 10), seed, nil, nil)}
	}
	cr.opRdy(k1, 0)
	time.Sleep(1300 * time.Millisecond) // the hold has really run out (nothing scans by itself in the harness)
	bi, _, _ := cr.d.VerifHeld(tname(1), cname(1))
	at := time.Now().UnixNano()
	reached, release := nsqd.VerifArmPark("scan-inflight:after-peek", 1)
	scanned := make(chan struct{})
	go func() { cr.d.VerifScan(tname(1), cname(1), at, true); close(scanned) }()
	ok := waitReached(reached, 3*time.Second)
	cr.tag(fmt.Sprintf("scan-parked-after-peek=%v", ok))
	cr.answer(k1, "TOUCH", tg, id, 0) // accepted: the message is still in the in-flight set
	release()
	<-scanned
	ai, _, _ := cr.d.VerifHeld(tname(1), cname(1))
	var expired []string
	after := tagsOf(ai)
	for t := range tagsOf(bi) {
		if !after[t] {
			expired = append(expired, strconv.Itoa(t))
			delete(k1.held, t)
		}
	}
	sort.Strings(expired)
	cr.ev(fmt.Sprintf("EOp (OScanInFlight 1 1 %s) ROk", z(at)))
	cr.ev(fmt.Sprintf("EExpired 1 1 true [%s]%%N", strings.Join(expired, ";")))
	cr.tag(fmt.Sprintf("expired-by-the-parked-scan=%d", len(expired)))
	cr.nontriv = true
	cr.after()
	return []lib.Case{cr.finish("touch-vs-timeout-scan#"+strconv.FormatUint(seed, 10), seed, nil, nil)}
}

// ---- a FIN that lands while the timeout scan is in the middle of its round (one expired
// message re-queued, two more to go): the scan must still time out the third ----
func fineFinWhileScanExpires(seed uint64) []lib.Case {
	cr := newFineCase(seed, 10)
	cr.opCreateTopic(1)
	cr.opCreateChan(1, 1)
	k1 := cr.opConnect(false, false)
	cr.opSub(k1, 1, 1)
	cr.opRdy(k1, 3)
	cr.opPub(1, 3, false, false)
	if len(k1.held) != 3 {
		return []lib.Case{cr.finish("fin-vs-timeout-scan-setup-failed#"+strconv.FormatUint(seed, 10), seed, nil, nil)}
	}
	cr.opRdy(k1, 0)
	cr.opPauseChan(1, 1, true)
	tags := make([]int, 0, 3)
	for tg := range k1.held {
		tags = append(tags, tg)
	}
	sort.Ints(tags) // delivery order = deadline order
	bi, _, _ := cr.d.VerifHeld(tname(1), cname(1))
	at := time.Now().Add(2 * time.Hour).UnixNano()
	reached, release := nsqd.VerifArmPark("scan-inflight:after-pop", 1)
	scanned := make(chan struct{})
	go func() { cr.d.VerifScan(tname(1), cname(1), at, true); close(scanned) }()
	ok := waitReached(reached, 3*time.Second)
	cr.tag(fmt.Sprintf("scan-parked-after-first-pop=%v", ok))
	// the consumer answers the SECOND message now: accepted, it is still in flight
	second := tags[1]
	code, _ := k1.c.cmdNoReply("FIN " + k1.held[second])
	cr.tag("fin:" + respOf(code)[:3])
	cr.ev(fmt.Sprintf("EOp (OFin %d %d) %s", k1.k, second, respOf(code))) // no snapshot: the scan is half-way
	delete(k1.held, second)
	release()
	<-scanned
	ai, _, _ := cr.d.VerifHeld(tname(1), cname(1))
	var expired []string
	after := tagsOf(ai)
	for t := range tagsOf(bi) {
		if !after[t] && t != second {
			expired = append(expired, strconv.Itoa(t))
			delete(k1.held, t)
		}
	}
	sort.Strings(expired)
	// linearisation recorded: the FIN (accepted before the scan reached that message), then the scan
	cr.ev(fmt.Sprintf("EOp (OScanInFlight 1 1 %s) ROk", z(at)))
	cr.ev(fmt.Sprintf("EExpired 1 1 true [%s]%%N", strings.Join(expired, ";")))
	cr.tag(fmt.Sprintf("expired-by-the-parked-scan=%d", len(expired)))
	cr.nontriv = true
	cr.after()
	cr.opScan(1, 1, true, scanAll) // whatever the interrupted round left behind must time out now
	cr.opPauseChan(1, 1, false)
	return []lib.Case{cr.finish("fin-vs-timeout-scan#"+strconv.FormatUint(seed, 10), seed, nil, nil)}
}

// ---- a SUB to a channel name whose deletion has removed it from the topic's map and is about
// to finish: the deletion tears the channel down BEFORE it frees the name, so the subscriber
// gets a fresh, empty channel - never a second channel object over the dying one's queue ----
func fineSubWhileChannelDeleting(seed uint64) []lib.Case {
	cr := newFineCase(seed, 0) // mem-queue-size 0: the backlog is in the channel's disk queue
	cr.opCreateTopic(1)
	cr.opCreateChan(1, 1)
	k1 := cr.opConnect(false, false)
	cr.opSub(k1, 1, 1)
	cr.opRdy(k1, 1)
	cr.opPub(1, 3, false, false) // k1 holds one, two wait on disk
	reached, release := nsqd.VerifArmPark("delete-channel:after-remove", 1)
	done := make(chan int, 1)
	go func() {
		done <- cr.post("/channel/delete", url.Values{"topic": {tname(1)}, "channel": {cname(1)}}, nil)
	}()
	ok := waitReached(reached, 3*time.Second)
	cr.tag(fmt.Sprintf("delete-parked-after-remove=%v", ok))
	n0 := len(cr.events)
	delete(cr.chans, [2]int{1, 1})
	delete(cr.cpaused, [2]int{1, 1})
	delete(cr.hadClient, [2]int{1, 1})
	k2 := cr.opConnect(false, false)
	cr.opSub(k2, 1, 1)
	cr.opRdy(k2, 2) // whatever the new channel object could read of the old queue would arrive now
	release()
	code := <-done
	// the deletion is recorded where its removal took effect: before the new subscription
	ev := fmt.Sprintf("EOp (ODeleteChan 1 1) %s", httpResp(code))
	cr.events = append(cr.events[:n0], append([]string{ev}, cr.events[n0:]...)...)
	cr.tag("delete-channel")
	cr.nontriv = true
	cr.after()
	cr.opPub(1, 1, false, false)
	return []lib.Case{cr.finish("sub-vs-channel-delete#"+strconv.FormatUint(seed, 10), seed, nil, nil)}
}

// ---- the replacement daemon is started while the old one is still in Exit (an impatient
// supervisor): the data-path lock must refuse it until the old one has flushed and closed
// everything; a replacement that gets in earlier never sees what is flushed after it opened
// the queues ----
func fineStartWhileExiting(seed uint64) []lib.Case {
	cr := newFineCase(seed, 10)
	cr.opCreateTopic(1)
	cr.opCreateChan(1, 1)
	k1 := cr.opConnect(false, false)
	cr.opSub(k1, 1, 1)
	cr.opRdy(k1, 1)
	cr.opPub(1, 3, false, false)                                     // one in flight, two in the memory queue
	atClose, goClose := nsqd.VerifArmPark("persist:after-rename", 1) // Exit: metadata written, topics not yet closed
	cr.opRestartWith(func() {
		ok := waitReached(atClose, 3*time.Second)
		cr.tag(fmt.Sprintf("exit-parked-before-closing-topics=%v", ok))
		d2, err := nsqdlib.StartLikeMain(cr.opts)
		cr.tag(fmt.Sprintf("early-start-refused=%v", err != nil))
		if err == nil {
			cr.pre = d2
		}
		goClose()
	})
	return []lib.Case{cr.finish("start-during-exit#"+strconv.FormatUint(seed, 10), seed, nil, nil)}
}

// ---- a channel with MANY ready consumers is paused: the flag must be in force before the
// first of them is woken to re-read it (a consumer woken earlier sees "not paused", goes back
// to waiting for messages and is never woken again).  No park: the wake-up loop over many
// consumers is the window; whatever is delivered after the acknowledged pause is the failure. ----
var manyConsumers = func() int {
	if v, err := strconv.Atoi(os.Getenv("VERIF_MANY")); err == nil && v > 0 {
		return v
	}
	return 120
}()

func finePauseManyConsumers(seed uint64) []lib.Case {
	cr := newFineCase(seed, 200)
	cr.opCreateTopic(1)
	cr.opCreateChan(1, 1)
	cr.quiet = true
	var ks []*shClient
	for i := 0; i < manyConsumers; i++ {
		k := cr.opConnectTmo(longTimeoutMs, false)
		cr.opSub(k, 1, 1)
		cr.opRdy(k, 1)
		ks = append(ks, k)
	}
	cr.quiet = false
	cr.after()
	for round := 0; round < 8; round++ {
		cr.opPauseChan(1, 1, true)
		cr.opPub(1, 40, false, false) // acknowledged after the pause: nothing of it may be delivered
		cr.opPauseChan(1, 1, false)
		// everything is delivered now; answer it so that the consumers are ready again
		for _, k := range ks {
			for tg, id := range k.held {
				cr.quiet = true
				cr.answer(k, "FIN", tg, id, 0)
				cr.quiet = false
			}
		}
		cr.after()
	}
	return []lib.Case{cr.finish("pause-many-consumers#"+strconv.FormatUint(seed, 10), seed, nil, nil)}
}

// ---- known finding K10: go-diskqueue reads at the end of a file the writer has just rolled
// away from when the reader had caught up (spurious EOF), renames the file to *.bad, and
// neither it nor nsqd ever removes it - it survives the deletion of its channel ----
func fineBadFileSurvivesDelete(seed uint64) []lib.Case {
	cr := newFineCase(seed, 0) // mem-queue-size 0: everything goes through the disk queues
	cr.countBad = true
	cr.opCreateTopic(1)
	cr.opCreateChan(1, 1)
	k1 := cr.opConnect(false, false)
	cr.opSub(k1, 1, 1)
	cr.opRdy(k1, 10)
	// three records of about 1070 bytes fill 3210 of the 4096 bytes of a file; each is read
	// and delivered before the next is written, so the reader has caught up ..
	for i := 0; i < 3; i++ {
		cr.opPubSized(1, maxMsgSize-12)
	}
	// .. when the fourth does not fit any more and the writer rolls to the next file
	cr.opPubSized(1, maxMsgSize-12)
	for tg, id := range k1.held {
		cr.answer(k1, "FIN", tg, id, 0)
	}
	cr.opDeleteChan(1, 1)
	return []lib.Case{cr.finish("bad-file-survives-delete#"+strconv.FormatUint(seed, 10), seed, nil, nil, "kf=K10")}
}

// ---- a topic name used again while its deletion is between freeing the name and its end: the
// deletion tears the topic down BEFORE it frees the name, so whoever comes next gets a fresh,
// empty topic - never a second topic object over the dying one's disk queue ----
func fineReuseWhileTopicDeleting(seed uint64) []lib.Case {
	cr := newFineCase(seed, 0) // mem-queue-size 0: the backlog is in the disk queues
	cr.opCreateTopic(1)
	cr.opCreateChan(1, 1)
	k1 := cr.opConnect(false, false)
	cr.opSub(k1, 1, 1)
	cr.opRdy(k1, 1)
	cr.opPub(1, 3, false, false) // k1 holds one, two wait in the channel's disk queue
	cr.opPauseTopic(1, true)
	cr.opPub(1, 2, false, false) // two more wait in the topic's own disk queue
	reached, release := nsqd.VerifArmPark("delete-topic:after-remove", 1)
	done := make(chan int, 1)
	go func() { done <- cr.post("/topic/delete", url.Values{"topic": {tname(1)}}, nil) }()
	ok := waitReached(reached, 3*time.Second)
	cr.tag(fmt.Sprintf("delete-parked-after-remove=%v", ok))
	n0 := len(cr.events)
	delete(cr.topics, 1)
	delete(cr.tpaused, 1)
	delete(cr.hadChan, 1)
	delete(cr.chans, [2]int{1, 1})
	delete(cr.cpaused, [2]int{1, 1})
	delete(cr.hadClient, [2]int{1, 1})
	k2 := cr.opConnect(false, false)
	cr.opSub(k2, 1, 1) // creates topic and channel anew
	cr.opRdy(k2, 5)    // whatever the new objects could read of the old queues would arrive now
	release()
	code := <-done
	ev := fmt.Sprintf("EOp (ODeleteTopic 1) %s", httpResp(code))
	cr.events = append(cr.events[:n0], append([]string{ev}, cr.events[n0:]...)...)
	cr.tag("delete-topic")
	cr.nontriv = true
	cr.after()
	cr.opPub(1, 2, false, false) // the new topic works and keeps what it is given
	cr.opRestart()
	return []lib.Case{cr.finish("reuse-vs-topic-delete#"+strconv.FormatUint(seed, 10), seed, nil, nil)}
}

// ---- sequential, no park: an Empty while one message of the consumer is deferred (REQ with a
// delay: already taken off its count) and another is in flight: afterwards the consumer's
// count is 0, so a RDY 1 consumer is sent exactly one of the next two messages ----
func fineEmptyAfterDelayedReq(seed uint64) []lib.Case {
	cr := newFineCase(seed, 10)
	cr.opCreateTopic(1)
	cr.opCreateChan(1, 1)
	k1 := cr.opConnect(false, false)
	cr.opSub(k1, 1, 1)
	cr.opRdy(k1, 1)
	cr.opPub(1, 2, false, false)
	if tg, id, ok := cr.someHeld(k1); ok {
		cr.answer(k1, "REQ", tg, id, deferMs) // deferred; the second message is delivered now
	}
	cr.opEmptyChan(1, 1)
	cr.opPub(1, 2, false, false) // RDY 1: one of them, not both
	return []lib.Case{cr.finish("empty-after-delayed-req#"+strconv.FormatUint(seed, 10), seed, nil, nil)}
}

// ---- graceful Exit while a TOUCH is between its in-flight pop and its push back: the
// message is in no set when the channel's backlog is written ----
func fineExitWhileTouching(seed uint64) []lib.Case {
	cr := newFineCase(seed, 3)
	cr.opCreateTopic(1)
	cr.opCreateChan(1, 1)
	k1 := cr.opConnect(false, false)
	cr.opSub(k1, 1, 1)
	cr.opRdy(k1, 1)
	cr.opPub(1, 1, false, false)
	tg, id, okh := cr.someHeld(k1)
	if !okh {
		return []lib.Case{cr.finish("exit-vs-touch-setup-failed#"+strconv.FormatUint(seed, 10), seed, nil, nil)}
	}
	reached, release := nsqd.VerifArmPark("touch:after-pop", 1)
	now := cr.now()
	k1.c.write([]byte("TOUCH " + id + "\n"))
	ok := waitReached(reached, 3*time.Second)
	cr.tag(fmt.Sprintf("touch-parked=%v", ok))
	cr.ev(fmt.Sprintf("EOp (OTouch %d %d %s) ROk", k1.k, tg, z(now)))
	cr.opRestartWith(release)
	return []lib.Case{cr.finish("exit-vs-touch#"+strconv.FormatUint(seed, 10), seed, nil, nil)}
}

// ---- Channel.Empty while a TOUCH is between its pop and its push back: the message must
// not outlive the empty (pushed back after it, it would stay in flight to its consumer and be
// redelivered when it times out) ----
func fineEmptyWhileTouching(seed uint64) []lib.Case {
	cr := newFineCase(seed, 10)
	cr.opCreateTopic(1)
	cr.opCreateChan(1, 1)
	k1 := cr.opConnect(false, false)
	cr.opSub(k1, 1, 1)
	cr.opRdy(k1, 1)
	cr.opPub(1, 1, false, false)
	tg, id, okh := cr.someHeld(k1)
	if !okh {
		return []lib.Case{cr.finish("touch-vs-empty-setup-failed#"+strconv.FormatUint(seed, 10), seed, nil, nil)}
	}
	reached, release := nsqd.VerifArmPark("touch:after-pop", 1)
	now := cr.now()
	k1.c.write([]byte("TOUCH " + id + "\n"))
	ok := waitReached(reached, 3*time.Second)
	cr.tag(fmt.Sprintf("touch-parked=%v", ok))
	// linearisation recorded: the TOUCH (its pop came first), then the empty
	cr.ev(fmt.Sprintf("EOp (OTouch %d %d %s) ROk", k1.k, tg, z(now)))
	done := make(chan int, 1)
	go func() { done <- cr.post("/channel/empty", url.Values{"topic": {tname(1)}, "channel": {cname(1)}}, nil) }()
	time.Sleep(150 * time.Millisecond)
	release()
	code := <-done
	cr.ev(fmt.Sprintf("EOp (OEmptyChan 1 1) %s", httpResp(code)))
	cr.tag("empty-channel")
	delete(k1.held, tg)
	cr.nontriv = true
	cr.after()
	// whatever outlived the empty is in flight to k1: a scan far ahead brings it back, and
	// the drain at the end of the case would receive it
	cr.opScan(1, 1, true, scanAll)
	cr.opPub(1, 1, false, false)
	return []lib.Case{cr.finish("touch-vs-empty#"+strconv.FormatUint(seed, 10), seed, nil, nil)}
}

// ---- graceful Exit while a REQ is between its in-flight pop and its re-queue (C05; the
// loss this used to cause was repaired: F16) ----
func fineExitWhileRequeueing(seed uint64) []lib.Case {
	cr := newFineCase(seed, 3)
	cr.opCreateTopic(1)
	cr.opCreateChan(1, 1)
	k1 := cr.opConnect(false, false)
	cr.opSub(k1, 1, 1)
	cr.opRdy(k1, 1)
	cr.opPub(1, 1, false, false)
	tg, id, okh := cr.someHeld(k1)
	if !okh {
		return []lib.Case{cr.finish("exit-vs-req-setup-failed#"+strconv.FormatUint(seed, 10), seed, nil, nil)}
	}
	// RDY 0 first: the re-queued message must not be handed to this (closing) connection
	// again, which would count a delivery attempt the harness cannot observe
	cr.opRdy(k1, 0)
	reached, release := nsqd.VerifArmPark("req:after-pop", 1)
	now := cr.now()
	k1.c.write([]byte("REQ " + id + " 0\n"))
	ok := waitReached(reached, 3*time.Second)
	cr.tag(fmt.Sprintf("req-parked=%v", ok))
	cr.ev(fmt.Sprintf("EOp (OReq %d %d 0%%Z %s) ROk", k1.k, tg, z(now)))
	delete(k1.held, tg)
	cr.opRestartWith(release)
	return []lib.Case{cr.finish("exit-vs-req#"+strconv.FormatUint(seed, 10), seed, nil, nil)}
}

// Exit racing a timeout / deferred scan: the scan worker is parked between popping the
// message from the in-flight (deferred) set and putting it back on the queue, then Exit
// starts.  The scan holds the channel's exit lock, so Exit has to wait for the re-queue
// and the flush then writes the message; without that lock the message is in no set when
// the backlog is written and is gone after the restart.
func fineExitWhileScanning(seed uint64, inflight bool) []lib.Case {
	cr := newFineCase(seed, 3)
	name := "exit-vs-timeout-scan"
	point := "scan-inflight:after-pop"
	if !inflight {
		name, point = "exit-vs-deferred-scan", "scan-deferred:after-pop"
	}
	cr.opCreateTopic(1)
	cr.opCreateChan(1, 1)
	var tg int
	if inflight {
		k1 := cr.opConnect(false, false)
		cr.opSub(k1, 1, 1)
		cr.opRdy(k1, 1)
		cr.opPub(1, 1, false, false)
		var okh bool
		tg, _, okh = cr.someHeld(k1)
		if !okh {
			return []lib.Case{cr.finish(name+"-setup-failed#"+strconv.FormatUint(seed, 10), seed, nil, nil)}
		}
		cr.opRdy(k1, 0)
		delete(k1.held, tg)
	} else {
		cr.opPub(1, 1, true, false)
		tg = cr.nextTag
	}
	cr.opPauseChan(1, 1, true)
	reached, release := nsqd.VerifArmPark(point, 1)
	at := time.Now().Add(2 * time.Hour).UnixNano()
	scanDone := make(chan struct{})
	go func() { cr.d.VerifScan(tname(1), cname(1), at, inflight); close(scanDone) }()
	ok := waitReached(reached, 3*time.Second)
	cr.tag(fmt.Sprintf("scan-parked=%v", ok))
	opn := "OScanInFlight"
	if !inflight {
		opn = "OScanDeferred"
	}
	cr.ev(fmt.Sprintf("EOp (%s 1 1 %s) ROk", opn, z(at)))
	cr.ev(fmt.Sprintf("EExpired 1 1 %s [%d]%%N", b(inflight), tg))
	cr.nontriv = true
	cr.opRestartWith(release)
	<-scanDone
	return []lib.Case{cr.finish(name+"#"+strconv.FormatUint(seed, 10), seed, nil, nil)}
}

// The consumer vanishes while its pump holds a dequeued message: nsqd registers the message
// in flight BEFORE it writes it, so the failed write leaves it owed (it times out and goes
// to the next consumer).  Registering only after a successful write would lose it.
func fineDisconnectWhileDelivering(seed uint64) []lib.Case {
	cr := newFineCase(seed, 3)
	cr.opCreateTopic(1)
	cr.opCreateChan(1, 1)
	k1 := cr.opConnect(false, false)
	cr.opSub(k1, 1, 1)
	cr.opRdy(k1, 1)
	reached, release := nsqd.VerifArmPark("clientpump:have-msg", 1)
	ids, total, now := cr.rawPub(1, 1)
	tg := cr.nextTag
	ok := waitReached(reached, 3*time.Second)
	cr.tag(fmt.Sprintf("delivery-parked=%v", ok))
	cr.ev(fmt.Sprintf("EOp (OPub 1 false [%s]%%N %d 0%%Z %s) ROk", strings.Join(ids, ";"), total, z(now)))
	if !ok {
		release()
		return []lib.Case{cr.finish("deliver-vs-disconnect-setup-failed#"+strconv.FormatUint(seed, 10), seed, nil, nil)}
	}
	k1.c.close()
	// wait until nsqd has dropped the connection (client removed from the channel, socket closed)
	deadline := time.Now().Add(3 * time.Second)
	for time.Now().Before(deadline) {
		n := 0
		for _, tp := range cr.statsInproc().Topics {
			for _, ch := range tp.Channels {
				n += len(ch.Clients)
			}
		}
		if n == 0 {
			break
		}
		time.Sleep(2 * time.Millisecond)
	}
	time.Sleep(50 * time.Millisecond)
	now2 := cr.now()
	release()
	// in the order of nsqd's own critical sections: the message was registered in flight
	// for k1 (attempt 1), the write failed, the connection is gone
	cr.ev(fmt.Sprintf("EOp (ODeliver %d %d %s) (RDelivered 1)", k1.k, tg, z(now2)))
	k1.alive = false
	cr.ev(fmt.Sprintf("EOp (ODisconnect %d) ROk", k1.k))
	cr.nontriv = true
	cr.after()
	cr.opScan(1, 1, true, scanAll)
	k2 := cr.opConnect(false, false)
	cr.opSub(k2, 1, 1)
	cr.opRdy(k2, 5)
	return []lib.Case{cr.finish("deliver-vs-disconnect#"+strconv.FormatUint(seed, 10), seed, nil, nil)}
}

// TOUCH restarts the hold with the consumer's NEGOTIATED msg_timeout (not the daemon
// default): a fixed sequence, no parking.  One consumer negotiated more than the default,
// one less; each TOUCHes, then scans with clocks between the two candidates must leave the
// first message held and take the second away.
func fineTouchThenScan(seed uint64) []lib.Case {
	cr := newFineCase(seed, 10)
	cr.opCreateTopic(1)
	cr.opCreateChan(1, 1)
	cr.opCreateChan(1, 2)
	kx := cr.opConnectTmo(xlongTimeoutMs, false)
	cr.opSub(kx, 1, 1)
	cr.opRdy(kx, 1)
	ks := cr.opConnectTmo(shortTimeoutMs, false)
	cr.opSub(ks, 1, 2)
	cr.opRdy(ks, 1)
	cr.opPub(1, 1, false, false)
	for _, sc := range []*shClient{kx, ks} {
		if tg, id, ok := cr.someHeld(sc); ok {
			cr.answer(sc, "TOUCH", tg, id, 0)
		}
	}
	cr.opScan(1, 1, true, scanMid)   // +90 s: default (60 s) has passed, negotiated (120 s) has not
	cr.opScan(1, 2, true, scanShort) // +20 s: negotiated (5 s) has passed, default (60 s) has not
	cr.opScan(1, 1, true, scanAll)
	cr.opScan(1, 2, true, scanAll)
	return []lib.Case{cr.finish("touch-then-scan#"+strconv.FormatUint(seed, 10), seed, nil, nil)}
}

// A topic is paused while its pump is busy handing a message on: the pause must still take
// effect (Topic.doPause waits for the pump); messages published after the acknowledged
// pause stay in the topic.
func finePauseWhilePumpBusy(seed uint64) []lib.Case {
	cr := newFineCase(seed, 10)
	cr.opCreateTopic(1)
	cr.opCreateChan(1, 1)
	reached, release := nsqd.VerifArmPark("topicpump:have-msg", 1)
	ids, total, now := cr.rawPub(1, 1)
	ok := waitReached(reached, 3*time.Second)
	cr.tag(fmt.Sprintf("pump-parked=%v", ok))
	cr.ev(fmt.Sprintf("EOp (OPub 1 false [%s]%%N %d 0%%Z %s) ROk", strings.Join(ids, ";"), total, z(now)))
	pnow := cr.now()
	done := make(chan int, 1)
	go func() { done <- cr.post("/topic/pause", url.Values{"topic": {tname(1)}}, nil) }()
	time.Sleep(100 * time.Millisecond)
	release()
	code := <-done
	if code == 200 {
		cr.tpaused[1] = true
	}
	cr.tag("pause-topic:true")
	cr.ev(fmt.Sprintf("EOp (OPauseTopic 1 true %s) %s", z(pnow), httpResp(code)))
	cr.nontriv = true
	cr.after()
	cr.opPub(1, 2, false, false)
	cr.opPub(1, 1, false, true)
	cr.opPauseTopic(1, false)
	return []lib.Case{cr.finish("pause-vs-pump#"+strconv.FormatUint(seed, 10), seed, nil, nil)}
}

// Empty vs the consumers it wakes: Channel.Empty resets its consumers' in-flight counters;
// a consumer whose RDY window was full becomes ready by that reset.  If the reset came
// BEFORE the queue is drained, the woken consumer could take a queued message which the
// empty then fails to discard (it is delivered after the empty, attempts 1, and stays in
// flight).  The empty is parked just before its drain loop.
func fineEmptyWakesConsumer(seed uint64) []lib.Case {
	cr := newFineCase(seed, 10)
	cr.opCreateTopic(1)
	cr.opCreateChan(1, 1)
	k1 := cr.opConnect(false, false)
	cr.opSub(k1, 1, 1)
	cr.opRdy(k1, 1)
	cr.opPub(1, 3, false, false) // k1 holds one, two wait in the memory queue
	reached, release := nsqd.VerifArmPark("empty:before-drain", 1)
	done := make(chan int, 1)
	go func() { done <- cr.post("/channel/empty", url.Values{"topic": {tname(1)}, "channel": {cname(1)}}, nil) }()
	ok := waitReached(reached, 3*time.Second)
	cr.tag(fmt.Sprintf("empty-parked=%v", ok))
	time.Sleep(150 * time.Millisecond)
	release()
	code := <-done
	cr.ev(fmt.Sprintf("EOp (OEmptyChan 1 1) %s", httpResp(code)))
	k1.held = map[int]string{}
	cr.tag("empty-channel")
	cr.nontriv = true
	cr.after()
	cr.opPub(1, 1, false, false) // the consumer keeps its subscription and gets what is published next
	return []lib.Case{cr.finish("empty-vs-wakeup#"+strconv.FormatUint(seed, 10), seed, nil, nil)}
}

// Empty vs a timeout scan / a REQ that has popped a message from the in-flight set and not
// yet put it back on the queue: the empty finds it in neither place, the put then re-adds
// it, so a message that was in flight when the channel was emptied survives the empty.
func fineEmptyVsRequeue(seed uint64, viaReq bool) []lib.Case {
	cr := newFineCase(seed, 10)
	name, point := "scan-vs-empty", "scan-inflight:after-pop"
	if viaReq {
		name, point = "req-vs-empty", "req:after-pop"
	}
	cr.opCreateTopic(1)
	cr.opCreateChan(1, 1)
	k1 := cr.opConnect(false, false)
	cr.opSub(k1, 1, 1)
	cr.opRdy(k1, 1)
	cr.opPub(1, 1, false, false)
	tg, id, okh := cr.someHeld(k1)
	if !okh {
		return []lib.Case{cr.finish(name+"-setup-failed#"+strconv.FormatUint(seed, 10), seed, nil, nil)}
	}
	cr.opRdy(k1, 0)
	reached, release := nsqd.VerifArmPark(point, 1)
	at := time.Now().Add(2 * time.Hour).UnixNano()
	now := cr.now()
	moved := make(chan struct{})
	if viaReq {
		k1.c.write([]byte("REQ " + id + " 0\n"))
		close(moved)
	} else {
		go func() { cr.d.VerifScan(tname(1), cname(1), at, true); close(moved) }()
	}
	ok := waitReached(reached, 3*time.Second)
	cr.tag(fmt.Sprintf("requeue-parked=%v", ok))
	// linearisation recorded: the re-queue (its pop came first), then the empty
	if viaReq {
		cr.ev(fmt.Sprintf("EOp (OReq %d %d 0%%Z %s) ROk", k1.k, tg, z(now)))
	} else {
		cr.ev(fmt.Sprintf("EOp (OScanInFlight 1 1 %s) ROk", z(at)))
		cr.ev(fmt.Sprintf("EExpired 1 1 true [%d]%%N", tg))
	}
	delete(k1.held, tg)
	// the empty waits for the requeue in progress (it takes the channel's exit lock)
	done := make(chan int, 1)
	go func() { done <- cr.post("/channel/empty", url.Values{"topic": {tname(1)}, "channel": {cname(1)}}, nil) }()
	time.Sleep(150 * time.Millisecond)
	release()
	<-moved
	code := <-done
	cr.ev(fmt.Sprintf("EOp (OEmptyChan 1 1) %s", httpResp(code)))
	cr.tag("empty-channel")
	cr.nontriv = true
	cr.after()
	cr.opRdy(k1, 1) // whatever survived the empty would be delivered now
	cr.opPub(1, 1, false, false)
	hidden := []int(nil)
	ignore := []int(nil)
	if viaReq {
		// the REQ handler updates its consumer's counter after the channel-side requeue,
		// outside every lock: whether that lands before or after the empty's reset is
		// the K1 family (known); this scenario is judged beyond that counter
		hidden, ignore = []int{k1.k}, []int{13, 3}
	}
	return []lib.Case{cr.finish(name+"#"+strconv.FormatUint(seed, 10), seed, hidden, ignore)}
}

// ---- Channel.Empty while the DEFERRED scan is between its pop and its put: the empty waits
// (exit lock), so the released message is discarded with the rest ----
func fineEmptyVsDeferredScan(seed uint64) []lib.Case {
	cr := newFineCase(seed, 10)
	cr.opCreateTopic(1)
	cr.opCreateChan(1, 1)
	cr.opPub(1, 1, true, false) // a deferred publish: sits in the channel's deferred set
	tg := cr.nextTag
	cr.opPauseChan(1, 1, true)
	reached, release := nsqd.VerifArmPark("scan-deferred:after-pop", 1)
	at := time.Now().Add(2 * time.Hour).UnixNano()
	moved := make(chan struct{})
	go func() { cr.d.VerifScan(tname(1), cname(1), at, false); close(moved) }()
	ok := waitReached(reached, 3*time.Second)
	cr.tag(fmt.Sprintf("requeue-parked=%v", ok))
	cr.ev(fmt.Sprintf("EOp (OScanDeferred 1 1 %s) ROk", z(at)))
	cr.ev(fmt.Sprintf("EExpired 1 1 false [%d]%%N", tg))
	done := make(chan int, 1)
	go func() { done <- cr.post("/channel/empty", url.Values{"topic": {tname(1)}, "channel": {cname(1)}}, nil) }()
	time.Sleep(150 * time.Millisecond)
	release()
	<-moved
	code := <-done
	cr.ev(fmt.Sprintf("EOp (OEmptyChan 1 1) %s", httpResp(code)))
	cr.tag("empty-channel")
	cr.nontriv = true
	cr.after()
	cr.opPauseChan(1, 1, false)
	k1 := cr.opConnect(false, false)
	cr.opSub(k1, 1, 1)
	cr.opRdy(k1, 1) // whatever survived the empty would be delivered now
	cr.opPub(1, 1, false, false)
	return []lib.Case{cr.finish("dscan-vs-empty#"+strconv.FormatUint(seed, 10), seed, nil, nil)}
}

// A publish that has passed the topic's exit check while the topic is being deleted: the
// delete must wait for it (it takes the topic's write lock before it empties and removes the
// queues), so that nothing the publish writes to disk survives the delete.
func finePubWhileTopicDeleting(seed uint64) []lib.Case {
	cr := newFineCase(seed, 0) // mem-queue-size 0: the put goes to the disk queue
	cr.opCreateTopic(1)
	reached, release := nsqd.VerifArmPark("topic-put:after-exit-check", 1)
	cr.nextTag++
	body := cr.body(cr.nextTag)
	now := cr.now()
	pubDone := make(chan string, 1)
	go func() { ok, _, _ := cr.pub.cmdReply(pubPayload(tname(1), body)); pubDone <- ok }()
	okp := waitReached(reached, 3*time.Second)
	cr.tag(fmt.Sprintf("publish-parked=%v", okp))
	delDone := make(chan int, 1)
	go func() { delDone <- cr.post("/topic/delete", url.Values{"topic": {tname(1)}}, nil) }()
	time.Sleep(150 * time.Millisecond)
	release()
	ans := <-pubDone
	code := <-delDone
	resp := "ROk"
	if ans != "OK" {
		resp = "RInvalid"
	}
	cr.ev(fmt.Sprintf("EOp (OPub 1 false [%d]%%N %d 0%%Z %s) %s", cr.nextTag, len(body), z(now), resp))
	cr.ev(fmt.Sprintf("EOp (ODeleteTopic 1) %s", httpResp(code)))
	delete(cr.topics, 1)
	cr.tag("delete-topic")
	cr.nontriv = true
	cr.after()
	// a topic re-created under the same name starts empty
	cr.opCreateTopic(1)
	cr.opCreateChan(1, 1)
	return []lib.Case{cr.finish("pub-vs-topic-delete#"+strconv.FormatUint(seed, 10), seed, nil, nil)}
}

// TOUCH caps the hold at max-msg-timeout after the delivery the consumer is holding — the
// LAST delivery, not the first one of a message that was delivered before.  max-msg-timeout
// is 6 s, the consumer's msg_timeout 5 s; the message is delivered, requeued 3.5 s later and
// delivered again; a TOUCH 1.2 s after that runs into the cap.  A scan whose clock lies
// between (first delivery + 6 s) and (second delivery + 6 s) must leave the message held.
func fineTouchCapAfterRedelivery(seed uint64) []lib.Case {
	cr := newFineCaseWith(seed, 10, func(o *nsqd.Options) { o.MaxMsgTimeout = 6 * time.Second; o.MsgTimeout = 4 * time.Second })
	cr.opCreateTopic(1)
	cr.opCreateChan(1, 1)
	k1 := cr.opConnectTmo(shortTimeoutMs, false)
	cr.opSub(k1, 1, 1)
	cr.opRdy(k1, 1)
	cr.opPub(1, 1, false, false)
	tg, id, ok := cr.someHeld(k1)
	if !ok {
		return []lib.Case{cr.finish("touch-cap-setup-failed#"+strconv.FormatUint(seed, 10), seed, nil, nil)}
	}
	time.Sleep(3500 * time.Millisecond)
	cr.answer(k1, "REQ", tg, id, 0) // comes straight back to the same consumer: second delivery
	tg2, id2, ok2 := cr.someHeld(k1)
	if !ok2 || tg2 != tg {
		return []lib.Case{cr.finish("touch-cap-setup-failed#"+strconv.FormatUint(seed, 10), seed, nil, nil)}
	}
	second := time.Now()
	time.Sleep(1200 * time.Millisecond)
	cr.answer(k1, "TOUCH", tg2, id2, 0)
	// a TOUCH of a message that is already at the cap changes nothing (and must not lose it)
	cr.answer(k1, "TOUCH", tg2, id2, 0)
	// clock 4.2 s after the second delivery: past (first delivery + 6 s) and past (second
	// delivery + the daemon's default msg-timeout 4 s), before (second delivery + 6 s)
	cr.scanAt(1, 1, true, second.Add(4200*time.Millisecond).UnixNano())
	cr.opScan(1, 1, true, scanAll)
	return []lib.Case{cr.finish("touch-cap#"+strconv.FormatUint(seed, 10), seed, nil, nil)}
}

// The last two channels of an ephemeral topic are deleted at overlapping times: the first
// deletion is parked just before it removes its channel from the topic's map, the second
// runs to completion, then the first continues.  The topic must go with its last channel
// (each deletion has to count the channels AFTER its own removal).
func fineTwoDeletesOnEphemeralTopic(seed uint64) []lib.Case {
	cr := newFineCase(seed, 10)
	cr.opCreateTopic(3)
	cr.opCreateChan(3, 1)
	cr.opCreateChan(3, 2)
	reached, release := nsqd.VerifArmPark("delete-channel:before-remove", 1)
	first := make(chan int, 1)
	go func() {
		first <- cr.post("/channel/delete", url.Values{"topic": {tname(3)}, "channel": {cname(1)}}, nil)
	}()
	ok := waitReached(reached, 3*time.Second)
	cr.tag(fmt.Sprintf("channel-delete-parked=%v", ok))
	code2 := cr.post("/channel/delete", url.Values{"topic": {tname(3)}, "channel": {cname(2)}}, nil)
	release()
	code1 := <-first
	cr.ev(fmt.Sprintf("EOp (ODeleteChan 3 2) %s", httpResp(code2)))
	cr.ev(fmt.Sprintf("EOp (ODeleteChan 3 1) %s", httpResp(code1)))
	delete(cr.chans, [2]int{3, 1})
	delete(cr.chans, [2]int{3, 2})
	delete(cr.topics, 3)
	cr.hadChan[3] = true
	cr.tag("delete-channel")
	cr.nontriv = true
	cr.after()
	return []lib.Case{cr.finish("two-deletes-on-ephemeral-topic#"+strconv.FormatUint(seed, 10), seed, nil, nil)}
}

// An HTTP publish that has passed the topic's exit check when a graceful Exit closes the
// topic: if it is answered 200 afterwards, the message must survive the restart (the
// close has to wait for a publish in progress and flush what it wrote).
func fineExitWhilePublishing(seed uint64) []lib.Case {
	cr := newFineCase(seed, 10)
	cr.opCreateTopic(1)
	cr.opCreateChan(1, 1)
	// the publisher has its topic and is about to take the topic's read lock ..
	atLock, goLock := nsqd.VerifArmPark("topic-put:before-rlock", 1)
	cr.nextTag++
	tg := cr.nextTag
	body := cr.body(tg)
	now := cr.now()
	pubDone := make(chan int, 1)
	go func() { pubDone <- cr.post("/pub", url.Values{"topic": {tname(1)}}, body) }()
	ok := waitReached(atLock, 3*time.Second)
	// .. Exit has written the metadata and is about to close the topics ..
	atClose, goClose := nsqd.VerifArmPark("persist:after-rename", 1)
	// .. the publisher passes the exit check ..
	reached, release0 := nsqd.VerifArmPark("topic-put:after-exit-check", 1)
	release := func() {}
	_ = reached
	go func() {
		if waitReached(atClose, 3*time.Second) {
			goLock()
			waitReached(reached, 3*time.Second)
		}
		goClose()
	}()
	release = func() { goLock(); goClose(); release0() }
	cr.tag(fmt.Sprintf("publish-parked=%v", ok))
	answered := 0
	cr.opRestartWithBefore(release, func() {
		// recorded before ERestart: the publish was answered while the old daemon was shutting down
		select {
		case answered = <-pubDone:
		case <-time.After(5 * time.Second):
		}
		if answered == 200 {
			cr.ev(fmt.Sprintf("EAcked (OPub 1 false [%d]%%N %d 0%%Z %s) ROk", tg, len(body), z(now)))
			cr.tag("http-pub-acknowledged-during-exit")
		} else {
			cr.tag(fmt.Sprintf("http-pub-refused-during-exit=%d", answered))
		}
	})
	cr.nontriv = true
	return []lib.Case{cr.finish("exit-vs-pub#"+strconv.FormatUint(seed, 10), seed, nil, nil)}
}

var fineScenarios = map[string]func(uint64) []lib.Case{
	"exit-vs-pub":                    fineExitWhilePublishing,
	"exit-vs-touch":                  fineExitWhileTouching,
	"touch-vs-timeout-scan":          fineTouchWhileScanExpires,
	"fin-vs-timeout-scan":            fineFinWhileScanExpires,
	"sub-vs-channel-delete":          fineSubWhileChannelDeleting,
	"start-during-exit":              fineStartWhileExiting,
	"pause-many-consumers":           finePauseManyConsumers,
	"bad-file-survives-delete":       fineBadFileSurvivesDelete,
	"reuse-vs-topic-delete":          fineReuseWhileTopicDeleting,
	"empty-after-delayed-req":        fineEmptyAfterDelayedReq,
	"touch-vs-empty":                 fineEmptyWhileTouching,
	"dscan-vs-empty":                 fineEmptyVsDeferredScan,
	"two-deletes-on-ephemeral-topic": fineTwoDeletesOnEphemeralTopic,
	"touch-cap":                      fineTouchCapAfterRedelivery,
	"pub-vs-topic-delete":            finePubWhileTopicDeleting,
	"scan-vs-empty":                  func(seed uint64) []lib.Case { return fineEmptyVsRequeue(seed, false) },
	"req-vs-empty":                   func(seed uint64) []lib.Case { return fineEmptyVsRequeue(seed, true) },
	"empty-vs-wakeup":                fineEmptyWakesConsumer,
	"pause-vs-pump":                  finePauseWhilePumpBusy,
	"touch-then-scan":                fineTouchThenScan,
	"deliver-vs-disconnect":          fineDisconnectWhileDelivering,
	"exit-vs-timeout-scan":           func(seed uint64) []lib.Case { return fineExitWhileScanning(seed, true) },
	"exit-vs-deferred-scan":          func(seed uint64) []lib.Case { return fineExitWhileScanning(seed, false) },
	"exit-vs-deliver":                fineExitWhileDelivering,
	"exit-vs-req":                    fineExitWhileRequeueing,
	"pump-vs-sub":                    fineSubWhilePumpBusy,
	"deliver-vs-empty":               fineEmptyWhileDelivering,
	"fin-vs-empty":                   fineEmptyWhileFinishing,
	"sub-vs-topic-delete":            fineSubWhileTopicDeleting,
}

// which forced interleavings each property's profile runs
var fineByProfile = map[string][]string{
	"c01": {"pump-vs-sub", "deliver-vs-disconnect", "touch-cap", "exit-vs-pub", "fin-vs-timeout-scan"},
	"c08": {"deliver-vs-empty", "sub-vs-topic-delete", "fin-vs-empty", "empty-vs-wakeup", "scan-vs-empty", "req-vs-empty", "pub-vs-topic-delete", "two-deletes-on-ephemeral-topic", "touch-vs-empty", "dscan-vs-empty", "sub-vs-channel-delete", "bad-file-survives-delete", "reuse-vs-topic-delete"},
	"c03": {"fin-vs-empty", "deliver-vs-empty", "pause-vs-pump", "pause-many-consumers", "empty-after-delayed-req"},
	"c13": {"fin-vs-empty", "deliver-vs-empty", "touch-cap", "sub-vs-channel-delete"},
	"c02": {"deliver-vs-disconnect", "touch-then-scan", "touch-cap", "touch-vs-timeout-scan", "sub-vs-channel-delete"},
	"c04": {"touch-then-scan", "touch-cap", "touch-vs-timeout-scan", "fin-vs-timeout-scan"},
	"c05": {"exit-vs-deliver", "exit-vs-req", "exit-vs-timeout-scan", "exit-vs-deferred-scan", "deliver-vs-disconnect", "exit-vs-touch", "start-during-exit"},
}
