package main

// Black-box runs of the real nsq_to_nsq / nsq_to_http binaries against an in-process
// source nsqd and scripted stub destinations (C20, acknowledgement half).

import (
	"bytes"
	"fmt"
	"os"
	"os/exec"
	"path/filepath"
	"regexp"
	"strings"
	"sync"
	"syscall"
	"time"

	"github.com/nsqio/go-nsq"
	"github.com/nsqio/nsq/nsqd"

	"verifharness/lib"
	"verifharness/nsqdlib"
)

type ackIn struct {
	Tool     string   `json:"tool"`      // nsq_to_nsq | nsq_to_http
	Method   string   `json:"method"`    // post | get (nsq_to_http)
	ToolMode string   `json:"tool_mode"` // round-robin | hostpool | epsilon-greedy | all
	Scripts  []string `json:"scripts"`   // one per destination
	Refuse   []int    `json:"refuse"`    // nsq_to_nsq: first connections closed at accept, per destination
	NMsg     int      `json:"nmsg"`
	Sample   bool     `json:"sample"` // nsq_to_http --sample 0.5
	Filter   bool     `json:"filter"` // nsq_to_nsq --require-json-field f
	Seed     uint64   `json:"seed"`
	MaxInFl  int      `json:"max_in_flight"`
}

// go-nsq's Config.MaxAttempts default; neither tool overrides it (coq/gen/RelayCfg.v)
const defaultMaxAttempts = 5

var giveUpRe = regexp.MustCompile(`msg ([0-9a-f]{16}) attempted \d+ times, giving up`)

func genScript(r *lib.Rand, alphabet string, maxRun int) string {
	// mostly accepting, with runs of failures shorter than maxRun
	var sb strings.Builder
	n := r.Intn(14)
	run := 0
	for i := 0; i < n; i++ {
		if r.Chance(50) && run < maxRun {
			sb.WriteByte(alphabet[1+r.Intn(len(alphabet)-1)])
			run++
		} else {
			sb.WriteByte(alphabet[0])
			run = 0
		}
	}
	return sb.String()
}

func genAck(r *lib.Rand, k int) input {
	a := &ackIn{NMsg: 8 + r.Intn(40), Seed: r.U64(), MaxInFl: []int{1, 5, 200}[r.Intn(3)]}
	nd := 1 + r.Intn(3)
	if r.Bool() {
		a.Tool = "nsq_to_nsq"
		a.ToolMode = []string{"round-robin", "hostpool", "epsilon-greedy"}[r.Intn(3)]
		for i := 0; i < nd; i++ {
			sc := genScript(r, "OEC", 2)
			if a.MaxInFl > 1 {
				// a close fails every publish in flight on that connection: keep one per script, so that
				// most runs stay below max_attempts requeues per message (the others are classified K7)
				if i := strings.IndexByte(sc, 'C'); i >= 0 {
					sc = sc[:i+1] + strings.ReplaceAll(sc[i+1:], "C", "E")
				}
			}
			a.Scripts = append(a.Scripts, sc)
			rf := 0
			if r.Chance(20) {
				rf = 1
			}
			a.Refuse = append(a.Refuse, rf)
		}
		a.Filter = r.Chance(15)
	} else {
		a.Tool = "nsq_to_http"
		a.Method = []string{"post", "get"}[r.Intn(2)]
		a.ToolMode = []string{"round-robin", "hostpool", "epsilon-greedy", "all"}[r.Intn(4)]
		for i := 0; i < nd; i++ {
			a.Scripts = append(a.Scripts, genScript(r, "243B5C", 2))
		}
		a.Sample = r.Chance(12)
	}
	return input{Name: fmt.Sprintf("ack-%d", k), Mode: "ack", Ack: a}
}

func fixedAcks() []input {
	return []input{
		// witnesses of known finding K7: five rejections, then the client library finishes the message
		{Name: "kf-max-attempts-http", Mode: "ack", Ack: &ackIn{Tool: "nsq_to_http", Method: "post", ToolMode: "round-robin", Scripts: []string{"5555555"}, NMsg: 1, Seed: 1, MaxInFl: 1}},
		{Name: "kf-max-attempts-nsq", Mode: "ack", Ack: &ackIn{Tool: "nsq_to_nsq", ToolMode: "round-robin", Scripts: []string{"EEEEEEE"}, Refuse: []int{0}, NMsg: 1, Seed: 1, MaxInFl: 1}},
		{Name: "ack-fixed-nsq-rr", Mode: "ack", Ack: &ackIn{Tool: "nsq_to_nsq", ToolMode: "round-robin", Scripts: []string{"OEOCO", "EOO"}, Refuse: []int{0, 1}, NMsg: 12, Seed: 1, MaxInFl: 5}},
		{Name: "ack-fixed-http-post-codes", Mode: "ack", Ack: &ackIn{Tool: "nsq_to_http", Method: "post", ToolMode: "round-robin", Scripts: []string{"2435B2C2"}, NMsg: 10, Seed: 2, MaxInFl: 1}},
		{Name: "ack-fixed-http-get-codes", Mode: "ack", Ack: &ackIn{Tool: "nsq_to_http", Method: "get", ToolMode: "hostpool", Scripts: []string{"2425B2"}, NMsg: 10, Seed: 3, MaxInFl: 1}},
		{Name: "ack-fixed-http-all", Mode: "ack", Ack: &ackIn{Tool: "nsq_to_http", Method: "post", ToolMode: "all", Scripts: []string{"22", "25", "2"}, NMsg: 6, Seed: 4, MaxInFl: 1}},
		// mode all, several destinations, partial failures on one of them (status and close; a closed
		// reused connection makes net/http re-send a GET to the same destination)
		{Name: "ack-fixed-http-all-get-partial", Mode: "ack", Ack: &ackIn{Tool: "nsq_to_http", Method: "get", ToolMode: "all", Scripts: []string{"", "22C42224C2"}, NMsg: 20, Seed: 5, MaxInFl: 1}},
		{Name: "ack-fixed-http-all-get-partial-3", Mode: "ack", Ack: &ackIn{Tool: "nsq_to_http", Method: "get", ToolMode: "all", Scripts: []string{"22422", "2C25", "C2B2C"}, NMsg: 16, Seed: 6, MaxInFl: 5}},
		{Name: "ack-fixed-http-all-post-partial", Mode: "ack", Ack: &ackIn{Tool: "nsq_to_http", Method: "post", ToolMode: "all", Scripts: []string{"2222C2", "25B2", "2C3"}, NMsg: 14, Seed: 7, MaxInFl: 200}},
	}
}

func answerCoq(tool string, a byte) string {
	if tool == "nsq_to_nsq" {
		switch a {
		case 'O':
			return "AOk"
		case 'E':
			return "AErr"
		default:
			return "AClose"
		}
	}
	switch a {
	case '2':
		return "(AStatus 200)"
	case '4':
		return "(AStatus 204)"
	case '3':
		return "(AStatus 301)"
	case 'B':
		return "(AStatus 400)"
	case '5':
		return "(AStatus 500)"
	}
	return "AClose"
}

type quiesce struct {
	ok       bool
	requeues uint64
	timeouts uint64
}

func waitQuiescent(n *nsqd.NSQD, topic, channel string, limit time.Duration) quiesce {
	deadline := time.Now().Add(limit)
	stable := 0
	var q quiesce
	for time.Now().Before(deadline) {
		st := n.GetStats(topic, channel, false)
		if len(st.Topics) == 1 && len(st.Topics[0].Channels) == 1 {
			c := st.Topics[0].Channels[0]
			q.requeues, q.timeouts = c.RequeueCount, c.TimeoutCount
			if st.Topics[0].Depth == 0 && c.Depth == 0 && c.InFlightCount == 0 && c.DeferredCount == 0 {
				stable++
				if stable >= 3 {
					q.ok = true
					return q
				}
			} else {
				stable = 0
			}
		}
		time.Sleep(50 * time.Millisecond)
	}
	return q
}

func runAck(in input) (lib.Case, error) {
	a := in.Ack
	bin := filepath.Join(os.Getenv("VERIF_BIN_DIR"), a.Tool)
	dir, err := os.MkdirTemp(nsqdlib.ScratchDir(), "ack-")
	if err != nil {
		return lib.Case{}, err
	}
	defer os.RemoveAll(dir)
	r := lib.NewRand(a.Seed)
	opts := nsqdlib.NewOpts(dir)
	opts.MsgTimeout = 20 * time.Second
	n, err := nsqdlib.Start(opts)
	if err != nil {
		return lib.Case{}, err
	}
	defer n.Exit()
	channel := a.Tool
	topic := n.GetTopic("src")
	topic.GetChannel(channel)

	type src struct {
		body   []byte
		passes bool
	}
	var srcs []src
	idBody := map[string][]byte{}
	for i := 0; i < a.NMsg; i++ {
		var b []byte
		passes := true
		switch {
		case a.Filter:
			if r.Chance(60) {
				b = []byte(fmt.Sprintf(`{"f":%d,"i":%d}`, r.Intn(1000), i))
			} else if r.Chance(50) {
				b = []byte(fmt.Sprintf(`{"g":%d,"i":%d}`, r.Intn(1000), i))
				passes = false
			} else {
				b = []byte(fmt.Sprintf("not json %d", i))
				passes = false
			}
		case r.Chance(15):
			b = append([]byte(fmt.Sprintf("bin-%d-", i)), r.Bytes(1+r.Intn(20))...)
		case r.Chance(10):
			b = []byte(fmt.Sprintf("sp %d &=%%+?/ü\n%d", i, r.Intn(1000)))
		default:
			b = []byte(fmt.Sprintf("m-%d-%x", i, r.Intn(1<<20)))
		}
		srcs = append(srcs, src{b, passes})
		id := topic.GenerateID()
		idBody[string(id[:])] = b
		topic.PutMessage(nsqd.NewMessage(id, b))
	}

	log := &reqLog{}
	args := []string{"-nsqd-tcp-address", n.RealTCPAddr().String(), "-topic", "src", "-max-in-flight", fmt.Sprint(a.MaxInFl),
		"-consumer-opt", "default_requeue_delay,15ms", "-consumer-opt", "max_requeue_delay,60ms", "-consumer-opt", "max_backoff_duration,0s"}
	if a.ToolMode != "" {
		args = append(args, "-mode", a.ToolMode)
	}
	var closers []func()
	for i, sc := range a.Scripts {
		if a.Tool == "nsq_to_nsq" {
			rf := 0
			if i < len(a.Refuse) {
				rf = a.Refuse[i]
			}
			s := newNSQStub(log, i, sc, rf)
			closers = append(closers, s.close)
			args = append(args, "-destination-nsqd-tcp-address", s.addr())
		} else {
			s := newHTTPStub(log, i, sc)
			closers = append(closers, s.close)
			if a.Method == "get" {
				args = append(args, "-get", "http://"+s.addr()+"/?q=%s")
			} else {
				args = append(args, "-post", "http://"+s.addr()+"/")
			}
		}
	}
	defer func() {
		for _, c := range closers {
			c()
		}
	}()
	if a.Tool == "nsq_to_nsq" {
		args = append(args, "-destination-topic", "dst", "-status-every", "0")
		if a.Filter {
			args = append(args, "-require-json-field", "f")
		}
	} else {
		args = append(args, "-status-every", "0", "-n", "8")
		if a.Sample {
			args = append(args, "-sample", "0.5")
		}
	}
	cmd := exec.Command(bin, args...)
	var stderr bytes.Buffer
	cmd.Stderr = &stderr
	if err := cmd.Start(); err != nil {
		return lib.Case{}, err
	}
	exited := make(chan struct{})
	go func() { cmd.Wait(); close(exited) }()
	q := waitQuiescent(n, "src", channel, 45*time.Second)
	cmd.Process.Signal(syscall.SIGTERM)
	select {
	case <-exited:
	case <-time.After(40 * time.Second):
		cmd.Process.Kill()
		<-exited
	}
	// what the channel still owes
	owed := map[string]bool{}
	if !q.ok {
		var mu sync.Mutex
		cfg := nsq.NewConfig()
		cfg.MaxInFlight = 200
		cons, err := nsq.NewConsumer("src", channel, cfg)
		if err == nil {
			cons.SetLoggerLevel(nsq.LogLevelError)
			cons.AddHandler(nsq.HandlerFunc(func(m *nsq.Message) error {
				mu.Lock()
				owed[string(m.Body)] = true
				mu.Unlock()
				return nil
			}))
			if cons.ConnectToNSQD(n.RealTCPAddr().String()) == nil {
				waitQuiescent(n, "src", channel, 40*time.Second)
			}
			cons.Stop()
			<-cons.StopChan
		}
	}
	entries := log.snapshot()
	gaveUp := map[string]bool{}
	var gaveL []string
	for _, m := range giveUpRe.FindAllStringSubmatch(stderr.String(), -1) {
		if b, ok := idBody[m[1]]; ok && !gaveUp[string(b)] {
			gaveUp[string(b)] = true
			gaveL = append(gaveL, lib.CoqBytes(b))
		}
	}
	tool := map[string]string{"nsq_to_nsq": "RelayAck.ToNsq", "nsq_to_http": "RelayAck.HttpPost"}[a.Tool]
	if a.Tool == "nsq_to_http" && a.Method == "get" {
		tool = "RelayAck.HttpGet"
	}
	mode := map[string]string{"round-robin": "MRoundRobin", "hostpool": "MHostPool", "epsilon-greedy": "MHostPool"}[a.ToolMode]
	if mode == "" {
		mode = "MAll"
	}
	var srcL, logL, finL []string
	nfin := 0
	for _, s := range srcs {
		srcL = append(srcL, fmt.Sprintf("(%s, %s)", lib.CoqBytes(s.body), lib.CoqBool(s.passes)))
		if !owed[string(s.body)] {
			finL = append(finL, lib.CoqBytes(s.body))
			nfin++
		}
	}
	answers := map[string]int{}
	for _, e := range entries {
		logL = append(logL, fmt.Sprintf("(%d%%nat, %s, %s)", e.Dest, lib.CoqBytes(e.Body), answerCoq(a.Tool, e.Answer)))
		answers[string(e.Answer)]++
	}
	coq := fmt.Sprintf("(J20.AckCase (J20.mkAck %s %s %d%%nat %s %s %s %s %s %s %d %d %d%%nat %s))", tool, mode, len(a.Scripts), lib.CoqBool(a.Filter), lib.CoqBool(a.Sample),
		lib.CoqList(srcL), lib.CoqList(logL), lib.CoqList(finL), lib.CoqBool(q.ok), q.requeues, q.timeouts, defaultMaxAttempts, lib.CoqList(gaveL))
	tags := []string{"tool=" + a.Tool, "mode=" + a.ToolMode, fmt.Sprintf("ndest=%d", len(a.Scripts)), "quiescent=" + lib.CoqBool(q.ok),
		fmt.Sprintf("mif=%d", a.MaxInFl)}
	if a.Tool == "nsq_to_http" {
		tags = append(tags, "method="+a.Method)
	}
	if a.Filter {
		tags = append(tags, "filter=require-json-field")
	}
	if a.Sample {
		tags = append(tags, "sample=0.5")
	}
	for k := range answers {
		tags = append(tags, "answer="+k)
	}
	if q.requeues > 0 {
		tags = append(tags, "requeues>0")
	}
	// known finding K7 (decidable characterisation): the tool's client library logged
	// "msg <id> attempted <n> times, giving up" for a body, and every body that is no longer owed
	// although no destination accepted it is such a given-up body
	name := in.Name
	if len(gaveUp) > 0 && !a.Filter && !a.Sample {
		onlyGiveUps := true
		for _, s := range srcs {
			if owed[string(s.body)] {
				continue
			}
			acc := false
			for _, e := range entries {
				if bytes.Equal(e.Body, s.body) && ((a.Tool == "nsq_to_nsq" && e.Answer == 'O') ||
					(a.Tool == "nsq_to_http" && (e.Answer == '2' || (e.Answer == '4' && a.Method != "get")))) {
					acc = true
				}
			}
			if !acc && !gaveUp[string(s.body)] {
				onlyGiveUps = false
			}
		}
		if onlyGiveUps && !strings.HasPrefix(name, "kf-max-attempts") {
			name = "kf-max-attempts-" + name
		}
		tags = append(tags, "known-finding=K7-max-attempts")
	}
	return lib.Case{Name: name, Coq: coq, Input: in, Tags: tags, Nontrivial: len(entries) > 0,
		Obs: map[string]interface{}{"requests": len(entries), "finished": nfin, "requeues": q.requeues, "timeouts": q.timeouts,
			"quiescent": q.ok, "answers": answers, "stderr_tail": tail(stderr.String(), 400)}}, nil
}

func tail(s string, n int) string {
	if len(s) > n {
		return s[len(s)-n:]
	}
	return s
}
