// relaydrive: black-box correspondence driver for C20 (to_nsq).
// Runs the real to_nsq binary (built from the repo under test) against recording
// stub destinations and writes one case per run.
package main

import (
	"bytes"
	"context"
	"encoding/base64"
	"flag"
	"fmt"
	"os"
	"os/exec"
	"path/filepath"
	"strings"
	"sync"
	"time"

	"verifharness/lib"
)

type input struct {
	Delim int    `json:"delim"`
	NDest int    `json:"ndest"`
	B64   string `json:"input_b64"`
	Name  string `json:"name"`
	Mode  string `json:"mode,omitempty"` // "" = to_nsq, "ack" = nsq_to_nsq / nsq_to_http run
	Ack   *ackIn `json:"ack,omitempty"`
}

func genInput(r *lib.Rand, k int) input {
	delims := []int{'\n', '\n', '\n', '\n', ',', ' ', 0xff, 'a', '\r', 1}
	d := delims[r.Intn(len(delims))]
	ndest := 1 + r.Intn(3)
	var buf bytes.Buffer
	nrec := r.Intn(9)
	big := r.Chance(5) // a few cases cross bufio.Reader's 4096-byte buffer boundary
	if big {
		ndest = 1
		nrec = 1 + r.Intn(3)
	}
	bigAt := -1
	if big {
		bigAt = r.Intn(nrec) // one record is certainly at/over bufio.Reader's 4096-byte buffer
	}
	for i := 0; i < nrec; i++ {
		var n int
		switch r.Intn(10) {
		case 0:
			n = 0
		case 1:
			n = 1
		case 2:
			n = 5 + r.Intn(5)
			if big {
				n = 4094 + r.Intn(5)
			}
		case 3:
			n = 2 + r.Intn(3)
		default:
			n = 1 + r.Intn(40)
		}
		if i == bigAt {
			n = []int{4094, 4095, 4096, 4097, 4098, 8192, 8193, 10000}[r.Intn(8)]
		}
		rec := r.Bytes(n)
		if !r.Chance(15) { // mostly delimiter-free records; sometimes raw bytes
			for j := range rec {
				if int(rec[j]) == d {
					rec[j] = byte(d + 1)
				}
			}
		}
		if r.Chance(30) { // text-like
			for j := range rec {
				rec[j] = "abcdefgh \r\t01234"[int(rec[j])%16]
				if int(rec[j]) == d {
					rec[j] = 'z'
				}
			}
		}
		buf.Write(rec)
		last := i == nrec-1
		if !last || r.Chance(50) {
			buf.WriteByte(byte(d))
		}
		if r.Chance(10) {
			buf.WriteByte(byte(d)) // empty record
		}
	}
	return input{Delim: d, NDest: ndest, B64: base64.StdEncoding.EncodeToString(buf.Bytes()), Name: fmt.Sprintf("gen-%d", k)}
}

func fixedInputs() []input {
	mk := func(name string, d int, nd int, s string) input {
		return input{Delim: d, NDest: nd, B64: base64.StdEncoding.EncodeToString([]byte(s)), Name: name}
	}
	return []input{
		mk("fixed-unterminated", '\n', 1, "one\ntwo\nab"),
		mk("fixed-terminated", '\n', 2, "one\ntwo\nab\n"),
		mk("fixed-single-byte", '\n', 1, "a"),
		mk("fixed-only-delims", '\n', 1, "\n\n\n"),
		mk("fixed-empty", '\n', 1, ""),
		mk("fixed-crlf", '\n', 1, "x\r\ny\r\n"),
		mk("fixed-comma", ',', 3, "a,,b,c"),
		mk("fixed-bufio-4095", '\n', 1, strings.Repeat("x", 4095)+"\nshort\n"),
		mk("fixed-bufio-4096", '\n', 1, "first\n"+strings.Repeat("y", 4096)+"\nlast\n"),
		mk("fixed-bufio-10000", '\n', 1, strings.Repeat("z", 10000)+"\ntail"),
	}
}

func runOne(bin string, in input) (lib.Case, error) {
	data, _ := base64.StdEncoding.DecodeString(in.B64)
	stubs := make([]*lib.StubNSQD, in.NDest)
	args := []string{"-topic", "t", "-delimiter", string([]byte{byte(in.Delim)})}
	for i := range stubs {
		stubs[i] = lib.NewStubNSQD("")
		defer stubs[i].Close()
		args = append(args, "-nsqd-tcp-address", stubs[i].Addr())
	}
	ctx, cancel := context.WithTimeout(context.Background(), 20*time.Second)
	defer cancel()
	cmd := exec.CommandContext(ctx, bin, args...)
	cmd.Stdin = bytes.NewReader(data)
	var stderr bytes.Buffer
	cmd.Stderr = &stderr
	err := cmd.Run()
	exit := 0
	if err != nil {
		exit = 1
	}
	got := make([]string, in.NDest)
	total := 0
	for i, s := range stubs {
		ok, _ := s.Snapshot()
		got[i] = lib.CoqBytesList(ok)
		total += len(ok)
	}
	tags := []string{fmt.Sprintf("delim=%d", in.Delim), fmt.Sprintf("ndest=%d", in.NDest)}
	switch {
	case len(data) == 0:
		tags = append(tags, "input=empty")
	case int(data[len(data)-1]) == in.Delim:
		tags = append(tags, "final=terminated")
	default:
		tags = append(tags, "final=unterminated")
	}
	if len(data) > 4000 {
		tags = append(tags, "size>4000")
	}
	if exit != 0 {
		tags = append(tags, "exit=nonzero")
	}
	tags = append(tags, "tool=to_nsq")
	coq := fmt.Sprintf("(J20.ToNsqCase (J20.mk %d %d%%nat %s %s))", in.Delim, in.NDest, lib.CoqBytes(data), lib.CoqList(got))
	return lib.Case{Name: in.Name, Coq: coq, Input: in, Tags: tags, Nontrivial: total > 0,
		Obs: map[string]interface{}{"exit": exit, "published_total": total}}, nil
}

func main() {
	n := flag.Int("n", 100, "number of generated to_nsq cases")
	nack := flag.Int("nack", 10, "number of generated nsq_to_nsq / nsq_to_http runs")
	mode := flag.String("mode", "all", "all | to_nsq | nsq_to_nsq | nsq_to_http")
	seed := flag.Uint64("seed", 1, "seed")
	out := flag.String("out", "", "output jsonl")
	replay := flag.String("replay", "", "replay file (inputs)")
	flag.Parse()
	bin := filepath.Join(os.Getenv("VERIF_BIN_DIR"), "to_nsq")
	for _, b := range []string{"to_nsq", "nsq_to_nsq", "nsq_to_http"} {
		if _, err := os.Stat(filepath.Join(os.Getenv("VERIF_BIN_DIR"), b)); err != nil {
			lib.Fatalf("%s binary not found in %s", b, os.Getenv("VERIF_BIN_DIR"))
		}
	}
	o := lib.NewOut(*out)
	defer o.Close()
	var inputs []input
	if *replay != "" {
		lib.ReadReplay(*replay, &inputs)
	} else {
		r := lib.NewRand(*seed)
		ra := r.Fork()
		if *mode == "all" || *mode == "to_nsq" {
			inputs = fixedInputs()
			for k := 0; k < *n; k++ {
				inputs = append(inputs, genInput(r, k))
			}
		}
		if *mode != "to_nsq" {
			var acks []input
			acks = append(acks, fixedAcks()...)
			for k := 0; len(acks) < *nack+len(fixedAcks()) && k < 100*(*nack+1); k++ {
				acks = append(acks, genAck(ra, k))
			}
			for _, a := range acks {
				if *mode == "all" || a.Ack.Tool == *mode {
					inputs = append(inputs, a)
				}
			}
		}
	}
	sem := make(chan struct{}, 8)
	var wg sync.WaitGroup
	results := make([]lib.Case, len(inputs))
	for i := range inputs {
		wg.Add(1)
		sem <- struct{}{}
		go func(i int) {
			defer wg.Done()
			defer func() { <-sem }()
			if inputs[i].Mode == "ack" {
				c, err := runAck(inputs[i])
				if err != nil {
					lib.Fatalf("%s: %v", inputs[i].Name, err)
				}
				results[i] = c
				return
			}
			c, _ := runOne(bin, inputs[i])
			results[i] = c
		}(i)
	}
	wg.Wait()
	for _, c := range results {
		o.Emit(c)
	}
}
