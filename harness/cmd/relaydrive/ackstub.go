package main

// Scripted destinations for the nsq_to_nsq / nsq_to_http runs, with one global,
// mutex-ordered request log across all destinations of a run.

import (
	"bufio"
	"bytes"
	"encoding/binary"
	"io"
	"net"
	"net/http"
	"strings"
	"sync"
)

type logEntry struct {
	Dest   int
	Body   []byte
	Answer byte // nsq: O E C ; http: 2 (200) 4 (204) 3 (301) B (400) 5 (500) C (close)
}

type reqLog struct {
	mu      sync.Mutex
	entries []logEntry
}

func (l *reqLog) snapshot() []logEntry {
	l.mu.Lock()
	defer l.mu.Unlock()
	return append([]logEntry{}, l.entries...)
}

type scripted struct {
	log     *reqLog
	dest    int
	script  string
	k       int
	refuse  int // close the first `refuse` connections right after accept
	naccept int
}

// next decides the answer to the next request and logs it (under the global lock).
func (s *scripted) next(body []byte, deflt byte) byte {
	s.log.mu.Lock()
	defer s.log.mu.Unlock()
	a := deflt
	if s.k < len(s.script) {
		a = s.script[s.k]
		s.k++
	}
	s.log.entries = append(s.log.entries, logEntry{Dest: s.dest, Body: append([]byte{}, body...), Answer: a})
	return a
}

func (s *scripted) refuseConn() bool {
	s.log.mu.Lock()
	defer s.log.mu.Unlock()
	s.naccept++
	return s.naccept <= s.refuse
}

// ---------------------------------------------------------------- nsqd TCP stub
type nsqStub struct {
	scripted
	l net.Listener
}

func newNSQStub(log *reqLog, dest int, script string, refuse int) *nsqStub {
	l, err := net.Listen("tcp", "127.0.0.1:0")
	if err != nil {
		panic(err)
	}
	s := &nsqStub{scripted: scripted{log: log, dest: dest, script: script, refuse: refuse}, l: l}
	go func() {
		for {
			c, err := l.Accept()
			if err != nil {
				return
			}
			if s.refuseConn() {
				c.Close()
				continue
			}
			go s.serve(c)
		}
	}()
	return s
}
func (s *nsqStub) addr() string { return s.l.Addr().String() }
func (s *nsqStub) close()       { s.l.Close() }

func nsqFrame(ftype int32, data []byte) []byte {
	var b bytes.Buffer
	binary.Write(&b, binary.BigEndian, int32(len(data)+4))
	binary.Write(&b, binary.BigEndian, ftype)
	b.Write(data)
	return b.Bytes()
}

func (s *nsqStub) serve(c net.Conn) {
	defer c.Close()
	r := bufio.NewReader(c)
	magic := make([]byte, 4)
	if _, err := io.ReadFull(r, magic); err != nil {
		return
	}
	readBody := func() ([]byte, bool) {
		var n int32
		if err := binary.Read(r, binary.BigEndian, &n); err != nil || n < 0 {
			return nil, false
		}
		b := make([]byte, n)
		if _, err := io.ReadFull(r, b); err != nil {
			return nil, false
		}
		return b, true
	}
	for {
		line, err := r.ReadString('\n')
		if err != nil {
			return
		}
		f := strings.Fields(line)
		if len(f) == 0 {
			continue
		}
		switch f[0] {
		case "IDENTIFY":
			if _, ok := readBody(); !ok {
				return
			}
			c.Write(nsqFrame(0, []byte("OK")))
		case "NOP":
		case "PUB", "DPUB":
			b, ok := readBody()
			if !ok {
				return
			}
			switch s.next(b, 'O') {
			case 'O':
				c.Write(nsqFrame(0, []byte("OK")))
			case 'E':
				c.Write(nsqFrame(1, []byte("E_PUB_FAILED PUB failed (stub)")))
			default:
				return
			}
		default:
			c.Write(nsqFrame(1, []byte("E_INVALID stub")))
			return
		}
	}
}

// ---------------------------------------------------------------- HTTP stub
type httpStub struct {
	scripted
	l   net.Listener
	srv *http.Server
}

func newHTTPStub(log *reqLog, dest int, script string) *httpStub {
	l, err := net.Listen("tcp", "127.0.0.1:0")
	if err != nil {
		panic(err)
	}
	s := &httpStub{scripted: scripted{log: log, dest: dest, script: script}, l: l}
	s.srv = &http.Server{Handler: http.HandlerFunc(s.handle)}
	go s.srv.Serve(l)
	return s
}
func (s *httpStub) addr() string { return s.l.Addr().String() }
func (s *httpStub) close()       { s.srv.Close() }

func (s *httpStub) handle(w http.ResponseWriter, r *http.Request) {
	var body []byte
	if r.Method == "POST" {
		body, _ = io.ReadAll(r.Body)
	} else {
		body = []byte(r.URL.Query().Get("q"))
	}
	switch s.next(body, '2') {
	case '2':
		w.WriteHeader(200)
	case '4':
		w.WriteHeader(204)
	case '3':
		w.WriteHeader(301) // no Location header
	case 'B':
		w.WriteHeader(400)
	case '5':
		w.WriteHeader(500)
	default:
		if hj, ok := w.(http.Hijacker); ok {
			if c, _, err := hj.Hijack(); err == nil {
				c.Close()
			}
		}
	}
}
