// pqdrive: correspondence driver for the two deadline heaps and for the deadline
// bookkeeping of real channels (C04, heap part of C02).
//
//   - random and exhaustive-short operation sequences on a REAL nsqd.inFlightPqueue
//     (in-package wrapper) and a REAL internal/pqueue.PriorityQueue driven through
//     container/heap (verifshim wrapper); after every operation the whole
//     (priority, index, handle) array and the capacity are recorded;
//   - runs of StartInFlightTimeout / TouchMessage / FinishMessage / RequeueMessage /
//     StartDeferredTimeout / processInFlightQueue(t) / processDeferredQueue(t) on real
//     channels of a real in-process nsqd whose periodic scan is parked, with t chosen on
//     both sides of every deadline; after every operation both heaps and both maps are
//     recorded;
//   - scans of larger real channel heaps.
package main

import (
	"encoding/json"
	"flag"
	"fmt"
	"sort"
	"strings"
	"time"

	"github.com/nsqio/nsq/nsqd"
	"github.com/nsqio/nsq/verifshim"
	"verifharness/lib"
	"verifharness/nsqdlib"
)

func z(v int64) string {
	if v < 0 {
		return fmt.Sprintf("(%d)", v)
	}
	return fmt.Sprintf("%d", v)
}

func zs(vs []int64) string {
	parts := make([]string, len(vs))
	for i, v := range vs {
		parts[i] = z(v)
	}
	return "[" + strings.Join(parts, ";") + "]"
}

type entry struct {
	Pri    int64
	Index  int
	Handle int64
}

func arr(es []entry) string {
	parts := make([]string, len(es))
	for i, e := range es {
		parts[i] = fmt.Sprintf("(%s,%s,%s)", z(e.Pri), z(int64(e.Index)), z(e.Handle))
	}
	return "[" + strings.Join(parts, ";") + "]"
}

// ---------------------------------------------------------------- raw queues

// Op is one queue operation: K in push/pop/remove/peek/setpri.
type Op struct {
	K string `json:"k"`
	A int64  `json:"a"`
	B int64  `json:"b"`
}

type queue interface {
	Push(pri, handle int64) bool
	Pop() (int64, int, bool)
	Remove(i int) (int64, int, bool)
	PeekAndShift(max int64) (bool, int64, int, int64, bool)
	SetPri(slot int, pri int64)
	dump() ([]entry, int)
}

type ifq struct{ *nsqd.VerifIFPQ }

func (q ifq) dump() ([]entry, int) {
	es, c := q.Dump()
	out := make([]entry, len(es))
	for i, e := range es {
		out[i] = entry{e.Pri, e.Index, e.Handle}
	}
	return out, c
}

type chq struct{ *verifshim.PQ }

func (q chq) dump() ([]entry, int) {
	es, c := q.Dump()
	out := make([]entry, len(es))
	for i, e := range es {
		out[i] = entry{e.Pri, e.Index, e.Handle}
	}
	return out, c
}

type PqIn struct {
	Kind      string `json:"kind"`
	Container bool   `json:"container"`
	Cap       int    `json:"cap"`
	Ops       []Op   `json:"ops"`
}

func runPq(o *lib.Out, name string, in PqIn, extraTags []string) {
	var q queue
	if in.Container {
		q = chq{verifshim.NewPQ(in.Cap)}
	} else {
		q = ifq{nsqd.NewVerifIFPQ(in.Cap)}
	}
	var steps []string
	kinds := map[string]bool{}
	maxLen, dup, panicked, shrunk, grew, illformed := 0, false, false, false, false, false
	lastCap := in.Cap
	for _, op := range in.Ops {
		var opS string
		code, val, idx, diff := int64(0), int64(0), int64(0), int64(0)
		switch op.K {
		case "push":
			opS = fmt.Sprintf("J04.OpPush %s %s", z(op.A), z(op.B))
			if q.Push(op.A, op.B) {
				code = 2
			}
		case "pop":
			opS = "J04.OpPop"
			h, i, p := q.Pop()
			if p {
				code = 2
			} else {
				code, val, idx = 1, h, int64(i)
			}
		case "remove":
			opS = fmt.Sprintf("J04.OpRemove %s", z(op.A))
			h, i, p := q.Remove(int(op.A))
			if p {
				code = 2
			} else {
				code, val, idx = 1, h, int64(i)
			}
		case "peek":
			opS = fmt.Sprintf("J04.OpPeek %s", z(op.A))
			found, h, i, d, p := q.PeekAndShift(op.A)
			diff = d
			if p {
				code = 2
			} else if found {
				code, val, idx = 1, h, int64(i)
			}
		case "setpri":
			es, _ := q.dump()
			if int(op.A) < 0 || int(op.A) >= len(es) {
				continue
			}
			opS = fmt.Sprintf("J04.OpSetPri %s %s", z(op.A), z(op.B))
			q.SetPri(int(op.A), op.B)
			illformed = true
		default:
			lib.Fatalf("unknown op %q", op.K)
		}
		kinds[op.K] = true
		es, c := q.dump()
		if len(es) > maxLen {
			maxLen = len(es)
		}
		seen := map[int64]bool{}
		for _, e := range es {
			if seen[e.Pri] {
				dup = true
			}
			seen[e.Pri] = true
		}
		if c < lastCap {
			shrunk = true
		}
		if c > lastCap {
			grew = true
		}
		lastCap = c
		steps = append(steps, fmt.Sprintf("(%s, J04.mkObs %d %s %s %s %s %d)", opS, code, z(val), z(idx), z(diff), arr(es), c))
		if code == 2 {
			panicked = true
			break
		}
	}
	coq := fmt.Sprintf("(J04.PqRun %s %d [%s])", lib.CoqBool(in.Container), in.Cap, strings.Join(steps, ";"))
	which := "inflight"
	if in.Container {
		which = "container"
	}
	tags := []string{"kind=pq-" + which, fmt.Sprintf("pq-steps=%s", bucket(len(steps))), fmt.Sprintf("pq-maxlen=%s", bucket(maxLen)),
		fmt.Sprintf("pq-dup-priorities=%v", dup), fmt.Sprintf("pq-panic=%v", panicked), fmt.Sprintf("pq-shrunk=%v", shrunk),
		fmt.Sprintf("pq-grew=%v", grew), fmt.Sprintf("pq-illformed=%v", illformed)}
	for k := range kinds {
		tags = append(tags, "pq-op="+k)
	}
	tags = append(tags, extraTags...)
	in.Kind = "pq"
	o.Emit(lib.Case{Name: name, Coq: coq, Input: in, Tags: tags, Nontrivial: len(steps) > 0})
}

func bucket(n int) string {
	switch {
	case n == 0:
		return "0"
	case n <= 2:
		return "1-2"
	case n <= 5:
		return "3-5"
	case n <= 10:
		return "6-10"
	case n <= 20:
		return "11-20"
	default:
		return ">20"
	}
}

func genOps(r *lib.Rand) (int, []Op) {
	caps := []int{1, 1, 2, 3, 4, 8, 26, 30, 60}
	capacity := caps[r.Intn(len(caps))]
	if r.Chance(2) {
		capacity = 0
	}
	n := 4 + r.Intn(28)
	narrow := r.Chance(60)
	corrupt := r.Chance(12)
	extreme := r.Chance(10)
	var ops []Op
	// a shadow array of priorities only to choose interesting parameters
	var live []int64
	pri := func() int64 {
		if extreme && r.Chance(40) {
			xs := []int64{-1 << 63, 1<<63 - 1, -1, 0, 1, 1 << 62, -(1 << 62)}
			return xs[r.Intn(len(xs))]
		}
		if narrow {
			return int64(r.Intn(4))
		}
		return int64(r.Intn(2000)) - 500
	}
	handle := int64(0)
	for i := 0; i < n; i++ {
		x := r.Intn(100)
		switch {
		case x < 50 || len(live) == 0 && x < 85:
			handle++
			p := pri()
			ops = append(ops, Op{K: "push", A: p, B: handle})
			live = append(live, p)
		case x < 57:
			ops = append(ops, Op{K: "pop"})
			if len(live) > 0 {
				live = live[:len(live)-1]
			}
		case x < 72:
			i := int64(0)
			if len(live) > 0 {
				i = int64(r.Intn(len(live)))
			}
			if r.Chance(8) {
				i = []int64{-1, int64(len(live)), int64(len(live)) + 3, -7}[r.Intn(4)]
			}
			ops = append(ops, Op{K: "remove", A: i})
			if len(live) > 0 {
				live = live[:len(live)-1]
			}
		case x < 88 || !corrupt:
			t := pri()
			if len(live) > 0 && r.Chance(70) {
				t = live[r.Intn(len(live))] + int64(r.Intn(3)) - 1
			}
			if extreme && r.Chance(30) {
				t = []int64{-1 << 63, 1<<63 - 1}[r.Intn(2)]
			}
			ops = append(ops, Op{K: "peek", A: t})
		default:
			if len(live) > 0 {
				ops = append(ops, Op{K: "setpri", A: int64(r.Intn(len(live))), B: pri()})
			}
		}
	}
	return capacity, ops
}

// fill a heap with distinct-ish wide priorities, then take entries out of the middle
// (Remove needs both its down and its up), peeking in between
func genFillRemove(r *lib.Rand) (int, []Op) {
	k := 6 + r.Intn(12)
	var ops []Op
	var live []int64
	for i := 0; i < k; i++ {
		p := int64(r.Intn(1000))
		ops = append(ops, Op{K: "push", A: p, B: int64(i + 1)})
		live = append(live, p)
	}
	for n := k; n > 0; n-- {
		i := r.Intn(n)
		if n > 3 && r.Chance(70) {
			i = n/2 + r.Intn(n-n/2) // a leaf or near-leaf
		}
		ops = append(ops, Op{K: "remove", A: int64(i)})
		if r.Chance(30) {
			ops = append(ops, Op{K: "peek", A: live[r.Intn(len(live))]})
			n--
			if n <= 0 {
				break
			}
		}
	}
	return []int{1, 4, 16, 64}[r.Intn(4)], ops
}

// all sequences over a small alphabet, of length exactly n
func exhaustive(n int, emit func([]Op)) {
	alphabet := []Op{{K: "push", A: 0}, {K: "push", A: 1}, {K: "push", A: 2}, {K: "pop"},
		{K: "remove", A: 0}, {K: "remove", A: 1}, {K: "remove", A: 2}, {K: "peek", A: 0}, {K: "peek", A: 1}, {K: "peek", A: 5}}
	cur := make([]Op, n)
	var rec func(int)
	rec = func(k int) {
		if k == n {
			// every sequence starts from the same four-entry heap with a duplicate priority
			ops := []Op{{K: "push", A: 1}, {K: "push", A: 0}, {K: "push", A: 2}, {K: "push", A: 1}}
			ops = append(ops, cur...)
			h := int64(0)
			for i := range ops {
				if ops[i].K == "push" {
					h++
					ops[i].B = h
				}
			}
			emit(ops)
			return
		}
		for _, a := range alphabet {
			cur[k] = a
			rec(k + 1)
		}
	}
	rec(0)
}

// ---------------------------------------------------------------- real channels

// COp is one channel operation.
type COp struct {
	K       string `json:"k"` // start touch finish requeue putdef scanif scandef age
	ID      int64  `json:"id"`
	Client  int64  `json:"client"`
	D       int64  `json:"d"`       // timeout / msg_timeout / delay / delta (ns)
	TSel    string `json:"tsel"`    // scans: how t is chosen from the heap
	TOff    int64  `json:"toff"`    // scans: offset added
	TIdx    int    `json:"tidx"`    // scans: which entry
}

type ChanIn struct {
	Kind   string `json:"kind"`
	MaxMsg int64  `json:"max_msg"`
	MemQ   int64  `json:"memq"`
	Ops    []COp  `json:"ops"`
}

type world struct {
	n *nsqd.NSQD
	k int
}

func newWorld(maxMsg time.Duration, memq int64) *world {
	opts := nsqdlib.NewOpts(nsqdlib.ScratchDir())
	opts.QueueScanInterval = time.Hour // park the periodic scan: scans are driven by the harness
	opts.QueueScanRefreshInterval = time.Hour
	opts.MaxMsgTimeout = maxMsg
	opts.MemQueueSize = memq
	n, err := nsqdlib.Start(opts)
	if err != nil {
		lib.Fatalf("nsqd start: %v", err)
	}
	return &world{n: n}
}

func (w *world) channel() *nsqd.Channel {
	w.k++
	return w.n.GetTopic(fmt.Sprintf("t%d", w.k)).GetChannel("c")
}

type snap struct {
	ifh   []entry
	ifmap [][3]int64
	ifcap int
	dfh   []entry
	dfmap []int64
	dfcap int
}

func takeSnap(c *nsqd.Channel) snap {
	var s snap
	h, m, cp := c.VerifInFlight()
	for _, e := range h {
		s.ifh = append(s.ifh, entry{e.Pri, e.Index, e.Handle})
	}
	for id, e := range m {
		s.ifmap = append(s.ifmap, [3]int64{id, e.ClientID, e.DeliveryTS})
	}
	sort.Slice(s.ifmap, func(i, j int) bool { return s.ifmap[i][0] < s.ifmap[j][0] })
	s.ifcap = cp
	dh, dm, dc := c.VerifDeferred()
	for _, e := range dh {
		s.dfh = append(s.dfh, entry{e.Pri, e.Index, e.Handle})
	}
	for id := range dm {
		s.dfmap = append(s.dfmap, id)
	}
	sort.Slice(s.dfmap, func(i, j int) bool { return s.dfmap[i] < s.dfmap[j] })
	s.dfcap = dc
	return s
}

func (s snap) coq(code int, ready []int64) string {
	mp := make([]string, len(s.ifmap))
	for i, e := range s.ifmap {
		mp[i] = fmt.Sprintf("(%s,%s,%s)", z(e[0]), z(e[1]), z(e[2]))
	}
	return fmt.Sprintf("J04.mkCobs %d %s %s [%s] %d %s %s %d", code, zs(ready), arr(s.ifh), strings.Join(mp, ";"), s.ifcap, arr(s.dfh), zs(s.dfmap), s.dfcap)
}

func pickT(heap []entry, sel string, idx int, off int64) int64 {
	if len(heap) == 0 {
		return time.Now().UnixNano() + off
	}
	lo, hi := heap[0].Pri, heap[0].Pri
	for _, e := range heap {
		if e.Pri < lo {
			lo = e.Pri
		}
		if e.Pri > hi {
			hi = e.Pri
		}
	}
	switch sel {
	case "min":
		return lo + off
	case "max":
		return hi + off
	case "entry":
		return heap[idx%len(heap)].Pri + off
	default:
		return time.Now().UnixNano() + off
	}
}

func within(x, lo, hi int64) int64 {
	if x < lo || x > hi {
		return hi
	}
	return x
}

func runChan(o *lib.Out, w *world, name string, in ChanIn) {
	c := w.channel()
	pqcap := in.MemQ / 10
	if pqcap < 1 {
		pqcap = 1
	}
	var steps []string
	tagset := map[string]bool{}
	for _, op := range in.Ops {
		before := takeSnap(c)
		var opS string
		code := 0
		switch op.K {
		case "start":
			dts, _, err := c.VerifStartInFlight(op.ID, op.Client, time.Duration(op.D))
			if err != nil {
				code = 1
				dts = 0
			}
			opS = fmt.Sprintf("J04.CStart %s %s %s %s", z(dts), z(op.ID), z(op.Client), z(op.D))
		case "touch":
			t0, t1, err := c.VerifTouch(op.ID, op.Client, time.Duration(op.D))
			now := t1
			if err != nil {
				code = 1
			} else {
				after := takeSnap(c)
				for _, e := range after.ifh {
					if e.Handle == op.ID {
						now = within(e.Pri-op.D, t0, t1)
						var dts int64
						for _, m := range before.ifmap {
							if m[0] == op.ID {
								dts = m[2]
							}
						}
						if e.Pri == dts+in.MaxMsg {
							tagset["touch=capped"] = true
						} else {
							tagset["touch=uncapped"] = true
						}
					}
				}
			}
			opS = fmt.Sprintf("J04.CTouch %s %s %s %s %s %s", z(t0), z(t1), z(now), z(op.ID), z(op.Client), z(op.D))
		case "finish":
			if err := c.VerifFinish(op.ID, op.Client); err != nil {
				code = 1
			}
			opS = fmt.Sprintf("J04.CFinish %s %s", z(op.ID), z(op.Client))
		case "requeue":
			t0, t1, err := c.VerifRequeue(op.ID, op.Client, time.Duration(op.D))
			now := t1
			if err != nil {
				code = 1
			} else {
				after := takeSnap(c)
				for _, e := range after.dfh {
					if e.Handle == op.ID {
						now = within(e.Pri-op.D, t0, t1)
					}
				}
			}
			opS = fmt.Sprintf("J04.CRequeue %s %s %s %s %s %s", z(t0), z(t1), z(now), z(op.ID), z(op.Client), z(op.D))
		case "putdef":
			t0, t1, err := c.VerifStartDeferred(op.ID, time.Duration(op.D))
			now := t1
			if err != nil {
				code = 1
			} else {
				after := takeSnap(c)
				for _, e := range after.dfh {
					if e.Handle == op.ID {
						now = within(e.Pri-op.D, t0, t1)
					}
				}
			}
			opS = fmt.Sprintf("J04.CPutDef %s %s %s %s %s", z(t0), z(t1), z(now), z(op.ID), z(op.D))
		case "scanif":
			t := pickT(before.ifh, op.TSel, op.TIdx, op.TOff)
			c.VerifProcessInFlight(t)
			code = 3
			opS = fmt.Sprintf("J04.CScanIF %s", z(t))
			tagset[scanTag("scanif", before.ifh, t)] = true
		case "scandef":
			t := pickT(before.dfh, op.TSel, op.TIdx, op.TOff)
			c.VerifProcessDeferred(t)
			code = 3
			opS = fmt.Sprintf("J04.CScanDef %s", z(t))
			tagset[scanTag("scandef", before.dfh, t)] = true
		default:
			lib.Fatalf("unknown channel op %q", op.K)
		}
		ready := c.VerifDrainMemory()
		after := takeSnap(c)
		tagset["chan-op="+op.K] = true
		if code == 1 {
			tagset["chan-op-error="+op.K] = true
		}
		steps = append(steps, fmt.Sprintf("(%s, %s)", opS, after.coq(code, ready)))
	}
	coq := fmt.Sprintf("(J04.ChanRun %s %d [%s])", z(in.MaxMsg), pqcap, strings.Join(steps, ";"))
	tags := []string{"kind=chan-run", "chan-steps=" + bucket(len(steps))}
	for t := range tagset {
		tags = append(tags, t)
	}
	sort.Strings(tags)
	in.Kind = "chan"
	o.Emit(lib.Case{Name: name, Coq: coq, Input: in, Tags: tags, Nontrivial: len(steps) > 0})
}

func scanTag(kind string, heap []entry, t int64) string {
	due := 0
	for _, e := range heap {
		if e.Pri <= t {
			due++
		}
	}
	switch {
	case len(heap) == 0:
		return kind + "=empty-heap"
	case due == 0:
		return kind + "=none-due"
	case due == len(heap):
		return kind + "=all-due"
	default:
		return kind + "=some-due"
	}
}

func genChan(r *lib.Rand) ChanIn {
	maxMsgs := []int64{int64(2 * time.Second), int64(15 * time.Minute), int64(90 * time.Second)}
	in := ChanIn{MaxMsg: maxMsgs[r.Intn(len(maxMsgs))], MemQ: []int64{40, 40, 100, 10000}[r.Intn(4)]}
	timeouts := []int64{0, int64(time.Millisecond), int64(time.Second), int64(time.Second), in.MaxMsg / 2, in.MaxMsg, in.MaxMsg - 1}
	delays := []int64{int64(time.Millisecond), int64(time.Second), int64(time.Second), int64(time.Hour), 1, int64(5 * time.Second)}
	n := 4 + r.Intn(14)
	next := int64(0)
	var inflight, all []int64
	owner := map[int64]int64{}
	for i := 0; i < n; i++ {
		x := r.Intn(100)
		switch {
		case x < 30 || len(inflight) == 0 && x < 60:
			next++
			id := next
			if r.Chance(5) && len(all) > 0 {
				id = all[r.Intn(len(all))] // duplicate id: "already in flight" when it is
			}
			cl := int64(1 + r.Intn(3))
			in.Ops = append(in.Ops, COp{K: "start", ID: id, Client: cl, D: timeouts[r.Intn(len(timeouts))]})
			inflight = append(inflight, id)
			all = append(all, id)
			owner[id] = cl
		case x < 45 && len(inflight) > 0:
			id := inflight[r.Intn(len(inflight))]
			cl := owner[id]
			if r.Chance(10) {
				cl = 99 // not the owner
			}
			mt := timeouts[r.Intn(len(timeouts))]
			in.Ops = append(in.Ops, COp{K: "touch", ID: id, Client: cl, D: mt})
		case x < 52 && len(inflight) > 0:
			k := r.Intn(len(inflight))
			id := inflight[k]
			in.Ops = append(in.Ops, COp{K: "finish", ID: id, Client: owner[id]})
			inflight = append(inflight[:k], inflight[k+1:]...)
		case x < 62 && len(inflight) > 0:
			k := r.Intn(len(inflight))
			id := inflight[k]
			d := delays[r.Intn(len(delays))]
			if r.Chance(25) {
				d = 0
			}
			in.Ops = append(in.Ops, COp{K: "requeue", ID: id, Client: owner[id], D: d})
			inflight = append(inflight[:k], inflight[k+1:]...)
		case x < 74:
			next++
			id := next
			if r.Chance(8) && len(all) > 0 {
				id = all[r.Intn(len(all))]
			}
			in.Ops = append(in.Ops, COp{K: "putdef", ID: id, D: delays[r.Intn(len(delays))]})
			all = append(all, id)
		case x < 88:
			in.Ops = append(in.Ops, scanOp(r, "scanif"))
		default:
			in.Ops = append(in.Ops, scanOp(r, "scandef"))
		}
	}
	// always end with scans on both sides of the remaining deadlines
	in.Ops = append(in.Ops, scanOp(r, "scanif"), scanOp(r, "scandef"),
		COp{K: "scanif", TSel: "max", TOff: 0}, COp{K: "scandef", TSel: "max", TOff: 0})
	return in
}

func scanOp(r *lib.Rand, k string) COp {
	sels := []string{"min", "max", "entry", "entry", "entry", "now"}
	offs := []int64{-1, 0, 1, -1, 0, 1, -1000000, 1000000}
	return COp{K: k, TSel: sels[r.Intn(len(sels))], TIdx: r.Intn(64), TOff: offs[r.Intn(len(offs))]}
}

// a larger real heap, one scan (n stays below the memory queue size of the world, so that
// everything a scan releases is found on the memory queue)
func bigScan(o *lib.Out, w *world, r *lib.Rand, name string, deferred bool, n int) {
	c := w.channel()
	for i := 0; i < n; i++ {
		d := time.Duration(r.Intn(6)) * time.Second // many duplicates modulo the clock
		if r.Chance(30) {
			d = time.Duration(r.Intn(5000)) * time.Millisecond
		}
		if deferred {
			c.VerifStartDeferred(int64(i+1), d+1)
		} else {
			c.VerifStartInFlight(int64(i+1), 1, d)
		}
	}
	// remove a few from the middle so that Remove shaped the heap too
	if !deferred {
		for i := 0; i < n/5; i++ {
			c.VerifFinish(int64(1+r.Intn(n)), 1)
		}
	}
	before := takeSnap(c)
	heap, capq := before.ifh, before.ifcap
	if deferred {
		heap, capq = before.dfh, before.dfcap
	}
	op := scanOp(r, "")
	t := pickT(heap, op.TSel, op.TIdx, op.TOff)
	if deferred {
		c.VerifProcessDeferred(t)
	} else {
		c.VerifProcessInFlight(t)
	}
	drained := c.VerifDrainMemory()
	after := takeSnap(c)
	aheap := after.ifh
	if deferred {
		aheap = after.dfh
	}
	coq := fmt.Sprintf("(J04.ChanScan %s %d %s %s %s %s)", lib.CoqBool(deferred), capq, arr(heap), z(t), zs(drained), arr(aheap))
	kind := "scanif"
	if deferred {
		kind = "scandef"
	}
	o.Emit(lib.Case{Name: name, Coq: coq,
		Input: map[string]interface{}{"kind": "bigscan", "deferred": deferred, "n": n},
		Tags:  []string{"kind=chan-bigscan", scanTag("big-"+kind, heap, t), "bigscan-size=" + bucket(len(heap))}, Nontrivial: true})
}

// TOUCH around the cap: deliveryTS is moved into the past so that now + msg_timeout falls
// just before / at / after deliveryTS + max_msg_timeout
func touchCap(o *lib.Out, w *world, r *lib.Rand, name string, maxMsg int64) {
	c := w.channel()
	mts := []int64{int64(time.Second), maxMsg / 2, maxMsg, int64(60 * time.Second)}
	mt := mts[r.Intn(len(mts))]
	if mt > maxMsg {
		mt = maxMsg
	}
	id := int64(1)
	dts, _, err := c.VerifStartInFlight(id, 7, time.Duration(mt))
	if err != nil {
		lib.Fatalf("start: %v", err)
	}
	// elapsed such that elapsed + mt is near maxMsg
	near := []int64{-int64(time.Second), -int64(50 * time.Millisecond), -int64(300 * time.Millisecond), -int64(10 * time.Millisecond), -1, 0, 1, int64(50 * time.Millisecond), int64(time.Second), int64(time.Hour)}
	elapsed := maxMsg - mt + near[r.Intn(len(near))]
	if elapsed < 0 {
		elapsed = 0
	}
	c.VerifShiftDelivery(id, time.Duration(elapsed))
	dts -= elapsed
	ntouch := 1 + r.Intn(3)
	for k := 0; k < ntouch; k++ {
		t0, t1, err := c.VerifTouch(id, 7, time.Duration(mt))
		if err != nil {
			lib.Fatalf("touch: %v", err)
		}
		s := takeSnap(c)
		var pri int64
		for _, e := range s.ifh {
			if e.Handle == id {
				pri = e.Pri
			}
		}
		capped := pri == dts+maxMsg
		coq := fmt.Sprintf("(J04.TouchC %s %s %s %s %s %s)", z(mt), z(maxMsg), z(dts), z(t0), z(t1), z(pri))
		o.Emit(lib.Case{Name: fmt.Sprintf("%s-%d", name, k), Coq: coq,
			Input: map[string]interface{}{"kind": "touchcap", "max_msg": maxMsg},
			Tags:  []string{"kind=touch-near-cap", fmt.Sprintf("touch-capped=%v", capped)}, Nontrivial: true})
	}
}

func main() {
	n := flag.Int("n", 120, "random queue sequences (each run on both queues)")
	nfill := flag.Int("nfill", 40, "fill-then-remove queue sequences (each run on both queues)")
	nchan := flag.Int("nchan", 60, "random channel runs")
	nbig := flag.Int("nbig", 12, "large channel scans")
	ntouch := flag.Int("ntouch", 40, "touch-near-cap cases")
	nuniq := flag.Int("nuniq", 40, "calls of the real channel-selection function")
	exhLen := flag.Int("exh-len", 3, "exhaustive sequences up to this length")
	exhPct := flag.Int("exh-sample", 25, "percentage of the longest exhaustive length that is run")
	seed := flag.Uint64("seed", 1, "seed")
	out := flag.String("out", "", "output jsonl")
	replay := flag.String("replay", "", "replay file")
	flag.Parse()
	o := lib.NewOut(*out)
	defer o.Close()
	r := lib.NewRand(*seed)

	if *replay != "" {
		var ins []map[string]interface{}
		lib.ReadReplay(*replay, &ins)
		var w *world
		for k, raw := range ins {
			b, _ := json.Marshal(raw)
			switch raw["kind"] {
			case "pq":
				var in PqIn
				json.Unmarshal(b, &in)
				runPq(o, fmt.Sprintf("replay-%d", k), in, []string{"replay"})
			case "chan":
				var in ChanIn
				json.Unmarshal(b, &in)
				if w != nil {
					w.n.Exit()
				}
				w = newWorld(time.Duration(in.MaxMsg), in.MemQ)
				runChan(o, w, fmt.Sprintf("replay-%d", k), in)
			default:
				// bigscan / touchcap inputs are regenerated from the seed profile
				if w == nil {
					w = newWorld(15*time.Minute, 40)
				}
				if raw["kind"] == "uniq" {
					uniq(o, fmt.Sprintf("replay-%d", k), int(raw["q"].(float64)), int(raw["m"].(float64)))
				} else if raw["kind"] == "touchcap" {
					touchCap(o, w, r, fmt.Sprintf("replay-%d", k), int64(15*time.Minute))
				} else {
					bigScan(o, w, r, fmt.Sprintf("replay-%d", k), raw["deferred"] == true, 30)
				}
			}
		}
		if w != nil {
			w.n.Exit()
		}
		return
	}

	// 1. exhaustive-short sequences (all shorter lengths completely, the longest sampled)
	cnt := 0
	for l := 1; l <= *exhLen; l++ {
		exhaustive(l, func(ops []Op) {
			if l == *exhLen && l > 2 && !r.Chance(*exhPct) {
				return
			}
			cnt++
			for _, cont := range []bool{false, true} {
				runPq(o, fmt.Sprintf("exh-%d-%d-%v", l, cnt, cont), PqIn{Container: cont, Cap: 1 + cnt%3, Ops: ops}, []string{"pq-gen=exhaustive"})
			}
		})
	}
	o.Stat("exhaustive_sequences", cnt)
	// 2. random sequences
	for k := 0; k < *n; k++ {
		capacity, ops := genOps(r)
		for _, cont := range []bool{false, true} {
			runPq(o, fmt.Sprintf("rand-%d-%v", k, cont), PqIn{Container: cont, Cap: capacity, Ops: ops}, []string{"pq-gen=random"})
		}
	}
	for k := 0; k < *nfill; k++ {
		capacity, ops := genFillRemove(r)
		for _, cont := range []bool{false, true} {
			runPq(o, fmt.Sprintf("fill-%d-%v", k, cont), PqIn{Container: cont, Cap: capacity, Ops: ops}, []string{"pq-gen=fill-then-remove"})
		}
	}
	// 3. real channels
	worlds := map[string]*world{}
	get := func(maxMsg, memq int64) *world {
		key := fmt.Sprintf("%d/%d", maxMsg, memq)
		if worlds[key] == nil {
			worlds[key] = newWorld(time.Duration(maxMsg), memq)
		}
		return worlds[key]
	}
	for k := 0; k < *nchan; k++ {
		in := genChan(r)
		runChan(o, get(in.MaxMsg, in.MemQ), fmt.Sprintf("chan-%d", k), in)
	}
	for k := 0; k < *nbig; k++ {
		bigScan(o, get(int64(15*time.Minute), 40), r, fmt.Sprintf("bigscan-%d", k), k%2 == 1, 10+r.Intn(30))
	}
	for k := 0; k < *ntouch; k++ {
		maxMsg := []int64{int64(2 * time.Second), int64(15 * time.Minute)}[k%2]
		touchCap(o, get(maxMsg, 40), r, fmt.Sprintf("touchcap-%d", k), maxMsg)
	}
	// 4. queueScanLoop's channel selection (real util.UniqRands)
	for k := 0; k < *nuniq; k++ {
		m := []int{0, 1, 2, 5, 19, 20, 21, 40, 200}[r.Intn(9)]
		q := 20
		if r.Chance(25) {
			q = r.Intn(30)
		}
		if q > m { // as queueScanLoop does before the call
			q = m
		}
		uniq(o, fmt.Sprintf("uniq-%d", k), q, m)
	}
	for _, w := range worlds {
		w.n.Exit()
	}
}

func uniq(o *lib.Out, name string, q, m int) {
	res := verifshim.UniqRands(q, m)
	vs := make([]int64, len(res))
	for i, x := range res {
		vs[i] = int64(x)
	}
	o.Emit(lib.Case{Name: name, Coq: fmt.Sprintf("(J04.Uniq %d %d %s)", q, m, zs(vs)),
		Input: map[string]interface{}{"kind": "uniq", "q": q, "m": m},
		Tags:  []string{"kind=scan-selection", fmt.Sprintf("selection-covers-all-channels=%v", q >= m)}, Nontrivial: true})
}
