package main

// Concurrent deliveries to slow consumers.
//
// One topic, one channel per slow consumer plus one channel shared by the fast consumers;
// every message has the same (large) size.  A slow consumer sits behind a small TCP window
// (SO_RCVBUF 4 KiB / 16 KiB, MSS 1400, set on the harness's own socket): the daemon can push
// only a fraction of a frame before its write to that connection blocks.  The consumer
// reads the frame header of a message, then stops reading (the delivery is now held
// part-way inside the daemon's Send) while
//   - the fast consumers receive and finish a whole batch of messages, concurrently,
//   - the next batch is published (memory queue, or disk queue with mem-queue-size 0/1),
// and only then reads the rest of the frame.  Several rounds per case; optionally the
// daemon runs on one or two Ps (GOMAXPROCS), which is the single-core host configuration.
// Whatever the daemon did meanwhile, every frame must carry the id, timestamp and body of
// the message that was published (judged as a CLiveDigest case: every message exactly once
// on every channel, bodies compared byte for byte).
//
// Nothing here depends on timing for its verdict: all waits are for exact events (frame
// header received, batch consumed, publish acknowledged).

import (
	"bytes"
	"encoding/binary"
	"fmt"
	"io"
	"runtime"
	"sync"
	"time"

	"verifharness/lib"
	"verifharness/nsqdlib"
)

type concPlan struct {
	procs  int // GOMAXPROCS while the case runs; -1 = leave as it is
	size   int // body size of every message
	nslow  int
	nfast  int
	rounds int
	batch  int
	memq   int64
	rcvbuf int
	noise  bool // consumers interleave PUBs (to another topic) with what they receive
}

var concSizes = []int{200001, 262143, 262144, 262145, 524287, 524288, 524289, 1048575, 1048576}

// concBodies: n pairwise distinct bodies of one size; mostly random (incompressible, so that
// a compressing transport cannot hide a stalled peer), some patterned (genBody's styles) and
// marked every 61 bytes with the message's own number, so that any stretch of one body
// differs from the same stretch of every other body.
func concBodies(r *lib.Rand, n, size int) ([][]byte, string) {
	seen := map[string]bool{}
	var bodies [][]byte
	style := "random"
	patterned := r.Chance(25) && size >= 1000
	for len(bodies) < n {
		var b []byte
		if patterned {
			b, _ = genBody(r, size)
			style = "patterned"
			m := len(bodies)
			for i := m % 61; i < size; i += 61 {
				b[i] = byte(0x80 + m)
			}
		} else {
			b = r.Bytes(size)
		}
		k := string(digestKey(b))
		if seen[k] {
			continue
		}
		seen[k] = true
		bodies = append(bodies, b)
	}
	return bodies, style
}

type concDel struct {
	ch  int
	raw []byte
}

// concState is what the consumer goroutines share with the coordinator.
type concState struct {
	mu    sync.Mutex
	dels  []concDel
	errs  []string
	abort chan struct{}
	once  sync.Once
}

func (s *concState) fail(format string, a ...interface{}) {
	s.mu.Lock()
	s.errs = append(s.errs, fmt.Sprintf(format, a...))
	s.mu.Unlock()
	s.once.Do(func() { close(s.abort) })
}

func (s *concState) record(ch int, raw []byte) {
	s.mu.Lock()
	s.dels = append(s.dels, concDel{ch, raw})
	s.mu.Unlock()
}

// readMessageHeld reads frames up to and including the next message frame and returns its
// data.  When hold is not nil it is called after the frame header and the 26-byte message
// header have arrived and before the rest is read.  Heartbeats are answered and skipped;
// "OK" responses (to the PUBs this connection interleaves) are counted in c.okSeen.
// With untilOK > 0 it returns (nil, nil) as soon as c.okSeen reaches untilOK.
func (c *client) readMessageHeld(hold func() bool, untilOK int) ([]byte, error) {
	for {
		if untilOK > 0 && c.okSeen >= untilOK {
			return nil, nil
		}
		c.conn.SetReadDeadline(time.Now().Add(readDeadline))
		var hdr [8]byte
		if _, err := io.ReadFull(c.r, hdr[:]); err != nil {
			return nil, err
		}
		size := int(int32(binary.BigEndian.Uint32(hdr[:4])))
		ft := int32(binary.BigEndian.Uint32(hdr[4:]))
		if size < 4 || size > 64<<20 {
			return nil, fmt.Errorf("frame size %d", size)
		}
		data := make([]byte, size-4)
		if ft != 2 {
			if _, err := io.ReadFull(c.r, data); err != nil {
				return nil, err
			}
			if ft == 0 && string(data) == "_heartbeat_" {
				c.send("NOP", nil)
				continue
			}
			if ft == 0 && string(data) == "OK" {
				c.okSeen++
				continue
			}
			return nil, fmt.Errorf("unexpected frame type %d %q", ft, truncate(data))
		}
		if untilOK > 0 {
			return nil, fmt.Errorf("a message frame while waiting for %d more OK", untilOK-c.okSeen)
		}
		got := 0
		if hold != nil {
			if len(data) >= 26 {
				if _, err := io.ReadFull(c.r, data[:26]); err != nil {
					return nil, err
				}
				got = 26
			}
			if !hold() {
				return nil, fmt.Errorf("aborted while holding a frame")
			}
			c.conn.SetReadDeadline(time.Now().Add(readDeadline))
		}
		if _, err := io.ReadFull(c.r, data[got:]); err != nil {
			return nil, err
		}
		return data, nil
	}
}

// noisePub: a PUB to another topic, as raw command bytes; its OK response travels between
// (never inside) the message frames of this connection.
func noisePub(k int) []byte {
	var buf bytes.Buffer
	body := []byte(fmt.Sprintf("n\n%d\x00\x00\x00\x06\x00\x00\x00\x02", k))
	buf.WriteString("PUB wire_noise\n")
	buf.Write(be32(uint32(len(body))))
	buf.Write(body)
	return buf.Bytes()
}

func concCase(in caseIn, name string) {
	r := lib.NewRand(in.Seed)
	plan := concPlan{
		procs:  []int{1, 2, -1}[r.Intn(3)],
		size:   concSizes[r.Intn(len(concSizes))],
		nslow:  1 + r.Intn(2),
		nfast:  2 + r.Intn(3),
		rounds: 2 + r.Intn(2),
		batch:  2 + r.Intn(3),
		memq:   []int64{0, 1, 10000}[r.Intn(3)],
		rcvbuf: []int{4096, 4096, 16384}[r.Intn(3)],
		noise:  r.Chance(60),
	}
	if in.Procs != 0 {
		plan.procs = in.Procs
	}
	if in.Quiet {
		plan.noise = false
	}
	if plan.size < 500000 {
		// with a 16 KiB receive buffer some 200 KB fit into the connection: no stall
		plan.rcvbuf = 4096
	}
	if plan.size > 600000 && plan.batch > 3 {
		plan.batch = 3
	}
	total := plan.rounds * plan.batch
	bodies, style := concBodies(r, total, plan.size)
	fw := newFeatWalk(r)

	if plan.procs > 0 {
		defer runtime.GOMAXPROCS(runtime.GOMAXPROCS(plan.procs))
	}

	opts := baseOpts()
	opts.MemQueueSize = plan.memq
	opts.MaxBodySize = 64 << 20
	d, err := nsqdlib.Start(opts)
	if err != nil {
		lib.Fatalf("nsqd: %v", err)
	}
	defer d.Exit()
	topic := "wireconc"
	httpAddr, tcpAddr := d.RealHTTPAddr().String(), d.RealTCPAddr().String()
	for c := 0; c < plan.nslow; c++ {
		createChannel(httpAddr, topic, fmt.Sprintf("slow%d", c))
	}
	createChannel(httpAddr, topic, "fast")

	tags := []string{"kind=liveconc", "live=concurrent-slow-consumers", fmt.Sprintf("conc_procs=%d", plan.procs), fmt.Sprintf("conc_size=%d", plan.size),
		fmt.Sprintf("conc_slow=%d", plan.nslow), fmt.Sprintf("conc_fast=%d", plan.nfast), fmt.Sprintf("conc_rounds=%d", plan.rounds),
		fmt.Sprintf("conc_batch=%d", plan.batch), fmt.Sprintf("memq=%d", plan.memq), fmt.Sprintf("conc_rcvbuf=%d", plan.rcvbuf), "conc_content=" + style, fmt.Sprintf("conc_noise=%v", plan.noise)}

	st := &concState{abort: make(chan struct{})}
	failed := func() bool {
		select {
		case <-st.abort:
			return true
		default:
			return false
		}
	}

	// ---- connections (dialled one after the other: the feature table is not shared)
	type slowC struct {
		c      *client
		held   chan struct{} // a frame header has arrived, the consumer stopped reading
		resume chan struct{}
		done   chan struct{}
	}
	type fastC struct {
		c     *client
		start chan int // number of messages to take in this round
		done  chan struct{}
	}
	var slows []*slowC
	var fasts []*fastC
	var clients []*client
	defer func() {
		for _, c := range clients {
			c.close()
		}
	}()
	sub := func(f feat, channel string) *client {
		c, err := dial(tcpAddr, f)
		if err != nil {
			st.fail("dial %s (%s): %v", channel, f.key(), err)
			return nil
		}
		clients = append(clients, c)
		if err := c.send("SUB "+topic+" "+channel, nil); err != nil {
			st.fail("SUB %s: %v", channel, err)
			return nil
		}
		if err := c.expectResponse("OK"); err != nil {
			st.fail("SUB %s: %v", channel, err)
			return nil
		}
		return c
	}
	for i := 0; i < plan.nslow && !failed(); i++ {
		f := fw.next()
		f.HB = 60000 // the write deadline of a delivery is the heartbeat interval (SUB needs heartbeats on)
		f.RcvBuf, f.MSS = plan.rcvbuf, 1400
		if style != "random" {
			// compressible content would fit into the window whole: no compression here
			f.Snappy, f.Deflate = false, 0
		}
		c := sub(f, fmt.Sprintf("slow%d", i))
		if c == nil {
			break
		}
		// the daemon's send buffer stops growing with the traffic: every round's frame blocks
		if !d.VerifSetClientSendBuffer(c.conn.LocalAddr().String(), flushSndBuf) {
			lib.Fatalf("VerifSetClientSendBuffer: the daemon has no connection from %s", c.conn.LocalAddr())
		}
		tags = append(tags, f.tags("slow:")...)
		slows = append(slows, &slowC{c: c, held: make(chan struct{}), resume: make(chan struct{}), done: make(chan struct{})})
	}
	for j := 0; j < plan.nfast && !failed(); j++ {
		f := fw.next()
		c := sub(f, "fast")
		if c == nil {
			break
		}
		tags = append(tags, f.tags("consumer:")...)
		fasts = append(fasts, &fastC{c: c, start: make(chan int), done: make(chan struct{})})
	}

	tlo := time.Now().UnixNano() - 2e9
	var pubTags []string
	holds := 0
	if !failed() {
		// batch 0 is there before anybody is ready
		t, perr := publishAll(r, d, topic, bodies[:plan.batch], fw)
		pubTags = append(pubTags, t...)
		if perr != nil {
			st.fail("publish: %v", perr)
		}
	}
	if !failed() {
		var wg sync.WaitGroup
		for i, s := range slows {
			wg.Add(1)
			go func(i int, s *slowC) {
				defer wg.Done()
				defer close(s.done)
				if err := s.c.send("RDY 1", nil); err != nil {
					st.fail("slow%d RDY: %v", i, err)
					return
				}
				okSent := 0
				for k := 0; k < total; k++ {
					var hold func() bool
					if k%plan.batch == 0 {
						hold = func() bool {
							if plan.noise {
								// a command whose response has to wait for the connection's
								// write lock, which the held delivery owns
								if err := s.c.sendRaw(noisePub(k)); err != nil {
									return false
								}
								okSent++
							}
							select {
							case s.held <- struct{}{}:
							case <-st.abort:
								return false
							}
							select {
							case <-s.resume:
								return true
							case <-st.abort:
								return false
							}
						}
					}
					raw, err := s.c.readMessageHeld(hold, 0)
					if err != nil {
						st.fail("slow%d message %d of %d: %v", i, k, total, err)
						return
					}
					st.record(i, raw)
					if len(raw) < 26 {
						st.fail("slow%d: message frame of %d bytes", i, len(raw))
						return
					}
					if err := s.c.send(fmt.Sprintf("FIN %s", raw[10:26]), nil); err != nil {
						st.fail("slow%d FIN: %v", i, err)
						return
					}
				}
				if okSent > 0 {
					if _, err := s.c.readMessageHeld(nil, okSent); err != nil {
						st.fail("slow%d: responses to its PUBs: %v", i, err)
					}
				}
			}(i, s)
		}
		for j, f := range fasts {
			wg.Add(1)
			go func(j int, f *fastC) {
				defer wg.Done()
				okSent := 0
				for {
					var n int
					var ok bool
					select {
					case n, ok = <-f.start:
						if !ok {
							return
						}
					case <-st.abort:
						return
					}
					err := func() error {
						if n == 0 {
							return nil
						}
						var cmd bytes.Buffer
						fmt.Fprintf(&cmd, "RDY %d\n", n)
						if plan.noise {
							// responses written by the connection's IOLoop while its
							// messagePump writes message frames
							for k := 0; k < 3; k++ {
								cmd.Write(noisePub(k))
								okSent++
							}
						}
						if err := f.c.sendRaw(cmd.Bytes()); err != nil {
							return err
						}
						var buf bytes.Buffer
						buf.WriteString("RDY 0\n")
						for k := 0; k < n; k++ {
							raw, err := f.c.readMessageHeld(nil, 0)
							if err != nil {
								return fmt.Errorf("message %d of %d: %v", k, n, err)
							}
							st.record(plan.nslow, raw)
							if len(raw) < 26 {
								return fmt.Errorf("message frame of %d bytes", len(raw))
							}
							fmt.Fprintf(&buf, "FIN %s\n", raw[10:26])
						}
						if err := f.c.sendRaw(buf.Bytes()); err != nil {
							return err
						}
						if okSent > 0 {
							if _, err := f.c.readMessageHeld(nil, okSent); err != nil {
								return fmt.Errorf("responses to its PUBs: %v", err)
							}
						}
						return nil
					}()
					if err != nil {
						st.fail("fast%d: %v", j, err)
						return
					}
					select {
					case f.done <- struct{}{}:
					case <-st.abort:
						return
					}
				}
			}(j, f)
		}

	rounds:
		for round := 0; round < plan.rounds; round++ {
			// every slow consumer has the head of a frame and has stopped reading
			for _, s := range slows {
				select {
				case <-s.held:
					holds++
				case <-st.abort:
					break rounds
				}
			}
			// meanwhile: the fast consumers take a whole batch, the next batch is published
			pubDone := make(chan struct{})
			go func() {
				defer close(pubDone)
				if round+1 < plan.rounds {
					t, perr := publishAll(r, d, topic, bodies[(round+1)*plan.batch:(round+2)*plan.batch], fw)
					pubTags = append(pubTags, t...)
					if perr != nil {
						st.fail("publish: %v", perr)
					}
				}
			}()
			for j, f := range fasts {
				n := plan.batch / len(fasts)
				if j < plan.batch%len(fasts) {
					n++
				}
				select {
				case f.start <- n:
				case <-st.abort:
				}
			}
			for _, f := range fasts {
				select {
				case <-f.done:
				case <-st.abort:
				}
			}
			<-pubDone
			if failed() {
				break
			}
			for _, s := range slows {
				select {
				case s.resume <- struct{}{}:
				case <-st.abort:
				}
			}
		}
		for _, s := range slows {
			select {
			case <-s.done:
			case <-st.abort:
			}
		}
		for _, f := range fasts {
			close(f.start)
		}
		if failed() {
			// unblock whoever still sits in a read
			for _, c := range clients {
				c.conn.SetReadDeadline(time.Now())
			}
		}
		wg.Wait()
	}
	thi := time.Now().UnixNano() + 2e9

	if len(st.errs) > 0 {
		liveFailures++
		tags = append(tags, "live=incomplete")
		out.Stat("live_incomplete_"+name, st.errs[0])
	}
	tags = append(tags, pubTags...)
	tags = append(tags, fmt.Sprintf("conc_held_frames=%d", holds))
	concHeld += holds

	equal := true
	byKey := map[string][]byte{}
	var pubs [][]byte
	for _, b := range bodies {
		k := digestKey(b)
		byKey[string(k)] = b
		pubs = append(pubs, k)
	}
	var parts []string
	for _, dl := range st.dels {
		if len(dl.raw) < 26 {
			equal = false
			continue
		}
		body := dl.raw[26:]
		k := digestKey(body)
		if pb, ok := byKey[string(k)]; !ok || !bytes.Equal(pb, body) {
			equal = false
		}
		ts := int64(be64(dl.raw[:8]))
		att := uint64(dl.raw[8])<<8 | uint64(dl.raw[9])
		parts = append(parts, fmt.Sprintf("(%s, %s, %s, %s, %s)", lib.CoqN(uint64(dl.ch)), lib.CoqZ(ts), lib.CoqN(att), lib.CoqBytes(dl.raw[10:26]), lib.CoqBytes(k)))
	}
	out.Emit(lib.Case{Name: name,
		Coq: fmt.Sprintf("(J07.CLiveDigest %s %s %s %s %s %s %s)", lib.CoqBytesList(pubs), lib.CoqN(uint64(plan.nslow+1)), lib.CoqN(1),
			lib.CoqZ(tlo), lib.CoqZ(thi), lib.CoqList(parts), lib.CoqBool(equal)),
		Input: in, Tags: tags, Nontrivial: true,
		Obs: map[string]interface{}{"deliveries": len(st.dels), "bytes_equal": equal, "held_frames": holds, "errors": st.errs}})
}

var concHeld = 0
