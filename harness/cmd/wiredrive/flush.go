package main

// One consumer connection, every writer of its shared output buffer held part-way, every
// kind of command contending for it (kind "liveflush").
//
// A connection's bufio.Writer (on top of snappy / deflate / TLS) is written by two
// goroutines of the daemon: the consumer's messagePump (message frames, heartbeats, the
// flushes) and the IOLoop (the responses to the commands the same connection sends).  Which
// of the pump's writes is the one that pushes the bytes of a message frame into the
// connection depends on the negotiated output buffer and on RDY:
//
//	timed     output_buffer_size >= the frames of a round, RDY above what is in flight: the
//	          frames sit in the buffer until the output-buffer-timeout ticker flushes them;
//	notready  the same buffer, RDY = messages per round: the pump finds the client not ready
//	          and force-flushes;
//	send      a small (or no) buffer: the frame is written through inside Send.
//
// The consumer sits behind a small TCP window (SO_RCVBUF 4 KiB, MSS 1400 on the harness's
// socket) and the daemon's send buffer for this connection is fixed at 4 KiB (verif hook
// VerifSetClientSendBuffer: without it the kernel's auto-tuning lets the connection hold
// more and more as it carries traffic), so the connection holds about 12 KB in flight and
// whichever write carries the frames of a round (40 KB .. 64 KiB on a daemon with the
// default --max-output-buffer-size, 200 .. 600 KB on one with 4 MiB) blocks inside conn.Write
// as soon as the harness stops reading.  Per
// round: the round's messages are published (acknowledged); the consumer reads the frame
// header and the 26-byte message header of the first frame -- the write is now in progress
// and cannot complete -- and stops; it sends a command of its own on the SAME connection
// (PUB, NOP+PUB, MPUB, DPUB, FIN / REQ / TOUCH of an id that is not in flight, CLS) whose
// response the IOLoop has to write into the same buffer; the harness waits until the
// command has been executed (topic message count) where that is observable; then it reads
// on.  Everything the connection delivers from SUB to CLOSE_WAIT is recorded frame by frame
// in arrival order and judged as a whole (J07.CConn): every published message exactly once,
// byte for byte, and exactly the responses the commands sent call for, in order, nothing
// else, nothing left over.
//
// The verdict does not depend on timing: the waits are for exact events; the two short
// sleeps (after a command whose execution cannot be observed, before the check for
// trailing bytes) only give a faulty daemon more room to show itself.

import (
	"bufio"
	"bytes"
	"context"
	"encoding/binary"
	"encoding/json"
	"errors"
	"fmt"
	"io"
	"net"
	"os"
	"os/exec"
	"path/filepath"
	"runtime"
	"sort"
	"strings"
	"time"

	"verifharness/lib"
	"verifharness/nsqdlib"
)

// the contending commands
const (
	fcPUB = iota
	fcNOPPUB
	fcMPUB
	fcDPUB
	fcFIN
	fcREQ
	fcTOUCH
	fcCLS
	fcCount
)

var fcNames = []string{"PUB", "NOP+PUB", "MPUB", "DPUB", "FIN-unknown", "REQ-unknown", "TOUCH-unknown", "CLS"}

// response codes of the judge (J07.resp_of_cmd)
const (
	respOK        = 0
	respFinFailed = 1
	respReqFailed = 2
	respTouchFail = 3
	respCloseWait = 4
)

var flushers = []string{"timed", "notready", "send"}

const flushNoiseTopic = "wire_noise"

// contender returns the bytes of the command, the response code it draws and by how much it
// raises the message count of the noise topic (0 = its execution is not observable).
func contender(kind, k int) ([]byte, int, uint64) {
	var buf bytes.Buffer
	body := []byte(fmt.Sprintf("n\n%d\x00\x00\x00\x06\x00\x00\x00\x02", k))
	switch kind {
	case fcPUB:
		buf.Write(noisePub(k))
		return buf.Bytes(), respOK, 1
	case fcNOPPUB:
		buf.WriteString("NOP\n")
		buf.Write(noisePub(k))
		return buf.Bytes(), respOK, 1
	case fcMPUB:
		buf.WriteString("MPUB " + flushNoiseTopic + "\n")
		mp := encodeMPUB([][]byte{body, []byte("\x00\x00\x00\x06\x00\x00\x00\x00OK")})
		buf.Write(be32(uint32(len(mp))))
		buf.Write(mp)
		return buf.Bytes(), respOK, 2
	case fcDPUB:
		buf.WriteString("DPUB " + flushNoiseTopic + " 3600000\n")
		buf.Write(be32(uint32(len(body))))
		buf.Write(body)
		return buf.Bytes(), respOK, 1
	case fcFIN:
		return []byte("FIN 00000000000000ff\n"), respFinFailed, 0
	case fcREQ:
		return []byte("REQ 00000000000000fe 0\n"), respReqFailed, 0
	case fcTOUCH:
		return []byte("TOUCH 00000000000000fd\n"), respTouchFail, 0
	case fcCLS:
		return []byte("CLS\n"), respCloseWait, 0
	}
	lib.Fatalf("contender kind %d", kind)
	return nil, 0, 0
}

// readAnyFrame reads one frame.  For a message frame with hold != nil, hold is called after
// the frame header and the message header have arrived and before the rest is read.
func (c *client) readAnyFrame(hold func() error, deadline time.Duration) (int32, []byte, error) {
	c.conn.SetReadDeadline(time.Now().Add(deadline))
	var hdr [8]byte
	if n, err := io.ReadFull(c.r, hdr[:]); err != nil {
		if n > 0 {
			return 0, nil, fmt.Errorf("%d bytes of a frame header, then %v", n, err)
		}
		return 0, nil, err
	}
	size := int64(int32(binary.BigEndian.Uint32(hdr[:4])))
	ft := int32(binary.BigEndian.Uint32(hdr[4:]))
	if size < 4 || size > 8<<20 || ft < 0 || ft > 2 {
		return ft, nil, fmt.Errorf("not a frame header: size %d type %d", size, ft)
	}
	data := make([]byte, size-4)
	got := 0
	if ft == 2 && hold != nil {
		if len(data) >= 26 {
			if _, err := io.ReadFull(c.r, data[:26]); err != nil {
				return ft, nil, err
			}
			got = 26
		}
		if err := hold(); err != nil {
			return ft, nil, err
		}
		c.conn.SetReadDeadline(time.Now().Add(deadline))
	}
	if _, err := io.ReadFull(c.r, data[got:]); err != nil {
		return ft, nil, fmt.Errorf("inside a frame of type %d, %d data bytes: %v", ft, len(data), err)
	}
	return ft, data, nil
}

func flushCase(in caseIn, name string) {
	r := lib.NewRand(in.Seed)
	flusher := flushers[r.Intn(len(flushers))]
	if in.Flusher != "" {
		flusher = in.Flusher
	}
	procs := []int{1, 2, -1}[r.Intn(3)]
	if in.Procs != 0 {
		procs = in.Procs
	}
	rounds := 4
	m := 1 + r.Intn(2) // messages per round
	memq := []int64{0, 1, 10000}[r.Intn(3)]
	// the contending command of each round: a rotation of the list that starts at in.Cmd, so
	// that the cases of one run cover flusher x command; CLS only as the last one
	var cmds []int
	first := in.Cmd - 1 // 0 = drawn from the seed
	if first < 0 || first >= fcCount {
		first = r.Intn(fcCount)
	}
	for k := 0; len(cmds) < rounds; k++ {
		c := (first + k) % fcCount
		if c == fcCLS && len(cmds) != rounds-1 {
			continue
		}
		cmds = append(cmds, c)
	}
	fw := newFeatWalk(r)
	f := fw.next()
	f.HB = 60000 // the write deadline of a delivery is the heartbeat interval
	f.RcvBuf, f.MSS = 4096, 1400
	// two daemons: the default --max-output-buffer-size (64 KiB; a round's frames fill at most
	// that) and one of 4 MiB (frames of 200..300 KB).  What the connection holds in flight is
	// about 12 KB (flushSndBuf below), plus what the harness's reader takes to see the head
	// of a frame: a TLS record (16 KB) or a whole snappy block (64 KB) -- snappy goes with the
	// large frames only.
	large := r.Chance(50) || f.Snappy
	var size int
	if large {
		size = []int{200001, 262144 - 34, 262144, 300007}[r.Intn(4)]
	} else if m == 1 {
		size = []int{65536 - 34, 65536 - 35, 50000, 40001}[r.Intn(4)]
	} else {
		size = []int{32768 - 34, 30000}[r.Intn(2)]
	}
	// a CLS takes the connection out of the ready state: the round it contends in has the
	// held message only
	perRound := make([]int, rounds)
	total := 0
	for k := range perRound {
		perRound[k] = m
		if cmds[k] == fcCLS {
			perRound[k] = 1
		}
		total += perRound[k]
	}
	bodies, style := concBodies(r, total, size)
	if style != "random" {
		f.Snappy, f.Deflate = false, 0
	}
	frames := m * (size + 34)
	maxOBS := 64 << 10
	if large {
		maxOBS = 4 << 20
	}
	obsClass := ""
	rdy := total + 3
	fitted := func() {
		// frames-1: the last byte of the round does not fit, the bulk is flushed inside Send
		k := r.Intn(8)
		f.OBS = frames + []int{0, 1, 4096, 100000, 0, 1, 4096, -1}[k]
		obsClass = []string{"frames", "frames+1", "frames+4096", "frames+100000", "frames", "frames+1", "frames+4096", "frames-1"}[k]
		if f.OBS > maxOBS {
			f.OBS, obsClass = maxOBS, "max-output-buffer-size"
		}
	}
	switch flusher {
	case "timed":
		fitted()
		f.OBT = []int{25, 60, 0, 250}[r.Intn(4)]
	case "notready":
		fitted()
		f.OBT = []int{-1, 30000}[r.Intn(2)]
		rdy = m
	default:
		k := r.Intn(4)
		f.OBS = []int{-1, 64, 16384, 65536}[k]
		if !large && f.OBS == 65536 {
			f.OBS = 16384 // smaller than a frame: written through inside Send
		}
		obsClass = fmt.Sprintf("%d", f.OBS)
		f.OBT = []int{-1, 0, 25, 1000}[r.Intn(4)]
		if r.Chance(50) {
			rdy = m
		}
		if f.OBS == -1 || f.OBT == -1 {
			// no output-buffer-timeout ticker: with RDY above what is in flight nothing would
			// flush the tail of a frame out of the deflate writer (or the last bytes out of
			// the buffer) before the next heartbeat; RDY = messages per round makes the
			// pump's not-ready flush do it
			rdy = m
		}
	}

	if procs > 0 {
		defer runtime.GOMAXPROCS(runtime.GOMAXPROCS(procs))
	}
	opts := baseOpts()
	opts.MemQueueSize = memq
	opts.MaxBodySize = 64 << 20
	opts.MaxOutputBufferSize = int64(maxOBS)
	d, err := nsqdlib.Start(opts)
	if err != nil {
		lib.Fatalf("nsqd: %v", err)
	}
	defer d.Exit()
	topic := "wireflush"
	httpAddr, tcpAddr := d.RealHTTPAddr().String(), d.RealTCPAddr().String()
	createChannel(httpAddr, topic, "ch")
	d.GetTopic(flushNoiseTopic)
	noiseCount := func() uint64 {
		st := d.GetStats(flushNoiseTopic, "", false)
		if len(st.Topics) == 0 {
			return 0
		}
		return st.Topics[0].MessageCount
	}

	tags := []string{"kind=liveflush", "live=writer-held-with-contending-command", "flush_writer=" + flusher, fmt.Sprintf("flush_procs=%d", procs),
		fmt.Sprintf("flush_size=%d", size), fmt.Sprintf("flush_msgs_per_round=%d", m), fmt.Sprintf("flush_rounds=%d", rounds),
		fmt.Sprintf("flush_max_output_buffer=%d", maxOBS), "flush_obs=" + obsClass, fmt.Sprintf("flush_obt=%d", f.OBT), fmt.Sprintf("flush_rdy_above_inflight=%v", rdy > m), fmt.Sprintf("memq=%d", memq), "flush_content=" + style}
	tags = append(tags, f.tags("held:")...)

	// ---- the record of the connection
	type rec struct {
		t    int32
		data []byte
	}
	var got []rec
	var sent []int // response codes the commands sent call for, in order
	var errs []string
	fail := func(format string, a ...interface{}) { errs = append(errs, fmt.Sprintf(format, a...)) }
	heartbeats, held, executedWhileHeld := 0, 0, 0
	nmsg, nresp := 0, 0

	var c *client
	defer func() {
		if c != nil {
			c.close()
		}
	}()
	// next reads one frame that is not a heartbeat and records it
	next := func(hold func() error) error {
		for {
			ft, data, err := c.readAnyFrame(hold, readDeadline)
			if err != nil {
				return err
			}
			if ft == 0 && string(data) == "_heartbeat_" {
				heartbeats++
				if err := c.send("NOP", nil); err != nil {
					return err
				}
				continue
			}
			got = append(got, rec{ft, data})
			if ft == 2 {
				nmsg++
			} else {
				nresp++
			}
			return nil
		}
	}
	// until: read frames until msgs message frames and resps other frames have been seen
	until := func(msgs, resps int, hold func() error) error {
		used := false
		var h func() error
		if hold != nil {
			h = func() error { used = true; return hold() }
		}
		for nmsg < msgs || nresp < resps {
			if used {
				h = nil
			}
			if err := next(h); err != nil {
				return fmt.Errorf("with %d of %d message frames and %d of %d responses: %v", nmsg, msgs, nresp, resps, err)
			}
		}
		return nil
	}

	tlo := time.Now().UnixNano() - 2e9
	var pubTags []string
	published := 0
	closed := false
	func() {
		var err error
		c, err = dial(tcpAddr, f)
		if err != nil {
			fail("dial (%s): %v", f.key(), err)
			return
		}
		if err := c.send("SUB "+topic+" ch", nil); err != nil {
			fail("SUB: %v", err)
			return
		}
		sent = append(sent, respOK)
		if err := until(0, len(sent), nil); err != nil {
			fail("SUB: %v", err)
			return
		}
		if !d.VerifSetClientSendBuffer(c.conn.LocalAddr().String(), flushSndBuf) {
			lib.Fatalf("VerifSetClientSendBuffer: the daemon has no connection from %s", c.conn.LocalAddr())
		}
		if err := c.send(fmt.Sprintf("RDY %d", rdy), nil); err != nil {
			fail("RDY: %v", err)
			return
		}
		for round := 0; round < rounds; round++ {
			mr := perRound[round]
			if mr < rdy && rdy == m {
				// the not-ready flush needs RDY = what the round brings
				if err := c.send(fmt.Sprintf("RDY %d", mr), nil); err != nil {
					fail("RDY: %v", err)
					return
				}
			}
			t0 := time.Now()
			t, perr := publishAll(r, d, topic, bodies[published:published+mr], fw)
			pubTags = append(pubTags, t...)
			published += mr
			if perr != nil {
				fail("publish: %v", perr)
				return
			}
			cmd := cmds[round]
			tags = append(tags, "flush_cell="+flusher+"/"+fcNames[cmd])
			hold := func() error {
				// the head of the round's first frame is here: the daemon's write of it is in
				// progress and, the frame being larger than the connection holds, blocked
				held++
				raw, code, delta := contender(cmd, round)
				before := noiseCount()
				if err := c.sendRaw(raw); err != nil {
					return err
				}
				sent = append(sent, code)
				if cmd == fcCLS {
					closed = true
				}
				if delta > 0 {
					t0 := time.Now()
					for noiseCount() < before+delta {
						if time.Since(t0) > readDeadline {
							return fmt.Errorf("%s sent while a frame was held was not executed", fcNames[cmd])
						}
						time.Sleep(200 * time.Microsecond)
					}
					executedWhileHeld++
				}
				time.Sleep(10 * time.Millisecond)
				return nil
			}
			if err := until(published, len(sent)+1, hold); err != nil {
				fail("round %d (%s): %v", round, fcNames[cmd], err)
				return
			}
			// finish the round's messages
			var buf bytes.Buffer
			cnt := 0
			for i := len(got) - 1; i >= 0 && cnt < mr; i-- {
				if got[i].t == 2 && len(got[i].data) >= 26 {
					fmt.Fprintf(&buf, "FIN %s\n", got[i].data[10:26])
					cnt++
				}
			}
			if err := c.sendRaw(buf.Bytes()); err != nil {
				fail("FIN: %v", err)
				return
			}
			if os.Getenv("WIREDRIVE_DEBUG") != "" {
				fmt.Fprintf(os.Stderr, "%s round %d %s %s: %v\n", name, round, flusher, f.key(), time.Since(t0))
			}
		}
		// the barrier: a last command of the connection's own, then CLS
		if !closed {
			if err := c.sendRaw(noisePub(99)); err != nil {
				fail("PUB: %v", err)
				return
			}
			sent = append(sent, respOK)
			if err := until(published, len(sent), nil); err != nil {
				fail("closing PUB: %v", err)
				return
			}
			if err := c.send("CLS", nil); err != nil {
				fail("CLS: %v", err)
				return
			}
			sent = append(sent, respCloseWait)
			if err := until(published, len(sent), nil); err != nil {
				fail("CLS: %v", err)
				return
			}
		}
	}()
	thi := time.Now().UnixNano() + 2e9
	clean := len(errs) == 0
	if clean {
		// nothing may follow: whatever arrives now (other than a heartbeat) is recorded
		for {
			ft, data, err := c.readAnyFrame(nil, 30*time.Millisecond)
			if err != nil {
				var ne net.Error
				quiet := err == io.EOF || errors.Is(err, os.ErrDeadlineExceeded) || (errors.As(err, &ne) && ne.Timeout())
				if !quiet {
					clean = false
					fail("after CLOSE_WAIT: %v", err)
				}
				break
			}
			if ft == 0 && string(data) == "_heartbeat_" {
				continue
			}
			got = append(got, rec{ft, data})
		}
	}
	if len(errs) > 0 {
		liveFailures++
		tags = append(tags, "live=incomplete")
		out.Stat("live_incomplete_"+name, errs[0])
	}
	tags = append(tags, pubTags...)
	tags = append(tags, fmt.Sprintf("flush_held_frames=%d", held))
	flushHeld += held
	flushExecuted += executedWhileHeld

	equal := true
	byKey := map[string][]byte{}
	var pubs [][]byte
	for _, b := range bodies[:published] {
		k := digestKey(b)
		byKey[string(k)] = b
		pubs = append(pubs, k)
	}
	var parts []string
	var shape []string
	for _, g := range got {
		data := g.data
		if g.t == 2 {
			if len(data) < 26 {
				equal = false
			} else {
				body := data[26:]
				k := digestKey(body)
				if pb, ok := byKey[string(k)]; !ok || !bytes.Equal(pb, body) {
					equal = false
				}
				data = append(append([]byte{}, data[:26]...), k...)
			}
			shape = append(shape, "M")
		} else {
			if len(data) > 100 {
				data = data[:100]
			}
			shape = append(shape, fmt.Sprintf("%d:%s", g.t, truncate(data)))
		}
		parts = append(parts, fmt.Sprintf("(%s, %s)", lib.CoqZ(int64(g.t)), lib.CoqBytes(data)))
	}
	var codes []string
	for _, s := range sent {
		codes = append(codes, lib.CoqN(uint64(s)))
	}
	out.Emit(lib.Case{Name: name,
		Coq: fmt.Sprintf("(J07.CConn %s %s %s %s %s %s %s)", lib.CoqBytesList(pubs), lib.CoqZ(tlo), lib.CoqZ(thi), lib.CoqList(codes),
			lib.CoqList(parts), lib.CoqBool(equal), lib.CoqBool(clean)),
		Input: in, Tags: tags, Nontrivial: true,
		Obs: map[string]interface{}{"frames": shape, "bytes_equal": equal, "clean": clean, "held_frames": held, "commands_executed_while_held": executedWhileHeld,
			"heartbeats": heartbeats, "errors": errs, "features": featKeys()}})
}

func featKeys() []string {
	var ks []string
	for k := range featSeen {
		ks = append(ks, k)
	}
	sort.Strings(ks)
	return ks
}

var flushHeld, flushExecuted = 0, 0

// flushSndBuf: SO_SNDBUF of the daemon's side of a held connection (verif hook
// VerifSetClientSendBuffer).  A fixed send buffer takes the kernel's auto-tuning out: with
// the 4 KiB receive buffer on the harness's side the connection holds about 12 KB in flight,
// whatever it has carried before (auto-tuned, the same connection holds ~80 KB when fresh
// and ~700 KB after 300 KB of traffic).
const flushSndBuf = 4096

var flushChildren = 0

// flushCaseIsolated runs the case in a process of its own (this binary again, with the case
// as a one-line replay file): a daemon that panics while two of its goroutines write one
// connection takes its process down, and that must cost one case, not the run.  The child's
// case line is passed on as it is; a child that died without one is recorded as a connection
// whose stream ended in disorder (no frames, clean = false), with the end of its stderr.
func flushCaseIsolated(in caseIn, name string) {
	flushChildren++
	dir, err := os.MkdirTemp(nsqdlib.ScratchDir(), "flushchild-")
	if err != nil {
		lib.Fatalf("mkdir: %v", err)
	}
	defer os.RemoveAll(dir)
	replay := filepath.Join(dir, "replay.json")
	b, _ := json.Marshal(map[string]interface{}{"driver_index": 0, "inputs": []caseIn{in}})
	if err := os.WriteFile(replay, b, 0o644); err != nil {
		lib.Fatalf("write %s: %v", replay, err)
	}
	outPath := filepath.Join(dir, "out.jsonl")
	ctx, cancel := context.WithTimeout(context.Background(), 240*time.Second)
	defer cancel()
	cmd := exec.CommandContext(ctx, os.Args[0], "-replay", replay, "-out", outPath)
	cmd.Env = append(os.Environ(), "WIREDRIVE_CHILD="+name, "VERIF_SCRATCH="+filepath.Join(dir, "scratch"))
	os.MkdirAll(filepath.Join(dir, "scratch"), 0o755)
	var stderr bytes.Buffer
	cmd.Stderr = &stderr
	runErr := cmd.Run()
	emitted := 0
	if f, err := os.Open(outPath); err == nil {
		sc := bufio.NewScanner(f)
		sc.Buffer(make([]byte, 1<<20), 64<<20)
		for sc.Scan() {
			var c lib.Case
			var st struct {
				Stat  string      `json:"stat"`
				Value interface{} `json:"value"`
			}
			line := sc.Bytes()
			if json.Unmarshal(line, &st) == nil && st.Stat != "" {
				if strings.HasPrefix(st.Stat, "live_incomplete_") {
					out.Stat(st.Stat, st.Value)
				}
				continue
			}
			if json.Unmarshal(line, &c) != nil || c.Coq == "" {
				continue
			}
			if obs, ok := c.Obs.(map[string]interface{}); ok {
				if v, ok := obs["held_frames"].(float64); ok {
					flushHeld += int(v)
				}
				if v, ok := obs["commands_executed_while_held"].(float64); ok {
					flushExecuted += int(v)
				}
				if v, ok := obs["clean"].(bool); ok && !v {
					liveFailures++
				}
				if v, ok := obs["features"].([]interface{}); ok {
					for _, k := range v {
						if ks, ok := k.(string); ok {
							featSeen[ks]++
						}
					}
				}
				delete(obs, "features")
			}
			c.Input = in // not the child's copy: a uint64 seed does not survive a float64
			out.Emit(c)
			emitted++
		}
		f.Close()
	}
	if emitted > 0 {
		return
	}
	tail := stderr.String()
	if strings.Contains(tail, "HARNESS-ERROR") {
		lib.Fatalf("liveflush child: %s", tail)
	}
	if len(tail) > 3000 {
		// the head of a Go panic report says what happened and where
		tail = tail[:3000]
	}
	liveFailures++
	now := time.Now().UnixNano()
	out.Stat("live_incomplete_"+name, fmt.Sprintf("the process running the daemon died (%v)", runErr))
	out.Emit(lib.Case{Name: name,
		Coq:   fmt.Sprintf("(J07.CConn [] %s %s [%s] [] true false)", lib.CoqZ(now-2e9), lib.CoqZ(now+2e9), lib.CoqN(respOK)),
		Input: in, Tags: []string{"kind=liveflush", "live=incomplete", "live=daemon-process-died", "flush_writer=" + in.Flusher}, Nontrivial: true,
		Obs: map[string]interface{}{"clean": false, "process_died": fmt.Sprint(runErr), "stderr": tail}})
}
