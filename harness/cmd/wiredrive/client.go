package main

// A raw nsqd TCP client written for this harness: magic, IDENTIFY with feature
// negotiation, and the TLS / snappy / deflate upgrades done by hand (crypto/tls,
// golang/snappy, compress/flate), so that what the consumer sees are the bytes the
// server's writer stack produced.

import (
	"bufio"
	"compress/flate"
	"crypto/tls"
	"encoding/binary"
	"encoding/json"
	"fmt"
	"io"
	"net"
	"syscall"
	"time"

	"github.com/golang/snappy"
)

type feat struct {
	TLS     bool
	Snappy  bool
	Deflate int // 0 = off, 1..9 = level
	OBS     int // output_buffer_size: -1, 0 (default), 64 .. 65536
	OBT     int // output_buffer_timeout ms: -1, 0 (default), 25 .. 30000
	HB      int // heartbeat_interval ms: -1 or >= 1000
	MsgTO   int  // msg_timeout ms (0 = daemon default)
	NoID    bool // skip IDENTIFY altogether (daemons whose max-body-size is below an IDENTIFY body)
	// a consumer behind a small TCP window (set on the harness's own socket before connect):
	// SO_RCVBUF and TCP_MAXSEG; 0 = system defaults (on loopback several MB fit in flight)
	RcvBuf int
	MSS    int
}

func (f feat) comp() string {
	if f.Snappy {
		return "snappy"
	}
	if f.Deflate > 0 {
		return fmt.Sprintf("deflate%d", f.Deflate)
	}
	return "none"
}

func (f feat) key() string {
	return fmt.Sprintf("tls=%v/%s/obs=%d/obt=%d", f.TLS, f.comp(), f.OBS, f.OBT)
}

var featSeen = map[string]int{}

// featTable enumerates the 2 x 11 x 4 x 4 combinations.
const featTotal = 2 * 11 * 4 * 4

func featAt(i int) feat {
	f := feat{HB: 0}
	f.TLS = i%2 == 1
	i /= 2
	c := i % 11
	i /= 11
	if c == 1 {
		f.Snappy = true
	} else if c >= 2 {
		f.Deflate = c - 1
	}
	f.OBS = []int{-1, 64, 16384, 65536}[i%4]
	i /= 4
	f.OBT = []int{-1, 0, 25, 1000}[i%4]
	return f
}

// featWalk is a seeded permutation of the table: successive draws visit every combination
// once before any repeats.
type featWalk struct {
	perm []int
	pos  int
}

func newFeatWalk(r interface{ Intn(int) int }) *featWalk {
	w := &featWalk{perm: make([]int, featTotal)}
	for i := range w.perm {
		w.perm[i] = i
	}
	for i := featTotal - 1; i > 0; i-- {
		j := r.Intn(i + 1)
		w.perm[i], w.perm[j] = w.perm[j], w.perm[i]
	}
	return w
}

func (w *featWalk) next() feat {
	f := featAt(w.perm[w.pos%featTotal])
	w.pos++
	return f
}

// readDeadline bounds every wait for a frame.  Deliveries take milliseconds; the bound only
// matters when the daemon under test has stopped talking.
const readDeadline = 30 * time.Second

type flusher interface{ Flush() error }

type client struct {
	conn net.Conn
	r    io.Reader
	w    io.Writer
	fl   []flusher
	// "OK" responses seen by readMessageHeld (conc.go)
	okSeen int
}

func (c *client) flush() error {
	for _, f := range c.fl {
		if err := f.Flush(); err != nil {
			return err
		}
	}
	return nil
}

func (c *client) send(line string, body []byte) error {
	buf := []byte(line)
	buf = append(buf, '\n')
	if body != nil {
		var sz [4]byte
		binary.BigEndian.PutUint32(sz[:], uint32(len(body)))
		buf = append(buf, sz[:]...)
		buf = append(buf, body...)
	}
	if _, err := c.w.Write(buf); err != nil {
		return err
	}
	return c.flush()
}

// sendRaw writes pre-assembled bytes (several commands at once).
func (c *client) sendRaw(b []byte) error {
	if _, err := c.w.Write(b); err != nil {
		return err
	}
	return c.flush()
}

func (c *client) readFrame(deadline time.Duration) (int32, []byte, error) {
	c.conn.SetReadDeadline(time.Now().Add(deadline))
	var hdr [4]byte
	if _, err := io.ReadFull(c.r, hdr[:]); err != nil {
		return 0, nil, err
	}
	size := int32(binary.BigEndian.Uint32(hdr[:]))
	if size < 4 {
		return 0, nil, fmt.Errorf("frame size %d", size)
	}
	buf := make([]byte, size)
	if _, err := io.ReadFull(c.r, buf); err != nil {
		return 0, nil, err
	}
	return int32(binary.BigEndian.Uint32(buf[:4])), buf[4:], nil
}

// expectResponse reads frames until a response/error frame that is not a heartbeat.
func (c *client) expectResponse(want string) error {
	for {
		ft, data, err := c.readFrame(readDeadline)
		if err != nil {
			return err
		}
		if ft == 0 && string(data) == "_heartbeat_" {
			if err := c.send("NOP", nil); err != nil {
				return err
			}
			continue
		}
		if ft != 0 || string(data) != want {
			return fmt.Errorf("expected response %q, got frame type %d %q", want, ft, truncate(data))
		}
		return nil
	}
}

func truncate(b []byte) string {
	if len(b) > 60 {
		b = b[:60]
	}
	return string(b)
}

func (c *client) close() { c.conn.Close() }

type identifyResp struct {
	TLSv1        bool `json:"tls_v1"`
	Deflate      bool `json:"deflate"`
	DeflateLevel int  `json:"deflate_level"`
	Snappy       bool `json:"snappy"`
	OBS          int  `json:"output_buffer_size"`
	OBT          int  `json:"output_buffer_timeout"`
}

func dial(addr string, f feat) (*client, error) {
	dialer := net.Dialer{Timeout: 10 * time.Second}
	if f.RcvBuf > 0 || f.MSS > 0 {
		dialer.Control = func(network, address string, rc syscall.RawConn) error {
			var serr error
			rc.Control(func(fd uintptr) {
				if f.RcvBuf > 0 {
					serr = syscall.SetsockoptInt(int(fd), syscall.SOL_SOCKET, syscall.SO_RCVBUF, f.RcvBuf)
				}
				if f.MSS > 0 && serr == nil {
					serr = syscall.SetsockoptInt(int(fd), syscall.IPPROTO_TCP, syscall.TCP_MAXSEG, f.MSS)
				}
			})
			return serr
		}
	}
	conn, err := dialer.Dial("tcp", addr)
	if err != nil {
		return nil, err
	}
	c := &client{conn: conn, r: conn, w: conn}
	if _, err := conn.Write([]byte("  V2")); err != nil {
		return nil, err
	}
	if f.NoID {
		return c, nil
	}
	id := map[string]interface{}{
		"client_id": "wiredrive", "hostname": "h", "feature_negotiation": true, "user_agent": "wiredrive",
		"tls_v1": f.TLS, "snappy": f.Snappy, "deflate": f.Deflate > 0, "deflate_level": f.Deflate,
		"output_buffer_size": f.OBS, "output_buffer_timeout": f.OBT, "heartbeat_interval": f.HB,
	}
	if f.MsgTO > 0 {
		id["msg_timeout"] = f.MsgTO
	}
	body, _ := json.Marshal(id)
	if err := c.send("IDENTIFY", body); err != nil {
		return nil, err
	}
	ft, data, err := c.readFrame(30 * time.Second)
	if err != nil {
		return nil, fmt.Errorf("identify response: %v", err)
	}
	if ft != 0 {
		return nil, fmt.Errorf("identify refused: %s", truncate(data))
	}
	var resp identifyResp
	if err := json.Unmarshal(data, &resp); err != nil {
		return nil, fmt.Errorf("identify response %q: %v", truncate(data), err)
	}
	if resp.TLSv1 != f.TLS || resp.Snappy != f.Snappy || resp.Deflate != (f.Deflate > 0) || (f.Deflate > 0 && resp.DeflateLevel != f.Deflate) {
		return nil, fmt.Errorf("negotiated %+v, asked %+v", resp, f)
	}
	if f.TLS {
		tc := tls.Client(conn, &tls.Config{InsecureSkipVerify: true})
		tc.SetDeadline(time.Now().Add(30 * time.Second))
		if err := tc.Handshake(); err != nil {
			return nil, fmt.Errorf("tls handshake: %v", err)
		}
		tc.SetDeadline(time.Time{})
		c.conn, c.r, c.w = tc, tc, tc
		if err := c.expectResponse("OK"); err != nil {
			return nil, fmt.Errorf("after tls: %v", err)
		}
	}
	if f.Snappy {
		c.r = snappy.NewReader(c.conn)
		//lint:ignore SA1019 unbuffered writer, one block per Write
		c.w = snappy.NewWriter(c.conn)
		if err := c.expectResponse("OK"); err != nil {
			return nil, fmt.Errorf("after snappy: %v", err)
		}
	}
	if f.Deflate > 0 {
		c.r = flate.NewReader(bufio.NewReader(c.conn))
		fw, _ := flate.NewWriter(c.conn, f.Deflate)
		c.w = fw
		c.fl = append(c.fl, fw)
		if err := c.expectResponse("OK"); err != nil {
			return nil, fmt.Errorf("after deflate: %v", err)
		}
	}
	featSeen[f.key()]++
	return c, nil
}

func (f feat) tags(prefix string) []string {
	return []string{
		fmt.Sprintf("%stls=%v", prefix, f.TLS), prefix + "comp=" + f.comp(),
		fmt.Sprintf("%sobs=%d", prefix, f.OBS), fmt.Sprintf("%sobt=%d", prefix, f.OBT),
	}
}
