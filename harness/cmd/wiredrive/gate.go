package main

// A queue write held part-way (the disk-queue twin of the slow consumer in conc.go).
//
// Two topics with one channel each on a daemon whose memory queues are (nearly) absent, so
// that every message is serialised by writeMessageToBackend on its way into the topic's and
// the channel's disk queue.  The backend of topic A (or of its channel) sits behind the
// verif gate nsqd/verif_c07_gate.go: the Put of message A parks after the daemon has
// serialised the message and before the queue takes the bytes.  While it is parked, a whole
// batch travels through topic B (published, written to both of B's queues, read back,
// delivered to a consumer and finished).  Then the gate opens and A is consumed.
// Every frame received must carry the id, timestamp and body of a message published to its
// own topic (two CLiveDigest cases, one per topic).

import (
	"bytes"
	"fmt"
	"runtime"
	"time"

	"verifharness/lib"
	"verifharness/nsqdlib"
)

func gateCase(in caseIn, name string) {
	r := lib.NewRand(in.Seed)
	procs := []int{1, 2, -1}[r.Intn(3)]
	if in.Procs != 0 {
		procs = in.Procs
	}
	onChannel := r.Chance(50) // gate the channel's queue, else the topic's
	memq := []int64{0, 0, 1}[r.Intn(3)]
	if !onChannel {
		memq = 0 // with a memory queue the topic's pump takes the message before any queue write
	}
	rounds := 2 + r.Intn(3)
	nb := 1 + r.Intn(4) // messages through topic B per round
	size := []int{8, 26, 27, 100, 4095, 4096, 4097, 16384, 65537, 200001}[r.Intn(10)]
	// B's bodies: same size as A's (a reused buffer is overwritten whole), sometimes shorter
	// (overwritten in part)
	sizeB := size
	if r.Chance(25) && size > 30 {
		sizeB = size - 1 - r.Intn(size/2)
	}
	nA := rounds
	if memq > 0 {
		nA++ // the first message stays in memory; it is consumed like the others
	}
	bodiesA, _ := concBodies(r, nA, size)
	bodiesB, _ := concBodies(r, rounds*nb, sizeB)
	fw := newFeatWalk(r)
	fa, fb := fw.next(), fw.next()

	if procs > 0 {
		defer runtime.GOMAXPROCS(runtime.GOMAXPROCS(procs))
	}
	opts := baseOpts()
	opts.MemQueueSize = memq
	d, err := nsqdlib.Start(opts)
	if err != nil {
		lib.Fatalf("nsqd: %v", err)
	}
	defer d.Exit()
	httpAddr, tcpAddr := d.RealHTTPAddr().String(), d.RealTCPAddr().String()
	createChannel(httpAddr, "gate_a", "ch")
	createChannel(httpAddr, "gate_b", "ch")
	gch := ""
	if onChannel {
		gch = "ch"
	}
	gate, ok := d.VerifGateBackend("gate_a", gch)
	if !ok {
		lib.Fatalf("VerifGateBackend: no such topic/channel")
	}

	tags := []string{"kind=livegate", "live=queue-write-held", fmt.Sprintf("gate_procs=%d", procs), fmt.Sprintf("gate_on_channel=%v", onChannel),
		fmt.Sprintf("memq=%d", memq), fmt.Sprintf("gate_rounds=%d", rounds), fmt.Sprintf("gate_other_msgs=%d", nb),
		fmt.Sprintf("gate_size=%d", size), fmt.Sprintf("gate_same_size=%v", size == sizeB)}
	tags = append(tags, fa.tags("consumer:")...)
	tags = append(tags, fb.tags("consumer:")...)

	var errs []string
	fail := func(format string, a ...interface{}) { errs = append(errs, fmt.Sprintf(format, a...)) }
	var delsA, delsB [][]byte
	held := 0

	pub := func(topic string, body []byte) error {
		code, msg, err := httpPost("http://"+httpAddr+"/pub?topic="+topic, body, false)
		if err != nil || code != 200 {
			return fmt.Errorf("/pub %s: %v %d %s", topic, err, code, msg)
		}
		return nil
	}
	// take n messages (RDY n, FIN each, RDY 0 first so that nothing else is sent)
	take := func(c *client, n int, into *[][]byte) error {
		if err := c.send(fmt.Sprintf("RDY %d", n), nil); err != nil {
			return err
		}
		var buf bytes.Buffer
		buf.WriteString("RDY 0\n")
		for k := 0; k < n; k++ {
			raw, err := c.readMessageHeld(nil, 0)
			if err != nil {
				return fmt.Errorf("message %d of %d: %v", k, n, err)
			}
			*into = append(*into, raw)
			if len(raw) < 26 {
				return fmt.Errorf("message frame of %d bytes", len(raw))
			}
			fmt.Fprintf(&buf, "FIN %s\n", raw[10:26])
		}
		return c.sendRaw(buf.Bytes())
	}
	var ca, cb *client
	defer func() {
		if ca != nil {
			ca.close()
		}
		if cb != nil {
			cb.close()
		}
	}()
	sub := func(f feat, topic string) *client {
		c, err := dial(tcpAddr, f)
		if err != nil {
			fail("dial (%s): %v", f.key(), err)
			return nil
		}
		if err := c.send("SUB "+topic+" ch", nil); err != nil {
			fail("SUB: %v", err)
			return c
		}
		if err := c.expectResponse("OK"); err != nil {
			fail("SUB: %v", err)
		}
		return c
	}
	ca = sub(fa, "gate_a")
	if len(errs) == 0 {
		cb = sub(fb, "gate_b")
	}

	tlo := time.Now().UnixNano() - 2e9
	ia := 0
	if len(errs) == 0 && memq > 0 {
		// fills the memory queue of the gated queue; the following message goes to disk
		if err := pub("gate_a", bodiesA[ia]); err != nil {
			fail("%v", err)
		}
		ia++
	}
	for round := 0; round < rounds && len(errs) == 0; round++ {
		reached, release := gate.Arm()
		pubErr := make(chan error, 1)
		go func(b []byte) { pubErr <- pub("gate_a", b) }(bodiesA[ia])
		ia++
		// the write of A has the serialised bytes and is parked (in the publisher's
		// goroutine for the topic's queue, in the topic's pump for the channel's queue)
		select {
		case <-reached:
			held++
		case <-time.After(readDeadline):
			fail("the gated queue write was never reached")
		}
		if len(errs) == 0 {
			// meanwhile a batch goes all the way through topic B
			for k := 0; k < nb && len(errs) == 0; k++ {
				if err := pub("gate_b", bodiesB[round*nb+k]); err != nil {
					fail("%v", err)
				}
			}
			if len(errs) == 0 {
				if err := take(cb, nb, &delsB); err != nil {
					fail("consumer of gate_b: %v", err)
				}
			}
		}
		release()
		if err := <-pubErr; err != nil {
			fail("%v", err)
		}
	}
	if len(errs) == 0 {
		if err := take(ca, nA, &delsA); err != nil {
			fail("consumer of gate_a: %v", err)
		}
	}
	thi := time.Now().UnixNano() + 2e9
	gateHeld += held
	if len(errs) > 0 {
		liveFailures++
		tags = append(tags, "live=incomplete")
		out.Stat("live_incomplete_"+name, errs[0])
	}
	tags = append(tags, fmt.Sprintf("gate_held_writes=%d", held))

	emit := func(suffix string, bodies [][]byte, raws [][]byte) {
		equal := true
		byKey := map[string][]byte{}
		var pubs [][]byte
		for _, b := range bodies {
			k := digestKey(b)
			byKey[string(k)] = b
			pubs = append(pubs, k)
		}
		var parts []string
		for _, raw := range raws {
			if len(raw) < 26 {
				equal = false
				continue
			}
			body := raw[26:]
			k := digestKey(body)
			if pb, ok := byKey[string(k)]; !ok || !bytes.Equal(pb, body) {
				equal = false
			}
			ts := int64(be64(raw[:8]))
			att := uint64(raw[8])<<8 | uint64(raw[9])
			parts = append(parts, fmt.Sprintf("(%s, %s, %s, %s, %s)", lib.CoqN(0), lib.CoqZ(ts), lib.CoqN(att), lib.CoqBytes(raw[10:26]), lib.CoqBytes(k)))
		}
		out.Emit(lib.Case{Name: name + suffix,
			Coq: fmt.Sprintf("(J07.CLiveDigest %s %s %s %s %s %s %s)", lib.CoqBytesList(pubs), lib.CoqN(1), lib.CoqN(1),
				lib.CoqZ(tlo), lib.CoqZ(thi), lib.CoqList(parts), lib.CoqBool(equal)),
			Input: in, Tags: append(append([]string{}, tags...), "gate_topic="+suffix[1:]), Nontrivial: true,
			Obs: map[string]interface{}{"deliveries": len(raws), "bytes_equal": equal, "held_writes": held, "errors": errs}})
	}
	emit("-a", bodiesA[:ia], delsA)
	emit("-b", bodiesB[:len(bodiesB)], delsB)
}

var gateHeld = 0
