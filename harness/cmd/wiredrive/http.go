package main

// HTTP publish cases: /pub, text /mpub, binary /mpub against shared live daemons (default
// limits; tiny limits so that the size checks are reachable with small bodies, with every
// message through the disk queue and with a memory queue; see httpCfgs).  What was published
// is observed independently of any model: the topic's message_count from /stats and the
// bodies consumed from the topic's only channel.  httpedge.go enumerates the boundaries.

import (
	"bufio"
	"bytes"
	"encoding/base64"
	"encoding/json"
	"fmt"
	"io"
	"net/http"
	"path/filepath"
	"time"

	"github.com/nsqio/nsq/nsqd"
	"verifharness/lib"
	"verifharness/nsqdlib"
)

type httpDaemon struct {
	d               *nsqd.NSQD
	key             string
	maxMsg, maxBody int64
	memq            int64
	tcp, http       string
	ntopics         int
}

var httpDaemons = map[string]*httpDaemon{}
var httpClient = &http.Client{Timeout: 60 * time.Second}

func certPaths() (string, string) {
	return filepath.Join(repoDir(), "nsqd/test/certs/server.pem"), filepath.Join(repoDir(), "nsqd/test/certs/server.key")
}

func baseOpts() *nsqd.Options {
	opts := nsqdlib.NewOpts(nsqdlib.ScratchDir())
	opts.TLSCert, opts.TLSKey = certPaths()
	opts.MaxDeflateLevel = 9
	opts.QueueScanInterval = 20 * time.Millisecond
	opts.QueueScanRefreshInterval = 50 * time.Millisecond
	return opts
}

// httpCfg: the limits and the memory queue size of one of the shared HTTP daemons.  A zero
// maxMsg means nsqd's defaults (1 MiB / 5 MiB / 10000).  With mem-queue-size 0 every message
// goes through the disk queue, whose own record limit (max-msg-size + 26) turns an oversize
// publish into a 503; with a memory queue nothing stands behind the HTTP handler's checks.
type httpCfg struct {
	key                   string
	maxMsg, maxBody, memq int64
}

var httpCfgs = []httpCfg{
	{"small", 16, 60, 0},
	{"small-mem", 16, 60, 100},
	{"mid-mem", 100, 420, 100},
	{"4k-mem", 4096, 16384, 1000},
	{"default", 0, 0, 0},
}

func httpCfgByKey(key string) httpCfg {
	for _, c := range httpCfgs {
		if c.key == key {
			return c
		}
	}
	lib.Fatalf("unknown http daemon %q", key)
	return httpCfg{}
}

func getHTTPDaemonCfg(c httpCfg) *httpDaemon {
	if hd, ok := httpDaemons[c.key]; ok {
		return hd
	}
	opts := baseOpts()
	if c.maxMsg > 0 {
		opts.MaxMsgSize = c.maxMsg
		opts.MaxBodySize = c.maxBody
		opts.MemQueueSize = c.memq
	}
	d, err := nsqdlib.Start(opts)
	if err != nil {
		lib.Fatalf("nsqd (http daemon): %v", err)
	}
	hd := &httpDaemon{d: d, key: c.key, maxMsg: opts.MaxMsgSize, maxBody: opts.MaxBodySize, memq: opts.MemQueueSize,
		tcp: d.RealTCPAddr().String(), http: d.RealHTTPAddr().String()}
	httpDaemons[c.key] = hd
	return hd
}

func getHTTPDaemon(small, mem bool) *httpDaemon {
	key := "default"
	if small {
		key = "small"
		if mem {
			key = "small-mem"
		}
	}
	return getHTTPDaemonCfg(httpCfgByKey(key))
}

func createChannel(httpAddr, topic, channel string) {
	if code, msg, err := httpPost("http://"+httpAddr+"/topic/create?topic="+topic, nil, false); err != nil || code != 200 {
		lib.Fatalf("topic/create: %v %d %s", err, code, msg)
	}
	if code, msg, err := httpPost("http://"+httpAddr+"/channel/create?topic="+topic+"&channel="+channel, nil, false); err != nil || code != 200 {
		lib.Fatalf("channel/create: %v %d %s", err, code, msg)
	}
}

func stopHTTPDaemons() {
	for _, hd := range httpDaemons {
		hd.d.Exit()
	}
}

// pieceReader hands the body out at most n bytes per Read: net/http writes one chunk of the
// chunked encoding per Read of a body of unknown length.
type pieceReader struct {
	b []byte
	n int
}

func (p *pieceReader) Read(q []byte) (int, error) {
	if len(p.b) == 0 {
		return 0, io.EOF
	}
	k := p.n
	if k > len(p.b) {
		k = len(p.b)
	}
	if k > len(q) {
		k = len(q)
	}
	copy(q, p.b[:k])
	p.b = p.b[k:]
	return k, nil
}

func httpPost(url string, body []byte, chunked bool) (int, string, error) {
	return httpPostPieces(url, body, chunked, 0)
}

// httpPostPieces: chunked = no Content-Length, Transfer-Encoding: chunked; piece > 0 = the
// size of the chunks (0 = whatever io.Copy makes of it, one chunk for bodies below 32 KiB).
func httpPostPieces(url string, body []byte, chunked bool, piece int) (int, string, error) {
	var rd io.Reader = bytes.NewReader(body)
	if chunked {
		// a reader of a type net/http does not know: Content-Length unknown, chunked encoding
		rd = bufio.NewReader(bytes.NewReader(body))
		if piece > 0 {
			rd = &pieceReader{b: body, n: piece}
		}
	}
	req, err := http.NewRequest("POST", url, rd)
	if err != nil {
		return 0, "", err
	}
	resp, err := httpClient.Do(req)
	if err != nil {
		return 0, "", err
	}
	defer resp.Body.Close()
	b, _ := io.ReadAll(resp.Body)
	msg := string(b)
	var j struct {
		Message string `json:"message"`
	}
	if json.Unmarshal(b, &j) == nil && j.Message != "" {
		msg = j.Message
	}
	return resp.StatusCode, msg, nil
}

func topicMessageCount(hd *httpDaemon, topic string) int64 {
	resp, err := httpClient.Get("http://" + hd.http + "/stats?format=json&topic=" + topic)
	if err != nil {
		lib.Fatalf("stats: %v", err)
	}
	defer resp.Body.Close()
	var st struct {
		Topics []struct {
			Name  string `json:"topic_name"`
			Count int64  `json:"message_count"`
		} `json:"topics"`
	}
	if err := json.NewDecoder(resp.Body).Decode(&st); err != nil {
		lib.Fatalf("stats decode: %v", err)
	}
	for _, t := range st.Topics {
		if t.Name == topic {
			return t.Count
		}
	}
	return 0
}

// consumeN subscribes to topic/channel, takes exactly n messages (raw frame data), FINs
// them and closes cleanly.
func consumeN(addr string, f feat, topic, channel string, n int) ([][]byte, error) {
	c, err := dial(addr, f)
	if err != nil {
		return nil, err
	}
	defer c.close()
	if err := c.send("SUB "+topic+" "+channel, nil); err != nil {
		return nil, err
	}
	if err := c.expectResponse("OK"); err != nil {
		return nil, err
	}
	var raws [][]byte
	if n > 0 {
		// RDY is bounded by max-rdy-count (2500): a larger batch is finished message by
		// message so that the in-flight count stays below the RDY count
		rdy, early := n, false
		if rdy > 2000 {
			rdy, early = 2000, true
		}
		if err := c.send(fmt.Sprintf("RDY %d", rdy), nil); err != nil {
			return nil, err
		}
		for len(raws) < n {
			ft, data, err := c.readFrame(readDeadline)
			if err != nil {
				return raws, fmt.Errorf("after %d of %d messages: %v", len(raws), n, err)
			}
			switch {
			case ft == 2:
				raws = append(raws, data)
				if early && len(data) >= 26 {
					if err := c.send(fmt.Sprintf("FIN %s", data[10:26]), nil); err != nil {
						return raws, err
					}
				}
			case ft == 0 && string(data) == "_heartbeat_":
				c.send("NOP", nil)
			default:
				return raws, fmt.Errorf("unexpected frame type %d %q", ft, truncate(data))
			}
		}
		var buf bytes.Buffer
		for _, raw := range raws {
			if len(raw) >= 26 && !early {
				fmt.Fprintf(&buf, "FIN %s\n", raw[10:26])
			}
		}
		buf.WriteString("CLS\n")
		if err := c.sendRaw(buf.Bytes()); err != nil {
			return raws, err
		}
	} else {
		if err := c.send("CLS", nil); err != nil {
			return nil, err
		}
	}
	if err := c.expectResponse("CLOSE_WAIT"); err != nil {
		return raws, err
	}
	return raws, nil
}

func errCode(status int, msg string) uint64 {
	if status == 200 {
		return 0
	}
	switch msg {
	case "MSG_TOO_BIG":
		return 1
	case "BODY_TOO_BIG":
		return 2
	case "MSG_EMPTY":
		return 3
	case "BAD_BODY":
		return 4
	case "BAD_MESSAGE":
		return 5
	}
	return 9
}

// genTextBody: newline-separated blocks around the limits; intent from the harness's own
// reading of what it built (0 = must be refused, 1 = must be accepted).
func genTextBody(r *lib.Rand, maxMsg, maxBody int64, small bool) ([]byte, int, string) {
	var buf bytes.Buffer
	nblocks := r.Intn(6)
	cls := "text"
	for i := 0; i < nblocks; i++ {
		var n int64
		switch r.Intn(8) {
		case 0:
			n = 0
		case 1:
			n = 1
		case 2:
			if small {
				n = maxMsg
			} else {
				n = 30
			}
		case 3:
			if small {
				n = maxMsg + 1
			} else {
				n = 31
			}
		default:
			n = 1 + int64(r.Intn(12))
		}
		b, _ := genBody(r, int(n))
		for j := range b {
			if b[j] == '\n' {
				b[j] = 'n'
			}
		}
		buf.Write(b)
		last := i == nblocks-1
		if !last || r.Chance(50) {
			buf.WriteByte('\n')
		} else {
			cls = "text-no-trailing-newline"
		}
		if r.Chance(15) {
			buf.WriteByte('\n')
		}
	}
	if small && r.Chance(15) { // total size at the body limit
		for int64(buf.Len()) < maxBody-1+int64(r.Intn(3)) {
			buf.WriteString("ab\n")
		}
		cls = "text-at-body-limit"
	}
	body := buf.Bytes()
	return body, textIntent(body, maxMsg, maxBody), cls
}

func textIntent(body []byte, maxMsg, maxBody int64) int {
	if int64(len(body)) > maxBody {
		return 0
	}
	for _, blk := range bytes.Split(body, []byte{'\n'}) {
		if int64(len(blk)) > maxMsg {
			return 0
		}
	}
	return 1
}

func httpCase(in caseIn, name string) {
	r := lib.NewRand(in.Seed)
	small := r.Chance(60)
	kind := r.Intn(3)
	chunked := r.Chance(35)
	if in.Explicit {
		small, kind, chunked = in.Small, in.HKind, in.Chunked
	}
	// the limits follow from [small]; which of the two small daemons (every message through
	// the disk queue / a memory queue) is drawn last
	lim := httpCfgByKey(map[bool]string{true: "small", false: "default"}[small])
	hd := &httpDaemon{maxMsg: lim.maxMsg, maxBody: lim.maxBody}
	if !small {
		hd = getHTTPDaemon(false, false)
	}
	var body []byte
	var want [][]byte
	intent := 2
	cls := ""
	switch kind {
	case 0:
		var n int64
		switch r.Intn(6) {
		case 0:
			n = 0
		case 1:
			n = hd.maxMsg
		case 2:
			n = hd.maxMsg + 1
		case 3:
			n = 1
		default:
			n = 1 + int64(r.Intn(40))
		}
		if !small && n > 600 {
			n = 1 + int64(r.Intn(600))
			if bigBudget > 0 && r.Chance(30) {
				bigBudget--
				n = []int64{4095, 4096, 4097, 16383, 16384, 16385}[r.Intn(6)]
			}
		}
		body, _ = genBody(r, int(n))
		intent = 1
		if n == 0 || n > hd.maxMsg {
			intent = 0
		}
		cls = "pub"
	case 1:
		body, intent, cls = genTextBody(r, hd.maxMsg, hd.maxBody, small)
	default:
		var bodies [][]byte
		body, bodies, intent, cls = genBatch(r, hd.maxMsg, hd.maxBody)
		if int64(len(body)) > hd.maxBody && intent == 1 {
			intent = 2 // over the body limit: refused by Content-Length or by a short read
		}
		if intent == 1 {
			want = bodies
		}
		cls = "binary-" + cls
	}
	mem := r.Chance(50)
	if in.Explicit {
		mem = in.MemQ > 0
		body, _ = base64.StdEncoding.DecodeString(in.BodyB64)
		intent, want = 2, nil
		if kind == 1 {
			intent = textIntent(body, hd.maxMsg, hd.maxBody)
		}
		if kind == 2 {
			if bs, ok := strictBatch(body, hd.maxMsg, hd.maxBody); ok {
				intent, want = 1, bs
			}
		}
		cls = "explicit"
	}
	hd = getHTTPDaemon(small, mem)
	httpRun(hd, kind, body, chunked, 0, intent, want, cls, in, name, nil)
}

// httpRun: one publish request against a fresh topic of the daemon, observed through /stats
// and by consuming the topic's only channel; emits the case.
func httpRun(hd *httpDaemon, kind int, body []byte, chunked bool, piece int, intent int, want [][]byte, cls string, in caseIn, name string, extra []string) {
	hd.ntopics++
	topic := fmt.Sprintf("h%d_%d", hd.ntopics, in.Seed%100000)
	createChannel(hd.http, topic, "c")
	url := "http://" + hd.http
	switch kind {
	case 0:
		url += "/pub?topic=" + topic
	case 1:
		url += "/mpub?topic=" + topic
	default:
		url += "/mpub?topic=" + topic + "&binary=true"
	}
	cl := int64(len(body))
	if chunked {
		cl = -1
	}
	status, msg, err := httpPostPieces(url, body, chunked, piece)
	if err != nil {
		lib.Fatalf("POST %s: %v", url, err)
	}
	count := topicMessageCount(hd, topic)
	raws, cerr := consumeN(hd.tcp, feat{NoID: hd.maxBody < 4096}, topic, "c", int(count))
	if cerr != nil {
		// judged with what did arrive
		liveFailures++
		extra = append(extra, "http=consume-incomplete")
		out.Stat("http_consume_incomplete_"+name, cerr.Error())
	}
	var got [][]byte
	for _, raw := range raws {
		if len(raw) < 26 {
			got = append(got, nil)
			continue
		}
		got = append(got, raw[26:])
	}
	// remove the topic so that the daemon does not accumulate state
	httpPost("http://"+hd.http+"/topic/delete?topic="+topic, nil, false)
	out.Emit(lib.Case{Name: name,
		Coq: fmt.Sprintf("(J07.CHttp %s %s %s %s %s %s %s %s %s %s %s)", lib.CoqN(uint64(kind)), lib.CoqZ(hd.maxMsg), lib.CoqZ(hd.maxBody), lib.CoqZ(cl),
			lib.CoqBytes(body), lib.CoqN(uint64(intent)), lib.CoqBytesList(want), lib.CoqZ(int64(status)), lib.CoqN(errCode(status, msg)),
			lib.CoqZ(count), lib.CoqBytesList(got)),
		Input: in, Tags: append(extra, "kind=http", "http="+cls, fmt.Sprintf("http_status=%d:%s", status, msg), fmt.Sprintf("chunked=%v", chunked),
			fmt.Sprintf("small_limits=%v", hd.maxMsg == 16), "http_daemon="+hd.key),
		Nontrivial: true, Obs: map[string]interface{}{"status": status, "message": msg, "count": count, "delivered": len(got)}})
}

// strictBatch: the harness's own reading of a binary batch: the whole input is one batch
// within the limits.
func strictBatch(b []byte, maxMsg, maxBody int64) ([][]byte, bool) {
	if int64(len(b)) > maxBody || len(b) < 4 {
		return nil, false
	}
	count := int64(int32(uint32(b[0])<<24 | uint32(b[1])<<16 | uint32(b[2])<<8 | uint32(b[3])))
	if count <= 0 || count > (maxBody-4)/5 {
		return nil, false
	}
	rd := b[4:]
	var bodies [][]byte
	for i := int64(0); i < count; i++ {
		if len(rd) < 4 {
			return nil, false
		}
		k := int64(int32(uint32(rd[0])<<24 | uint32(rd[1])<<16 | uint32(rd[2])<<8 | uint32(rd[3])))
		if k <= 0 || k > maxMsg || int64(len(rd)) < 4+k {
			return nil, false
		}
		bodies = append(bodies, rd[4:4+k])
		rd = rd[4+k:]
	}
	return bodies, len(rd) == 0
}
