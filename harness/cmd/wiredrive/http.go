package main

// HTTP publish cases: /pub, text /mpub, binary /mpub against two live daemons (default
// limits; tiny limits so that the size checks are reachable with small bodies).  What was
// published is observed independently of any model: the topic's message_count from /stats
// and the bodies consumed from the topic's only channel.

import (
	"bufio"
	"bytes"
	"encoding/base64"
	"encoding/json"
	"fmt"
	"io"
	"net/http"
	"path/filepath"
	"time"

	"github.com/nsqio/nsq/nsqd"
	"verifharness/lib"
	"verifharness/nsqdlib"
)

type httpDaemon struct {
	d               *nsqd.NSQD
	maxMsg, maxBody int64
	tcp, http       string
	ntopics         int
}

var httpDaemons = map[string]*httpDaemon{}
var httpClient = &http.Client{Timeout: 60 * time.Second}

func certPaths() (string, string) {
	return filepath.Join(repoDir(), "nsqd/test/certs/server.pem"), filepath.Join(repoDir(), "nsqd/test/certs/server.key")
}

func baseOpts() *nsqd.Options {
	opts := nsqdlib.NewOpts(nsqdlib.ScratchDir())
	opts.TLSCert, opts.TLSKey = certPaths()
	opts.MaxDeflateLevel = 9
	opts.QueueScanInterval = 20 * time.Millisecond
	opts.QueueScanRefreshInterval = 50 * time.Millisecond
	return opts
}

func getHTTPDaemon(small bool, r *lib.Rand) *httpDaemon {
	key := "default"
	if small {
		key = "small"
	}
	if hd, ok := httpDaemons[key]; ok {
		return hd
	}
	opts := baseOpts()
	if small {
		opts.MaxMsgSize = 16
		opts.MaxBodySize = 60
		opts.MemQueueSize = 0
	}
	d, err := nsqdlib.Start(opts)
	if err != nil {
		lib.Fatalf("nsqd (http daemon): %v", err)
	}
	hd := &httpDaemon{d: d, maxMsg: opts.MaxMsgSize, maxBody: opts.MaxBodySize,
		tcp: d.RealTCPAddr().String(), http: d.RealHTTPAddr().String()}
	httpDaemons[key] = hd
	return hd
}

func createChannel(httpAddr, topic, channel string) {
	if code, msg, err := httpPost("http://"+httpAddr+"/topic/create?topic="+topic, nil, false); err != nil || code != 200 {
		lib.Fatalf("topic/create: %v %d %s", err, code, msg)
	}
	if code, msg, err := httpPost("http://"+httpAddr+"/channel/create?topic="+topic+"&channel="+channel, nil, false); err != nil || code != 200 {
		lib.Fatalf("channel/create: %v %d %s", err, code, msg)
	}
}

func stopHTTPDaemons() {
	for _, hd := range httpDaemons {
		hd.d.Exit()
	}
}

func httpPost(url string, body []byte, chunked bool) (int, string, error) {
	var rd io.Reader = bytes.NewReader(body)
	if chunked {
		// a reader of a type net/http does not know: Content-Length unknown, chunked encoding
		rd = bufio.NewReader(bytes.NewReader(body))
	}
	req, err := http.NewRequest("POST", url, rd)
	if err != nil {
		return 0, "", err
	}
	resp, err := httpClient.Do(req)
	if err != nil {
		return 0, "", err
	}
	defer resp.Body.Close()
	b, _ := io.ReadAll(resp.Body)
	msg := string(b)
	var j struct {
		Message string `json:"message"`
	}
	if json.Unmarshal(b, &j) == nil && j.Message != "" {
		msg = j.Message
	}
	return resp.StatusCode, msg, nil
}

func topicMessageCount(hd *httpDaemon, topic string) int64 {
	resp, err := httpClient.Get("http://" + hd.http + "/stats?format=json&topic=" + topic)
	if err != nil {
		lib.Fatalf("stats: %v", err)
	}
	defer resp.Body.Close()
	var st struct {
		Topics []struct {
			Name  string `json:"topic_name"`
			Count int64  `json:"message_count"`
		} `json:"topics"`
	}
	if err := json.NewDecoder(resp.Body).Decode(&st); err != nil {
		lib.Fatalf("stats decode: %v", err)
	}
	for _, t := range st.Topics {
		if t.Name == topic {
			return t.Count
		}
	}
	return 0
}

// consumeN subscribes to topic/channel, takes exactly n messages (raw frame data), FINs
// them and closes cleanly.
func consumeN(addr string, f feat, topic, channel string, n int) ([][]byte, error) {
	c, err := dial(addr, f)
	if err != nil {
		return nil, err
	}
	defer c.close()
	if err := c.send("SUB "+topic+" "+channel, nil); err != nil {
		return nil, err
	}
	if err := c.expectResponse("OK"); err != nil {
		return nil, err
	}
	var raws [][]byte
	if n > 0 {
		if err := c.send(fmt.Sprintf("RDY %d", n), nil); err != nil {
			return nil, err
		}
		for len(raws) < n {
			ft, data, err := c.readFrame(readDeadline)
			if err != nil {
				return raws, fmt.Errorf("after %d of %d messages: %v", len(raws), n, err)
			}
			switch {
			case ft == 2:
				raws = append(raws, data)
			case ft == 0 && string(data) == "_heartbeat_":
				c.send("NOP", nil)
			default:
				return raws, fmt.Errorf("unexpected frame type %d %q", ft, truncate(data))
			}
		}
		var buf bytes.Buffer
		for _, raw := range raws {
			if len(raw) >= 26 {
				fmt.Fprintf(&buf, "FIN %s\n", raw[10:26])
			}
		}
		buf.WriteString("CLS\n")
		if err := c.sendRaw(buf.Bytes()); err != nil {
			return raws, err
		}
	} else {
		if err := c.send("CLS", nil); err != nil {
			return nil, err
		}
	}
	if err := c.expectResponse("CLOSE_WAIT"); err != nil {
		return raws, err
	}
	return raws, nil
}

func errCode(status int, msg string) uint64 {
	if status == 200 {
		return 0
	}
	switch msg {
	case "MSG_TOO_BIG":
		return 1
	case "BODY_TOO_BIG":
		return 2
	case "MSG_EMPTY":
		return 3
	case "BAD_BODY":
		return 4
	case "BAD_MESSAGE":
		return 5
	}
	return 9
}

// genTextBody: newline-separated blocks around the limits; intent from the harness's own
// reading of what it built (0 = must be refused, 1 = must be accepted).
func genTextBody(r *lib.Rand, maxMsg, maxBody int64, small bool) ([]byte, int, string) {
	var buf bytes.Buffer
	nblocks := r.Intn(6)
	cls := "text"
	for i := 0; i < nblocks; i++ {
		var n int64
		switch r.Intn(8) {
		case 0:
			n = 0
		case 1:
			n = 1
		case 2:
			if small {
				n = maxMsg
			} else {
				n = 30
			}
		case 3:
			if small {
				n = maxMsg + 1
			} else {
				n = 31
			}
		default:
			n = 1 + int64(r.Intn(12))
		}
		b, _ := genBody(r, int(n))
		for j := range b {
			if b[j] == '\n' {
				b[j] = 'n'
			}
		}
		buf.Write(b)
		last := i == nblocks-1
		if !last || r.Chance(50) {
			buf.WriteByte('\n')
		} else {
			cls = "text-no-trailing-newline"
		}
		if r.Chance(15) {
			buf.WriteByte('\n')
		}
	}
	if small && r.Chance(15) { // total size at the body limit
		for int64(buf.Len()) < maxBody-1+int64(r.Intn(3)) {
			buf.WriteString("ab\n")
		}
		cls = "text-at-body-limit"
	}
	body := buf.Bytes()
	return body, textIntent(body, maxMsg, maxBody), cls
}

func textIntent(body []byte, maxMsg, maxBody int64) int {
	if int64(len(body)) > maxBody {
		return 0
	}
	for _, blk := range bytes.Split(body, []byte{'\n'}) {
		if int64(len(blk)) > maxMsg {
			return 0
		}
	}
	return 1
}

func httpCase(in caseIn, name string) {
	r := lib.NewRand(in.Seed)
	small := r.Chance(60)
	kind := r.Intn(3)
	chunked := r.Chance(35)
	if in.Explicit {
		small, kind, chunked = in.Small, in.HKind, in.Chunked
	}
	hd := getHTTPDaemon(small, r)
	hd.ntopics++
	topic := fmt.Sprintf("h%d_%d", hd.ntopics, in.Seed%100000)
	createChannel(hd.http, topic, "c")
	var body []byte
	var want [][]byte
	intent := 2
	cls := ""
	url := "http://" + hd.http
	switch kind {
	case 0:
		var n int64
		switch r.Intn(6) {
		case 0:
			n = 0
		case 1:
			n = hd.maxMsg
		case 2:
			n = hd.maxMsg + 1
		case 3:
			n = 1
		default:
			n = 1 + int64(r.Intn(40))
		}
		if !small && n > 600 {
			n = 1 + int64(r.Intn(600))
			if bigBudget > 0 && r.Chance(30) {
				bigBudget--
				n = []int64{4095, 4096, 4097, 16383, 16384, 16385}[r.Intn(6)]
			}
		}
		body, _ = genBody(r, int(n))
		intent = 1
		if n == 0 || n > hd.maxMsg {
			intent = 0
		}
		cls = "pub"
		url += "/pub?topic=" + topic
	case 1:
		body, intent, cls = genTextBody(r, hd.maxMsg, hd.maxBody, small)
		url += "/mpub?topic=" + topic
	default:
		var bodies [][]byte
		body, bodies, intent, cls = genBatch(r, hd.maxMsg, hd.maxBody)
		if int64(len(body)) > hd.maxBody && intent == 1 {
			intent = 2 // over the body limit: refused by Content-Length or by a short read
		}
		if intent == 1 {
			want = bodies
		}
		cls = "binary-" + cls
		url += "/mpub?topic=" + topic + "&binary=true"
	}
	if in.Explicit {
		body, _ = base64.StdEncoding.DecodeString(in.BodyB64)
		intent, want = 2, nil
		if kind == 1 {
			intent = textIntent(body, hd.maxMsg, hd.maxBody)
		}
		if kind == 2 {
			if bs, ok := strictBatch(body, hd.maxMsg, hd.maxBody); ok {
				intent, want = 1, bs
			}
		}
		cls = "explicit"
	}
	cl := int64(len(body))
	if chunked {
		cl = -1
	}
	status, msg, err := httpPost(url, body, chunked)
	if err != nil {
		lib.Fatalf("POST %s: %v", url, err)
	}
	count := topicMessageCount(hd, topic)
	raws, cerr := consumeN(hd.tcp, feat{NoID: small}, topic, "c", int(count))
	extra := []string{}
	if cerr != nil {
		// judged with what did arrive
		liveFailures++
		extra = append(extra, "http=consume-incomplete")
		out.Stat("http_consume_incomplete_"+name, cerr.Error())
	}
	var got [][]byte
	for _, raw := range raws {
		if len(raw) < 26 {
			got = append(got, nil)
			continue
		}
		got = append(got, raw[26:])
	}
	// remove the topic so that the daemon does not accumulate state
	httpPost("http://"+hd.http+"/topic/delete?topic="+topic, nil, false)
	out.Emit(lib.Case{Name: name,
		Coq: fmt.Sprintf("(J07.CHttp %s %s %s %s %s %s %s %s %s %s %s)", lib.CoqN(uint64(kind)), lib.CoqZ(hd.maxMsg), lib.CoqZ(hd.maxBody), lib.CoqZ(cl),
			lib.CoqBytes(body), lib.CoqN(uint64(intent)), lib.CoqBytesList(want), lib.CoqZ(int64(status)), lib.CoqN(errCode(status, msg)),
			lib.CoqZ(count), lib.CoqBytesList(got)),
		Input: in, Tags: append(extra, "kind=http", "http="+cls, fmt.Sprintf("http_status=%d:%s", status, msg), fmt.Sprintf("chunked=%v", chunked), fmt.Sprintf("small_limits=%v", small)),
		Nontrivial: true, Obs: map[string]interface{}{"status": status, "message": msg, "count": count}})
}

// strictBatch: the harness's own reading of a binary batch: the whole input is one batch
// within the limits.
func strictBatch(b []byte, maxMsg, maxBody int64) ([][]byte, bool) {
	if int64(len(b)) > maxBody || len(b) < 4 {
		return nil, false
	}
	count := int64(int32(uint32(b[0])<<24 | uint32(b[1])<<16 | uint32(b[2])<<8 | uint32(b[3])))
	if count <= 0 || count > (maxBody-4)/5 {
		return nil, false
	}
	rd := b[4:]
	var bodies [][]byte
	for i := int64(0); i < count; i++ {
		if len(rd) < 4 {
			return nil, false
		}
		k := int64(int32(uint32(rd[0])<<24 | uint32(rd[1])<<16 | uint32(rd[2])<<8 | uint32(rd[3])))
		if k <= 0 || k > maxMsg || int64(len(rd)) < 4+k {
			return nil, false
		}
		bodies = append(bodies, rd[4:4+k])
		rd = rd[4+k:]
	}
	return bodies, len(rd) == 0
}
