// wiredrive: correspondence driver for C07 (message content and envelope integrity).
//
//	(1) pure codecs through the verif wrappers in nsqd/verif_c07.go: Message.WriteTo,
//	    decodeMessage, writeMessageToBackend+decodeMessage, SendFramedResponse, readMPUB;
//	(2) HTTP /pub, text /mpub, binary /mpub against live in-process daemons (default
//	    limits and tiny limits), observed by consuming the topic's channel; the boundary
//	    matrix of httpedge.go (limits x front door x Content-Length/chunked x shape);
//	(3) live paths: TCP PUB/MPUB/DPUB and HTTP publishes, several channels, memory and
//	    disk queues, requeue, restart on the same data path, consumed over raw TCP with a
//	    negotiated {plain,TLS} x {none,snappy,deflate 1..9} x output buffer size x timeout.
//
// Every random choice derives from -seed; each case records (kind, seed) so that -replay
// re-runs it.
package main

import (
	"bytes"
	"encoding/base64"
	"crypto/sha256"
	"encoding/binary"
	"flag"
	"fmt"
	"os"
	"path/filepath"
	"time"

	"github.com/nsqio/nsq/nsqd"
	"verifharness/lib"
	"verifharness/nsqdlib"
)

type caseIn struct {
	Kind string `json:"kind"`
	Seed uint64 `json:"seed"`
	// explicit HTTP witnesses (corpus): when BodyB64 is set it replaces the generated body
	BodyB64 string `json:"body_b64,omitempty"`
	Small   bool   `json:"small,omitempty"`
	Chunked bool   `json:"chunked,omitempty"`
	HKind   int    `json:"hkind,omitempty"`
	MemQ    int64  `json:"memq,omitempty"` // explicit HTTP witnesses: > 0 = the small daemon with a memory queue
	// httpedge: one cell of the boundary matrix: daemon (limits, memory queue) x front door
	// (HKind) x Chunked x Shape (which boundary, see edgeBody)
	HCfg  string `json:"hcfg,omitempty"`
	Shape int    `json:"shape,omitempty"`
	// explicit pure witnesses (corpus): round / dec use TS, Att, IDB64, BodyB64; mpub uses
	// BodyB64 as the input with MaxMsg, MaxBody and Intent (0 invalid, 1 valid, 2 unknown)
	Explicit bool   `json:"explicit,omitempty"`
	TS       int64  `json:"ts,omitempty"`
	Att      int    `json:"att,omitempty"`
	IDB64    string `json:"id_b64,omitempty"`
	MaxMsg   int64  `json:"max_msg,omitempty"`
	MaxBody  int64  `json:"max_body,omitempty"`
	Intent   int    `json:"intent,omitempty"`
	// liveconc, livegate: GOMAXPROCS while the case runs (0 = drawn from the seed, -1 = unchanged)
	Procs int `json:"procs,omitempty"`
	// liveconc: no PUBs interleaved by the consumers (with one P the pooled buffer a held
	// delivery used is then the very next one handed out)
	Quiet bool `json:"quiet,omitempty"`
	// liveflush: which write of the consumer's pump carries the frames ("timed", "notready",
	// "send"; "" = drawn from the seed) and the first contending command (1 + index into
	// fcNames; 0 = drawn from the seed)
	Flusher string `json:"flusher,omitempty"`
	Cmd     int    `json:"cmd,omitempty"`
}

func unb64(s string) []byte {
	b, err := base64.StdEncoding.DecodeString(s)
	if err != nil {
		lib.Fatalf("bad base64 in replay input: %v", err)
	}
	return b
}

var out *lib.Out
var skipped = 0
var inconclusive = 0
var bigBudget = 10 // number of large-body pure cases still allowed (Coq term size)

func repoDir() string {
	if d := os.Getenv("VERIF_REPO"); d != "" {
		return d
	}
	return "/repo"
}

// ------------------------------------------------------------------ generators
var styles = []string{"random", "random", "zeros", "ff", "newlines", "frame-like", "command-like", "ascii", "crlf"}

func genBody(r *lib.Rand, n int) ([]byte, string) {
	st := styles[r.Intn(len(styles))]
	b := r.Bytes(n)
	switch st {
	case "zeros":
		for i := range b {
			b[i] = 0
		}
	case "ff":
		for i := range b {
			b[i] = 0xff
		}
	case "newlines":
		for i := range b {
			if r.Chance(35) {
				b[i] = '\n'
			}
		}
	case "frame-like":
		// sizes, frame types, a plausible message frame header
		pat := []byte{0, 0, 0, 6, 0, 0, 0, 2, 0, 0, 0, 0, 0, 0, 0, 1, 0, 0, 0, 30}
		for i := range b {
			b[i] = pat[i%len(pat)]
		}
	case "command-like":
		pat := []byte("PUB t\n\x00\x00\x00\x01xFIN 0123456789abcdef\nMPUB t\n  V2NOP\nCLS\n")
		for i := range b {
			b[i] = pat[i%len(pat)]
		}
	case "ascii":
		for i := range b {
			b[i] = "abcdefgh \t01234{}"[int(b[i])%17]
		}
	case "crlf":
		for i := range b {
			if i%7 == 5 {
				b[i] = '\r'
			} else if i%7 == 6 {
				b[i] = '\n'
			}
		}
	}
	return b, st
}

func sizeClass(r *lib.Rand, allowBig bool) (int, string) {
	switch r.Intn(14) {
	case 0:
		return 0, "0"
	case 1:
		return 1, "1"
	case 2:
		return 25, "25"
	case 3:
		return 26, "26"
	case 4:
		return 27, "27"
	case 5:
		if allowBig && bigBudget > 0 {
			bigBudget--
			return 4095 + r.Intn(3), "4KiB+-1"
		}
	case 6:
		if allowBig && bigBudget > 0 {
			bigBudget--
			return 16383 + r.Intn(3), "16KiB+-1"
		}
	case 7, 8:
		return 65 + r.Intn(500), "65-564"
	}
	return 2 + r.Intn(62), "2-63"
}

func tsClass(r *lib.Rand) (int64, string) {
	switch r.Intn(8) {
	case 0:
		return 0, "0"
	case 1:
		return -1, "-1"
	case 2:
		return -1 << 63, "minint64"
	case 3:
		return 1<<63 - 1, "maxint64"
	case 4:
		return time.Now().UnixNano(), "now"
	case 5:
		return -int64(r.U64() >> 1), "negative"
	}
	return int64(r.U64()), "random"
}

func attClass(r *lib.Rand) uint16 {
	switch r.Intn(6) {
	case 0:
		return 0
	case 1:
		return 1
	case 2:
		return 255
	case 3:
		return 256
	case 4:
		return 65535
	}
	return uint16(r.U64())
}

func genID(r *lib.Rand) []byte {
	if r.Chance(50) {
		return []byte(fmt.Sprintf("%016x", r.U64()))
	}
	return r.Bytes(16)
}

func be32(v uint32) []byte {
	b := make([]byte, 4)
	binary.BigEndian.PutUint32(b, v)
	return b
}

func encodeMPUB(bodies [][]byte) []byte {
	var buf bytes.Buffer
	buf.Write(be32(uint32(len(bodies))))
	for _, b := range bodies {
		buf.Write(be32(uint32(len(b))))
		buf.Write(b)
	}
	return buf.Bytes()
}

func coqFrames(fs []frameRec) string {
	parts := make([]string, len(fs))
	for i, f := range fs {
		parts[i] = fmt.Sprintf("(%s, %s)", lib.CoqZ(int64(f.t)), lib.CoqBytes(f.d))
	}
	return lib.CoqList(parts)
}

type frameRec struct {
	t int32
	d []byte
}

// ------------------------------------------------------------------ pure cases
func pureEnc(in caseIn, name string) {
	r := lib.NewRand(in.Seed)
	ts, tsc := tsClass(r)
	att := attClass(r)
	id := genID(r)
	n, sc := sizeClass(r, true)
	body, st := genBody(r, n)
	wire, rep, err := nsqd.VerifEncodeMessage(ts, att, id, body)
	if err != nil {
		lib.Fatalf("WriteTo: %v", err)
	}
	out.Emit(lib.Case{Name: name,
		Coq: fmt.Sprintf("(J07.CEnc %s %s %s %s %s %s)", lib.CoqZ(ts), lib.CoqN(uint64(att)), lib.CoqBytes(id), lib.CoqBytes(body), lib.CoqBytes(wire), lib.CoqZ(rep)),
		Input: in, Tags: []string{"kind=enc", "ts=" + tsc, "size=" + sc, "content=" + st}, Nontrivial: true})
}

func pureDec(in caseIn, name string) {
	r := lib.NewRand(in.Seed)
	var input []byte
	var cls string
	switch r.Intn(6) {
	case 0: // every length around the minimum
		n := r.Intn(31)
		input, _ = genBody(r, n)
		cls = fmt.Sprintf("short-or-min(len=%d)", n)
		if n >= 24 && n <= 27 {
			cls = fmt.Sprintf("boundary(len=%d)", n)
		} else if n < 26 {
			cls = "short"
		} else {
			cls = "just-long-enough"
		}
	case 1: // a valid record, truncated
		ts, _ := tsClass(r)
		n, _ := sizeClass(r, false)
		body, _ := genBody(r, n)
		wire, _, _ := nsqd.VerifEncodeMessage(ts, attClass(r), genID(r), body)
		cut := r.Intn(len(wire) + 1)
		input = wire[:cut]
		cls = "truncated-record"
	default:
		ts, _ := tsClass(r)
		n, _ := sizeClass(r, true)
		body, _ := genBody(r, n)
		input, _, _ = nsqd.VerifEncodeMessage(ts, attClass(r), genID(r), body)
		cls = "valid-record"
	}
	ok, panicked, ts, att, id, body := nsqd.VerifDecodeMessage(input)
	out.Emit(lib.Case{Name: name,
		Coq: fmt.Sprintf("(J07.CDec %s %s %s %s %s %s %s)", lib.CoqBytes(input), lib.CoqBool(ok), lib.CoqBool(panicked),
			lib.CoqZ(ts), lib.CoqN(uint64(att)), lib.CoqBytes(id), lib.CoqBytes(body)),
		Input: in, Tags: []string{"kind=dec", "dec=" + cls, fmt.Sprintf("dec_ok=%v", ok)}, Nontrivial: true})
}

func pureRound(in caseIn, name string) {
	r := lib.NewRand(in.Seed)
	ts, tsc := tsClass(r)
	att := attClass(r)
	id := genID(r)
	n, sc := sizeClass(r, true)
	body, st := genBody(r, n)
	if in.Explicit {
		ts, att, id, body, tsc, sc, st = in.TS, uint16(in.Att), unb64(in.IDB64), unb64(in.BodyB64), "explicit", "explicit", "explicit"
	}
	rec, err := nsqd.VerifBackendRecord(ts, att, id, body)
	if err != nil {
		lib.Fatalf("writeMessageToBackend: %v", err)
	}
	ok, _, ts2, att2, id2, body2 := nsqd.VerifDecodeMessage(rec)
	out.Emit(lib.Case{Name: name,
		Coq: fmt.Sprintf("(J07.CRound %s %s %s %s %s %s %s %s %s)", lib.CoqZ(ts), lib.CoqN(uint64(att)), lib.CoqBytes(id), lib.CoqBytes(body),
			lib.CoqBool(ok), lib.CoqZ(ts2), lib.CoqN(uint64(att2)), lib.CoqBytes(id2), lib.CoqBytes(body2)),
		Input: in, Tags: []string{"kind=round", "ts=" + tsc, "size=" + sc, "content=" + st}, Nontrivial: true})
}

func ftypeClass(r *lib.Rand) int32 {
	switch r.Intn(7) {
	case 0:
		return 0
	case 1:
		return 1
	case 2, 3:
		return 2
	case 4:
		return -1
	case 5:
		return 1<<31 - 1
	}
	return int32(r.U64())
}

func pureFrame(in caseIn, name string) {
	r := lib.NewRand(in.Seed)
	ft := ftypeClass(r)
	n, sc := sizeClass(r, true)
	data, st := genBody(r, n)
	wire, rep, err := nsqd.VerifFrame(ft, data)
	if err != nil {
		lib.Fatalf("SendFramedResponse: %v", err)
	}
	out.Emit(lib.Case{Name: name,
		Coq: fmt.Sprintf("(J07.CFrame %s %s %s %s)", lib.CoqZ(int64(ft)), lib.CoqBytes(data), lib.CoqBytes(wire), lib.CoqZ(int64(rep))),
		Input: in, Tags: []string{"kind=frame", "size=" + sc, "content=" + st}, Nontrivial: true})
}

func pureStream(in caseIn, name string) {
	r := lib.NewRand(in.Seed)
	nf := 1 + r.Intn(6)
	var fs []frameRec
	var stream bytes.Buffer
	for i := 0; i < nf; i++ {
		ft := ftypeClass(r)
		n := r.Intn(40)
		if r.Chance(20) {
			n = 0
		}
		var data []byte
		if r.Chance(40) {
			// a real message record as frame data
			body, _ := genBody(r, n)
			data, _, _ = nsqd.VerifEncodeMessage(int64(r.U64()), attClass(r), genID(r), body)
			ft = 2
		} else {
			data, _ = genBody(r, n)
		}
		w, _, err := nsqd.VerifFrame(ft, data)
		if err != nil {
			lib.Fatalf("SendFramedResponse: %v", err)
		}
		stream.Write(w)
		fs = append(fs, frameRec{ft, data})
	}
	// cut the stream: 1-byte chunks, empty chunks, random sizes
	s := stream.Bytes()
	var chunks [][]byte
	mode := r.Intn(3)
	for len(s) > 0 {
		var k int
		switch mode {
		case 0:
			k = 1
		case 1:
			k = 1 + r.Intn(9)
		default:
			k = 1 + r.Intn(len(s))
		}
		if k > len(s) {
			k = len(s)
		}
		chunks = append(chunks, s[:k])
		s = s[k:]
		if r.Chance(10) {
			chunks = append(chunks, []byte{})
		}
	}
	out.Emit(lib.Case{Name: name,
		Coq:   fmt.Sprintf("(J07.CStream %s %s)", coqFrames(fs), lib.CoqBytesList(chunks)),
		Input: in, Tags: []string{"kind=stream", fmt.Sprintf("chunking=%d", mode), fmt.Sprintf("frames=%d", nf)}, Nontrivial: true})
}

// genBatch builds an MPUB batch around the given limits.  intent: 0 invalid, 1 valid, 2 unknown.
func genBatch(r *lib.Rand, maxMsg, maxBody int64) (input []byte, bodies [][]byte, intent int, cls string) {
	input, bodies, intent, cls, _ = genBatchB(r, maxMsg, maxBody)
	return
}

// genBatchB: maxBody < 0 lets the generator choose the body limit relative to the batch
// (at, just below and above the count bound (maxBody-4)/5, or a large one).
func genBatchB(r *lib.Rand, maxMsg, maxBody int64) (input []byte, bodies [][]byte, intent int, cls string, chosenMaxBody int64) {
	count := 1 + r.Intn(5)
	if r.Chance(10) {
		count = 0
	}
	if maxBody < 0 {
		c := int64(count)
		maxBody = []int64{5*c + 4, 5*c + 3, 5*c + 8, 200, 200, 5242880, 5242880, int64(r.Intn(30))}[r.Intn(8)]
	}
	chosenMaxBody = maxBody
	cls = "valid"
	intent = 1
	for i := 0; i < count; i++ {
		var n int64
		switch r.Intn(8) {
		case 0:
			n = maxMsg
		case 1:
			n = maxMsg + 1
		case 2:
			n = maxMsg - 1
		case 3:
			n = 1
		case 4:
			n = 0
		default:
			n = 1 + int64(r.Intn(int(min64(maxMsg, 40))))
		}
		if n < 0 {
			n = 0
		}
		if n > 600 {
			n = 1 + int64(r.Intn(40)) // keep the terms small under the default limits
		}
		b, _ := genBody(r, int(n))
		bodies = append(bodies, b)
		if n == 0 {
			intent, cls = 0, "zero-size-body"
		} else if n > maxMsg {
			intent, cls = 0, "body-over-max-msg"
		}
	}
	if count == 0 {
		intent, cls = 0, "count-0"
	}
	if int64(count) > (maxBody-4)/5 {
		intent, cls = 0, "count-over-max-messages"
	}
	input = encodeMPUB(bodies)
	// tampering
	switch r.Intn(10) {
	case 0: // truncate
		if len(input) > 0 {
			input = input[:r.Intn(len(input))]
			intent, cls = 0, "truncated"
		}
	case 1: // trailing bytes: readMPUB must leave them unread
		input = append(input, r.Bytes(1+r.Intn(6))...)
		if intent == 1 {
			cls = "valid+trailing"
		}
	case 2: // count field
		vals := []uint32{0, 0xffffffff, 0x80000000, uint32(count + 1), uint32(count + 100000), 0x7fffffff}
		v := vals[r.Intn(len(vals))]
		if len(input) >= 4 && v != uint32(count) {
			copy(input[:4], be32(v))
			intent, cls = 2, "count-tampered"
			if v == 0 || v >= 0x80000000 {
				intent = 0
			}
		}
	case 3: // a size field
		if count > 0 && len(input) >= 8 {
			vals := []uint32{0, 0xffffffff, 0x80000000, 0x7fffffff}
			copy(input[4:8], be32(vals[r.Intn(len(vals))]))
			intent, cls = 0, "size-tampered"
		}
	}
	return
}

func min64(a, b int64) int64 {
	if a < b {
		return a
	}
	return b
}

var mpubTopic *nsqd.Topic

func pureMpub(in caseIn, name string) {
	r := lib.NewRand(in.Seed)
	maxMsgs := []int64{1, 5, 16, 64, 1048576}
	maxMsg := maxMsgs[r.Intn(len(maxMsgs))]
	input, want, intent, cls, maxBody := genBatchB(r, maxMsg, -1)
	if in.Explicit {
		input, maxMsg, maxBody, intent, cls = unb64(in.BodyB64), in.MaxMsg, in.MaxBody, in.Intent, "explicit"
		want = nil
		if intent == 1 { // the bodies the explicit input spells out
			rd := input[4:]
			for len(rd) >= 4 {
				k := int(binary.BigEndian.Uint32(rd[:4]))
				if k < 0 || 4+k > len(rd) {
					break
				}
				want = append(want, rd[4:4+k])
				rd = rd[4+k:]
			}
		}
	}
	bodies, ids, code, unread := nsqd.VerifReadMPUB(mpubTopic, input, maxMsg, maxBody)
	cn := uint64(9)
	switch code {
	case "":
		cn = 0
	case "E_BAD_BODY":
		cn = 1
	case "E_BAD_MESSAGE":
		cn = 2
	}
	for _, id := range ids {
		if len(id) != 16 {
			lib.Fatalf("readMPUB message id of length %d", len(id))
		}
	}
	if intent != 1 {
		want = nil
	}
	out.Emit(lib.Case{Name: name,
		Coq: fmt.Sprintf("(J07.CMpub %s %s %s %s %s %s %s %s)", lib.CoqZ(maxMsg), lib.CoqZ(maxBody), lib.CoqBytes(input), lib.CoqN(uint64(intent)),
			lib.CoqBytesList(want), lib.CoqN(cn), lib.CoqBytesList(bodies), lib.CoqZ(int64(unread))),
		Input: in, Tags: []string{"kind=mpub", "mpub=" + cls, "mpub_code=" + code, fmt.Sprintf("max_msg=%d", maxMsg), fmt.Sprintf("max_body=%d", maxBody)},
		Nontrivial: true})
}

// ------------------------------------------------------------------ main
func digestKey(b []byte) []byte {
	h := sha256.Sum256(b)
	k := make([]byte, 0, 12)
	k = append(k, be32(uint32(len(b)))...)
	k = append(k, h[:8]...)
	return k
}

// liveFailures counts live/HTTP cases in which the daemon did not deliver; after a few of
// them the remaining live cases are skipped (each would sit in its read deadline), the
// failures already recorded decide the run.
var liveFailures = 0

const maxLiveFailures = 2

func run(in caseIn, name string) {
	if liveFailures >= maxLiveFailures && (in.Kind == "http" || in.Kind == "httpedge" || in.Kind == "live" || in.Kind == "livebig" || in.Kind == "livetmo" || in.Kind == "liveconc" || in.Kind == "livegate" || in.Kind == "liveflush") {
		skipped++
		return
	}
	switch in.Kind {
	case "enc":
		pureEnc(in, name)
	case "dec":
		pureDec(in, name)
	case "round":
		pureRound(in, name)
	case "frame":
		pureFrame(in, name)
	case "stream":
		pureStream(in, name)
	case "mpub":
		pureMpub(in, name)
	case "http":
		httpCase(in, name)
	case "httpedge":
		edgeCase(in, name)
	case "live", "livetmo":
		liveCase(in, name, false)
	case "livebig":
		liveCase(in, name, true)
	case "liveconc":
		concCase(in, name)
	case "livegate":
		gateCase(in, name)
	case "liveflush":
		if os.Getenv("WIREDRIVE_CHILD") != "" {
			flushCase(in, name)
		} else {
			flushCaseIsolated(in, name)
		}
	default:
		lib.Fatalf("unknown case kind %q", in.Kind)
	}
}

func main() {
	n := flag.Int("n", 200, "number of pure codec cases")
	nhttp := flag.Int("http", 60, "number of HTTP publish cases")
	nlive := flag.Int("live", 24, "number of live path cases")
	nbig := flag.Int("livebig", 3, "number of large-body live path cases")
	nconc := flag.Int("liveconc", 4, "number of concurrent-delivery cases (slow consumers holding a frame part-way)")
	ngate := flag.Int("livegate", 4, "number of cases holding a queue write part-way (verif gate in front of a topic's / channel's backend)")
	nflush := flag.Int("liveflush", 6, "number of cases holding every kind of write of a consumer connection part-way while the connection's own commands contend for its output buffer")
	nedge := flag.Int("httpedge", 1, "HTTP boundary matrix: 0 = off, 1 = every cell of the small and middle daemons + /pub around 4 KiB, 2 = also every cell of the 4 KiB daemon")
	ntmo := flag.Int("livetmo", 2, "number of live path cases whose first requeue is the in-flight timeout")
	big := flag.Int("big", 10, "number of large-body pure cases allowed")
	seed := flag.Uint64("seed", 1, "seed")
	outp := flag.String("out", "", "output jsonl")
	replay := flag.String("replay", "", "replay file")
	flag.Parse()
	out = lib.NewOut(*outp)
	defer out.Close()
	bigBudget = *big
	r := lib.NewRand(*seed)

	// one daemon whose topic hands out ids for readMPUB
	opts := nsqdlib.NewOpts(nsqdlib.ScratchDir())
	d, err := nsqdlib.Start(opts)
	if err != nil {
		lib.Fatalf("nsqd: %v", err)
	}
	mpubTopic = d.GetTopic("mpub_ids")
	defer func() {
		stopHTTPDaemons()
		d.Exit()
		os.RemoveAll(filepath.Join(nsqdlib.ScratchDir()))
	}()

	if *replay != "" {
		var ins []caseIn
		lib.ReadReplay(*replay, &ins)
		bigBudget = 1 << 30
		for k, in := range ins {
			name := fmt.Sprintf("replay-%d-%s", k, in.Kind)
			if n := os.Getenv("WIREDRIVE_CHILD"); n != "" {
				name = n
			}
			run(in, name)
		}
		return
	}

	// the HTTP boundary matrix first: its shapes are fixed, only contents and chunk sizes
	// depend on the seed (a generator of its own, the other families keep their seeds)
	runEdgeMatrix(*nedge, lib.NewRand(*seed^0x68747470))

	// the families are interleaved so that the judge's shards (cut in emission order) carry
	// similar amounts of large terms
	kinds := []string{"enc", "enc", "dec", "dec", "round", "round", "frame", "stream", "mpub", "mpub", "mpub"}
	total := *n + *nhttp + *nlive + *nbig + *nconc + *ngate + *nflush
	pk, hk, lk, bk, ck, gk, fk := 0, 0, 0, 0, 0, 0, 0
	for i := 0; i < total; i++ {
		// largest remaining share first (a simple weighted round-robin)
		type fam struct {
			done, want int
			name       string
		}
		fams := []fam{{pk, *n, "pure"}, {hk, *nhttp, "http"}, {lk, *nlive, "live"}, {bk, *nbig, "livebig"}, {ck, *nconc, "liveconc"}, {gk, *ngate, "livegate"}, {fk, *nflush, "liveflush"}}
		best, bestv := -1, 2.0
		for j, f := range fams {
			if f.done < f.want {
				v := float64(f.done) / float64(f.want)
				if v < bestv {
					best, bestv = j, v
				}
			}
		}
		switch fams[best].name {
		case "pure":
			kind := kinds[pk%len(kinds)]
			run(caseIn{Kind: kind, Seed: r.U64()}, fmt.Sprintf("%s-%d", kind, pk))
			pk++
		case "http":
			run(caseIn{Kind: "http", Seed: r.U64()}, fmt.Sprintf("http-%d", hk))
			hk++
		case "live":
			run(caseIn{Kind: "live", Seed: r.U64()}, fmt.Sprintf("live-%d", lk))
			lk++
		case "liveconc":
			// one P and nothing else on the connections, two Ps, all Ps in turn
			run(caseIn{Kind: "liveconc", Seed: r.U64(), Procs: []int{1, 2, -1}[ck%3], Quiet: ck%3 == 0}, fmt.Sprintf("liveconc-%d", ck))
			ck++
		case "livegate":
			run(caseIn{Kind: "livegate", Seed: r.U64(), Procs: []int{1, 2, -1}[gk%3]}, fmt.Sprintf("livegate-%d", gk))
			gk++
		case "liveflush":
			// writer x command: three consecutive cases hold the timed flush, the not-ready
			// flush and Send; a case has four rounds with four consecutive commands, starting
			// at the first or at the fifth command in turn: six cases meet every writer with
			// every command
			run(caseIn{Kind: "liveflush", Seed: r.U64(), Procs: []int{1, 2, -1}[(fk+fk/3)%3], Flusher: flushers[fk%3], Cmd: 1 + 4*((fk/3)%2)}, fmt.Sprintf("liveflush-%d", fk))
			fk++
		default:
			run(caseIn{Kind: "livebig", Seed: r.U64()}, fmt.Sprintf("livebig-%d", bk))
			bk++
		}
	}
	for k := 0; k < *ntmo; k++ {
		run(caseIn{Kind: "livetmo", Seed: r.U64()}, fmt.Sprintf("livetmo-%d", k))
	}
	out.Stat("live_cases_skipped_after_failures", skipped)
	out.Stat("timeout_cases_dropped_inconclusive", inconclusive)
	out.Stat("deliveries_held_part_way_while_others_were_served", concHeld)
	out.Stat("queue_writes_held_while_others_were_served", gateHeld)
	out.Stat("connection_writes_held_while_own_command_contended", flushHeld)
	out.Stat("own_commands_seen_executed_while_write_held", flushExecuted)
	out.Stat("feature_combinations_exercised", len(featSeen))
	out.Stat("feature_combinations_total", featTotal)
}
