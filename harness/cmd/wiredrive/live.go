package main

// Live paths: publish through every front door, consume on several channels over
// negotiated transports, requeue, restart on the same data path, and record what each
// consumer received.

import (
	"bytes"
	"fmt"
	"os"
	"strings"
	"time"

	"github.com/nsqio/nsq/nsqd"
	"verifharness/lib"
	"verifharness/nsqdlib"
)

var errInconclusive = fmt.Errorf("inconclusive: a message timed out again before the harness answered")

type livePlan struct {
	timeoutRound bool // round 1: do not answer, let msg_timeout requeue the messages, take the redeliveries
	memq       int64
	nchan      int
	k          int // deliveries of each message on each channel
	restartAt  int // restart the daemon after this round (0 = never)
	rollBytes  int64
	reqDelayMs int
}

func uniqueBodies(r *lib.Rand, n int, big bool) [][]byte {
	seen := map[string]bool{}
	var bodies [][]byte
	bigSizes := []int{4095, 4096, 4097, 16383, 16384, 16385, 65535, 65536, 65537, 1048576}
	for len(bodies) < n {
		var sz int
		if big {
			sz = bigSizes[r.Intn(len(bigSizes))]
		} else {
			switch r.Intn(6) {
			case 0:
				sz = 1
			case 1:
				sz = 25 + r.Intn(3)
			default:
				sz = 1 + r.Intn(40)
			}
		}
		b, _ := genBody(r, sz)
		if seen[string(b)] {
			b = r.Bytes(sz) // the patterned styles repeat; fall back to random content
			if seen[string(b)] {
				continue
			}
		}
		seen[string(b)] = true
		bodies = append(bodies, b)
	}
	return bodies
}

// publishAll sends the bodies through a random mix of front doors; every publish must be
// acknowledged.  Returns the tags of the methods used.
func publishAll(r *lib.Rand, d *nsqd.NSQD, topic string, bodies [][]byte, fw *featWalk) ([]string, error) {
	tcp := d.RealTCPAddr().String()
	httpAddr := d.RealHTTPAddr().String()
	used := map[string]bool{}
	i := 0
	var pc *client
	var pf feat
	var perr error
	fail := func(format string, a ...interface{}) {
		if perr == nil {
			perr = fmt.Errorf(format, a...)
		}
	}
	getProducer := func() *client {
		if pc == nil {
			pf = fw.next()
			pf.HB = -1
			var err error
			pc, err = dial(tcp, pf)
			if err != nil {
				fail("producer dial (%s): %v", pf.key(), err)
				return nil
			}
			used["producer:"+pf.comp()] = true
			used[fmt.Sprintf("producer:tls=%v", pf.TLS)] = true
		}
		return pc
	}
	for i < len(bodies) && perr == nil {
		rest := len(bodies) - i
		switch r.Intn(6) {
		case 0: // TCP PUB
			c := getProducer()
			if c == nil {
				break
			}
			if err := c.send("PUB "+topic, bodies[i]); err != nil {
				fail("PUB: %v", err)
			} else if err := c.expectResponse("OK"); err != nil {
				fail("PUB: %v", err)
			}
			used["pub=tcp-PUB"] = true
			i++
		case 1: // TCP MPUB
			c := getProducer()
			if c == nil {
				break
			}
			k := 1 + r.Intn(rest)
			if err := c.send("MPUB "+topic, encodeMPUB(bodies[i:i+k])); err != nil {
				fail("MPUB: %v", err)
			} else if err := c.expectResponse("OK"); err != nil {
				fail("MPUB: %v", err)
			}
			used["pub=tcp-MPUB"] = true
			i += k
		case 2: // TCP DPUB (a short deferral)
			c := getProducer()
			if c == nil {
				break
			}
			if err := c.send(fmt.Sprintf("DPUB %s %d", topic, 1+r.Intn(60)), bodies[i]); err != nil {
				fail("DPUB: %v", err)
			} else if err := c.expectResponse("OK"); err != nil {
				fail("DPUB: %v", err)
			}
			used["pub=tcp-DPUB"] = true
			i++
		case 3: // HTTP /pub (sometimes deferred)
			url := "http://" + httpAddr + "/pub?topic=" + topic
			if r.Chance(30) {
				url += fmt.Sprintf("&defer=%d", 1+r.Intn(60))
				used["pub=http-pub-defer"] = true
			}
			code, msg, err := httpPost(url, bodies[i], r.Chance(30))
			if err != nil || code != 200 {
				fail("/pub: %v %d %s", err, code, msg)
			}
			used["pub=http-pub"] = true
			i++
		case 4: // HTTP text /mpub: only bodies without newline can travel this way
			k := 0
			var buf bytes.Buffer
			for i+k < len(bodies) && k < 4 && !bytes.Contains(bodies[i+k], []byte{'\n'}) {
				buf.Write(bodies[i+k])
				k++
				if i+k < len(bodies) || r.Chance(50) {
					buf.WriteByte('\n')
				}
			}
			if k == 0 {
				continue
			}
			// the loop above may have written a separator after the last body taken: fine
			code, msg, err := httpPost("http://"+httpAddr+"/mpub?topic="+topic, buf.Bytes(), r.Chance(30))
			if err != nil || code != 200 {
				fail("text /mpub: %v %d %s", err, code, msg)
			}
			used["pub=http-mpub-text"] = true
			i += k
		default: // HTTP binary /mpub
			k := 1 + r.Intn(rest)
			code, msg, err := httpPost("http://"+httpAddr+"/mpub?topic="+topic+"&binary=true", encodeMPUB(bodies[i:i+k]), r.Chance(30))
			if err != nil || code != 200 {
				fail("binary /mpub: %v %d %s", err, code, msg)
			}
			used["pub=http-mpub-binary"] = true
			i += k
		}
	}
	if pc != nil {
		pc.close()
	}
	var tags []string
	for t := range used {
		tags = append(tags, t)
	}
	return tags, perr
}

// consumeRound: on one channel, take n messages; then either requeue them all (RDY 0
// first, so none comes back on this connection) or finish them all; CLS is the barrier
// that tells every command has been processed.
func consumeRound(addr string, f feat, topic, channel string, n int, finish bool, reqDelayMs int, noise bool, timeoutRedeliver bool) ([][]byte, error) {
	c, err := dial(addr, f)
	if err != nil {
		return nil, err
	}
	defer c.close()
	if err := c.send("SUB "+topic+" "+channel, nil); err != nil {
		return nil, err
	}
	if err := c.expectResponse("OK"); err != nil {
		return nil, err
	}
	pendingOK := 0
	if noise {
		// other traffic on the same connection: publishes to another topic, whose OK
		// responses arrive between the message frames
		var buf bytes.Buffer
		for j := 0; j < 2; j++ {
			buf.WriteString("PUB wire_noise\n")
			buf.Write(be32(3))
			buf.WriteString("x\ny")
			pendingOK++
		}
		buf.WriteString(fmt.Sprintf("RDY %d\n", n))
		if err := c.sendRaw(buf.Bytes()); err != nil {
			return nil, err
		}
	} else if err := c.send(fmt.Sprintf("RDY %d", n), nil); err != nil {
		return nil, err
	}
	var raws [][]byte
	want := n
	if timeoutRedeliver {
		want = 2 * n // every message once, then once more after msg_timeout expired
	}
	for len(raws) < want || pendingOK > 0 {
		ft, data, err := c.readFrame(readDeadline)
		if err != nil {
			return raws, fmt.Errorf("after %d of %d messages: %v", len(raws), want, err)
		}
		switch {
		case ft == 2:
			raws = append(raws, data)
		case ft == 0 && string(data) == "_heartbeat_":
			c.send("NOP", nil)
		case ft == 0 && string(data) == "OK" && pendingOK > 0:
			pendingOK--
		default:
			return raws, fmt.Errorf("unexpected frame type %d %q", ft, truncate(data))
		}
	}
	var buf bytes.Buffer
	if !finish {
		buf.WriteString("RDY 0\n")
	}
	answer := raws
	if timeoutRedeliver && len(raws) == 2*n {
		answer = raws[n:]
	}
	for _, raw := range answer {
		if len(raw) < 26 {
			return raws, fmt.Errorf("message frame of %d bytes", len(raw))
		}
		if finish {
			fmt.Fprintf(&buf, "FIN %s\n", raw[10:26])
		} else {
			fmt.Fprintf(&buf, "REQ %s %d\n", raw[10:26], reqDelayMs)
		}
	}
	buf.WriteString("CLS\n")
	if err := c.sendRaw(buf.Bytes()); err != nil {
		return raws, err
	}
	if err := c.expectResponse("CLOSE_WAIT"); err != nil {
		if timeoutRedeliver && strings.Contains(err.Error(), "_FAILED") {
			return raws, errInconclusive
		}
		return raws, err
	}
	return raws, nil
}

func liveCase(in caseIn, name string, big bool) {
	forceTimeout := in.Kind == "livetmo"
	r := lib.NewRand(in.Seed)
	plan := livePlan{
		memq:  []int64{0, 0, 1, 2, 10000}[r.Intn(5)],
		nchan: 1 + r.Intn(3),
		k:     1 + r.Intn(3),
	}
	if plan.k >= 2 && r.Chance(50) {
		plan.restartAt = 1 + r.Intn(plan.k-1)
	}
	if r.Chance(30) {
		plan.rollBytes = int64(200 + r.Intn(2000)) // disk queue files roll every few messages
	}
	if r.Chance(30) {
		plan.reqDelayMs = 1 + r.Intn(50)
	}
	nmsg := 1 + r.Intn(8)
	if !big && (r.Chance(5) || forceTimeout) {
		// the in-flight timeout as the requeue: one channel, a 1 s msg_timeout on round 1
		plan.timeoutRound = true
		plan.nchan = 1
		nmsg = 1 + r.Intn(4)
	}
	if big {
		plan.nchan, plan.k = 2, 2
		plan.restartAt = r.Intn(2)
		plan.memq = []int64{0, 10000}[r.Intn(2)]
		plan.rollBytes = 0
		if r.Chance(50) {
			plan.rollBytes = 100000 // file roll inside / between large records
		}
		nmsg = 3
	}
	bodies := uniqueBodies(r, nmsg, big)
	fw := newFeatWalk(r)

	opts := baseOpts()
	opts.MemQueueSize = plan.memq
	if plan.rollBytes > 0 {
		opts.MaxBytesPerFile = plan.rollBytes
	}
	d, err := nsqdlib.Start(opts)
	if err != nil {
		lib.Fatalf("nsqd: %v", err)
	}
	topic := "wire"
	for c := 0; c < plan.nchan; c++ {
		createChannel(d.RealHTTPAddr().String(), topic, fmt.Sprintf("ch%d", c))
	}
	tlo := time.Now().UnixNano() - 2e9
	tags, perr := publishAll(r, d, topic, bodies, fw)
	thi := time.Now().UnixNano() + 2e9
	if perr != nil {
		// a publish was not acknowledged: nothing is consumed, the case is judged with no
		// delivery at all (published bodies that no consumer received)
		liveFailures++
		tags = append(tags, "live=publish-failed")
		out.Stat("live_publish_failed_"+name, perr.Error())
		plan.k, plan.restartAt = 0, 0
	}

	type del struct {
		ch  int
		raw []byte
	}
	var dels []del
	restarted := false
	incomplete := false
	for round := 1; round <= plan.k; round++ {
		for c := 0; c < plan.nchan; c++ {
			f := fw.next()
			if r.Chance(15) {
				f.HB = 1000
			}
			t0 := time.Now()
			tr := plan.timeoutRound && round == 1
			if tr {
				f.MsgTO = 1000
			}
			raws, err := consumeRound(d.RealTCPAddr().String(), f, topic, fmt.Sprintf("ch%d", c), nmsg, round == plan.k, plan.reqDelayMs, r.Chance(25), tr)
			if err == errInconclusive {
				inconclusive++
				d.Exit()
				return
			}
			for _, raw := range raws {
				dels = append(dels, del{c, raw})
			}
			if os.Getenv("WIREDRIVE_DEBUG") != "" {
				fmt.Fprintf(os.Stderr, "%s round %d ch %d %s memq=%d reqdelay=%d: %v\n", name, round, c, f.key(), plan.memq, plan.reqDelayMs, time.Since(t0))
			}
			tags = append(tags, f.tags("consumer:")...)
			if err != nil {
				// an incomplete round is judged as it is (the monitor counts deliveries)
				liveFailures++
				tags = append(tags, "live=incomplete")
				out.Stat("live_incomplete_"+name, err.Error())
				incomplete = true
				break
			}
		}
		if incomplete {
			break
		}
		if round == plan.restartAt && round < plan.k {
			d.Exit()
			d, err = nsqdlib.Start(opts)
			if err != nil {
				lib.Fatalf("nsqd restart: %v", err)
			}
			restarted = true
		}
	}
	d.Exit()

	if perr != nil {
		plan.k = 1
	}
	kdel := plan.k
	if plan.timeoutRound && perr == nil {
		kdel++
	}
	tags = append(tags, fmt.Sprintf("timeout_requeue=%v", plan.timeoutRound), "kind=live", fmt.Sprintf("memq=%d", plan.memq), fmt.Sprintf("nchan=%d", plan.nchan), fmt.Sprintf("deliveries_per_msg=%d", kdel),
		fmt.Sprintf("restart=%v", restarted), fmt.Sprintf("file_roll=%v", plan.rollBytes > 0), fmt.Sprintf("req_deferred=%v", plan.reqDelayMs > 0 && plan.k > 1))
	if big {
		tags = append(tags, "live=big-bodies")
		equal := true
		byKey := map[string][]byte{}
		var pubs [][]byte
		for _, b := range bodies {
			k := digestKey(b)
			byKey[string(k)] = b
			pubs = append(pubs, k)
			tags = append(tags, fmt.Sprintf("bigsize=%d", len(b)))
		}
		var parts []string
		for _, dl := range dels {
			if len(dl.raw) < 26 {
				equal = false
				continue
			}
			body := dl.raw[26:]
			k := digestKey(body)
			if pb, ok := byKey[string(k)]; !ok || !bytes.Equal(pb, body) {
				equal = false
			}
			ts := int64(be64(dl.raw[:8]))
			att := uint64(dl.raw[8])<<8 | uint64(dl.raw[9])
			parts = append(parts, fmt.Sprintf("(%s, %s, %s, %s, %s)", lib.CoqN(uint64(dl.ch)), lib.CoqZ(ts), lib.CoqN(att), lib.CoqBytes(dl.raw[10:26]), lib.CoqBytes(k)))
		}
		out.Emit(lib.Case{Name: name,
			Coq: fmt.Sprintf("(J07.CLiveDigest %s %s %s %s %s %s %s)", lib.CoqBytesList(pubs), lib.CoqN(uint64(plan.nchan)), lib.CoqN(uint64(kdel)),
				lib.CoqZ(tlo), lib.CoqZ(thi), lib.CoqList(parts), lib.CoqBool(equal)),
			Input: in, Tags: tags, Nontrivial: true, Obs: map[string]interface{}{"deliveries": len(dels), "bytes_equal": equal}})
		return
	}
	var parts []string
	for _, dl := range dels {
		parts = append(parts, fmt.Sprintf("(%s, %s)", lib.CoqN(uint64(dl.ch)), lib.CoqBytes(dl.raw)))
	}
	out.Emit(lib.Case{Name: name,
		Coq: fmt.Sprintf("(J07.CLive %s %s %s %s %s %s)", lib.CoqBytesList(bodies), lib.CoqN(uint64(plan.nchan)), lib.CoqN(uint64(kdel)),
			lib.CoqZ(tlo), lib.CoqZ(thi), lib.CoqList(parts)),
		Input: in, Tags: tags, Nontrivial: true, Obs: map[string]interface{}{"deliveries": len(dels), "published": len(bodies)}})
}

func be64(b []byte) uint64 {
	var v uint64
	for _, x := range b[:8] {
		v = v<<8 | uint64(x)
	}
	return v
}
