package main

// The HTTP boundary matrix: every cell of
//
//	daemon {16/60 every message through the disk queue, 16/60 memory queue, 100/420 memory
//	        queue, 4096/16384 memory queue}
//	x front door {/pub, text /mpub, binary /mpub}
//	x {Content-Length, Transfer-Encoding: chunked (one chunk, 1-byte, 7-byte, max-msg-size chunks)}
//	x boundary shape (a message of max-2 .. max+2 bytes and far above, alone / between valid
//	  messages / with or without the trailing newline; a request body of max-body-2 ..
//	  max-body+2 bytes and far above made of valid messages; the count bound of a binary
//	  batch; a valid batch followed by trailing bytes across the body limit)
//
// is sent to a live daemon and judged like any other HTTP case: an answer 200 means that
// exactly what the request spells out was delivered, byte for byte; any other answer means
// that nothing was delivered.  The daemons with a memory queue matter: with mem-queue-size 0
// the disk queue's own record limit refuses what an HTTP handler let through and the request
// ends in a 503, which hides the handler's mistake.
//
// The shapes are fixed; the seed only chooses the contents and the chunk size.

import (
	"bytes"
	"fmt"

	"verifharness/lib"
)

var edgeKindNames = []string{"pub", "mpub-text", "mpub-binary"}

// edgeSizes: a message size around the limit m (index 0..5), far above for 6.
func edgeMsgSizes(m int64) []int64 {
	return []int64{m - 2, m - 1, m, m + 1, m + 2, 2*m + 3}
}

func edgeTotals(b int64) []int64 {
	return []int64{b - 2, b - 1, b, b + 1, b + 2, 2*b + 5, 4*b + 1}
}

// noNL: contents for a text block.
func noNL(b []byte) []byte {
	for j := range b {
		if b[j] == '\n' {
			b[j] = 'n'
		}
	}
	return b
}

func edgeContent(r *lib.Rand, n int64, text bool) []byte {
	if n < 0 {
		n = 0
	}
	b, _ := genBody(r, int(n))
	if text {
		b = noNL(b)
	}
	return b
}

// textFill: newline-separated valid blocks, exactly total bytes; terminated = the body ends
// with a newline.
func textFill(r *lib.Rand, m, total int64, terminated bool) []byte {
	var buf bytes.Buffer
	blk := m
	if blk > 40 {
		blk = 40 + int64(r.Intn(int(m-40)+1))
	}
	for int64(buf.Len()) < total {
		rest := total - int64(buf.Len())
		n := blk
		if terminated {
			// n bytes + newline; never leave a remainder of 0 < rest' that cannot be filled
			if n+1 > rest {
				n = rest - 1
			}
			buf.Write(edgeContent(r, n, true))
			buf.WriteByte('\n')
		} else {
			if n >= rest {
				buf.Write(edgeContent(r, rest, true))
			} else if n+1 == rest {
				// would end on a newline: leave one byte for the last block
				buf.Write(edgeContent(r, n-1, true))
				buf.WriteByte('\n')
			} else {
				buf.Write(edgeContent(r, n, true))
				buf.WriteByte('\n')
			}
		}
	}
	return buf.Bytes()
}

// batchFill: a binary batch of valid messages of exactly total bytes (total >= 9).
func batchFill(r *lib.Rand, m, total int64) []byte {
	var bodies [][]byte
	rest := total - 4
	for rest > 0 {
		n := m
		if 4+n > rest {
			n = rest - 4
		} else if rest-(4+n) > 0 && rest-(4+n) < 5 {
			// the remainder could not hold a message: shorten this one
			n -= 5
			if n < 1 {
				n = 1
			}
		}
		if n < 1 {
			// cannot happen for total >= 9 and m >= 6; keep the batch well formed anyway
			break
		}
		bodies = append(bodies, edgeContent(r, n, false))
		rest -= 4 + n
	}
	return encodeMPUB(bodies)
}

// spellBatch: the harness's own reading of a binary batch, limits aside: a positive count,
// then that many length-prefixed non-empty bodies, all present; used = bytes of the batch.
func spellBatch(b []byte) (bodies [][]byte, used int, ok bool) {
	if len(b) < 4 {
		return nil, 0, false
	}
	count := int64(int32(uint32(b[0])<<24 | uint32(b[1])<<16 | uint32(b[2])<<8 | uint32(b[3])))
	if count <= 0 {
		return nil, 0, false
	}
	rd := b[4:]
	used = 4
	for i := int64(0); i < count; i++ {
		if len(rd) < 4 {
			return nil, 0, false
		}
		k := int64(int32(uint32(rd[0])<<24 | uint32(rd[1])<<16 | uint32(rd[2])<<8 | uint32(rd[3])))
		if k <= 0 || int64(len(rd)) < 4+k {
			return nil, 0, false
		}
		bodies = append(bodies, rd[4:4+k])
		rd = rd[4+k:]
		used += int(4 + k)
	}
	return bodies, used, true
}

// binaryIntent: 0 = must be refused, 1 = must be accepted with exactly want, 2 = a valid
// batch within the limits followed by bytes that reach beyond max-body-size on a request
// without Content-Length (either answer is acceptable; if accepted, the batch it is).
func binaryIntent(body []byte, m, b int64, chunked bool) (int, [][]byte) {
	bodies, used, ok := spellBatch(body)
	if !ok || int64(used) > b || int64(len(bodies)) > (b-4)/5 {
		return 0, nil
	}
	for _, x := range bodies {
		if int64(len(x)) > m {
			return 0, nil
		}
	}
	if int64(len(body)) <= b {
		return 1, bodies
	}
	if chunked {
		return 2, nil
	}
	return 0, nil
}

// edgeShapes: number of shapes of a front door.
func edgeShapes(kind int) int {
	switch kind {
	case 0:
		return 9
	case 1:
		return 34
	}
	return 27
}

// edgeBody builds the request body of a cell.
func edgeBody(r *lib.Rand, kind, shape int, m, b int64) (body []byte, desc string) {
	sizes := edgeMsgSizes(m)
	totals := edgeTotals(b)
	rel := func(v, lim int64, what string) string {
		if v > lim+2 {
			return what + "=far-above"
		}
		return fmt.Sprintf("%s=max%+d", what, v-lim)
	}
	switch kind {
	case 0:
		ns := append([]int64{0, 1}, sizes...)
		ns = append(ns, 10*m+7)
		n := ns[shape]
		desc = rel(n, m, "msg")
		if n <= 1 {
			desc = fmt.Sprintf("msg=%d", n)
		}
		return edgeContent(r, n, false), desc
	case 1:
		switch {
		case shape < 12: // a single block, unterminated / terminated
			n := sizes[shape%6]
			body = edgeContent(r, n, true)
			desc = "single-block," + rel(n, m, "msg")
			if shape >= 6 {
				body = append(body, '\n')
				desc += ",terminated"
			}
		case shape < 18: // between two valid blocks
			n := sizes[shape-12]
			body = append([]byte("ok\n"), edgeContent(r, n, true)...)
			body = append(body, []byte("\nok2")...)
			desc = "block-in-the-middle," + rel(n, m, "msg")
		case shape < 32:
			t := totals[(shape-18)%7]
			term := shape < 25
			body = textFill(r, m, t, term)
			desc = "valid-blocks," + rel(t, b, "body")
			if term {
				desc += ",terminated"
			}
		default: // nothing but newlines, at the body limit and one above
			t := b + int64(shape-32)
			body = bytes.Repeat([]byte{'\n'}, int(t))
			desc = "only-newlines," + rel(t, b, "body")
		}
		return body, desc
	}
	switch {
	case shape < 6: // a single message
		n := sizes[shape]
		return encodeMPUB([][]byte{edgeContent(r, n, false)}), "single-message," + rel(n, m, "msg")
	case shape < 12: // between two valid messages
		n := sizes[shape-6]
		return encodeMPUB([][]byte{[]byte("ok"), edgeContent(r, n, false), []byte("ok2")}), "message-in-the-middle," + rel(n, m, "msg")
	case shape < 19:
		t := totals[shape-12]
		return batchFill(r, m, t), "valid-messages," + rel(t, b, "body")
	case shape < 22: // 1-byte messages, the count at its bound (max-body-size-4)/5
		c := (b-4)/5 - 1 + int64(shape-19)
		var bodies [][]byte
		for i := int64(0); i < c; i++ {
			bodies = append(bodies, edgeContent(r, 1, false))
		}
		return encodeMPUB(bodies), fmt.Sprintf("count=max%+d", c-(b-4)/5)
	case shape < 26: // a valid batch of max-body-1 / max-body bytes, then 1 / 7 more bytes
		t := b - 1 + int64((shape-22)%2)
		k := []int{1, 7}[(shape-22)/2]
		return append(batchFill(r, m, t), r.Bytes(k)...), fmt.Sprintf("valid-batch+trailing,%s,trailing=%d", rel(t, b, "batch"), k)
	default: // trailing bytes, all within the body limit
		return append(batchFill(r, m, b-3), r.Bytes(2)...), "valid-batch+trailing,body=max-1"
	}
}

func edgeCase(in caseIn, name string) {
	r := lib.NewRand(in.Seed)
	cfg := httpCfgByKey(in.HCfg)
	kind, shape, chunked := in.HKind, in.Shape, in.Chunked
	if kind < 0 || kind > 2 || shape < 0 || shape >= edgeShapes(kind) {
		lib.Fatalf("httpedge: no cell kind=%d shape=%d", kind, shape)
	}
	m, b := cfg.maxMsg, cfg.maxBody
	body, desc := edgeBody(r, kind, shape, m, b)
	piece := 0
	if chunked {
		piece = []int{0, 1, 7, int(m), int(m) + 1}[r.Intn(5)]
	}
	intent := 0
	var want [][]byte
	switch kind {
	case 0:
		if n := int64(len(body)); n >= 1 && n <= m {
			intent = 1
		}
	case 1:
		intent = textIntent(body, m, b)
	default:
		intent, want = binaryIntent(body, m, b, chunked)
	}
	hd := getHTTPDaemonCfg(cfg)
	tags := []string{"edge=" + edgeKindNames[kind] + ":" + desc, fmt.Sprintf("edge_piece=%d", piece), fmt.Sprintf("edge_intent=%d", intent),
		fmt.Sprintf("edge_cell=%s/%s/chunked=%v", cfg.key, edgeKindNames[kind], chunked)}
	httpRun(hd, kind, body, chunked, piece, intent, want, "edge-"+edgeKindNames[kind], in, name, tags)
}

// runEdgeMatrix enumerates the cells.  level 1: every cell of the 16/60 and 100/420
// daemons, /pub at max-1 .. max+2 on the 4096/16384 daemon; level 2: every cell.
func runEdgeMatrix(level int, r *lib.Rand) {
	if level <= 0 {
		return
	}
	k := 0
	for _, cfg := range httpCfgs {
		if cfg.maxMsg == 0 {
			continue
		}
		for kind := 0; kind < 3; kind++ {
			for shape := 0; shape < edgeShapes(kind); shape++ {
				for _, chunked := range []bool{false, true} {
					if cfg.maxMsg > 1000 && level < 2 {
						// large terms: the message boundary of /pub only
						if kind != 0 || shape < 3 || shape > 6 || (!chunked && shape > 5) {
							continue
						}
					}
					run(caseIn{Kind: "httpedge", Seed: r.U64(), HCfg: cfg.key, HKind: kind, Shape: shape, Chunked: chunked}, fmt.Sprintf("httpedge-%d", k))
					k++
				}
			}
		}
	}
	out.Stat("http_boundary_cells_run", k)
}
