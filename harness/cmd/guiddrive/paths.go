package main

// paths.go: (1) Topic.GenerateID from the three factory states in which NewGUID refuses
// (clock behind, sequence exhausted, id would go backwards): the publish must WAIT and then
// get a fresh, larger id; (2) one id per message on every publish path of a real nsqd (TCP
// PUB / MPUB / DPUB, HTTP /pub, text /mpub, binary /mpub), read back from a consumer: the
// ids of one topic are unique and increase in publish order.

import (
	"bufio"
	"bytes"
	"encoding/binary"
	"fmt"
	"io"
	"net"
	"net/http"
	"strconv"
	"strings"
	"time"

	"github.com/nsqio/nsq/nsqd"
	"verifharness/lib"
	"verifharness/nsqdlib"
)

func hexID(h nsqd.MessageID) int64 {
	v, err := strconv.ParseUint(string(h[:]), 16, 64)
	if err != nil || v > 1<<62 {
		return -1 // not a well-formed id: can never continue an increasing sequence
	}
	return int64(v)
}

func generateFromStates(o *lib.Out, r *lib.Rand, reps int) {
	opts := nsqdlib.NewOpts(nsqdlib.ScratchDir())
	opts.ID = int64(r.Intn(1024))
	d, err := nsqd.New(opts)
	if err != nil {
		lib.Fatalf("nsqd.New: %v", err)
	}
	topic := d.GetTopic("states")
	kinds := []struct {
		name                  string
		seq, tsOff, lastSeq   int64
	}{
		{"clock-behind", 7, 3, 7},          // last timestamp 3 pseudo-ms ahead of the clock
		{"sequence-exhausted", 4095, 0, 4095}, // the next id of this millisecond would wrap
		{"id-backwards", 0, 0, 4095},       // the sequence has just wrapped in this millisecond
	}
	for _, k := range kinds {
		for i := 0; i < reps; i++ {
			last, got := nsqd.VerifTopicGenerateIDFrom(topic, k.seq, k.tsOff, k.lastSeq)
			g := hexID(got)
			o.Emit(lib.Case{Name: fmt.Sprintf("genid-%s-%d", k.name, i),
				Coq:   fmt.Sprintf("(J12.Burst [[%s;%s]])", z(last), z(g)),
				Input: map[string]interface{}{"kind": "genid", "state": k.name},
				Tags:  []string{"kind=genid-" + k.name}, Nontrivial: true,
				Obs: map[string]interface{}{"fresh": g > last}})
		}
	}
	d.Exit()
}

// ids keep increasing across Topic.Empty (the generator's state is the only protection
// against reuse): id, empty, id, ... in a tight loop on a memory-only topic
func idsAcrossEmpty(o *lib.Out, r *lib.Rand, rounds int) {
	opts := nsqdlib.NewOpts(nsqdlib.ScratchDir())
	opts.ID = int64(r.Intn(1024))
	d, err := nsqd.New(opts)
	if err != nil {
		lib.Fatalf("nsqd.New: %v", err)
	}
	topic := d.GetTopic("emptied#ephemeral")
	parts := make([]string, 0, 2*rounds)
	for i := 0; i < rounds; i++ {
		parts = append(parts, z(hexID(topic.GenerateID())))
		topic.Empty()
		parts = append(parts, z(hexID(topic.GenerateID())))
	}
	d.Exit()
	o.Emit(lib.Case{Name: "ids-across-topic-empty", Coq: "(J12.Burst [[" + strings.Join(parts, ";") + "]])",
		Input: map[string]interface{}{"kind": "ids-across-empty", "rounds": rounds},
		Tags:  []string{"kind=ids-across-topic-empty"}, Nontrivial: true, Obs: map[string]interface{}{"ids": 2 * rounds}})
}

type rawConn struct {
	c net.Conn
	r *bufio.Reader
}

func dialV2(addr string) *rawConn {
	c, err := net.DialTimeout("tcp", addr, 3*time.Second)
	if err != nil {
		lib.Fatalf("dial: %v", err)
	}
	c.Write([]byte("  V2"))
	return &rawConn{c: c, r: bufio.NewReader(c)}
}

// frame returns (type, payload)
func (rc *rawConn) frame(timeout time.Duration) (int32, []byte, bool) {
	rc.c.SetReadDeadline(time.Now().Add(timeout))
	var sz int32
	if binary.Read(rc.r, binary.BigEndian, &sz) != nil || sz < 4 {
		return 0, nil, false
	}
	buf := make([]byte, sz)
	if _, err := io.ReadFull(rc.r, buf); err != nil {
		return 0, nil, false
	}
	return int32(binary.BigEndian.Uint32(buf[:4])), buf[4:], true
}

func (rc *rawConn) cmd(line string, body []byte) string {
	var b bytes.Buffer
	b.WriteString(line + "\n")
	if body != nil {
		binary.Write(&b, binary.BigEndian, int32(len(body)))
		b.Write(body)
	}
	rc.c.Write(b.Bytes())
	for {
		t, p, ok := rc.frame(5 * time.Second)
		if !ok {
			return "<closed>"
		}
		if t == 0 && string(p) == "_heartbeat_" {
			rc.c.Write([]byte("NOP\n"))
			continue
		}
		return string(p)
	}
}

func mpubBody(bodies [][]byte) []byte {
	var b bytes.Buffer
	binary.Write(&b, binary.BigEndian, int32(len(bodies)))
	for _, x := range bodies {
		binary.Write(&b, binary.BigEndian, int32(len(x)))
		b.Write(x)
	}
	return b.Bytes()
}

func publishPaths(o *lib.Out, r *lib.Rand) {
	opts := nsqdlib.NewOpts(nsqdlib.ScratchDir())
	opts.ID = int64(r.Intn(1024))
	d, err := nsqdlib.Start(opts)
	if err != nil {
		lib.Fatalf("start nsqd: %v", err)
	}
	tcpAddr, httpAddr := d.RealTCPAddr().String(), d.RealHTTPAddr().String()
	d.GetTopic("paths").GetChannel("ch")
	pub := dialV2(tcpAddr)
	var order []string
	say := func(path, ans string) {
		order = append(order, path)
		if ans != "OK" && ans != "200" {
			lib.Fatalf("publish via %s answered %q", path, ans)
		}
	}
	post := func(q string, body []byte) string {
		resp, err := http.Post("http://"+httpAddr+q, "application/octet-stream", bytes.NewReader(body))
		if err != nil {
			return err.Error()
		}
		io.Copy(io.Discard, resp.Body)
		resp.Body.Close()
		return strconv.Itoa(resp.StatusCode)
	}
	n := 0
	body := func() []byte { n++; return []byte(fmt.Sprintf("m%03d", n)) }
	for round := 0; round < 3; round++ {
		say("tcp-pub", pub.cmd("PUB paths", body()))
		say("tcp-mpub", pub.cmd("MPUB paths", mpubBody([][]byte{body(), body(), body()})))
		say("tcp-dpub0", pub.cmd("DPUB paths 0", body()))
		say("http-pub", post("/pub?topic=paths", body()))
		say("http-mpub-text", post("/mpub?topic=paths", bytes.Join([][]byte{body(), body()}, []byte("\n"))))
		say("http-mpub-binary", post("/mpub?topic=paths&binary=true", mpubBody([][]byte{body(), body(), body()})))
	}
	sub := dialV2(tcpAddr)
	if a := sub.cmd("SUB paths ch", nil); a != "OK" {
		lib.Fatalf("SUB answered %q", a)
	}
	sub.c.Write([]byte("RDY 100\n"))
	got := map[string]int64{}
	for len(got) < n {
		t, p, ok := sub.frame(5 * time.Second)
		if !ok {
			break
		}
		if t == 0 && string(p) == "_heartbeat_" {
			sub.c.Write([]byte("NOP\n"))
			continue
		}
		if t == 2 && len(p) >= 26 {
			var id nsqd.MessageID
			copy(id[:], p[10:26])
			got[string(p[26:])] = hexID(id)
			sub.c.Write([]byte("FIN " + string(p[10:26]) + "\n"))
		}
	}
	sub.c.Close()
	pub.c.Close()
	d.Exit()
	// ids in publish order (bodies are numbered in publish order)
	parts := make([]string, 0, n)
	missing := 0
	for i := 1; i <= n; i++ {
		v, ok := got[fmt.Sprintf("m%03d", i)]
		if !ok {
			missing++
			v = -1
		}
		parts = append(parts, z(v))
	}
	o.Emit(lib.Case{Name: "publish-paths", Coq: "(J12.Burst [[" + strings.Join(parts, ";") + "]])",
		Input: map[string]interface{}{"kind": "publish-paths"},
		Tags:  []string{"kind=publish-paths", "paths=" + strings.Join(order[:6], ",")}, Nontrivial: true,
		Obs: map[string]interface{}{"messages": n, "missing": missing}})
}
