// guiddrive: correspondence driver for C12 (message ids).
package main

import (
	"flag"
	"fmt"
	"strconv"
	"strings"
	"sync"
	"time"

	"github.com/nsqio/nsq/nsqd"
	"verifharness/lib"
	"verifharness/nsqdlib"
)

const twepoch = int64(1288834974288)

func layout(ts, node, seq int64) int64 { return (ts-twepoch)<<22 | node<<12 | seq }

type callIn struct {
	Node, Seq, DeltaTs, LastID int64
	LastIDMode              string
}

func z(v int64) string {
	if v < 0 {
		return fmt.Sprintf("(%d)", v)
	}
	return strconv.FormatInt(v, 10)
}

func main() {
	n := flag.Int("n", 300, "number of call cases")
	seed := flag.Uint64("seed", 1, "seed")
	out := flag.String("out", "", "output jsonl")
	replay := flag.String("replay", "", "replay file")
	burstG := flag.Int("burst-goroutines", 8, "")
	burstK := flag.Int("burst-per", 1500, "")
	flag.Parse()
	o := lib.NewOut(*out)
	defer o.Close()
	r := lib.NewRand(*seed)

	if *replay != "" {
		// replays re-run the generated profile: a NewGUID call cannot be replayed at the
		// same wall-clock instant, the recorded state is re-applied at the current time
		var ins []map[string]interface{}
		lib.ReadReplay(*replay, &ins)
		for k, in := range ins {
			if in["kind"] == "call" {
				emitCall(o, fmt.Sprintf("replay-%d", k), int64(in["node"].(float64)), int64(in["seq"].(float64)),
					int64(in["delta_ts"].(float64)), in["lastid_mode"].(string), int64(in["lastid_off"].(float64)))
			}
		}
		return
	}

	nodes := []int64{0, 1, 7, 512, 1023}
	seqs := []int64{0, 1, 4094, 4095}
	deltas := []int64{0, 0, 0, 0, -1, -5, 1, 3, -1000, 1000}
	modes := []string{"consistent", "consistent", "zero", "just-below-next", "at-next", "above-next", "far-above", "negative", "random-near"}
	dropped := 0
	for k := 0; k < *n; k++ {
		node := nodes[r.Intn(len(nodes))]
		if r.Chance(30) {
			node = int64(r.Intn(1024))
		}
		seq := seqs[r.Intn(len(seqs))]
		if r.Chance(30) {
			seq = int64(r.Intn(4096))
		}
		d := deltas[r.Intn(len(deltas))]
		mode := modes[r.Intn(len(modes))]
		off := int64(r.Intn(5)) - 2
		if !emitCall(o, fmt.Sprintf("call-%d", k), node, seq, d, mode, off) {
			dropped++
		}
	}
	o.Stat("calls_dropped_clock_ticked_during_call", dropped)

	// hex renderings
	vals := []int64{0, 1, -1, 255, 256, 1 << 62, -(1 << 63), (1 << 63) - 1, 0x0123456789abcdef, layout(time.Now().UnixNano()>>20, 5, 77)}
	for i := 0; i < 40; i++ {
		vals = append(vals, int64(r.U64()))
	}
	for i, v := range vals {
		h := nsqd.VerifGUIDHex(v)
		parts := make([]string, len(h))
		for j := range h {
			parts[j] = strconv.Itoa(int(h[j]))
		}
		o.Emit(lib.Case{Name: fmt.Sprintf("hex-%d", i), Coq: fmt.Sprintf("(J12.HexOf %s [%s])", z(v), strings.Join(parts, ";")),
			Input: map[string]interface{}{"kind": "hex", "id": v}, Tags: []string{"kind=hex"}, Nontrivial: true})
	}

	// node-id start-up test on a real daemon
	for i, id := range []int64{-1, 0, 1, 1023, 1024, 1025, 1 << 31, -(1 << 40), int64(r.Intn(1024)), 1024 + int64(r.Intn(5000))} {
		opts := nsqdlib.NewOpts(nsqdlib.ScratchDir())
		opts.ID = id
		d, err := nsqd.New(opts)
		started := err == nil
		if started {
			d.Exit()
		}
		o.Emit(lib.Case{Name: fmt.Sprintf("nodeid-%d", i), Coq: fmt.Sprintf("(J12.NodeId %s %s)", z(id), lib.CoqBool(started)),
			Input: map[string]interface{}{"kind": "nodeid", "id": id}, Tags: []string{"kind=nodeid", fmt.Sprintf("started=%v", started)}, Nontrivial: true})
	}

	// burst: publishers on one real topic, faster than 4096 ids per pseudo-millisecond
	// (a single tight loop exhausts the per-millisecond sequence; concurrent goroutines
	// contend for the factory mutex)
	burst(o, r, "burst-single", 1, *burstK*6)
	burst(o, r, "burst-concurrent", *burstG, *burstK)
	firstPublishers(o, r, *burstK)
	generateFromStates(o, r, 20)
	publishPaths(o, r)
	idsAcrossEmpty(o, r, 300)
}

// two FIRST publishers of a brand-new topic: the first is parked in GetTopic after its
// read-locked lookup missed, the second creates the topic, then the first continues.  Both
// must end up on ONE Topic object (one id generator); then they publish concurrently.
func firstPublishers(o *lib.Out, r *lib.Rand, per int) {
	opts := nsqdlib.NewOpts(nsqdlib.ScratchDir())
	opts.ID = int64(r.Intn(1024))
	d, err := nsqd.New(opts)
	if err != nil {
		lib.Fatalf("nsqd.New: %v", err)
	}
	reached, release := nsqd.VerifArmPark("gettopic:after-miss", 1)
	topics := make([]*nsqd.Topic, 2)
	var wg sync.WaitGroup
	wg.Add(1)
	go func() { defer wg.Done(); topics[0] = d.GetTopic("fresh") }()
	parked := false
	select {
	case <-reached:
		parked = true
	case <-time.After(3 * time.Second):
	}
	topics[1] = d.GetTopic("fresh")
	release()
	wg.Wait()
	perG := make([][]int64, 2)
	start := make(chan struct{})
	for g := 0; g < 2; g++ {
		wg.Add(1)
		go func(g int) {
			defer wg.Done()
			<-start
			ids := make([]int64, 0, per)
			for i := 0; i < per; i++ {
				h := topics[g].GenerateID()
				v, _ := strconv.ParseUint(string(h[:]), 16, 64)
				ids = append(ids, int64(v))
			}
			perG[g] = ids
		}(g)
	}
	close(start)
	wg.Wait()
	d.Exit()
	var lists []string
	for _, ids := range perG {
		parts := make([]string, len(ids))
		for i, v := range ids {
			parts[i] = z(v)
		}
		lists = append(lists, "["+strings.Join(parts, ";")+"]")
	}
	o.Emit(lib.Case{Name: "burst-first-publishers", Coq: "(J12.Burst [" + strings.Join(lists, ";") + "])",
		Input: map[string]interface{}{"kind": "first-publishers", "per": per},
		Tags:  []string{"kind=burst-first-publishers", fmt.Sprintf("first-publisher-parked=%v", parked), fmt.Sprintf("same-topic-object=%v", topics[0] == topics[1])},
		Nontrivial: true, Obs: map[string]interface{}{"same_topic_object": topics[0] == topics[1]}})
}

func burst(o *lib.Out, r *lib.Rand, name string, goroutines, per int) {
	opts := nsqdlib.NewOpts(nsqdlib.ScratchDir())
	opts.ID = int64(r.Intn(1024))
	d, err := nsqd.New(opts)
	if err != nil {
		lib.Fatalf("nsqd.New: %v", err)
	}
	topic := d.GetTopic("burst")
	perG := make([][]int64, goroutines)
	var wg sync.WaitGroup
	for g := 0; g < goroutines; g++ {
		wg.Add(1)
		go func(g int) {
			defer wg.Done()
			ids := make([]int64, 0, per)
			for i := 0; i < per; i++ {
				h := topic.GenerateID()
				v, err := strconv.ParseUint(string(h[:]), 16, 64)
				if err != nil {
					lib.Fatalf("id %q is not hex: %v", string(h[:]), err)
				}
				ids = append(ids, int64(v))
			}
			perG[g] = ids
		}(g)
	}
	wg.Wait()
	d.Exit()
	maxSeq, perMs := int64(0), map[int64]int{}
	var lists []string
	for _, ids := range perG {
		parts := make([]string, len(ids))
		for i, v := range ids {
			parts[i] = z(v)
			if s := v & 4095; s > maxSeq {
				maxSeq = s
			}
			perMs[v>>22]++
		}
		lists = append(lists, "["+strings.Join(parts, ";")+"]")
	}
	maxPerMs := 0
	for _, c := range perMs {
		if c > maxPerMs {
			maxPerMs = c
		}
	}
	o.Stat(name+"_max_sequence_seen", maxSeq)
	o.Stat(name+"_max_ids_in_one_ms", maxPerMs)
	o.Emit(lib.Case{Name: name, Coq: "(J12.Burst [" + strings.Join(lists, ";") + "])",
		Input: map[string]interface{}{"kind": "burst", "goroutines": goroutines, "per": per},
		Tags:  []string{"kind=" + name, fmt.Sprintf("sequence_exhausted:%v", maxPerMs >= 4096)}, Nontrivial: true,
		Obs:   map[string]interface{}{"max_sequence": maxSeq, "max_ids_in_one_ms": maxPerMs}})
}

func emitCall(o *lib.Out, name string, node, seq, delta int64, mode string, off int64) bool {
	now := time.Now().UnixNano() >> 20
	lastts := now + delta
	var lastid int64
	switch mode {
	case "consistent":
		lastid = layout(lastts, node, seq)
	case "zero":
		lastid = 0
	case "just-below-next":
		lastid = layout(now, node, (seq+1)&4095) - 1 + off
	case "at-next":
		lastid = layout(now, node, (seq+1)&4095)
	case "above-next":
		lastid = layout(now, node, (seq+1)&4095) + 1 + off
	case "far-above":
		lastid = layout(now+100000, node, 0)
	case "negative":
		lastid = -layout(now, node, seq)
	default:
		lastid = layout(now, node, 0) + off*4096 + seq
	}
	b, a, id, code, seq2, ts2, id2 := nsqd.VerifGUIDCall(node, seq, lastts, lastid)
	if b != a {
		return false
	}
	rel := "same-ms"
	if lastts < b {
		rel = "clock-ahead-of-last"
	} else if lastts > b {
		rel = "clock-behind-last"
	}
	coq := fmt.Sprintf("(J12.Call %s %s %s %s %s %d %s %s %s %s)", z(node), z(seq), z(lastts), z(lastid), z(b), code, z(id), z(seq2), z(ts2), z(id2))
	o.Emit(lib.Case{Name: name, Coq: coq,
		Input: map[string]interface{}{"kind": "call", "node": node, "seq": seq, "delta_ts": delta, "lastid_mode": mode, "lastid_off": off},
		Tags:  []string{"kind=call", "clock=" + rel, fmt.Sprintf("code=%d", code), "lastid=" + mode, fmt.Sprintf("seq4095=%v", seq == 4095)},
		Nontrivial: true,
		Obs:        map[string]interface{}{"ts": b, "code": code, "id": id}})
	return true
}
