package main

// C18, the two other profiles:
//   addfn   - the real stringy.Uniq/Union, Producer.UnmarshalJSON, ChannelStats.Add and
//             TopicStats.Add called directly (verifshim) on generated values;
//   hostile - the real apps/nsqadmin binary as a SUBPROCESS in front of stubs that answer
//             inconsistent / null-ridden / mistyped JSON (the recorded crash witnesses first,
//             then random mutations of valid documents); observed: is the process still there.

import (
	"encoding/json"
	"fmt"
	"net"
	"net/http"
	"os"
	"os/exec"
	"path/filepath"
	"strconv"
	"strings"
	"time"

	"github.com/nsqio/nsq/verifshim"
	"verifharness/lib"
)

// ---------------------------------------------------------------- addfn

type AddIn struct {
	Kind   string    `json:"kind"`
	L      []string  `json:"l,omitempty"`
	A      []string  `json:"a,omitempty"`
	Tombs  []bool    `json:"tombs,omitempty"`
	Chans  []GChan   `json:"chans,omitempty"`
	Topics [][]GChan `json:"topics,omitempty"` // per node: its channels
	TNums  [][6]int64 `json:"tnums,omitempty"`
	TPause []bool    `json:"tpause,omitempty"`
	Raw    bool      `json:"raw,omitempty"`    // e2eadd: the first block's ChannelStats is the receiver
	Blocks []*GE2e   `json:"blocks,omitempty"` // e2eadd: one e2e block per node (nil: none)
	HandNil int      `json:"hand_nil,omitempty"` // e2eadd, raw: nil maps put in front of the receiver's entries by hand
	Name   string    `json:"name"`
}

func realChan(c GChan) *verifshim.ChannelStats {
	cs := &verifshim.ChannelStats{ChannelName: c.Name, Depth: c.Num[0], BackendDepth: c.Num[1], InFlightCount: c.Num[2],
		DeferredCount: c.Num[3], RequeueCount: c.Num[4], TimeoutCount: c.Num[5], MessageCount: c.Num[6],
		ZoneLocalMsgCount: c.Num[7], RegionLocalMsgCount: c.Num[8], GlobalMsgCount: c.Num[9], ClientCount: int(c.Num[10]), Paused: c.Paused}
	// what GetNSQDStats derives before it calls Add
	cs.MemoryDepth = cs.Depth - cs.BackendDepth
	cs.DeliveryMsgCount = cs.ZoneLocalMsgCount + cs.RegionLocalMsgCount + cs.GlobalMsgCount
	for _, cl := range c.Clients {
		if c.OmitClients {
			break
		}
		if cl.Null {
			cs.Clients = append(cs.Clients, nil)
		} else {
			cs.Clients = append(cs.Clients, &verifshim.ClientStats{ClientID: cl.ID, Hostname: cl.Host})
		}
	}
	cs.E2eProcessingLatency = realE2e(c.E2e) // decoded by the real UnmarshalJSON
	return cs
}

func chanNums(c *verifshim.ChannelStats) string {
	v := []int64{c.Depth, c.MemoryDepth, c.BackendDepth, c.InFlightCount, c.DeferredCount, c.RequeueCount, c.TimeoutCount,
		c.MessageCount, c.DeliveryMsgCount, c.ZoneLocalMsgCount, c.RegionLocalMsgCount, c.GlobalMsgCount, int64(c.ClientCount)}
	parts := make([]string, len(v))
	for i, x := range v {
		parts[i] = zs(x)
	}
	return "[" + strings.Join(parts, ";") + "]"
}

func plainChanTerm(c GChan) string {
	t := coqChan(c, true) // (Some (mkChan ...))
	return strings.TrimSuffix(strings.TrimPrefix(t, "(Some "), ")")
}

func runAddCase(o *lib.Out, in AddIn) {
	emit := func(coq string, tags ...string) {
		o.Emit(lib.Case{Name: in.Name, Coq: coq, Input: in, Tags: append([]string{"fn=" + in.Kind}, tags...), Nontrivial: true})
	}
	switch in.Kind {
	case "e2eadd":
		runE2eAdd(o, in)
	case "uniq":
		got := verifshim.StringyUniq(append([]string{}, in.L...))
		emit(fmt.Sprintf("(J18.CUniq %s %s)", cbl(in.L), cbl(got)), fmt.Sprintf("dups=%v", len(got) < len(in.L)))
	case "union":
		got := verifshim.StringyUnion(append([]string{}, in.L...), in.A)
		emit(fmt.Sprintf("(J18.CUnion %s %s %s)", cbl(in.L), cbl(in.A), cbl(got)))
	case "tomb":
		topics := in.L
		if topics == nil {
			topics = []string{}
		}
		tombs := in.Tombs
		if tombs == nil {
			tombs = []bool{}
		}
		doc, _ := json.Marshal(map[string]interface{}{"topics": topics, "tombstones": tombs, "broadcast_address": "h", "http_port": 1, "tcp_port": 2, "version": "1.0.0"})
		decoded := false
		var got []string
		func() {
			defer func() {
				if recover() != nil {
					decoded = false
				}
			}()
			var p verifshim.Producer
			if err := json.Unmarshal(doc, &p); err == nil {
				decoded = true
				for _, t := range p.Topics {
					got = append(got, fmt.Sprintf("(%s, %s)", cb(t.Topic), lib.CoqBool(t.Tombstoned)))
				}
			}
		}()
		var tb []string
		for _, b := range tombs {
			tb = append(tb, lib.CoqBool(b))
		}
		emit(fmt.Sprintf("(J18.CTomb %s [%s] %s [%s])", cbl(topics), strings.Join(tb, ";"), lib.CoqBool(decoded), strings.Join(got, ";")),
			fmt.Sprintf("fewer_tombstones=%v", len(tombs) < len(topics)))
	case "chanadd":
		acc := &verifshim.ChannelStats{}
		var terms []string
		for _, c := range in.Chans {
			acc.Add(realChan(c))
			terms = append(terms, plainChanTerm(c))
		}
		emit(fmt.Sprintf("(J18.CChanAdd [%s] %s %s %s)", strings.Join(terms, ";"), chanNums(acc), lib.CoqBool(acc.Paused), zs(int64(len(acc.Clients)))),
			fmt.Sprintf("nodes=%d", len(in.Chans)))
	case "topicadd":
		acc := &verifshim.TopicStats{TopicName: "t"}
		var nodes []string
		for i, chans := range in.Topics {
			n := in.TNums[i]
			ts := &verifshim.TopicStats{TopicName: "t", Depth: n[0], BackendDepth: n[1], MessageCount: n[2], ZoneLocalMsgCount: n[3],
				RegionLocalMsgCount: n[4], GlobalMsgCount: n[5], Paused: in.TPause[i], Hostname: fmt.Sprintf("h%d", i)}
			ts.MemoryDepth = ts.Depth - ts.BackendDepth
			ts.DeliveryMsgCount = ts.ZoneLocalMsgCount + ts.RegionLocalMsgCount + ts.GlobalMsgCount
			var cterms []string
			for _, c := range chans {
				ts.Channels = append(ts.Channels, realChan(c))
				cterms = append(cterms, plainChanTerm(c))
			}
			acc.Add(ts)
			tl := []int64{ts.Depth, ts.MemoryDepth, ts.BackendDepth, ts.MessageCount, ts.DeliveryMsgCount, ts.ZoneLocalMsgCount, ts.RegionLocalMsgCount, ts.GlobalMsgCount}
			tp := make([]string, len(tl))
			for j, x := range tl {
				tp[j] = zs(x)
			}
			nodes = append(nodes, fmt.Sprintf("([%s], [%s], %s)", strings.Join(cterms, ";"), strings.Join(tp, ";"), lib.CoqBool(ts.Paused)))
		}
		tl := []int64{acc.Depth, acc.MemoryDepth, acc.BackendDepth, acc.MessageCount, acc.DeliveryMsgCount, acc.ZoneLocalMsgCount, acc.RegionLocalMsgCount, acc.GlobalMsgCount}
		tp := make([]string, len(tl))
		for j, x := range tl {
			tp[j] = zs(x)
		}
		var chans []string
		for _, c := range acc.Channels {
			chans = append(chans, fmt.Sprintf("(mkOC %s %s %s OENone)", cb(c.ChannelName), chanNums(c), lib.CoqBool(c.Paused)))
		}
		emit(fmt.Sprintf("(J18.CTopicAdd [%s] [%s] %s [%s])", strings.Join(nodes, ";"), strings.Join(tp, ";"), lib.CoqBool(acc.Paused), strings.Join(chans, ";")),
			fmt.Sprintf("nodes=%d", len(in.Topics)))
	}
}

func runAddFn(o *lib.Out, r *lib.Rand, n int, replay string) {
	if replay != "" {
		var ins []AddIn
		lib.ReadReplay(replay, &ins)
		for _, in := range ins {
			runAddCase(o, in)
		}
		return
	}
	for _, in := range e2eMatrix(r, 2*n) {
		runAddCase(o, in)
	}
	genIdle, genNullish, genPctSet = false, false, []int{0, 1}
	alphabet := []string{"a", "b", "c", "A", "", "a ", "orders", "events", "orders"}
	randList := func(max int) []string {
		k := r.Intn(max + 1)
		l := make([]string, 0, k)
		for i := 0; i < k; i++ {
			l = append(l, alphabet[r.Intn(len(alphabet))])
		}
		return l
	}
	for k := 0; k < n; k++ {
		runAddCase(o, AddIn{Kind: "uniq", L: randList(9), Name: fmt.Sprintf("uniq-%d", k)})
		s := verifshim.StringyUniq(randList(5))
		if r.Chance(20) {
			s = randList(4) // not duplicate-free to begin with
		}
		runAddCase(o, AddIn{Kind: "union", L: s, A: randList(6), Name: fmt.Sprintf("union-%d", k)})
		topics := randList(5)
		tombs := make([]bool, r.Intn(7))
		for i := range tombs {
			tombs[i] = r.Bool()
		}
		runAddCase(o, AddIn{Kind: "tomb", L: topics, Tombs: tombs, Name: fmt.Sprintf("tomb-%d", k)})
		var chans []GChan
		for i := r.Intn(5); i > 0; i-- {
			chans = append(chans, genChan(r, "c"))
		}
		runAddCase(o, AddIn{Kind: "chanadd", Chans: chans, Name: fmt.Sprintf("chanadd-%d", k)})
		in := AddIn{Kind: "topicadd", Name: fmt.Sprintf("topicadd-%d", k)}
		for i := r.Intn(5); i > 0; i-- {
			var cs []GChan
			for j := r.Intn(4); j > 0; j-- {
				c := genChan(r, chanPool[r.Intn(len(chanPool))])
				c.Clients = nil
				cs = append(cs, c)
			}
			in.Topics = append(in.Topics, cs)
			var tn [6]int64
			for j := range tn {
				tn[j] = genCounter(r)
			}
			in.TNums = append(in.TNums, tn)
			in.TPause = append(in.TPause, r.Chance(20))
		}
		runAddCase(o, in)
	}
}

// ---------------------------------------------------------------- hostile stream against a subprocess

type HostileIn struct {
	Name   string `json:"name"`
	Mode   string `json:"mode"` // lookupd | direct | notify
	Stats  string `json:"stats,omitempty"`
	Nodes  string `json:"nodes,omitempty"`  // served for /nodes and /lookup
	Topics string `json:"topics,omitempty"` // served for /topics
	Info   string `json:"info,omitempty"`
	Paths  []string `json:"paths,omitempty"`
	// a corpus entry that is a whole cluster for the view profile's in-process nsqadmin (the
	// corpus file has one driver): run as runCluster runs it, judged as a view case
	Cluster *GCluster `json:"cluster,omitempty"`
	Views   []string  `json:"views,omitempty"`
}

type subAdmin struct {
	cmd  *exec.Cmd
	addr string
	done chan struct{}
}

func freePort() int {
	ln, err := net.Listen("tcp", "127.0.0.1:0")
	if err != nil {
		panic(err)
	}
	p := ln.Addr().(*net.TCPAddr).Port
	ln.Close()
	return p
}

func startSub(args ...string) *subAdmin {
	bin := filepath.Join(os.Getenv("VERIF_BIN_DIR"), "nsqadmin")
	if _, err := os.Stat(bin); err != nil {
		lib.Fatalf("nsqadmin binary not found at %s (REPO_BINS)", bin)
	}
	for attempt := 0; attempt < 5; attempt++ {
		addr := "127.0.0.1:" + strconv.Itoa(freePort())
		cmd := exec.Command(bin, append([]string{"-http-address", addr, "-log-level", "error"}, args...)...)
		cmd.Stdout, cmd.Stderr = nil, nil
		if err := cmd.Start(); err != nil {
			lib.Fatalf("start nsqadmin: %v", err)
		}
		s := &subAdmin{cmd: cmd, addr: addr, done: make(chan struct{})}
		go func() { cmd.Wait(); close(s.done) }()
		deadline := time.Now().Add(10 * time.Second)
		for time.Now().Before(deadline) {
			if s.alive() && s.ping() {
				// (a foreign server could sit on the port if ours failed to bind it)
				time.Sleep(10 * time.Millisecond)
				if s.alive() {
					return s
				}
			}
			select {
			case <-s.done:
				deadline = time.Now() // exited (port taken?): try again
			case <-time.After(20 * time.Millisecond):
			}
		}
		s.kill()
	}
	lib.Fatalf("nsqadmin subprocess did not come up")
	return nil
}

var subClient = &http.Client{Timeout: 8 * time.Second}

func (s *subAdmin) ping() bool {
	resp, err := subClient.Get("http://" + s.addr + "/ping")
	if err != nil {
		return false
	}
	resp.Body.Close()
	return resp.StatusCode == 200
}

func (s *subAdmin) alive() bool {
	select {
	case <-s.done:
		return false
	default:
		return true
	}
}

func (s *subAdmin) kill() {
	if s.alive() {
		s.cmd.Process.Kill()
		<-s.done
	}
}

func (s *subAdmin) request(method, path, body string) (int, bool) {
	req, _ := http.NewRequest(method, "http://"+s.addr+path, strings.NewReader(body))
	resp, err := subClient.Do(req)
	if err != nil {
		return 0, false
	}
	resp.Body.Close()
	return resp.StatusCode, true
}

type hostileEnv struct {
	rec   *Recorder
	stub  *Stub
	subs  map[string]*subAdmin
	dead  string
}

func (h *hostileEnv) sub(mode string) *subAdmin {
	if s, ok := h.subs[mode]; ok && s.alive() {
		return s
	}
	var s *subAdmin
	switch mode {
	case "lookupd":
		s = startSub("-lookupd-http-address", h.stub.Addr)
	case "direct":
		s = startSub("-nsqd-http-address", h.stub.Addr)
	case "notify":
		s = startSub("-lookupd-http-address", h.stub.Addr, "-notification-http-endpoint", "http://"+h.dead+"/notify")
	default:
		lib.Fatalf("hostile mode %q", mode)
	}
	h.subs[mode] = s
	return s
}

var hostilePaths = []string{"/api/topics", "/api/nodes", "/api/counter", "/api/topics/t", "/api/topics/t/c", "/api/nodes/@stub", "/api/topics?inactive=true"}

func (h *hostileEnv) run(o *lib.Out, in HostileIn) {
	port := strconv.Itoa(h.stub.Port)
	fill := func(s string) string { return strings.ReplaceAll(s, "@port", port) }
	b := Behaviour{}
	if in.Stats != "" {
		st := fill(in.Stats)
		b.StatsFn = func(string, string, bool) string { return st }
	} else {
		b.Stats = []TopicJSON{{TopicName: "t", Channels: []ChannelJSON{{ChannelName: "c", E2e: &E2eJSON{}}}, E2e: &E2eJSON{}}}
	}
	if in.Nodes != "" {
		nd := fill(in.Nodes)
		b.NodesFn = func() string { return nd }
		b.LookupFn = func(string) string { return nd }
	} else {
		b.Producers = []ProducerJSON{{RemoteAddress: "1.2.3.4:5", Hostname: "stub", BroadcastAddress: "127.0.0.1", TCPPort: h.stub.Port + 10000, HTTPPort: h.stub.Port, Version: "1.3.0", Topics: []string{"t"}, Tombstones: []bool{false}}}
	}
	if in.Topics != "" {
		tp := fill(in.Topics)
		b.TopicsFn = func() string { return tp }
	}
	if in.Info != "" {
		inf := fill(in.Info)
		b.InfoFn = func() string { return inf }
	}
	h.stub.Set(b)
	s := h.sub(in.Mode)
	answered := true
	if in.Mode == "notify" {
		// a successful state-changing action; the notification POST cannot reach its endpoint
		st, ok := s.request("POST", "/api/topics", `{"topic":"notify_me"}`)
		answered = ok && st == 200
		// the notification goroutine runs after the reply: give it time to fail
		for i := 0; i < 40 && s.alive(); i++ {
			time.Sleep(25 * time.Millisecond)
		}
	} else {
		paths := in.Paths
		if len(paths) == 0 {
			paths = hostilePaths
		}
		for _, p := range paths {
			if _, ok := s.request("GET", strings.ReplaceAll(p, "@stub", h.stub.Addr), ""); !ok {
				answered = false
			}
			if !s.alive() {
				break
			}
		}
	}
	alive := s.alive() && s.ping()
	if !alive {
		s.kill()
	}
	o.Emit(lib.Case{Name: in.Name, Coq: fmt.Sprintf("(J18.CAlive %s %s)", lib.CoqBool(alive), lib.CoqBool(answered)), Input: in,
		Tags: []string{"hostile=" + strings.SplitN(in.Name, "#", 2)[0], "mode=" + in.Mode, fmt.Sprintf("alive=%v", alive)}, Nontrivial: true,
		Obs: map[string]interface{}{"alive": alive, "answered": answered}})
}

const okE2e = `"e2e_processing_latency":{"count":0,"percentiles":null}`

// the recorded witnesses of the crashes repaired by a8ccec7 (F4), 68bce44 (F8), 87f8c11 (F12), 8942636 (F13)
func hostileWitnesses() []HostileIn {
	prod := `{"remote_address":"1.2.3.4:5","hostname":"h","broadcast_address":"127.0.0.1","tcp_port":1,"http_port":@port,"version":"1.3.0","topics":["t"],"tombstones":[false]}`
	var ins []HostileIn
	both := func(name string, in HostileIn) {
		for _, m := range []string{"lookupd", "direct"} {
			x := in
			x.Mode, x.Name = m, name+"#"+m
			ins = append(ins, x)
		}
	}
	both("F4-topics-longer-than-tombstones", HostileIn{Nodes: `{"producers":[{"broadcast_address":"127.0.0.1","http_port":@port,"tcp_port":1,"topics":["a","b"],"tombstones":[false]}]}`})
	both("F4-no-tombstones", HostileIn{Nodes: `{"producers":[{"broadcast_address":"127.0.0.1","http_port":@port,"tcp_port":1,"topics":["a","b","c"]}]}`})
	both("F8-channel-without-e2e", HostileIn{Stats: `{"topics":[{"topic_name":"t","channels":[{"channel_name":"c","depth":1}]}]}`})
	both("F8-channel-e2e-null", HostileIn{Stats: `{"topics":[{"topic_name":"t","channels":[{"channel_name":"c","e2e_processing_latency":null}]}]}`})
	both("F8-null-topic", HostileIn{Stats: `{"topics":[null]}`})
	both("F8-null-channel", HostileIn{Stats: `{"topics":[{"topic_name":"t","channels":[null]}]}`})
	both("F8-null-client", HostileIn{Stats: `{"topics":[{"topic_name":"t","channels":[{"channel_name":"c",` + okE2e + `,"clients":[null]}]}]}`})
	both("F8-null-producer", HostileIn{Nodes: `{"producers":[null]}`})
	both("F8-null-then-producer", HostileIn{Nodes: `{"producers":[null,` + prod + `]}`})
	both("F12-null-client-plus-one", HostileIn{Stats: `{"topics":[{"topic_name":"t","channels":[{"channel_name":"c","clients":[null,{"hostname":"x"}]}]}]}`})
	both("F12-two-null-clients-plus-one", HostileIn{Stats: `{"topics":[{"topic_name":"t","channels":[{"channel_name":"c","clients":[null,null,{"hostname":"x"}]}]}]}`})
	both("F12-null-percentile-channel", HostileIn{Stats: `{"topics":[{"topic_name":"t","channels":[{"channel_name":"c","e2e_processing_latency":{"count":1,"percentiles":[null]}}]}]}`})
	both("F12-null-percentile-topic", HostileIn{Stats: `{"topics":[{"topic_name":"t","e2e_processing_latency":{"count":1,"percentiles":[null,{"quantile":0.5,"value":1}]},"channels":[]}]}`})
	ins = append(ins, HostileIn{Name: "F13-unreachable-notification-endpoint#notify", Mode: "notify"})
	return ins
}

// mutate: replace one random subtree of a JSON document
func mutateJSON(r *lib.Rand, doc string) string {
	var v interface{}
	if json.Unmarshal([]byte(doc), &v) != nil {
		return doc
	}
	repl := []interface{}{nil, []interface{}{}, map[string]interface{}{}, 0, -1, "x", true, []interface{}{nil}, []interface{}{nil, nil},
		1e40, map[string]interface{}{"percentiles": []interface{}{nil}}, []interface{}{map[string]interface{}{}}, []interface{}{"s", 3}}
	// collect the paths
	type slot struct {
		set func(interface{})
	}
	var slots []slot
	var walk func(x interface{}, set func(interface{}))
	walk = func(x interface{}, set func(interface{})) {
		slots = append(slots, slot{set})
		switch t := x.(type) {
		case map[string]interface{}:
			for k := range t {
				k := k
				walk(t[k], func(n interface{}) { t[k] = n })
			}
		case []interface{}:
			for i := range t {
				i := i
				walk(t[i], func(n interface{}) { t[i] = n })
			}
		}
	}
	root := v
	walk(v, func(n interface{}) { root = n })
	k := 1 + r.Intn(2)
	for i := 0; i < k; i++ {
		slots[r.Intn(len(slots))].set(repl[r.Intn(len(repl))])
	}
	out, err := json.Marshal(root)
	if err != nil {
		return doc
	}
	return string(out)
}

func runHostile(o *lib.Out, r *lib.Rand, n int, replay string) {
	h := &hostileEnv{rec: &Recorder{}, subs: map[string]*subAdmin{}, dead: DeadAddr()}
	h.stub = NewStub(h.rec)
	defer func() {
		for _, s := range h.subs {
			s.kill()
		}
	}()
	if replay != "" {
		var ins []HostileIn
		lib.ReadReplay(replay, &ins)
		var cl *cluster
		for _, in := range ins {
			if in.Cluster != nil {
				if cl == nil {
					cl = newCluster()
				}
				in := in
				viewInputWrap = func(g GCluster) interface{} {
					v := ""
					if i := strings.LastIndex(g.Name, "/"); i >= 0 {
						v, g.Name = g.Name[i+1:], g.Name[:i]
					}
					return HostileIn{Name: in.Name, Mode: in.Mode, Cluster: &g, Views: []string{v}}
				}
				runCluster(o, cl, *in.Cluster, in.Views)
				viewInputWrap = nil
				continue
			}
			h.run(o, in)
		}
		return
	}
	for _, in := range hostileWitnesses() {
		h.run(o, in)
	}
	// random mutations of valid documents
	validStats := `{"version":"1.3.0","topics":[{"topic_name":"t","depth":3,"backend_depth":1,"message_count":9,"paused":false,` + okE2e +
		`,"channels":[{"channel_name":"c","depth":2,"backend_depth":0,"message_count":5,"client_count":1,"paused":true,` + okE2e +
		`,"clients":[{"client_id":"a","hostname":"h1","connect_ts":1700000000},{"client_id":"b","hostname":"h0","connect_ts":1700000000}]},` +
		`{"channel_name":"d","depth":0,` + `"e2e_processing_latency":{"count":2,"percentiles":[{"quantile":0.99,"value":10},{"quantile":0.5,"value":4}]},"clients":[]}]},` +
		`{"topic_name":"u","depth":0,` + okE2e + `,"channels":[]}]}`
	validNodes := `{"channels":["c"],"producers":[{"remote_address":"1.2.3.4:5","hostname":"h","broadcast_address":"127.0.0.1","tcp_port":7,"http_port":@port,"version":"1.3.0","topics":["t","u"],"tombstones":[false,true]},` +
		`{"remote_address":"1.2.3.4:6","hostname":"g","broadcast_address":"127.0.0.1","tcp_port":8,"http_port":@port,"version":"0.3.8","topics":["t"],"tombstones":[false]}]}`
	validInfo := `{"version":"1.3.0","broadcast_address":"127.0.0.1","hostname":"h","http_port":@port,"tcp_port":7}`
	validTopics := `{"topics":["t","u"]}`
	for k := 0; k < n; k++ {
		in := HostileIn{Name: fmt.Sprintf("fuzz#%d", k), Mode: []string{"lookupd", "direct"}[r.Intn(2)]}
		switch r.Intn(6) {
		case 0, 1, 2:
			in.Stats = mutateJSON(r, validStats)
		case 3:
			in.Nodes = mutateJSON(r, validNodes)
		case 4:
			in.Stats, in.Nodes = mutateJSON(r, validStats), mutateJSON(r, validNodes)
		case 5:
			in.Info, in.Topics = mutateJSON(r, validInfo), mutateJSON(r, validTopics)
		}
		h.run(o, in)
	}
}
