package main

// C17 profile: every route x method x identity class x admin list x ACL header name,
// every client address class x allowed CIDR for /config; state-changing requests with
// valid and invalid bodies against worlds of answering / failing upstreams; the configuration
// paths (command line, --config file, both) through the real binary: c17launch.go.

import (
	"encoding/json"
	"fmt"
	"math/big"
	"net"
	"net/http"
	"net/url"
	"strconv"
	"strings"

	"verifharness/lib"
)

type C17In struct {
	Name      string      `json:"name"`
	Admins    []string    `json:"admins"`
	Header    string      `json:"header"`
	CIDR      string      `json:"cidr"`
	Mode      string      `json:"mode"` // L1 L2 L3d D2 D3d
	Method    string      `json:"method"`
	Pattern   string      `json:"pattern"`
	Topic     string      `json:"topic"`
	Channel   string      `json:"channel"`
	Node      string      `json:"node"` // N0..N3, ND (dead), junk text
	Opt       string      `json:"opt"`
	Transport string      `json:"transport"` // direct | wire
	LocalIP   string      `json:"local_ip"`
	Remote    string      `json:"remote"`    // direct: RemoteAddr
	RemoteIP  string      `json:"remote_ip"` // the address inside Remote ("" = unparsable)
	Headers   [][2]string `json:"headers"`
	IdClass   string      `json:"id_class"`
	Body      string      `json:"body"`
	BodyClass string      `json:"body_class"`
	BodyTopic string      `json:"body_topic"`
	BodyChan  string      `json:"body_channel"`
	BodyAct   string      `json:"body_action"`
	BodyBad   bool        `json:"body_bad"`
	Lookup    []string    `json:"lookup"`    // per stub nsqlookupd L0,L1: "ok:N0,N2" | "500" | "garbage" | "wrongtype"
	Nsqd      []string    `json:"nsqd"`      // per stub nsqd N0..N3: "topic" | "notopic" | "500" | "infofail" | "nobcast" | "statsfail"
	PostFail  []string    `json:"post_fail"` // names of stubs that fail POSTs
	// configuration paths: the request goes to the real apps/nsqadmin binary started from this
	// launch (Admins / Header / CIDR then say what the launch means, for generation and tags)
	Launch *LaunchIn `json:"launch,omitempty"`
	// run-time reconfiguration: the request goes to an in-process nsqadmin started with the lists of
	// Mode whose /config has since answered this history (c17reconf.go)
	Reconf *ReconfIn `json:"reconf,omitempty"`
}

type cluster struct {
	rec  *Recorder
	L    []*Stub
	N    []*Stub
	LD   string
	ND   string
}

func newCluster() *cluster {
	c := &cluster{rec: &Recorder{}}
	for i := 0; i < 3; i++ {
		c.L = append(c.L, NewStub(c.rec))
	}
	for i := 0; i < 4; i++ {
		c.N = append(c.N, NewStub(c.rec))
	}
	c.LD = DeadAddr()
	c.ND = DeadAddr()
	return c
}

func (c *cluster) addr(name string) string {
	switch {
	case name == "LD":
		return c.LD
	case name == "ND":
		return c.ND
	case strings.HasPrefix(name, "L"):
		i, _ := strconv.Atoi(name[1:])
		return c.L[i].Addr
	case strings.HasPrefix(name, "N"):
		i, err := strconv.Atoi(name[1:])
		if err == nil && i < len(c.N) {
			return c.N[i].Addr
		}
	}
	return name // junk text used as is
}

func modeLists(mode string) (ls, ns []string) {
	switch mode {
	case "L1":
		return []string{"L0"}, nil
	case "L2":
		return []string{"L0", "L1"}, nil
	case "L3d":
		return []string{"L0", "LD", "L1"}, nil
	case "D1":
		return nil, []string{"N0"}
	case "D2":
		return nil, []string{"N0", "N1"}
	case "D3d":
		return nil, []string{"N0", "ND", "N1"}
	}
	lib.Fatalf("mode %q", mode)
	return
}

func contains(xs []string, x string) bool {
	for _, y := range xs {
		if y == x {
			return true
		}
	}
	return false
}

// ---------------------------------------------------------------- one case

var optionsNotRestored int

func runC17Case(o *lib.Out, cl *cluster, in C17In) {
	var lnames, nnames []string
	var a *Admin
	var ln *launched
	var ra *reconfAdmin
	var l0, n0 []string // reconfiguration: the lists nsqadmin was started with
	if in.Reconf != nil {
		ls, ns := modeLists(in.Mode)
		cfg := AdminCfg{Admins: in.Admins, Header: in.Header, CIDR: in.CIDR}
		for _, l := range ls {
			cfg.Lookupds = append(cfg.Lookupds, cl.addr(l))
		}
		for _, n := range ns {
			cfg.Nsqds = append(cfg.Nsqds, cl.addr(n))
		}
		l0, n0 = cfg.Lookupds, cfg.Nsqds
		ra = getReconfAdmin(cl, cfg, in.Reconf)
		a = ra.a
		// the case's world lists every stub: which of them are in force is the judge's business
		lnames, nnames = []string{"L0", "L1", "L2", "LD"}, []string{"N0", "N1", "N2", "N3", "ND"}
	} else if in.Launch != nil {
		// the case's world lists every stub the launch could mean: which of them are configured is the judge's business
		// (every stub the launch names anywhere, on the command line or in the file)
		lnames, nnames = in.Launch.stubsNamed()
		ln = getLaunched(cl, in.Launch)
		a = &Admin{addr: ln.addr}
	} else {
		lnames, nnames = modeLists(in.Mode)
		cfg := AdminCfg{Admins: in.Admins, Header: in.Header, CIDR: in.CIDR}
		for _, l := range lnames {
			cfg.Lookupds = append(cfg.Lookupds, cl.addr(l))
		}
		for _, n := range nnames {
			cfg.Nsqds = append(cfg.Nsqds, cl.addr(n))
		}
		a = getAdmin(cfg)
	}

	// the topic the upstream answers are about
	topic := in.Topic
	if in.Pattern == "/api/topics" || in.Pattern == "/api/nodes/:node" {
		topic = in.BodyTopic
	}

	// configure the stubs, and describe them to the model
	producerJSON := func(name string) ProducerJSON {
		ad := cl.addr(name)
		host, port, _ := net.SplitHostPort(ad)
		p, _ := strconv.Atoi(port)
		return ProducerJSON{RemoteAddress: host + ":1", Hostname: "h-" + name, BroadcastAddress: host, TCPPort: p + 10000, HTTPPort: p, Version: "1.3.0", Topics: []string{topic}, Tombstones: []bool{false}}
	}
	lookupAns := map[string]string{}
	for i, st := range cl.L {
		spec := "ok:"
		if i < len(in.Lookup) {
			spec = in.Lookup[i]
		}
		b := Behaviour{PostFail: contains(in.PostFail, fmt.Sprintf("L%d", i))}
		name := fmt.Sprintf("L%d", i)
		if strings.HasPrefix(spec, "ok:") {
			var addrs []string
			for _, pn := range strings.Split(strings.TrimPrefix(spec, "ok:"), ",") {
				if pn == "" {
					continue
				}
				b.Producers = append(b.Producers, producerJSON(pn))
				addrs = append(addrs, cl.addr(pn))
			}
			b.Topics = []string{topic}
			lookupAns[name] = "(LProducers " + cbl(addrs) + ")"
		} else {
			b.Fail = spec
			lookupAns[name] = "LFail"
		}
		st.Set(b)
	}
	lookupAns["LD"] = "LFail"
	nsqdAns := map[string]string{"ND": "NFail"}
	nodeAns := map[string]string{"ND": "NodeInfoFail"}
	for i, st := range cl.N {
		spec := "topic"
		if i < len(in.Nsqd) {
			spec = in.Nsqd[i]
		}
		name := fmt.Sprintf("N%d", i)
		b := Behaviour{PostFail: contains(in.PostFail, name)}
		host, port, _ := net.SplitHostPort(st.Addr)
		switch spec {
		case "topic":
			b.Stats = []TopicJSON{{TopicName: topic}}
			nsqdAns[name] = fmt.Sprintf("(NStats true (Some (%s, %s)))", cb(host), cb(port))
			nodeAns[name] = fmt.Sprintf("(NodeOk %s %s)", cb(host), cb(port))
		case "notopic":
			b.Stats = []TopicJSON{{TopicName: "some_other_topic"}}
			nsqdAns[name] = "(NStats false None)"
			nodeAns[name] = fmt.Sprintf("(NodeOk %s %s)", cb(host), cb(port))
		case "500":
			b.Fail = "500"
			nsqdAns[name] = "NFail"
			nodeAns[name] = "NodeInfoFail"
		case "statsfail":
			b.StatsFail = true
			nsqdAns[name] = "NFail"
			nodeAns[name] = "NodeStatsFail"
		case "infofail":
			b.Stats = []TopicJSON{{TopicName: topic}}
			b.InfoFail = true
			nsqdAns[name] = "(NStats true None)"
			nodeAns[name] = "NodeInfoFail"
		case "nobcast":
			// /info without broadcast_address: the configured address is used instead
			b.Stats = []TopicJSON{{TopicName: topic}}
			p, _ := strconv.Atoi(port)
			_ = p
			b.Info = &InfoJSON{Version: "1.3.0", BroadcastAddress: "", Hostname: "", HTTPPort: st.Shadow, TCPPort: 1}
			nsqdAns[name] = fmt.Sprintf("(NStats true (Some ([], %s)))", cb(strconv.Itoa(st.Shadow)))
			nodeAns[name] = fmt.Sprintf("(NodeOk [] %s)", cb(strconv.Itoa(st.Shadow)))
		default:
			lib.Fatalf("nsqd spec %q", spec)
		}
		st.Set(b)
	}
	var wl, wn, pf []string
	for _, l := range lnames {
		wl = append(wl, fmt.Sprintf("(%s, %s)", cb(cl.addr(l)), lookupAns[l]))
	}
	for _, n := range nnames {
		wn = append(wn, fmt.Sprintf("(%s, %s)", cb(cl.addr(n)), nsqdAns[n]))
	}
	node := cl.addr(in.Node)
	wnode, ok := nodeAns[in.Node]
	if !ok {
		wnode = "NodeInfoFail"
	}
	for i := range cl.L {
		name := fmt.Sprintf("L%d", i)
		if contains(in.PostFail, name) || (i < len(in.Lookup) && !strings.HasPrefix(in.Lookup[i], "ok:")) {
			pf = append(pf, cl.addr(name))
		}
	}
	for i := range cl.N {
		name := fmt.Sprintf("N%d", i)
		if contains(in.PostFail, name) || (i < len(in.Nsqd) && in.Nsqd[i] == "500") {
			pf = append(pf, cl.addr(name))
		}
	}
	dead := []string{cl.LD, cl.ND, "127.0.0.1:1"}
	for _, st := range cl.N {
		dead = append(dead, ":"+strconv.Itoa(st.Shadow)) // the address a tombstone derives from an /info without broadcast_address
	}
	pf = append(pf, dead...)
	world := fmt.Sprintf("(mkWorld [%s] [%s] %s %s)", strings.Join(wl, ";"), strings.Join(wn, ";"), wnode, cbl(pf))

	// the concrete path
	path := in.Pattern
	path = strings.Replace(path, ":topic", url.PathEscape(in.Topic), 1)
	path = strings.Replace(path, ":channel", url.PathEscape(in.Channel), 1)
	path = strings.Replace(path, ":node", url.PathEscape(node), 1)
	path = strings.Replace(path, ":opt", url.PathEscape(in.Opt), 1)
	path = strings.Replace(path, ":asset", "base.css", 1)

	// /config: read the option back before and after from an address that is allowed
	isConfig := in.Pattern == "/config/:opt"
	inside := "127.0.0.1:1"
	if in.CIDR != "" {
		_, ipnet, _ := net.ParseCIDR(in.CIDR)
		inside = net.JoinHostPort(ipnet.IP.String(), "1")
	}
	// the option read (and put back) from an address that is allowed
	readOpt := func(method string, body []byte) (int, []byte) {
		return a.direct(method, path, nil, inside, body)
	}
	if ln != nil {
		// over a connection from a loopback address inside the CIDR in force; when there is none
		// (or nsqadmin is not up) what the option holds cannot be observed
		ip := insideIP(in.CIDR)
		isConfig = isConfig && ip != "" && ln.up
		readOpt = func(method string, body []byte) (int, []byte) {
			st, b, err := a.wire(ip, method, path, nil, body)
			if err != nil {
				lib.Fatalf("wire request %s %s from %s: %v", method, path, ip, err)
			}
			return st, b
		}
	}
	var before []byte
	if isConfig {
		_, before = readOpt("GET", nil)
	}

	cl.rec.Reset()
	var status int
	var body []byte
	body0 := []byte(in.Body)
	if in.BodyClass == "toobig" {
		body0 = []byte(strings.Repeat("x", 1024*1024+1))
	}
	if ln != nil && !ln.up {
		// nsqadmin did not come up from this launch: nobody answers
		status = 0
	} else if in.Transport == "wire" {
		var err error
		status, body, err = a.wire(in.LocalIP, in.Method, path, in.Headers, body0)
		if err != nil {
			lib.Fatalf("wire request %s %s: %v", in.Method, path, err)
		}
	} else {
		hdr := http.Header{}
		for _, h := range in.Headers {
			hdr[h[0]] = append(hdr[h[0]], h[1])
		}
		status, body = a.direct(in.Method, path, hdr, in.Remote, body0)
	}
	calls := cl.rec.Take()

	swapped := false
	if isConfig {
		_, after := readOpt("GET", nil)
		swapped = string(before) != string(after)
		if swapped {
			// put the original value back (log_level is read back as a number)
			orig := before
			if in.Opt == "log_level" {
				names := map[string]string{"0": "debug", "1": "debug", "2": "info", "3": "warn", "4": "error", "5": "fatal"}
				orig = []byte(names[strings.TrimSpace(string(before))])
			}
			st, _ := readOpt("PUT", orig)
			_, again := readOpt("GET", nil)
			if st != 200 || string(again) != string(before) {
				if ln != nil {
					lib.Fatalf("could not restore option %s (status %d, %q vs %q)", in.Opt, st, again, before)
				}
				// this instance no longer has the configuration its key says: the next case with this
				// configuration gets a fresh one (what went wrong is the business of the cases that
				// read the list back, c17reconf.go)
				retireAdmin(a)
				optionsNotRestored++
			}
		}
	}

	warn := false
	if status == 200 && in.Pattern != "/config/:opt" {
		var m struct {
			Message string `json:"message"`
		}
		if json.Unmarshal(body, &m) == nil && m.Message != "" {
			warn = true
		}
	}

	var sent []string
	for _, h := range in.Headers {
		sent = append(sent, fmt.Sprintf("(%s, %s)", cb(h[0]), cb(h[1])))
	}
	remote := "None"
	if in.Transport == "wire" {
		ip := in.LocalIP
		if ip == "" {
			ip = "127.0.0.1"
		}
		remote = coqIP(ip)
	} else if in.RemoteIP != "" {
		remote = coqIP(in.RemoteIP)
	}
	bodyTerm := "BodyBad"
	if !in.BodyBad {
		bodyTerm = fmt.Sprintf("(BodyJson %s %s %s)", cb(in.BodyTopic), cb(in.BodyChan), cb(in.BodyAct))
	}
	opt := map[string]string{"nsqlookupd_http_addresses": "OptLookupdAddrs", "log_level": "OptLogLevel", "http_address": "OptOtherKnown", "statsd_prefix": "OptOtherKnown",
		// the documented keys of the options the property depends on
		"admin_users": "OptOtherKnown", "acl_http_header": "OptOtherKnown", "allow_config_from_cidr": "OptOtherKnown", "nsqd_http_addresses": "OptOtherKnown"}[in.Opt]
	if opt == "" {
		opt = "OptUnknown"
	}
	put := map[string]string{"empty": "PutEmpty", "toobig": "PutTooBig", "invalid": "PutInvalid", "valid": "PutValid"}[in.BodyClass]
	if put == "" {
		put = "PutEmpty"
	}
	if !strings.Contains(in.Pattern, ":topic") {
		in.Topic = ""
	}
	if !strings.Contains(in.Pattern, ":channel") {
		in.Channel = ""
	}
	if !strings.Contains(in.Pattern, ":node") {
		node = ""
	}
	mkTerm := func(admins, header, cidr string) string {
		return fmt.Sprintf("(J17.mk %s %s %s %s %s %s %s %s [%s] %s %s %s %s %s %s %s %d %s %s %s)",
			admins, header, cidr, world, cbl(dead), cstr(in.Method), cstr(in.Pattern),
			lib.CoqBool(in.Transport == "wire"), strings.Join(sent, ";"), remote,
			cb(in.Topic), cb(in.Channel), cb(node), bodyTerm, opt, put,
			status, lib.CoqBool(warn), coqCalls(calls), lib.CoqBool(swapped))
	}
	var term string
	if ra != nil {
		// the lists in force are NOT stated: the judge works them out from the start lists and the history
		term = fmt.Sprintf("(J17.CReconf %s %s %s %s)", cbl(l0), cbl(n0), coqSteps(cl, in.Reconf, ra.obs),
			mkTerm(cbl(in.Admins), cb(a.cfgHeader()), coqCIDR(in.CIDR)))
	} else if ln != nil {
		// the configuration is NOT stated: the judge works it out from the launch
		launch, cidrTab := coqLaunch(cl, in.Launch)
		term = fmt.Sprintf("(J17.CLaunch %s %s %s)", launch, cidrTab, mkTerm("[]", "[]", "None"))
	} else {
		term = "(J17.CReq " + mkTerm(cbl(in.Admins), cb(a.cfgHeader()), coqCIDR(in.CIDR)) + ")"
	}

	npost := 0
	for _, c := range calls {
		if c.Kind == "POST" {
			npost++
		}
	}
	cidrTag := "cidr=none"
	if in.CIDR != "" {
		cidrTag = "cidr=" + in.CIDR
	}
	tags := []string{"route=" + in.Method + " " + in.Pattern, "identity=" + in.IdClass, fmt.Sprintf("admins=%d", len(in.Admins)),
		"header=" + in.Header, "transport=" + in.Transport, fmt.Sprintf("status=%d", status), "mode=" + in.Mode,
		fmt.Sprintf("posts=%d", npost), fmt.Sprintf("warn=%v", warn)}
	if in.Pattern == "/config/:opt" {
		tags = append(tags, cidrTag, "remote="+in.RemoteIP+in.LocalIP, fmt.Sprintf("swapped=%v", swapped), "put="+in.BodyClass, "opt="+in.Opt)
	} else if in.BodyClass != "" {
		tags = append(tags, "body="+in.BodyClass)
	}
	obs := map[string]interface{}{"status": status, "calls": calls, "swapped": swapped, "warn": warn}
	if ra != nil {
		inForce := "start"
		written := 0
		for i, st := range in.Reconf.Steps {
			tags = append(tags, fmt.Sprintf("reconf-step=%s/%s/%d", st.Kind, st.Transport, ra.obs[i].Status))
			if st.Method == "PUT" && st.Opt == "nsqlookupd_http_addresses" && ra.obs[i].Status == 200 {
				written++
			}
		}
		var after []string
		if n := len(ra.obs); n > 0 {
			after = ra.obs[n-1].After
		} else {
			after = l0
		}
		switch {
		case len(after) > 0 && len(n0) > 0:
			inForce = "both-lists"
		case len(after) > 0:
			inForce = "lookupd-only"
		case len(n0) > 0:
			inForce = "nsqd-only"
		default:
			inForce = "no-list"
		}
		tags = append(tags, "reconf", "reconf-start="+in.Mode, "reconf-history="+in.Reconf.Template, "reconf-in-force="+inForce,
			fmt.Sprintf("reconf-lists-written=%d", written), "reconf-cidr="+cidrTag)
		obs["reconf_start_lookupds"], obs["reconf_start_nsqds"], obs["reconf_steps"] = l0, n0, ra.obs
	}
	if ln != nil {
		tags = append(tags, "config-path", "launch-up="+strconv.FormatBool(ln.up), "listen-address-in="+in.Launch.HTTPIn, "args="+in.Launch.ArgStyle)
		for _, s := range strings.Fields(in.Launch.Sources) {
			tags = append(tags, "path:"+s)
		}
		args, file := in.Launch.concrete(cl)
		obs["launch_args"], obs["launch_file"], obs["launch_up"] = args, file, ln.up
		if !ln.up {
			e := ln.stderr.String()
			if len(e) > 1500 {
				e = e[len(e)-1500:]
			}
			obs["launch_stderr"] = e
		}
	}
	o.Emit(lib.Case{Name: in.Name, Coq: term, Input: in, Tags: tags,
		Nontrivial: status == 403 || npost > 0 || swapped || in.Pattern == "/config/:opt" || status == 0,
		Obs: obs})
}

func (a *Admin) cfgHeader() string {
	if a.cfg.Header == "" {
		return "X-Forwarded-User"
	}
	return a.cfg.Header
}

// ---------------------------------------------------------------- generator

type routeSpec struct {
	method, pattern string
}

var allRoutes = []routeSpec{
	{"GET", "/"}, {"GET", "/ping"}, {"GET", "/topics"}, {"GET", "/topics/:topic"}, {"GET", "/topics/:topic/:channel"},
	{"GET", "/nodes"}, {"GET", "/nodes/:node"}, {"GET", "/counter"}, {"GET", "/lookup"},
	{"GET", "/static/:asset"}, {"GET", "/fonts/:asset"}, {"GET", "/render"},
	{"GET", "/api/topics"}, {"GET", "/api/topics/:topic"}, {"GET", "/api/topics/:topic/:channel"},
	{"GET", "/api/nodes"}, {"GET", "/api/nodes/:node"}, {"GET", "/api/counter"}, {"GET", "/api/graphite"},
	{"POST", "/api/topics"}, {"POST", "/api/topics/:topic"}, {"POST", "/api/topics/:topic/:channel"},
	{"DELETE", "/api/nodes/:node"}, {"DELETE", "/api/topics/:topic"}, {"DELETE", "/api/topics/:topic/:channel"},
	{"GET", "/config/:opt"}, {"PUT", "/config/:opt"},
	{"GET", "/api/nope"}, {"POST", "/nope/:topic"},
}

var mutRoutes = []routeSpec{
	{"POST", "/api/topics"}, {"POST", "/api/topics/:topic"}, {"POST", "/api/topics/:topic/:channel"},
	{"DELETE", "/api/nodes/:node"}, {"DELETE", "/api/topics/:topic"}, {"DELETE", "/api/topics/:topic/:channel"},
}

var idClasses = []string{"absent", "empty", "admin", "admin2", "nonadmin", "case", "upper", "lead-space", "trail-space", "tab",
	"prefix", "suffix", "list", "quoted", "two-bad-first", "two-admin-first", "other-header", "name-lower", "name-upper"}

func identityHeaders(class, header, transport string) [][2]string {
	h := header
	if h == "" {
		h = "X-Forwarded-User"
	}
	canon := http.CanonicalHeaderKey(h)
	key := canon
	std := func(v string) string { // the usual "Name: value" form on a connection
		if transport == "wire" {
			return " " + v
		}
		return v
	}
	switch class {
	case "absent":
		return nil
	case "empty":
		return [][2]string{{key, ""}}
	case "admin":
		return [][2]string{{key, std("alice")}}
	case "admin2":
		return [][2]string{{key, std("bob")}}
	case "nonadmin":
		return [][2]string{{key, std("mallory")}}
	case "case":
		return [][2]string{{key, std("Alice")}}
	case "upper":
		return [][2]string{{key, std("ALICE")}}
	case "lead-space":
		return [][2]string{{key, "  alice"}}
	case "trail-space":
		return [][2]string{{key, "alice  "}}
	case "tab":
		return [][2]string{{key, "\talice\t"}}
	case "prefix":
		return [][2]string{{key, std("alic")}}
	case "suffix":
		return [][2]string{{key, std("alicex")}}
	case "list":
		return [][2]string{{key, std("alice,bob")}}
	case "quoted":
		return [][2]string{{key, std("\"alice\"")}}
	case "two-bad-first":
		return [][2]string{{key, std("mallory")}, {key, std("alice")}}
	case "two-admin-first":
		return [][2]string{{key, std("alice")}, {key, std("mallory")}}
	case "other-header":
		return [][2]string{{"X-Other-User", std("alice")}}
	case "name-lower":
		return [][2]string{{strings.ToLower(canon), std("alice")}}
	case "name-upper":
		return [][2]string{{strings.ToUpper(canon), std("alice")}}
	}
	lib.Fatalf("identity class %q", class)
	return nil
}

var topicNames = []string{"t", "orders", "a.b-c_d", "x#ephemeral", "sp ace", "t+1", "T", "ü"}

func genBody(r *lib.Rand, in *C17In, class string) {
	in.BodyClass = class
	validTopics := []string{"events", "a.b-c_d", "k#ephemeral", strings.Repeat("z", 64)}
	invalidTopics := []string{"", "bad topic", "semi;colon", strings.Repeat("z", 65), "x#ephemeralx", "sl/ash"}
	js := func(m map[string]interface{}) string { b, _ := json.Marshal(m); return string(b) }
	switch in.Pattern {
	case "/api/topics":
		switch class {
		case "valid":
			in.BodyTopic = validTopics[r.Intn(len(validTopics))]
			in.Body = js(map[string]interface{}{"topic": in.BodyTopic})
		case "valid-channel":
			in.BodyTopic = validTopics[r.Intn(len(validTopics))]
			in.BodyChan = []string{"ch", "c.1#ephemeral", strings.Repeat("c", 64)}[r.Intn(3)]
			in.Body = js(map[string]interface{}{"topic": in.BodyTopic, "channel": in.BodyChan, "extra": 1})
		case "invalid-topic":
			in.BodyTopic = invalidTopics[r.Intn(len(invalidTopics))]
			in.Body = js(map[string]interface{}{"topic": in.BodyTopic})
		case "invalid-channel":
			in.BodyTopic = validTopics[r.Intn(len(validTopics))]
			in.BodyChan = []string{"bad channel", strings.Repeat("c", 65), "#"}[r.Intn(3)]
			in.Body = js(map[string]interface{}{"topic": in.BodyTopic, "channel": in.BodyChan})
		}
	case "/api/nodes/:node":
		switch class {
		case "valid":
			in.BodyTopic = validTopics[r.Intn(len(validTopics))]
			in.Body = js(map[string]interface{}{"topic": in.BodyTopic})
		case "invalid-topic":
			in.BodyTopic = invalidTopics[r.Intn(len(invalidTopics))]
			in.Body = js(map[string]interface{}{"topic": in.BodyTopic})
		}
	case "/api/topics/:topic", "/api/topics/:topic/:channel":
		switch class {
		case "valid":
			in.BodyAct = []string{"pause", "unpause", "empty"}[r.Intn(3)]
			in.Body = js(map[string]interface{}{"action": in.BodyAct})
		case "invalid-action":
			in.BodyAct = []string{"delete", "", "Pause", "pause ", "emptyy"}[r.Intn(5)]
			in.Body = js(map[string]interface{}{"action": in.BodyAct})
		}
	}
	switch class {
	case "bad-json":
		in.Body = []string{"{", "", "[]", `{"topic":5,"action":7}`, "not json", `"str"`}[r.Intn(6)]
		in.BodyBad = true
	case "null":
		in.Body = "null"
	case "none":
		in.Body = ""
		in.BodyBad = true
	}
}

func bodyClassesFor(pattern string) []string {
	switch pattern {
	case "/api/topics":
		return []string{"valid", "valid", "valid-channel", "valid-channel", "invalid-topic", "invalid-channel", "bad-json", "null"}
	case "/api/nodes/:node":
		return []string{"valid", "valid", "valid", "invalid-topic", "bad-json", "null"}
	case "/api/topics/:topic", "/api/topics/:topic/:channel":
		return []string{"valid", "valid", "valid", "valid", "invalid-action", "bad-json", "null"}
	}
	return []string{"none"}
}

func genWorld(r *lib.Rand, in *C17In) {
	prodSets := []string{"ok:N0", "ok:N0,N1", "ok:N1,N2", "ok:N0,N1,N2,N3", "ok:", "ok:N2,ND", "ok:N3"}
	fails := []string{"500", "garbage", "wrongtype"}
	in.Lookup = make([]string, 3)
	for i := range in.Lookup {
		if r.Chance(22) {
			in.Lookup[i] = fails[r.Intn(len(fails))]
		} else {
			in.Lookup[i] = prodSets[r.Intn(len(prodSets))]
		}
	}
	if r.Chance(6) { // every nsqlookupd fails
		for i := range in.Lookup {
			in.Lookup[i] = fails[r.Intn(len(fails))]
		}
	}
	nsq := []string{"topic", "topic", "topic", "notopic", "500", "infofail", "nobcast", "statsfail"}
	in.Nsqd = make([]string, 4)
	for i := range in.Nsqd {
		in.Nsqd[i] = nsq[r.Intn(len(nsq))]
	}
	if r.Chance(5) {
		in.Nsqd[0], in.Nsqd[1] = "500", "statsfail"
	}
	for _, s := range []string{"L0", "L1", "N0", "N1", "N2", "N3"} {
		if r.Chance(12) {
			in.PostFail = append(in.PostFail, s)
		}
	}
}

var adminLists = [][]string{{}, {"alice"}, {"alice", "bob"}}
var headerNames = []string{"", "x-forwarded-user", "X-Remote-Id"}
var modes = []string{"L2", "L2", "L3d", "L1", "D2", "D3d"}

func fillParams(r *lib.Rand, in *C17In) {
	in.Topic = topicNames[r.Intn(len(topicNames))]
	in.Channel = []string{"ch", "c#ephemeral", "c.2"}[r.Intn(3)]
	in.Node = []string{"N0", "N1", "N2", "N3", "ND", "127.0.0.1:1"}[r.Intn(6)]
	in.Opt = "log_level"
}

func genMutating(r *lib.Rand, k int, rt routeSpec, idc string, adminsIdx int) C17In {
	in := C17In{Name: fmt.Sprintf("mut-%d", k), Admins: adminLists[adminsIdx], Header: headerNames[r.Intn(len(headerNames))],
		CIDR: "127.0.0.1/8", Mode: modes[r.Intn(len(modes))], Method: rt.method, Pattern: rt.pattern, IdClass: idc}
	fillParams(r, &in)
	in.Transport = "direct"
	if r.Chance(40) {
		in.Transport = "wire"
		in.LocalIP = []string{"127.0.0.1", "127.0.0.2", "127.9.8.7"}[r.Intn(3)]
	} else {
		in.Remote, in.RemoteIP = "198.51.100.7:4242", "198.51.100.7"
	}
	in.Headers = identityHeaders(idc, in.Header, in.Transport)
	classes := bodyClassesFor(rt.pattern)
	genBody(r, &in, classes[r.Intn(len(classes))])
	genWorld(r, &in)
	return in
}

type remoteSpec struct{ remote, ip string }

var remotes = []remoteSpec{
	{"127.0.0.1:5000", "127.0.0.1"}, {"127.255.255.254:1", "127.255.255.254"}, {"128.0.0.1:80", "128.0.0.1"},
	{"126.255.255.255:80", "126.255.255.255"}, {"10.1.2.3:4444", "10.1.2.3"}, {"10.255.255.255:1", "10.255.255.255"},
	{"11.0.0.0:1", "11.0.0.0"}, {"192.168.7.0:9", "192.168.7.0"}, {"192.168.7.255:9", "192.168.7.255"}, {"192.168.8.0:9", "192.168.8.0"},
	{"203.0.113.77:1", "203.0.113.77"}, {"203.0.113.76:1", "203.0.113.76"}, {"0.0.0.0:1", "0.0.0.0"}, {"255.255.255.255:1", "255.255.255.255"},
	{"[::1]:80", "::1"}, {"[::2]:80", "::2"}, {"[fd00::1]:80", "fd00::1"}, {"[fdff:ffff::9]:80", "fdff:ffff::9"}, {"[fe00::1]:80", "fe00::1"},
	{"[::ffff:127.0.0.1]:80", "::ffff:127.0.0.1"}, {"[::ffff:10.1.2.3]:80", "::ffff:10.1.2.3"}, {"[2001:db8::1]:443", "2001:db8::1"},
	{"[2001:db8:0:1::]:443", "2001:db8:0:1::"}, {"[::]:1", "::"},
	// unparsable
	{"10.1.2.3", ""}, {"host.example:80", ""}, {"[fe80::1%eth0]:80", ""}, {"", ""}, {"010.1.2.3:80", ""}, {"1.2.3:80", ""},
}

var cidrs = []string{"", "127.0.0.1/8", "127.0.0.0/30", "127.9.0.0/16", "127.0.0.1/32", "10.0.0.0/8", "10.1.2.3/31", "192.168.7.0/24",
	"203.0.113.77/32", "0.0.0.0/0", "0.0.0.0/1", "::1/128", "fd00::/8", "::/0", "2001:db8::/64", "::ffff:127.0.0.0/104", "::ffff:10.1.2.0/120"}

// cidrNeighbours: the first and last address of the network, the addresses just outside it,
// and (for IPv4 networks) the IPv4-mapped IPv6 spelling of an inside address
func cidrNeighbours(cidr string) []string {
	_, ipnet, err := net.ParseCIDR(cidr)
	if err != nil {
		lib.Fatalf("cidr %q: %v", cidr, err)
	}
	base := ipnet.IP
	if v4 := base.To4(); v4 != nil {
		base = v4
	}
	mask := ipnet.Mask
	if len(mask) == 16 && len(base) == 4 {
		mask = mask[12:]
	}
	n := new(big.Int).SetBytes(base)
	ones, bits := mask.Size()
	size := new(big.Int).Lsh(big.NewInt(1), uint(bits-ones))
	last := new(big.Int).Sub(new(big.Int).Add(n, size), big.NewInt(1))
	limit := new(big.Int).Lsh(big.NewInt(1), uint(bits))
	toIP := func(v *big.Int) string {
		if v.Sign() < 0 || v.Cmp(limit) >= 0 {
			return ""
		}
		b := v.FillBytes(make([]byte, bits/8))
		return net.IP(b).String()
	}
	var out []string
	for _, v := range []*big.Int{n, last, new(big.Int).Sub(n, big.NewInt(1)), new(big.Int).Add(last, big.NewInt(1)),
		new(big.Int).Add(n, new(big.Int).Rsh(size, 1))} {
		if s := toIP(v); s != "" {
			out = append(out, s)
			if bits == 32 {
				out = append(out, "::ffff:"+s)
			}
		}
	}
	return out
}

func genConfig(r *lib.Rand, k int) C17In {
	in := C17In{Name: fmt.Sprintf("cfg-%d", k), Admins: adminLists[r.Intn(2)], Header: "", CIDR: cidrs[r.Intn(len(cidrs))],
		Mode: "L2", Pattern: "/config/:opt", IdClass: "absent"}
	in.Method = []string{"GET", "PUT", "PUT"}[r.Intn(3)]
	fillParams(r, &in)
	in.Opt = []string{"log_level", "log_level", "log_level", "nsqlookupd_http_addresses", "nsqlookupd_http_addresses", "nsqlookupd_http_addresses", "http_address", "statsd_prefix", "no_such_option",
		"admin_users", "acl_http_header", "allow_config_from_cidr", "nsqd_http_addresses"}[r.Intn(13)]
	if r.Chance(30) {
		in.Transport = "wire"
		in.LocalIP = []string{"127.0.0.1", "127.0.0.2", "127.9.8.7", "127.255.255.254", "127.0.0.3"}[r.Intn(5)]
	} else {
		in.Transport = "direct"
		rs := remotes[r.Intn(len(remotes))]
		in.Remote, in.RemoteIP = rs.remote, rs.ip
		if in.CIDR != "" && r.Chance(60) {
			// an address chosen relative to the network: first, last, just below, just above, IPv4-mapped form
			nb := cidrNeighbours(in.CIDR)
			ip := nb[r.Intn(len(nb))]
			in.Remote, in.RemoteIP = net.JoinHostPort(ip, "77"), ip
		}
	}
	if in.Method == "PUT" {
		in.BodyClass = []string{"valid", "valid", "valid", "valid", "invalid", "empty"}[r.Intn(6)]
		if r.Chance(2) {
			// over a connection a refusal could reset the 1 MiB upload in mid-flight: sent directly
			in.BodyClass = "toobig"
			if in.Transport == "wire" {
				in.Transport, in.Remote, in.RemoteIP, in.LocalIP = "direct", in.LocalIP+":4000", in.LocalIP, ""
			}
		}
		switch in.BodyClass {
		case "valid":
			if in.Opt == "nsqlookupd_http_addresses" {
				in.Body = "@reversed" // replaced by the reversed current list at run time
			} else {
				in.Body = []string{"debug", "warn", "info"}[r.Intn(3)]
			}
		case "invalid":
			in.Body = []string{"{", "loud", "[1,2"}[r.Intn(3)]
			if in.Opt == "nsqlookupd_http_addresses" {
				in.Body = []string{"{", "17", "[1,2]"}[r.Intn(3)]
			}
		}
	}
	return in
}

func runC17(o *lib.Out, r *lib.Rand, n int, replay string) {
	cl := newCluster()
	defer closeLaunched()
	run := func(in C17In) {
		if in.Body == "@reversed" {
			ls, _ := modeLists(in.Mode)
			var addrs []string
			for i := len(ls) - 1; i >= 0; i-- {
				addrs = append(addrs, cl.addr(ls[i]))
			}
			addrs = append(addrs, addrs[0]) // a different value even for a single address
			b, _ := json.Marshal(addrs)
			in2 := in
			in2.Body = string(b)
			runC17Case(o, cl, in2)
			return
		}
		runC17Case(o, cl, in)
	}
	if replay != "" {
		var ins []C17In
		lib.ReadReplay(replay, &ins)
		for _, in := range ins {
			run(in)
		}
		return
	}
	k := 0
	// (1) every state-changing route x every identity class x every admin list
	for _, rt := range mutRoutes {
		for _, idc := range idClasses {
			for ai := range adminLists {
				run(genMutating(r, k, rt, idc, ai))
				k++
			}
		}
	}
	// (2) every route x every method, with and without an admin identity
	methods := []string{"GET", "POST", "PUT", "DELETE", "OPTIONS", "HEAD", "PATCH"}
	seen := map[string]bool{}
	for _, rt := range allRoutes {
		if seen[rt.pattern] {
			continue
		}
		seen[rt.pattern] = true
		for _, m := range methods {
			for _, idc := range []string{"absent", "admin", "nonadmin"} {
				if m != "GET" && idc == "nonadmin" && r.Chance(50) {
					continue
				}
				in := C17In{Name: fmt.Sprintf("route-%d", k), Admins: adminLists[1+r.Intn(2)], Header: headerNames[r.Intn(len(headerNames))],
					CIDR: "127.0.0.1/8", Mode: modes[r.Intn(len(modes))], Method: m, Pattern: rt.pattern, IdClass: idc}
				fillParams(r, &in)
				in.Transport = "direct"
				in.Remote, in.RemoteIP = "127.0.0.1:9", "127.0.0.1"
				if r.Chance(25) && m != "HEAD" {
					in.Transport = "wire"
					in.LocalIP = "127.0.0.1"
				}
				in.Headers = identityHeaders(idc, in.Header, in.Transport)
				classes := bodyClassesFor(rt.pattern)
				if m == "POST" || m == "DELETE" || m == "PUT" {
					genBody(r, &in, classes[r.Intn(len(classes))])
				} else {
					in.BodyBad = true
				}
				if rt.pattern == "/config/:opt" && m == "PUT" {
					in.BodyClass, in.Body = "valid", "info"
				}
				genWorld(r, &in)
				if m == "GET" { // views: let the upstreams answer
					in.Lookup, in.Nsqd, in.PostFail = []string{"ok:N0,N1", "ok:N1", "ok:"}, []string{"topic", "topic", "topic", "topic"}, nil
				}
				run(in)
				k++
			}
		}
	}
	// (3) /config: client address classes x CIDRs x option / body classes
	for i := 0; i < n; i++ {
		run(genConfig(r, k))
		k++
	}
	// (4) more state-changing requests with random worlds
	for i := 0; i < n; i++ {
		rt := mutRoutes[r.Intn(len(mutRoutes))]
		idc := idClasses[r.Intn(len(idClasses))]
		if r.Chance(60) {
			idc = []string{"admin", "admin", "absent", "two-admin-first", "lead-space"}[r.Intn(5)]
		}
		ai := r.Intn(len(adminLists))
		run(genMutating(r, k, rt, idc, ai))
		k++
	}
	// (5) configuration paths: the real binary, every option x {command line, config file, both}
	extra := 0
	if n > 1000 {
		extra = n / 100
	}
	launches := genLaunches(r, extra)
	up := 0
	for _, li := range launches {
		for _, in := range launchRequests(r, &k, li) {
			run(in)
		}
		if getLaunched(cl, &li).up {
			up++
		}
	}
	// (6) run-time reconfiguration of the upstream addresses through /config, then every action
	for _, in := range genReconf(r, &k, extra) {
		run(in)
	}
	o.Stat("nsqadmin_reconfigured_instances", len(reconfAdmins))
	o.Stat("nsqadmin_instances_retired_option_not_restored", optionsNotRestored)
	o.Stat("nsqadmin_instances", len(admins))
	o.Stat("nsqadmin_launches", len(launches))
	o.Stat("nsqadmin_launches_up", up)
}
