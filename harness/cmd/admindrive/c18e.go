package main

// C18, the e2e latency aggregates (internal/quantile/aggregate.go): the blocks the stub nsqds
// serve (counts zero on some / all nodes, different percentile sets, null entries, absent and
// null blocks), what nsqadmin's topic and channel views make of them, and the real
// ChannelStats.Add called directly on blocks decoded by the real UnmarshalJSON (fresh receiver
// and first-node receiver; every zero / non-zero count pattern over 1-3 nodes against every
// percentile-set pattern).

import (
	"encoding/json"
	"fmt"
	"math"
	"math/big"
	"strconv"
	"strings"

	"github.com/nsqio/nsq/verifshim"
	"verifharness/lib"
)

// one entry of "percentiles": {"quantile": pool[Q], "value": Val} or null
type GPct struct {
	Null bool    `json:"null,omitempty"`
	Q    int     `json:"q"`
	Val  float64 `json:"val"` // a number float64 and the JSON text represent exactly
}

// "e2e_processing_latency": null | {"count": Count, "percentiles": [...] | null}
type GE2e struct {
	Null   bool   `json:"null,omitempty"`
	Count  int64  `json:"count"`
	Pcts   []GPct `json:"pcts,omitempty"`
	NoPcts bool   `json:"no_pcts,omitempty"`
}

var quantilePool = []struct {
	Text     string
	Num, Den int64
}{{"0.99", 99, 100}, {"0.5", 1, 2}, {"0.95", 95, 100}, {"0.999", 999, 1000}, {"1", 1, 1}, {"0", 0, 1}}

func fmtVal(v float64) string { return strconv.FormatFloat(v, 'f', -1, 64) }

func (e *GE2e) doc() string {
	if e.NoPcts {
		return fmt.Sprintf(`{"count":%d,"percentiles":null}`, e.Count)
	}
	var ps []string
	for _, p := range e.Pcts {
		if p.Null {
			ps = append(ps, "null")
		} else {
			ps = append(ps, fmt.Sprintf(`{"quantile":%s,"value":%s}`, quantilePool[p.Q].Text, fmtVal(p.Val)))
		}
	}
	return fmt.Sprintf(`{"count":%d,"percentiles":[%s]}`, e.Count, strings.Join(ps, ","))
}

func e2eJSON(e *GE2e) string {
	if e == nil {
		return ""
	}
	if e.Null {
		return `,"e2e_processing_latency":null`
	}
	return `,"e2e_processing_latency":` + e.doc()
}

// an exact rational of a finite float64
func coqQ(f float64) string {
	r := new(big.Rat).SetFloat64(f)
	if r == nil {
		return "(qq 0 1)"
	}
	if r.Sign() < 0 {
		return fmt.Sprintf("(qq (%s) %s)", r.Num().String(), r.Denom().String())
	}
	return fmt.Sprintf("(qq %s %s)", r.Num().String(), r.Denom().String())
}

func coqE2e(e *GE2e) string {
	if e == nil || e.Null {
		return "None"
	}
	var ps []string
	if !e.NoPcts {
		for _, p := range e.Pcts {
			if p.Null {
				ps = append(ps, "None")
			} else {
				q := quantilePool[p.Q]
				ps = append(ps, fmt.Sprintf("(Some (mkPct (qq %d %d) %s))", q.Num, q.Den, coqQ(p.Val)))
			}
		}
	}
	return fmt.Sprintf("(Some (mkE2e %s [%s]))", zs(e.Count), strings.Join(ps, ";"))
}

// ---- what came back
type e2eResp struct {
	Count       int64                `json:"count"`
	Percentiles []map[string]float64 `json:"percentiles"`
}

// the quantile as the rational its JSON text stands for (the code compares the float64s)
func quantileTerm(f float64) string {
	for _, q := range quantilePool {
		if v, _ := strconv.ParseFloat(q.Text, 64); v == f {
			return fmt.Sprintf("(qq %d %d)", q.Num, q.Den)
		}
	}
	return coqQ(f)
}

func finite(f float64) bool { return !math.IsNaN(f) && !math.IsInf(f, 0) }

// term of an aggregate, and whether every number in it is finite
func obsE2e(count int64, pcts []map[string]float64) (string, bool) {
	ok := true
	var ps []string
	for _, m := range pcts {
		if m == nil {
			continue
		}
		num := func(k string) string {
			if !finite(m[k]) {
				ok = false
				return "(qq 0 1)"
			}
			return coqQ(m[k])
		}
		q := "(qq 0 1)"
		if finite(m["quantile"]) {
			q = quantileTerm(m["quantile"])
		} else {
			ok = false
		}
		ps = append(ps, fmt.Sprintf("(mkOP %s %s %s %s)", q, num("max"), num("count"), num("average")))
	}
	return fmt.Sprintf("(OE %s [%s])", zs(count), strings.Join(ps, ";")), ok
}

func obsE2eTerm(e *e2eResp) string {
	if e == nil {
		return "OENone"
	}
	t, _ := obsE2e(e.Count, e.Percentiles)
	return t
}

// ---- generator
var genIdle, genNullish bool
var genPctSet = []int{0, 1}

var e2eCountPool = []int64{1, 1, 3, 7, 1000, 1 << 31, 1 << 40, 1 << 50}
var e2eValPool = []float64{0, 1, 400, 1200, 1200.5, 0.5, 1 << 31, 1<<40 + 1, 1<<53 - 1, 123456789, 60e9}

func genPercentileSet(r *lib.Rand) []int {
	if r.Chance(55) {
		return []int{0, 1}
	}
	k := 1 + r.Intn(4)
	perm := []int{0, 1, 2, 3, 4, 5}
	for i := len(perm) - 1; i > 0; i-- {
		j := r.Intn(i + 1)
		perm[i], perm[j] = perm[j], perm[i]
	}
	return perm[:k]
}

func genVal(r *lib.Rand) float64 {
	if r.Chance(60) {
		return float64(r.Intn(5000))
	}
	return e2eValPool[r.Intn(len(e2eValPool))]
}

// e2eNulls: does a block carry null entries
func e2eNulls(b *GE2e) bool {
	if b == nil || b.Null {
		return false
	}
	for _, p := range b.Pcts {
		if p.Null {
			return true
		}
	}
	return false
}

// a block as a node of the current cluster serves it: mostly the cluster's percentile set,
// sometimes another (a node configured differently), in any order; the window empty (count 0)
// on every node of an idle cluster and on a good share of the nodes otherwise
func genE2e(r *lib.Rand, repeats bool) *GE2e {
	switch {
	case r.Chance(22):
		return nil
	case r.Chance(8):
		return &GE2e{Null: true}
	}
	e := &GE2e{}
	if !genIdle && !r.Chance(40) {
		e.Count = e2eCountPool[r.Intn(len(e2eCountPool))]
	}
	if r.Chance(5) {
		e.NoPcts = true
		return e
	}
	set := genPctSet
	if r.Chance(25) {
		set = genPercentileSet(r)
	}
	if r.Chance(5) {
		set = nil
	}
	for _, q := range set {
		v := genVal(r)
		if e.Count == 0 && r.Chance(70) {
			v = 0 // what a real nsqd reports for an empty window
		}
		e.Pcts = append(e.Pcts, GPct{Q: q, Val: v})
	}
	if repeats && len(set) > 0 && r.Chance(6) { // the same quantile twice
		e.Pcts = append(e.Pcts, GPct{Q: set[0], Val: genVal(r)})
	}
	// null entries (the decoder drops them): one or two among the real ones, or nothing but nulls;
	// in a "nullish" cluster every block has them (the same channel on many nodes, all with nulls)
	switch {
	case r.Chance(4):
		e.Pcts = []GPct{{Null: true}, {Null: true}}[:1+r.Intn(2)]
	case genNullish || r.Chance(12):
		for k := 1 + r.Intn(2); k > 0; k-- {
			at := r.Intn(len(e.Pcts) + 1)
			e.Pcts = append(e.Pcts[:at:at], append([]GPct{{Null: true}}, e.Pcts[at:]...)...)
		}
	}
	return e
}

// tags: the blocks behind the aggregates of a view
func (e *viewEnv) e2eTags(topic, channel string) []string {
	blocks, zero, positive, withNulls := 0, 0, 0, 0
	sets := map[string]bool{}
	see := func(b *GE2e) {
		if b == nil || b.Null {
			return
		}
		blocks++
		if e2eNulls(b) {
			withNulls++
		}
		if b.Count == 0 {
			zero++
		} else {
			positive++
		}
		var qs []string
		for _, p := range b.Pcts {
			if p.Null {
				qs = append(qs, "null")
			} else {
				qs = append(qs, quantilePool[p.Q].Text)
			}
		}
		sets[strings.Join(qs, ",")] = true
	}
	for _, n := range e.g.N {
		if n.statsFail() {
			continue
		}
		for _, t := range n.servedTopics(topic, channel) {
			if t.Null || t.Name != topic {
				continue
			}
			if channel == "" {
				see(t.E2e)
			}
			for _, c := range t.Channels {
				if !c.Null && (channel == "" || c.Name == channel) {
					see(c.E2e)
				}
			}
		}
	}
	total := "none"
	switch {
	case blocks > 0 && positive == 0:
		total = "all-zero"
	case zero > 0:
		total = "some-zero"
	case blocks > 0:
		total = "all-positive"
	}
	nb := strconv.Itoa(blocks)
	if blocks > 4 {
		nb = "5+"
	}
	nulls := "none"
	switch {
	case withNulls > 0 && withNulls == blocks:
		nulls = "all-blocks"
	case withNulls > 1:
		nulls = "several-blocks"
	case withNulls == 1:
		nulls = "one-block"
	}
	return []string{"e2e_blocks=" + nb, "e2e_counts=" + total, fmt.Sprintf("e2e_percentile_sets=%d", len(sets)), "e2e_null_entries=" + nulls}
}

// ---- the real Add, directly
func realE2e(b *GE2e) *verifshim.E2eAggregate {
	if b == nil || b.Null {
		return nil
	}
	var agg verifshim.E2eAggregate
	if err := json.Unmarshal([]byte(b.doc()), &agg); err != nil { // the real UnmarshalJSON
		lib.Fatalf("e2e block %s: %v", b.doc(), err)
	}
	return &agg
}

func runE2eAdd(o *lib.Out, in AddIn) {
	var acc *verifshim.ChannelStats
	panicked := false
	func() {
		defer func() {
			if recover() != nil {
				panicked = true
			}
		}()
		for i, b := range in.Blocks {
			cs := &verifshim.ChannelStats{ChannelName: "c", E2eProcessingLatency: realE2e(b)}
			if i == 0 && in.Raw {
				acc = cs // TopicStats.Add: t.Channels = append(t.Channels, aChannelStats)
				if in.HandNil > 0 && cs.E2eProcessingLatency != nil {
					// nil maps no decoder produces: put there by hand
					cs.E2eProcessingLatency.Percentiles = append(make([]map[string]float64, in.HandNil), cs.E2eProcessingLatency.Percentiles...)
				}
				continue
			}
			if acc == nil {
				acc = &verifshim.ChannelStats{ChannelName: "c"} // GetNSQDStats: channelStatsMap[key] = &ChannelStats{...}
			}
			acc.Add(cs)
		}
	}()
	got, fin := "OENone", true
	if !panicked && acc != nil && acc.E2eProcessingLatency != nil {
		got, fin = obsE2e(int64(acc.E2eProcessingLatency.Count), acc.E2eProcessingLatency.Percentiles)
		if fin {
			// what nsqadmin would do with it
			if _, err := json.Marshal(acc.E2eProcessingLatency); err != nil {
				fin = false
			}
		}
	}
	var terms []string
	zero, positive, negative, nulls := 0, 0, 0, false
	sets := map[string]bool{}
	for _, b := range in.Blocks {
		terms = append(terms, coqE2e(b))
		if b == nil || b.Null {
			continue
		}
		switch {
		case b.Count == 0:
			zero++
		case b.Count > 0:
			positive++
		default:
			negative++
		}
		var qs []string
		for _, p := range b.Pcts {
			if p.Null {
				nulls = true
				qs = append(qs, "null")
			} else {
				qs = append(qs, quantilePool[p.Q].Text)
			}
		}
		sets[strings.Join(qs, ",")] = true
	}
	counts := "none"
	switch {
	case negative > 0:
		counts = "negative"
	case zero > 0 && positive == 0:
		counts = "all-zero"
	case zero > 0:
		counts = "some-zero"
	case positive > 0:
		counts = "all-positive"
	}
	handNil := 0
	if in.Raw && len(in.Blocks) > 0 && in.Blocks[0] != nil && !in.Blocks[0].Null {
		handNil = in.HandNil
	}
	coq := fmt.Sprintf("(J18.CE2eAdd %s %s [%s] %s %s %s)", lib.CoqBool(in.Raw), lib.CoqNat(handNil), strings.Join(terms, ";"), lib.CoqBool(panicked), lib.CoqBool(!fin), got)
	o.Emit(lib.Case{Name: in.Name, Coq: coq, Input: in, Nontrivial: true,
		Tags: []string{"fn=e2eadd", fmt.Sprintf("raw_receiver=%v", in.Raw), fmt.Sprintf("nodes=%d", len(in.Blocks)), "e2e_counts=" + counts,
			fmt.Sprintf("e2e_percentile_sets=%d", len(sets)), fmt.Sprintf("null_entries=%v", nulls), fmt.Sprintf("hand_made_nil_maps=%d", handNil), fmt.Sprintf("panicked=%v", panicked), fmt.Sprintf("finite=%v", fin)},
		Obs: map[string]interface{}{"panicked": panicked, "finite": fin}})
}

// every zero / non-zero count pattern over 1-3 nodes x how the nodes' percentile sets relate
// x fresh or first-node receiver; then many nodes; then random blocks (negative counts, null
// entries, repeated quantiles, absent blocks)
func e2eMatrix(r *lib.Rand, n int) []AddIn {
	var ins []AddIn
	setsOf := func(kind string, i int) []int {
		switch kind {
		case "same":
			return []int{0, 1}
		case "subset": // later nodes know fewer / more percentiles
			if i%2 == 1 {
				return []int{1}
			}
			return []int{0, 1, 2}
		case "disjoint":
			return [][]int{{0}, {1}, {2, 5}}[i%3]
		case "reordered":
			if i%2 == 1 {
				return []int{1, 0}
			}
			return []int{0, 1}
		}
		return nil // "empty": no entries at all
	}
	for nodes := 1; nodes <= 3; nodes++ {
		for mask := 0; mask < 1<<uint(nodes); mask++ {
			for _, kind := range []string{"same", "subset", "disjoint", "reordered", "empty"} {
				for _, raw := range []bool{false, true} {
					in := AddIn{Kind: "e2eadd", Raw: raw, Name: fmt.Sprintf("e2e-%dn-z%d-%s-raw%v", nodes, mask, kind, raw)}
					for i := 0; i < nodes; i++ {
						b := &GE2e{}
						if mask&(1<<uint(i)) == 0 {
							b.Count = e2eCountPool[r.Intn(len(e2eCountPool))]
						}
						for _, q := range setsOf(kind, i) {
							v := genVal(r)
							if b.Count == 0 && r.Chance(50) {
								v = 0
							}
							b.Pcts = append(b.Pcts, GPct{Q: q, Val: v})
						}
						in.Blocks = append(in.Blocks, b)
					}
					ins = append(ins, in)
				}
			}
		}
	}
	for k := 0; k < 6; k++ { // many nodes, a zero window now and then, an absent block in between
		in := AddIn{Kind: "e2eadd", Raw: k%2 == 1, Name: fmt.Sprintf("e2e-many-%d", k)}
		for i := 0; i < 5+k; i++ {
			if i == 2 {
				in.Blocks = append(in.Blocks, nil)
				continue
			}
			b := &GE2e{Count: []int64{0, 3, 0, 1 << 31, 7}[(i+k)%5]}
			if k == 0 {
				b.Count = 0
			}
			for _, q := range []int{0, 1} {
				b.Pcts = append(b.Pcts, GPct{Q: q, Val: genVal(r)})
			}
			in.Blocks = append(in.Blocks, b)
		}
		ins = append(ins, in)
	}
	// null entries are dropped by the decoder, whatever the receiver: all-null lists on every
	// node (F19), a null entry against a quantile-0 entry (F19), nulls mixed with real entries;
	// the same with a nil map put into the first-node receiver by hand -- an element for
	// quantile 0 selects it and the assignment panics, any other does not
	null, half, zeroQ := GPct{Null: true}, GPct{Q: 1, Val: 400}, GPct{Q: 5, Val: 7}
	for i, bl := range [][]*GE2e{
		{{Count: 1, Pcts: []GPct{null}}, {Count: 1, Pcts: []GPct{null}}},
		{{Count: 1, Pcts: []GPct{null, half}}, {Count: 2, Pcts: []GPct{half}}},
		{{Count: 1, Pcts: []GPct{null}}, {Count: 1, Pcts: []GPct{zeroQ}}},
		{{Count: 0, Pcts: []GPct{half, null}}, {Count: 0, Pcts: []GPct{null, zeroQ}}, {Count: 3, Pcts: []GPct{zeroQ, half}}},
		{{Count: 2, Pcts: []GPct{half}}, {Count: 1, Pcts: []GPct{null}}},
		{{Count: 1, Pcts: []GPct{null, null}}, {Count: 0, Pcts: []GPct{null}}, {Count: 4, Pcts: []GPct{null, null}}},
	} {
		for _, raw := range []bool{false, true} {
			ins = append(ins, AddIn{Kind: "e2eadd", Raw: raw, Blocks: bl, Name: fmt.Sprintf("e2e-null-%d-raw%v", i, raw)})
		}
		ins = append(ins, AddIn{Kind: "e2eadd", Raw: true, HandNil: 1 + i%2, Blocks: bl, Name: fmt.Sprintf("e2e-handnil-%d", i)})
	}
	for k := 0; k < n; k++ {
		in := AddIn{Kind: "e2eadd", Raw: r.Bool(), Name: fmt.Sprintf("e2e-rand-%d", k)}
		genIdle, genNullish, genPctSet = r.Chance(25), r.Chance(20), genPercentileSet(r)
		neg := r.Chance(25)
		for i := r.Intn(5); i >= 0; i-- {
			b := genE2e(r, !in.Raw)
			if neg && b != nil && !b.Null && r.Chance(50) {
				// counts are not validated by the decoder: small negative ones
				b.Count = -int64(1 + r.Intn(3))
				for j := range b.Pcts {
					b.Pcts[j].Val = float64(r.Intn(1000))
				}
			}
			in.Blocks = append(in.Blocks, b)
		}
		if neg {
			for _, b := range in.Blocks {
				if b != nil && b.Count > 3 {
					b.Count = int64(1 + r.Intn(3))
				}
				if b != nil {
					for j := range b.Pcts {
						b.Pcts[j].Val = float64(r.Intn(1000))
					}
				}
			}
		}
		ins = append(ins, in)
	}
	return ins
}

// ---- recorded witnesses for the view profile (also in corpus/C18.json)
// F19 (repaired by dc56edf): null percentile entries in the blocks of a channel several nodes
// (or one node twice) have -- the topic view's merge assigned into the nil map the first
// block kept and nsqadmin answered 500.  Now: 200 and the aggregate of the non-null entries.
type viewWitness struct {
	g     GCluster
	views []string
}

func viewWitnesses() []viewWitness {
	null := GPct{Null: true}
	blk := func(count int64, ps ...GPct) *GE2e { return &GE2e{Count: count, Pcts: ps} }
	node := func(host string, chans ...GChan) GNsqd {
		return GNsqd{Hostname: host, Topics: []GTopic{{Name: "orders", Num: [6]int64{5, 1, 9, 0, 0, 0}, Channels: chans, E2e: blk(1, null)}}}
	}
	ch := func(e *GE2e) GChan { return GChan{Name: "ch", Num: [11]int64{2, 0, 1, 0, 0, 0, 7, 0, 0, 0, 1}, E2e: e} }
	prods := func(ns ...string) []GProducer {
		var ps []GProducer
		for i, n := range ns {
			ps = append(ps, GProducer{Node: n, Hostname: fmt.Sprintf("w%d", i), Remote: fmt.Sprintf("10.7.0.%d:4150", i), Topics: []string{"orders"}, Tombs: []bool{false}})
		}
		return ps
	}
	var ws []viewWitness
	// two nodes, both "percentiles":[null] for the same channel (direct mode)
	g := GCluster{Name: "F19-two-nodes-null-percentiles", Nsqds: []string{"N0", "N1"}, Topic: "orders", Channel: "ch", Node: "N0"}
	g.N[0], g.N[1] = node("w0", ch(blk(1, null))), node("w1", ch(blk(1, null)))
	ws = append(ws, viewWitness{g, []string{"topic", "channel"}})
	// a null entry in the first block, an entry for quantile 0 in the other (lookupd mode), both orders of the nodes
	g = GCluster{Name: "F19-null-entry-and-quantile-0", Lookupds: []string{"L0"}, Topic: "orders", Channel: "ch", Node: "N0"}
	g.N[0] = node("w0", ch(blk(1, null, GPct{Q: 1, Val: 400})))
	g.N[1] = node("w1", ch(blk(2, GPct{Q: 5, Val: 7})))
	g.N[2] = node("w2", ch(blk(0, null, null)))
	g.L[0].Producers = prods("N0", "N1", "N2")
	ws = append(ws, viewWitness{g, []string{"topic", "channel"}})
	g.Name = "F19-quantile-0-and-null-entry"
	g.N[0], g.N[1] = g.N[1], g.N[0]
	ws = append(ws, viewWitness{g, []string{"topic", "channel"}})
	// one node listing the channel twice, null entries in both
	g = GCluster{Name: "F19-one-node-channel-twice", Nsqds: []string{"N0"}, Topic: "orders", Channel: "ch", Node: "N0"}
	g.N[0] = node("w0", ch(blk(3, null, GPct{Q: 0, Val: 1200})), ch(blk(0, null)))
	ws = append(ws, viewWitness{g, []string{"topic", "channel"}})
	return ws
}
