package main

// Recording stub upstreams for nsqadmin: one HTTP server plays an nsqlookupd or an
// nsqd depending on what it is asked; its behaviour is (re)configured per case.

import (
	"encoding/json"
	"fmt"
	"net"
	"net/http"
	"net/url"
	"sort"
	"strconv"
	"strings"
	"sync"
	"syscall"
)

// ---- what nsqadmin asked the stubs

type Call struct {
	Seq     int    `json:"seq"`
	Kind    string `json:"kind"` // GET | POST
	Addr    string `json:"addr"`
	Path    string `json:"path"` // without the leading slash: lookup, stats, info, topic/delete, ...
	Topic   string `json:"topic"`
	Channel string `json:"channel"`
	Node    string `json:"node"`
	Query   string `json:"query"`
}

type Recorder struct {
	mu    sync.Mutex
	calls []Call
}

func (r *Recorder) add(c Call) {
	r.mu.Lock()
	c.Seq = len(r.calls)
	r.calls = append(r.calls, c)
	r.mu.Unlock()
}
func (r *Recorder) Reset() { r.mu.Lock(); r.calls = nil; r.mu.Unlock() }
func (r *Recorder) Take() []Call {
	r.mu.Lock()
	defer r.mu.Unlock()
	c := r.calls
	r.calls = nil
	return c
}

// ---- upstream data (JSON shapes of the real daemons; pointers = optional fields)

type ClientJSON struct {
	ClientID      string `json:"client_id"`
	Hostname      string `json:"hostname"`
	RemoteAddress string `json:"remote_address"`
	Version       string `json:"version,omitempty"`
	UserAgent     string `json:"user_agent,omitempty"`
	ConnectTs     int64  `json:"connect_ts"`
	InFlightCount int64  `json:"in_flight_count"`
	ReadyCount    int64  `json:"ready_count"`
	FinishCount   int64  `json:"finish_count"`
	RequeueCount  int64  `json:"requeue_count"`
	MessageCount  int64  `json:"message_count"`
}

type E2eJSON struct {
	Count       int                  `json:"count"`
	Percentiles []map[string]float64 `json:"percentiles"`
}

type ChannelJSON struct {
	ChannelName   string       `json:"channel_name"`
	Depth         int64        `json:"depth"`
	BackendDepth  int64        `json:"backend_depth"`
	MemoryDepth   *int64       `json:"memory_depth,omitempty"` // overwritten by nsqadmin
	InFlightCount int64        `json:"in_flight_count"`
	DeferredCount int64        `json:"deferred_count"`
	MessageCount  int64        `json:"message_count"`
	RequeueCount  int64        `json:"requeue_count"`
	TimeoutCount  int64        `json:"timeout_count"`
	ZoneLocal     int64        `json:"zone_local_msg_count,omitempty"`
	RegionLocal   int64        `json:"region_local_msg_count,omitempty"`
	Global        int64        `json:"global_msg_count,omitempty"`
	DeliveryCount *int64       `json:"delivery_msg_count,omitempty"` // overwritten by nsqadmin
	ClientCount   int64        `json:"client_count"`
	Clients       []ClientJSON `json:"clients"`
	Paused        bool         `json:"paused"`
	E2e           *E2eJSON     `json:"e2e_processing_latency,omitempty"`
	OmitClients   bool         `json:"-"` // leave "clients" out altogether
}

type TopicJSON struct {
	TopicName    string        `json:"topic_name"`
	Channels     []ChannelJSON `json:"channels"`
	Depth        int64         `json:"depth"`
	BackendDepth int64         `json:"backend_depth"`
	MessageCount int64         `json:"message_count"`
	ZoneLocal    int64         `json:"zone_local_msg_count,omitempty"`
	RegionLocal  int64         `json:"region_local_msg_count,omitempty"`
	Global       int64         `json:"global_msg_count,omitempty"`
	Paused       bool          `json:"paused"`
	E2e          *E2eJSON      `json:"e2e_processing_latency,omitempty"`
}

type ProducerJSON struct {
	RemoteAddress    string   `json:"remote_address"`
	Hostname         string   `json:"hostname"`
	BroadcastAddress string   `json:"broadcast_address"`
	TCPPort          int      `json:"tcp_port"`
	HTTPPort         int      `json:"http_port"`
	Version          string   `json:"version"`
	Topics           []string `json:"topics"`
	Tombstones       []bool   `json:"tombstones"`
}

// behaviour of one stub for the current case
type Behaviour struct {
	// failure classes: "" (answer), "500", "garbage" (200 + not JSON), "wrongtype" (200 + JSON of the wrong shape)
	Fail string `json:"fail,omitempty"`
	// nsqlookupd side
	Producers []ProducerJSON      `json:"producers,omitempty"` // /nodes; /lookup lists those that have the topic
	Topics    []string            `json:"topics,omitempty"`    // /topics (nil: derived from the producers)
	Channels  map[string][]string `json:"channels,omitempty"`  // /channels?topic=
	RawNodes  string              `json:"raw_nodes,omitempty"` // served verbatim for /nodes and /lookup
	// nsqd side
	InfoFail  bool        `json:"info_fail,omitempty"`
	StatsFail bool        `json:"stats_fail,omitempty"`
	Info      *InfoJSON   `json:"info,omitempty"`
	Stats     []TopicJSON `json:"stats,omitempty"`
	RawStats  string      `json:"raw_stats,omitempty"` // served verbatim for /stats
	IgnoreTopicFilter bool `json:"ignore_topic_filter,omitempty"` // answer every topic even when ?topic= is given
	// POSTs (admin actions)
	PostFail bool `json:"post_fail,omitempty"`
	// C18: documents computed per request (they take precedence when set)
	StatsFn  func(topic, channel string, includeClients bool) string `json:"-"`
	NodesFn  func() string                                         `json:"-"`
	LookupFn func(topic string) string                             `json:"-"`
	TopicsFn func() string                                         `json:"-"`
	InfoFn   func() string                                         `json:"-"`
}

type InfoJSON struct {
	Version          string `json:"version"`
	BroadcastAddress string `json:"broadcast_address"`
	Hostname         string `json:"hostname"`
	HTTPPort         int    `json:"http_port"`
	TCPPort          int    `json:"tcp_port"`
}

type Stub struct {
	Addr   string
	Port   int
	Shadow int // a port of its own at which connections are refused
	ln   net.Listener
	rec  *Recorder
	mu   sync.Mutex
	b    Behaviour
}

func NewStub(rec *Recorder) *Stub {
	ln, err := net.Listen("tcp", "127.0.0.1:0")
	if err != nil {
		panic(err)
	}
	s := &Stub{Addr: ln.Addr().String(), Port: ln.Addr().(*net.TCPAddr).Port, ln: ln, rec: rec}
	_, sp, _ := net.SplitHostPort(DeadAddr())
	s.Shadow, _ = strconv.Atoi(sp)
	srv := &http.Server{Handler: http.HandlerFunc(s.serve)}
	go srv.Serve(ln)
	return s
}

// DeadAddr: a loopback address at which connections are refused for as long as this
// process lives: the socket is bound (so nobody else can get the port) but never listens.
var deadSockets []int

func DeadAddr() string {
	fd, err := syscall.Socket(syscall.AF_INET, syscall.SOCK_STREAM, 0)
	if err != nil {
		panic(err)
	}
	if err := syscall.Bind(fd, &syscall.SockaddrInet4{Port: 0, Addr: [4]byte{127, 0, 0, 1}}); err != nil {
		panic(err)
	}
	sa, err := syscall.Getsockname(fd)
	if err != nil {
		panic(err)
	}
	deadSockets = append(deadSockets, fd)
	return "127.0.0.1:" + strconv.Itoa(sa.(*syscall.SockaddrInet4).Port)
}

func (s *Stub) Set(b Behaviour) { s.mu.Lock(); s.b = b; s.mu.Unlock() }
func (s *Stub) Close()          { s.ln.Close() }

func has(xs []string, x string) bool {
	for _, y := range xs {
		if x == y {
			return true
		}
	}
	return false
}

func (s *Stub) serve(w http.ResponseWriter, r *http.Request) {
	s.mu.Lock()
	b := s.b
	s.mu.Unlock()
	q, _ := url.ParseQuery(r.URL.RawQuery)
	path := strings.TrimPrefix(r.URL.Path, "/")
	s.rec.add(Call{Kind: r.Method, Addr: s.Addr, Path: path, Topic: q.Get("topic"), Channel: q.Get("channel"), Node: q.Get("node"), Query: r.URL.RawQuery})
	reply := func(code int, body string) {
		w.Header().Set("Content-Type", "application/json")
		w.Header().Set("Content-Length", strconv.Itoa(len(body)))
		w.WriteHeader(code)
		w.Write([]byte(body))
	}
	js := func(v interface{}) {
		out, err := json.Marshal(v)
		if err != nil {
			reply(500, `{"message":"stub marshal"}`)
			return
		}
		reply(200, string(out))
	}
	if r.Method == "POST" {
		if b.PostFail || b.Fail != "" {
			reply(500, `{"message":"STUB_POST_FAILED"}`)
			return
		}
		reply(200, "{}")
		return
	}
	failed := func(extra bool) bool {
		switch {
		case b.Fail == "500" || extra:
			reply(500, `{"message":"STUB_INTERNAL_ERROR"}`)
		case b.Fail == "garbage":
			reply(200, "<html>not json")
		case b.Fail == "wrongtype":
			reply(200, `{"topics":17,"producers":"x","channels":{"a":1}}`)
		case b.Fail == "404":
			reply(404, `{"message":"NOT_FOUND"}`)
		default:
			return false
		}
		return true
	}
	switch path {
	case "ping":
		reply(200, "OK")
	case "info":
		if failed(b.InfoFail) {
			return
		}
		if b.InfoFn != nil {
			reply(200, b.InfoFn())
			return
		}
		if b.Info != nil {
			js(b.Info)
		} else {
			js(InfoJSON{Version: "1.3.0", BroadcastAddress: "127.0.0.1", Hostname: "stub-" + strconv.Itoa(s.Port), HTTPPort: s.Port, TCPPort: s.Port + 1})
		}
	case "stats":
		if failed(b.StatsFail) {
			return
		}
		if b.StatsFn != nil {
			reply(200, b.StatsFn(q.Get("topic"), q.Get("channel"), q.Get("include_clients") != "false"))
			return
		}
		if b.RawStats != "" {
			reply(200, b.RawStats)
			return
		}
		reply(200, renderStats(b.Stats, q.Get("topic"), q.Get("channel"), q.Get("include_clients") != "false", b.IgnoreTopicFilter))
	case "topics":
		if failed(false) {
			return
		}
		if b.TopicsFn != nil {
			reply(200, b.TopicsFn())
			return
		}
		ts := b.Topics
		if ts == nil {
			seen := map[string]bool{}
			for _, p := range b.Producers {
				for _, t := range p.Topics {
					if !seen[t] {
						seen[t] = true
						ts = append(ts, t)
					}
				}
			}
		}
		if ts == nil {
			ts = []string{}
		}
		js(map[string]interface{}{"topics": ts})
	case "channels":
		if failed(false) {
			return
		}
		cs := b.Channels[q.Get("topic")]
		if cs == nil {
			cs = []string{}
		}
		js(map[string]interface{}{"channels": cs})
	case "nodes":
		if failed(false) {
			return
		}
		if b.NodesFn != nil {
			reply(200, b.NodesFn())
			return
		}
		if b.RawNodes != "" {
			reply(200, b.RawNodes)
			return
		}
		ps := b.Producers
		if ps == nil {
			ps = []ProducerJSON{}
		}
		js(map[string]interface{}{"producers": ps})
	case "lookup":
		if failed(false) {
			return
		}
		if b.LookupFn != nil {
			reply(200, b.LookupFn(q.Get("topic")))
			return
		}
		if b.RawNodes != "" {
			reply(200, b.RawNodes)
			return
		}
		t := q.Get("topic")
		ps := []ProducerJSON{}
		for _, p := range b.Producers {
			for i, pt := range p.Topics {
				if pt == t && !(i < len(p.Tombstones) && p.Tombstones[i]) {
					ps = append(ps, p)
					break
				}
			}
		}
		cs := b.Channels[t]
		if cs == nil {
			cs = []string{}
		}
		if len(ps) == 0 && !has(b.Topics, t) && b.Channels[t] == nil {
			reply(404, `{"message":"TOPIC_NOT_FOUND"}`)
			return
		}
		js(map[string]interface{}{"channels": cs, "producers": ps})
	default:
		reply(404, `{"message":"NOT_FOUND"}`)
	}
}

// renderStats writes the /stats document by hand so that optional fields can be left out.
func renderStats(topics []TopicJSON, topic, channel string, includeClients, ignoreFilter bool) string {
	var ts []string
	for _, t := range topics {
		if topic != "" && t.TopicName != topic && !ignoreFilter {
			continue
		}
		var cs []string
		for _, c := range t.Channels {
			if topic != "" && channel != "" && c.ChannelName != channel && !ignoreFilter {
				continue
			}
			cc := c
			if !includeClients {
				cc.Clients = []ClientJSON{}
			}
			if cc.Clients == nil {
				cc.Clients = []ClientJSON{}
			}
			out, _ := json.Marshal(cc)
			s := string(out)
			if c.OmitClients {
				var m map[string]json.RawMessage
				json.Unmarshal(out, &m)
				delete(m, "clients")
				keys := make([]string, 0, len(m))
				for k := range m {
					keys = append(keys, k)
				}
				sort.Strings(keys)
				var parts []string
				for _, k := range keys {
					parts = append(parts, fmt.Sprintf("%q:%s", k, m[k]))
				}
				s = "{" + strings.Join(parts, ",") + "}"
			}
			cs = append(cs, s)
		}
		tt := t
		tt.Channels = nil
		out, _ := json.Marshal(tt)
		var m map[string]json.RawMessage
		json.Unmarshal(out, &m)
		m["channels"] = json.RawMessage("[" + strings.Join(cs, ",") + "]")
		keys := make([]string, 0, len(m))
		for k := range m {
			keys = append(keys, k)
		}
		sort.Strings(keys)
		var parts []string
		for _, k := range keys {
			parts = append(parts, fmt.Sprintf("%q:%s", k, m[k]))
		}
		ts = append(ts, "{"+strings.Join(parts, ",")+"}")
	}
	return `{"version":"1.3.0","health":"OK","start_time":1,"topics":[` + strings.Join(ts, ",") + `]}`
}
