// admindrive: correspondence driver for C17 (admin identity / CIDR gate) and C18
// (cluster view = sum of its parts).  Runs the REAL nsqadmin (package nsqadmin in-process
// with a real listener; the real apps/nsqadmin binary as a subprocess for the hostile
// stream) in front of recording stub nsqd / nsqlookupd upstreams.
package main

import (
	"bufio"
	"bytes"
	"encoding/json"
	"flag"
	"fmt"
	"io"
	"log"
	"math/big"
	"net"
	"net/http"
	"net/http/httptest"
	"os"
	"os/exec"
	"sort"
	"strings"
	"time"

	"github.com/nsqio/nsq/nsqadmin"
	"verifharness/lib"
)

// ---------------------------------------------------------------- real nsqadmin instances

type AdminCfg struct {
	Admins   []string `json:"admins"`
	Header   string   `json:"header"`
	CIDR     string   `json:"cidr"`
	Lookupds []string `json:"lookupds"`
	Nsqds    []string `json:"nsqds"`
}

func (c AdminCfg) key() string {
	return strings.Join(c.Admins, "\x00") + "|" + c.Header + "|" + c.CIDR + "|" + strings.Join(c.Lookupds, ",") + "|" + strings.Join(c.Nsqds, ",")
}

type Admin struct {
	cfg  AdminCfg
	n    *nsqadmin.NSQAdmin
	srv  http.Handler // the real router + handlers, for requests with a synthetic RemoteAddr
	addr string
}

var admins = map[string]*Admin{}

func getAdmin(cfg AdminCfg) *Admin {
	if a, ok := admins[cfg.key()]; ok {
		return a
	}
	a := newAdmin(cfg)
	admins[cfg.key()] = a
	return a
}

// newAdmin: a fresh in-process nsqadmin (the caller registers it in admins under its own key)
func newAdmin(cfg AdminCfg) *Admin {
	opts := nsqadmin.NewOptions()
	opts.Logger = log.New(io.Discard, "", 0)
	opts.LogLevel = 4
	opts.HTTPAddress = "127.0.0.1:0"
	opts.NSQLookupdHTTPAddresses = append([]string{}, cfg.Lookupds...)
	opts.NSQDHTTPAddresses = append([]string{}, cfg.Nsqds...)
	opts.AdminUsers = append([]string{}, cfg.Admins...)
	if cfg.Header != "" {
		opts.ACLHTTPHeader = cfg.Header
	}
	opts.AllowConfigFromCIDR = cfg.CIDR
	opts.HTTPClientConnectTimeout = 2 * time.Second
	opts.HTTPClientRequestTimeout = 5 * time.Second
	n, err := nsqadmin.New(opts)
	if err != nil {
		lib.Fatalf("nsqadmin.New(%+v): %v", cfg, err)
	}
	go n.Main()
	return &Admin{cfg: cfg, n: n, srv: nsqadmin.NewHTTPServer(n), addr: n.RealHTTPAddr().String()}
}

// retireAdmin: the instance is taken out of the cache (it is still closed at the end)
func retireAdmin(a *Admin) {
	for k, b := range admins {
		if a == b {
			delete(admins, k)
			admins[fmt.Sprintf("retired-%d|%s", len(admins), k)] = a
			return
		}
	}
}

func closeAdmins() {
	for _, a := range admins {
		a.n.Exit()
	}
}

// direct: the real router and handlers, with whatever req.Header / RemoteAddr the case wants
func (a *Admin) direct(method, path string, hdr http.Header, remote string, body []byte) (int, []byte) {
	req := httptest.NewRequest(method, "http://admin.test"+path, bytes.NewReader(body))
	if hdr == nil {
		hdr = http.Header{}
	}
	req.Header = hdr
	req.RemoteAddr = remote
	rec := httptest.NewRecorder()
	a.srv.ServeHTTP(rec, req)
	return rec.Code, rec.Body.Bytes()
}

// wire: a hand-written HTTP/1.1 request over a real connection from the given loopback address
func (a *Admin) wire(localIP, method, path string, headers [][2]string, body []byte) (int, []byte, error) {
	d := net.Dialer{Timeout: 5 * time.Second}
	if localIP != "" {
		d.LocalAddr = &net.TCPAddr{IP: net.ParseIP(localIP)}
	}
	conn, err := d.Dial("tcp", a.addr)
	if err != nil {
		return 0, nil, err
	}
	defer conn.Close()
	conn.SetDeadline(time.Now().Add(30 * time.Second))
	var sb bytes.Buffer
	fmt.Fprintf(&sb, "%s %s HTTP/1.1\r\nHost: admin.test\r\nConnection: close\r\n", method, path)
	for _, h := range headers {
		fmt.Fprintf(&sb, "%s:%s\r\n", h[0], h[1])
	}
	if body != nil || method == "POST" || method == "PUT" {
		fmt.Fprintf(&sb, "Content-Length: %d\r\n", len(body))
	}
	sb.WriteString("\r\n")
	sb.Write(body)
	// a server that refuses early may close before the whole request is written: the reply,
	// if any, is still read
	_, werr := conn.Write(sb.Bytes())
	resp, err := http.ReadResponse(bufio.NewReader(conn), &http.Request{Method: method})
	if err != nil {
		if werr != nil {
			return 0, nil, werr
		}
		return 0, nil, err
	}
	defer resp.Body.Close()
	b, _ := io.ReadAll(resp.Body)
	return resp.StatusCode, b, nil
}

// ---------------------------------------------------------------- Coq printers

func cb(s string) string { return lib.CoqBytes([]byte(s)) }

func cstr(s string) string { return "\"" + strings.ReplaceAll(s, "\"", "\"\"") + "\"%string" }

func cbl(xs []string) string {
	parts := make([]string, len(xs))
	for i, x := range xs {
		parts[i] = cb(x)
	}
	return "[" + strings.Join(parts, ";") + "]"
}

func coqCall(c Call) string {
	k := "UGet"
	if c.Kind == "POST" {
		k = "UPost"
	}
	return fmt.Sprintf("(mkCall %s %s %s %s %s %s)", k, cb(c.Addr), cstr(c.Path), cb(c.Topic), cb(c.Channel), cb(c.Node))
}

func coqCalls(cs []Call) string {
	parts := make([]string, len(cs))
	for i, c := range cs {
		parts[i] = coqCall(c)
	}
	return "[" + strings.Join(parts, ";") + "]"
}

// ipNumber: the address as the model takes it (IP4 n for 4-byte text, IP6 n otherwise)
func coqIP(text string) string {
	ip := net.ParseIP(text)
	if ip == nil {
		return "None"
	}
	if !strings.Contains(text, ":") {
		v4 := ip.To4()
		n := new(big.Int).SetBytes(v4)
		return "(Some (IP4 " + n.String() + "))"
	}
	n := new(big.Int).SetBytes(ip.To16())
	return "(Some (IP6 " + n.String() + "))"
}

func coqCIDR(text string) string {
	if text == "" {
		return "None"
	}
	i := strings.LastIndex(text, "/")
	addr, plen := text[:i], text[i+1:]
	ip := net.ParseIP(addr)
	if ip == nil {
		lib.Fatalf("bad cidr %q", text)
	}
	if !strings.Contains(addr, ":") {
		return "(Some (C4 " + new(big.Int).SetBytes(ip.To4()).String() + " " + plen + "))"
	}
	return "(Some (C6 " + new(big.Int).SetBytes(ip.To16()).String() + " " + plen + "))"
}

func sortedCopy(xs []string) []string {
	ys := append([]string{}, xs...)
	sort.Strings(ys)
	return ys
}

// ---------------------------------------------------------------- main

func main() {
	profile := flag.String("profile", "c17", "c17 | view | hostile | addfn")
	n := flag.Int("n", 300, "number of generated cases")
	seed := flag.Uint64("seed", 1, "seed")
	out := flag.String("out", "", "output jsonl")
	replay := flag.String("replay", "", "replay file")
	flag.Parse()
	if *profile == "view" && os.Getenv("ADMINDRIVE_CHILD") == "" {
		// the view profile runs nsqadmin in-process: a panic in one of its goroutines would take
		// the driver down with it.  Run it in a child; if the child dies, report the cluster it
		// was working on as a case in which nsqadmin did not survive.
		runViewSupervised(*out)
		return
	}
	o := lib.NewOut(*out)
	defer o.Close()
	r := lib.NewRand(*seed)
	defer closeAdmins()
	switch *profile {
	case "c17":
		runC17(o, r, *n, *replay)
	case "view":
		runView(o, r, *n, *replay)
	case "addfn":
		runAddFn(o, r, *n, *replay)
	case "hostile":
		runHostile(o, r, *n, *replay)
	default:
		lib.Fatalf("unknown profile %q", *profile)
	}
}

// markCurrent records the input the in-process run is about to work on (child side).
func markCurrent(in interface{}) {
	if p := os.Getenv("ADMINDRIVE_MARK"); p != "" {
		b, _ := json.Marshal(in)
		os.WriteFile(p, b, 0o644)
	}
}

func runViewSupervised(out string) {
	dir, err := os.MkdirTemp(os.Getenv("VERIF_SCRATCH"), "admindrive-view-")
	if err != nil {
		lib.Fatalf("mkdtemp: %v", err)
	}
	defer os.RemoveAll(dir)
	childOut, mark := dir+"/cases.jsonl", dir+"/mark.json"
	var args []string
	skip := false
	for _, a := range os.Args[1:] {
		if skip {
			skip = false
			continue
		}
		if a == "-out" || a == "--out" {
			skip = true
			continue
		}
		if strings.HasPrefix(a, "-out=") || strings.HasPrefix(a, "--out=") {
			continue
		}
		args = append(args, a)
	}
	cmd := exec.Command(os.Args[0], append(args, "-out", childOut)...)
	cmd.Env = append(os.Environ(), "ADMINDRIVE_CHILD=1", "ADMINDRIVE_MARK="+mark)
	var stderr bytes.Buffer
	cmd.Stderr = &stderr
	runErr := cmd.Run()
	o := lib.NewOut(out)
	defer o.Close()
	if f, err := os.Open(childOut); err == nil {
		sc := bufio.NewScanner(f)
		sc.Buffer(make([]byte, 1<<20), 1<<28)
		for sc.Scan() {
			line := sc.Bytes()
			var c lib.Case
			if json.Unmarshal(line, &c) == nil && c.Coq != "" {
				o.Emit(c)
				continue
			}
			var st struct {
				Stat  string      `json:"stat"`
				Value interface{} `json:"value"`
			}
			if json.Unmarshal(line, &st) == nil && st.Stat != "" {
				o.Stat(st.Stat, st.Value)
			}
		}
		f.Close()
	}
	if runErr == nil {
		return
	}
	if ee, ok := runErr.(*exec.ExitError); ok && ee.ExitCode() == 3 {
		// the child's own HARNESS-ERROR
		os.Stderr.Write(stderr.Bytes())
		os.Exit(3)
	}
	var in interface{}
	if b, err := os.ReadFile(mark); err == nil {
		json.Unmarshal(b, &in)
	}
	tail := stderr.String()
	if len(tail) > 1500 {
		tail = tail[:1500]
	}
	o.Emit(lib.Case{Name: "in-process-nsqadmin-died", Coq: "(J18.CAlive false false)", Input: in,
		Tags: []string{"view=crash", "alive=false"}, Nontrivial: true,
		Obs:  map[string]interface{}{"alive": false, "child_exit": runErr.Error(), "stderr": tail}})
}
