package main

// C17, configuration paths: the REAL apps/nsqadmin binary started the way an operator starts it,
// with the options the property depends on (admin list, ACL header name, CIDR for /config,
// nsqlookupd / nsqd addresses) given on the command line, in a --config file with the keys of
// contrib/nsqadmin.cfg.example, or on both (the command line must win).  Requests go over real
// connections from several 127/8 source addresses.  The case carries the LAUNCH as written
// (arguments and decoded file); the judge works out the configuration it means from the
// documented names (monitor) and from the regenerated struct tags / flag set (model).

import (
	"bytes"
	"encoding/json"
	"fmt"
	"net"
	"net/http"
	"os"
	"os/exec"
	"path/filepath"
	"strconv"
	"strings"
	"sync"
	"time"

	"verifharness/lib"
)

type LArg struct {
	Flag  string `json:"flag"`
	Value string `json:"value"` // Addr: a stub name (L0, N1, LD ..), replaced by its address at run time
	Addr  bool   `json:"addr,omitempty"`
}

type LKey struct {
	Key  string   `json:"key"`
	Str  *string  `json:"str,omitempty"`  // key = "..."          (Addr: comma-separated stub names)
	List []string `json:"list,omitempty"` // key = ["...", "..."] (Addr: stub names)
	Addr bool     `json:"addr,omitempty"`
}

type LaunchIn struct {
	Name      string `json:"name"`
	Args      []LArg `json:"args"`
	File      []LKey `json:"file"`
	HTTPIn    string `json:"http_in"`   // flag | file: where the listen address is given
	ArgStyle  string `json:"arg_style"` // eq: --flag=value | space: -flag value
	Sources   string `json:"sources"`   // e.g. "admins=file header=flag cidr=both lookupd=file": for the tags only
}

// ---- the configuration the launch means, by the documented names (generation and tags only:
// the judge works it out again from the launch itself)

type effCfg struct {
	Admins   []string
	Header   string
	CIDR     string
	Lookupds []string // stub names
	Nsqds    []string
}

func (li *LaunchIn) argValues(flag string) []string {
	var vs []string
	for _, a := range li.Args {
		if a.Flag == flag {
			vs = append(vs, a.Value)
		}
	}
	return vs
}

func (li *LaunchIn) fileKey(key string) *LKey {
	for i := range li.File {
		if li.File[i].Key == key {
			return &li.File[i]
		}
	}
	return nil
}

func (li *LaunchIn) effList(flag, key string) []string {
	if vs := li.argValues(flag); len(vs) > 0 {
		return vs
	}
	if k := li.fileKey(key); k != nil {
		if k.Str != nil {
			return strings.Split(*k.Str, ",")
		}
		return k.List
	}
	return nil
}

func (li *LaunchIn) effStr(flag, key, dflt string) string {
	if vs := li.argValues(flag); len(vs) > 0 {
		return vs[len(vs)-1]
	}
	if k := li.fileKey(key); k != nil && k.Str != nil {
		return *k.Str
	}
	return dflt
}

// stubsNamed: the stub nsqlookupds / nsqds named anywhere in the launch, in order of appearance
func (li *LaunchIn) stubsNamed() (ls, ns []string) {
	add := func(n string) {
		if strings.HasPrefix(n, "L") && !contains(ls, n) {
			ls = append(ls, n)
		}
		if strings.HasPrefix(n, "N") && !contains(ns, n) {
			ns = append(ns, n)
		}
	}
	for _, a := range li.Args {
		if a.Addr {
			add(a.Value)
		}
	}
	for _, k := range li.File {
		if !k.Addr {
			continue
		}
		if k.Str != nil {
			for _, n := range strings.Split(*k.Str, ",") {
				add(n)
			}
		}
		for _, n := range k.List {
			add(n)
		}
	}
	return
}

func (li *LaunchIn) eff() effCfg {
	return effCfg{
		Admins:   li.effList("admin-user", "admin_users"),
		Header:   li.effStr("acl-http-header", "acl_http_header", "X-Forwarded-User"),
		CIDR:     li.effStr("allow-config-from-cidr", "allow_config_from_cidr", "127.0.0.1/8"),
		Lookupds: li.effList("lookupd-http-address", "nsqlookupd_http_addresses"),
		Nsqds:    li.effList("nsqd-http-address", "nsqd_http_addresses"),
	}
}

// ---- running instances

type lockedBuf struct {
	mu sync.Mutex
	b  bytes.Buffer
}

func (l *lockedBuf) Write(p []byte) (int, error) {
	l.mu.Lock()
	defer l.mu.Unlock()
	if l.b.Len() < 1<<20 {
		l.b.Write(p)
	}
	return len(p), nil
}

func (l *lockedBuf) String() string {
	l.mu.Lock()
	defer l.mu.Unlock()
	return l.b.String()
}

type launched struct {
	cmd    *exec.Cmd
	addr   string
	done   chan struct{}
	up     bool
	stderr *lockedBuf
	dir    string
}

var launchedByKey = map[string]*launched{}

func closeLaunched() {
	for _, s := range launchedByKey {
		if s.cmd != nil && s.cmd.Process != nil {
			select {
			case <-s.done:
			default:
				s.cmd.Process.Kill()
				<-s.done
			}
		}
		if s.dir != "" {
			os.RemoveAll(s.dir)
		}
	}
	launchedByKey = map[string]*launched{}
}

func tomlStr(s string) string { return strconv.Quote(s) }

// concrete arguments and file of a launch (stub names replaced by addresses)
func (li *LaunchIn) concrete(cl *cluster) (args [][2]string, file [][3]interface{}) {
	for _, a := range li.Args {
		v := a.Value
		if a.Addr {
			v = cl.addr(v)
		}
		args = append(args, [2]string{a.Flag, v})
	}
	for _, k := range li.File {
		if k.Str != nil {
			v := *k.Str
			if k.Addr {
				var as []string
				for _, n := range strings.Split(v, ",") {
					as = append(as, cl.addr(n))
				}
				v = strings.Join(as, ",")
			}
			file = append(file, [3]interface{}{k.Key, "str", v})
		} else {
			var vs []string
			for _, n := range k.List {
				if k.Addr {
					n = cl.addr(n)
				}
				vs = append(vs, n)
			}
			file = append(file, [3]interface{}{k.Key, "list", vs})
		}
	}
	return
}

func getLaunched(cl *cluster, li *LaunchIn) *launched {
	kb, _ := json.Marshal(li)
	key := string(kb)
	if s, ok := launchedByKey[key]; ok {
		return s
	}
	bin := filepath.Join(os.Getenv("VERIF_BIN_DIR"), "nsqadmin")
	if _, err := os.Stat(bin); err != nil {
		lib.Fatalf("nsqadmin binary not found at %s (REPO_BINS)", bin)
	}
	dir, err := os.MkdirTemp(os.Getenv("VERIF_SCRATCH"), "admindrive-launch-")
	if err != nil {
		lib.Fatalf("mkdtemp: %v", err)
	}
	args, file := li.concrete(cl)
	var s *launched
	for attempt := 0; attempt < 5; attempt++ {
		addr := "127.0.0.1:" + strconv.Itoa(freePort())
		var fb strings.Builder
		fb.WriteString("## written by admindrive (C17 configuration paths)\n")
		if li.HTTPIn == "file" {
			fmt.Fprintf(&fb, "http_address = %s\n", tomlStr(addr))
		}
		for _, k := range file {
			if k[1] == "str" {
				fmt.Fprintf(&fb, "%s = %s\n", k[0], tomlStr(k[2].(string)))
			} else {
				var qs []string
				for _, v := range k[2].([]string) {
					qs = append(qs, tomlStr(v))
				}
				fmt.Fprintf(&fb, "%s = [\n    %s\n]\n", k[0], strings.Join(qs, ",\n    "))
			}
		}
		var argv []string
		add := func(flag, v string) {
			if li.ArgStyle == "space" {
				argv = append(argv, "-"+flag, v)
			} else {
				argv = append(argv, "--"+flag+"="+v)
			}
		}
		if len(li.File) > 0 || li.HTTPIn == "file" {
			cf := filepath.Join(dir, "nsqadmin.cfg")
			if err := os.WriteFile(cf, []byte(fb.String()), 0o644); err != nil {
				lib.Fatalf("write config: %v", err)
			}
			add("config", cf)
		}
		if li.HTTPIn != "file" {
			add("http-address", addr)
		}
		for _, a := range args {
			add(a[0], a[1])
		}
		cmd := exec.Command(bin, argv...)
		errb := &lockedBuf{}
		cmd.Stdout, cmd.Stderr = nil, errb
		if err := cmd.Start(); err != nil {
			lib.Fatalf("start nsqadmin: %v", err)
		}
		s = &launched{cmd: cmd, addr: addr, done: make(chan struct{}), stderr: errb, dir: dir}
		go func(s *launched) { s.cmd.Wait(); close(s.done) }(s)
		// wait for the exact condition: /ping answers, or the process has exited
		started := time.Now()
		deadline := started.Add(60 * time.Second)
		exited := false
		for !s.up && !exited {
			select {
			case <-s.done:
				exited = true
			case <-time.After(15 * time.Millisecond):
				// our process says it listens there (a foreign server could sit on a port we lost)
				ours := strings.Contains(s.stderr.String(), "listening on "+addr) || time.Since(started) > 3*time.Second
				if ours && launchPing(s.addr) {
					select {
					case <-s.done: // a foreign server on the port, ours is gone
						exited = true
					default:
						s.up = true
					}
				} else if time.Now().After(deadline) {
					s.cmd.Process.Kill()
					<-s.done
					lib.Fatalf("nsqadmin %v neither came up nor exited within 60 s", argv)
				}
			}
		}
		if s.up {
			break
		}
		// exited: a lost race for the port is ours, anything else is nsqadmin's answer to this launch
		if !strings.Contains(s.stderr.String(), "address already in use") {
			break
		}
	}
	launchedByKey[key] = s
	return s
}

var launchClient = &http.Client{Timeout: 5 * time.Second}

func launchPing(addr string) bool {
	resp, err := launchClient.Get("http://" + addr + "/ping")
	if err != nil {
		return false
	}
	resp.Body.Close()
	return resp.StatusCode == 200
}

// insideIP: a 127/8 address inside the CIDR ("" when there is none: what /config holds can then
// not be read back)
func insideIP(cidr string) string {
	if cidr == "" {
		return "127.0.0.1"
	}
	_, ipnet, err := net.ParseCIDR(cidr)
	if err != nil {
		return ""
	}
	loop := &net.IPNet{IP: net.IPv4(127, 0, 0, 0).To4(), Mask: net.CIDRMask(8, 32)}
	cands := []net.IP{net.IPv4(127, 0, 0, 1)}
	if b := ipnet.IP.To4(); b != nil {
		cands = append(cands, b)
		n := append(net.IP{}, b...)
		n[3]++
		cands = append(cands, n)
	}
	for _, c := range cands {
		if ipnet.Contains(c) && loop.Contains(c) && !c.Equal(net.IPv4(127, 0, 0, 0)) {
			return c.String()
		}
	}
	return ""
}

// ---- Coq printers

func coqLaunch(cl *cluster, li *LaunchIn) (launch, cidrTab string) {
	args, file := li.concrete(cl)
	var as, fs []string
	cidrs := map[string]bool{"127.0.0.1/8": true}
	for _, a := range args {
		as = append(as, fmt.Sprintf("(%s, %s)", cstr(a[0]), cb(a[1])))
		if a[0] == "allow-config-from-cidr" {
			cidrs[a[1]] = true
		}
	}
	for _, k := range file {
		if k[1] == "str" {
			fs = append(fs, fmt.Sprintf("(%s, CVStr %s)", cstr(k[0].(string)), cb(k[2].(string))))
			if k[0] == "allow_config_from_cidr" {
				cidrs[k[2].(string)] = true
			}
		} else {
			fs = append(fs, fmt.Sprintf("(%s, CVList %s)", cstr(k[0].(string)), cbl(k[2].([]string))))
		}
	}
	var cs []string
	for _, c := range sortedCopy(keysOf(cidrs)) {
		if c == "" {
			continue
		}
		cs = append(cs, fmt.Sprintf("(%s, %s)", cb(c), coqCIDR(c)))
	}
	return fmt.Sprintf("(mkLaunch [%s] [%s])", strings.Join(as, ";"), strings.Join(fs, ";")), "[" + strings.Join(cs, ";") + "]"
}

func keysOf(m map[string]bool) []string {
	var ks []string
	for k := range m {
		ks = append(ks, k)
	}
	return ks
}

// ---- generator

type srcKind int

const (
	srcNone srcKind = iota
	srcFlag
	srcFile
	srcFileCSV // list options: key = "a,b" (go-options splits a string on commas)
	srcBoth
)

func (s srcKind) String() string {
	return [...]string{"default", "flag", "file", "file-csv", "both"}[s]
}

var launchOpts = []string{"admins", "header", "cidr", "lookupd", "nsqd"}

func strp(s string) *string { return &s }

// buildLaunch: one launch from the source chosen for each option
func buildLaunch(r *lib.Rand, name string, src map[string]srcKind) LaunchIn {
	li := LaunchIn{Name: name, HTTPIn: "flag", ArgStyle: "eq"}
	if r.Chance(40) {
		li.ArgStyle = "space"
	}
	var tags []string
	for _, o := range launchOpts {
		tags = append(tags, o+"="+src[o].String())
	}
	li.Sources = strings.Join(tags, " ")
	list := func(flag, key string, s srcKind, flagVals, fileVals []string, addr bool) {
		if s == srcFlag || s == srcBoth {
			for _, v := range flagVals {
				li.Args = append(li.Args, LArg{Flag: flag, Value: v, Addr: addr})
			}
		}
		switch s {
		case srcFile, srcBoth:
			li.File = append(li.File, LKey{Key: key, List: fileVals, Addr: addr})
		case srcFileCSV:
			li.File = append(li.File, LKey{Key: key, Str: strp(strings.Join(fileVals, ",")), Addr: addr})
		}
	}
	str := func(flag, key string, s srcKind, flagVal, fileVal string) {
		if s == srcFlag || s == srcBoth {
			li.Args = append(li.Args, LArg{Flag: flag, Value: flagVal})
		}
		if s == srcFile || s == srcBoth {
			li.File = append(li.File, LKey{Key: key, Str: strp(fileVal)})
		}
	}
	// admin list: alice is an admin wherever a list is in force, except on "both", where the file
	// names alice and the command line (which wins) names bob only
	adminSets := [][]string{{"alice"}, {"alice", "bob"}, {"carol", "alice"}}
	as := adminSets[r.Intn(len(adminSets))]
	if src["admins"] == srcBoth {
		list("admin-user", "admin_users", srcBoth, []string{"bob"}, []string{"alice"}, false)
	} else {
		list("admin-user", "admin_users", src["admins"], as, as, false)
	}
	hs := []string{"X-Remote-Id", "x-auth-user", "X-Forwarded-User"}
	h := hs[r.Intn(len(hs))]
	str("acl-http-header", "acl_http_header", src["header"], h, map[bool]string{true: "X-From-File", false: h}[src["header"] == srcBoth])
	cs := []string{"127.0.0.0/30", "127.9.0.0/16", "127.0.0.1/32", "", "10.0.0.0/8", "127.0.0.1/8"}
	c := cs[r.Intn(len(cs))]
	fileC := c
	if src["cidr"] == srcBoth {
		fileC = []string{"127.0.0.1/8", "0.0.0.0/0"}[r.Intn(2)] // wider in the file: the narrower flag must be in force
		if c == "" || c == "127.0.0.1/8" {
			c = "127.0.0.0/30"
		}
	}
	str("allow-config-from-cidr", "allow_config_from_cidr", src["cidr"], c, fileC)
	lsets := [][]string{{"L0"}, {"L0", "L1"}, {"L0", "LD", "L1"}, {"L1", "L2"}}
	ls := lsets[r.Intn(len(lsets))]
	if src["lookupd"] == srcBoth {
		list("lookupd-http-address", "nsqlookupd_http_addresses", srcBoth, []string{"L1"}, []string{"L0", "L2"}, true)
	} else {
		list("lookupd-http-address", "nsqlookupd_http_addresses", src["lookupd"], ls, ls, true)
	}
	nsets := [][]string{{"N0", "N1"}, {"N0", "ND", "N1"}, {"N2"}}
	ns := nsets[r.Intn(len(nsets))]
	if src["nsqd"] == srcBoth {
		list("nsqd-http-address", "nsqd_http_addresses", srcBoth, []string{"N1", "N2"}, []string{"N0"}, true)
	} else {
		list("nsqd-http-address", "nsqd_http_addresses", src["nsqd"], ns, ns, true)
	}
	if len(li.File) > 0 && r.Chance(35) {
		li.HTTPIn = "file"
	}
	// the order of arguments and of keys is the operator's business (the values of a repeated
	// flag keep their relative order)
	var flagsSeen []string
	groups := map[string][]LArg{}
	for _, a := range li.Args {
		if _, ok := groups[a.Flag]; !ok {
			flagsSeen = append(flagsSeen, a.Flag)
		}
		groups[a.Flag] = append(groups[a.Flag], a)
	}
	for i := len(flagsSeen) - 1; i > 0; i-- {
		j := r.Intn(i + 1)
		flagsSeen[i], flagsSeen[j] = flagsSeen[j], flagsSeen[i]
	}
	li.Args = nil
	for _, f := range flagsSeen {
		li.Args = append(li.Args, groups[f]...)
	}
	for i := len(li.File) - 1; i > 0; i-- {
		j := r.Intn(i + 1)
		li.File[i], li.File[j] = li.File[j], li.File[i]
	}
	return li
}

func randSrc(r *lib.Rand, listOpt bool) srcKind {
	ks := []srcKind{srcNone, srcFlag, srcFile, srcBoth}
	if listOpt {
		ks = append(ks, srcFileCSV)
	}
	return ks[r.Intn(len(ks))]
}

// genLaunches: every option x every path it can be given on, the other options on random paths
func genLaunches(r *lib.Rand, extra int) []LaunchIn {
	var out []LaunchIn
	mk := func(fixed string, s srcKind) {
		src := map[string]srcKind{}
		for _, o := range launchOpts {
			src[o] = randSrc(r, o != "header" && o != "cidr")
		}
		// exactly one of the two address lists
		if fixed == "lookupd" || (fixed != "nsqd" && r.Chance(60)) {
			src["nsqd"] = srcNone
			if src["lookupd"] == srcNone {
				src["lookupd"] = []srcKind{srcFlag, srcFile, srcFileCSV}[r.Intn(3)]
			}
		} else {
			src["lookupd"] = srcNone
			if src["nsqd"] == srcNone {
				src["nsqd"] = []srcKind{srcFlag, srcFile, srcFileCSV}[r.Intn(3)]
			}
		}
		if fixed != "" {
			src[fixed] = s
		}
		out = append(out, buildLaunch(r, fmt.Sprintf("launch-%d", len(out)), src))
	}
	for _, o := range launchOpts {
		ks := []srcKind{srcFlag, srcFile, srcBoth}
		if o != "header" && o != "cidr" {
			ks = append(ks, srcFileCSV)
		}
		if o == "admins" || o == "header" || o == "cidr" {
			ks = append(ks, srcNone)
		}
		for _, s := range ks {
			mk(o, s)
		}
	}
	// everything in the file, nothing but --config on the command line
	all := map[string]srcKind{"admins": srcFile, "header": srcFile, "cidr": srcFile, "lookupd": srcFile, "nsqd": srcNone}
	li := buildLaunch(r, fmt.Sprintf("launch-%d", len(out)), all)
	li.HTTPIn = "file"
	out = append(out, li)
	for i := 0; i < extra; i++ {
		mk("", srcNone)
	}
	return out
}

// the requests sent to one launched nsqadmin
func launchRequests(r *lib.Rand, k *int, li LaunchIn) []C17In {
	e := li.eff()
	var out []C17In
	base := func(method, pattern, idc string) C17In {
		in := C17In{Name: fmt.Sprintf("%s-%d", li.Name, *k), Admins: e.Admins, Header: e.Header, CIDR: e.CIDR, Mode: "launch",
			Method: method, Pattern: pattern, IdClass: idc, Transport: "wire", Launch: &li}
		*k++
		fillParams(r, &in)
		in.LocalIP = []string{"127.0.0.1", "127.0.0.2", "127.9.8.7"}[r.Intn(3)]
		h := e.Header
		in.Headers = identityHeaders(idc, h, "wire")
		return in
	}
	// every state-changing route: no / empty / non-admin identity, alice, bob or a look-alike
	for i, rt := range mutRoutes {
		ids := []string{[]string{"absent", "empty", "nonadmin"}[(i+r.Intn(3))%3], "admin"}
		if i%2 == 0 {
			ids = append(ids, "admin2")
		} else if r.Chance(50) {
			ids = append(ids, idClasses[r.Intn(len(idClasses))])
		}
		for _, idc := range ids {
			in := base(rt.method, rt.pattern, idc)
			classes := bodyClassesFor(rt.pattern)
			cls := classes[r.Intn(len(classes))]
			if idc == "admin" || idc == "admin2" {
				cls = classes[0] // a valid body: the action is carried out (or refused for the identity alone)
			}
			genBody(r, &in, cls)
			genWorld(r, &in)
			out = append(out, in)
		}
	}
	// /config from inside and outside the CIDR in force
	inside := insideIP(e.CIDR)
	ips := []string{"127.0.0.1", "127.0.0.2", "127.9.8.7", "127.9.0.1", "127.0.0.3", "127.0.0.4", "127.255.255.254"}
	for i := 0; i < 4; i++ {
		in := base("GET", "/config/:opt", "absent")
		in.LocalIP = ips[r.Intn(len(ips))]
		if i == 0 && inside != "" {
			in.LocalIP = inside
		}
		in.Opt = []string{"log_level", "admin_users", "acl_http_header", "allow_config_from_cidr", "nsqlookupd_http_addresses", "nsqd_http_addresses", "no_such_option"}[r.Intn(7)]
		in.BodyBad = true
		if inside != "" && i >= 2 {
			in.Method, in.Opt = "PUT", "log_level"
			in.BodyClass = []string{"valid", "valid", "invalid", "empty"}[r.Intn(4)]
			switch in.BodyClass {
			case "valid":
				in.Body = []string{"debug", "warn", "error"}[r.Intn(3)]
			case "invalid":
				in.Body = "loud"
			}
		}
		genWorld(r, &in)
		out = append(out, in)
	}
	// read-only views stay available to everybody
	for _, p := range []string{"/api/topics", []string{"/api/nodes", "/ping", "/api/topics/:topic"}[r.Intn(3)]} {
		in := base("GET", p, []string{"absent", "nonadmin"}[r.Intn(2)])
		in.BodyBad = true
		genWorld(r, &in)
		in.Lookup, in.Nsqd, in.PostFail = []string{"ok:N0,N1", "ok:N1", "ok:"}, []string{"topic", "topic", "topic", "topic"}, nil
		out = append(out, in)
	}
	return out
}
