package main

// C18 "view" profile: generated clusters of stub nsqlookupd / nsqd (topics on some nodes
// only, the same channel on many nodes, zero and huge counters, missing optional fields,
// JSON null elements, every kind of failing upstream), nsqadmin's six views compared with
// the model's view of the stubs' data.

import (
	"encoding/json"
	"fmt"
	"net"
	"net/url"
	"sort"
	"strconv"
	"strings"

	"verifharness/lib"
)

// ---------------------------------------------------------------- generated data

type GClient struct {
	Null bool   `json:"null,omitempty"`
	ID   string `json:"id,omitempty"`
	Host string `json:"host,omitempty"`
}

type GChan struct {
	Null        bool      `json:"null,omitempty"`
	Name        string    `json:"name,omitempty"`
	Num         [11]int64 `json:"num"` // depth backend inflight deferred requeue timeout msgs zone region global client_count
	Paused      bool      `json:"paused,omitempty"`
	Clients     []GClient `json:"clients,omitempty"`
	OmitClients bool      `json:"omit_clients,omitempty"`
	E2e         *GE2e     `json:"e2e,omitempty"` // nil: no e2e_processing_latency field
	ClaimMem    bool      `json:"claim_mem,omitempty"` // send memory_depth / delivery_msg_count values of its own (nsqadmin recomputes them)
}

type GTopic struct {
	Null     bool     `json:"null,omitempty"`
	Name     string   `json:"name,omitempty"`
	Num      [6]int64 `json:"num"` // depth backend msgs zone region global
	Paused   bool     `json:"paused,omitempty"`
	Channels []GChan  `json:"channels,omitempty"`
	E2e      *GE2e    `json:"e2e,omitempty"`
}

type GNsqd struct {
	Fail         string   `json:"fail,omitempty"` // "" 500 garbage wrongtype bignum
	InfoFail     bool     `json:"info_fail,omitempty"`
	StatsFail    bool     `json:"stats_fail,omitempty"`
	Hostname     string   `json:"hostname"`
	NoBcast      bool     `json:"no_bcast,omitempty"`
	IgnoreFilter bool     `json:"ignore_filter,omitempty"`
	Topics       []GTopic `json:"topics"`
}

type GProducer struct {
	Null     bool     `json:"null,omitempty"`
	Node     string   `json:"node,omitempty"` // N0..N3, ND
	Hostname string   `json:"hostname,omitempty"`
	Remote   string   `json:"remote,omitempty"`
	TCPOff   int      `json:"tcp_off,omitempty"`
	Topics   []string `json:"topics,omitempty"`
	Tombs    []bool   `json:"tombs,omitempty"`
}

type GLookupd struct {
	Fail      string      `json:"fail,omitempty"`
	Producers []GProducer `json:"producers,omitempty"`
	Topics    []string    `json:"topics,omitempty"`
}

type GCluster struct {
	Name     string      `json:"name"`
	Lookupds []string    `json:"lookupds"` // configured: L0 L1 L2 LD ; empty = direct mode
	Nsqds    []string    `json:"nsqds"`    // direct mode: N0..N3 ND
	L        [3]GLookupd `json:"l"`
	N        [4]GNsqd    `json:"n"`
	Topic    string      `json:"topic"`   // the topic / channel / node the single-object views ask for
	Channel  string      `json:"channel"`
	Node     string      `json:"node"`
}

// ---------------------------------------------------------------- what a stub serves

func (c GChan) json(inc bool) string {
	if c.Null {
		return "null"
	}
	var sb strings.Builder
	fmt.Fprintf(&sb, `{"channel_name":%q,"depth":%d,"backend_depth":%d,"in_flight_count":%d,"deferred_count":%d,"requeue_count":%d,"timeout_count":%d,"message_count":%d`,
		c.Name, c.Num[0], c.Num[1], c.Num[2], c.Num[3], c.Num[4], c.Num[5], c.Num[6])
	if c.Num[7] != 0 || c.ClaimMem {
		fmt.Fprintf(&sb, `,"zone_local_msg_count":%d`, c.Num[7])
	}
	if c.Num[8] != 0 {
		fmt.Fprintf(&sb, `,"region_local_msg_count":%d`, c.Num[8])
	}
	if c.Num[9] != 0 {
		fmt.Fprintf(&sb, `,"global_msg_count":%d`, c.Num[9])
	}
	fmt.Fprintf(&sb, `,"client_count":%d,"paused":%v`, c.Num[10], c.Paused)
	if c.ClaimMem {
		sb.WriteString(`,"memory_depth":777,"delivery_msg_count":-5`)
	}
	if !c.OmitClients {
		sb.WriteString(`,"clients":[`)
		if inc {
			for i, cl := range c.Clients {
				if i > 0 {
					sb.WriteString(",")
				}
				if cl.Null {
					sb.WriteString("null")
				} else {
					fmt.Fprintf(&sb, `{"client_id":%q,"hostname":%q,"remote_address":"10.0.0.9:1","connect_ts":1700000000,"message_count":4}`, cl.ID, cl.Host)
				}
			}
		}
		sb.WriteString("]")
	}
	sb.WriteString(e2eJSON(c.E2e))
	sb.WriteString("}")
	return sb.String()
}

// "bignum": /stats carries a number that does not fit int64 -- decoders that only read
// topic names accept the document, GetNSQDStats' decoder rejects it
func (n GNsqd) hardFail() bool  { return n.Fail != "" && n.Fail != "bignum" }
func (n GNsqd) namesFail() bool { return n.hardFail() || n.StatsFail }
func (n GNsqd) statsFail() bool { return n.Fail != "" || n.StatsFail }
func (n GNsqd) infoFail() bool  { return n.hardFail() || n.InfoFail }
func (n GNsqd) names(topic string) []string {
	if n.Fail == "bignum" {
		return []string{"big"}
	}
	var names []string
	for _, tp := range n.servedTopics(topic, "") {
		if tp.Null {
			names = append(names, "") // a null element of []struct{...} decodes to the zero value
		} else {
			names = append(names, tp.Name)
		}
	}
	return names
}

// servedTopics: what a (real-nsqd-like) stub answers for the request's filter
func (n GNsqd) servedTopics(topic, channel string) []GTopic {
	var out []GTopic
	for _, t := range n.Topics {
		if t.Null {
			out = append(out, t)
			continue
		}
		if topic != "" && t.Name != topic && !n.IgnoreFilter {
			continue
		}
		tt := t
		tt.Channels = nil
		for _, c := range t.Channels {
			if !c.Null && topic != "" && channel != "" && c.Name != channel && !n.IgnoreFilter {
				continue
			}
			tt.Channels = append(tt.Channels, c)
		}
		out = append(out, tt)
	}
	return out
}

func statsJSON(ts []GTopic, inc bool) string {
	var parts []string
	for _, t := range ts {
		if t.Null {
			parts = append(parts, "null")
			continue
		}
		var cs []string
		for _, c := range t.Channels {
			cs = append(cs, c.json(inc))
		}
		s := fmt.Sprintf(`{"topic_name":%q,"depth":%d,"backend_depth":%d,"message_count":%d`, t.Name, t.Num[0], t.Num[1], t.Num[2])
		if t.Num[3] != 0 {
			s += fmt.Sprintf(`,"zone_local_msg_count":%d`, t.Num[3])
		}
		if t.Num[4] != 0 {
			s += fmt.Sprintf(`,"region_local_msg_count":%d`, t.Num[4])
		}
		if t.Num[5] != 0 {
			s += fmt.Sprintf(`,"global_msg_count":%d`, t.Num[5])
		}
		s += fmt.Sprintf(`,"paused":%v,"channels":[%s]%s}`, t.Paused, strings.Join(cs, ","), e2eJSON(t.E2e))
		parts = append(parts, s)
	}
	return `{"version":"1.3.0","health":"OK","start_time":1,"topics":[` + strings.Join(parts, ",") + `]}`
}

// ---------------------------------------------------------------- Coq terms of what was served

func zs(v int64) string { return lib.CoqZ(v) }

func coqChan(c GChan, inc bool) string {
	if c.Null {
		return "None"
	}
	var cls []string
	if inc && !c.OmitClients {
		for _, cl := range c.Clients {
			if cl.Null {
				cls = append(cls, "None")
			} else {
				cls = append(cls, fmt.Sprintf("(Some (mkClient %s %s))", cb(cl.ID), cb(cl.Host)))
			}
		}
	}
	e2e := coqE2e(c.E2e)
	n := c.Num
	return fmt.Sprintf("(Some (mkChan %s %s %s %s %s %s %s %s %s %s %s %s %s [%s] %s))", cb(c.Name),
		zs(n[0]), zs(n[1]), zs(n[2]), zs(n[3]), zs(n[4]), zs(n[5]), zs(n[6]), zs(n[7]), zs(n[8]), zs(n[9]), zs(n[10]),
		lib.CoqBool(c.Paused), strings.Join(cls, ";"), e2e)
}

func coqTopics(ts []GTopic, inc bool) string {
	var parts []string
	for _, t := range ts {
		if t.Null {
			parts = append(parts, "None")
			continue
		}
		var cs []string
		for _, c := range t.Channels {
			cs = append(cs, coqChan(c, inc))
		}
		e2e := coqE2e(t.E2e)
		n := t.Num
		parts = append(parts, fmt.Sprintf("(Some (mkTopic %s %s %s %s %s %s %s %s [%s] %s))", cb(t.Name),
			zs(n[0]), zs(n[1]), zs(n[2]), zs(n[3]), zs(n[4]), zs(n[5]), lib.CoqBool(t.Paused), strings.Join(cs, ";"), e2e))
	}
	return "[" + strings.Join(parts, ";") + "]"
}

// ---------------------------------------------------------------- running one cluster

type viewEnv struct {
	cl    *cluster
	g     GCluster
	admin *Admin
}

func (e *viewEnv) nsqdFailed(i int) bool { return e.g.N[i].Fail != "" }

// producer JSON and term, as the given nsqlookupd reports it
func (e *viewEnv) producerJSON(p GProducer) (string, string) {
	if p.Null {
		return "null", "None"
	}
	ad := e.cl.addr(p.Node)
	host, port, _ := net.SplitHostPort(ad)
	pn, _ := strconv.Atoi(port)
	tcp := pn + 10000 + p.TCPOff
	topics := p.Topics
	if topics == nil {
		topics = []string{}
	}
	tj, _ := json.Marshal(topics)
	tombs := p.Tombs
	if tombs == nil {
		tombs = []bool{}
	}
	bj, _ := json.Marshal(tombs)
	js := fmt.Sprintf(`{"remote_address":%q,"hostname":%q,"broadcast_address":%q,"tcp_port":%d,"http_port":%d,"version":"1.3.0","topics":%s,"tombstones":%s}`,
		p.Remote, p.Hostname, host, tcp, pn, tj, bj)
	var tb []string
	for _, b := range tombs {
		tb = append(tb, lib.CoqBool(b))
	}
	term := fmt.Sprintf("(Some (mkProd %s %s %s %s %s %s %s [%s]))", cb(host), cb(strconv.Itoa(pn)), cb(strconv.Itoa(tcp)),
		cb(p.Hostname), cb(p.Remote), cb("1.3.0"), cbl(topics), strings.Join(tb, ";"))
	return js, term
}

func failTerm(f string) bool { return f != "" }

// lookupd answers for /nodes (topic == "") or /lookup?topic=
func (e *viewEnv) lookupdServed(i int, topic string) (string, string) {
	l := e.g.L[i]
	var js, terms []string
	for _, p := range l.Producers {
		if !p.Null && topic != "" {
			hasIt := false
			for k, t := range p.Topics {
				if t == topic && !(k < len(p.Tombs) && p.Tombs[k]) {
					hasIt = true
				}
			}
			if !hasIt {
				continue
			}
		}
		j, t := e.producerJSON(p)
		js = append(js, j)
		terms = append(terms, t)
	}
	return `{"channels":[],"producers":[` + strings.Join(js, ",") + `]}`, "[" + strings.Join(terms, ";") + "]"
}

func (e *viewEnv) lookupdTopics(i int) []string {
	l := e.g.L[i]
	if l.Topics != nil {
		return l.Topics
	}
	var ts []string
	for _, p := range l.Producers {
		if !p.Null {
			ts = append(ts, p.Topics...)
		}
	}
	return ts
}

func (e *viewEnv) install() {
	for i := range e.cl.L {
		i := i
		l := e.g.L[i]
		b := Behaviour{Fail: l.Fail}
		b.NodesFn = func() string { j, _ := e.lookupdServed(i, ""); return j }
		b.LookupFn = func(topic string) string { j, _ := e.lookupdServed(i, topic); return j }
		b.TopicsFn = func() string {
			ts := e.lookupdTopics(i)
			if ts == nil {
				ts = []string{}
			}
			out, _ := json.Marshal(map[string]interface{}{"topics": ts})
			return string(out)
		}
		e.cl.L[i].Set(b)
	}
	for i := range e.cl.N {
		i := i
		n := e.g.N[i]
		b := Behaviour{Fail: n.Fail, InfoFail: n.InfoFail, StatsFail: n.StatsFail}
		if n.Fail == "bignum" {
			b.Fail = ""
			b.RawStats = `{"topics":[{"topic_name":"big","depth":123456789012345678901234567890,"channels":[]}]}`
		} else {
			b.StatsFn = func(topic, channel string, inc bool) string {
				return statsJSON(n.servedTopics(topic, channel), inc)
			}
		}
		st := e.cl.N[i]
		b.InfoFn = func() string {
			bc := "127.0.0.1"
			if n.NoBcast {
				bc = ""
			}
			return fmt.Sprintf(`{"version":"1.3.0","broadcast_address":%q,"hostname":%q,"http_port":%d,"tcp_port":%d}`, bc, n.Hostname, st.Port, st.Port+10000)
		}
		e.cl.N[i].Set(b)
	}
}

// fetch term of nsqd stub i's /stats for a request, or FFail
func (e *viewEnv) statsFetch(i int, topic, channel string, inc bool) string {
	n := e.g.N[i]
	if n.statsFail() {
		return "FFail"
	}
	return "(FOk " + coqTopics(n.servedTopics(topic, channel), inc) + ")"
}

func (e *viewEnv) statsLup(topic, channel string, inc bool) string {
	var parts []string
	for i, st := range e.cl.N {
		f := e.statsFetch(i, topic, channel, inc)
		parts = append(parts, fmt.Sprintf("(%s, %s)", cb(st.Addr), f))
		// an /info without broadcast_address makes ":port" the producer's address, which reaches the same stub
		parts = append(parts, fmt.Sprintf("(%s, %s)", cb(":"+strconv.Itoa(st.Port)), f))
	}
	return "[" + strings.Join(parts, ";") + "]"
}

// stage-1 term
func (e *viewEnv) stage1(kind, topic string) string {
	if len(e.g.Lookupds) > 0 {
		var parts []string
		for _, ln := range e.g.Lookupds {
			if ln == "LD" {
				parts = append(parts, fmt.Sprintf("(%s, FFail)", cb(e.cl.LD)))
				continue
			}
			i, _ := strconv.Atoi(ln[1:])
			if e.g.L[i].Fail != "" {
				parts = append(parts, fmt.Sprintf("(%s, FFail)", cb(e.cl.L[i].Addr)))
				continue
			}
			t := ""
			if kind == "topic" {
				t = topic
			}
			_, term := e.lookupdServed(i, t)
			parts = append(parts, fmt.Sprintf("(%s, FOk %s)", cb(e.cl.L[i].Addr), term))
		}
		if kind == "topic" {
			return "(SLookupTopic [" + strings.Join(parts, ";") + "])"
		}
		return "(SLookupNodes [" + strings.Join(parts, ";") + "])"
	}
	var parts []string
	for _, nn := range e.g.Nsqds {
		if nn == "ND" {
			parts = append(parts, fmt.Sprintf("(%s, mkDN false [] None)", cb(e.cl.ND)))
			continue
		}
		i, _ := strconv.Atoi(nn[1:])
		n := e.g.N[i]
		st := e.cl.N[i]
		statsOK := !n.namesFail()
		var names []string
		if statsOK {
			t := ""
			if kind == "topic" {
				t = topic
			}
			names = n.names(t)
		}
		info := "None"
		if !n.infoFail() {
			bc := "127.0.0.1"
			if n.NoBcast {
				bc = ""
			}
			info = fmt.Sprintf("(Some (mkProd %s %s %s %s [] %s [] []))", cb(bc), cb(strconv.Itoa(st.Port)), cb(strconv.Itoa(st.Port+10000)), cb(n.Hostname), cb("1.3.0"))
		}
		parts = append(parts, fmt.Sprintf("(%s, mkDN %s %s %s)", cb(st.Addr), lib.CoqBool(statsOK), cbl(names), info))
	}
	if kind == "topic" {
		return fmt.Sprintf("(SDirectTopic %s [%s])", cb(topic), strings.Join(parts, ";"))
	}
	return "(SDirectNodes [" + strings.Join(parts, ";") + "])"
}

// ---- responses

type chanResp struct {
	Node          string `json:"node"`
	ChannelName   string `json:"channel_name"`
	Depth         int64  `json:"depth"`
	MemoryDepth   int64  `json:"memory_depth"`
	BackendDepth  int64  `json:"backend_depth"`
	InFlightCount int64  `json:"in_flight_count"`
	DeferredCount int64  `json:"deferred_count"`
	RequeueCount  int64  `json:"requeue_count"`
	TimeoutCount  int64  `json:"timeout_count"`
	MessageCount  int64  `json:"message_count"`
	Delivery      int64  `json:"delivery_msg_count"`
	Zone          int64  `json:"zone_local_msg_count"`
	Region        int64  `json:"region_local_msg_count"`
	Global        int64  `json:"global_msg_count"`
	ClientCount   int64  `json:"client_count"`
	Paused        bool   `json:"paused"`
	Nodes         []struct {
		Node string `json:"node"`
	} `json:"nodes"`
	Clients []*struct {
		Node     string `json:"node"`
		ClientID string `json:"client_id"`
	} `json:"clients"`
	Message string   `json:"message"`
	E2e     *e2eResp `json:"e2e_processing_latency"`
}

func (c chanResp) nums() string {
	v := []int64{c.Depth, c.MemoryDepth, c.BackendDepth, c.InFlightCount, c.DeferredCount, c.RequeueCount, c.TimeoutCount,
		c.MessageCount, c.Delivery, c.Zone, c.Region, c.Global, c.ClientCount}
	parts := make([]string, len(v))
	for i, x := range v {
		parts[i] = zs(x)
	}
	return "[" + strings.Join(parts, ";") + "]"
}

type topicResp struct {
	Depth        int64 `json:"depth"`
	MemoryDepth  int64 `json:"memory_depth"`
	BackendDepth int64 `json:"backend_depth"`
	MessageCount int64 `json:"message_count"`
	Delivery     int64 `json:"delivery_msg_count"`
	Zone         int64 `json:"zone_local_msg_count"`
	Region       int64 `json:"region_local_msg_count"`
	Global       int64 `json:"global_msg_count"`
	Paused       bool  `json:"paused"`
	Nodes        []struct {
		Node string `json:"node"`
	} `json:"nodes"`
	Channels []*chanResp `json:"channels"`
	Message  string      `json:"message"`
	E2e      *e2eResp    `json:"e2e_processing_latency"`
}

func (e *viewEnv) get(path string) (int, []byte) {
	e.cl.rec.Reset()
	st, body, err := e.admin.wire("", "GET", path, nil, nil)
	if err != nil {
		lib.Fatalf("GET %s: %v", path, err)
	}
	return st, body
}

func (e *viewEnv) emit(o *lib.Out, view, coq string, st int, warn bool, extra []string) {
	mode := "direct"
	if len(e.g.Lookupds) > 0 {
		mode = "lookupd"
	}
	nfailL, nfailN, nulls := 0, 0, 0
	for _, ln := range e.g.Lookupds {
		if ln == "LD" {
			nfailL++
		} else if i, _ := strconv.Atoi(ln[1:]); e.g.L[i].Fail != "" {
			nfailL++
		}
	}
	for _, n := range e.g.N {
		if n.statsFail() || n.InfoFail {
			nfailN++
		}
		for _, t := range n.Topics {
			if t.Null {
				nulls++
			}
			for _, c := range t.Channels {
				if c.Null {
					nulls++
				}
				for _, cl := range c.Clients {
					if cl.Null {
						nulls++
					}
				}
			}
		}
	}
	tags := append([]string{"view=" + view, "mode=" + mode, fmt.Sprintf("status=%d", st), fmt.Sprintf("warn=%v", warn),
		fmt.Sprintf("lookupds=%d", len(e.g.Lookupds)), fmt.Sprintf("failing_lookupds=%d", nfailL), fmt.Sprintf("failing_nsqds=%d", nfailN),
		fmt.Sprintf("null_elements=%v", nulls > 0)}, extra...)
	in := e.g
	in.Name = e.g.Name + "/" + view
	var input interface{} = in
	if viewInputWrap != nil {
		input = viewInputWrap(in)
	}
	o.Emit(lib.Case{Name: in.Name, Coq: coq, Input: input, Tags: tags, Nontrivial: true,
		Obs: map[string]interface{}{"status": st, "warn": warn}})
}

// set while a cluster of the corpus is run from the hostile profile: how its input is recorded
var viewInputWrap func(GCluster) interface{}

func msgOf(body []byte) bool {
	var m struct {
		Message string `json:"message"`
	}
	return json.Unmarshal(body, &m) == nil && m.Message != ""
}

func runCluster(o *lib.Out, cl *cluster, g GCluster, views []string) {
	cfg := AdminCfg{CIDR: "127.0.0.1/8"}
	for _, l := range g.Lookupds {
		cfg.Lookupds = append(cfg.Lookupds, cl.addr(l))
	}
	for _, n := range g.Nsqds {
		cfg.Nsqds = append(cfg.Nsqds, cl.addr(n))
	}
	mk := g
	if len(views) == 1 {
		mk.Name = g.Name + "/" + views[0]
	}
	markCurrent(mk)
	e := &viewEnv{cl: cl, g: g, admin: getAdmin(cfg)}
	e.install()
	want := func(v string) bool { return len(views) == 0 || contains(views, v) }
	lookupdMode := len(g.Lookupds) > 0

	if want("topics") {
		st, body := e.get("/api/topics")
		var r struct {
			Topics []string `json:"topics"`
		}
		json.Unmarshal(body, &r)
		var ups []string
		if lookupdMode {
			for _, ln := range g.Lookupds {
				if ln == "LD" {
					ups = append(ups, fmt.Sprintf("(%s, FFail)", cb(cl.LD)))
				} else if i, _ := strconv.Atoi(ln[1:]); g.L[i].Fail != "" {
					ups = append(ups, fmt.Sprintf("(%s, FFail)", cb(cl.L[i].Addr)))
				} else {
					ups = append(ups, fmt.Sprintf("(%s, FOk %s)", cb(cl.L[i].Addr), cbl(e.lookupdTopics(i))))
				}
			}
		} else {
			for _, nn := range g.Nsqds {
				if nn == "ND" {
					ups = append(ups, fmt.Sprintf("(%s, FFail)", cb(cl.ND)))
					continue
				}
				i, _ := strconv.Atoi(nn[1:])
				n := g.N[i]
				if n.namesFail() {
					ups = append(ups, fmt.Sprintf("(%s, FFail)", cb(cl.N[i].Addr)))
					continue
				}
				names := n.names("")
				ups = append(ups, fmt.Sprintf("(%s, FOk %s)", cb(cl.N[i].Addr), cbl(names)))
			}
		}
		warn := st == 200 && msgOf(body)
		coq := fmt.Sprintf("(J18.CTopics %s [%s] %d %s %s)", lib.CoqBool(lookupdMode), strings.Join(ups, ";"), st, lib.CoqBool(warn), cbl(r.Topics))
		e.emit(o, "topics", coq, st, warn, []string{fmt.Sprintf("topics_listed=%d", len(r.Topics))})
	}

	if want("nodes") {
		st, body := e.get("/api/nodes")
		var r struct {
			Nodes []struct {
				RemoteAddresses  []string `json:"remote_addresses"`
				Hostname         string   `json:"hostname"`
				BroadcastAddress string   `json:"broadcast_address"`
				TCPPort          int      `json:"tcp_port"`
				HTTPPort         int      `json:"http_port"`
				Topics           []struct {
					Topic      string `json:"topic"`
					Tombstoned bool   `json:"tombstoned"`
				} `json:"topics"`
			} `json:"nodes"`
		}
		json.Unmarshal(body, &r)
		var got []string
		for _, n := range r.Nodes {
			var ts []string
			for _, t := range n.Topics {
				ts = append(ts, fmt.Sprintf("(%s, %s)", cb(t.Topic), lib.CoqBool(t.Tombstoned)))
			}
			got = append(got, fmt.Sprintf("(mkON %s %s %s %s [%s] %s)", cb(n.BroadcastAddress), cb(strconv.Itoa(n.HTTPPort)), cb(strconv.Itoa(n.TCPPort)),
				cb(n.Hostname), strings.Join(ts, ";"), cbl(n.RemoteAddresses)))
		}
		warn := st == 200 && msgOf(body)
		coq := fmt.Sprintf("(J18.CNodes %s %d %s [%s])", e.stage1("nodes", ""), st, lib.CoqBool(warn), strings.Join(got, ";"))
		e.emit(o, "nodes", coq, st, warn, []string{fmt.Sprintf("nodes_listed=%d", len(r.Nodes))})
	}

	if want("topic") {
		st, body := e.get("/api/topics/" + url.PathEscape(g.Topic))
		var r topicResp
		json.Unmarshal(body, &r)
		nums := []int64{r.Depth, r.MemoryDepth, r.BackendDepth, r.MessageCount, r.Delivery, r.Zone, r.Region, r.Global}
		np := make([]string, len(nums))
		for i, x := range nums {
			np[i] = zs(x)
		}
		var nodes, chans []string
		for _, n := range r.Nodes {
			nodes = append(nodes, n.Node)
		}
		for _, c := range r.Channels {
			if c != nil {
				chans = append(chans, fmt.Sprintf("(mkOC %s %s %s %s)", cb(c.ChannelName), c.nums(), lib.CoqBool(c.Paused), obsE2eTerm(c.E2e)))
			}
		}
		warn := st == 200 && r.Message != ""
		coq := fmt.Sprintf("(J18.CTopic %s %s %s %d %s [%s] %s %s [%s] %s)", e.stage1("topic", g.Topic), e.statsLup(g.Topic, "", false), cb(g.Topic),
			st, lib.CoqBool(warn), strings.Join(np, ";"), lib.CoqBool(r.Paused), cbl(nodes), strings.Join(chans, ";"), obsE2eTerm(r.E2e))
		e.emit(o, "topic", coq, st, warn, append([]string{fmt.Sprintf("topic_nodes=%d", len(nodes)), fmt.Sprintf("topic_channels=%d", len(chans))},
			e.e2eTags(g.Topic, "")...))
	}

	if want("channel") {
		st, body := e.get("/api/topics/" + url.PathEscape(g.Topic) + "/" + url.PathEscape(g.Channel))
		var r chanResp
		json.Unmarshal(body, &r)
		var nodes, clients []string
		for _, n := range r.Nodes {
			nodes = append(nodes, n.Node)
		}
		for _, c := range r.Clients {
			if c != nil {
				clients = append(clients, fmt.Sprintf("(%s, %s)", cb(c.Node), cb(c.ClientID)))
			}
		}
		warn := st == 200 && r.Message != ""
		coq := fmt.Sprintf("(J18.CChannel %s %s %s %s %d %s %s %s %s [%s] %s)", e.stage1("topic", g.Topic), e.statsLup(g.Topic, g.Channel, true),
			cb(g.Topic), cb(g.Channel), st, lib.CoqBool(warn), r.nums(), lib.CoqBool(r.Paused), cbl(nodes), strings.Join(clients, ";"), obsE2eTerm(r.E2e))
		e.emit(o, "channel", coq, st, warn, append([]string{fmt.Sprintf("channel_nodes=%d", len(nodes)), fmt.Sprintf("channel_clients=%d", len(clients))},
			e.e2eTags(g.Topic, g.Channel)...))
	}

	if want("counter") {
		st, body := e.get("/api/counter")
		var r struct {
			Stats map[string]struct {
				Node         string `json:"node"`
				TopicName    string `json:"topic_name"`
				ChannelName  string `json:"channel_name"`
				MessageCount int64  `json:"message_count"`
			} `json:"stats"`
		}
		json.Unmarshal(body, &r)
		var keys []string
		for k := range r.Stats {
			keys = append(keys, k)
		}
		sort.Strings(keys)
		var rows []string
		for _, k := range keys {
			s := r.Stats[k]
			rows = append(rows, fmt.Sprintf("(%s, %s, %s, %s)", cb(s.TopicName), cb(s.ChannelName), cb(s.Node), zs(s.MessageCount)))
		}
		warn := st == 200 && msgOf(body)
		coq := fmt.Sprintf("(J18.CCounter %s %s %d %s [%s])", e.stage1("nodes", ""), e.statsLup("", "", false), st, lib.CoqBool(warn), strings.Join(rows, ";"))
		e.emit(o, "counter", coq, st, warn, []string{fmt.Sprintf("counter_rows=%d", len(rows))})
	}

	if want("node") {
		node := cl.addr(g.Node)
		st, body := e.get("/api/nodes/" + url.PathEscape(node))
		var r struct {
			Topics []*struct {
				TopicName string `json:"topic_name"`
			} `json:"topics"`
			TotalMessages int64  `json:"total_messages"`
			TotalClients  int64  `json:"total_clients"`
			Message       string `json:"message"`
		}
		json.Unmarshal(body, &r)
		var names []string
		for _, t := range r.Topics {
			if t != nil {
				names = append(names, t.TopicName)
			}
		}
		warn := st == 200 && r.Message != ""
		coq := fmt.Sprintf("(J18.CNode %s %s %s %d %s %s %s %s)", e.stage1("nodes", ""), e.statsLup("", "", true), cb(node),
			st, lib.CoqBool(warn), zs(r.TotalMessages), zs(r.TotalClients), cbl(names))
		e.emit(o, "node", coq, st, warn, nil)
	}
}

// ---------------------------------------------------------------- generator

var counterPool = []int64{0, 0, 0, 1, 2, 3, 7, 10, 100, 4096, 1 << 31, 1 << 40, 1<<62 + 5, 1<<63 - 1, 1<<63 - 2, -1, -5, -(1 << 63)}

func genCounter(r *lib.Rand) int64 {
	if r.Chance(70) {
		return int64(r.Intn(1000))
	}
	return counterPool[r.Intn(len(counterPool))]
}

var topicPool = []string{"orders", "events", "orders", "a.b-c_d", "events", "logs#ephemeral"}
var chanPool = []string{"ch", "archive", "ch", "c#ephemeral"}
var hostPool = []string{"alpha", "beta", "gamma", "alpha", ""}

func genChan(r *lib.Rand, name string) GChan {
	c := GChan{Name: name, Paused: r.Chance(25)}
	for i := range c.Num {
		c.Num[i] = genCounter(r)
	}
	if r.Chance(60) { // zone/region/global mostly zero (omitted fields)
		c.Num[7], c.Num[8], c.Num[9] = 0, 0, 0
	}
	nc := r.Intn(4)
	for i := 0; i < nc; i++ {
		if r.Chance(7) {
			c.Clients = append(c.Clients, GClient{Null: true})
		} else {
			c.Clients = append(c.Clients, GClient{ID: fmt.Sprintf("cl%d", r.Intn(50)), Host: hostPool[r.Intn(len(hostPool))]})
		}
	}
	c.OmitClients = r.Chance(10)
	c.E2e = genE2e(r, false) // (the first node's block is the receiver of the topic view's channel: a quantile repeated in it would be served as it came)
	c.ClaimMem = r.Chance(20)
	return c
}

func genTopic(r *lib.Rand, name string) GTopic {
	t := GTopic{Name: name, Paused: r.Chance(20), E2e: genE2e(r, true)}
	for i := range t.Num {
		t.Num[i] = genCounter(r)
	}
	if r.Chance(60) {
		t.Num[3], t.Num[4], t.Num[5] = 0, 0, 0
	}
	nch := r.Intn(4)
	if r.Chance(50) {
		nch = 2 + r.Intn(2)
	}
	for i := 0; i < nch; i++ {
		if r.Chance(3) {
			t.Channels = append(t.Channels, GChan{Null: true})
		} else {
			t.Channels = append(t.Channels, genChan(r, chanPool[r.Intn(len(chanPool))]))
		}
	}
	return t
}

func genCluster(r *lib.Rand, k int) GCluster {
	g := GCluster{Name: fmt.Sprintf("cluster-%d", k)}
	// an idle cluster: every e2e window is empty (count 0 on all nodes); otherwise on some
	genIdle = r.Chance(30)
	genNullish = r.Chance(15) // every e2e block of the cluster carries null entries
	genPctSet = genPercentileSet(r)
	fails := []string{"500", "garbage", "wrongtype", "bignum"}
	for i := range g.N {
		n := GNsqd{Hostname: []string{"alpha", "beta", "gamma", "delta", ""}[r.Intn(5)], NoBcast: r.Chance(8), IgnoreFilter: r.Chance(15)}
		if r.Chance(15) {
			n.Fail = fails[r.Intn(len(fails))]
		} else if r.Chance(6) {
			n.StatsFail = true
		} else if r.Chance(6) {
			n.InfoFail = true
		}
		nt := 1 + r.Intn(3)
		used := map[string]bool{}
		for j := 0; j < nt; j++ {
			if r.Chance(3) {
				n.Topics = append(n.Topics, GTopic{Null: true})
				continue
			}
			name := topicPool[r.Intn(len(topicPool))]
			if used[name] && r.Chance(80) {
				continue
			}
			used[name] = true
			n.Topics = append(n.Topics, genTopic(r, name))
		}
		g.N[i] = n
	}
	if r.Chance(65) {
		// nsqlookupd mode: 1-3 configured, some of them dead / failing
		nl := 1 + r.Intn(3)
		pool := []string{"L0", "L1", "L2"}
		for i := 0; i < nl; i++ {
			if r.Chance(12) {
				g.Lookupds = append(g.Lookupds, "LD")
			} else {
				g.Lookupds = append(g.Lookupds, pool[i])
			}
		}
		for i := range g.L {
			l := GLookupd{}
			if r.Chance(15) {
				l.Fail = []string{"500", "garbage", "wrongtype"}[r.Intn(3)]
			}
			for j := range g.N {
				if !r.Chance(70) {
					continue
				}
				p := GProducer{Node: fmt.Sprintf("N%d", j), Hostname: g.N[j].Hostname, Remote: fmt.Sprintf("10.0.%d.%d:5%d", i, j, j)}
				if r.Chance(8) {
					p.Remote = ""
				}
				for _, t := range g.N[j].Topics {
					if !t.Null && !contains(p.Topics, t.Name) {
						p.Topics = append(p.Topics, t.Name)
						p.Tombs = append(p.Tombs, r.Chance(12))
					}
				}
				if r.Chance(10) && len(p.Tombs) > 0 { // fewer tombstone flags than topics
					p.Tombs = p.Tombs[:r.Intn(len(p.Tombs))]
				}
				l.Producers = append(l.Producers, p)
			}
			if r.Chance(6) {
				l.Producers = append(l.Producers, GProducer{Null: true})
			}
			if r.Chance(10) {
				l.Producers = append(l.Producers, GProducer{Node: "ND", Hostname: "ghost", Remote: "10.9.9.9:1", Topics: []string{topicPool[r.Intn(len(topicPool))]}, Tombs: []bool{false}})
			}
			g.L[i] = l
		}
		if r.Chance(5) { // every nsqlookupd fails
			for i := range g.L {
				g.L[i].Fail = "500"
			}
		}
	} else {
		nn := 1 + r.Intn(4)
		for i := 0; i < nn; i++ {
			if r.Chance(12) {
				g.Nsqds = append(g.Nsqds, "ND")
			} else {
				g.Nsqds = append(g.Nsqds, fmt.Sprintf("N%d", i))
			}
		}
		if r.Chance(5) {
			for i := range g.N {
				g.N[i].Fail = "500"
			}
		}
	}
	// ask for a topic / channel that several nodes have (mostly)
	tcount, ccount := map[string]int{}, map[string]map[string]int{}
	for _, n := range g.N {
		for _, t := range n.Topics {
			if t.Null {
				continue
			}
			tcount[t.Name]++
			if ccount[t.Name] == nil {
				ccount[t.Name] = map[string]int{}
			}
			for _, c := range t.Channels {
				if !c.Null {
					ccount[t.Name][c.Name]++
				}
			}
		}
	}
	best := func(m map[string]int) string {
		var keys []string
		for k := range m {
			keys = append(keys, k)
		}
		sort.Strings(keys)
		b, bn := "", -1
		for _, k := range keys {
			if m[k] > bn || (m[k] == bn && r.Chance(40)) {
				b, bn = k, m[k]
			}
		}
		return b
	}
	g.Topic = topicPool[r.Intn(len(topicPool))]
	if len(tcount) > 0 && r.Chance(85) {
		g.Topic = best(tcount)
	}
	if r.Chance(5) {
		g.Topic = "no_such_topic"
	}
	g.Channel = chanPool[r.Intn(len(chanPool))]
	if len(ccount[g.Topic]) > 0 && r.Chance(85) {
		g.Channel = best(ccount[g.Topic])
	}
	g.Node = []string{"N0", "N1", "N2", "N3", "ND"}[r.Intn(5)]
	return g
}

func runView(o *lib.Out, r *lib.Rand, n int, replay string) {
	cl := newCluster()
	if replay != "" {
		var ins []GCluster
		lib.ReadReplay(replay, &ins)
		for _, g := range ins {
			view := ""
			if i := strings.LastIndex(g.Name, "/"); i >= 0 {
				view, g.Name = g.Name[i+1:], g.Name[:i]
			}
			if view == "" {
				runCluster(o, cl, g, nil)
			} else {
				runCluster(o, cl, g, []string{view})
			}
		}
		return
	}
	// the recorded witnesses first
	for _, w := range viewWitnesses() {
		runCluster(o, cl, w.g, w.views)
	}
	// every subset of failing upstreams, on one generated cluster in each mode
	runSweep(o, cl, r)
	for k := 0; k < n; k++ {
		runCluster(o, cl, genCluster(r, k), nil)
	}
	o.Stat("view_nsqadmin_instances", len(admins))
}

// runSweep: a cluster in which every nsqd has the topic and the channel asked for; every
// subset of the 4 nsqds failing (lookupd mode: against no / one / every nsqlookupd failing;
// direct mode: the failing ones fail at the producer stage) for the counter and topic views,
// and every subset of the 3 nsqlookupds failing for the list views.
func runSweep(o *lib.Out, cl *cluster, r *lib.Rand) {
	base := GCluster{Topic: "orders", Channel: "ch", Node: "N0"}
	genIdle, genNullish, genPctSet = false, false, []int{0, 1}
	for i := range base.N {
		n := GNsqd{Hostname: fmt.Sprintf("host%d", i)}
		t := genTopic(r, "orders")
		t.Channels = []GChan{genChan(r, "ch")}
		for j := range t.Channels[0].Clients {
			t.Channels[0].Clients[j].Null = false
			if t.Channels[0].Clients[j].ID == "" {
				t.Channels[0].Clients[j].ID = fmt.Sprintf("sw%d", j)
			}
		}
		if r.Chance(50) {
			t.Channels = append(t.Channels, genChan(r, "archive"))
		}
		n.Topics = []GTopic{t}
		if i%2 == 1 {
			n.Topics = append(n.Topics, genTopic(r, "events"))
		}
		base.N[i] = n
	}
	for i := range base.L {
		l := GLookupd{}
		for j := range base.N {
			if (i+j)%3 == 2 { // not every nsqlookupd knows every node
				continue
			}
			p := GProducer{Node: fmt.Sprintf("N%d", j), Hostname: base.N[j].Hostname, Remote: fmt.Sprintf("10.1.%d.%d:4150", i, j)}
			for _, t := range base.N[j].Topics {
				p.Topics = append(p.Topics, t.Name)
				p.Tombs = append(p.Tombs, false)
			}
			l.Producers = append(l.Producers, p)
		}
		base.L[i] = l
	}
	failKinds := []string{"500", "garbage", "wrongtype", "bignum"}
	k := 0
	for _, mode := range []string{"lookupd", "direct"} {
		for mask := 0; mask < 16; mask++ {
			lsets := []int{0}
			if mode == "lookupd" {
				lsets = []int{0, 1 << uint(mask%3), 7}
			}
			for _, lmask := range lsets {
				g := base
				g.Name = fmt.Sprintf("sweep-%s-n%02d-l%d", mode, mask, lmask)
				if mode == "lookupd" {
					g.Lookupds = []string{"L0", "L1", "L2"}
				} else {
					g.Nsqds = []string{"N0", "N1", "N2", "N3"}
				}
				for i := range g.N {
					if mask&(1<<uint(i)) != 0 {
						g.N[i].Fail = failKinds[(k+i)%len(failKinds)]
						if (k+i)%5 == 4 {
							g.N[i].Fail, g.N[i].StatsFail = "", true
						}
					}
				}
				for i := range g.L {
					if lmask&(1<<uint(i)) != 0 {
						g.L[i].Fail = []string{"500", "garbage", "wrongtype"}[(k+i)%3]
					}
				}
				views := []string{"counter", "topic"}
				if lmask == 7 || mask == 15 {
					views = []string{"counter"}
				}
				if k%4 == 0 {
					views = append(views, "channel")
				}
				runCluster(o, cl, g, views)
				k++
			}
		}
	}
	for lmask := 0; lmask < 8; lmask++ {
		g := base
		g.Name = fmt.Sprintf("sweep-lists-l%d", lmask)
		g.Lookupds = []string{"L0", "L1", "L2"}
		for i := range g.L {
			if lmask&(1<<uint(i)) != 0 {
				g.L[i].Fail = []string{"500", "garbage", "wrongtype"}[(lmask+i)%3]
			}
		}
		runCluster(o, cl, g, []string{"topics", "nodes"})
	}
}
